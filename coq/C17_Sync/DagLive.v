(* C17 — DAGMutex: the invariant DI holds in every reachable state of ordered balanced scripts (no operation panics),
   consumer counters = registered threads, and deadlock freedom: a reachable state in which no thread can step is final. *)
From Coq Require Import List Arith Bool Lia.
From Verif.C17_Sync Require Import Model Proofs ProofsDag SmView ProofsProgress DagInv DagSteps.
Import ListNotations.

Lemma nth_error_thf tl t th : nth_error tl t = Some th -> thf tl t = th /\ t < length tl.
Proof. apply nth_error_nth. Qed.
Lemma nth_error_hpf hl r m : nth_error hl r = Some m -> hpf hl r = m /\ r < length hl.
Proof. apply nth_error_nth. Qed.

Lemma script_upd tl gs t th' g' :
  (forall u, thr_script (thf tl u) (gof gs u)) -> t < length tl -> t < length gs -> thr_script th' g' ->
  forall u, thr_script (thf (upd t th' tl) u) (gof (upd t g' gs) u).
Proof.
  intros S L1 L2 X u. rewrite thf_upd, gof_upd by auto. destruct (u =? t); auto.
Qed.

Lemma DI_core_dscr h e tl gs t c td ds ds' :
  t < length tl ->
  DI_core (mkDag h e (upd t (mkDT c td ds) tl)) gs -> DI_core (mkDag h e (upd t (mkDT c td ds') tl)) gs.
Proof.
  intros Lt (L & F & W & C & T & O & Q & E). unfold DI_core in *; cbn [heap ents thr] in *.
  rewrite upd_length in *.
  split; auto. split; auto. split; auto. split; auto.
  split. { intros u. specialize (T u). rewrite thf_upd in * by auto. destruct (u =? t); auto. }
  split. { intros u r. specialize (O u r). rewrite thf_upd in * by auto. destruct (u =? t); auto. }
  split. { intros u r. specialize (Q u r). rewrite thf_upd in * by auto. destruct (u =? t); auto. }
  intros u id r n Lk. specialize (E u id r n Lk). rewrite thf_upd in * by auto. destruct (u =? t); auto.
Qed.

(* ---------- a later step of an operation on a per-entity mutex ---------- *)
Lemma cont_DI s gs t th r m m' rs c :
  DI s gs -> nth_error (thr s) t = Some th -> cur th = Some r -> nth_error (heap s) r = Some m ->
  sm_cont t c m = Some (m', rs) ->
  exists gs', DI (mkDag (upd r m' (heap s)) (ents s)
                        (upd t (mkDT (if engaged rs then Some r else None) (todo th) (dscr th)) (thr s))) gs'.
Proof.
  intros [D S] NT CU NH SC.
  destruct (nth_error_thf _ _ _ NT) as [TH Lt]. destruct (nth_error_hpf _ _ _ NH) as [HM Lr]. subst th m.
  pose proof D as (L & F & [W1 W2] & C & T & O & Q & E).
  assert (Lg : t < length gs) by lia.
  set (m := hpf (heap s) r) in *.
  assert (Oc1 : occ t m <= 1) by apply O.
  assert (Oc2 : 0 < occ t m) by (apply O; auto).
  pose proof (T t) as [T1 T2]. rewrite CU in T2. fold m in T2.
  pose proof (S t) as (H' & AS & DB).
  assert (I' : sm_inv m') by (eapply sm_cont_inv; eauto; apply hpf_inv; auto).
  pose proof (frame_cont _ _ _ _ _ SC) as Fr.
  pose proof (Q t r) as [Q1 Q2]. fold m in Q1, Q2.
  unfold occ in Oc1, Oc2.
  destruct (sm_cont_self t c m m' rs) as (_ & [(K & V1 & V2 & V3 & [(-> & V4 & V5)|(-> & V4 & V5 & V6)]) |
     [(K & V1 & V2 & V3 & [(-> & V4 & V5 & V6)|(-> & V4 & V5 & V6)]) | (K & -> & V1 & V2 & V3)]]); auto.
  - (* woken writer, granted *)
    assert (VW : 1 <= vW t m) by (unfold vW; lia).
    destruct (gP (gof gs t)) as [|[id w] ps] eqn:P; [lia|].
    destruct T2 as [[n Lk] T3]. destruct w; [|lia].
    simpl in AS. destruct (all_lt (gH (gof gs t)) id) eqn:AL; [|discriminate].
    destruct (acquiring_facts s gs t id true ps D P) as [_ F2]. rewrite CU in F2.
    exists (upd t (mkG ((id, true) :: gH (gof gs t)) ps) gs). split.
    + simpl. eapply grant_step with (w := true); eauto; unfold occ; simpl; lia.
    + apply script_upd; auto. exists H'. auto.
  - (* woken writer, parks again *)
    assert (VW : 1 <= vW t m) by (unfold vW; lia).
    destruct (gP (gof gs t)) as [|[id w] ps] eqn:P; [lia|].
    destruct T2 as [[n Lk] T3]. destruct w; [|lia].
    destruct (acquiring_facts s gs t id true ps D P) as [_ F2]. rewrite CU in F2.
    exists (upd t (gof gs t) gs). split.
    + simpl. eapply park_step with (w := true); eauto; unfold occ; simpl; lia.
    + apply script_upd; auto. exists H'. rewrite P. auto.
  - (* woken reader, granted *)
    assert (VR : 1 <= vR t m) by (unfold vR; lia).
    destruct (gP (gof gs t)) as [|[id w] ps] eqn:P; [lia|].
    destruct T2 as [[n Lk] T3]. destruct w; [lia|].
    simpl in AS. destruct (all_lt (gH (gof gs t)) id) eqn:AL; [|discriminate].
    destruct (acquiring_facts s gs t id false ps D P) as [_ F2]. rewrite CU in F2.
    exists (upd t (mkG ((id, false) :: gH (gof gs t)) ps) gs). split.
    + simpl. eapply grant_step with (w := false); eauto; unfold occ; simpl; lia.
    + apply script_upd; auto. exists H'. auto.
  - (* woken reader, parks again *)
    assert (VR : 1 <= vR t m) by (unfold vR; lia).
    destruct (gP (gof gs t)) as [|[id w] ps] eqn:P; [lia|].
    destruct T2 as [[n Lk] T3]. destruct w; [lia|].
    destruct (acquiring_facts s gs t id false ps D P) as [_ F2]. rewrite CU in F2.
    exists (upd t (gof gs t) gs). split.
    + simpl. eapply park_step with (w := false); eauto; unfold occ; simpl; lia.
    + apply script_upd; auto. exists H'. rewrite P. auto.
  - (* notification delivered *)
    destruct (gP (gof gs t)) as [|[id w] ps] eqn:P; [|destruct T2 as [_ T3]; destruct w; lia].
    exists (upd t (gof gs t) gs). split.
    + simpl. apply (release_step s gs t r m' false (todo (thf (thr s) t))); auto; simpl; fold m; try lia.
      unfold occ in V1. lia.
    + apply script_upd; auto. exists H'. rewrite P. auto.
Qed.

(* ---------- the first step of a micro-operation ---------- *)
Lemma start_DI s gs t th r a rest m m' rs :
  DI s gs -> nth_error (thr s) t = Some th -> cur th = None -> todo th = MAct r a :: rest ->
  nth_error (heap s) r = Some m -> sm_start t a m = (m', rs) ->
  rs <> RPanic /\
  exists gs', DI (mkDag (upd r m' (heap s)) (ents s)
                        (upd t (mkDT (if engaged rs then Some r else None) rest (dscr th)) (thr s))) gs'.
Proof.
  intros [D S] NT CU TD NH SS.
  destruct (nth_error_thf _ _ _ NT) as [TH Lt]. destruct (nth_error_hpf _ _ _ NH) as [HM Lr]. subst th m.
  pose proof D as (L & F & [W1 W2] & C & T & O & Q & E).
  assert (Lg : t < length gs) by lia.
  set (m := hpf (heap s) r) in *.
  assert (Oc : occ t m = 0).
  { destruct (O t r) as [_ O2]. fold m in O2. destruct (occ t m); auto. assert (X : cur (thf (thr s) t) = Some r) by (apply O2; lia). congruence. }
  pose proof (T t) as [T1 _].
  pose proof (S t) as (H' & AS & DB).
  assert (Im : sm_inv m) by (apply hpf_inv; auto).
  assert (I' : sm_inv m') by (eapply sm_start_inv; eauto).
  pose proof (Q t r) as [Q1 Q2]. fold m in Q1, Q2. rewrite TD in Q1, Q2. simpl in Q1, Q2. rewrite Nat.eqb_refl in Q1, Q2.
  pose proof (sm_start_self t a m m' rs SS) as SF.
  unfold occ in Oc.
  destruct (gP (gof gs t)) as [|[id w] ps] eqn:P.
  - (* unlocking *)
    rewrite TD in T1. inversion T1 as [|x l U1 U2]; subst.
    assert (OO : forall r2, r2 <> r -> owes ARUnlock r2 rest = owes ARUnlock r2 (todo (thf (thr s) t)) /\
                                       owes AUnlock r2 rest = owes AUnlock r2 (todo (thf (thr s) t))).
    { intros r2 N. rewrite TD. simpl. destruct (Nat.eqb_spec r r2); [congruence|]. simpl. auto. }
    destruct a; try discriminate; simpl in Q1, Q2.
    + (* RUnlock *)
      destruct (hR_ra t m Im) as (R1 & R2 & R3); [lia|].
      assert (M : mem t (rd m) = true) by (apply mem_cnt; unfold hR in Q1; lia).
      destruct SF as [(_ & _ & [SF|SF])|(_ & _ & S1 & S2 & S3 & S4 & S5)]; [congruence|congruence|].
      specialize (S4 M).
      assert (Fr : frame_ok t m m') by (eapply frame_start; eauto; discriminate).
      destruct S5 as [[-> S5]|[-> S5]]; (split; [discriminate|]); exists (upd t (gof gs t) gs); split.
      * simpl. apply (release_step s gs t r m' false rest); auto; simpl; fold m; try rewrite TD; simpl;
          rewrite ?Nat.eqb_refl; simpl; unfold occ; try lia.
      * apply script_upd; auto. exists H'. rewrite P. auto.
      * simpl. apply (release_step s gs t r m' true rest); auto; simpl; fold m; try rewrite TD; simpl;
          rewrite ?Nat.eqb_refl; simpl; unfold occ; try lia.
      * apply script_upd; auto. exists H'. rewrite P. auto.
    + (* Unlock *)
      destruct (hW_wa t m Im) as (W3 & W4 & W5 & W6); [lia|].
      destruct SF as [(_ & _ & SF)|(_ & -> & S1 & S2 & S3 & S4 & S5)]; [lia|].
      assert (Fr : frame_ok t m m') by (eapply frame_start; eauto; discriminate).
      assert (HW1 : hW t m <= 1).
      { unfold hW. pose proof (cnt_le_length t (wr m)). destruct Im as (_ & I2 & _). rewrite W3 in I2. lia. }
      split; [discriminate|]. exists (upd t (gof gs t) gs). split.
      * simpl. apply (release_step s gs t r m' true rest); auto; simpl; fold m; try rewrite TD; simpl;
          rewrite ?Nat.eqb_refl; simpl; unfold occ; try lia.
      * apply script_upd; auto. exists H'. rewrite P. auto.
  - (* locking *)
    destruct (acquiring_facts s gs t id w ps D P) as [_ F2]. rewrite CU, TD in F2.
    inversion F2 as [|x y l1 l2 MO F3]; subst. destruct MO as (r0 & n & Lk & EQ). cbn [fst snd] in *.
    inversion EQ; subst r0 a. clear EQ.
    simpl in AS. destruct (all_lt (gH (gof gs t)) id) eqn:AL; [|discriminate].
    assert (Fr : frame_ok t m m') by (eapply frame_start; eauto; destruct w; discriminate).
    destruct w; cbn [lockact] in *.
    + destruct SF as (S1 & S2 & S3 & [(-> & S4 & S5)|(-> & S4 & S5 & S6)]); (split; [discriminate|]).
      * exists (upd t (mkG ((id, true) :: gH (gof gs t)) ps) gs). split.
        -- simpl. eapply grant_step with (w := true); eauto; unfold occ; simpl; lia.
        -- apply script_upd; auto. exists H'. auto.
      * exists (upd t (gof gs t) gs). split.
        -- simpl. eapply park_step with (w := true); eauto; unfold occ; simpl; lia.
        -- apply script_upd; auto. exists H'. rewrite P. simpl. rewrite AL. auto.
    + destruct SF as (S1 & S2 & S3 & [(-> & S4 & S5 & S6)|(-> & S4 & S5 & S6)]); (split; [discriminate|]).
      * exists (upd t (mkG ((id, false) :: gH (gof gs t)) ps) gs). split.
        -- simpl. eapply grant_step with (w := false); eauto; unfold occ; simpl; lia.
        -- apply script_upd; auto. exists H'. auto.
      * exists (upd t (gof gs t) gs). split.
        -- simpl. eapply park_step with (w := false); eauto; unfold occ; simpl; lia.
        -- apply script_upd; auto. exists H'. rewrite P. simpl. rewrite AL. auto.
Qed.

(* ---------- the first step of a DAGMutex operation (under d.Mutex) ---------- *)
Lemma begin_DI s gs t th o rest hp1 es1 ms :
  DI s gs -> nth_error (thr s) t = Some th -> cur th = None -> todo th = [] -> dscr th = o :: rest ->
  dag_begin o (heap s) (ents s) = (hp1, es1, ms) ->
  exists gs', DI (mkDag hp1 es1 (upd t (mkDT None ms rest) (thr s))) gs'.
Proof.
  intros [D S] NT CU TD DS DB0.
  destruct (nth_error_thf _ _ _ NT) as [TH Lt].
  destruct th as [cu td ds]; simpl in CU, TD, DS; subst cu td ds.
  pose proof D as (L & F & W & C & T & O & Q & E).
  assert (Lg : t < length gs) by lia.
  pose proof (T t) as [T1 _]. rewrite TH in T1. cbn [cur todo] in T1.
  destruct (gP (gof gs t)) as [|p ps] eqn:P; [|inversion T1].
  pose proof (S t) as (H' & AS & DB). rewrite TH in DB. cbn [dscr] in DB. rewrite P in AS. simpl in AS.
  inversion AS; subst H'; clear AS.
  destruct o; simpl in DB0, DB.
  - (* RLock ids *)
    destruct (acq_seq (gH (gof gs t)) (map (fun i => (i, false)) ids)) as [H2|] eqn:AS2; [|discriminate].
    exists (upd t (mkG (gH (gof gs t)) (map (fun i => (i, false)) ids)) gs). split.
    + pose proof (reg_all ids s gs t [] (DRLock ids :: rest) hp1 es1 ms D Lt TH) as X.
      rewrite P in X. simpl in X. apply DI_core_dscr with (ds := DRLock ids :: rest); auto.
      apply X; auto. rewrite AS2. discriminate.
    + apply script_upd; auto. exists H2. auto.
  - (* RUnlock ids *)
    destruct (unregister_all ids (ents s)) as [es2 ms2] eqn:UA. inversion DB0; subst.
    destruct (rel_seq (gH (gof gs t)) ids) as [H2|] eqn:RS; [|discriminate].
    exists (upd t (mkG H2 []) gs). split.
    + apply DI_core_dscr with (ds := DRUnlock ids :: rest); auto.
      apply (unreg_all ids s gs t [] _ es1 ms H2 D Lt TH P RS UA).
    + apply script_upd; auto. exists H2. auto.
  - (* Lock id *)
    destruct (register id (heap s) (ents s)) as [[hp2 es2] m] eqn:RG. inversion DB0; subst.
    destruct (all_lt (gH (gof gs t)) id) eqn:AL; [|discriminate].
    exists (upd t (mkG (gH (gof gs t)) [(id, true)]) gs). split.
    + pose proof (reg_one s gs t id true hp1 es1 m [] (DLock id :: rest) D Lt TH) as X. rewrite P in X. simpl in X.
      apply DI_core_dscr with (ds := DLock id :: rest); auto.
    + apply script_upd; auto. exists ((id, true) :: gH (gof gs t)). simpl. rewrite AL. auto.
  - (* Unlock id *)
    apply andb_true_iff in DB. destruct DB as [HA DB].
    destruct (unregister id (ents s)) as [es2 ur] eqn:UR.
    destruct (unreg_one s gs t id true [] (DUnlock id :: rest) es2 ur D Lt TH P HA UR) as (ms1 & MS & D1).
    exists (upd t (mkG (drop id (gH (gof gs t))) []) gs). split.
    + apply DI_core_dscr with (ds := DUnlock id :: rest); auto. simpl in D1.
      destruct MS as [[-> ->]|[m [-> ->]]]; inversion DB0; subst; exact D1.
    + apply script_upd; auto. exists (drop id (gH (gof gs t))). auto.
Qed.

(* ---------- every step preserves the invariant and does not panic ---------- *)
Theorem dstep_DI s gs t c s' ev :
  DI s gs -> dstep_ev s t c = Some (s', ev) -> ev = DVStep /\ exists gs', DI s' gs'.
Proof.
  intros D H. unfold dstep_ev in H.
  destruct (nth_error (thr s) t) as [th|] eqn:NT; [|discriminate].
  destruct (cur th) as [r|] eqn:CU.
  - destruct (nth_error (heap s) r) as [m|] eqn:NH; [|discriminate].
    destruct (sm_cont t c m) as [[m' rs]|] eqn:SC; [|discriminate].
    inversion H; subst. split; auto. eapply cont_DI; eauto.
  - destruct (todo th) as [|[r a|] rest] eqn:TD.
    + destruct (dscr th) as [|o rest] eqn:DS; [discriminate|].
      destruct (dag_begin o (heap s) (ents s)) as [[hp1 es1] ms] eqn:DB. inversion H; subst. split; auto.
      eapply begin_DI; eauto.
    + destruct (nth_error (heap s) r) as [m|] eqn:NH; [|discriminate].
      destruct (sm_start t a m) as [m' rs] eqn:SS.
      destruct (start_DI s gs t th r a rest m m' rs D NT CU TD NH SS) as [NP X].
      destruct rs; try congruence; inversion H; subst; split; auto.
    + exfalso. destruct D as [(L & F & W & C & T & _) S]. destruct (nth_error_thf _ _ _ NT) as [TH Lt].
      pose proof (T t) as [T1 _]. rewrite TH, CU, TD in T1.
      destruct (gP (gof gs t)) as [|p ps].
      * inversion T1; subst. discriminate.
      * inversion T1 as [|x y l1 l2 MO F3]; subst. destruct MO as (? & ? & _ & X). discriminate.
Qed.

Lemma drun_DI sch : forall s gs, DI s gs -> exists gs', DI (drun sch s) gs'.
Proof.
  induction sch as [|[t c] r IH]; simpl; intros s gs D; eauto.
  unfold dstep. destruct (dstep_ev s t c) as [[s' ev]|] eqn:E; simpl; eauto.
  destruct (dstep_DI _ _ _ _ _ _ D E) as [_ [gs' D']]. eauto.
Qed.

Lemma regsum_init id {A} (l : list A) : regsum id (map (fun _ => g0) l) = 0.
Proof. induction l; simpl; auto. Qed.

Lemma DI_init scripts : Forall ordered_balanced scripts -> DI (dinit scripts) (map (fun _ => g0) scripts).
Proof.
  intros FB.
  assert (TH : forall t, thf (thr (dinit scripts)) t = mkDT None [] (nth t scripts [])).
  { intros t. unfold thf, dinit; cbn [thr]. change th0 with ((fun sc => mkDT None [] sc) []). apply map_nth. }
  assert (G : forall t, gof (map (fun _ : list dop => g0) scripts) t = g0).
  { intros t. unfold gof. change g0 with ((fun _ : list dop => g0) []) at 2. apply map_nth. }
  assert (HP : forall r, hpf (heap (dinit scripts)) r = sm0) by (intros r; destruct r; reflexivity).
  split.
  - unfold DI_core. split; [unfold dinit; cbn [thr]; rewrite !map_length; auto|].
    split; [constructor|]. split; [split; intros; simpl in *; discriminate|].
    split; [intros; rewrite regsum_init; reflexivity|].
    split. { intros t. rewrite TH, G. unfold thr_core; simpl. auto. }
    split. { intros t r. rewrite TH, HP. cbn [cur]. unfold occ, vW, vR, vN; simpl. split; [lia|]. split; [lia|discriminate]. }
    split. { intros t r. rewrite TH, HP. simpl. unfold hR, hW; simpl. lia. }
    intros t id r n Lk. simpl in Lk. discriminate.
  - intros t. rewrite TH, G. exists []. split; auto. cbn [dscr].
    destruct (nth_in_or_default t scripts []) as [H|H]; [rewrite Forall_forall in FB; apply FB; auto|rewrite H; reflexivity].
Qed.

Theorem DI_reachable scripts sch :
  Forall ordered_balanced scripts -> exists gs, DI (drun sch (dinit scripts)) gs.
Proof. intros F. eapply drun_DI. apply DI_init; auto. Qed.

(* no operation of an ordered balanced script ever panics, under any schedule *)
Theorem dag_no_panic scripts sch t c s' ev :
  Forall ordered_balanced scripts -> dstep_ev (drun sch (dinit scripts)) t c = Some (s', ev) -> ev = DVStep.
Proof.
  intros F H. destruct (DI_reachable scripts sch F) as [gs D]. eapply dstep_DI; eauto.
Qed.

(* ====================================================================================================== *)
(* Deadlock freedom                                                                                       *)
(* ====================================================================================================== *)
Definition dstuck (s : dag) : Prop := forall t c, dstep s t c = None.
Definition dfinal (th : dthread) : Prop := cur th = None /\ todo th = [] /\ dscr th = [].

(* nothing in flight and somebody parked: the mutex is held *)
Lemma sm_quiet_parked_held m :
  sm_inv m -> wk m = [] -> sg m = [] -> bc m = [] -> (wq m <> [] \/ rq m <> []) -> rd m <> [] \/ wr m <> [].
Proof.
  intros (I1 & I2 & I3 & I4 & I5 & I6) K1 K3 K4 PK.
  destruct (wa m) eqn:W.
  - right. destruct (wr m); simpl in *; [lia|discriminate].
  - left. destruct (ra m) eqn:R; [|destruct (rd m); simpl in *; [lia|discriminate]].
    exfalso. rewrite K1, K3 in I5. rewrite K4 in I6. rewrite K1 in I4. simpl in *.
    destruct PK as [PK|PK].
    + assert (X : 0 < pw m) by (destruct (wq m); simpl in *; [congruence|lia]).
      specialize (I5 eq_refl eq_refl X). lia.
    + assert (Y : 0 < length (rq m)) by (destruct (rq m); simpl; [congruence|lia]).
      destruct (pw m) eqn:PW; [specialize (I6 Y eq_refl eq_refl); lia|].
      assert (X : 0 < S n) by lia. specialize (I5 eq_refl eq_refl X). lia.
Qed.

(* in a stuck state a thread is final or parked inside the Lock / RLock of the next entity it registered *)
Lemma stuck_thread_dag s gs t : DI s gs -> dstuck s ->
  dfinal (thf (thr s) t) \/
  exists id w ps r n, gP (gof gs t) = (id, w) :: ps /\ cur (thf (thr s) t) = Some r /\ lookup id (ents s) = Some (r, n) /\
                      vrun t (hpf (heap s) r) = 0 /\ (if w then vW t (hpf (heap s) r) = 1 else vR t (hpf (heap s) r) = 1).
Proof.
  intros [D S] ST.
  destruct (Nat.lt_ge_cases t (length (thr s))) as [Lt|Ge].
  2: { left. unfold thf. rewrite nth_overflow by auto. repeat split. }
  specialize (ST t 0). unfold dstep, dstep_ev in ST.
  rewrite (nth_error_nth' _ th0 Lt) in ST. fold (thf (thr s) t) in ST.
  pose proof D as (L & F & [W1 W2] & C & T & O & Q & E).
  pose proof (T t) as [T1 T2]. pose proof (O t) as Ot. pose proof (Q t) as Qt.
  set (th := thf (thr s) t) in *.
  destruct (cur th) as [r|] eqn:CU.
  - right.
    assert (Lr : r < length (heap s)).
    { destruct (Nat.lt_ge_cases r (length (heap s))); auto. exfalso. destruct (Ot r) as [_ O2].
      rewrite hpf_overflow in O2 by auto. assert (X : 0 < occ t sm0) by (apply O2; auto).
      unfold occ, vW, vR, vN in X; simpl in X; lia. }
    rewrite (hpf_nth_error _ _ Lr) in ST.
    destruct (sm_cont t 0 (hpf (heap s) r)) as [[m' rs]|] eqn:SC; [simpl in ST; discriminate|].
    apply cont_none_parked in SC.
    destruct (gP (gof gs t)) as [|[id w] ps] eqn:P.
    + exfalso. unfold vN, vrun in *. lia.
    + destruct T2 as [[n Lk] T3]. exists id, w, ps, r, n. repeat split; auto.
  - left. destruct (todo th) as [|[r a|] rest] eqn:TD.
    + destruct (dscr th) eqn:DS; [repeat split; auto|].
      destruct (dag_begin _ _ _) as [[? ?] ?]. simpl in ST. discriminate.
    + exfalso.
      assert (Lr : r < length (heap s)).
      { destruct (gP (gof gs t)) as [|[id w] ps] eqn:P.
        - inversion T1 as [|x l U1 U2]; subst. destruct (Qt r) as [Q1 Q2].
          simpl in Q1, Q2. rewrite Nat.eqb_refl in *.
          destruct (Nat.lt_ge_cases r (length (heap s))); auto. rewrite hpf_overflow in * by auto.
          unfold hR, hW in *; simpl in *. destruct a; simpl in *; try discriminate; lia.
        - inversion T1 as [|x y l1 l2 MO F3]; subst. destruct MO as (r0 & n & Lk & EQ). inversion EQ; subst.
          apply (W1 _ _ _ Lk). }
      rewrite (hpf_nth_error _ _ Lr) in ST. destruct (sm_start t a _) as [m' rs]. destruct rs; simpl in ST; discriminate.
    + simpl in ST. discriminate.
Qed.

Lemma stuck_quiet_dag s gs : DI s gs -> dstuck s -> forall r u, vrun u (hpf (heap s) r) = 0.
Proof.
  intros [D S] ST r u. destruct (vrun u (hpf (heap s) r)) eqn:V; auto. exfalso.
  pose proof D as (L & F & W & C & T & O & Q & E).
  assert (OC : 0 < occ u (hpf (heap s) r)) by (unfold occ, vW, vR, vN, vrun in *; lia).
  destruct (O u r) as [_ O2]. apply O2 in OC.
  assert (Lt : u < length (thr s)).
  { destruct (Nat.lt_ge_cases u (length (thr s))); auto. unfold thf in OC. rewrite nth_overflow in OC by auto. discriminate. }
  assert (Lr : r < length (heap s)).
  { destruct (Nat.lt_ge_cases r (length (heap s))); auto. rewrite hpf_overflow in V by auto. discriminate. }
  specialize (ST u 0). unfold dstep, dstep_ev in ST.
  rewrite (nth_error_nth' _ th0 Lt) in ST. fold (thf (thr s) u) in ST. rewrite OC, (hpf_nth_error _ _ Lr) in ST.
  destruct (sm_cont u 0 (hpf (heap s) r)) as [[m' rs]|] eqn:SC; [simpl in ST; discriminate|].
  apply (vrun_cont u 0) in SC; auto. lia.
Qed.

Lemma stuck_owes_zero s gs h a r : DI s gs -> dstuck s -> a = ARUnlock \/ a = AUnlock -> owes a r (todo (thf (thr s) h)) = 0.
Proof.
  intros D ST A. destruct (stuck_thread_dag s gs h D ST) as [(_ & -> & _)|(id & w & ps & r0 & n & P & _)]; auto.
  destruct D as [D _]. destruct (acquiring_facts s gs h id w ps D P) as [OW _]. auto.
Qed.

Definition waits_of (s : dag) (gs : list ghost) (t : nat) : option nat :=
  match cur (thf (thr s) t), gP (gof gs t) with Some _, (id, _) :: _ => Some id | _, _ => None end.
Definition holds_of (gs : list ghost) (h e : nat) : Prop :=
  has e true (gH (gof gs h)) = true \/ has e false (gH (gof gs h)) = true.
Definition head_id (g : ghost) : nat := match gP g with (id, _) :: _ => id | [] => 0 end.

Lemma list_max_in {A} (f : A -> nat) l x : In x l -> f x <= list_max (map f l).
Proof.
  intros H. assert (F : Forall (fun k => k <= list_max (map f l)) (map f l)) by (apply list_max_le; lia).
  rewrite Forall_forall in F. apply F. apply in_map. auto.
Qed.

(* Deadlock freedom: threads that acquire DAGMutex entities along the strict order of ids and release what they hold
   never reach a state in which nobody can step, unless every thread has finished. *)
Theorem dag_acyclic_all scripts sch :
  Forall ordered_balanced scripts ->
  let s := drun sch (dinit scripts) in
  dstuck s -> forall th, In th (thr s) -> dfinal th.
Proof.
  intros FB s ST th HIn. destruct (DI_reachable scripts sch FB) as [gs D]. fold s in D.
  pose proof D as [Dc Sc]. pose proof Dc as (L & F & [W1 W2] & C & T & O & Q & E).
  assert (NW : forall t, t < length (thr s) -> waits_of s gs t = None).
  { apply (acyclic_no_waiter (length (thr s)) (waits_of s gs) (holds_of gs)) with (bound := S (list_max (map head_id gs))).
    - (* a waited entity is held *)
      intros t e Lt Wt.
      destruct (stuck_thread_dag s gs t D ST) as [(Fi & _)|(id & w & ps & r & n & P & CU & Lk & VR & VW)].
      { unfold waits_of in Wt. rewrite Fi in Wt. discriminate. }
      unfold waits_of in Wt. rewrite CU, P in Wt. inversion Wt; subst e.
      pose proof (stuck_quiet_dag s gs D ST r) as QT. set (m := hpf (heap s) r) in *.
      assert (K1 : wk m = []) by (apply cnt_nil_all; intros u; specialize (QT u); unfold vrun in QT; lia).
      assert (K2 : rk m = []) by (apply cnt_nil_all; intros u; specialize (QT u); unfold vrun in QT; lia).
      assert (K3 : sg m = []) by (apply cnt_nil_all; intros u; specialize (QT u); unfold vrun in QT; lia).
      assert (K4 : bc m = []) by (apply cnt_nil_all; intros u; specialize (QT u); unfold vrun in QT; lia).
      assert (PK : wq m <> [] \/ rq m <> []).
      { destruct w; [left|right]; intros Z; unfold vW, vR in VW; rewrite Z, ?K1, ?K2 in VW; simpl in VW; lia. }
      assert (HD : exists h, 0 < hR h m + hW h m).
      { destruct (sm_quiet_parked_held m (hpf_inv _ r F) K1 K3 K4 PK) as [X|X]; apply cnt_pos_ex in X;
          destruct X as [h X]; exists h; unfold hR, hW; lia. }
      destruct HD as [h HD]. destruct (E h _ _ _ Lk) as [E1 E2]. fold m in E1, E2.
      rewrite (stuck_owes_zero s gs h ARUnlock r D ST) in E1 by auto.
      rewrite (stuck_owes_zero s gs h AUnlock r D ST) in E2 by auto.
      assert (HO : holds_of gs h id).
      { unfold holds_of. destruct (has id true (gH (gof gs h))), (has id false (gH (gof gs h))); simpl in *; auto; lia. }
      exists h. split; auto.
      destruct (Nat.lt_ge_cases h (length (thr s))); auto. exfalso.
      unfold holds_of, gof in HO. rewrite nth_overflow in HO by lia. simpl in HO. destruct HO; discriminate.
    - (* a holder has not finished, so it waits itself *)
      intros h e Lt HO.
      destruct (stuck_thread_dag s gs h D ST) as [(F1 & F2 & F3)|(id & w & ps & r & n & P & CU & _)].
      + exfalso. pose proof (T h) as [T1 _]. pose proof (Sc h) as (H' & AS & DB). rewrite F3 in DB. rewrite F1, F2 in T1.
        destruct (gP (gof gs h)) as [|p ps]; [|inversion T1]. simpl in AS.
        assert (X : H' = gH (gof gs h)) by congruence. subst H'.
        simpl in DB. unfold holds_of in HO. destruct (gH (gof gs h)); [|discriminate]. destruct HO; discriminate.
      + exists id. unfold waits_of. rewrite CU, P. reflexivity.
    - (* it waits for a greater entity *)
      intros h e e' HO Wt. unfold waits_of in Wt.
      destruct (cur (thf (thr s) h)); [|discriminate].
      destruct (gP (gof gs h)) as [|[id w] ps] eqn:P; [discriminate|]. inversion Wt; subst e'.
      destruct (Sc h) as (H' & AS & _). rewrite P in AS. simpl in AS.
      destruct (all_lt (gH (gof gs h)) id) eqn:AL; [|discriminate].
      destruct HO as [HO|HO]; eapply has_lt; eauto.
    - (* finitely many waited entities *)
      intros t e Wt. unfold waits_of in Wt. destruct (cur (thf (thr s) t)); [|discriminate].
      destruct (gP (gof gs t)) as [|[id w] ps] eqn:P; [discriminate|]. inversion Wt; subst e.
      assert (Lt : t < length gs).
      { destruct (Nat.lt_ge_cases t (length gs)); auto. unfold gof in P. rewrite nth_overflow in P by auto. discriminate. }
      pose proof (list_max_in head_id gs (gof gs t) (nth_In gs g0 Lt)) as X. unfold head_id at 1 in X. rewrite P in X. lia. }
  destruct (In_nth _ _ th0 HIn) as (t & Lt & <-). fold (thf (thr s) t).
  destruct (stuck_thread_dag s gs t D ST) as [Fi|(id & w & ps & r & nn & P & CU & _)]; auto.
  exfalso. specialize (NW t Lt). unfold waits_of in NW. rewrite CU, P in NW. discriminate.
Qed.

(* ---------- "some thread can step" is decidable, so a non-final reachable state has an enabled thread ---------- *)
Lemma dstep_choice_irrelevant s t c : dstep s t c = None -> forall c', dstep s t c' = None.
Proof.
  unfold dstep, dstep_ev. intros H c'. destruct (nth_error (thr s) t) as [th|]; auto.
  destruct (cur th) as [r|]; auto. destruct (nth_error (heap s) r) as [m|]; auto.
  destruct (sm_cont t c m) as [[? ?]|] eqn:E; [discriminate|].
  destruct (sm_cont t c' m) as [[? ?]|] eqn:E'; auto. exfalso.
  apply cont_none_parked in E.
  unfold sm_cont in E'. unfold vrun in *.
  destruct (mem t (wk m)) eqn:K1; [apply mem_cnt in K1; lia|].
  destruct (mem t (rk m)) eqn:K2; [apply mem_cnt in K2; lia|].
  destruct (mem t (sg m)) eqn:K3; [apply mem_cnt in K3; lia|].
  destruct (mem t (bc m)) eqn:K4; [apply mem_cnt in K4; lia|discriminate].
Qed.

Lemma dstuck_dec s : dstuck s \/ exists t c, dstep s t c <> None.
Proof.
  assert (D : forall k, (exists u, dstep s u 0 <> None) \/ (forall u, u < k -> dstep s u 0 = None)).
  { induction k as [|k [IH|IH]].
    - right. intros; lia.
    - left; auto.
    - destruct (dstep s k 0) eqn:E.
      + left. exists k. congruence.
      + right. intros u L. destruct (Nat.eq_dec u k); [subst; auto|apply IH; lia]. }
  destruct (D (length (thr s))) as [[u H]|H].
  - right. exists u, 0. auto.
  - left. intros t c. destruct (Nat.lt_ge_cases t (length (thr s))) as [L|L].
    + apply (dstep_choice_irrelevant s t 0); auto.
    + unfold dstep, dstep_ev. apply nth_error_None in L. rewrite L. reflexivity.
Qed.

Theorem dag_enabled_if_unfinished scripts sch :
  Forall ordered_balanced scripts ->
  let s := drun sch (dinit scripts) in
  (exists th, In th (thr s) /\ ~ dfinal th) -> exists t c, dstep s t c <> None.
Proof.
  intros FB s [th [HIn NF]]. destruct (dstuck_dec s) as [ST|E]; auto.
  exfalso. apply NF. apply (dag_acyclic_all scripts sch FB ST th HIn).
Qed.

(* ---------- consumer counters and ghost holders, spelled out ---------- *)
(* There is a ghost (per thread: the entities it holds and the ones its current Lock / RLock call has registered but not yet
   acquired) such that in the reachable state s:
   - every registry entry points to an allocated mutex, has a positive counter, and no two entities share a mutex;
   - the consumer counter of every entity is the number of threads that hold it or are acquiring it (0 = not in the registry);
   - for a live entity (id -> mutex r), thread t occurs in the ghost read (write) holder list of r exactly as often as
     it holds id in that mode plus the RUnlock (Unlock) micro-operations on r it has not yet performed; for any mutex,
     dropped or not, it occurs at least as often as it owes unlocks;
   - a thread is inside the lists of mutex r (parked / woken / owing a notification) iff r is its current mutex, at most once;
   - the held set is the one the remaining script releases (script position). *)
Theorem dag_consumers_all scripts sch :
  Forall ordered_balanced scripts ->
  let s := drun sch (dinit scripts) in
  exists gs : list ghost,
    length gs = length (thr s) /\
    ents_wf (ents s) (length (heap s)) /\
    (forall id, cntof (ents s) id = regsum id gs) /\
    (forall t id r n, lookup id (ents s) = Some (r, n) ->
       hR t (hpf (heap s) r) = b2n (has id false (gH (gof gs t))) + owes ARUnlock r (todo (thf (thr s) t)) /\
       hW t (hpf (heap s) r) = b2n (has id true (gH (gof gs t))) + owes AUnlock r (todo (thf (thr s) t))) /\
    (forall t r, owes ARUnlock r (todo (thf (thr s) t)) <= hR t (hpf (heap s) r) /\
                 owes AUnlock r (todo (thf (thr s) t)) <= hW t (hpf (heap s) r)) /\
    (forall t r, occ t (hpf (heap s) r) <= 1 /\ (0 < occ t (hpf (heap s) r) <-> cur (thf (thr s) t) = Some r)) /\
    (forall t, thr_core (ents s) (heap s) t (thf (thr s) t) (gof gs t)) /\
    (forall t, exists H', acq_seq (gH (gof gs t)) (gP (gof gs t)) = Some H' /\ dbal H' (dscr (thf (thr s) t)) = true).
Proof.
  intros FB s. destruct (DI_reachable scripts sch FB) as [gs [(L & F & W & C & T & O & Q & E) S]]. fold s in L, F, W, C, T, O, Q, E, S.
  exists gs. split; [exact L|]. split; [exact W|]. split; [intros; symmetry; apply C|].
  split; [exact E|]. split; [exact Q|]. split; [exact O|]. split; [exact T|]. exact S.
Qed.
