(* C17 — DAGMutex: every StarvingMutex ever allocated satisfies the StarvingMutex invariant in every reachable state
   (exclusion, pending-writer accounting, no lost wake-up per entity), misuse, and the max-waited-entity argument. *)
From Coq Require Import List Arith Bool Lia.
From Verif.C17_Sync Require Import Model Proofs.
Import ListNotations.

Lemma Forall_upd {A} (P : A -> Prop) n x (l : list A) : Forall P l -> P x -> Forall P (upd n x l).
Proof.
  revert n. induction l as [|y r IH]; intros n F Px; simpl; auto.
  inversion F; subst. destruct n; constructor; auto.
Qed.

Lemma Forall_nth_error {A} (P : A -> Prop) l n x : Forall P l -> nth_error l n = Some x -> P x.
Proof. intros F H. rewrite Forall_forall in F. apply F. eapply nth_error_In; eauto. Qed.

Lemma register_heap id hp es hp' es' r :
  Forall sm_inv hp -> register id hp es = (hp', es', r) -> Forall sm_inv hp'.
Proof.
  unfold register. intros F H. destruct (lookup id es) as [[r0 n]|]; inversion H; subst; auto.
  apply Forall_app. split; auto. constructor; [apply sm_inv_0|constructor].
Qed.

Lemma register_all_heap ids : forall hp es hp' es' ms,
  Forall sm_inv hp -> register_all ids hp es = (hp', es', ms) -> Forall sm_inv hp'.
Proof.
  induction ids as [|id r IH]; simpl; intros hp es hp' es' ms F H.
  - inversion H; subst; auto.
  - destruct (register id hp es) as [[hp1 es1] m] eqn:E1.
    destruct (register_all r hp1 es1) as [[hp2 es2] ms2] eqn:E2. inversion H; subst.
    eapply IH; [|eauto]. eapply register_heap; eauto.
Qed.

Lemma dag_begin_heap o hp es hp' es' ms :
  Forall sm_inv hp -> dag_begin o hp es = (hp', es', ms) -> Forall sm_inv hp'.
Proof.
  intros F H. destruct o; simpl in H.
  - eapply register_all_heap; eauto.
  - destruct (unregister_all ids es) as [es1 ms1]. inversion H; subst; auto.
  - destruct (register id hp es) as [[hp1 es1] m] eqn:E. inversion H; subst. eapply register_heap; eauto.
  - destruct (unregister id es) as [es1 [| |]]; inversion H; subst; auto.
Qed.

Lemma dstep_heap s t c s' : Forall sm_inv (heap s) -> dstep s t c = Some s' -> Forall sm_inv (heap s').
Proof.
  unfold dstep, dstep_ev. intros F H.
  destruct (nth_error (thr s) t) as [th|]; [|discriminate].
  destruct (cur th) as [r|].
  - destruct (nth_error (heap s) r) as [m|] eqn:N; [|discriminate].
    destruct (sm_cont t c m) as [[m' rs]|] eqn:E; [|discriminate].
    simpl in H. inversion H; subst; simpl. apply Forall_upd; auto.
    eapply sm_cont_inv; eauto. eapply Forall_nth_error; eauto.
  - destruct (todo th) as [|[r a|] rest].
    + destruct (dscr th) as [|o rest]; [discriminate|].
      destruct (dag_begin o (heap s) (ents s)) as [[hp1 es1] ms] eqn:E. simpl in H. inversion H; subst; simpl.
      eapply dag_begin_heap; eauto.
    + destruct (nth_error (heap s) r) as [m|] eqn:N; [|discriminate].
      destruct (sm_start t a m) as [m' rs] eqn:E.
      assert (sm_inv m') by (eapply sm_start_inv; eauto; eapply Forall_nth_error; eauto).
      destruct rs; simpl in H; inversion H; subst; simpl; auto; apply Forall_upd; auto.
    + simpl in H. inversion H; subst; simpl; auto.
Qed.

Lemma drun_heap sch : forall s, Forall sm_inv (heap s) -> Forall sm_inv (heap (drun sch s)).
Proof.
  induction sch as [|[t c] r IH]; simpl; intros s F; auto.
  destruct (dstep s t c) eqn:E; auto. apply IH. eapply dstep_heap; eauto.
Qed.

(* every per-entity StarvingMutex of every reachable DAGMutex state satisfies exclusion / accounting / no lost wake-up *)
Theorem dag_entities_inv scripts sch : Forall sm_inv (heap (drun sch (dinit scripts))).
Proof. apply drun_heap. simpl. constructor. Qed.

Theorem dag_exclusion_all scripts sch m :
  In m (heap (drun sch (dinit scripts))) ->
  ra m = length (rd m) /\ (wa m = true <-> length (wr m) = 1) /\ (wa m = true -> rd m = []) /\ (rd m <> [] -> wr m = []) /\
  pw m = length (wq m) + length (wk m) /\
  (lock_free m -> 0 < pw m -> wk m <> [] \/ sg m <> []) /\
  (rq m <> [] -> wa m = true \/ 0 < pw m \/ bc m <> []).
Proof.
  intros HIn. pose proof (dag_entities_inv scripts sch) as F. rewrite Forall_forall in F. specialize (F m HIn).
  destruct F as (I1 & I2 & I3 & I4 & I5 & I6).
  split; [auto|]. split.
  { destruct (wa m); split; intros; auto; try congruence; lia. }
  split. { intros W. specialize (I3 W). destruct (rd m); simpl in *; [auto|lia]. }
  split. { intros R. destruct (wa m) eqn:W.
           - specialize (I3 eq_refl). destruct (rd m); simpl in *; [congruence|lia].
           - destruct (wr m); simpl in *; [auto|lia]. }
  split; [auto|]. split.
  - intros [F1 F2] P. specialize (I5 F1 F2 P).
    destruct (wk m); [right; destruct (sg m); simpl in *; [lia|discriminate]|left; discriminate].
  - intros Q. destruct (wa m) eqn:W; [left; auto|]. destruct (pw m) eqn:P; [|right; left; lia].
    right; right. assert (0 < length (bc m)) by (apply I6; auto; destruct (rq m); simpl; [congruence|lia]).
    destruct (bc m); simpl in *; [lia|discriminate].
Qed.

(* ---------- misuse ---------- *)
Theorem dag_misuse_unlock id hp es : lookup id es = None -> dag_begin (DUnlock id) hp es = (hp, es, [MPanic]).
Proof. intros H. simpl. unfold unregister. rewrite H. reflexivity. Qed.

Definition no_panic (ms : list micro) : Prop := ~ In MPanic ms.

(* RUnlock(ids1 ++ id :: ids2) with id unregistered after ids1 were unregistered: exactly the entities of ids1 are
   unregistered and read-unlocked, then the call panics; ids2 is not touched *)
Theorem dag_misuse_runlock ids1 : forall es es1 ms id ids2,
  unregister_all ids1 es = (es1, ms) -> no_panic ms -> lookup id es1 = None ->
  unregister_all (ids1 ++ id :: ids2) es = (es1, ms ++ [MPanic]).
Proof.
  induction ids1 as [|x r IH]; simpl; intros es es1 ms id ids2 H NP L.
  - inversion H; subst. unfold unregister. rewrite L. reflexivity.
  - destruct (unregister x es) as [es0 [|m|]] eqn:U.
    + eapply IH; eauto.
    + destruct (unregister_all r es0) as [es2 ms2] eqn:E. inversion H; subst.
      assert (NP2 : no_panic ms2) by (intros HI; apply NP; right; auto).
      rewrite (IH es0 es1 ms2 id ids2 E NP2 L). reflexivity.
    + inversion H; subst. exfalso. apply NP. left; reflexivity.
Qed.

(* a panicking DAGMutex step changes neither the registry nor any StarvingMutex; the caller's operation is over *)
Theorem dag_misuse_step s t c s' :
  dstep_ev s t c = Some (s', DVPanic) ->
  heap s' = heap s /\ ents s' = ents s /\
  exists th, nth_error (thr s) t = Some th /\ thr s' = upd t (mkDT None [] (dscr th)) (thr s).
Proof.
  unfold dstep_ev. destruct (nth_error (thr s) t) as [th|]; [|discriminate].
  destruct (cur th) as [r|].
  - destruct (nth_error (heap s) r) as [m|]; [|discriminate].
    destruct (sm_cont t c m) as [[m' rs]|]; discriminate.
  - destruct (todo th) as [|[r a|] rest].
    + destruct (dscr th) as [|o rest]; [discriminate|].
      destruct (dag_begin o (heap s) (ents s)) as [[hp1 es1] ms]. discriminate.
    + destruct (nth_error (heap s) r) as [m|]; [|discriminate].
      destruct (sm_start t a m) as [m' rs]. destruct rs; try discriminate.
      intros H; inversion H; subst; simpl. repeat split; auto. exists th; auto.
    + intros H; inversion H; subst; simpl. repeat split; auto. exists th; auto.
Qed.

(* ---------- deadlock freedom along an acyclic order: the max-waited-entity argument ---------- *)
(* Abstract wait-for structure of a stuck state: thread t waits for entity (waits t); holds h e = thread h holds e.
   H_held      : a waited entity is held by some thread (per-entity no-lost-wake-up, cf. C17_not_stranded)
   H_unfinished: a holder is not finished, so in a stuck state it waits itself (scripts release what they acquire)
   H_order     : a thread that holds e only ever waits for a strictly greater entity (acquisition along the order) *)
Section Acyclic.
  Variable nthreads : nat.
  Variable waits : nat -> option nat.
  Variable holds : nat -> nat -> Prop.
  Hypothesis H_held : forall t e, t < nthreads -> waits t = Some e -> exists h, h < nthreads /\ holds h e.
  Hypothesis H_unfinished : forall h e, h < nthreads -> holds h e -> exists e', waits h = Some e'.
  Hypothesis H_order : forall h e e', holds h e -> waits h = Some e' -> e < e'.

  Lemma chain (k : nat) : forall t e, t < nthreads -> waits t = Some e -> exists t' e', t' < nthreads /\ waits t' = Some e' /\ e + k <= e'.
  Proof.
    induction k as [|k IH]; intros t e Ht W.
    - exists t, e. repeat split; auto. lia.
    - destruct (IH t e Ht W) as (t1 & e1 & Ht1 & W1 & L1).
      destruct (H_held t1 e1 Ht1 W1) as (h & Hh & Hd).
      destruct (H_unfinished h e1 Hh Hd) as (e2 & W2).
      pose proof (H_order h e1 e2 Hd W2). exists h, e2. repeat split; auto. lia.
  Qed.

  (* waited entities are bounded (finitely many entities) -> nobody waits *)
  Variable bound : nat.
  Hypothesis H_bound : forall t e, waits t = Some e -> e < bound.

  Theorem acyclic_no_waiter : forall t, t < nthreads -> waits t = None.
  Proof.
    intros t Ht. destruct (waits t) as [e|] eqn:W; auto. exfalso.
    destruct (chain bound t e Ht W) as (t' & e' & _ & W' & L). apply H_bound in W'. lia.
  Qed.
End Acyclic.
