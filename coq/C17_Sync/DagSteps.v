(* C17 — DAGMutex: preservation of the invariant DI (DagInv.v) by the steps that act on one per-entity StarvingMutex. *)
From Coq Require Import List Arith Bool Lia.
From Verif.C17_Sync Require Import Model Proofs ProofsDag SmView ProofsProgress DagInv.
Import ListNotations.

Definition frame_ok (t : nat) (m m' : sm) : Prop :=
  forall u, u <> t -> hR u m' = hR u m /\ hW u m' = hW u m /\ vW u m' = vW u m /\ vR u m' = vR u m /\ vN u m' = vN u m.

Lemma frame_cont t c m m' rs : sm_cont t c m = Some (m', rs) -> frame_ok t m m'.
Proof.
  intros H u N. destruct (sm_cont_other t c m m' rs u N H) as (E1 & E2 & E3 & E4 & E5 & E6).
  unfold vN. repeat split; auto; lia.
Qed.

Lemma frame_start t a m m' rs :
  sm_start t a m = (m', rs) ->
  (a = ARUnlock -> mem t (rd m) = true) -> (a = AUnlock -> forall u, u <> t -> hW u m = 0) ->
  frame_ok t m m'.
Proof.
  intros H P1 P2 u N.
  destruct (sm_start_other t a m m' rs u N H) as (E1 & E2 & E3 & E4 & E5 & E6 & E7 & E8); auto.
  unfold vW, vR, vN. repeat split; auto; lia.
Qed.

(* a step that changes the mutex r and the record / ghost of thread t only *)
Lemma mutex_step s gs t r m' th' g' :
  DI_core s gs -> t < length (thr s) -> r < length (heap s) -> sm_inv m' ->
  frame_ok t (hpf (heap s) r) m' ->
  (forall id, inreg id g' = inreg id (gof gs t)) ->
  thr_core (ents s) (upd r m' (heap s)) t th' g' ->
  (forall r2, occ t (hpf (upd r m' (heap s)) r2) <= 1 /\ (0 < occ t (hpf (upd r m' (heap s)) r2) <-> cur th' = Some r2)) ->
  (forall r2, owes ARUnlock r2 (todo th') <= hR t (hpf (upd r m' (heap s)) r2) /\
              owes AUnlock r2 (todo th') <= hW t (hpf (upd r m' (heap s)) r2)) ->
  (forall id r2 n, lookup id (ents s) = Some (r2, n) ->
     hR t (hpf (upd r m' (heap s)) r2) = b2n (has id false (gH g')) + owes ARUnlock r2 (todo th') /\
     hW t (hpf (upd r m' (heap s)) r2) = b2n (has id true (gH g')) + owes AUnlock r2 (todo th')) ->
  DI_core (mkDag (upd r m' (heap s)) (ents s) (upd t th' (thr s))) (upd t g' gs).
Proof.
  intros (L & F & W & C & T & O & Q & E) Lt Lr I' Fr Rg Tc Oc Qc Ec.
  assert (Lg : t < length gs) by lia.
  unfold DI_core; cbn [heap ents thr].
  split. { rewrite !upd_length; auto. }
  split. { apply Forall_upd; auto. }
  split. { rewrite upd_length; auto. }
  split. { intros id. pose proof (regsum_upd id g' gs t Lg) as X. rewrite Rg in X. specialize (C id). lia. }
  split.
  { intros u. rewrite thf_upd, gof_upd by lia. destruct (Nat.eqb_spec u t) as [->|N]; auto.
    specialize (T u). unfold thr_core in *. destruct T as [T1 T2]. split; auto.
    destruct (cur (thf (thr s) u)) as [r0|]; auto. rewrite hpf_upd by auto.
    destruct (Nat.eqb_spec r0 r) as [->|]; auto.
    destruct (Fr u N) as (F1 & F2 & F3 & F4 & F5).
    destruct (gP (gof gs u)) as [|[id w] ps]; [congruence|].
    destruct T2 as [T2 T3]. split; auto. destruct w; congruence. }
  split.
  { intros u r2. rewrite thf_upd by lia. destruct (Nat.eqb_spec u t) as [->|N]; [apply Oc|].
    rewrite hpf_upd by auto. destruct (Nat.eqb_spec r2 r) as [->|]; [|apply O].
    destruct (Fr u N) as (F1 & F2 & F3 & F4 & F5). specialize (O u r). unfold occ in *. rewrite F3, F4, F5. exact O. }
  split.
  { intros u r2. rewrite thf_upd by lia. destruct (Nat.eqb_spec u t) as [->|N]; [apply Qc|].
    rewrite hpf_upd by auto. destruct (Nat.eqb_spec r2 r) as [->|]; [|apply Q].
    destruct (Fr u N) as (F1 & F2 & F3 & F4 & F5). rewrite F1, F2. apply Q. }
  intros u id r2 n Lk. rewrite thf_upd, gof_upd by lia. destruct (Nat.eqb_spec u t) as [->|N]; [eapply Ec; eauto|].
  rewrite hpf_upd by auto. destruct (Nat.eqb_spec r2 r) as [->|]; [|eapply E; eauto].
  destruct (Fr u N) as (F1 & F2 & F3 & F4 & F5). rewrite F1, F2. eapply E; eauto.
Qed.

(* what the invariant says about thread t in the middle of a Lock / RLock call *)
Lemma acquiring_facts s gs t id w ps :
  DI_core s gs -> gP (gof gs t) = (id, w) :: ps ->
  (forall a r2, a = ARUnlock \/ a = AUnlock -> owes a r2 (todo (thf (thr s) t)) = 0) /\
  Forall2 (micro_of (ents s)) (match cur (thf (thr s) t) with Some _ => ps | None => (id, w) :: ps end) (todo (thf (thr s) t)).
Proof.
  intros (L & F & W & C & T & O & Q & E) P. specialize (T t). destruct T as [T1 _]. rewrite P in T1.
  split.
  - intros a r2 A. eapply owes_locks; eauto.
  - destruct (cur (thf (thr s) t)); simpl in T1; exact T1.
Qed.

Lemma inreg_grant id2 id w H ps : inreg id2 (mkG ((id, w) :: H) ps) = inreg id2 (mkG H ((id, w) :: ps)).
Proof.
  unfold inreg; simpl. rewrite !existsb_app. simpl.
  destruct (id =? id2); simpl; [rewrite orb_true_r; reflexivity|reflexivity].
Qed.

(* the pending Lock / RLock of entity id (mutex r) by thread t is granted *)
Lemma grant_step s gs t r m' id w ps n todo' :
  DI_core s gs -> t < length (thr s) ->
  gP (gof gs t) = (id, w) :: ps -> lookup id (ents s) = Some (r, n) ->
  all_lt (gH (gof gs t)) id = true ->
  (cur (thf (thr s) t) = Some r \/ cur (thf (thr s) t) = None) ->
  sm_inv m' -> frame_ok t (hpf (heap s) r) m' ->
  occ t m' = 0 ->
  hR t m' = (if w then 0 else 1) + hR t (hpf (heap s) r) ->
  hW t m' = (if w then 1 else 0) + hW t (hpf (heap s) r) ->
  Forall2 (micro_of (ents s)) ps todo' ->
  DI_core (mkDag (upd r m' (heap s)) (ents s) (upd t (mkDT None todo' (dscr (thf (thr s) t))) (thr s)))
          (upd t (mkG ((id, w) :: gH (gof gs t)) ps) gs).
Proof.
  intros D Lt P Lk AL Cu I' Fr Oc HR HW F2.
  destruct (acquiring_facts s gs t id w ps D P) as [OW _].
  pose proof D as (L & F & [W1 W2] & C & T & O & Q & E).
  destruct (W1 _ _ _ Lk) as [Lr _].
  assert (OW' : forall a r2, a = ARUnlock \/ a = AUnlock -> owes a r2 todo' = 0) by (intros; eapply owes_locks; eauto).
  assert (Oo : forall r2, r2 <> r -> occ t (hpf (heap s) r2) = 0).
  { intros r2 N. destruct (O t r2) as [O1 O2]. destruct (occ t (hpf (heap s) r2)) eqn:Z; auto. exfalso.
    assert (X : cur (thf (thr s) t) = Some r2) by (apply O2; lia). destruct Cu as [Cu|Cu]; congruence. }
  apply mutex_step; auto.
  - intros id2. destruct (gof gs t) as [H P0] eqn:G. simpl in P. subst P0. apply inreg_grant.
  - unfold thr_core; cbn [gP cur todo]. split; auto.
    destruct ps; [|exact F2]. inversion F2; subst. constructor.
  - intros r2. rewrite hpf_upd by auto. cbn [cur]. destruct (Nat.eqb_spec r2 r) as [->|N].
    + rewrite Oc. split; [lia|]. split; [lia|discriminate].
    + rewrite (Oo r2 N). split; [lia|]. split; [lia|discriminate].
  - intros r2. cbn [todo]. rewrite !OW' by auto. lia.
  - intros id2 r2 n2 Lk2. cbn [todo gH]. rewrite !OW' by auto. rewrite hpf_upd by auto.
    destruct (E t _ _ _ Lk2) as [E1 E2]. rewrite !OW in E1, E2 by auto.
    destruct (Nat.eqb_spec r2 r) as [->|N].
    + assert (id2 = id) by (eapply W2; eauto). subst id2.
      rewrite HR, HW, E1, E2. rewrite !has_cons. cbn [fst snd]. rewrite Nat.eqb_refl.
      rewrite !(all_lt_has id _ _ AL). destruct w; simpl; lia.
    + assert (id2 <> id) by (intros ->; rewrite Lk in Lk2; inversion Lk2; congruence).
      rewrite E1, E2. rewrite !has_cons. cbn [fst snd]. destruct (Nat.eqb_spec id id2); [congruence|]. simpl. lia.
Qed.

(* the Lock / RLock of entity id by thread t parks (again) *)
Lemma park_step s gs t r m' id w ps n todo' :
  DI_core s gs -> t < length (thr s) ->
  gP (gof gs t) = (id, w) :: ps -> lookup id (ents s) = Some (r, n) ->
  (cur (thf (thr s) t) = Some r \/ cur (thf (thr s) t) = None) ->
  sm_inv m' -> frame_ok t (hpf (heap s) r) m' ->
  occ t m' = 1 -> (if w then vW t m' = 1 else vR t m' = 1) ->
  hR t m' = hR t (hpf (heap s) r) -> hW t m' = hW t (hpf (heap s) r) ->
  Forall2 (micro_of (ents s)) ps todo' ->
  DI_core (mkDag (upd r m' (heap s)) (ents s) (upd t (mkDT (Some r) todo' (dscr (thf (thr s) t))) (thr s)))
          (upd t (gof gs t) gs).
Proof.
  intros D Lt P Lk Cu I' Fr Oc V HR HW F2.
  destruct (acquiring_facts s gs t id w ps D P) as [OW _].
  pose proof D as (L & F & [W1 W2] & C & T & O & Q & E).
  destruct (W1 _ _ _ Lk) as [Lr _].
  assert (OW' : forall a r2, a = ARUnlock \/ a = AUnlock -> owes a r2 todo' = 0) by (intros; eapply owes_locks; eauto).
  assert (Oo : forall r2, r2 <> r -> occ t (hpf (heap s) r2) = 0).
  { intros r2 N. destruct (O t r2) as [O1 O2]. destruct (occ t (hpf (heap s) r2)) eqn:Z; auto. exfalso.
    assert (X : cur (thf (thr s) t) = Some r2) by (apply O2; lia). destruct Cu as [Cu|Cu]; congruence. }
  apply mutex_step; auto.
  - unfold thr_core; cbn [cur todo]. rewrite P. cbn [tl]. split; auto.
    rewrite hpf_upd by auto. rewrite Nat.eqb_refl. split; eauto.
  - intros r2. rewrite hpf_upd by auto. cbn [cur]. destruct (Nat.eqb_spec r2 r) as [->|N].
    + rewrite Oc. split; [lia|]. split; auto.
    + rewrite (Oo r2 N). split; [lia|]. split; [lia|]. intros X; inversion X; congruence.
  - intros r2. cbn [todo]. rewrite !OW' by auto. lia.
  - intros id2 r2 n2 Lk2. cbn [todo]. rewrite !OW' by auto. rewrite hpf_upd by auto.
    destruct (E t _ _ _ Lk2) as [E1 E2]. rewrite !OW in E1, E2 by auto.
    destruct (Nat.eqb_spec r2 r) as [->|N]; [rewrite HR, HW|]; auto.
Qed.

(* thread t (not inside a Lock / RLock: nothing pending) finishes or continues an unlock on mutex r:
   it now owes (k = true) or does not owe a notification, its todo list is todo', its holds changed by (dr, dw) *)
Lemma release_step s gs t r m' (k : bool) todo' :
  DI_core s gs -> t < length (thr s) -> r < length (heap s) ->
  gP (gof gs t) = [] ->
  (cur (thf (thr s) t) = Some r \/ cur (thf (thr s) t) = None) ->
  sm_inv m' -> frame_ok t (hpf (heap s) r) m' ->
  occ t m' = b2n k -> vN t m' = b2n k ->
  Forall (fun mi => is_unlock mi = true) todo' ->
  (forall r2, r2 <> r -> owes ARUnlock r2 todo' = owes ARUnlock r2 (todo (thf (thr s) t)) /\
                         owes AUnlock r2 todo' = owes AUnlock r2 (todo (thf (thr s) t))) ->
  hR t m' + owes ARUnlock r (todo (thf (thr s) t)) = hR t (hpf (heap s) r) + owes ARUnlock r todo' ->
  hW t m' + owes AUnlock r (todo (thf (thr s) t)) = hW t (hpf (heap s) r) + owes AUnlock r todo' ->
  owes ARUnlock r todo' <= hR t m' -> owes AUnlock r todo' <= hW t m' ->
  DI_core (mkDag (upd r m' (heap s)) (ents s)
                 (upd t (mkDT (if k then Some r else None) todo' (dscr (thf (thr s) t))) (thr s)))
          (upd t (gof gs t) gs).
Proof.
  intros D Lt Lr P Cu I' Fr Oc VN FU OO HR HW QR QW.
  pose proof D as (L & F & [W1 W2] & C & T & O & Q & E).
  assert (Oo : forall r2, r2 <> r -> occ t (hpf (heap s) r2) = 0).
  { intros r2 N. destruct (O t r2) as [O1 O2]. destruct (occ t (hpf (heap s) r2)) eqn:Z; auto. exfalso.
    assert (X : cur (thf (thr s) t) = Some r2) by (apply O2; lia). destruct Cu as [Cu|Cu]; congruence. }
  apply mutex_step; auto.
  - unfold thr_core; cbn [cur todo]. rewrite P. split; auto.
    destruct k; auto. rewrite hpf_upd by auto. rewrite Nat.eqb_refl. exact VN.
  - intros r2. rewrite hpf_upd by auto. cbn [cur]. destruct (Nat.eqb_spec r2 r) as [->|N].
    + rewrite Oc. destruct k; simpl; (split; [lia|]); split; auto; try lia; discriminate.
    + rewrite (Oo r2 N). split; [lia|]. split; [lia|]. destruct k; intros X; inversion X; congruence.
  - intros r2. cbn [todo]. rewrite hpf_upd by auto. destruct (Nat.eqb_spec r2 r) as [->|N]; [lia|].
    destruct (OO r2 N) as [-> ->]. apply Q.
  - intros id2 r2 n2 Lk2. cbn [todo]. rewrite hpf_upd by auto.
    destruct (E t _ _ _ Lk2) as [E1 E2].
    destruct (Nat.eqb_spec r2 r) as [->|N]; [lia|]. destruct (OO r2 N) as [-> ->]. auto.
Qed.

(* ---------- steps under d.Mutex: register / unregister one entity ---------- *)
Lemma micro_of_lift es es' P : forall l,
  Forall2 (micro_of es) P l ->
  (forall p, In p P -> forall r n, lookup (fst p) es = Some (r, n) -> exists n', lookup (fst p) es' = Some (r, n')) ->
  Forall2 (micro_of es') P l.
Proof.
  induction P as [|p ps IH]; intros l F X; inversion F; subst; constructor.
  - destruct H1 as (r & n & Lk & ->). destruct (X p (or_introl eq_refl) r n Lk) as [n' Lk']. exists r, n'. auto.
  - apply IH; auto. intros q Hq. apply X. right; auto.
Qed.

Lemma in_gP_inreg p g : In p (gP g) -> inreg (fst p) g = true.
Proof.
  intros H. unfold inreg. rewrite existsb_app. apply orb_true_iff. left.
  apply existsb_exists. exists p. split; auto. apply Nat.eqb_refl.
Qed.

Lemma in_tl {A} (x : A) l : In x (tl l) -> In x l.
Proof. destruct l; simpl; auto. Qed.

Lemma inreg_false_has id g w : inreg id g = false -> has id w (gH g) = false.
Proof.
  unfold inreg. rewrite existsb_app. intros H. apply orb_false_iff in H. destruct H as [_ H].
  destruct (has id w (gH g)) eqn:E; auto. apply has_exists in E. congruence.
Qed.

Lemma ents_step s gs t hl' es' th' g' :
  DI_core s gs -> t < length (thr s) ->
  cur (thf (thr s) t) = None -> cur th' = None ->
  (forall r, hpf hl' r = hpf (heap s) r) -> Forall sm_inv hl' -> ents_wf es' (length hl') ->
  (forall id, regsum id (upd t g' gs) = cntof es' id) ->
  (forall u id r n, u <> t -> inreg id (gof gs u) = true -> lookup id (ents s) = Some (r, n) ->
                    exists n', lookup id es' = Some (r, n')) ->
  (forall id r n, lookup id es' = Some (r, n) ->
                  (exists n0, lookup id (ents s) = Some (r, n0)) \/ (cntof (ents s) id = 0 /\ length (heap s) <= r)) ->
  thr_core es' hl' t th' g' ->
  (forall r2, owes ARUnlock r2 (todo th') <= hR t (hpf (heap s) r2) /\ owes AUnlock r2 (todo th') <= hW t (hpf (heap s) r2)) ->
  (forall id r2 n, lookup id es' = Some (r2, n) ->
     hR t (hpf (heap s) r2) = b2n (has id false (gH g')) + owes ARUnlock r2 (todo th') /\
     hW t (hpf (heap s) r2) = b2n (has id true (gH g')) + owes AUnlock r2 (todo th')) ->
  DI_core (mkDag hl' es' (upd t th' (thr s))) (upd t g' gs).
Proof.
  intros (L & F & W & C & T & O & Q & E) Lt Cu Cu' HP F' W' C' Pres Fresh Tc Qc Ec.
  assert (Lg : t < length gs) by lia.
  unfold DI_core; cbn [heap ents thr].
  split. { rewrite !upd_length; auto. }
  split; auto. split; auto. split; auto.
  split.
  { intros u. rewrite thf_upd, gof_upd by lia. destruct (Nat.eqb_spec u t) as [->|N]; auto.
    specialize (T u). unfold thr_core in *. destruct T as [T1 T2]. split.
    - destruct (gP (gof gs u)) as [|p ps] eqn:P; auto.
      eapply micro_of_lift; eauto. intros q Hq r n Lk. eapply (Pres u); eauto.
      apply in_gP_inreg. rewrite P. destruct (cur (thf (thr s) u)); auto. apply in_tl in Hq. auto.
    - destruct (cur (thf (thr s) u)) as [r0|]; auto. rewrite HP.
      destruct (gP (gof gs u)) as [|[id w] ps] eqn:P; auto.
      destruct T2 as [[n Lk] T3]. split; auto. eapply (Pres u); eauto.
      apply in_gP_inreg with (p := (id, w)). rewrite P. left; auto. }
  split.
  { intros u r2. rewrite thf_upd by lia. rewrite HP. destruct (Nat.eqb_spec u t) as [->|N]; [|apply O].
    rewrite Cu'. rewrite <- Cu. apply O. }
  split.
  { intros u r2. rewrite thf_upd by lia. rewrite HP. destruct (Nat.eqb_spec u t) as [->|N]; [apply Qc|apply Q]. }
  intros u id r2 n Lk. rewrite thf_upd, gof_upd by lia. rewrite HP.
  destruct (Nat.eqb_spec u t) as [->|N]; [eapply Ec; eauto|].
  destruct (Fresh _ _ _ Lk) as [[n0 Lk0]|[Z Lr]]; [eapply E; eauto|].
  assert (IR : inreg id (gof gs u) = false).
  { pose proof (regsum_ge id gs u) as G. rewrite C, Z in G. destruct (inreg id (gof gs u)); simpl in G; [lia|auto]. }
  rewrite !(inreg_false_has _ _ _ IR). simpl.
  destruct (Q u r2) as [Q1 Q2]. rewrite hpf_overflow in * by auto.
  unfold hR, hW in *. simpl in *. lia.
Qed.

Lemma register_spec id hl es hl' es' m : register id hl es = (hl', es', m) ->
  (forall r, hpf hl' r = hpf hl r) /\ length hl <= length hl' /\
  lookup id es' = Some (m, S (cntof es id)) /\
  (forall id2, id2 <> id -> lookup id2 es' = lookup id2 es) /\
  ((exists n, lookup id es = Some (m, n) /\ hl' = hl) \/ (lookup id es = None /\ m = length hl /\ hl' = hl ++ [sm0])).
Proof.
  unfold register, cntof. destruct (lookup id es) as [[r n]|] eqn:Lk; intros H; inversion H; subst; clear H.
  - split; auto. split; auto. split; [apply lookup_put_same|]. split; [intros; apply lookup_put_other; auto|].
    left. eauto.
  - split; [intros; apply hpf_app_sm0|]. split; [rewrite app_length; lia|]. split; [apply lookup_put_same|].
    split; [intros; apply lookup_put_other; auto|]. right. auto.
Qed.

Lemma inreg_push id2 H P id w : inreg id2 (mkG H (P ++ [(id, w)])) = inreg id2 (mkG H P) || (id =? id2).
Proof.
  unfold inreg; simpl. rewrite !existsb_app. simpl. rewrite orb_false_r.
  destruct (existsb _ P), (id =? id2), (existsb _ H); reflexivity.
Qed.

Lemma Forall2_snoc {A B} (R : A -> B -> Prop) l1 l2 a b : Forall2 R l1 l2 -> R a b -> Forall2 R (l1 ++ [a]) (l2 ++ [b]).
Proof. intros F X. apply Forall2_app; auto. Qed.

(* thread t, under d.Mutex in a Lock / RLock call, registers one more entity *)
Lemma reg_one s gs t id w hp1 es1 m acc dsc :
  DI_core s gs -> t < length (thr s) ->
  thf (thr s) t = mkDT None acc dsc ->
  (gP (gof gs t) = [] -> acc = []) ->
  all_lt (gP (gof gs t) ++ gH (gof gs t)) id = true ->
  register id (heap s) (ents s) = (hp1, es1, m) ->
  DI_core (mkDag hp1 es1 (upd t (mkDT None (acc ++ [MAct m (lockact w)]) dsc) (thr s)))
          (upd t (mkG (gH (gof gs t)) (gP (gof gs t) ++ [(id, w)])) gs).
Proof.
  intros D Lt TH PA AL RG.
  destruct (register_spec _ _ _ _ _ _ RG) as (HP & LL & LkN & LkO & Cases).
  pose proof D as (L & F & [W1 W2] & C & T & O & Q & E).
  assert (Lg : t < length gs) by lia.
  assert (IRt : inreg id (gof gs t) = false) by (apply all_lt_exists; auto).
  assert (HAt : forall w', has id w' (gH (gof gs t)) = false).
  { intros w'. apply all_lt_has. rewrite all_lt_app in AL. apply andb_true_iff in AL. tauto. }
  apply ents_step; auto.
  - rewrite TH. reflexivity.
  - eapply register_heap; eauto.
  - (* ents_wf *)
    split.
    + intros id2 r n Lk. destruct (Nat.eq_dec id2 id) as [->|N].
      * rewrite LkN in Lk. inversion Lk; subst. split; [|lia].
        destruct Cases as [[n0 [Lk0 _]]|(_ & -> & ->)]; [destruct (W1 _ _ _ Lk0); lia|rewrite app_length; simpl; lia].
      * rewrite LkO in Lk by auto. destruct (W1 _ _ _ Lk). split; lia.
    + intros id1 id2 r n1 n2 Lk1 Lk2.
      destruct (Nat.eq_dec id1 id) as [->|N1], (Nat.eq_dec id2 id) as [->|N2]; auto.
      * rewrite LkN in Lk1. inversion Lk1; subst. rewrite LkO in Lk2 by auto.
        destruct Cases as [[n0 [Lk0 _]]|(_ & -> & _)]; [eapply W2; eauto|destruct (W1 _ _ _ Lk2); lia].
      * rewrite LkN in Lk2. inversion Lk2; subst. rewrite LkO in Lk1 by auto.
        destruct Cases as [[n0 [Lk0 _]]|(_ & -> & _)]; [eapply W2; eauto|destruct (W1 _ _ _ Lk1); lia].
      * rewrite LkO in Lk1, Lk2 by auto. eapply W2; eauto.
  - (* regsum *)
    intros id2. pose proof (regsum_upd id2 (mkG (gH (gof gs t)) (gP (gof gs t) ++ [(id, w)])) gs t Lg) as X.
    rewrite inreg_push in X. specialize (C id2). unfold cntof in *.
    destruct (Nat.eqb_spec id id2) as [<-|N].
    + rewrite LkN. rewrite IRt in X. destruct (gof gs t) as [H0 P0]. simpl in *.
      unfold inreg in IRt. simpl in IRt. unfold inreg in X. simpl in X. rewrite IRt in X. simpl in X. lia.
    + rewrite LkO by auto. rewrite orb_false_r in X. destruct (gof gs t) as [H0 P0]. simpl in *. lia.
  - (* others' lookups *)
    intros u id2 r n N IR Lk. destruct (Nat.eq_dec id2 id) as [->|N2].
    + rewrite LkN.
      destruct Cases as [[n0 [Lk0 _]]|(Lk0 & _)]; [|congruence]. rewrite Lk in Lk0. inversion Lk0; subst. eauto.
    + rewrite LkO by auto. eauto.
  - (* fresh or old *)
    intros id2 r n Lk. destruct (Nat.eq_dec id2 id) as [->|N2].
    + rewrite LkN in Lk. inversion Lk; subst.
      destruct Cases as [[n0 [Lk0 _]]|(Lk0 & -> & _)]; [left; eauto|right]. unfold cntof. rewrite Lk0. auto.
    + rewrite LkO in Lk by auto. left; eauto.
  - (* thr_core t *)
    unfold thr_core; cbn [gP cur todo]. split; auto.
    destruct (gP (gof gs t) ++ [(id, w)]) eqn:PP; [destruct (gP (gof gs t)); discriminate|]. rewrite <- PP.
    apply Forall2_snoc.
    + destruct (gP (gof gs t)) as [|p0 ps0] eqn:P; [rewrite PA by auto; constructor|].
      specialize (T t). destruct T as [T1 _]. rewrite P, TH in T1. cbn [cur todo] in T1.
      eapply micro_of_lift; eauto. intros q Hq r n Lk. destruct (Nat.eq_dec (fst q) id) as [Eq|N2].
      * rewrite Eq in *. rewrite LkN.
        destruct Cases as [[n0 [Lk0 _]]|(Lk0 & _)]; [|congruence]. rewrite Lk in Lk0. inversion Lk0; subst. eauto.
      * rewrite LkO by auto. eauto.
    + exists m, (S (cntof (ents s) id)). auto.
  - (* owes *)
    intros r2. cbn [todo]. rewrite !owes_app. specialize (Q t r2). rewrite TH in Q. cbn [todo] in Q.
    simpl. destruct w; simpl; rewrite ?andb_false_r; simpl; lia.
  - (* holds *)
    intros id2 r2 n Lk. cbn [todo gH]. rewrite !owes_app.
    assert (Z : forall a, a = ARUnlock \/ a = AUnlock -> owes a r2 [MAct m (lockact w)] = 0).
    { intros a [-> | ->]; destruct w; simpl; rewrite ?andb_false_r; reflexivity. }
    rewrite !Z by auto. rewrite !Nat.add_0_r.
    destruct (Nat.eq_dec id2 id) as [->|N2].
    + rewrite LkN in Lk. inversion Lk; subst. rewrite !HAt. simpl.
      destruct Cases as [[n0 [Lk0 _]]|(Lk0 & -> & _)].
      * pose proof (E t _ _ _ Lk0) as [E1 E2]. rewrite !HAt, TH in E1, E2. exact (conj E1 E2).
      * destruct (Q t (length (heap s))) as [Q1 Q2]. rewrite TH in Q1, Q2. cbn [todo] in Q1, Q2.
        rewrite hpf_overflow in * by auto. unfold hR, hW in *. simpl in *. lia.
    + rewrite LkO in Lk by auto. pose proof (E t _ _ _ Lk) as [E1 E2]. rewrite TH in E1, E2. exact (conj E1 E2).
Qed.

Lemma unregister_spec id es es1 u :
  unregister id es = (es1, u) ->
  match lookup id es with
  | None => u = UErr /\ es1 = es
  | Some (r, n) => (n = 1 /\ u = UNil /\ es1 = del id es) \/ (n <> 1 /\ u = UMutex r /\ es1 = put id (r, pred n) es)
  end.
Proof.
  unfold unregister. destruct (lookup id es) as [[r n]|].
  - destruct (Nat.eqb_spec n 1); intros H; inversion H; subst; auto.
  - intros H; inversion H; auto.
Qed.

Lemma inreg_drop id2 id H : inreg id2 (mkG (drop id H) []) = negb (id2 =? id) && inreg id2 (mkG H []).
Proof.
  unfold inreg; simpl. destruct (Nat.eqb_spec id2 id) as [->|N]; simpl.
  - apply exists_drop_same.
  - apply exists_drop_other; auto.
Qed.

(* thread t, under d.Mutex in an Unlock / RUnlock call, unregisters one entity that it holds in mode w *)
Lemma unreg_one s gs t id w acc dsc es1 ur :
  DI_core s gs -> t < length (thr s) ->
  thf (thr s) t = mkDT None acc dsc -> gP (gof gs t) = [] ->
  has id w (gH (gof gs t)) = true ->
  unregister id (ents s) = (es1, ur) ->
  exists ms, ((ur = UNil /\ ms = []) \/ (exists m, ur = UMutex m /\ ms = [MAct m (unlockact w)])) /\
  DI_core (mkDag (heap s) es1 (upd t (mkDT None (acc ++ ms) dsc) (thr s)))
          (upd t (mkG (drop id (gH (gof gs t))) []) gs).
Proof.
  intros D Lt TH P HA UR.
  pose proof D as (L & F & [W1 W2] & C & T & O & Q & E).
  assert (Lg : t < length gs) by lia.
  destruct (gof gs t) as [H0 P0] eqn:G. cbn [gH gP] in *. subst P0.
  assert (IRt : inreg id (gof gs t) = true).
  { rewrite G. unfold inreg; simpl. eapply has_exists; eauto. }
  assert (IRd : forall id2, inreg id2 (mkG (drop id H0) []) = negb (id2 =? id) && inreg id2 (gof gs t)).
  { intros. rewrite G. apply inreg_drop. }
  pose proof (regsum_ge id gs t) as RG. rewrite IRt, C in RG. simpl in RG.
  unfold cntof in RG. pose proof (unregister_spec _ _ _ _ UR) as US.
  destruct (lookup id (ents s)) as [[r n]|] eqn:Lk; [|lia].
  assert (Cn : cntof (ents s) id = n) by (unfold cntof; rewrite Lk; auto).
  assert (Oth : forall u, u <> t -> inreg id (gof gs u) = true -> 2 <= n).
  { intros u N IR. pose proof (regsum_ge2 id gs t u (not_eq_sym N)) as X. rewrite IRt, IR, C, Cn in X. simpl in X. lia. }
  assert (THc : Forall (fun mi => is_unlock mi = true) acc).
  { specialize (T t). destruct T as [T1 _]. rewrite G, TH in T1. exact T1. }
  destruct (W1 _ _ _ Lk) as [Lr Np].
  destruct (E t _ _ _ Lk) as [E1 E2]. rewrite G, TH in E1, E2. cbn [gH todo] in E1, E2.
  destruct US as [(-> & -> & ->)|(N1 & -> & ->)].
  - (* last consumer: the entity is dropped *)
    exists []. split; [left; auto|]. rewrite app_nil_r.
    apply ents_step; auto.
    + rewrite TH; auto.
    + split.
      * intros id2 r2 n2 Lk2. destruct (Nat.eq_dec id2 id) as [->|N2]; [rewrite lookup_del_same in Lk2; discriminate|].
        rewrite lookup_del_other in Lk2 by auto. eauto.
      * intros id1 id2 r2 n1 n2 Lk1 Lk2.
        destruct (Nat.eq_dec id1 id) as [->|N1]; [rewrite lookup_del_same in Lk1; discriminate|].
        destruct (Nat.eq_dec id2 id) as [->|N2]; [rewrite lookup_del_same in Lk2; discriminate|].
        rewrite lookup_del_other in Lk1, Lk2 by auto. eauto.
    + intros id2. pose proof (regsum_upd id2 (mkG (drop id H0) []) gs t Lg) as X. rewrite IRd in X.
      specialize (C id2). unfold cntof in *. destruct (Nat.eqb_spec id2 id) as [->|N2].
      * rewrite lookup_del_same. rewrite IRt, Lk in *. simpl in X. lia.
      * rewrite lookup_del_other by auto. simpl in X. lia.
    + intros u id2 r2 n2 N IR Lk2. destruct (Nat.eq_dec id2 id) as [->|N2].
      * specialize (Oth u N IR). lia.
      * rewrite lookup_del_other by auto. eauto.
    + intros id2 r2 n2 Lk2. destruct (Nat.eq_dec id2 id) as [->|N2]; [rewrite lookup_del_same in Lk2; discriminate|].
      rewrite lookup_del_other in Lk2 by auto. left; eauto.
    + unfold thr_core; cbn [gP cur todo]. auto.
    + intros r2. cbn [todo]. specialize (Q t r2). rewrite TH in Q. exact Q.
    + intros id2 r2 n2 Lk2. cbn [todo gH].
      destruct (Nat.eq_dec id2 id) as [->|N2]; [rewrite lookup_del_same in Lk2; discriminate|].
      rewrite lookup_del_other in Lk2 by auto. rewrite !has_drop_other by auto.
      destruct (E t _ _ _ Lk2) as [E3 E4]. rewrite G, TH in E3, E4. auto.
  - (* other consumers remain: the mutex has to be unlocked *)
    exists [MAct r (unlockact w)]. split; [right; eauto|].
    pose proof (hpf_inv (heap s) r F) as Ir.
    assert (OM : (if w then hR t (hpf (heap s) r) = 0 else hW t (hpf (heap s) r) = 0)).
    { destruct w.
      - rewrite HA in E2. simpl in E2. destruct (hW_wa t _ Ir) as (_ & _ & RD & _); [lia|]. unfold hR. rewrite RD. reflexivity.
      - rewrite HA in E1. simpl in E1. destruct (hR_ra t _ Ir) as (_ & _ & WR); [lia|]. unfold hW. rewrite WR. reflexivity. }
    apply ents_step; auto.
    + rewrite TH; auto.
    + split.
      * intros id2 r2 n2 Lk2. destruct (Nat.eq_dec id2 id) as [->|N2].
        -- rewrite lookup_put_same in Lk2. inversion Lk2; subst. split; auto. lia.
        -- rewrite lookup_put_other in Lk2 by auto. eauto.
      * intros id1 id2 r2 n1 n2 Lk1 Lk2.
        destruct (Nat.eq_dec id1 id) as [->|N3], (Nat.eq_dec id2 id) as [->|N4]; auto.
        -- rewrite lookup_put_same in Lk1. inversion Lk1; subst. rewrite lookup_put_other in Lk2 by auto. eapply W2; eauto.
        -- rewrite lookup_put_same in Lk2. inversion Lk2; subst. rewrite lookup_put_other in Lk1 by auto. eapply W2; eauto.
        -- rewrite lookup_put_other in Lk1, Lk2 by auto. eapply W2; eauto.
    + intros id2. pose proof (regsum_upd id2 (mkG (drop id H0) []) gs t Lg) as X. rewrite IRd in X.
      specialize (C id2). unfold cntof in *. destruct (Nat.eqb_spec id2 id) as [->|N2].
      * rewrite lookup_put_same. rewrite IRt, Lk in *. simpl in X. lia.
      * rewrite lookup_put_other by auto. simpl in X. lia.
    + intros u id2 r2 n2 N IR Lk2. destruct (Nat.eq_dec id2 id) as [->|N2].
      * rewrite lookup_put_same. rewrite Lk in Lk2. inversion Lk2; subst. eauto.
      * rewrite lookup_put_other by auto. eauto.
    + intros id2 r2 n2 Lk2. left. destruct (Nat.eq_dec id2 id) as [->|N2].
      * rewrite lookup_put_same in Lk2. inversion Lk2; subst. eauto.
      * rewrite lookup_put_other in Lk2 by auto. eauto.
    + unfold thr_core; cbn [gP cur todo]. split; auto. apply Forall_app. split; auto.
      constructor; [destruct w; reflexivity|constructor].
    + intros r2. cbn [todo]. rewrite !owes_app. specialize (Q t r2). rewrite TH in Q. cbn [todo] in Q.
      simpl. destruct (Nat.eqb_spec r r2) as [<-|N2]; simpl; [|lia].
      destruct w; simpl; rewrite HA in *; simpl in *; lia.
    + intros id2 r2 n2 Lk2. cbn [todo gH]. rewrite !owes_app.
      destruct (Nat.eq_dec id2 id) as [->|N2].
      * rewrite lookup_put_same in Lk2. inversion Lk2; subst. rewrite !has_drop_same. simpl. rewrite Nat.eqb_refl. simpl.
        destruct w; simpl; rewrite HA in *; simpl in *; lia.
      * rewrite lookup_put_other in Lk2 by auto. rewrite !has_drop_other by auto.
        assert (r <> r2) by (intros ->; apply N2; eapply W2; eauto).
        simpl. destruct (Nat.eqb_spec r r2); [congruence|]. simpl. rewrite !Nat.add_0_r.
        destruct (E t _ _ _ Lk2) as [E3 E4]. rewrite G, TH in E3, E4. auto.
Qed.

(* ---------- whole Lock / RLock / Unlock / RUnlock registrations ---------- *)
Lemma upd_nth_same {A} (d : A) : forall l t, upd t (nth t l d) l = l.
Proof. induction l as [|x r IH]; intros [|t]; simpl; auto. rewrite IH. reflexivity. Qed.
Lemma upd_upd {A} (x y : A) : forall l t, upd t x (upd t y l) = upd t x l.
Proof. induction l as [|z r IH]; intros [|t]; simpl; auto. rewrite IH. reflexivity. Qed.

Lemma DI_core_same s gs t acc dsc H P :
  DI_core s gs -> thf (thr s) t = mkDT None acc dsc -> gof gs t = mkG H P ->
  DI_core (mkDag (heap s) (ents s) (upd t (mkDT None acc dsc) (thr s))) (upd t (mkG H P) gs).
Proof.
  intros D TH G. rewrite <- TH, <- G. unfold thf, gof. rewrite !upd_nth_same. destruct s; exact D.
Qed.

Lemma reg_all ids : forall s gs t acc dsc hp2 es2 ms,
  DI_core s gs -> t < length (thr s) ->
  thf (thr s) t = mkDT None acc dsc ->
  (gP (gof gs t) = [] -> acc = []) ->
  acq_seq (gH (gof gs t)) (gP (gof gs t) ++ map (fun i => (i, false)) ids) <> None ->
  register_all ids (heap s) (ents s) = (hp2, es2, ms) ->
  DI_core (mkDag hp2 es2 (upd t (mkDT None (acc ++ ms) dsc) (thr s)))
          (upd t (mkG (gH (gof gs t)) (gP (gof gs t) ++ map (fun i => (i, false)) ids)) gs).
Proof.
  induction ids as [|id r IH]; intros s gs t acc dsc hp2 es2 ms D Lt TH PA AS RA; simpl in RA.
  - inversion RA; subst. simpl. rewrite !app_nil_r. apply DI_core_same; auto. destruct (gof gs t); reflexivity.
  - destruct (register id (heap s) (ents s)) as [[hp1 es1] m] eqn:R1.
    destruct (register_all r hp1 es1) as [[hp3 es3] ms3] eqn:R2. inversion RA; subst; clear RA.
    simpl in AS. pose proof (acq_seq_next _ _ _ _ AS) as AL. cbn [fst] in AL.
    pose proof (reg_one s gs t id false hp1 es1 m acc dsc D Lt TH PA AL R1) as D1.
    pose proof D as (L & _). assert (Lg : t < length gs) by lia.
    set (s1 := mkDag hp1 es1 (upd t (mkDT None (acc ++ [MAct m (lockact false)]) dsc) (thr s))) in *.
    set (gs1 := upd t (mkG (gH (gof gs t)) (gP (gof gs t) ++ [(id, false)])) gs) in *.
    assert (G1 : gof gs1 t = mkG (gH (gof gs t)) (gP (gof gs t) ++ [(id, false)])).
    { unfold gs1. rewrite gof_upd by auto. rewrite Nat.eqb_refl. reflexivity. }
    assert (T1 : thf (thr s1) t = mkDT None (acc ++ [MAct m (lockact false)]) dsc).
    { unfold s1; cbn [thr]. rewrite thf_upd by auto. rewrite Nat.eqb_refl. reflexivity. }
    specialize (IH s1 gs1 t (acc ++ [MAct m (lockact false)]) dsc hp2 es2 ms3 D1).
    unfold s1 in IH at 1. cbn [thr heap ents] in IH. rewrite upd_length in IH. specialize (IH Lt).
    fold s1 in IH. rewrite G1, T1 in IH. cbn [gH gP] in IH.
    rewrite <- !app_assoc in IH. cbn [app] in IH.
    assert (X : DI_core (mkDag hp2 es2 (upd t (mkDT None (acc ++ MAct m (lockact false) :: ms3) dsc) (thr s1)))
                        (upd t (mkG (gH (gof gs t)) (gP (gof gs t) ++ (id, false) :: map (fun i : nat => (i, false)) r)) gs1)).
    { apply IH; auto. intros Z. destruct (gP (gof gs t)); discriminate. }
    unfold s1, gs1 in X. cbn [thr] in X. rewrite !upd_upd in X. exact X.
Qed.

Lemma unreg_all ids : forall s gs t acc dsc es2 ms H',
  DI_core s gs -> t < length (thr s) ->
  thf (thr s) t = mkDT None acc dsc -> gP (gof gs t) = [] ->
  rel_seq (gH (gof gs t)) ids = Some H' ->
  unregister_all ids (ents s) = (es2, ms) ->
  DI_core (mkDag (heap s) es2 (upd t (mkDT None (acc ++ ms) dsc) (thr s))) (upd t (mkG H' []) gs).
Proof.
  induction ids as [|id r IH]; intros s gs t acc dsc es2 ms H' D Lt TH P RS UA; simpl in UA, RS.
  - inversion UA; subst. inversion RS; subst. rewrite app_nil_r. apply DI_core_same; auto.
    destruct (gof gs t); simpl in *; subst; reflexivity.
  - destruct (has id false (gH (gof gs t))) eqn:HA; [|discriminate].
    destruct (unregister id (ents s)) as [es1 ur] eqn:U1.
    destruct (unreg_one s gs t id false acc dsc es1 ur D Lt TH P HA U1) as (ms1 & MS & D1).
    pose proof D as (L & _). assert (Lg : t < length gs) by lia.
    set (s1 := mkDag (heap s) es1 (upd t (mkDT None (acc ++ ms1) dsc) (thr s))) in *.
    set (gs1 := upd t (mkG (drop id (gH (gof gs t))) []) gs) in *.
    assert (G1 : gof gs1 t = mkG (drop id (gH (gof gs t))) []).
    { unfold gs1. rewrite gof_upd by auto. rewrite Nat.eqb_refl. reflexivity. }
    assert (T1 : thf (thr s1) t = mkDT None (acc ++ ms1) dsc).
    { unfold s1; cbn [thr]. rewrite thf_upd by auto. rewrite Nat.eqb_refl. reflexivity. }
    assert (X : forall ms2, unregister_all r es1 = (es2, ms2) ->
                DI_core (mkDag (heap s) es2 (upd t (mkDT None (acc ++ ms1 ++ ms2) dsc) (thr s))) (upd t (mkG H' []) gs)).
    { intros ms2 U2. specialize (IH s1 gs1 t (acc ++ ms1) dsc es2 ms2 H' D1).
      unfold s1 in IH at 1. cbn [thr heap ents] in IH. rewrite upd_length in IH. specialize (IH Lt T1).
      rewrite G1 in IH. cbn [gH gP] in IH. specialize (IH eq_refl RS U2).
      unfold s1, gs1 in IH. cbn [thr heap] in IH. rewrite !upd_upd, <- app_assoc in IH. exact IH. }
    destruct MS as [[-> ->]|[m [-> ->]]].
    + apply X in UA. exact UA.
    + destruct (unregister_all r es1) as [es3 ms3] eqn:U2. inversion UA; subst. apply (X ms3). reflexivity.
Qed.
