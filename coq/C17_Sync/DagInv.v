(* C17 — DAGMutex: ordered balanced scripts, the ghost (held / being-acquired entities per thread) and the invariant
   that ties the ghost holder lists of every per-entity StarvingMutex to the script positions and the consumer counters
   to the registered threads, across entity drop and re-registration.  Definitions and basic lemmas. *)
From Coq Require Import List Arith Bool Lia.
From Verif.C17_Sync Require Import Model Proofs SmView ProofsProgress.
Import ListNotations.

(* ---------- scripts that acquire along the strict order of entity ids and release what they hold ---------- *)
(* held set: (entity, write?) *)
Definition all_lt (H : list (eid * bool)) (id : eid) : bool := forallb (fun p => fst p <? id) H.
Definition has (id : eid) (w : bool) (H : list (eid * bool)) : bool :=
  existsb (fun p => (fst p =? id) && Bool.eqb (snd p) w) H.
Definition drop (id : eid) (H : list (eid * bool)) : list (eid * bool) := filter (fun p => negb (fst p =? id)) H.

(* acquire one after the other: each entity greater than everything held so far *)
Fixpoint acq_seq (H : list (eid * bool)) (P : list (eid * bool)) : option (list (eid * bool)) :=
  match P with
  | [] => Some H
  | p :: ps => if all_lt H (fst p) then acq_seq (p :: H) ps else None
  end.

Fixpoint rel_seq (H : list (eid * bool)) (ids : list eid) : option (list (eid * bool)) :=
  match ids with
  | [] => Some H
  | id :: r => if has id false H then rel_seq (drop id H) r else None
  end.

(* dbal H l: the script l may follow a moment at which its thread holds H; it acquires only entities greater than all
   it holds (RLock(ids...): ids strictly increasing), unlocks only what it holds in the mode it holds it, and ends
   holding nothing *)
Fixpoint dbal (H : list (eid * bool)) (l : list dop) : bool :=
  match l with
  | [] => match H with [] => true | _ => false end
  | DLock id :: r => match acq_seq H [(id, true)] with Some H' => dbal H' r | None => false end
  | DRLock ids :: r => match acq_seq H (map (fun i => (i, false)) ids) with Some H' => dbal H' r | None => false end
  | DUnlock id :: r => has id true H && dbal (drop id H) r
  | DRUnlock ids :: r => match rel_seq H ids with Some H' => dbal H' r | None => false end
  end.

Definition ordered_balanced (sc : list dop) : Prop := dbal [] sc = true.

(* ---------- ghost ---------- *)
Record ghost := mkG {
  gH : list (eid * bool);      (* acquired *)
  gP : list (eid * bool)       (* registered by the current Lock/RLock call, not yet acquired, in acquisition order *)
}.
Definition g0 : ghost := mkG [] [].
Definition th0 : dthread := mkDT None [] [].
Definition gof (gs : list ghost) (t : nat) : ghost := nth t gs g0.
Definition hpf (hl : list sm) (r : mref) : sm := nth r hl sm0.
Definition thf (tl : list dthread) (t : nat) : dthread := nth t tl th0.

Definition b2n (b : bool) : nat := if b then 1 else 0.
Definition cntof (es : list (eid * (mref * nat))) (id : eid) : nat :=
  match lookup id es with Some (_, n) => n | None => 0 end.
Definition inreg (id : eid) (g : ghost) : bool := existsb (fun p => fst p =? id) (gP g ++ gH g).
Fixpoint regsum (id : eid) (gs : list ghost) : nat :=
  match gs with [] => 0 | g :: r => b2n (inreg id g) + regsum id r end.

Definition act_eqb (a b : act) : bool :=
  match a, b with
  | ARLock, ARLock | ARUnlock, ARUnlock | ALock, ALock | AUnlock, AUnlock => true
  | _, _ => false
  end.
Fixpoint owes (a : act) (r : mref) (l : list micro) : nat :=
  match l with
  | [] => 0
  | MAct r' a' :: q => b2n ((r' =? r) && act_eqb a' a) + owes a r q
  | MPanic :: q => owes a r q
  end.
Definition is_unlock (mi : micro) : bool :=
  match mi with MAct _ ARUnlock | MAct _ AUnlock => true | _ => false end.
Definition lockact (w : bool) : act := if w then ALock else ARLock.
Definition unlockact (w : bool) : act := if w then AUnlock else ARUnlock.
Definition micro_of (es : list (eid * (mref * nat))) (p : eid * bool) (mi : micro) : Prop :=
  exists r n, lookup (fst p) es = Some (r, n) /\ mi = MAct r (lockact (snd p)).

(* ---------- the invariant ---------- *)
Definition ents_wf (es : list (eid * (mref * nat))) (hl : nat) : Prop :=
  (forall id r n, lookup id es = Some (r, n) -> r < hl /\ 0 < n) /\
  (forall id1 id2 r n1 n2, lookup id1 es = Some (r, n1) -> lookup id2 es = Some (r, n2) -> id1 = id2).

Definition thr_core (es : list (eid * (mref * nat))) (hl : list sm) (t : nat) (th : dthread) (g : ghost) : Prop :=
  (match gP g with
   | [] => Forall (fun mi => is_unlock mi = true) (todo th)
   | _ :: _ => Forall2 (micro_of es) (match cur th with Some _ => tl (gP g) | None => gP g end) (todo th)
   end) /\
  (match cur th with
   | None => True
   | Some r => match gP g with
               | (id, w) :: _ => (exists n, lookup id es = Some (r, n)) /\
                                 (if w then vW t (hpf hl r) = 1 else vR t (hpf hl r) = 1)
               | [] => vN t (hpf hl r) = 1
               end
   end).

Definition thr_script (th : dthread) (g : ghost) : Prop :=
  exists H', acq_seq (gH g) (gP g) = Some H' /\ dbal H' (dscr th) = true.

Definition DI_core (s : dag) (gs : list ghost) : Prop :=
  length gs = length (thr s) /\
  Forall sm_inv (heap s) /\
  ents_wf (ents s) (length (heap s)) /\
  (forall id, regsum id gs = cntof (ents s) id) /\
  (forall t, thr_core (ents s) (heap s) t (thf (thr s) t) (gof gs t)) /\
  (forall t r, occ t (hpf (heap s) r) <= 1 /\ (0 < occ t (hpf (heap s) r) <-> cur (thf (thr s) t) = Some r)) /\
  (forall t r, owes ARUnlock r (todo (thf (thr s) t)) <= hR t (hpf (heap s) r) /\
               owes AUnlock r (todo (thf (thr s) t)) <= hW t (hpf (heap s) r)) /\
  (forall t id r n, lookup id (ents s) = Some (r, n) ->
     hR t (hpf (heap s) r) = b2n (has id false (gH (gof gs t))) + owes ARUnlock r (todo (thf (thr s) t)) /\
     hW t (hpf (heap s) r) = b2n (has id true (gH (gof gs t))) + owes AUnlock r (todo (thf (thr s) t))).

Definition DI (s : dag) (gs : list ghost) : Prop :=
  DI_core s gs /\ forall t, thr_script (thf (thr s) t) (gof gs t).

(* ---------- lookup / put / del ---------- *)
Lemma lookup_del_same id l : lookup id (del id l) = None.
Proof.
  induction l as [|[k v] r IH]; simpl; auto. destruct (k =? id) eqn:E; auto. simpl. rewrite E. auto.
Qed.
Lemma lookup_del_other id id2 l : id2 <> id -> lookup id2 (del id l) = lookup id2 l.
Proof.
  intros N. induction l as [|[k v] r IH]; simpl; auto.
  destruct (Nat.eqb_spec k id); subst.
  - destruct (Nat.eqb_spec id id2); [congruence|auto].
  - simpl. rewrite IH. reflexivity.
Qed.
Lemma lookup_put_same id v l : lookup id (put id v l) = Some v.
Proof. unfold put. simpl. rewrite Nat.eqb_refl. reflexivity. Qed.
Lemma lookup_put_other id id2 v l : id2 <> id -> lookup id2 (put id v l) = lookup id2 l.
Proof.
  intros N. unfold put. simpl. destruct (Nat.eqb_spec id id2); [congruence|]. apply lookup_del_other; auto.
Qed.

(* ---------- nth / upd ---------- *)
Lemma hpf_upd hl r m r2 : r < length hl -> hpf (upd r m hl) r2 = if r2 =? r then m else hpf hl r2.
Proof. intros L. unfold hpf. rewrite nth_upd. apply Nat.ltb_lt in L. rewrite L, andb_true_r. reflexivity. Qed.
Lemma thf_upd tl t th u : t < length tl -> thf (upd t th tl) u = if u =? t then th else thf tl u.
Proof. intros L. unfold thf. rewrite nth_upd. apply Nat.ltb_lt in L. rewrite L, andb_true_r. reflexivity. Qed.
Lemma gof_upd gs t g u : t < length gs -> gof (upd t g gs) u = if u =? t then g else gof gs u.
Proof. intros L. unfold gof. rewrite nth_upd. apply Nat.ltb_lt in L. rewrite L, andb_true_r. reflexivity. Qed.
Lemma upd_length {A} n (x : A) l : length (upd n x l) = length l.
Proof. revert n. induction l as [|y r IH]; intros [|n]; simpl; auto. Qed.
Lemma hpf_app_sm0 hl r : hpf (hl ++ [sm0]) r = hpf hl r.
Proof.
  unfold hpf. destruct (Nat.lt_ge_cases r (length hl)).
  - apply app_nth1; auto.
  - rewrite (nth_overflow hl); auto. rewrite app_nth2; auto.
    destruct (r - length hl) as [|[|k]]; reflexivity.
Qed.
Lemma hpf_nth_error hl r : r < length hl -> nth_error hl r = Some (hpf hl r).
Proof. intros L. unfold hpf. apply nth_error_nth'. auto. Qed.
Lemma hpf_overflow hl r : length hl <= r -> hpf hl r = sm0.
Proof. intros L. unfold hpf. apply nth_overflow; auto. Qed.
Lemma hpf_inv hl r : Forall sm_inv hl -> sm_inv (hpf hl r).
Proof.
  intros F. destruct (Nat.lt_ge_cases r (length hl)).
  - rewrite Forall_forall in F. apply F. unfold hpf. apply nth_In; auto.
  - rewrite hpf_overflow; auto. apply sm_inv_0.
Qed.

(* ---------- regsum ---------- *)
Lemma regsum_upd id g' : forall gs t, t < length gs ->
  regsum id (upd t g' gs) + b2n (inreg id (gof gs t)) = regsum id gs + b2n (inreg id g').
Proof.
  unfold gof. induction gs as [|g r IH]; intros t L; simpl in L; [lia|].
  destruct t; simpl; [lia|]. specialize (IH t). assert (t < length r) by lia. specialize (IH H). lia.
Qed.

Lemma regsum_ge id gs t : b2n (inreg id (gof gs t)) <= regsum id gs.
Proof.
  unfold gof. revert t. induction gs as [|g r IH]; intros t; simpl.
  - destruct t; simpl; lia.
  - destruct t; [lia|]. specialize (IH t). lia.
Qed.

Lemma regsum_ge2 id gs t u : t <> u -> b2n (inreg id (gof gs t)) + b2n (inreg id (gof gs u)) <= regsum id gs.
Proof.
  intros N. destruct (Nat.lt_ge_cases t (length gs)) as [L|L].
  - pose proof (regsum_upd id g0 gs t L) as E. pose proof (regsum_ge id (upd t g0 gs) u) as G.
    rewrite gof_upd in G; auto. destruct (Nat.eqb_spec u t); [congruence|].
    unfold inreg at 2 in E. simpl in E. lia.
  - unfold gof at 1. rewrite nth_overflow; auto. pose proof (regsum_ge id gs u). unfold inreg at 1. simpl. lia.
Qed.

(* ---------- has / drop / all_lt / inreg ---------- *)
Lemma has_drop_same id w H : has id w (drop id H) = false.
Proof.
  unfold has, drop. induction H as [|[k v] r IH]; simpl; auto.
  destruct (Nat.eqb_spec k id); simpl; auto. destruct (Nat.eqb_spec k id); [congruence|]. simpl. auto.
Qed.
Lemma has_drop_other id id2 w H : id2 <> id -> has id2 w (drop id H) = has id2 w H.
Proof.
  intros N. unfold has, drop. induction H as [|[k v] r IH]; simpl; auto.
  destruct (Nat.eqb_spec k id); simpl; subst.
  - destruct (Nat.eqb_spec id id2); [congruence|]. simpl. auto.
  - rewrite IH. reflexivity.
Qed.
Lemma all_lt_has id w H : all_lt H id = true -> has id w H = false.
Proof.
  unfold all_lt, has. induction H as [|[k v] r IH]; simpl; auto.
  intros A. apply andb_true_iff in A. destruct A as [A1 A2]. apply Nat.ltb_lt in A1.
  destruct (Nat.eqb_spec k id); [lia|]. simpl. auto.
Qed.
Lemma all_lt_exists id H : all_lt H id = true -> existsb (fun p : eid * bool => fst p =? id) H = false.
Proof.
  unfold all_lt. induction H as [|[k v] r IH]; simpl; auto.
  intros A. apply andb_true_iff in A. destruct A as [A1 A2]. apply Nat.ltb_lt in A1.
  destruct (Nat.eqb_spec k id); [lia|]. simpl. auto.
Qed.
Lemma has_exists id w H : has id w H = true -> existsb (fun p : eid * bool => fst p =? id) H = true.
Proof.
  unfold has. induction H as [|[k v] r IH]; simpl; auto.
  destruct (k =? id); simpl; auto.
Qed.
Lemma has_lt id id' w H : has id w H = true -> all_lt H id' = true -> id < id'.
Proof.
  unfold has, all_lt. induction H as [|[k v] r IH]; simpl; [discriminate|].
  intros A B. apply andb_true_iff in B. destruct B as [B1 B2]. apply Nat.ltb_lt in B1.
  apply orb_true_iff in A. destruct A as [A|A]; auto.
  apply andb_true_iff in A. destruct A as [A _]. apply Nat.eqb_eq in A. simpl in *. lia.
Qed.
Lemma exists_drop_same id H : existsb (fun p : eid * bool => fst p =? id) (drop id H) = false.
Proof.
  unfold drop. induction H as [|[k v] r IH]; simpl; auto.
  destruct (Nat.eqb_spec k id); simpl; auto. destruct (Nat.eqb_spec k id); [congruence|]. auto.
Qed.
Lemma exists_drop_other id id2 H : id2 <> id ->
  existsb (fun p : eid * bool => fst p =? id2) (drop id H) = existsb (fun p : eid * bool => fst p =? id2) H.
Proof.
  intros N. unfold drop. induction H as [|[k v] r IH]; simpl; auto.
  destruct (Nat.eqb_spec k id); simpl; subst.
  - destruct (Nat.eqb_spec id id2); [congruence|]. auto.
  - rewrite IH. reflexivity.
Qed.
Lemma has_cons id w p H : has id w (p :: H) = ((fst p =? id) && Bool.eqb (snd p) w) || has id w H.
Proof. reflexivity. Qed.

Lemma acq_seq_app H A : forall B, acq_seq H (A ++ B) = match acq_seq H A with Some H1 => acq_seq H1 B | None => None end.
Proof.
  revert H. induction A as [|p ps IH]; intros H B; simpl; auto.
  destruct (all_lt H (fst p)); auto.
Qed.
Lemma acq_seq_some H P : forall H', acq_seq H P = Some H' -> H' = rev P ++ H.
Proof.
  revert H. induction P as [|p ps IH]; intros H H' E; simpl in *.
  - inversion E; auto.
  - destruct (all_lt H (fst p)); [|discriminate]. apply IH in E. rewrite E, <- app_assoc. reflexivity.
Qed.
Lemma all_lt_app A B id : all_lt (A ++ B) id = all_lt A id && all_lt B id.
Proof. unfold all_lt. apply forallb_app. Qed.
Lemma all_lt_rev A id : all_lt (rev A) id = all_lt A id.
Proof.
  unfold all_lt. induction A as [|p r IH]; simpl; auto. rewrite forallb_app, IH. simpl. rewrite andb_true_r, andb_comm. reflexivity.
Qed.
(* the next entity to register is greater than everything registered or held *)
Lemma acq_seq_next H A p B : acq_seq H (A ++ p :: B) <> None -> all_lt (A ++ H) (fst p) = true.
Proof.
  rewrite acq_seq_app. destruct (acq_seq H A) as [H1|] eqn:E; [|congruence].
  apply acq_seq_some in E. subst. simpl. destruct (all_lt (rev A ++ H) (fst p)) eqn:L; [|congruence].
  intros _. rewrite all_lt_app, all_lt_rev in L. rewrite all_lt_app. exact L.
Qed.

(* ---------- owes ---------- *)
Lemma owes_app a r l1 l2 : owes a r (l1 ++ l2) = owes a r l1 + owes a r l2.
Proof. induction l1 as [|[r' a'|] q IH]; simpl; auto. lia. Qed.

Lemma owes_locks es P : forall l a r, Forall2 (micro_of es) P l -> (a = ARUnlock \/ a = AUnlock) -> owes a r l = 0.
Proof.
  induction P as [|p ps IH]; intros l a r F A; inversion F; subst; simpl; auto.
  destruct H1 as (r' & n & _ & ->). rewrite (IH _ a r H3 A).
  destruct (snd p), A as [-> | ->]; simpl; rewrite andb_false_r; reflexivity.
Qed.

Lemma b2n_le b : b2n b <= 1.
Proof. destruct b; simpl; lia. Qed.
