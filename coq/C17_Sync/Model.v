(* C17 — executable interleaving model of runtime/syncutils: StarvingMutex, DAGMutex, Counter, Stack.

   Every critical section that the Go code runs under the object's internal sync.Mutex is ONE atomic step here.
   sync.Cond is modelled by a parked list (goroutines inside Wait, in ticket order), a woken list (notified, not yet
   re-checked) and lists of threads that still owe a Signal / Broadcast (the Go code notifies AFTER releasing the
   internal mutex, so the notification is a step of its own and anything may happen in between).
   Ghost state (not in the Go struct): the holder lists rd / wr and all the lists of thread ids.

   The mirrored code is the one after the fix: commits f9b2752, 3cec065, 56f0939 (misuse panics release the internal
   mutexes and leave the state unchanged; DAGMutex.RUnlock read-unlocks the already unregistered prefix, then panics). *)
From Coq Require Import List Arith Bool ZArith Lia.
Import ListNotations.

Notation tid := nat (only parsing).

(* ---------- list helpers ---------- *)
Fixpoint mem (t : nat) (l : list nat) : bool :=
  match l with [] => false | x :: r => (x =? t) || mem t r end.

Fixpoint remove1 (t : nat) (l : list nat) : list nat :=
  match l with [] => [] | x :: r => if x =? t then r else x :: remove1 t r end.

(* releasing a holder slot: the caller's own entry if it has one, else the oldest one (a StarvingMutex is not tied
   to a goroutine: one goroutine may unlock what another one locked) *)
Definition take_out (t : nat) (l : list nat) : list nat := if mem t l then remove1 t l else tl l.

(* the n-th element and the rest; out of range = the first (so only the empty list gives None) *)
Fixpoint pick (n : nat) (l : list nat) {struct l} : option (nat * list nat) :=
  match l with
  | [] => None
  | x :: r => match n with
              | 0 => Some (x, r)
              | S k => match pick k r with Some (y, r') => Some (y, x :: r') | None => None end
              end
  end.
Definition pickd (n : nat) (l : list nat) : option (nat * list nat) :=
  match pick n l with Some p => Some p | None => pick 0 l end.

Fixpoint upd {A} (n : nat) (x : A) (l : list A) {struct l} : list A :=
  match l, n with
  | [], _ => []
  | _ :: r, 0 => x :: r
  | y :: r, S k => y :: upd k x r
  end.

(* ====================================================================================================== *)
(* StarvingMutex                                                                                          *)
(* ====================================================================================================== *)

Record sm := mkSM {
  ra : nat;          (* readersActive *)
  wa : bool;         (* writerActive *)
  pw : nat;          (* pendingWriters *)
  rd : list tid;     (* ghost: read holders *)
  wr : list tid;     (* ghost: write holder (at most one) *)
  wq : list tid;     (* parked in writerCond.Wait, ticket order *)
  wk : list tid;     (* writers woken by a Signal, not yet re-checked canWrite *)
  rq : list tid;     (* parked in readerCond.Wait *)
  rk : list tid;     (* readers woken by a Broadcast, not yet re-checked writerActive *)
  sg : list tid;     (* threads that released the internal mutex and still owe writerCond.Signal() *)
  bc : list tid      (* threads that still owe readerCond.Broadcast() *)
}.

Definition sm0 : sm := mkSM 0 false 0 [] [] [] [] [] [] [] [].

Definition can_write (m : sm) : bool := negb (wa m) && (ra m =? 0).

(* the thread is inside an operation on m: parked, woken or owing a notification *)
Definition busy (t : tid) (m : sm) : bool :=
  mem t (wq m) || mem t (wk m) || mem t (rq m) || mem t (rk m) || mem t (sg m) || mem t (bc m).

Inductive act := ARLock | ARUnlock | ALock | AUnlock.
Inductive res := RDone | RPark | RCont | RPanic.   (* returned | parked | owes a notification | panicked *)

(* body of `for f.writerActive { readerCond.Wait() }; f.readersActive++`, one evaluation under the internal mutex *)
Definition rlock_try (t : tid) (m : sm) : sm * res :=
  if wa m
  then (mkSM (ra m) (wa m) (pw m) (rd m) (wr m) (wq m) (wk m) (rq m ++ [t]) (rk m) (sg m) (bc m), RPark)
  else (mkSM (S (ra m)) (wa m) (pw m) (t :: rd m) (wr m) (wq m) (wk m) (rq m) (rk m) (sg m) (bc m), RDone).

(* body of `for !f.canWrite() { writerCond.Wait() }; f.pendingWriters--; f.writerActive = true` (pw already counted) *)
Definition lock_try (t : tid) (m : sm) : sm * res :=
  if can_write m
  then (mkSM (ra m) true (pred (pw m)) (rd m) (t :: wr m) (wq m) (wk m) (rq m) (rk m) (sg m) (bc m), RDone)
  else (mkSM (ra m) (wa m) (pw m) (rd m) (wr m) (wq m ++ [t]) (wk m) (rq m) (rk m) (sg m) (bc m), RPark).

Definition inc_pw (m : sm) : sm :=
  mkSM (ra m) (wa m) (S (pw m)) (rd m) (wr m) (wq m) (wk m) (rq m) (rk m) (sg m) (bc m).

(* first critical section of an operation *)
Definition sm_start (t : tid) (a : act) (m : sm) : sm * res :=
  match a with
  | ARLock => rlock_try t m
  | ALock => lock_try t (inc_pw m)
  | ARUnlock =>
      if ra m =? 0 then (m, RPanic)
      else if wa m then (m, RPanic)
      else if (pred (ra m) =? 0) && (0 <? pw m)
      then (mkSM (pred (ra m)) (wa m) (pw m) (take_out t (rd m)) (wr m) (wq m) (wk m) (rq m) (rk m) (sg m ++ [t]) (bc m), RCont)
      else (mkSM (pred (ra m)) (wa m) (pw m) (take_out t (rd m)) (wr m) (wq m) (wk m) (rq m) (rk m) (sg m) (bc m), RDone)
  | AUnlock =>
      if 0 <? ra m then (m, RPanic)
      else if pw m =? 0
      then (mkSM (ra m) false (pw m) (rd m) [] (wq m) (wk m) (rq m) (rk m) (sg m) (bc m ++ [t]), RCont)
      else (mkSM (ra m) false (pw m) (rd m) [] (wq m) (wk m) (rq m) (rk m) (sg m ++ [t]) (bc m), RCont)
  end.

(* writerCond.Signal(): wakes one parked writer (choice c; sync.Cond wakes the oldest ticket = c 0), lost if none *)
Definition signal (c : nat) (m : sm) : sm :=
  match pickd c (wq m) with
  | Some (w, rest) => mkSM (ra m) (wa m) (pw m) (rd m) (wr m) rest (wk m ++ [w]) (rq m) (rk m) (sg m) (bc m)
  | None => m
  end.

Definition broadcast (m : sm) : sm :=
  mkSM (ra m) (wa m) (pw m) (rd m) (wr m) (wq m) (wk m) [] (rk m ++ rq m) (sg m) (bc m).

(* later steps of an operation: a woken thread re-checks, a notifier notifies; None = parked (or not inside) *)
Definition sm_cont (t : tid) (c : nat) (m : sm) : option (sm * res) :=
  if mem t (wk m) then
    Some (lock_try t (mkSM (ra m) (wa m) (pw m) (rd m) (wr m) (wq m) (remove1 t (wk m)) (rq m) (rk m) (sg m) (bc m)))
  else if mem t (rk m) then
    Some (rlock_try t (mkSM (ra m) (wa m) (pw m) (rd m) (wr m) (wq m) (wk m) (rq m) (remove1 t (rk m)) (sg m) (bc m)))
  else if mem t (sg m) then
    Some (signal c (mkSM (ra m) (wa m) (pw m) (rd m) (wr m) (wq m) (wk m) (rq m) (rk m) (remove1 t (sg m)) (bc m)), RDone)
  else if mem t (bc m) then
    Some (broadcast (mkSM (ra m) (wa m) (pw m) (rd m) (wr m) (wq m) (wk m) (rq m) (rk m) (sg m) (remove1 t (bc m))), RDone)
  else None.

(* ---------- one StarvingMutex shared by threads that run scripts ---------- *)
Record sys := mkSys { mx : sm; scr : list (list act) }.

Definition step_ev (s : sys) (t : tid) (c : nat) : option (sys * res) :=
  if busy t (mx s) then
    match sm_cont t c (mx s) with
    | Some (m', r) => Some (mkSys m' (scr s), r)
    | None => None
    end
  else
    match nth_error (scr s) t with
    | Some (a :: rest) => let (m', r) := sm_start t a (mx s) in Some (mkSys m' (upd t rest (scr s)), r)
    | _ => None
    end.

Definition step (s : sys) (t : tid) (c : nat) : option sys := option_map fst (step_ev s t c).

Fixpoint run (sch : list (tid * nat)) (s : sys) : sys :=
  match sch with
  | [] => s
  | (t, c) :: r => match step s t c with Some s' => run r s' | None => run r s end
  end.

Definition init (scripts : list (list act)) : sys := mkSys sm0 scripts.

(* ====================================================================================================== *)
(* DAGMutex                                                                                               *)
(* ====================================================================================================== *)

Notation eid := nat (only parsing).
Notation mref := nat (only parsing).

Inductive dop := DRLock (ids : list eid) | DRUnlock (ids : list eid) | DLock (id : eid) | DUnlock (id : eid).
Inductive micro := MAct (r : mref) (a : act) | MPanic.

Record dthread := mkDT {
  cur : option mref;       (* the StarvingMutex the thread is currently inside (parked / woken / owing a notification) *)
  todo : list micro;       (* rest of the current DAGMutex operation *)
  dscr : list dop          (* rest of the script *)
}.

Record dag := mkDag {
  heap : list sm;                         (* every StarvingMutex ever allocated (dropped ones stay, unreachable) *)
  ents : list (eid * (mref * nat));       (* mutexes + consumerCounter: entity -> (mutex, consumers) *)
  thr : list dthread
}.

Fixpoint lookup (id : eid) (l : list (eid * (mref * nat))) : option (mref * nat) :=
  match l with [] => None | (k, v) :: r => if k =? id then Some v else lookup id r end.
Fixpoint del (id : eid) (l : list (eid * (mref * nat))) : list (eid * (mref * nat)) :=
  match l with [] => [] | (k, v) :: r => if k =? id then del id r else (k, v) :: del id r end.
Definition put (id : eid) (v : mref * nat) (l : list (eid * (mref * nat))) := (id, v) :: del id l.

(* registerMutex, under d.Mutex *)
Definition register (id : eid) (hp : list sm) (es : list (eid * (mref * nat))) : list sm * list (eid * (mref * nat)) * mref :=
  match lookup id es with
  | Some (r, n) => (hp, put id (r, S n) es, r)
  | None => (hp ++ [sm0], put id (length hp, 1) es, length hp)
  end.

Inductive unreg := UNil | UMutex (r : mref) | UErr.

(* unregisterMutex, under d.Mutex *)
Definition unregister (id : eid) (es : list (eid * (mref * nat))) : list (eid * (mref * nat)) * unreg :=
  match lookup id es with
  | Some (r, n) => if n =? 1 then (del id es, UNil) else (put id (r, pred n) es, UMutex r)
  | None => (es, UErr)
  end.

Fixpoint register_all (ids : list eid) (hp : list sm) (es : list (eid * (mref * nat))) : list sm * list (eid * (mref * nat)) * list micro :=
  match ids with
  | [] => (hp, es, [])
  | id :: r => let '(hp1, es1, m) := register id hp es in
               let '(hp2, es2, ms) := register_all r hp1 es1 in
               (hp2, es2, MAct m ARLock :: ms)
  end.

Fixpoint unregister_all (ids : list eid) (es : list (eid * (mref * nat))) : list (eid * (mref * nat)) * list micro :=
  match ids with
  | [] => (es, [])
  | id :: r => match unregister id es with
               | (es1, UErr) => (es1, [MPanic])
               | (es1, UNil) => unregister_all r es1
               | (es1, UMutex m) => let (es2, ms) := unregister_all r es1 in (es2, MAct m ARUnlock :: ms)
               end
  end.

(* first critical section (under d.Mutex) of a DAGMutex operation *)
Definition dag_begin (o : dop) (hp : list sm) (es : list (eid * (mref * nat))) : list sm * list (eid * (mref * nat)) * list micro :=
  match o with
  | DRLock ids => register_all ids hp es
  | DLock id => let '(hp1, es1, m) := register id hp es in (hp1, es1, [MAct m ALock])
  | DRUnlock ids => let (es1, ms) := unregister_all ids es in (hp, es1, ms)
  | DUnlock id => match unregister id es with
                  | (es1, UErr) => (hp, es1, [MPanic])
                  | (es1, UNil) => (hp, es1, [])
                  | (es1, UMutex m) => (hp, es1, [MAct m AUnlock])
                  end
  end.

Definition engaged (r : res) : bool := match r with RPark | RCont => true | _ => false end.

(* events: what the step did, as seen from the thread's caller *)
Inductive dev := DVStep | DVPanic.

Definition dstep_ev (s : dag) (t : tid) (c : nat) : option (dag * dev) :=
  match nth_error (thr s) t with
  | None => None
  | Some th =>
      match cur th with
      | Some r =>
          match nth_error (heap s) r with
          | None => None
          | Some m =>
              match sm_cont t c m with
              | None => None
              | Some (m', rs) =>
                  Some (mkDag (upd r m' (heap s)) (ents s)
                              (upd t (mkDT (if engaged rs then Some r else None) (todo th) (dscr th)) (thr s)), DVStep)
              end
          end
      | None =>
          match todo th with
          | MAct r a :: rest =>
              match nth_error (heap s) r with
              | None => None
              | Some m =>
                  let (m', rs) := sm_start t a m in
                  match rs with
                  | RPanic => Some (mkDag (heap s) (ents s) (upd t (mkDT None [] (dscr th)) (thr s)), DVPanic)
                  | _ => Some (mkDag (upd r m' (heap s)) (ents s)
                                     (upd t (mkDT (if engaged rs then Some r else None) rest (dscr th)) (thr s)), DVStep)
                  end
              end
          | MPanic :: rest => Some (mkDag (heap s) (ents s) (upd t (mkDT None [] (dscr th)) (thr s)), DVPanic)
          | [] =>
              match dscr th with
              | [] => None
              | o :: rest =>
                  let '(hp1, es1, ms) := dag_begin o (heap s) (ents s) in
                  Some (mkDag hp1 es1 (upd t (mkDT None ms rest) (thr s)), DVStep)
              end
          end
      end
  end.

Definition dstep (s : dag) (t : tid) (c : nat) : option dag := option_map fst (dstep_ev s t c).

Fixpoint drun (sch : list (tid * nat)) (s : dag) : dag :=
  match sch with
  | [] => s
  | (t, c) :: r => match dstep s t c with Some s' => drun r s' | None => drun r s end
  end.

Definition dinit (scripts : list (list dop)) : dag := mkDag [] [] (map (fun sc => mkDT None [] sc) scripts).

(* ====================================================================================================== *)
(* Counter (value, two condition variables)                                                               *)
(* ====================================================================================================== *)

Inductive cop := CSet (v : Z) | CUpdate (d : Z) | CWaitBelow (th : Z) | CWaitAbove (th : Z).

Record cnt := mkCnt {
  cval : Z;
  dq : list (tid * Z);   (* parked in valueDecreasedCond.Wait with their threshold (WaitIsBelow) *)
  dk : list (tid * Z);   (* woken, not yet re-checked *)
  iq : list (tid * Z);   (* parked in valueIncreasedCond.Wait (WaitIsAbove) *)
  ik : list (tid * Z);
  od : list tid;         (* owe valueDecreasedCond.Broadcast() *)
  oi : list tid          (* owe valueIncreasedCond.Broadcast() *)
}.

Definition cnt0 : cnt := mkCnt 0 [] [] [] [] [] [].

Fixpoint amem (t : tid) (l : list (tid * Z)) : bool :=
  match l with [] => false | (x, _) :: r => (x =? t) || amem t r end.
Fixpoint aget (t : tid) (l : list (tid * Z)) : option Z :=
  match l with [] => None | (x, v) :: r => if x =? t then Some v else aget t r end.
Fixpoint adel (t : tid) (l : list (tid * Z)) : list (tid * Z) :=
  match l with [] => [] | (x, v) :: r => if x =? t then r else (x, v) :: adel t r end.

Definition cbusy (t : tid) (s : cnt) : bool :=
  amem t (dq s) || amem t (dk s) || amem t (iq s) || amem t (ik s) || mem t (od s) || mem t (oi s).

Definition below_try (t : tid) (th : Z) (s : cnt) : cnt * res :=
  if (th <=? cval s)%Z
  then (mkCnt (cval s) (dq s ++ [(t, th)]) (dk s) (iq s) (ik s) (od s) (oi s), RPark)
  else (s, RDone).
Definition above_try (t : tid) (th : Z) (s : cnt) : cnt * res :=
  if (cval s <=? th)%Z
  then (mkCnt (cval s) (dq s) (dk s) (iq s ++ [(t, th)]) (ik s) (od s) (oi s), RPark)
  else (s, RDone).

(* set/update write the value under valueMutex; the caller then broadcasts according to the direction *)
Definition set_val (t : tid) (old new : Z) (s : cnt) : cnt * res :=
  if (old <? new)%Z then (mkCnt new (dq s) (dk s) (iq s) (ik s) (od s) (oi s ++ [t]), RCont)
  else if (new <? old)%Z then (mkCnt new (dq s) (dk s) (iq s) (ik s) (od s ++ [t]) (oi s), RCont)
  else (s, RDone).

Definition c_start (t : tid) (o : cop) (s : cnt) : cnt * res :=
  match o with
  | CSet v => set_val t (cval s) v s
  | CUpdate d => set_val t (cval s) (cval s + d)%Z s      (* delta >= 1 <-> new > old, delta <= -1 <-> new < old *)
  | CWaitBelow th => below_try t th s
  | CWaitAbove th => above_try t th s
  end.

Definition c_cont (t : tid) (s : cnt) : option (cnt * res) :=
  match aget t (dk s) with
  | Some th => Some (below_try t th (mkCnt (cval s) (dq s) (adel t (dk s)) (iq s) (ik s) (od s) (oi s)))
  | None =>
  match aget t (ik s) with
  | Some th => Some (above_try t th (mkCnt (cval s) (dq s) (dk s) (iq s) (adel t (ik s)) (od s) (oi s)))
  | None =>
  if mem t (od s) then Some (mkCnt (cval s) [] (dk s ++ dq s) (iq s) (ik s) (remove1 t (od s)) (oi s), RDone)
  else if mem t (oi s) then Some (mkCnt (cval s) (dq s) (dk s) [] (ik s ++ iq s) (od s) (remove1 t (oi s)), RDone)
  else None
  end end.

Record csys := mkCSys { cst : cnt; cscr : list (list cop) }.

Definition cstep_ev (s : csys) (t : tid) : option (csys * res) :=
  if cbusy t (cst s) then
    match c_cont t (cst s) with Some (m', r) => Some (mkCSys m' (cscr s), r) | None => None end
  else
    match nth_error (cscr s) t with
    | Some (o :: rest) => let (m', r) := c_start t o (cst s) in Some (mkCSys m' (upd t rest (cscr s)), r)
    | _ => None
    end.
Definition cstep (s : csys) (t : tid) : option csys := option_map fst (cstep_ev s t).
Fixpoint crun (sch : list tid) (s : csys) : csys :=
  match sch with [] => s | t :: r => match cstep s t with Some s' => crun r s' | None => crun r s end end.
Definition cinit (scripts : list (list cop)) : csys := mkCSys cnt0 scripts.

(* ====================================================================================================== *)
(* Stack (elements, elementAdded / elementRemoved) with an external wait condition for PopOrWait           *)
(* ====================================================================================================== *)

(* The wait condition of PopOrWait is a caller-supplied callback; it is modelled as reading one boolean `flag` (the worker
   pool's isRunning) at the moment the callback returns.
   KSetFlagLocked b : writes the flag and then passes through the stack's mutex before broadcasting elementAdded
                      (what WorkerPool.Shutdown + Stack.SignalShutdown do after the D16b repair).
   KSetFlagExt b    : writes the flag without the stack's mutex and broadcasts (the code before the repair).
   PopOrWait is three steps per loop iteration, all of them with the stack's mutex held (as in stack.go:64-76):
     loop head  (popwait_try)  : mutex taken, length looked at; empty -> the thread is INSIDE waitCondition() (kev)
     callback   (popwait_read) : somewhere inside waitCondition() the flag is read (an arbitrary callback may be slow
                                 before and after it looks at its condition)
                (popwait_eval) : waitCondition() returns what it read; false -> return, true -> about to Wait (kchk)
     Wait                      : registers on elementAdded and releases the mutex
   so every schedule may try to run other threads while a waiter is inside its callback or between the callback and
   Wait; operations that need the mutex are not enabled there.
   krel = true is NOT the code: it is the variant of PopOrWait that releases the mutex while it evaluates the callback
   and re-acquires it before Wait without looking at the length again (refuted, ProofsWaits.refuted_popOrWait_released).
   No step changes krel; kinit starts with krel = false. *)
Inductive kop :=
| KPush (v : nat) | KPop | KPopOrWait | KWaitBelow (th : nat) | KWaitAbove (th : nat)
| KSetFlagLocked (b : bool) | KSetFlagExt (b : bool)
| KSize.                     (* Size(): read lock on the stack's mutex, no effect *)

Record stk := mkStk {
  els : list nat;
  flag : bool;
  kmx : option tid;            (* holder of the stack's mutex between two steps (only PopOrWait: inside the callback / before Wait) *)
  aq : list (tid * nat);       (* parked on elementAdded: (thread, 0 = PopOrWait | S th = WaitSizeIsAbove th) *)
  ak : list (tid * nat);       (* woken *)
  xq : list (tid * nat);       (* parked on elementRemoved: WaitSizeIsBelow th *)
  xk : list (tid * nat);
  oa : list tid;               (* owe elementAdded.Broadcast() *)
  ox : list tid;               (* owe elementRemoved.Broadcast() *)
  kchk : list tid;             (* PopOrWait: holds the mutex, found the stack empty and the condition true, about to Wait *)
  kfs : list tid;              (* SetFlagLocked: flag written, about to pass through the mutex *)
  pops : list (tid * option nat);  (* results of Pop / PopOrWait, newest first *)
  kev : list (tid * option bool);  (* PopOrWait: found the stack empty, inside waitCondition() (mutex held unless krel);
                                      None = the flag not read yet, Some b = read b, not returned yet *)
  krel : bool                  (* false = the code; true = variant releasing the mutex around waitCondition() *)
}.

Definition stk0 : stk := mkStk [] true None [] [] [] [] [] [] [] [] [] [] false.

Fixpoint nmem (t : tid) (l : list (tid * nat)) : bool :=
  match l with [] => false | (x, _) :: r => (x =? t) || nmem t r end.
Fixpoint nget (t : tid) (l : list (tid * nat)) : option nat :=
  match l with [] => None | (x, v) :: r => if x =? t then Some v else nget t r end.
Fixpoint ndel (t : tid) (l : list (tid * nat)) : list (tid * nat) :=
  match l with [] => [] | (x, v) :: r => if x =? t then r else (x, v) :: ndel t r end.

Fixpoint eget (t : tid) (l : list (tid * option bool)) : option (option bool) :=
  match l with [] => None | (x, v) :: r => if x =? t then Some v else eget t r end.
Fixpoint edel (t : tid) (l : list (tid * option bool)) : list (tid * option bool) :=
  match l with [] => [] | (x, v) :: r => if x =? t then r else (x, v) :: edel t r end.
Fixpoint eset (t : tid) (b : bool) (l : list (tid * option bool)) : list (tid * option bool) :=
  match l with [] => [] | (x, v) :: r => if x =? t then (x, Some b) :: r else (x, v) :: eset t b r end.
Definition emem (t : tid) (l : list (tid * option bool)) : bool :=
  match eget t l with Some _ => true | None => false end.

Definition kbusy (t : tid) (s : stk) : bool :=
  nmem t (aq s) || nmem t (ak s) || nmem t (xq s) || nmem t (xk s) || mem t (oa s) || mem t (ox s)
  || mem t (kchk s) || mem t (kfs s) || emem t (kev s).

Definition mx_free (s : stk) : bool := match kmx s with None => true | Some _ => false end.

(* loop head of PopOrWait under the mutex: pop, or call waitCondition() (with the mutex held; krel: after releasing it) *)
Definition popwait_try (t : tid) (s : stk) : stk * res :=
  match els s with
  | x :: r => (mkStk r (flag s) None (aq s) (ak s) (xq s) (xk s) (oa s) (ox s ++ [t]) (kchk s) (kfs s) ((t, Some x) :: pops s) (kev s) (krel s), RCont)
  | [] => (mkStk [] (flag s) (if krel s then None else Some t) (aq s) (ak s) (xq s) (xk s) (oa s) (ox s) (kchk s) (kfs s) (pops s) (kev s ++ [(t, None)]) (krel s), RCont)
  end.

(* inside waitCondition(): the flag is read *)
Definition popwait_read (t : tid) (s : stk) : stk * res :=
  (mkStk (els s) (flag s) (kmx s) (aq s) (ak s) (xq s) (xk s) (oa s) (ox s) (kchk s) (kfs s) (pops s) (eset t (flag s) (kev s)) (krel s), RCont).

(* waitCondition() returns b (the code: mutex held all along; krel: the mutex is re-acquired here, kmx must be free) *)
Definition popwait_eval (t : tid) (b : bool) (s : stk) : stk * res :=
  if b
  then (mkStk (els s) (flag s) (Some t) (aq s) (ak s) (xq s) (xk s) (oa s) (ox s) (kchk s ++ [t]) (kfs s) (pops s) (edel t (kev s)) (krel s), RCont)
  else (mkStk (els s) (flag s) None (aq s) (ak s) (xq s) (xk s) (oa s) (ox s) (kchk s) (kfs s) ((t, None) :: pops s) (edel t (kev s)) (krel s), RDone).

Definition above_k (t : tid) (th : nat) (s : stk) : stk * res :=
  if length (els s) <=? th
  then (mkStk (els s) (flag s) None (aq s ++ [(t, S th)]) (ak s) (xq s) (xk s) (oa s) (ox s) (kchk s) (kfs s) (pops s) (kev s) (krel s), RPark)
  else (mkStk (els s) (flag s) None (aq s) (ak s) (xq s) (xk s) (oa s) (ox s) (kchk s) (kfs s) (pops s) (kev s) (krel s), RDone).
Definition below_k (t : tid) (th : nat) (s : stk) : stk * res :=
  if th <=? length (els s)
  then (mkStk (els s) (flag s) None (aq s) (ak s) (xq s ++ [(t, th)]) (xk s) (oa s) (ox s) (kchk s) (kfs s) (pops s) (kev s) (krel s), RPark)
  else (mkStk (els s) (flag s) None (aq s) (ak s) (xq s) (xk s) (oa s) (ox s) (kchk s) (kfs s) (pops s) (kev s) (krel s), RDone).

(* first step of an operation; None = needs the stack's mutex, which is taken *)
Definition k_start (t : tid) (o : kop) (s : stk) : option (stk * res) :=
  match o with
  | KSetFlagExt b =>
      Some (mkStk (els s) b (kmx s) (aq s) (ak s) (xq s) (xk s) (oa s ++ [t]) (ox s) (kchk s) (kfs s) (pops s) (kev s) (krel s), RCont)
  | KSetFlagLocked b =>
      Some (mkStk (els s) b (kmx s) (aq s) (ak s) (xq s) (xk s) (oa s) (ox s) (kchk s) (kfs s ++ [t]) (pops s) (kev s) (krel s), RCont)
  | _ =>
    if negb (mx_free s) then None else
    match o with
    | KPush v => Some (mkStk (els s ++ [v]) (flag s) None (aq s) (ak s) (xq s) (xk s) (oa s ++ [t]) (ox s) (kchk s) (kfs s) (pops s) (kev s) (krel s), RCont)
    | KPop => match els s with
              | x :: r => Some (mkStk r (flag s) None (aq s) (ak s) (xq s) (xk s) (oa s) (ox s ++ [t]) (kchk s) (kfs s) ((t, Some x) :: pops s) (kev s) (krel s), RCont)
              | [] => Some (mkStk [] (flag s) None (aq s) (ak s) (xq s) (xk s) (oa s) (ox s) (kchk s) (kfs s) ((t, None) :: pops s) (kev s) (krel s), RDone)
              end
    | KPopOrWait => Some (popwait_try t s)
    | KWaitBelow th => Some (below_k t th s)
    | KWaitAbove th => Some (above_k t th s)
    | KSize => Some (mkStk (els s) (flag s) None (aq s) (ak s) (xq s) (xk s) (oa s) (ox s) (kchk s) (kfs s) (pops s) (kev s) (krel s), RDone)
    | _ => None
    end
  end.

Definition k_cont (t : tid) (s : stk) : option (stk * res) :=
  match eget t (kev s) with
  | Some None => Some (popwait_read t s)         (* inside waitCondition(): reads the flag *)
  | Some (Some b) =>                             (* waitCondition() returns *)
      if krel s && negb (mx_free s) then None else Some (popwait_eval t b s)
  | None =>
  if mem t (kchk s) then   (* elementAdded.Wait(): registers and releases the mutex *)
    Some (mkStk (els s) (flag s) None (aq s ++ [(t, 0)]) (ak s) (xq s) (xk s) (oa s) (ox s) (remove1 t (kchk s)) (kfs s) (pops s) (kev s) (krel s), RPark)
  else if mem t (kfs s) then   (* SignalShutdown: b.mutex.Lock(); b.mutex.Unlock(); then Broadcast *)
    if mx_free s
    then Some (mkStk (els s) (flag s) None (aq s) (ak s) (xq s) (xk s) (oa s ++ [t]) (ox s) (kchk s) (remove1 t (kfs s)) (pops s) (kev s) (krel s), RCont)
    else None
  else if mem t (oa s) then
    Some (mkStk (els s) (flag s) (kmx s) [] (ak s ++ aq s) (xq s) (xk s) (remove1 t (oa s)) (ox s) (kchk s) (kfs s) (pops s) (kev s) (krel s), RDone)
  else if mem t (ox s) then
    Some (mkStk (els s) (flag s) (kmx s) (aq s) (ak s) [] (xk s ++ xq s) (oa s) (remove1 t (ox s)) (kchk s) (kfs s) (pops s) (kev s) (krel s), RDone)
  else
  match nget t (ak s) with     (* woken from elementAdded.Wait: re-acquires the mutex, loops *)
  | Some w =>
      if negb (mx_free s) then None else
      let s1 := mkStk (els s) (flag s) None (aq s) (ndel t (ak s)) (xq s) (xk s) (oa s) (ox s) (kchk s) (kfs s) (pops s) (kev s) (krel s) in
      Some (match w with 0 => popwait_try t s1 | S th => above_k t th s1 end)
  | None =>
  match nget t (xk s) with
  | Some th =>
      if negb (mx_free s) then None else
      Some (below_k t th (mkStk (els s) (flag s) None (aq s) (ak s) (xq s) (ndel t (xk s)) (oa s) (ox s) (kchk s) (kfs s) (pops s) (kev s) (krel s)))
  | None => None
  end end end.

Record ksys := mkKSys { kst : stk; kscr : list (list kop) }.

Definition kstep_ev (s : ksys) (t : tid) : option (ksys * res) :=
  if kbusy t (kst s) then
    match k_cont t (kst s) with Some (m', r) => Some (mkKSys m' (kscr s), r) | None => None end
  else
    match nth_error (kscr s) t with
    | Some (o :: rest) =>
        match k_start t o (kst s) with
        | Some (m', r) => Some (mkKSys m' (upd t rest (kscr s)), r)
        | None => None
        end
    | _ => None
    end.
Definition kstep (s : ksys) (t : tid) : option ksys := option_map fst (kstep_ev s t).
Fixpoint krun (sch : list tid) (s : ksys) : ksys :=
  match sch with [] => s | t :: r => match kstep s t with Some s' => krun r s' | None => krun r s end end.
Definition kinit (scripts : list (list kop)) : ksys := mkKSys stk0 scripts.
(* the variant (not the code): the mutex is released around waitCondition() *)
Definition stk0_rel : stk := mkStk [] true None [] [] [] [] [] [] [] [] [] [] true.
Definition kinit_rel (scripts : list (list kop)) : ksys := mkKSys stk0_rel scripts.
