(* C17 — termination: every effective step of the StarvingMutex system / of the DAGMutex system strictly decreases a
   lexicographic measure (operations left, notifications owed, woken threads), so there is no infinite run of effective
   steps (no livelock: a woken thread that parks again has consumed a notification, a notification an unlock).
   With the absence of stuck states (ProofsProgress / DagLive): from every reachable state of balanced (ordered balanced)
   scripts, running enabled steps in ANY order ends, and it ends in the final state. *)
From Coq Require Import List Arith Bool Lia Wellfounded.
From Verif.C17_Sync Require Import Model Proofs ProofsDag SmView ProofsProgress DagInv DagSteps DagLive.
Import ListNotations.

(* ---------- lexicographic measures ---------- *)
Definition lt3 (x y : nat * nat * nat) : Prop :=
  let '(a, b, c) := x in let '(a', b', c') := y in
  a < a' \/ (a = a' /\ (b < b' \/ (b = b' /\ c < c'))).

Lemma lex3_wf {S} (R : S -> S -> Prop) (f g h : S -> nat) :
  (forall s' s, R s' s -> lt3 (f s', g s', h s') (f s, g s, h s)) -> well_founded R.
Proof.
  intros H.
  assert (X : forall a b c s, f s = a -> g s = b -> h s = c -> Acc R s).
  { intros a. induction a as [a IHa] using lt_wf_ind. intros b. induction b as [b IHb] using lt_wf_ind.
    intros c. induction c as [c IHc] using lt_wf_ind. intros s Fa Gb Hc. constructor. intros s' Rs.
    apply H in Rs. simpl in Rs. destruct Rs as [L|[E [L|[E2 L]]]].
    - eapply (IHa (f s')); try reflexivity; lia.
    - eapply (IHb (g s')); try reflexivity; lia.
    - eapply (IHc (h s')); try reflexivity; lia. }
  intros s. eapply X; reflexivity.
Qed.

Definition lt4 (x y : nat * nat * nat * nat) : Prop :=
  let '(a, b, c, d) := x in let '(a', b', c', d') := y in
  a < a' \/ (a = a' /\ lt3 (b, c, d) (b', c', d')).

Lemma lex4_wf {S} (R : S -> S -> Prop) (e f g h : S -> nat) :
  (forall s' s, R s' s -> lt4 (e s', f s', g s', h s') (e s, f s, g s, h s)) -> well_founded R.
Proof.
  intros H.
  assert (X : forall z a b c s, e s = z -> f s = a -> g s = b -> h s = c -> Acc R s).
  { intros z. induction z as [z IHz] using lt_wf_ind.
    intros a. induction a as [a IHa] using lt_wf_ind. intros b. induction b as [b IHb] using lt_wf_ind.
    intros c. induction c as [c IHc] using lt_wf_ind. intros s Ez Fa Gb Hc. constructor. intros s' Rs.
    apply H in Rs. simpl in Rs. destruct Rs as [L|[E0 [L|[E [L|[E2 L]]]]]].
    - eapply (IHz (e s')); try reflexivity; lia.
    - eapply (IHa (f s')); try reflexivity; lia.
    - eapply (IHb (g s')); try reflexivity; lia.
    - eapply (IHc (h s')); try reflexivity; lia. }
  intros s. eapply X; reflexivity.
Qed.

(* ---------- one StarvingMutex ---------- *)
Definition mB (m : sm) : nat := length (sg m) + length (bc m).
Definition mC (m : sm) : nat := length (wk m) + length (rk m).

(* a later step of an operation: consumes a notification, or (notifications unchanged) a woken thread *)
Lemma sm_cont_measure t c m m' r : sm_cont t c m = Some (m', r) ->
  mB m' < mB m \/ (mB m' = mB m /\ mC m' < mC m).
Proof.
  unfold sm_cont, mB, mC. intros H.
  destruct (mem t (wk m)) eqn:K1.
  { apply remove1_length in K1. inversion H as [H1]; clear H. unfold lock_try in H1; cbn [ra wa pw rd wr wq wk rq rk sg bc] in H1.
    destruct (can_write _); inversion H1; subst; clear H1; simpl; right; lia. }
  destruct (mem t (rk m)) eqn:K2.
  { apply remove1_length in K2. inversion H as [H1]; clear H. unfold rlock_try in H1; cbn [ra wa pw rd wr wq wk rq rk sg bc] in H1.
    destruct (wa m); inversion H1; subst; clear H1; simpl; right; lia. }
  destruct (mem t (sg m)) eqn:K3.
  { apply remove1_length in K3. inversion H; subst; clear H. unfold signal; cbn [ra wa pw rd wr wq wk rq rk sg bc].
    destruct (pickd c (wq m)) as [[w rest]|]; simpl; left; lia. }
  destruct (mem t (bc m)) eqn:K4; [|discriminate].
  apply remove1_length in K4. inversion H; subst; clear H. unfold broadcast; simpl. left; lia.
Qed.

Definition ops_left (s : sys) : nat := list_sum (map (@length act) (scr s)).

Lemma list_sum_upd {A} (f : A -> nat) x : forall l t y, nth_error l t = Some y ->
  list_sum (map f (upd t x l)) + f y = list_sum (map f l) + f x.
Proof.
  induction l as [|z r IH]; intros [|t] y H; simpl in *; try discriminate.
  - inversion H; subst. lia.
  - specialize (IH t y H). lia.
Qed.

Lemma step_measure s t c s' : step s t c = Some s' ->
  lt3 (ops_left s', mB (mx s'), mC (mx s')) (ops_left s, mB (mx s), mC (mx s)).
Proof.
  unfold step, step_ev. intros H. destruct (busy t (mx s)).
  - destruct (sm_cont t c (mx s)) as [[m' r]|] eqn:E; [|discriminate]. inversion H; subst; clear H. simpl.
    right. split; [reflexivity|]. apply sm_cont_measure in E. lia.
  - destruct (nth_error (scr s) t) as [[|a rest]|] eqn:N; try discriminate.
    destruct (sm_start t a (mx s)) as [m' r]. inversion H; subst; clear H. simpl. left.
    unfold ops_left; simpl. pose proof (list_sum_upd (@length act) rest _ _ _ N) as X. simpl in X. lia.
Qed.

(* no infinite run of effective steps, whatever the scripts and from any state *)
Theorem lock_terminates : well_founded (fun s' s : sys => exists t c, step s t c = Some s').
Proof.
  apply (lex3_wf _ ops_left (fun s => mB (mx s)) (fun s => mC (mx s))).
  intros s' s [t [c H]]. eapply step_measure; eauto.
Qed.

Lemma run_app a : forall b s, run (a ++ b) s = run b (run a s).
Proof. induction a as [|[t c] r IH]; simpl; intros b s; auto. destruct (step s t c); auto. Qed.

(* from every reachable state of balanced scripts the final state is reached by running enabled steps; since no run of
   effective steps is infinite and no non-final state is stuck, EVERY way of running enabled steps ends there *)
Theorem lock_completes scripts sch :
  Forall balanced scripts ->
  exists sch', let s := run (sch ++ sch') (init scripts) in
               stuck s /\ (forall t, finished s t) /\ rd (mx s) = [] /\ wr (mx s) = [] /\ pw (mx s) = 0.
Proof.
  intros F.
  assert (X : forall s, forall sch, s = run sch (init scripts) -> exists sch', stuck (run (sch ++ sch') (init scripts))).
  { intros s. induction (lock_terminates s) as [s _ IH]. intros sch0 ->.
    destruct (stuck_dec (run sch0 (init scripts))) as [S|[t [c E]]].
    - exists []. rewrite app_nil_r. auto.
    - destruct (step (run sch0 (init scripts)) t c) as [s1|] eqn:E1; [|congruence].
      destruct (IH s1 (ex_intro _ t (ex_intro _ c E1)) (sch0 ++ [(t, c)])) as [sch1 S1].
      { rewrite run_app. simpl. rewrite E1. reflexivity. }
      exists ((t, c) :: sch1). rewrite <- app_assoc in S1. exact S1. }
  destruct (X _ sch eq_refl) as [sch' S]. exists sch'. intros s.
  destruct (lock_progress_all scripts (sch ++ sch') F S) as (A & _ & _ & _ & B & C & D). auto.
Qed.

(* ---------- DAGMutex ---------- *)
Definition d_ops (s : dag) : nat := list_sum (map (fun th => length (dscr th)) (thr s)).
Definition d_todo (s : dag) : nat := list_sum (map (fun th => length (todo th)) (thr s)).
Definition d_B (s : dag) : nat := list_sum (map mB (heap s)).
Definition d_C (s : dag) : nat := list_sum (map mC (heap s)).

Lemma list_sum_upd_eq {A} (f : A -> nat) x l t y : nth_error l t = Some y -> f x = f y ->
  list_sum (map f (upd t x l)) = list_sum (map f l).
Proof. intros N E. pose proof (list_sum_upd f x l t y N). lia. Qed.

Lemma register_sums id hp es hp' es' r : register id hp es = (hp', es', r) ->
  list_sum (map mB hp') = list_sum (map mB hp) /\ list_sum (map mC hp') = list_sum (map mC hp).
Proof.
  unfold register. destruct (lookup id es) as [[r0 n]|]; intros H; inversion H; subst; auto.
  rewrite !map_app, !list_sum_app. simpl. unfold mB, mC; simpl. lia.
Qed.

Lemma register_all_sums ids : forall hp es hp' es' ms, register_all ids hp es = (hp', es', ms) ->
  list_sum (map mB hp') = list_sum (map mB hp) /\ list_sum (map mC hp') = list_sum (map mC hp).
Proof.
  induction ids as [|id r IH]; simpl; intros hp es hp' es' ms H.
  - inversion H; subst; auto.
  - destruct (register id hp es) as [[hp1 es1] m] eqn:E1.
    destruct (register_all r hp1 es1) as [[hp2 es2] ms2] eqn:E2. inversion H; subst.
    apply register_sums in E1. apply IH in E2. lia.
Qed.

Lemma dag_begin_sums o hp es hp' es' ms : dag_begin o hp es = (hp', es', ms) ->
  list_sum (map mB hp') = list_sum (map mB hp) /\ list_sum (map mC hp') = list_sum (map mC hp).
Proof.
  intros H. destruct o; simpl in H.
  - eapply register_all_sums; eauto.
  - destruct (unregister_all ids es) as [es1 ms1]. inversion H; subst; auto.
  - destruct (register id hp es) as [[hp1 es1] m] eqn:E. inversion H; subst. eapply register_sums; eauto.
  - destruct (unregister id es) as [es1 [| |]]; inversion H; subst; auto.
Qed.

Lemma dstep_measure s t c s' : dstep s t c = Some s' ->
  lt4 (d_ops s', d_todo s', d_B s', d_C s') (d_ops s, d_todo s, d_B s, d_C s).
Proof.
  unfold dstep, dstep_ev, d_ops, d_todo, d_B, d_C. intros H.
  destruct (nth_error (thr s) t) as [th|] eqn:NT; [|discriminate].
  destruct (cur th) as [r|].
  - destruct (nth_error (heap s) r) as [m|] eqn:NH; [|discriminate].
    destruct (sm_cont t c m) as [[m' rs]|] eqn:E; [|discriminate].
    simpl in H. inversion H; subst; clear H. cbn [thr heap].
    right. split; [apply (list_sum_upd_eq _ _ _ _ _ NT); reflexivity|].
    right. split; [apply (list_sum_upd_eq _ _ _ _ _ NT); reflexivity|].
    pose proof (list_sum_upd mB m' _ _ _ NH). pose proof (list_sum_upd mC m' _ _ _ NH).
    apply sm_cont_measure in E. lia.
  - destruct (todo th) as [|[r a|] rest] eqn:TD.
    + destruct (dscr th) as [|o rest] eqn:DS; [discriminate|].
      destruct (dag_begin o (heap s) (ents s)) as [[hp1 es1] ms] eqn:E. simpl in H. inversion H; subst; clear H. cbn [thr heap].
      left. pose proof (list_sum_upd (fun th => length (dscr th)) (mkDT None ms rest) _ _ _ NT) as X.
      cbv beta in X. rewrite DS in X. simpl in X. lia.
    + destruct (nth_error (heap s) r) as [m|] eqn:NH; [|discriminate].
      destruct (sm_start t a m) as [m' rs] eqn:E.
      assert (Y : forall cu td, list_sum (map (fun th => length (todo th)) (upd t (mkDT cu td (dscr th)) (thr s))) + S (length rest)
                                = list_sum (map (fun th => length (todo th)) (thr s)) + length td).
      { intros cu td. pose proof (list_sum_upd (fun th => length (todo th)) (mkDT cu td (dscr th)) _ _ _ NT) as X.
        cbv beta in X. rewrite TD in X. simpl in X. simpl. lia. }
      destruct rs; simpl in H; inversion H; subst; clear H; cbn [thr heap];
        (right; split; [apply (list_sum_upd_eq _ _ _ _ _ NT); reflexivity|]); left;
        match goal with |- context [mkDT ?cu ?td _] => specialize (Y cu td) end; simpl in Y; lia.
    + simpl in H. inversion H; subst; clear H. cbn [thr heap].
      right; split; [apply (list_sum_upd_eq _ _ _ _ _ NT); reflexivity|]. left.
      pose proof (list_sum_upd (fun th => length (todo th)) (mkDT None [] (dscr th)) _ _ _ NT) as X.
      cbv beta in X. rewrite TD in X. simpl in X. lia.
Qed.

Theorem dag_terminates : well_founded (fun s' s : dag => exists t c, dstep s t c = Some s').
Proof.
  apply (lex4_wf _ d_ops d_todo d_B d_C). intros s' s [t [c H]]. eapply dstep_measure; eauto.
Qed.

Lemma drun_app a : forall b s, drun (a ++ b) s = drun b (drun a s).
Proof. induction a as [|[t c] r IH]; simpl; intros b s; auto. destruct (dstep s t c); auto. Qed.

Theorem dag_completes scripts sch :
  Forall ordered_balanced scripts ->
  exists sch', let s := drun (sch ++ sch') (dinit scripts) in
               dstuck s /\ forall th, In th (thr s) -> dfinal th.
Proof.
  intros F.
  assert (X : forall s, forall sch, s = drun sch (dinit scripts) -> exists sch', dstuck (drun (sch ++ sch') (dinit scripts))).
  { intros s. induction (dag_terminates s) as [s _ IH]. intros sch0 ->.
    destruct (dstuck_dec (drun sch0 (dinit scripts))) as [S|[t [c E]]].
    - exists []. rewrite app_nil_r. auto.
    - destruct (dstep (drun sch0 (dinit scripts)) t c) as [s1|] eqn:E1; [|congruence].
      destruct (IH s1 (ex_intro _ t (ex_intro _ c E1)) (sch0 ++ [(t, c)])) as [sch1 S1].
      { rewrite drun_app. simpl. rewrite E1. reflexivity. }
      exists ((t, c) :: sch1). rewrite <- app_assoc in S1. exact S1. }
  destruct (X _ sch eq_refl) as [sch' S]. exists sch'. intros s. split; auto.
  apply (dag_acyclic_all scripts (sch ++ sch') F S).
Qed.
