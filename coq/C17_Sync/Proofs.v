(* C17 — StarvingMutex: inductive invariant (exclusion, pending-writer accounting, no lost wake-up), its lifting to
   all schedules of any number of threads with arbitrary scripts, the stuck-state corollary and the misuse lemmas. *)
From Coq Require Import List Arith Bool Lia.
From Verif.C17_Sync Require Import Model.
Import ListNotations.

(* ---------- list helpers ---------- *)
Lemma remove1_length t l : mem t l = true -> S (length (remove1 t l)) = length l.
Proof.
  induction l as [|x r IH]; simpl; [discriminate|].
  destruct (x =? t) eqn:E; simpl; auto.
Qed.

Lemma take_out_length t l : length (take_out t l) = pred (length l).
Proof.
  unfold take_out. destruct (mem t l) eqn:E.
  - apply remove1_length in E. lia.
  - destruct l; reflexivity.
Qed.

Lemma pick_length n l w rest : pick n l = Some (w, rest) -> length l = S (length rest).
Proof.
  revert n w rest. induction l as [|x r IH]; simpl; intros n w rest H; [discriminate|].
  destruct n.
  - inversion H; subst; reflexivity.
  - destruct (pick n r) as [[y r']|] eqn:E; [|discriminate]. inversion H; subst. simpl. f_equal. eapply IH; eauto.
Qed.

Lemma pickd_length n l w rest : pickd n l = Some (w, rest) -> length l = S (length rest).
Proof.
  unfold pickd. destruct (pick n l) as [[y r']|] eqn:E; intros H.
  - inversion H; subst. eapply pick_length; eauto.
  - eapply pick_length; eauto.
Qed.

Lemma pickd_none n l : pickd n l = None -> l = [].
Proof. unfold pickd. destruct l; auto. destruct (pick n (n0 :: l)) as [[? ?]|]; simpl; discriminate. Qed.

Lemma mem_in t l : mem t l = true <-> In t l.
Proof.
  induction l as [|x r IH]; simpl; [split; [discriminate|tauto]|].
  rewrite orb_true_iff, Nat.eqb_eq, IH. tauto.
Qed.

Lemma nonempty_mem (l : list nat) : 0 < length l -> exists t, mem t l = true.
Proof. destruct l as [|x r]; simpl; [lia|]. exists x. rewrite Nat.eqb_refl. reflexivity. Qed.

(* ---------- the invariant of one StarvingMutex ---------- *)
Definition sm_inv (m : sm) : Prop :=
  ra m = length (rd m) /\
  length (wr m) = (if wa m then 1 else 0) /\
  (wa m = true -> ra m = 0) /\
  pw m = length (wq m) + length (wk m) /\
  (wa m = false -> ra m = 0 -> 0 < pw m -> 0 < length (wk m) + length (sg m)) /\
  (0 < length (rq m) -> wa m = false -> pw m = 0 -> 0 < length (bc m)).

Lemma sm_inv_0 : sm_inv sm0.
Proof. unfold sm_inv, sm0; simpl. repeat split; intros; try lia; auto. Qed.

Ltac inv_tac :=
  unfold sm_inv in *; simpl in *;
  repeat match goal with H : _ /\ _ |- _ => destruct H end;
  repeat split; intros; simpl in *;
  repeat rewrite app_length in *; simpl in *;
  try rewrite take_out_length in *;
  try match goal with W : wa ?m = ?b |- _ => rewrite W in * end;
  try solve [auto | congruence | lia | intuition (try congruence; try lia)].

Lemma rlock_try_inv t m m' r : sm_inv m -> rlock_try t m = (m', r) -> sm_inv m'.
Proof.
  unfold rlock_try. intros I H. destruct (wa m) eqn:W; inversion H; subst; clear H; inv_tac.
Qed.

Lemma lock_try_inv t m m' r :
  ra m = length (rd m) -> length (wr m) = (if wa m then 1 else 0) -> (wa m = true -> ra m = 0) ->
  pw m = S (length (wq m) + length (wk m)) ->
  (0 < length (rq m) -> wa m = false -> pw m = 0 -> 0 < length (bc m)) ->
  lock_try t m = (m', r) -> sm_inv m'.
Proof.
  unfold lock_try, can_write. intros I1 I2 I3 I4 I6 H.
  destruct (wa m) eqn:W; simpl in H.
  - inversion H; subst; clear H. unfold sm_inv; simpl; try rewrite W. repeat split; intros; try rewrite app_length; simpl; try congruence; try lia; auto.
  - destruct (ra m =? 0) eqn:R; inversion H; subst; clear H; unfold sm_inv; simpl; try rewrite W.
    + apply Nat.eqb_eq in R. repeat split; intros; try congruence; try lia.
    + apply Nat.eqb_neq in R. repeat split; intros; try rewrite app_length; simpl; try congruence; try lia; auto.
Qed.

Lemma sm_start_inv t a m m' r : sm_inv m -> sm_start t a m = (m', r) -> sm_inv m'.
Proof.
  intros I H. destruct a; simpl in H.
  - eapply rlock_try_inv; eauto.
  - (* RUnlock *)
    destruct (ra m =? 0) eqn:R0; [inversion H; subst; auto|]. apply Nat.eqb_neq in R0.
    destruct (wa m) eqn:W; [inversion H; subst; auto|].
    destruct ((pred (ra m) =? 0) && (0 <? pw m)) eqn:C; inversion H; subst; clear H.
    + apply andb_true_iff in C. destruct C as [C1 C2]. apply Nat.eqb_eq in C1. apply Nat.ltb_lt in C2.
      inv_tac.
    + apply andb_false_iff in C. rewrite Nat.eqb_neq, Nat.ltb_ge in C. inv_tac.
  - (* Lock *)
    unfold sm_inv in I. destruct I as (I1 & I2 & I3 & I4 & I5 & I6).
    eapply lock_try_inv with (m := inc_pw m); eauto; simpl; try lia; try (intros; lia).
  - (* Unlock *)
    destruct (0 <? ra m) eqn:R0; [inversion H; subst; auto|]. apply Nat.ltb_ge in R0.
    destruct (pw m =? 0) eqn:P; inversion H; subst; clear H.
    + apply Nat.eqb_eq in P. inv_tac.
    + apply Nat.eqb_neq in P. inv_tac.
Qed.

Lemma sm_cont_inv t c m m' r : sm_inv m -> sm_cont t c m = Some (m', r) -> sm_inv m'.
Proof.
  intros I H. unfold sm_cont in H.
  destruct (mem t (wk m)) eqn:K1.
  { inversion H as [H1]; clear H. apply remove1_length in K1.
    unfold sm_inv in I. destruct I as (I1 & I2 & I3 & I4 & I5 & I6).
    eapply lock_try_inv in H1; eauto; simpl; auto; try lia. }
  destruct (mem t (rk m)) eqn:K2.
  { inversion H as [H1]; clear H. eapply rlock_try_inv in H1; eauto; inv_tac. }
  destruct (mem t (sg m)) eqn:K3.
  { inversion H; subst; clear H. apply remove1_length in K3. unfold signal; simpl.
    destruct (pickd c (wq m)) as [[w rest]|] eqn:P.
    - apply pickd_length in P. inv_tac.
    - apply pickd_none in P. inv_tac; rewrite P in *; simpl in *; lia. }
  destruct (mem t (bc m)) eqn:K4; [|discriminate].
  inversion H; subst; clear H. unfold broadcast; simpl. inv_tac.
Qed.

(* ---------- all schedules of the one-mutex system ---------- *)
Lemma step_inv s t c s' : sm_inv (mx s) -> step s t c = Some s' -> sm_inv (mx s').
Proof.
  unfold step, step_ev. intros I H.
  destruct (busy t (mx s)).
  - destruct (sm_cont t c (mx s)) as [[m' r]|] eqn:E; simpl in H; inversion H; subst; simpl.
    eapply sm_cont_inv; eauto.
  - destruct (nth_error (scr s) t) as [[|a rest]|]; simpl in H; try discriminate.
    destruct (sm_start t a (mx s)) as [m' r] eqn:E. simpl in H. inversion H; subst; simpl.
    eapply sm_start_inv; eauto.
Qed.

Lemma run_inv sch : forall s, sm_inv (mx s) -> sm_inv (mx (run sch s)).
Proof.
  induction sch as [|[t c] r IH]; simpl; intros s I; auto.
  destruct (step s t c) eqn:E; auto. apply IH. eapply step_inv; eauto.
Qed.

Theorem sm_reachable_inv scripts sch : sm_inv (mx (run sch (init scripts))).
Proof. apply run_inv. apply sm_inv_0. Qed.

(* readable corollaries *)
Definition lock_free (m : sm) : Prop := wa m = false /\ ra m = 0.

Theorem exclusion_all scripts sch :
  let m := mx (run sch (init scripts)) in
  (wr m <> [] -> rd m = [] /\ length (wr m) = 1 /\ wa m = true) /\
  (rd m <> [] -> wr m = [] /\ wa m = false) /\
  ra m = length (rd m) /\ (wa m = true <-> length (wr m) = 1).
Proof.
  intros m. pose proof (sm_reachable_inv scripts sch) as I. fold m in I.
  destruct I as (I1 & I2 & I3 & I4 & I5 & I6).
  destruct (wa m) eqn:W.
  - assert (ra m = 0) by auto. assert (rd m = []) by (destruct (rd m); simpl in *; [auto|lia]).
    repeat split; auto; intros; try congruence.
  - assert (wr m = []) by (destruct (wr m); simpl in *; [auto|lia]).
    repeat split; auto; intros; try congruence; try (rewrite H in *; simpl in *; lia).
Qed.

Theorem pending_writers_all scripts sch :
  let m := mx (run sch (init scripts)) in pw m = length (wq m) + length (wk m).
Proof. intros m. pose proof (sm_reachable_inv scripts sch) as I. apply I. Qed.

Theorem no_lost_wakeup_all scripts sch :
  let m := mx (run sch (init scripts)) in
  (lock_free m -> 0 < pw m -> wk m <> [] \/ sg m <> []) /\
  (rq m <> [] -> wa m = true \/ 0 < pw m \/ bc m <> []).
Proof.
  intros m. pose proof (sm_reachable_inv scripts sch) as I. fold m in I.
  destruct I as (I1 & I2 & I3 & I4 & I5 & I6). split.
  - intros [F1 F2] P. specialize (I5 F1 F2 P).
    destruct (wk m); [right; destruct (sg m); simpl in *; [lia|discriminate]|left; discriminate].
  - intros Q. destruct (wa m) eqn:W; [left; auto|]. destruct (pw m) eqn:P; [|right; left; lia].
    right; right. assert (0 < length (bc m)) by (apply I6; auto; destruct (rq m); simpl; [congruence|lia]).
    destruct (bc m); simpl in *; [lia|discriminate].
Qed.

(* ---------- stuck states ---------- *)
Definition stuck (s : sys) : Prop := forall t c, step s t c = None.
Definition parked (s : sys) (t : tid) : Prop := mem t (wq (mx s)) = true \/ mem t (rq (mx s)) = true.
Definition finished (s : sys) (t : tid) : Prop :=
  busy t (mx s) = false /\ (nth_error (scr s) t = None \/ nth_error (scr s) t = Some []).

Lemma stuck_thread s t : stuck s -> parked s t \/ finished s t.
Proof.
  intros S. specialize (S t 0). unfold step, step_ev in S.
  destruct (busy t (mx s)) eqn:B.
  - left. destruct (sm_cont t 0 (mx s)) as [[? ?]|] eqn:E; [simpl in S; discriminate|].
    unfold sm_cont in E. unfold busy in B. unfold parked.
    destruct (mem t (wk (mx s))); [discriminate|].
    destruct (mem t (rk (mx s))); [discriminate|].
    destruct (mem t (sg (mx s))); [discriminate|].
    destruct (mem t (bc (mx s))); [discriminate|].
    repeat rewrite orb_false_r in B. apply orb_true_iff in B. exact B.
  - right. split; auto.
    destruct (nth_error (scr s) t) as [[|a rest]|]; auto.
    destruct (sm_start t a (mx s)); simpl in S; discriminate.
Qed.

Lemma stuck_no_runnable s l :
  stuck s -> (forall t, mem t l = true -> busy t (mx s) = true /\ sm_cont t 0 (mx s) <> None) -> length l = 0.
Proof.
  intros S H. destruct (length l) eqn:L; auto.
  destruct (nonempty_mem l) as [t Ht]; [lia|]. destruct (H t Ht) as [B C].
  specialize (S t 0). unfold step, step_ev in S. rewrite B in S.
  destruct (sm_cont t 0 (mx s)) as [[? ?]|]; [discriminate|congruence].
Qed.

Lemma stuck_quiet s : stuck s ->
  length (wk (mx s)) = 0 /\ length (rk (mx s)) = 0 /\ length (sg (mx s)) = 0 /\ length (bc (mx s)) = 0.
Proof.
  intros S. repeat split; apply (stuck_no_runnable s); auto; intros t Ht; unfold busy, sm_cont.
  - rewrite Ht. rewrite !orb_true_r; simpl. split; [reflexivity|discriminate].
  - rewrite Ht. rewrite !orb_true_r; simpl. split; [reflexivity|].
    destruct (mem t (wk (mx s))); discriminate.
  - rewrite Ht. rewrite !orb_true_r; simpl. split; [reflexivity|].
    destruct (mem t (wk (mx s))); [discriminate|]. destruct (mem t (rk (mx s))); discriminate.
  - rewrite Ht. rewrite !orb_true_r; simpl. split; [reflexivity|].
    destruct (mem t (wk (mx s))); [discriminate|]. destruct (mem t (rk (mx s))); [discriminate|].
    destruct (mem t (sg (mx s))); discriminate.
Qed.

Lemma mem_length t l : mem t l = true -> 0 < length l.
Proof. destruct l; simpl; [discriminate|lia]. Qed.

(* a stuck state in which somebody is parked: nothing is in flight, the lock is held, and every thread is parked or
   has finished its script - the lock was taken by operations that no remaining operation releases *)
Theorem not_stranded_all scripts sch :
  let s := run sch (init scripts) in
  stuck s -> (exists t, parked s t) ->
  (wa (mx s) = true \/ 0 < ra (mx s)) /\
  (rd (mx s) <> [] \/ wr (mx s) <> []) /\
  (forall t, parked s t \/ finished s t).
Proof.
  intros s S [t P].
  pose proof (sm_reachable_inv scripts sch) as I. fold s in I.
  destruct I as (I1 & I2 & I3 & I4 & I5 & I6).
  destruct (stuck_quiet s S) as (Q1 & Q2 & Q3 & Q4).
  assert (H : wa (mx s) = true \/ 0 < ra (mx s)).
  { assert (PW : 0 < length (wq (mx s)) \/ 0 < length (rq (mx s))).
    { destruct P as [P|P]; apply mem_length in P; auto. }
    destruct (wa (mx s)) eqn:W; [left; auto|]. right.
    destruct (ra (mx s)) eqn:R; [|lia]. exfalso.
    assert (0 < pw (mx s)).
    { destruct PW as [PW|PW]; [lia|].
      destruct (pw (mx s)) eqn:E; [|lia]. specialize (I6 PW eq_refl eq_refl). lia. }
    specialize (I5 eq_refl eq_refl H). lia. }
  split; [exact H|]. split.
  - destruct H as [H|H].
    + right. rewrite H in I2. destruct (wr (mx s)); simpl in *; [lia|discriminate].
    + left. destruct (rd (mx s)); simpl in *; [lia|discriminate].
  - intros u. apply stuck_thread; auto.
Qed.

(* ---------- misuse ---------- *)
Theorem misuse_runlock t m : ra m = 0 -> sm_start t ARUnlock m = (m, RPanic).
Proof. intros H. simpl. rewrite H. reflexivity. Qed.

Theorem misuse_runlock_writer t m : wa m = true -> sm_start t ARUnlock m = (m, RPanic).
Proof. intros H. simpl. rewrite H. destruct (ra m =? 0); reflexivity. Qed.

Theorem misuse_unlock_readers t m : 0 < ra m -> sm_start t AUnlock m = (m, RPanic).
Proof. intros H. simpl. apply Nat.ltb_lt in H. rewrite H. reflexivity. Qed.

(* Unlock of a mutex that nobody holds does not panic; it leaves the lock state as it is and only causes a wake-up *)
Theorem misuse_unlock_free t m m' r : wa m = false -> ra m = 0 -> sm_start t AUnlock m = (m', r) ->
  r = RCont /\ ra m' = ra m /\ wa m' = wa m /\ pw m' = pw m /\ rd m' = rd m /\ wq m' = wq m /\ wk m' = wk m /\
  rq m' = rq m /\ rk m' = rk m.
Proof.
  intros W R H. simpl in H. rewrite R in H. simpl in H.
  destruct (pw m =? 0); inversion H; subst; simpl; rewrite ?W, ?R; repeat split; auto.
Qed.

(* a panicking step of the system changes nothing but the script position of the caller *)
Theorem misuse_step_all s t c s' : step_ev s t c = Some (s', RPanic) -> mx s' = mx s.
Proof.
  unfold step_ev. destruct (busy t (mx s)).
  - destruct (sm_cont t c (mx s)) as [[m' r]|] eqn:E; [|discriminate]. intros H; inversion H; subst. simpl.
    unfold sm_cont in E.
    destruct (mem t (wk (mx s))). { inversion E as [E1]. unfold lock_try in E1. destruct (can_write _); inversion E1. }
    destruct (mem t (rk (mx s))). { inversion E as [E1]. unfold rlock_try in E1. simpl in E1. destruct (wa (mx s)); inversion E1. }
    destruct (mem t (sg (mx s))); [inversion E|]. destruct (mem t (bc (mx s))); inversion E.
  - destruct (nth_error (scr s) t) as [[|a rest]|]; try discriminate.
    destruct (sm_start t a (mx s)) as [m' r] eqn:E. intros H; inversion H; subst; simpl.
    destruct a; simpl in E.
    + unfold rlock_try in E. destruct (wa (mx s)); inversion E.
    + destruct (ra (mx s) =? 0); [inversion E; auto|]. destruct (wa (mx s)); [inversion E; auto|].
      destruct (_ && _); inversion E.
    + unfold lock_try in E. destruct (can_write _); inversion E.
    + destruct (0 <? ra (mx s)); [inversion E; auto|]. destruct (pw (mx s) =? 0); inversion E.
Qed.
