(* C08 - executable interleaving model of kvstore/batch_writer.go + batch_collector.go (hive.go).
   One writer goroutine (tid 0) and one goroutine per client operation (tid S i runs operation i).
   Every step is one shared-memory access (atomic load/store/add, channel operation, lock operation)
   or one call of a BatchWriteObject / store method.  The scheduler picks the thread and, at the
   writer's two select statements, the case (a [choice]).  No proofs in this file. *)
From Coq Require Import List Bool Arith ZArith.
Import ListNotations.

Definition obj := nat.

Inductive op := OEnq (o : obj) (v : nat) | OFlush | OStop.

(* result class of a client call. RStop b: b is a ghost = "the writer goroutine existed when Stop was invoked" *)
Inductive res := RAcc | RRej | RDup | RUnit | RStop (b : bool).

Inductive epc :=
| EOnce        (* autoStartOnce.Do *)
| EOnceChk     (* inside the once: if !running.Load() *)
| EOnceLock    (* startBatchWriter: startStopMutex.Lock *)
| EOnceBody    (* if !running { running=true; [wg.Add(1)]; go runBatchWriter() } *)
| EOnceUnlock  (* Unlock; the once is done *)
| EInc         (* scheduledCount.Add(1) *)
| EChk         (* if !running.Load() *)
| EFlag        (* object.BatchWriteScheduled(): test-and-set of the object's flag *)
| ESend        (* batchQueue <- object *)
| EDec (r : res) (* scheduledCount.Add(-1); return *).

Inductive pc :=
| PIdle                 (* not yet invoked *)
| PE (k : epc)
| PF1                   (* Flush: running.Load() *)
| PF2                   (* Flush: non-blocking send on flushChan *)
| PS1 (b : bool)        (* Stop: Lock *)
| PS2 (b : bool)        (* Stop: running.Load() *)
| PS3 (b : bool)        (* Stop: running.Store(false) *)
| PS4 (b : bool)        (* Stop: writeWg.Wait() *)
| PS5 (b : bool)        (* Stop: Unlock *)
| PRet (r : res).

Inductive mode := MCollect | MFlush.
Inductive cont := KHead | KFlush.

Inductive wpc :=
| WNone                 (* no writer goroutine yet *)
| WStart                (* pinned variant only: first statement writeWg.Add(1) *)
| WHead                 (* loop condition: running.Load() *)
| WHead2                (* loop condition: scheduledCount.Load() != 0 *)
| WBatched (m : mode)   (* store.Batched() + newBatchCollector *)
| WSelect (m : mode)    (* MCollect: select {queue, flush, timer}; MFlush: select {queue, default} *)
| WAdd1 (m : mode)      (* Add: ResetBatchWriteScheduled *)
| WAdd2 (m : mode)      (* Add: scheduledCount.Add(-1) *)
| WAdd3 (m : mode)      (* Add: BatchWrite, slot, size test *)
| WCommit (k : cont)    (* collector.Commit(): Cancel if empty, else store commit *)
| WDone (k : cont)      (* BatchWriteDone calls, one per step *)
| WExit                 (* writeWg.Done() *)
| WFin.

Inductive choice := CStep | CRecv | CFlush | CTimeout | CDefault.

Inductive oncest := OFree | OBusy | ODone.

Inductive event :=
| EvSet (t : nat) (o : obj) (v : nat)  (* Enqueue invoked by thread t on object o whose content is now v *)
| EvInv (t : nat)                      (* Flush / Stop invoked *)
| EvRet (t : nat) (r : res)
| EvBatched
| EvReset (o : obj)
| EvWrite (o : obj) (v : nat)
| EvCommit (b : list (obj * nat))
| EvCancel
| EvDone (o : obj).

(* wg_in_go = true: writeWg.Add(1) is the writer goroutine's first statement (pinned, D08a)
   inc_late = true: Enqueue = check running; flag; scheduledCount++; send (pinned, D08b)
   both false: the code after the two fix: commits. *)
Record config := mkcfg { qsize : nat; bsize : nat; wg_in_go : bool; inc_late : bool }.

Record state := mk {
  running : bool;
  sched : Z;
  queue : list obj;
  token : bool;
  wg : nat;
  mu : bool;
  once : oncest;
  flag : obj -> bool;
  val : obj -> nat;
  store : obj -> option nat;
  wp : wpc;
  cur : obj;
  batch : list (obj * nat);
  dq : list obj;
  thr : list (op * pc);
  log : list event }.

Definition set_running (s : state) (x : bool) : state := mk x (sched s) (queue s) (token s) (wg s) (mu s) (once s) (flag s) (val s) (store s) (wp s) (cur s) (batch s) (dq s) (thr s) (log s).
Definition set_sched (s : state) (x : Z) : state := mk (running s) x (queue s) (token s) (wg s) (mu s) (once s) (flag s) (val s) (store s) (wp s) (cur s) (batch s) (dq s) (thr s) (log s).
Definition set_queue (s : state) (x : list obj) : state := mk (running s) (sched s) x (token s) (wg s) (mu s) (once s) (flag s) (val s) (store s) (wp s) (cur s) (batch s) (dq s) (thr s) (log s).
Definition set_token (s : state) (x : bool) : state := mk (running s) (sched s) (queue s) x (wg s) (mu s) (once s) (flag s) (val s) (store s) (wp s) (cur s) (batch s) (dq s) (thr s) (log s).
Definition set_wg (s : state) (x : nat) : state := mk (running s) (sched s) (queue s) (token s) x (mu s) (once s) (flag s) (val s) (store s) (wp s) (cur s) (batch s) (dq s) (thr s) (log s).
Definition set_mu (s : state) (x : bool) : state := mk (running s) (sched s) (queue s) (token s) (wg s) x (once s) (flag s) (val s) (store s) (wp s) (cur s) (batch s) (dq s) (thr s) (log s).
Definition set_once (s : state) (x : oncest) : state := mk (running s) (sched s) (queue s) (token s) (wg s) (mu s) x (flag s) (val s) (store s) (wp s) (cur s) (batch s) (dq s) (thr s) (log s).
Definition set_flag (s : state) (x : obj -> bool) : state := mk (running s) (sched s) (queue s) (token s) (wg s) (mu s) (once s) x (val s) (store s) (wp s) (cur s) (batch s) (dq s) (thr s) (log s).
Definition set_val (s : state) (x : obj -> nat) : state := mk (running s) (sched s) (queue s) (token s) (wg s) (mu s) (once s) (flag s) x (store s) (wp s) (cur s) (batch s) (dq s) (thr s) (log s).
Definition set_store (s : state) (x : obj -> option nat) : state := mk (running s) (sched s) (queue s) (token s) (wg s) (mu s) (once s) (flag s) (val s) x (wp s) (cur s) (batch s) (dq s) (thr s) (log s).
Definition set_wp (s : state) (x : wpc) : state := mk (running s) (sched s) (queue s) (token s) (wg s) (mu s) (once s) (flag s) (val s) (store s) x (cur s) (batch s) (dq s) (thr s) (log s).
Definition set_cur (s : state) (x : obj) : state := mk (running s) (sched s) (queue s) (token s) (wg s) (mu s) (once s) (flag s) (val s) (store s) (wp s) x (batch s) (dq s) (thr s) (log s).
Definition set_batch (s : state) (x : list (obj * nat)) : state := mk (running s) (sched s) (queue s) (token s) (wg s) (mu s) (once s) (flag s) (val s) (store s) (wp s) (cur s) x (dq s) (thr s) (log s).
Definition set_dq (s : state) (x : list obj) : state := mk (running s) (sched s) (queue s) (token s) (wg s) (mu s) (once s) (flag s) (val s) (store s) (wp s) (cur s) (batch s) x (thr s) (log s).
Definition set_thr (s : state) (x : list (op * pc)) : state := mk (running s) (sched s) (queue s) (token s) (wg s) (mu s) (once s) (flag s) (val s) (store s) (wp s) (cur s) (batch s) (dq s) x (log s).
Definition set_log (s : state) (x : list event) : state := mk (running s) (sched s) (queue s) (token s) (wg s) (mu s) (once s) (flag s) (val s) (store s) (wp s) (cur s) (batch s) (dq s) (thr s) x.

Definition upd {A} (f : obj -> A) (o : obj) (x : A) : obj -> A := fun o' => if Nat.eqb o' o then x else f o'.

Fixpoint apply_batch (b : list (obj * nat)) (st : obj -> option nat) : obj -> option nat :=
  match b with
  | [] => st
  | (o, v) :: r => apply_batch r (upd st o (Some v))
  end.

Fixpoint set_nth {A} (l : list A) (i : nat) (x : A) : list A :=
  match l, i with
  | [], _ => []
  | _ :: r, O => x :: r
  | y :: r, S j => y :: set_nth r j x
  end.

Definition set_pc (s : state) (i : nat) (o : op) (p : pc) : state := set_thr s (set_nth (thr s) i (o, p)).

Definition init (ops : list op) : state :=
  mk false 0%Z [] false 0 false OFree (fun _ => false) (fun _ => 0) (fun _ => None)
     WNone 0 [] [] (map (fun o => (o, PIdle)) ops) [].

Definition after_once (c : config) : epc := if inc_late c then EChk else EInc.

Definition spawn (c : config) (s : state) : state :=
  if wg_in_go c then set_wp s WStart else set_wp (set_wg s (S (wg s))) WHead.

Definition goto (s : state) (i : nat) (o : op) (p : pc) : option state := Some (set_pc s i o p).
Definition ret (s : state) (i : nat) (o : op) (r : res) : option state :=
  Some (set_log (set_pc s i o (PRet r)) (EvRet i r :: log s)).

Definition spawned (s : state) : bool := match wp s with WNone => false | _ => true end.

Definition client_step (c : config) (s : state) (i : nat) (o : op) (p : pc) : option state :=
  match o, p with
  (* Enqueue(ob) after the caller changed ob's content to v *)
  | OEnq ob v, PIdle => goto (set_log (set_val s (upd (val s) ob v)) (EvSet i ob v :: log s)) i o (PE EOnce)
  | OEnq _ _, PE EOnce =>
      match once s with
      | ODone => goto s i o (PE (after_once c))
      | OFree => goto (set_once s OBusy) i o (PE EOnceChk)
      | OBusy => None
      end
  | OEnq _ _, PE EOnceChk =>
      if running s then goto (set_once s ODone) i o (PE (after_once c)) else goto s i o (PE EOnceLock)
  | OEnq _ _, PE EOnceLock => if mu s then None else goto (set_mu s true) i o (PE EOnceBody)
  | OEnq _ _, PE EOnceBody =>
      if running s then goto s i o (PE EOnceUnlock) else goto (spawn c (set_running s true)) i o (PE EOnceUnlock)
  | OEnq _ _, PE EOnceUnlock => goto (set_once (set_mu s false) ODone) i o (PE (after_once c))
  | OEnq _ _, PE EInc => goto (set_sched s (sched s + 1)%Z) i o (PE (if inc_late c then ESend else EChk))
  | OEnq _ _, PE EChk =>
      if running s then goto s i o (PE EFlag)
      else if inc_late c then ret s i o RRej else goto s i o (PE (EDec RRej))
  | OEnq ob _, PE EFlag =>
      if flag s ob then (if inc_late c then ret s i o RDup else goto s i o (PE (EDec RDup)))
      else goto (set_flag s (upd (flag s) ob true)) i o (PE (if inc_late c then EInc else ESend))
  | OEnq _ _, PE (EDec r) => ret (set_sched s (sched s - 1)%Z) i o r
  | OEnq ob _, PE ESend =>
      if length (queue s) <? qsize c then ret (set_queue s (queue s ++ [ob])) i o RAcc
      else if qsize c =? 0 then
        match wp s with
        | WSelect m => ret (set_wp (set_cur s ob) (WAdd1 m)) i o RAcc   (* rendezvous with the writer's select *)
        | _ => None
        end
      else None
  (* Flush *)
  | OFlush, PIdle => goto (set_log s (EvInv i :: log s)) i o PF1
  | OFlush, PF1 => if running s then goto s i o PF2 else ret s i o RUnit
  | OFlush, PF2 => ret (set_token s true) i o RUnit
  (* StopBatchWriter *)
  | OStop, PIdle => goto (set_log s (EvInv i :: log s)) i o (PS1 (spawned s))
  | OStop, PS1 b => if mu s then None else goto (set_mu s true) i o (PS2 b)
  | OStop, PS2 b => if running s then goto s i o (PS3 b) else goto s i o (PS5 b)
  | OStop, PS3 b => goto (set_running s false) i o (PS4 b)
  | OStop, PS4 b => match wg s with O => goto s i o (PS5 b) | _ => None end
  | OStop, PS5 b => ret (set_mu s false) i o (RStop b)
  | _, _ => None
  end.

Definition after (k : cont) : wpc := match k with KHead => WHead | KFlush => WBatched MFlush end.
Definition cont_of (m : mode) : cont := match m with MCollect => KHead | MFlush => KFlush end.

Definition writer_step (c : config) (s : state) (ch : choice) : option state :=
  match wp s with
  | WNone | WFin => None
  | WStart => Some (set_wp (set_wg s (S (wg s))) WHead)
  | WHead => if running s then Some (set_wp s (WBatched MCollect)) else Some (set_wp s WHead2)
  | WHead2 => if (sched s =? 0)%Z then Some (set_wp s WExit) else Some (set_wp s (WBatched MCollect))
  | WBatched m => Some (set_log (set_wp (set_batch s []) (WSelect m)) (EvBatched :: log s))
  | WSelect MCollect =>
      match ch with
      | CRecv => match queue s with
                 | o :: q => Some (set_wp (set_cur (set_queue s q) o) (WAdd1 MCollect))
                 | [] => None
                 end
      | CFlush => if token s then Some (set_wp (set_token s false) (WSelect MFlush)) else None
      | CTimeout => Some (set_wp s (WCommit KHead))
      | _ => None
      end
  | WSelect MFlush =>
      match ch with
      | CRecv => match queue s with
                 | o :: q => Some (set_wp (set_cur (set_queue s q) o) (WAdd1 MFlush))
                 | [] => None
                 end
      | CDefault => match queue s with [] => Some (set_wp s (WCommit KHead)) | _ => None end
      | _ => None
      end
  | WAdd1 m => Some (set_log (set_wp (set_flag s (upd (flag s) (cur s) false)) (WAdd2 m)) (EvReset (cur s) :: log s))
  | WAdd2 m => Some (set_wp (set_sched s (sched s - 1)%Z) (WAdd3 m))
  | WAdd3 m =>
      let b := batch s ++ [(cur s, val s (cur s))] in
      let s1 := set_log (set_batch s b) (EvWrite (cur s) (val s (cur s)) :: log s) in
      if bsize c <=? length b then Some (set_wp s1 (WCommit (cont_of m))) else Some (set_wp s1 (WSelect m))
  | WCommit k =>
      match batch s with
      | [] => Some (set_log (set_wp s (after k)) (EvCancel :: log s))
      | b => Some (set_log (set_wp (set_dq (set_batch (set_store s (apply_batch b (store s))) []) (map fst b)) (WDone k))
                           (EvCommit b :: log s))
      end
  | WDone k =>
      match dq s with
      | [] => None
      | o :: r => Some (set_log (set_wp (set_dq s r) (match r with [] => after k | _ => WDone k end)) (EvDone o :: log s))
      end
  | WExit => Some (set_wp (set_wg s (pred (wg s))) WFin)
  end.

Definition step (c : config) (s : state) (t : nat) (ch : choice) : option state :=
  match t with
  | O => writer_step c s ch
  | S i => match nth_error (thr s) i with
           | Some (o, p) => client_step c s i o p
           | None => None
           end
  end.

(* a schedule entry that is not enabled is skipped *)
Fixpoint run (c : config) (sch : list (nat * choice)) (s : state) : state :=
  match sch with
  | [] => s
  | (t, ch) :: r => run c r (match step c s t ch with Some s' => s' | None => s end)
  end.

Definition fixed (q b : nat) : config := mkcfg q b false false.
Definition pinned (q b : nat) : config := mkcfg q b true true.

(* ---- executable "nothing can move" test ---- *)
Definition choices : list choice := [CStep; CRecv; CFlush; CTimeout; CDefault].
Definition enabled (c : config) (s : state) (t : nat) : bool :=
  existsb (fun ch => match step c s t ch with Some _ => true | None => false end) choices.
Definition stuckb (c : config) (s : state) : bool :=
  negb (existsb (enabled c s) (seq 0 (S (length (thr s))))).

Definition pc_of (s : state) (i : nat) : option pc :=
  match nth_error (thr s) i with Some (_, p) => Some p | None => None end.

(* ================= specification functions over logs (chronological order = rev (log s)) ================= *)

Fixpoint pairs_eqb (a b : list (obj * nat)) : bool :=
  match a, b with
  | [], [] => true
  | (o, v) :: r, (o', v') :: r' => Nat.eqb o o' && Nat.eqb v v' && pairs_eqb r r'
  | _, _ => false
  end.

(* The writer protocol as an automaton over the BatchWrite / Commit / Cancel / BatchWriteDone events:
   k_unc  = mutations written into the one open batch (not yet committed),
   k_pend = objects of the last committed batch whose BatchWriteDone is still due (in order),
   k_store = the store contents produced by the commits so far. *)
Record ck := mkck { k_unc : list (obj * nat); k_pend : list obj; k_store : obj -> option nat }.

Definition ck0 : ck := mkck [] [] (fun _ => None).

Definition ck_step (k : ck) (e : event) : option ck :=
  match e with
  | EvBatched | EvCancel => match k_unc k, k_pend k with [], [] => Some k | _, _ => None end
  | EvWrite o v => match k_pend k with [] => Some (mkck (k_unc k ++ [(o, v)]) [] (k_store k)) | _ => None end
  | EvCommit b =>
      match k_pend k, b with
      | [], _ :: _ => if pairs_eqb b (k_unc k) then Some (mkck [] (map fst b) (apply_batch b (k_store k))) else None
      | _, _ => None
      end
  | EvDone o => match k_pend k with
                | o' :: r => if Nat.eqb o o' then Some (mkck (k_unc k) r (k_store k)) else None
                | [] => None
                end
  | _ => Some k
  end.

Fixpoint ck_run (k : ck) (l : list event) : option ck :=
  match l with
  | [] => Some k
  | e :: r => match ck_step k e with Some k' => ck_run k' r | None => None end
  end.

(* Safety of a log: every BatchWriteDone(o) is the next due call of the last commit, which contained
   exactly the mutations written since the previous commit; at most one open batch; no write while
   BatchWriteDone calls are due. *)
Definition log_safe (l : list event) : bool := match ck_run ck0 l with Some _ => true | None => false end.

Definition writes (l : list event) : list (obj * nat) :=
  flat_map (fun e => match e with EvWrite o v => [(o, v)] | _ => [] end) l.
Definition committed (l : list event) : list (obj * nat) :=
  flat_map (fun e => match e with EvCommit b => b | _ => [] end) l.
Definition dones (l : list event) : list obj :=
  flat_map (fun e => match e with EvDone o => [o] | _ => [] end) l.

(* last mutation of o in a list of mutations *)
Fixpoint last_w (l : list (obj * nat)) (o : obj) : option nat :=
  match l with
  | [] => None
  | (o', v) :: r => match last_w r o with Some x => Some x | None => if Nat.eqb o' o then Some v else None end
  end.

(* newest-first scans (argument = log s) *)
Fixpoint dirty (l : list event) (o : obj) : bool :=   (* content of o changed after its last BatchWrite *)
  match l with
  | [] => false
  | EvSet _ o' _ :: r => if Nat.eqb o' o then true else dirty r o
  | EvWrite o' _ :: r => if Nat.eqb o' o then false else dirty r o
  | _ :: r => dirty r o
  end.
Fixpoint last_setter (l : list event) (o : obj) : option (nat * nat) :=  (* (thread, value) of the last Enqueue invocation on o *)
  match l with
  | [] => None
  | EvSet t o' v :: r => if Nat.eqb o' o then Some (t, v) else last_setter r o
  | _ :: r => last_setter r o
  end.
