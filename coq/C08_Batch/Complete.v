(* C08 - what StopBatchWriter guarantees on the repaired code. *)
From Coq Require Import List Bool Arith ZArith Lia.
From Verif.C08_Batch Require Import Model Base Safety Life.
Import ListNotations.

(* an Enqueue call past the sync.Once implies the once is done, and then the writer goroutine exists *)
Definition unl (x : op * pc) : bool := match snd x with PE EOnceUnlock => true | _ => false end.
Definition postonce (x : op * pc) : bool :=
  match fst x with
  | OEnq _ _ => match snd x with PE EInc | PE EChk | PE EFlag | PE ESend | PE (EDec _) | PRet _ => true | _ => false end
  | _ => false
  end.

Definition InvS (s : state) : Prop :=
  (spawned s = false -> cnt unl (thr s) = 0 /\ once s <> ODone) /\
  (once s <> ODone -> cnt postonce (thr s) = 0).

Lemma invS_init : forall ops, InvS (init ops).
Proof.
  intros. unfold InvS; simpl. rewrite !cnt_init by (intros []; reflexivity).
  repeat split; auto; discriminate.
Qed.

Lemma invS_step : forall c s t ch s', wg_in_go c = false -> inc_late c = false ->
  InvO s -> InvB s -> InvS s -> step c s t ch = Some s' -> InvS s'.
Proof.
  intros c s t ch s' Hwg Hil HO (_ & _ & B3 & _) (S1 & S2) H. unfold InvS, spawned in *.
  stepcases_fixed H Hwg Hil; simpl in *;
    try match goal with Hn : nth_error (thr s) _ = Some (_, PE EOnceBody) |- _ =>
      pose proof (once_body_wnone _ _ _ HO Hn) end;
    try match goal with Hn : nth_error (thr s) _ = Some _ |- _ =>
      ge1 unl Hn; ge1 postonce Hn; cnt_facts Hn end;
    repeat match goal with E : wp s = _ |- _ => rewrite E in *; clear E end;
    repeat match goal with E : running s = _ |- _ => rewrite E in *; clear E end;
    repeat match goal with E : once s = _ |- _ => rewrite E in *; clear E end;
    simpl in *;
    try solve [intuition (try congruence; try lia)];
    try solve [destruct (wp s); simpl in *; try discriminate; try contradiction; intuition (try congruence; try lia)].
Qed.

(* a Stop call that is invoked when the writer goroutine exists carries the ghost "true" *)
Definition ghostp (p : pc) : bool :=
  match p with PS1 b | PS2 b | PS3 b | PS4 b | PS5 b | PRet (RStop b) => b | _ => false end.

Definition G (ts : nat) (s : state) : Prop :=
  spawned s = true /\ exists p, nth_error (thr s) ts = Some (OStop, p) /\ (p = PIdle \/ ghostp p = true).

Lemma G_step : forall c s t ch s' ts, G ts s -> step c s t ch = Some s' -> G ts s'.
Proof.
  intros c s t ch s' ts [Hs (p & Hp & Hg)] H. unfold G, spawned in *.
  stepcases H; simpl in *;
    repeat match goal with E : wp s = _ |- _ => rewrite E in *; clear E end; try discriminate;
    try solve [split; auto; eauto];
    try solve [split; auto; destruct (Nat.eq_dec t ts) as [->|Hne];
               [ match goal with E : nth_error (thr s) ts = Some ?x |- _ =>
                   lazymatch x with (OStop, p) => fail | _ => rewrite Hp in E; inversion E; subst end end;
                 erewrite nth_set_nth_eq by eauto; eexists; split; [reflexivity|];
                 destruct Hg as [Hg|Hg]; try discriminate; simpl in *; auto;
                 try (right; destruct (wp s); simpl in *; congruence)
               | rewrite nth_set_nth_neq by auto; eauto ]].
  all: split; auto; destruct (Nat.eq_dec t ts) as [Heq|Hne];
               [ subst;
                 match goal with E1 : nth_error (thr ?s0) ?i = Some (OStop, _), E2 : nth_error (thr ?s0) ?i = Some _ |- _ =>
                   rewrite E1 in E2; inversion E2; subst end
               | rewrite nth_set_nth_neq by auto; eauto ].
  all: erewrite nth_set_nth_eq by eauto; eexists; (split; [reflexivity|]).
  all: destruct Hg as [Hg|Hg]; try discriminate; simpl in *; auto.
  all: try (right; match goal with H0 : context [wp ?s0] |- _ => destruct (wp s0) end; simpl in *; congruence).
Qed.

Definition fixedc (c : config) : Prop := wg_in_go c = false /\ inc_late c = false.

Lemma reach_all : forall c ops s, fixedc c -> reach c ops s -> InvO s /\ InvA s /\ InvE s /\ InvB s /\ InvS s.
Proof.
  intros c ops s [Hwg Hil]. revert s. apply reach_inv.
  - split; [apply invO_init | split; [apply invA_init | split; [apply invE_init | split; [apply invB_init | apply invS_init]]]].
  - intros s t ch s' (HO & HA & HE & HB & HS) H.
    split. eapply invO_step; eauto. split. eapply invA_step; eauto. split. eapply invE_step; eauto.
    split. eapply invB_step; eauto. eapply invS_step; eauto.
Qed.

Lemma run_app : forall c a b s, run c (a ++ b) s = run c b (run c a s).
Proof. intros c a. induction a as [|[t ch] r IH]; intros; simpl; auto. Qed.

Lemma run_G : forall c sch s ts, G ts s -> G ts (run c sch s).
Proof. intros c sch s ts. apply run_inv with (I := G ts). intros; eapply G_step; eauto. Qed.

(* A Stop call that was not yet invoked in a state where the writer goroutine exists, and that has returned later:
   the writer has terminated, nothing is queued or in flight, every BatchWrite has been committed and every
   committed object has had its BatchWriteDone. *)
Theorem stop_complete : forall c ops sch1 sch2 ts r, fixedc c ->
  let s1 := run c sch1 (init ops) in
  let s2 := run c sch2 s1 in
  spawned s1 = true ->
  nth_error (thr s1) ts = Some (OStop, PIdle) ->
  nth_error (thr s2) ts = Some (OStop, PRet r) ->
  wp s2 = WFin /\ running s2 = false /\ queue s2 = [] /\ cnt inF (thr s2) = 0 /\ batch s2 = [] /\ dq s2 = [] /\
  writes (rev (log s2)) = committed (rev (log s2)) /\
  dones (rev (log s2)) = map fst (committed (rev (log s2))) /\
  wg s2 = 0.
Proof.
  intros c ops sch1 sch2 ts r Hf s1 s2 Hsp Hidle Hret.
  assert (HG : G ts s2). { apply run_G. split; auto. exists PIdle. auto. }
  destruct HG as [_ (p & Hp & Hg)]. rewrite Hret in Hp. injection Hp as <-.
  destruct Hg as [Hg|Hg]; [discriminate|]. simpl in Hg. destruct r; try discriminate. subst b.
  assert (Hr : reach c ops s2). { exists (sch1 ++ sch2). unfold s2, s1. rewrite run_app. reflexivity. }
  destruct (reach_all c ops s2 Hf Hr) as (HO & [_ HW] & (E1 & _ & E3) & (B1 & B2 & B3 & B5 & BM & B7 & B8 & B6) & HS).
  assert (Hw : wp s2 = WFin).
  { destruct (wp s2) eqn:EW; auto;
      assert (K : cnt sdone (thr s2) = 0) by (apply B6; discriminate);
      pose proof (cnt_ge1 sdone _ _ _ Hret eq_refl); lia. }
  unfold wloc in HW. rewrite Hw in *. destruct HW as [Hb Hd]. destruct B5 as [Hq HF].
  rewrite Hb, Hd, ?app_nil_r in *. repeat split; auto.
Qed.

(* An Enqueue call that has returned implies that the writer goroutine exists ... *)
Theorem enq_returned_spawned : forall c ops s t o v r, fixedc c -> reach c ops s ->
  nth_error (thr s) t = Some (OEnq o v, PRet r) -> spawned s = true.
Proof.
  intros c ops s t o v r Hf Hr Hn.
  destruct (reach_all c ops s Hf Hr) as (_ & _ & _ & _ & (S1 & S2)).
  destruct (spawned s) eqn:E; auto. destruct (S1 eq_refl) as [_ Hd].
  pose proof (cnt_ge1 postonce _ _ _ Hn eq_refl). specialize (S2 Hd). lia.
Qed.

(* ... and a call that is past its running check (at the flag test or at the send) is never abandoned:
   the writer is alive, and scheduledCount >= 1 keeps it alive. *)
Theorem sender_not_abandoned : forall c ops s t o p, fixedc c -> reach c ops s ->
  nth_error (thr s) t = Some (o, p) -> (p = PE EFlag \/ p = PE ESend) ->
  wp s <> WExit /\ wp s <> WFin /\ (1 <= sched s)%Z.
Proof.
  intros c ops s t o p Hf Hr Hn Hp.
  destruct (reach_all c ops s Hf Hr) as (_ & _ & _ & (B1 & _ & _ & B5 & _) & _).
  assert (1 <= cnt inF (thr s)) by (eapply cnt_ge1; eauto; destruct Hp; subst; reflexivity).
  pose proof (inF_le_incd (thr s)).
  repeat split.
  - intro E; rewrite E in B5; lia.
  - intro E; rewrite E in B5; lia.
  - destruct (wp s); lia.
Qed.

(* Once the writer has terminated, Wait no longer blocks and no Enqueue call can pass the running check. *)
Theorem after_exit : forall c ops s, fixedc c -> reach c ops s -> wp s = WFin ->
  wg s = 0 /\ running s = false /\ queue s = [] /\ cnt inF (thr s) = 0.
Proof.
  intros c ops s Hf Hr Hw.
  destruct (reach_all c ops s Hf Hr) as (_ & _ & _ & (B1 & B2 & B3 & B5 & _) & _).
  rewrite Hw in *. tauto.
Qed.
