(* C08 - umbrella: Base (infrastructure, sync.Once invariant), Safety (writer protocol, store = commits),
   Life (scheduledCount accounting, termination of the writer, Stop waits), Complete (what Stop guarantees),
   Value (per-object invariants: an accepted object is written with its last content), Order (explicit order
   invocation < BatchWrite < commit < BatchWriteDone for an accepted call), Progress (no stuck state,
   acceptance before Stop), Finish (every reachable state has a continuation in which all calls return),
   Witness (pinned defects D08a/D08b, regressions), FaultModel + Fault (store faults: a refused Commit / Batched is
   terminal, no BatchWriteDone without a successful commit; the batch timer), Start (concurrent first Enqueue calls:
   the auto-start; refutation of a non-waiting start flag), Muts (the store's batch contract at the level of mutation calls). *)
From Verif.C08_Batch Require Export Model Base Safety Life Complete Value Order Progress Finish Witness FaultModel Fault Start Muts.
