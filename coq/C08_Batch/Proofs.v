(* placeholder, replaced below *)
From Verif.C08_Batch Require Import Model Witness.
