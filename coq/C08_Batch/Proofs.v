(* C08 - umbrella: Base (infrastructure, sync.Once invariant), Safety (writer protocol, store = commits),
   Life (scheduledCount accounting, termination of the writer, Stop waits), Complete (what Stop guarantees),
   Value (per-object invariants: an accepted object is written with its last content), Progress (no stuck state),
   Witness (pinned defects D08a/D08b, regressions). *)
From Verif.C08_Batch Require Export Model Base Safety Life Complete Value Progress Witness.
