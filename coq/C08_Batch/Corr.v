(* Correspondence for C08.
   Scripted case: the harness releases client calls / gates in a scripted order, waits after every
   item until every goroutine is parked or has returned, and records what it saw (writer callbacks in
   order, which calls have returned with which result class, running / scheduledCount / len(queue) /
   flush token).  [agree] replays the items on the model: client threads run first as far as they can,
   then the writer; at the writer's select the case is the one that explains the next observed callback.
   Free-running case: the totally ordered event log of an uncontrolled run is judged by the history
   predicates of the theorems (log_safe, completeness, final store).
   Faulty case: a free-running log of a run over a store whose n-th Commit / Batched call returns an error, judged by
   the writer protocol with faults (FaultModel.fck_run, the language of Fault.safety_faults).
   Objs case: a log of a run with objects that issue several Set / Delete calls per BatchWrite; the store read back
   byte-exact is compared with Muts.apply_muts over the mutation calls of the committed batches. *)
From Coq Require Import List Bool Arith ZArith.
From Verif.C08_Batch Require Import Model FaultModel Muts.
Import ListNotations.

Inductive item :=
| IRel (i : nat)    (* invoke client call i *)
| IHook (i : nat)   (* let Enqueue call i leave the verifYield hook (before its running check) *)
| IGate (i : nat)   (* let Enqueue call i leave object.BatchWriteScheduled() *)
| IW                (* let the writer leave the callback it is held in *)
| IWait.            (* wait for the batch timer *)

Record obs := mkobs { o_ev : list event; o_ret : list (nat * nat); o_running : bool; o_sched : Z; o_qlen : nat; o_token : bool }.

Definition res_class (r : res) : nat :=
  match r with RAcc => 0 | RRej => 1 | RDup => 2 | RUnit => 3 | RStop _ => 4 end.

Definition res_eqb (a b : res) : bool :=
  match a, b with
  | RStop x, RStop y => Bool.eqb x y
  | _, _ => Nat.eqb (res_class a) (res_class b) && negb (Nat.eqb (res_class a) 4)
  end.

Definition event_eqb (a b : event) : bool :=
  match a, b with
  | EvSet t o v, EvSet t' o' v' => Nat.eqb t t' && Nat.eqb o o' && Nat.eqb v v'
  | EvInv t, EvInv t' => Nat.eqb t t'
  | EvRet t r, EvRet t' r' => Nat.eqb t t' && Nat.eqb (res_class r) (res_class r')
  | EvBatched, EvBatched | EvCancel, EvCancel => true
  | EvReset o, EvReset o' | EvDone o, EvDone o' => Nat.eqb o o'
  | EvWrite o v, EvWrite o' v' => Nat.eqb o o' && Nat.eqb v v'
  | EvCommit b, EvCommit b' => pairs_eqb b b'
  | _, _ => false
  end.

(* gate class a thread is standing at: 0 = verifYield hook, 1 = inside BatchWriteScheduled *)
Definition gate_of (p : pc) : option nat :=
  match p with
  | PE EChk => Some 0
  | PE ESend | PE (EDec RDup) => Some 1
  | _ => None
  end.

Definition held (holds : list (nat * nat)) (i : nat) (p : pc) : bool :=
  match gate_of p with
  | Some g => existsb (fun h => Nat.eqb (fst h) i && Nat.eqb (snd h) g) holds
  | None => false
  end.

Definition unhold (holds : list (nat * nat)) (i g : nat) : list (nat * nat) :=
  filter (fun h => negb (Nat.eqb (fst h) i && Nat.eqb (snd h) g)) holds.

(* a rendezvous send needs the writer inside its select, not inside a callback *)
Definition rdv (c : config) (p : pc) : bool :=
  match p with PE ESend => Nat.eqb (qsize c) 0 | _ => false end.

(* Go parks blocked senders in FIFO order (channel sendq): [parkq] lists the threads standing at their send in
   the order they got there; the other threads are tried first, in index order. *)
Definition at_send (holds : list (nat * nat)) (s : state) (i : nat) : bool :=
  match pc_of s i with Some (PE ESend) => negb (held holds i (PE ESend)) | _ => false end.

Definition upd_parkq (holds : list (nat * nat)) (s : state) (pq : list nat) : list nat :=
  let keep := filter (at_send holds s) pq in
  keep ++ filter (fun i => at_send holds s i && negb (existsb (Nat.eqb i) keep)) (seq 0 (length (thr s))).

Definition move_order (holds : list (nat * nat)) (s : state) (pq : list nat) : list nat :=
  filter (fun i => negb (at_send holds s i)) (seq 0 (length (thr s))) ++ pq.

(* first client thread in [order] that is invoked, not held, and can take a step *)
Fixpoint client_move (c : config) (holds : list (nat * nat)) (wheld : bool) (s : state) (order : list nat) : option state :=
  match order with
  | [] => None
  | i :: r =>
      match nth_error (thr s) i with
      | None | Some (_, PIdle) => client_move c holds wheld s r
      | Some (o, p) =>
          if held holds i p || (wheld && rdv c p) then client_move c holds wheld s r
          else match client_step c s i o p with
               | Some s' => Some s'
               | None => client_move c holds wheld s r
               end
      end
  end.

Definition is_commit (e : event) : bool := match e with EvCommit _ | EvCancel => true | _ => false end.

(* the select case that explains the next observed callback *)
Definition pick (s : state) (m : mode) (next : event) (token_after : bool) : choice :=
  match m with
  | MCollect => if token s && negb token_after then CFlush
                else if is_commit next then CTimeout else CRecv
  | MFlush => if is_commit next then CDefault else CRecv
  end.

(* bit k of the mask: the writer is held inside callbacks of kind k *)
Definition ev_kind (e : event) : nat :=
  match e with EvBatched => 0 | EvReset _ => 1 | EvWrite _ _ => 2 | EvCommit _ | EvCancel => 3 | EvDone _ => 4 | _ => 5 end.
Definition gated (mask : nat) (e : event) : bool := Nat.testbit mask (ev_kind e).

Record mst := mkm0 { m_s : state; m_holds : list (nat * nat); m_wheld : bool; m_pq : list nat }.
Definition mkm (s : state) (h : list (nat * nat)) (w : bool) : mst := mkm0 s h w [].

(* returns the settled state and the observed callbacks that were not explained *)
Fixpoint settle (fuel : nat) (c : config) (wgate : nat) (token_after : bool) (m : mst) (exp : list event) : mst * list event * bool :=
  match fuel with
  | O => (m, exp, false)
  | S f =>
      let s := m_s m in
      let pq := upd_parkq (m_holds m) s (m_pq m) in
      let m := mkm0 s (m_holds m) (m_wheld m) pq in
      (* the flush token was consumed during this item: the writer's select took it (before a rendezvous) *)
      if negb (m_wheld m) && token s && negb token_after &&
         match wp s with WSelect MCollect => true | _ => false end then
        match writer_step c s CFlush with
        | Some s' => settle f c wgate token_after (mkm0 s' (m_holds m) false pq) exp
        | None => (m, exp, false)
        end
      else
      match client_move c (m_holds m) (m_wheld m) s (move_order (m_holds m) s pq) with
      | Some s' => settle f c wgate token_after (mkm0 s' (m_holds m) (m_wheld m) pq) exp
      | None =>
          if m_wheld m then (m, exp, true) else
          match wp s with
          | WSelect md =>
              match exp with
              | [] => (m, exp, true)
              | e :: _ =>
                  match writer_step c s (pick s md e token_after) with
                  | Some s' => settle f c wgate token_after (mkm0 s' (m_holds m) false pq) exp
                  | None => (m, exp, true)
                  end
              end
          | _ =>
              match writer_step c s CStep with
              | None => (m, exp, true)
              | Some s' =>
                  if length (log s) <? length (log s') then
                    match log s', exp with
                    | e :: _, e' :: exp' =>
                        if event_eqb e e' then settle f c wgate token_after (mkm0 s' (m_holds m) (gated wgate e) pq) exp'
                        else (m, exp, false)
                    | _, _ => (m, exp, false)       (* the model's writer calls back, the implementation did not *)
                    end
                  else settle f c wgate token_after (mkm0 s' (m_holds m) false pq) exp
              end
          end
      end
  end.

Definition do_item (c : config) (m : mst) (it : item) : mst :=
  match it with
  | IRel i => match step c (m_s m) (S i) CStep with
              | Some s' => mkm0 s' (m_holds m) (m_wheld m) (m_pq m)
              | None => m
              end
  | IHook i => mkm0 (m_s m) (unhold (m_holds m) i 0) (m_wheld m) (m_pq m)
  | IGate i => mkm0 (m_s m) (unhold (m_holds m) i 1) (m_wheld m) (m_pq m)
  | IW => mkm0 (m_s m) (m_holds m) false (m_pq m)
  | IWait => m
  end.

Fixpoint returned_from (ths : list (op * pc)) (i : nat) : list (nat * nat) :=
  match ths with
  | [] => []
  | (_, PRet r) :: t => (i, res_class r) :: returned_from t (S i)
  | _ :: t => returned_from t (S i)
  end.

Fixpoint natpairs_eqb (a b : list (nat * nat)) : bool :=
  match a, b with
  | [], [] => true
  | (x, y) :: r, (x', y') :: r' => Nat.eqb x x' && Nat.eqb y y' && natpairs_eqb r r'
  | _, _ => false
  end.

Definition obs_ok (s : state) (o : obs) : bool :=
  natpairs_eqb (returned_from (thr s) 0) (o_ret o) && Bool.eqb (running s) (o_running o) &&
  (sched s =? o_sched o)%Z && Nat.eqb (length (queue s)) (o_qlen o) && Bool.eqb (token s) (o_token o).

Fixpoint replay (c : config) (wgate : nat) (m : mst) (items : list (item * obs)) : option state :=
  match items with
  | [] => Some (m_s m)
  | (it, o) :: r =>
      match settle 400 c wgate (o_token o) (do_item c m it) (o_ev o) with
      | (m', [], true) => if obs_ok (m_s m') o then replay c wgate m' r else None
      | _ => None
      end
  end.

Definition optnat_eqb (a b : option nat) : bool :=
  match a, b with None, None => true | Some x, Some y => Nat.eqb x y | _, _ => false end.

Fixpoint store_eqb (st : obj -> option nat) (i : nat) (l : list (option nat)) : bool :=
  match l with
  | [] => true
  | x :: r => optnat_eqb (st i) x && store_eqb st (S i) r
  end.

(* ---- free-running logs ---- *)
Definition ret_of (l : list event) (t : nat) : option res :=
  match find (fun e => match e with EvRet t' _ => Nat.eqb t t' | _ => false end) l with
  | Some (EvRet _ r) => Some r
  | _ => None
  end.

(* chronological log; nobj objects; stopped = a Stop call invoked after the writer was started has returned *)
Definition is_writer_ev (e : event) : bool := Nat.ltb (ev_kind e) 5.
Fixpoint quiet_after_stop (l : list event) : bool :=
  match l with
  | [] => true
  | EvRet _ (RStop _) :: r => negb (existsb is_writer_ev r)
  | _ :: r => quiet_after_stop r
  end.

(* no Enqueue call is rejected before a Stop call has been invoked (C08_enqueue_accepted_before_stop; in free-running
   logs EvInv is logged for Stop calls only) *)
Fixpoint no_rej_before_stop (l : list event) : bool :=
  match l with
  | [] => true
  | EvInv _ :: _ => true
  | EvRet _ RRej :: _ => false
  | _ :: r => no_rej_before_stop r
  end.

(* everything but the comparison of the store that was read back *)
Definition proto_ok (l : list event) (nobj : nat) (stopped : bool) : option ck :=
  match ck_run ck0 l with
  | None => None
  | Some k =>
      if forallb (fun o => optnat_eqb (k_store k o) (last_w (committed l) o)) (seq 0 nobj) &&
         quiet_after_stop l && no_rej_before_stop l &&
         (negb stopped ||
          (match k_unc k, k_pend k with [], [] => true | _, _ => false end &&
           pairs_eqb (writes l) (committed l) &&
           forallb (fun o => match last_setter (rev l) o with
                             | Some (t, v) => match ret_of l t with
                                              | Some RAcc | Some RDup => optnat_eqb (k_store k o) (Some v) && negb (dirty (rev l) o)
                                              | _ => true
                                              end
                             | None => true
                             end) (seq 0 nobj)))
      then Some k else None
  end.

Definition free_ok (l : list event) (nobj : nat) (final : list (option nat)) (stopped : bool) : bool :=
  match proto_ok l nobj stopped with
  | None => false
  | Some k => store_eqb (k_store k) 0 final
  end.

(* ---- rich objects (harness objs.go): EvWrite o ver / EvCommit [(o, ver); ...] carry the version of the object's
   content; wm = the mutation calls (arguments as they were at the time of the call) made by the 1st, 2nd, ...
   BatchWrite call; final = the store read back completely, (key, content) for every key of the universe; the keys of
   object o are 8*o .. 8*o+7.  The store must be (a) what Muts.apply_muts gives for the mutation calls of the committed
   batches in the order of the calls, and (b) on the keys of every object what the object's last committed BatchWrite
   alone gives (objects write their full state; Muts.last_write_wins). *)
Fixpoint objs_replay (l : list event) (wm : list (list mut)) (open : list (obj * list mut)) (st : kstore)
    (lastw : obj -> list mut) : kstore * (obj -> list mut) :=
  match l with
  | [] => (st, lastw)
  | EvWrite o _ :: r =>
      match wm with
      | m :: wm' => objs_replay r wm' (open ++ [(o, m)]) st lastw
      | [] => objs_replay r [] (open ++ [(o, [])]) st lastw
      end
  | EvCommit _ :: r =>
      objs_replay r wm [] (apply_muts (flat_map snd open) st) (fold_left (fun f p => upd f (fst p) (snd p)) open lastw)
  | EvCancel :: r => objs_replay r wm [] st lastw
  | _ :: r => objs_replay r wm open st lastw
  end.

Fixpoint natlist_eqb (a b : list nat) : bool :=
  match a, b with
  | [], [] => true
  | x :: r, y :: r' => Nat.eqb x y && natlist_eqb r r'
  | _, _ => false
  end.
Definition optlist_eqb (a b : option (list nat)) : bool :=
  match a, b with None, None => true | Some x, Some y => natlist_eqb x y | _, _ => false end.

Definition objs_ok (l : list event) (nobj : nat) (wm : list (list mut)) (final : list (nat * option (list nat)))
    (stopped : bool) : bool :=
  match proto_ok l nobj stopped with
  | None => false
  | Some k =>
      let (st, lastw) := objs_replay l wm [] kempty (fun _ => []) in
      forallb (fun kv => optlist_eqb (st (fst kv)) (snd kv)) final &&
      forallb (fun kv => let o := Nat.div (fst kv) 8 in
                         match k_store k o with
                         | Some _ => optlist_eqb (apply_muts (lastw o) kempty (fst kv)) (snd kv)
                         | None => match snd kv with None => true | Some _ => false end
                         end) final
  end.

(* ---- runs in which the store was made to fail (chronological log incl. the failed call and the panic) ----
   accepted by the writer protocol with faults (FaultModel.fck_step: the refused commit carries exactly the open
   mutations, no BatchWriteDone is due, nothing but the panic follows), the fault was reached and the writer panicked
   (phase 2), the final store holds the successfully committed mutations only. *)
Definition fault_ok (l : list fev) (nobj : nat) (final : list (option nat)) : bool :=
  match fck_run fck0 l with
  | None => false
  | Some k =>
      Nat.eqb (fk_ph k) 2 &&
      match k_pend (fk k) with [] => true | _ => false end &&
      store_eqb (k_store (fk k)) 0 final &&
      forallb (fun o => optnat_eqb (k_store (fk k) o) (last_w (committed (evs l)) o)) (seq 0 nobj)
  end.

Inductive case :=
| Faulty (l : list fev) (nobj : nat) (final : list (option nat))
| Scripted (q b : nat) (wgate : nat) (ops : list op) (holds : list (nat * nat)) (items : list (item * obs)) (final : list (option nat))
| Free (l : list event) (nobj : nat) (final : list (option nat)) (stopped : bool)
| Objs (l : list event) (nobj : nat) (wm : list (list mut)) (final : list (nat * option (list nat))) (stopped : bool).

Definition case_ok (cs : case) : bool :=
  match cs with
  | Scripted q b wgate ops holds items final =>
      match replay (fixed q b) wgate (mkm (init ops) holds false) items with
      | Some s => store_eqb (store s) 0 final && log_safe (rev (log s))
      | None => false
      end
  | Free l nobj final stopped => free_ok l nobj final stopped
  | Faulty l nobj final => fault_ok l nobj final
  | Objs l nobj wm final stopped => objs_ok l nobj wm final stopped
  end.

Fixpoint mismatches_from (i : nat) (cs : list case) : list nat :=
  match cs with
  | [] => []
  | c :: r => if case_ok c then mismatches_from (S i) r else i :: mismatches_from (S i) r
  end.

Definition mismatches (cs : list case) : list nat := mismatches_from 0 cs.
