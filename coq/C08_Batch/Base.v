(* C08 - proof infrastructure and the base invariant (sync.Once / goroutine creation), all variants. *)
From Coq Require Import List Bool Arith ZArith Lia.
From Verif.C08_Batch Require Import Model.
Import ListNotations.

(* ---------- generic: invariant rule ---------- *)
Lemma run_inv : forall c (I : state -> Prop),
  (forall s t ch s', I s -> step c s t ch = Some s' -> I s') ->
  forall sch s, I s -> I (run c sch s).
Proof.
  intros c I HI sch. induction sch as [|[t ch] r IH]; intros s Hs; simpl; auto.
  destruct (step c s t ch) eqn:E; auto. apply IH. eapply HI; eauto.
Qed.

Ltac brk H :=
  repeat match type of H with
  | context [match ?x with _ => _ end] => (is_var x; destruct x) || destruct x eqn:?
  end.

Ltac stepcases H :=
  unfold step, writer_step, client_step, goto, ret, set_pc, spawn, after_once, after, cont_of in H;
  brk H; try discriminate H; injection H as H; subst.


(* ---------- counting threads by program counter ---------- *)
Fixpoint cnt (f : op * pc -> bool) (l : list (op * pc)) : nat :=
  match l with
  | [] => 0
  | x :: r => (if f x then 1 else 0) + cnt f r
  end.

Lemma cnt_set_nth : forall f l i x y, nth_error l i = Some x ->
  cnt f (set_nth l i y) + (if f x then 1 else 0) = cnt f l + (if f y then 1 else 0).
Proof.
  induction l as [|z r IH]; intros [|i] x y H; simpl in *; try discriminate.
  - injection H as ->. lia.
  - specialize (IH _ _ y H). lia.
Qed.

Lemma cnt_ge1 : forall f l i x, nth_error l i = Some x -> f x = true -> 1 <= cnt f l.
Proof.
  induction l as [|z r IH]; intros [|i] x H Hf; simpl in *; try discriminate.
  - injection H as ->. rewrite Hf. lia.
  - specialize (IH _ _ H Hf). lia.
Qed.

Lemma cnt_le : forall f g l, (forall x, f x = true -> g x = true) -> cnt f l <= cnt g l.
Proof.
  intros f g l H. induction l as [|z r IH]; simpl; auto.
  destruct (f z) eqn:E. rewrite (H _ E). lia. destruct (g z); lia.
Qed.

Lemma cnt_0 : forall f l i x, cnt f l = 0 -> nth_error l i = Some x -> f x = false.
Proof.
  intros. destruct (f x) eqn:E; auto. pose proof (cnt_ge1 f l i x H0 E). lia.
Qed.

Lemma nth_set_nth_eq : forall {A} (l : list A) i x y, nth_error l i = Some x -> nth_error (set_nth l i y) i = Some y.
Proof. induction l; intros [|i] x y H; simpl in *; try discriminate; eauto. Qed.

Lemma nth_set_nth_neq : forall {A} (l : list A) i j y, i <> j -> nth_error (set_nth l i y) j = nth_error l j.
Proof. induction l; intros [|i] [|j] y H; simpl in *; auto; try congruence. Qed.

Ltac cnt_facts Hn :=
  repeat match goal with
  | |- context [cnt ?f (set_nth ?l ?t ?y)] =>
      let K := fresh "K" in
      pose proof (cnt_set_nth f l t _ y Hn) as K; simpl in K;
      let n := fresh "n" in set (n := cnt f (set_nth l t y)) in *; clearbody n
  end.

(* ---------- base invariant: the sync.Once region and goroutine creation ---------- *)
Definition in_once (x : op * pc) : bool :=
  match snd x with PE EOnceChk | PE EOnceLock | PE EOnceBody | PE EOnceUnlock => true | _ => false end.
Definition in_once_pre (x : op * pc) : bool :=
  match snd x with PE EOnceChk | PE EOnceLock | PE EOnceBody => true | _ => false end.

Definition InvO (s : state) : Prop :=
  (cnt in_once (thr s) = match once s with OBusy => 1 | _ => 0 end) /\
  (spawned s = true -> cnt in_once_pre (thr s) = 0) /\
  (once s = OFree -> wp s = WNone).

Lemma invO_init : forall ops, InvO (init ops).
Proof.
  intros. unfold InvO; simpl. repeat split; auto; try discriminate.
  induction ops; simpl; auto.
Qed.

Lemma pre_le_once : forall l, cnt in_once_pre l <= cnt in_once l.
Proof. intros. apply cnt_le. intros [o p]; unfold in_once_pre, in_once; simpl. destruct p; try discriminate. destruct k; auto. Qed.

Lemma invO_step : forall c s t ch s', InvO s -> step c s t ch = Some s' -> InvO s'.
Proof.
  intros c s t ch s' (H1 & H2 & H3) H. unfold InvO, spawned in *.
  pose proof (pre_le_once (thr s)) as Hle.
  stepcases H; simpl in *;
    try match goal with Hn : nth_error (thr s) _ = Some _ |- _ =>
      try (assert (G1 : 1 <= cnt in_once (thr s)) by (eapply cnt_ge1; [exact Hn | reflexivity]));
      try (assert (G2 : 1 <= cnt in_once_pre (thr s)) by (eapply cnt_ge1; [exact Hn | reflexivity]));
      cnt_facts Hn end;
    repeat match goal with E : wp s = _ |- _ => rewrite E in *; clear E end;
    repeat match goal with E : once s = _ |- _ => rewrite E in *; clear E end;
    try solve [repeat split; auto; intro Ho; specialize (H3 Ho); discriminate];
    try solve [destruct (once s); destruct (wp s); simpl in *; repeat split; intros; try discriminate; try lia;
               try (specialize (H2 eq_refl)); try (specialize (H3 eq_refl)); try discriminate; try lia; auto].
Qed.

Lemma once_body_wnone : forall s t o, InvO s -> nth_error (thr s) t = Some (o, PE EOnceBody) -> wp s = WNone.
Proof.
  intros s t o (_ & H2 & _) Hn. unfold spawned in H2.
  assert (G2 : 1 <= cnt in_once_pre (thr s)) by (eapply cnt_ge1; [exact Hn | reflexivity]).
  destruct (wp s); auto; specialize (H2 eq_refl); lia.
Qed.

Definition reach (c : config) (ops : list op) (s : state) : Prop := exists sch, s = run c sch (init ops).

Lemma reach_inv : forall c ops (I : state -> Prop),
  I (init ops) -> (forall s t ch s', I s -> step c s t ch = Some s' -> I s') ->
  forall s, reach c ops s -> I s.
Proof. intros c ops I H0 HS s [sch ->]. apply run_inv with (I := I); auto. Qed.

Lemma reach_invO : forall c ops s, reach c ops s -> InvO s.
Proof. intros c ops. apply reach_inv. apply invO_init. intros; eapply invO_step; eauto. Qed.
