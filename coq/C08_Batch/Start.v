(* C08 - the auto-start of the writer under concurrent first Enqueue calls.
   The model's Enqueue begins with autoStartOnce.Do (Model.epc: EOnce .. EOnceUnlock; state field [once]): the first
   caller takes the Once (OFree -> OBusy), creates the writer under startStopMutex and marks the Once done; EVERY OTHER
   caller that arrives while the Once is busy has no enabled step (sync.Once.Do returns only after the first call of f
   has returned).  The theorems of Progress / Value / Order quantify over all scripts and schedules, so any number of
   Enqueue calls may stand in front of / inside the Once at the same time; this file makes that explicit:
   - first_enqueues_started: a call that has left the auto-start step finds the Once done, the writer created and
     (while no Stop has been invoked) running = true - whoever performed the start;
   - a variant [step_flag] in which the Once is replaced by a start flag that is only tested-and-set (a caller that
     finds the start in progress goes on at once) refutes the property: a call is rejected and its object is never
     written although no Stop call exists in the script at all (flag_witness). *)
From Coq Require Import List Bool Arith ZArith Lia.
From Verif.C08_Batch Require Import Model Base Safety Life Complete Value Progress Witness.
Import ListNotations.

Theorem first_enqueues_started : forall c ops s t o v p, fixedc c -> reach c ops s ->
  (forall j p', nth_error (thr s) j = Some (OStop, p') -> p' = PIdle) ->
  nth_error (thr s) t = Some (OEnq o v, p) -> postonce (OEnq o v, p) = true ->
  once s = ODone /\ spawned s = true /\ running s = true.
Proof.
  intros c ops s t o v p Hf Hr Hst Hn Hp.
  destruct (reach_all _ _ _ Hf Hr) as (_ & _ & _ & _ & (S1 & S2)).
  pose proof (cnt_ge1 postonce _ _ _ Hn Hp) as Hge.
  assert (Ho : once s = ODone).
  { destruct (once s) eqn:E; auto; assert (Hne : once s <> ODone) by congruence; rewrite E in *; specialize (S2 Hne); lia. }
  assert (Hsp : spawned s = true).
  { destruct (spawned s) eqn:E; auto. destruct (S1 eq_refl) as [_ Hd]. congruence. }
  split; [exact Ho | split; [exact Hsp |]].
  destruct (reach_invN _ _ _ Hf Hr) as [N1 _]; auto.
  apply cnt_all0. intros j [o' p'] Hj. destruct o'; try reflexivity. rewrite (Hst _ _ Hj). reflexivity.
Qed.

(* An Enqueue call that has returned while no Stop call had been invoked - whatever other calls, first calls of the
   writer included, ran at the same time - is never dropped: it was accepted, a BatchWrite of its object follows its
   invocation, and when a later Stop has returned the store holds the content it announced (if it is the last
   invocation on the object). *)
Theorem complete_before_stop : forall c ops sch1 sch2 t ts o v r r', fixedc c ->
  let s1 := run c sch1 (init ops) in
  let s2 := run c sch2 s1 in
  (forall j p, nth_error (thr s1) j = Some (OStop, p) -> p = PIdle) ->
  nth_error (thr s1) t = Some (OEnq o v, PRet r) ->
  nth_error (thr s1) ts = Some (OStop, PIdle) ->
  nth_error (thr s2) ts = Some (OStop, PRet r') ->
  (r = RAcc \/ r = RDup) /\ wsince (log s2) t o = true /\
  (last_setter (log s2) o = Some (t, v) -> store s2 o = Some v /\ dirty (log s2) o = false).
Proof.
  intros c ops sch1 sch2 t ts o v r r' Hf s1 s2 Hst Ht Hidle Hret.
  assert (Hr : r = RAcc \/ r = RDup).
  { eapply enq_accepted_before_stop; eauto. exists sch1. reflexivity. }
  split; [exact Hr | split].
  - eapply complete_written; eauto.
  - intros Hl. eapply complete; eauto.
Qed.

(* two calls at the auto-start at the same time: call 0 is inside the start (Once busy, at the mutex), call 1 stands at
   the Once and cannot move; when call 0 has finished the start, call 1 goes on and both are accepted *)
Definition ops_two : list op := [OEnq 0 1; OEnq 1 2].
Definition s_two_wait : state := run (fixed 2 2) (rep 3 1 ++ rep 1 2) (init ops_two).
Definition s_two_end : state :=
  run (fixed 2 2) (rep 3 1 ++ rep 1 2 ++ rep 3 1 ++ rep 6 2 ++ rep 5 1 ++ rep 3 0 ++ [(0, CRecv)] ++ rep 3 0 ++
                   [(0, CRecv)] ++ rep 6 0) (init ops_two).

Lemma two_first_enqueues :
  pc_of s_two_wait 0 = Some (PE EOnceLock) /\ pc_of s_two_wait 1 = Some (PE EOnce) /\ once s_two_wait = OBusy /\
  step (fixed 2 2) s_two_wait 2 CStep = None /\
  pc_of s_two_end 0 = Some (PRet RAcc) /\ pc_of s_two_end 1 = Some (PRet RAcc) /\
  store s_two_end 0 = Some 1 /\ store s_two_end 1 = Some 2 /\ dones (rev (log s_two_end)) = [1; 0].
Proof. vm_compute. repeat split; reflexivity. Qed.

(* ---- the start flag that does not make the other first callers wait ----
   `if started.CompareAndSwap(false, true) && !running.Load() { startBatchWriter() }`: [once] = OFree is the flag being
   false; the caller that finds it set (OBusy: the winner is still inside the start; ODone) goes straight on. *)
Definition step_flag (c : config) (s : state) (t : nat) (ch : choice) : option state :=
  match t with
  | S i => match nth_error (thr s) i with
           | Some (OEnq ob v, PE EOnce) =>
               match once s with
               | OBusy => goto s i (OEnq ob v) (PE (after_once c))
               | _ => step c s t ch
               end
           | _ => step c s t ch
           end
  | O => step c s t ch
  end.

Fixpoint run_flag (c : config) (sch : list (nat * choice)) (s : state) : state :=
  match sch with
  | [] => s
  | (t, ch) :: r => run_flag c r (match step_flag c s t ch with Some s' => s' | None => s end)
  end.

(* call 0 wins the flag and is on its way to the mutex; call 1 loses, raises the counter, reads running = false and
   takes the "writer has been stopped" exit; then call 0 finishes the start, its object is written, the writer idles *)
Definition sch_flag : list (nat * choice) :=
  rep 3 1 ++ rep 5 2 ++ rep 9 1 ++ rep 3 0 ++ [(0, CRecv)] ++ rep 3 0 ++ [(0, CTimeout)] ++ rep 4 0.
Definition s_flag : state := run_flag (fixed 2 2) sch_flag (init ops_two).

Lemma flag_witness :
  (forall j p, nth_error (thr s_flag) j <> Some (OStop, p)) /\
  pc_of s_flag 0 = Some (PRet RAcc) /\ pc_of s_flag 1 = Some (PRet RRej) /\
  store s_flag 0 = Some 1 /\ store s_flag 1 = None /\ writes (rev (log s_flag)) = [(0, 1)] /\
  queue s_flag = [] /\ sched s_flag = 0%Z /\ flag s_flag 1 = false /\ running s_flag = true.
Proof.
  split.
  - intros j p. vm_compute. destruct j as [|[|[|j]]]; discriminate.
  - vm_compute. repeat split; reflexivity.
Qed.

(* the same schedule on the code with the Once: call 1 waits, nothing is rejected *)
Lemma flag_schedule_with_once :
  let s := run (fixed 2 2) sch_flag (init ops_two) in
  pc_of s 0 = Some (PRet RAcc) /\ pc_of s 1 = Some (PE EOnce) /\ once s = ODone.
Proof. vm_compute. repeat split; reflexivity. Qed.
