(* C08 - what a batch of the store is, at the level of the mutation calls an object's BatchWrite makes.
   Model.v abstracts an object's BatchWrite to one value per object ([apply_batch]: one Set per BatchWrite).  Real
   objects issue several Set / Delete calls on several keys; the BatchedWriter relies on the store's batch contract:
   committing a batch has the effect of the calls in the order they were made, with the arguments as they were at the
   time of the call.  [apply_muts] is that contract (executable; used by Corr.objs_ok on the byte-exact store contents
   of the implementation), [apply_muts_last] says what it means per key (the LAST call on a key decides: Set then Delete
   leaves the key absent, Delete then Set leaves it present with the value of that Set), [apply_batch_muts] ties it to
   the model's batches, [last_write_wins] is "committed store contents equal the last BatchWrite of each object" for
   objects that write their full state on keys of their own. *)
From Coq Require Import List Bool Arith.
From Verif.C08_Batch Require Import Model.
Import ListNotations.

Inductive mut := MSet (k : nat) (v : list nat) | MDel (k : nat).

Definition mkey (m : mut) : nat := match m with MSet k _ => k | MDel k => k end.
Definition mval (m : mut) : option (list nat) := match m with MSet _ v => Some v | MDel _ => None end.

Definition kstore := nat -> option (list nat).
Definition kempty : kstore := fun _ => None.

Fixpoint apply_muts (l : list mut) (st : kstore) : kstore :=
  match l with
  | [] => st
  | m :: r => apply_muts r (upd st (mkey m) (mval m))
  end.

(* the last mutation on key k in l *)
Fixpoint last_mut (l : list mut) (k : nat) : option mut :=
  match l with
  | [] => None
  | m :: r => match last_mut r k with Some x => Some x | None => if Nat.eqb (mkey m) k then Some m else None end
  end.

Lemma apply_muts_last : forall l st k,
  apply_muts l st k = match last_mut l k with Some m => mval m | None => st k end.
Proof.
  induction l as [|m r IH]; intros st k; simpl. reflexivity.
  rewrite IH. destruct (last_mut r k); auto.
  unfold upd. rewrite (Nat.eqb_sym (mkey m) k). destruct (Nat.eqb k (mkey m)); reflexivity.
Qed.

Lemma last_mut_app : forall l1 l2 k,
  last_mut (l1 ++ l2) k = match last_mut l2 k with Some m => Some m | None => last_mut l1 k end.
Proof.
  induction l1 as [|m r IH]; intros l2 k; simpl. destruct (last_mut l2 k); reflexivity.
  rewrite IH. destruct (last_mut l2 k); reflexivity.
Qed.

Lemma apply_muts_app : forall l1 l2 st, apply_muts (l1 ++ l2) st = apply_muts l2 (apply_muts l1 st).
Proof. induction l1; intros; simpl; auto. Qed.

(* Set then Delete / Delete then Set of one key inside one batch *)
Lemma set_then_delete : forall l1 l2 l3 k v st, last_mut l3 k = None ->
  apply_muts (l1 ++ MSet k v :: l2 ++ MDel k :: l3) st k = None.
Proof.
  intros. rewrite apply_muts_last, last_mut_app. simpl. rewrite last_mut_app. simpl. rewrite H, Nat.eqb_refl. reflexivity.
Qed.

Lemma delete_then_set : forall l1 l2 l3 k v st, last_mut l3 k = None ->
  apply_muts (l1 ++ MDel k :: l2 ++ MSet k v :: l3) st k = Some v.
Proof.
  intros. rewrite apply_muts_last, last_mut_app. simpl. rewrite last_mut_app. simpl. rewrite H, Nat.eqb_refl. reflexivity.
Qed.

(* an object that writes its full state: on every key it owns its BatchWrite makes a call.  Whatever was committed
   before (by this or other objects), after a commit whose last BatchWrite of the object is w, and later mutations
   that do not touch the object's keys, the store on those keys is what w alone gives. *)
Lemma last_write_wins : forall before w later st k,
  last_mut w k <> None -> last_mut later k = None ->
  apply_muts (before ++ w ++ later) st k = apply_muts w kempty k.
Proof.
  intros before w later st k Hw Hl.
  rewrite !apply_muts_last, !last_mut_app, Hl. destruct (last_mut w k); [reflexivity | congruence].
Qed.

(* the model's batch = one Set per BatchWrite *)
Definition batch_muts (b : list (obj * nat)) : list mut := map (fun p => MSet (fst p) [snd p]) b.

Lemma apply_batch_muts : forall b (st : obj -> option nat) (ks : kstore) o,
  (forall o', ks o' = option_map (fun v => [v]) (st o')) ->
  apply_muts (batch_muts b) ks o = option_map (fun v => [v]) (apply_batch b st o).
Proof.
  induction b as [|[o1 v1] r IH]; intros st ks o H; simpl. apply H.
  apply IH. intros o'. unfold upd. destruct (Nat.eqb o' o1); [reflexivity | apply H].
Qed.
