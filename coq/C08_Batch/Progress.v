(* C08 - progress of the repaired code: no reachable state with an unfinished call is stuck; an Enqueue that returns
   while no Stop call has been invoked is accepted. *)
From Coq Require Import List Bool Arith ZArith Lia.
From Verif.C08_Batch Require Import Model Base Safety Life Complete Value.
Import ListNotations.

(* ---------- InvK: every thread's program counter belongs to its operation ---------- *)
Definition okpc (x : op * pc) : bool :=
  match x with
  | (OEnq _ _, PIdle) | (OEnq _ _, PRet RAcc) | (OEnq _ _, PRet RRej) | (OEnq _ _, PRet RDup) => true
  | (OEnq _ _, PE (EDec RRej)) | (OEnq _ _, PE (EDec RDup)) => true
  | (OEnq _ _, PE (EDec _)) => false
  | (OEnq _ _, PE _) => true
  | (OFlush, PIdle) | (OFlush, PF1) | (OFlush, PF2) | (OFlush, PRet RUnit) => true
  | (OStop, PIdle) | (OStop, PS1 _) | (OStop, PS2 _) | (OStop, PS3 _) | (OStop, PS4 _) | (OStop, PS5 _)
  | (OStop, PRet (RStop _)) => true
  | _ => false
  end.
Definition badpc (x : op * pc) : bool := negb (okpc x).

Definition InvK (s : state) : Prop := cnt badpc (thr s) = 0.

Lemma invK_init : forall ops, InvK (init ops).
Proof. intros. unfold InvK. simpl. apply cnt_init. intros []; reflexivity. Qed.

Lemma invK_step : forall c s t ch s', InvK s -> step c s t ch = Some s' -> InvK s'.
Proof.
  intros c s t ch s' HK H. unfold InvK in *.
  stepcases H; simpl in *; auto;
    match goal with Hn : nth_error (thr s) _ = Some _ |- _ =>
      pose proof (cnt_0 badpc _ _ _ HK Hn) as Hb; cnt_facts Hn end;
    unfold badpc in *; simpl in *; try lia.
  destruct r; simpl in *; try discriminate; lia.
Qed.

Lemma reach_invK : forall c ops s, reach c ops s -> InvK s.
Proof. intros c ops. apply reach_inv. apply invK_init. intros; eapply invK_step; eauto. Qed.

Lemma okpc_at : forall s i x, InvK s -> nth_error (thr s) i = Some x -> okpc x = true.
Proof. intros s i x HK Hn. pose proof (cnt_0 badpc _ _ _ HK Hn) as H. unfold badpc in H. destruct (okpc x); auto. Qed.

(* ---------- a stuck state has no enabled thread ---------- *)
Lemma enabled_not_stuck : forall c s t ch s', t <= length (thr s) -> In ch choices -> step c s t ch = Some s' ->
  stuckb c s = false.
Proof.
  intros c s t ch s' Ht Hch H. unfold stuckb. apply negb_false_iff. apply existsb_exists.
  exists t. split. apply in_seq. lia.
  unfold enabled. apply existsb_exists. exists ch. split; auto. rewrite H. reflexivity.
Qed.

Lemma cnt_ex : forall f l, 1 <= cnt f l -> exists i x, nth_error l i = Some x /\ f x = true.
Proof.
  induction l as [|z r IH]; simpl; intros H. lia.
  destruct (f z) eqn:E. exists 0, z. auto.
  destruct IH as (i & x & A & B). lia. exists (S i), x. auto.
Qed.

Lemma nth_lt : forall {A} (l : list A) i x, nth_error l i = Some x -> S i <= length l.
Proof. intros A l i x H. apply nth_error_Some. congruence. Qed.

(* the writer, once created and not yet terminated, always has an enabled step (time-out and default are free choices) *)
Lemma writer_enabled : forall c s, InvA s -> wp s <> WNone -> wp s <> WFin ->
  exists ch s', In ch choices /\ step c s 0 ch = Some s'.
Proof.
  intros c s [_ Hw] H1 H2. unfold step, writer_step, wloc, choices in *.
  destruct (wp s) as [| | | |m|m|m|m|m|k|k| |] eqn:E; try congruence.
  all: try solve [exists CStep; eexists; split; [simpl; tauto | reflexivity]].
  - exists CStep. destruct (running s); eexists; (split; [simpl; tauto | reflexivity]).
  - exists CStep. destruct (sched s =? 0)%Z; eexists; (split; [simpl; tauto | reflexivity]).
  - destruct m. exists CTimeout; eexists; split; [simpl; tauto | reflexivity].
    destruct (queue s); [exists CDefault | exists CRecv]; eexists; (split; [simpl; tauto | reflexivity]).
  - exists CStep. destruct (bsize c <=? _); eexists; (split; [simpl; tauto | reflexivity]).
  - exists CStep. destruct (batch s); eexists; (split; [simpl; tauto | reflexivity]).
  - exists CStep. destruct Hw as [_ Hd]. destruct (dq s); [congruence|]. eexists; split; [simpl; tauto | reflexivity].
Qed.

(* ---------- client steps ---------- *)
Definition can_step (c : config) (s : state) : Prop :=
  exists t ch s', t <= length (thr s) /\ In ch choices /\ step c s t ch = Some s'.
Definition can_client (c : config) (s : state) : Prop := exists j s', step c s (S j) CStep = Some s'.

Lemma can_client_step : forall c s, can_client c s -> can_step c s.
Proof.
  intros c s (j & s' & H). exists (S j), CStep, s'. split; [|split; [simpl; tauto | exact H]].
  simpl in H. destruct (nth_error (thr s) j) eqn:E; [|discriminate]. eapply nth_lt; eauto.
Qed.

Lemma client_can_step : forall c s j x s', nth_error (thr s) j = Some x ->
  client_step c s j (fst x) (snd x) = Some s' -> can_client c s.
Proof.
  intros c s j [o p] s' Hn H. exists j, s'. simpl. rewrite Hn. exact H.
Qed.

(* program counters whose step may be disabled *)
Definition may_block (p : pc) : bool :=
  match p with PE EOnce | PE EOnceLock | PE ESend | PS1 _ | PS4 _ | PRet _ => true | _ => false end.

Lemma free_step : forall c s j o p, nth_error (thr s) j = Some (o, p) -> okpc (o, p) = true -> may_block p = false ->
  can_client c s.
Proof.
  intros c s j o p Hn Hok Hb.
  assert (exists s', client_step c s j o p = Some s') as [s' H].
  { unfold client_step, goto, ret. destruct o, p as [|k| | |b|b|b|b|b|r]; try discriminate; try destruct k; try discriminate;
      repeat match goal with |- context [if ?b then _ else _] => destruct b end; eauto. }
  eapply client_can_step with (x := (o, p)); eauto.
Qed.

Lemma wait_step : forall c s j o b, nth_error (thr s) j = Some (o, PS4 b) -> okpc (o, PS4 b) = true -> wg s = 0 -> can_client c s.
Proof.
  intros c s j o b Hn Hok Hwg. destruct o; try discriminate.
  eapply client_can_step with (x := (OStop, PS4 b)); eauto. simpl. rewrite Hwg. reflexivity.
Qed.

(* Analysis of what an unfinished call waits for, for an arbitrary goal P: P follows from any enabled client step, from
   a call at Wait, and from a call at its send. *)
Section Blocked.
Variables (c : config) (s : state) (P : Prop).
Hypothesis HO : InvO s.
Hypothesis HB : InvB s.
Hypothesis HK : InvK s.
Hypothesis Pstep : can_client c s -> P.
Hypothesis Pwait : forall j o b, nth_error (thr s) j = Some (o, PS4 b) -> P.
Hypothesis Psend : forall j o, nth_error (thr s) j = Some (o, PE ESend) -> P.

(* the holder of startStopMutex can move, or is at Wait *)
Lemma holder_P : mu s = true -> P.
Proof.
  intros Hmu. destruct HB as (_ & _ & _ & _ & BM & _). rewrite Hmu in BM.
  destruct (cnt wait4 (thr s)) eqn:E.
  - destruct (cnt_ex mtxo (thr s)) as (j & [o p] & Hn & Hf). lia.
    apply Pstep. eapply free_step; eauto. eapply okpc_at; eauto.
    unfold mtxo in Hf. simpl in Hf. destruct p as [|k| | |b|b|b|b|b|r]; try discriminate; try destruct k; try discriminate; reflexivity.
  - destruct (cnt_ex wait4 (thr s)) as (j & [o p] & Hn & Hf). lia.
    unfold wait4 in Hf. simpl in Hf. destruct p; try discriminate. eapply Pwait; eauto.
Qed.

Lemma lock_P : forall j o p,
  nth_error (thr s) j = Some (o, p) -> okpc (o, p) = true -> (p = PE EOnceLock \/ exists b, p = PS1 b) -> P.
Proof.
  intros j o p Hn Hok Hp.
  destruct (mu s) eqn:Hmu. apply holder_P; auto.
  apply Pstep.
  destruct Hp as [-> | [b ->]]; destruct o; try discriminate;
    (eapply client_can_step; [exact Hn | simpl; rewrite Hmu; reflexivity]).
Qed.

Lemma blocked_P : forall i o p, nth_error (thr s) i = Some (o, p) -> (forall r, p <> PRet r) -> P.
Proof.
  intros i o p Hn Hp. destruct HO as (O1 & _).
  pose proof (okpc_at _ _ _ HK Hn) as Hok.
  destruct (may_block p) eqn:Hmb; [|apply Pstep; eapply free_step; eauto].
  destruct p as [|k| | |b|b|b|b|b|r]; try discriminate; try destruct k; try discriminate.
  - (* autoStartOnce.Do *)
    destruct (once s) eqn:Eo.
    + apply Pstep. destruct o; try discriminate. eapply client_can_step; [exact Hn | simpl; rewrite Eo; reflexivity].
    + destruct (cnt_ex in_once (thr s)) as (j & [o' p'] & Hj & Hin). lia.
      pose proof (okpc_at _ _ _ HK Hj) as Hok'.
      unfold in_once in Hin; simpl in Hin.
      destruct p' as [|k| | |b|b|b|b|b|r]; try discriminate; destruct k; try discriminate;
        try solve [apply Pstep; eapply free_step; eauto].
      eapply lock_P; eauto.
    + apply Pstep. destruct o; try discriminate. eapply client_can_step; [exact Hn | simpl; rewrite Eo; reflexivity].
  - eapply lock_P; eauto.
  - eapply Psend; eauto.
  - eapply lock_P; eauto.
  - eapply Pwait; eauto.
  - exfalso. eapply Hp; reflexivity.
Qed.
End Blocked.

Lemma no_sender_none : forall s j o, InvS s -> InvK s -> wp s = WNone -> nth_error (thr s) j = Some (o, PE ESend) -> False.
Proof.
  intros s j o (S1 & S2) HK Hw Hn. unfold spawned in S1. rewrite Hw in S1. destruct (S1 eq_refl) as [_ Hd].
  specialize (S2 Hd). pose proof (okpc_at _ _ _ HK Hn) as Hok. destruct o; try discriminate.
  pose proof (cnt_ge1 postonce _ _ _ Hn eq_refl). lia.
Qed.

Lemma no_sender_fin : forall s j o, InvB s -> wp s = WFin -> nth_error (thr s) j = Some (o, PE ESend) -> False.
Proof.
  intros s j o (_ & _ & _ & B5 & _) Hw Hn. rewrite Hw in B5. destruct B5 as [_ Hc].
  pose proof (cnt_ge1 inF _ _ _ Hn eq_refl). lia.
Qed.

(* no writer (not yet created, or terminated): Wait is open, nobody is at a send, so every unfinished call can move
   or waits for the mutex / the Once whose holder can move *)
Lemma dead_progress : forall c s i o p, InvO s -> InvB s -> InvK s -> wg s = 0 ->
  (forall j o', nth_error (thr s) j = Some (o', PE ESend) -> False) ->
  nth_error (thr s) i = Some (o, p) -> (forall r, p <> PRet r) -> can_client c s.
Proof.
  intros c s i o p HO HB HK Hwg Hns Hn Hp.
  eapply blocked_P; eauto.
  - intros j o' b Hj. eapply wait_step; eauto. eapply okpc_at; eauto.
  - intros j o' Hj. exfalso; eauto.
Qed.

(* PROGRESS: in every reachable state of the repaired code in which some call has not returned, some thread has an enabled step. *)
Theorem progress : forall c ops s i o p, fixedc c -> reach c ops s ->
  nth_error (thr s) i = Some (o, p) -> (forall r, p <> PRet r) -> can_step c s.
Proof.
  intros c ops s i o p Hf Hr Hn Hp.
  destruct (reach_all _ _ _ Hf Hr) as (HO & HA & _ & HB & HS).
  pose proof (reach_invK _ _ _ Hr) as HK.
  assert (Hdead : wp s = WNone \/ wp s = WFin \/ (wp s <> WNone /\ wp s <> WFin)).
  { destruct (wp s); auto; right; right; split; discriminate. }
  destruct Hdead as [Hw | [Hw | [Hw1 Hw2]]].
  3: { destruct (writer_enabled c s HA Hw1 Hw2) as (ch & s' & Hch & H). exists 0, ch, s'. split; [lia | auto]. }
  all: assert (Hwg : wg s = 0) by (destruct HB as (_ & B2 & _); rewrite Hw in B2; exact B2).
  - apply can_client_step. eapply dead_progress; eauto. intros; eapply no_sender_none; eauto.
  - apply can_client_step. eapply dead_progress; eauto. intros; eapply no_sender_fin; eauto.
Qed.

(* NO STUCK STATE with an unfinished call. *)
Theorem no_block : forall c ops s, fixedc c -> reach c ops s -> stuckb c s = true ->
  forall i o p, nth_error (thr s) i = Some (o, p) -> exists r, p = PRet r.
Proof.
  intros c ops s Hf Hr Hst i o p Hn.
  destruct p as [|k| | |b|b|b|b|b|r]; eauto; exfalso;
    (destruct (progress c ops s i o _ Hf Hr Hn) as (t & ch & s' & Ht & Hch & H); [intros; discriminate|];
     rewrite (enabled_not_stuck _ _ _ _ _ Ht Hch H) in Hst; discriminate).
Qed.

(* ---------- an Enqueue that returns while no Stop call has been invoked is accepted ---------- *)
Definition stopact (x : op * pc) : bool :=      (* a Stop call that has been invoked *)
  match x with (OStop, PIdle) => false | (OStop, _) => true | _ => false end.
Definition rejd (x : op * pc) : bool :=
  match snd x with PE (EDec RRej) | PRet RRej => true | _ => false end.

Definition InvN (s : state) : Prop :=
  cnt stopact (thr s) = 0 -> (spawned s = true -> running s = true) /\ cnt rejd (thr s) = 0.

Lemma invN_init : forall ops, InvN (init ops).
Proof.
  intros ops _. split. discriminate. simpl. apply cnt_init. reflexivity.
Qed.

Lemma invN_step : forall c s t ch s', wg_in_go c = false -> inc_late c = false ->
  InvO s -> InvS s -> InvN s -> step c s t ch = Some s' -> InvN s'.
Proof.
  intros c s t ch s' Hwg Hil HO (S1 & S2) HN H. unfold InvN, spawned in *.
  stepcases_fixed H Hwg Hil; simpl in *;
    try match goal with Hn : nth_error (thr s) _ = Some (_, PE EOnceBody) |- _ =>
      pose proof (once_body_wnone _ _ _ HO Hn) end;
    try match goal with Hn : nth_error (thr s) _ = Some _ |- _ =>
      ge1 stopact Hn; ge1 rejd Hn; ge1 postonce Hn; cnt_facts Hn end;
    repeat match goal with E : wp s = _ |- _ => rewrite E in *; clear E end;
    repeat match goal with E : running s = _ |- _ => rewrite E in *; clear E end;
    simpl in *;
    try solve [intros Hz; destruct HN as [N1 N2]; [lia|]; split; [auto | lia]];
    try solve [intros Hz; lia].
  - intros Hz. exfalso. destruct HN as [N1 _]; [lia|].
    destruct (wp s); try (specialize (N1 eq_refl); discriminate).
    destruct (S1 eq_refl) as [_ Hd]. specialize (S2 Hd). lia.
  - intros Hz. destruct HN as [N1 N2]; [lia|]. split; auto. destruct r; simpl in *; lia.
Qed.

Lemma reach_invN : forall c ops s, fixedc c -> reach c ops s -> InvN s.
Proof.
  intros c ops s Hf Hr.
  enough (InvO s /\ InvB s /\ InvS s /\ InvN s) by tauto.
  destruct Hf as [Hwg Hil]. revert s Hr. apply reach_inv.
  - split; [apply invO_init | split; [apply invB_init | split; [apply invS_init | apply invN_init]]].
  - intros s t ch s' (HO & HB & HS & HN) H.
    split. eapply invO_step; eauto. split. eapply invB_step; eauto. split. eapply invS_step; eauto.
    eapply invN_step; eauto.
Qed.

Lemma cnt_all0 : forall f l, (forall i x, nth_error l i = Some x -> f x = false) -> cnt f l = 0.
Proof.
  induction l as [|z r IH]; intros H; simpl; auto.
  rewrite (H 0 z eq_refl). rewrite IH; auto. intros i x Hx. apply (H (S i)). exact Hx.
Qed.

Theorem enq_accepted_before_stop : forall c ops s t o v r, fixedc c -> reach c ops s ->
  (forall j p, nth_error (thr s) j = Some (OStop, p) -> p = PIdle) ->
  nth_error (thr s) t = Some (OEnq o v, PRet r) -> r = RAcc \/ r = RDup.
Proof.
  intros c ops s t o v r Hf Hr Hst Hn.
  pose proof (okpc_at _ _ _ (reach_invK _ _ _ Hr) Hn) as Hok.
  destruct (reach_invN _ _ _ Hf Hr) as [_ N2].
  { apply cnt_all0. intros j [o' p] Hj. destruct o'; try reflexivity.
    rewrite (Hst _ _ Hj). reflexivity. }
  pose proof (cnt_0 rejd _ _ _ N2 Hn) as Hrj.
  destruct r; try discriminate; auto.
Qed.
