(* C08 - the explicit order of events for an accepted call: invocation, then a BatchWrite of the object, then the commit
   of a batch that contains this mutation, then BatchWriteDone of the object. *)
From Coq Require Import List Bool Arith ZArith Lia.
From Verif.C08_Batch Require Import Model Base Safety Life Complete Value.
Import ListNotations.

(* every invoked Enqueue has its invocation event in the log *)
Definition InvI (s : state) : Prop := forall t o v p,
  nth_error (thr s) t = Some (OEnq o v, p) -> p <> PIdle -> In (EvSet t o v) (log s).

Lemma invI_init : forall ops, InvI (init ops).
Proof.
  intros ops t o v p H Hp. simpl in H. rewrite nth_error_map in H.
  destruct (nth_error ops t); simpl in H; [|discriminate]. injection H as _ <-. congruence.
Qed.

Lemma log_grows : forall c s t ch s', step c s t ch = Some s' -> log s' = log s \/ exists e, log s' = e :: log s.
Proof. intros c s t ch s' H. stepcases H; simpl; eauto. Qed.

Lemma invI_step : forall c s t ch s', InvI s -> step c s t ch = Some s' -> InvI s'.
Proof.
  intros c s t ch s' HI H xt xo xv xp Hx Hp.
  assert (Hin : forall e, In e (log s) -> In e (log s')).
  { intros e He. destruct (log_grows _ _ _ _ _ H) as [-> | [e' ->]]; simpl; auto. }
  destruct (step_thr _ _ _ _ _ H) as [[_ E] | (i & o & p & p' & -> & Hn & E & Hp' & _)]; rewrite E in Hx.
  - apply Hin. eapply HI; eauto.
  - destruct (Nat.eq_dec i xt) as [->|Hne].
    + erewrite nth_set_nth_eq in Hx by eauto. injection Hx as -> <-.
      destruct p; [|apply Hin; eapply HI; eauto; discriminate ..].
      (* the invocation step itself *)
      clear - H Hn. simpl in H. rewrite Hn in H. simpl in H. unfold goto in H. injection H as <-. simpl. auto.
    + rewrite nth_set_nth_neq in Hx by auto. apply Hin. eapply HI; eauto.
Qed.

Lemma reach_invI : forall c ops s, reach c ops s -> InvI s.
Proof. intros c ops. apply reach_inv. apply invI_init. intros; eapply invI_step; eauto. Qed.

(* newest-first log: a write of o found before t's invocation splits the log *)
Lemma wsince_split : forall l t o v, wsince l t o = true -> In (EvSet t o v) l ->
  exists l2 v' l1, l = l2 ++ EvWrite o v' :: l1 /\ In (EvSet t o v) l1.
Proof.
  induction l as [|e r IH]; intros t o v Hw Hin; simpl in *. discriminate.
  destruct e as [t' o' v'| | | |o'|o' v'| | |];
    try solve [destruct Hin as [Hin|Hin]; [discriminate|];
               destruct (IH _ _ _ Hw Hin) as (l2 & v'' & l1 & -> & H1); eexists (_ :: l2), v'', l1; split; [reflexivity | exact H1]].
  - destruct (Nat.eqb_spec t' t) as [->|Hne]; [discriminate|].
    destruct Hin as [Hin|Hin]; [congruence|].
    destruct (IH _ _ _ Hw Hin) as (l2 & v'' & l1 & -> & H1). eexists (_ :: l2), v'', l1; split; [reflexivity | exact H1].
  - destruct Hin as [Hin|Hin]; [discriminate|].
    destruct (Nat.eqb_spec o' o) as [->|Hne].
    + exists [], v', r. split; auto.
    + destruct (IH _ _ _ Hw Hin) as (l2 & v'' & l1 & -> & H1). eexists (_ :: l2), v'', l1; split; [reflexivity | exact H1].
Qed.

(* ---------- the checker automaton: a pending mutation is committed, a due Done is called ---------- *)
Lemma ck_run_app2 : forall a b k, ck_run k (a ++ b) = match ck_run k a with Some k' => ck_run k' b | None => None end.
Proof. induction a as [|e a IH]; intros; simpl; auto. destruct (ck_step k e); auto. Qed.

Lemma pairs_eqb_eq : forall a b, pairs_eqb a b = true -> a = b.
Proof.
  induction a as [|[o v] a IH]; intros [|[o' v'] b] H; simpl in *; try discriminate; auto.
  apply andb_prop in H as [H H3]. apply andb_prop in H as [H1 H2].
  apply Nat.eqb_eq in H1, H2. subst. f_equal. auto.
Qed.

Lemma unc_commit : forall l k k' x, ck_run k l = Some k' -> In x (k_unc k) ->
  In x (k_unc k') \/ exists l3 b l4, l = l3 ++ EvCommit b :: l4 /\ In x b.
Proof.
  induction l as [|e l IH]; intros k k' x H Hx; simpl in H.
  - injection H as <-. auto.
  - destruct (ck_step k e) as [k1|] eqn:Es; [|discriminate].
    assert (Hc : In x (k_unc k1) \/ exists b, e = EvCommit b /\ In x b).
    { unfold ck_step in Es. brk Es; try discriminate Es; injection Es as <-; simpl; auto.
      - destruct Hx.
      - left. apply in_or_app; auto.
      - right. eexists; split; [reflexivity|].
        match goal with Ep : pairs_eqb _ _ = true |- _ => apply pairs_eqb_eq in Ep; rewrite Ep end. exact Hx.
      - destruct Hx. }
    destruct Hc as [Hc | (b & -> & Hb)].
    + destruct (IH _ _ _ H Hc) as [A | (l3 & b & l4 & -> & A)]; auto.
      right. exists (e :: l3), b, l4. auto.
    + right. exists [], b, l. auto.
Qed.

Lemma pend_done : forall l k k' o, ck_run k l = Some k' -> In o (k_pend k) ->
  In o (k_pend k') \/ exists l3 l4, l = l3 ++ EvDone o :: l4.
Proof.
  induction l as [|e l IH]; intros k k' o H Ho; simpl in H.
  - injection H as <-. auto.
  - destruct (ck_step k e) as [k1|] eqn:Es; [|discriminate].
    assert (Hc : In o (k_pend k1) \/ e = EvDone o).
    { unfold ck_step in Es. brk Es; try discriminate Es; injection Es as <-; simpl; auto;
        try solve [destruct Ho].
      destruct Ho as [Ho|Ho]; auto. subst. right. f_equal.
      match goal with E : Nat.eqb _ _ = true |- _ => apply Nat.eqb_eq in E; auto end. }
    destruct Hc as [Hc | ->].
    + destruct (IH _ _ _ H Hc) as [A | (l3 & l4 & ->)]; auto.
      right. exists (e :: l3), l4. auto.
    + right. exists [], l. auto.
Qed.

(* an accepted log that ends with no open batch and no Done due: every BatchWrite is followed by the commit of a batch
   containing the mutation and then by the BatchWriteDone of the object *)
Lemma write_commit_done : forall L1 L2 o v st, ck_run ck0 (L1 ++ EvWrite o v :: L2) = Some (mkck [] [] st) ->
  exists b L3 L4 L5, L2 = L3 ++ EvCommit b :: L4 ++ EvDone o :: L5 /\ In (o, v) b.
Proof.
  intros L1 L2 o v st H. rewrite ck_run_app2 in H.
  destruct (ck_run ck0 L1) as [ka|]; [|discriminate]. simpl in H.
  destruct (k_pend ka) eqn:Ep; [|discriminate].
  destruct (unc_commit _ _ _ (o, v) H) as [A | (L3 & b & L4' & -> & Hb)].
  { simpl. apply in_or_app; simpl; auto. }
  { simpl in A. destruct A. }
  rewrite ck_run_app2 in H. destruct (ck_run _ L3) as [kc|]; [|discriminate]. simpl in H.
  destruct (k_pend kc); [|discriminate]. destruct b as [|p0 b0]; [discriminate|].
  destruct (pairs_eqb (p0 :: b0) (k_unc kc)); [|discriminate].
  destruct (pend_done _ _ _ o H) as [A | (L4 & L5 & ->)].
  { cbn [k_pend]. apply in_map_iff. exists (o, v). auto. }
  { simpl in A. destruct A. }
  exists (p0 :: b0), L3, L4, L5. auto.
Qed.

(* COMPLETENESS with the explicit order of events. *)
Theorem complete_ordered : forall c ops sch1 sch2 t ts o v r r', fixedc c ->
  let s1 := run c sch1 (init ops) in
  let s2 := run c sch2 s1 in
  nth_error (thr s1) t = Some (OEnq o v, PRet r) -> (r = RAcc \/ r = RDup) ->
  nth_error (thr s1) ts = Some (OStop, PIdle) ->
  nth_error (thr s2) ts = Some (OStop, PRet r') ->
  exists L1 v' L2 b L3 L4,
    rev (log s2) = L1 ++ EvWrite o v' :: L2 ++ EvCommit b :: L3 ++ EvDone o :: L4 /\
    In (EvSet t o v) L1 /\ In (o, v') b.
Proof.
  intros c ops sch1 sch2 t ts o v r r' Hf s1 s2 Ht Hr Hidle Hret.
  pose proof (complete_written c ops sch1 sch2 t ts o v r r' Hf Ht Hr Hidle Hret) as Hw. fold s1 in Hw. fold s2 in Hw.
  assert (R1 : reach c ops s1) by (exists sch1; reflexivity).
  assert (R2 : reach c ops s2) by (exists (sch1 ++ sch2); unfold s2, s1; rewrite run_app; reflexivity).
  pose proof (enq_returned_spawned _ _ _ _ _ _ _ Hf R1 Ht) as Hsp.
  destruct (stop_complete c ops sch1 sch2 ts r' Hf Hsp Hidle Hret) as (_ & _ & _ & _ & Hb & Hd & _).
  fold s1 in Hb, Hd. fold s2 in Hb, Hd.
  pose proof (ret_stable c sch2 s1 _ _ _ Ht) as Ht2. fold s2 in Ht2.
  assert (Hin : In (EvSet t o v) (log s2)) by (eapply (reach_invI _ _ _ R2); eauto; discriminate).
  destruct (wsince_split _ _ _ _ Hw Hin) as (l2 & v' & l1 & El & Hin1).
  destruct (safety c ops (sch1 ++ sch2)) as (Hk & _). rewrite run_app in Hk. fold s1 in Hk. fold s2 in Hk.
  rewrite Hb, Hd, El in Hk. rewrite rev_app_distr in Hk. simpl in Hk. rewrite <- app_assoc in Hk. simpl in Hk.
  destruct (write_commit_done _ _ _ _ _ Hk) as (b & L3 & L4 & L5 & E2 & Hinb).
  exists (rev l1), v', L3, b, L4, L5. split; [|split; auto].
  - rewrite El, rev_app_distr. simpl. rewrite <- app_assoc. simpl. rewrite E2. reflexivity.
  - apply in_rev in Hin1. exact Hin1.
Qed.
