(* C08 - safety under store faults (FaultModel.fstep), every variant, every configuration, every fault script. *)
From Coq Require Import List Bool Arith ZArith Lia.
From Verif.C08_Batch Require Import Model Base Safety FaultModel Witness.
Import ListNotations.

(* ---------- a fault is terminal ---------- *)
Lemma frun_dead : forall c fsch fs, f_crash fs <> None -> frun c fsch fs = fs.
Proof.
  induction fsch as [|[t fc] r IH]; intros fs H; simpl; auto.
  unfold fstep. destruct (f_crash fs) eqn:E; [|congruence]. apply IH. rewrite E. discriminate.
Qed.

(* where a fault can strike *)
Definition crash_site (s : state) (cr : option crash) : Prop :=
  match cr with
  | None => True
  | Some (CrCommit b) => b = batch s /\ b <> [] /\ exists k, wp s = WCommit k
  | Some CrBatched => exists m, wp s = WBatched m
  end.

(* a run with faults = a fault-free run, followed by at most one fault, followed by nothing *)
Lemma frun_shape : forall c fsch fs, f_crash fs = None ->
  exists sch, f_st (frun c fsch fs) = run c sch (f_st fs) /\
              crash_site (f_st (frun c fsch fs)) (f_crash (frun c fsch fs)).
Proof.
  induction fsch as [|[t fc] r IH]; intros fs H; simpl.
  - exists []. rewrite H. simpl. auto.
  - destruct (fstep c fs t fc) as [fs'|] eqn:E; [|apply IH; auto].
    unfold fstep in E. rewrite H in E. destruct fc as [ch| |].
    + destruct (step c (f_st fs) t ch) as [s'|] eqn:Es; [|discriminate]. injection E as <-.
      destruct (IH (mkf s' None) eq_refl) as (sch & E1 & E2). exists ((t, ch) :: sch). simpl. rewrite Es. auto.
    + destruct t; [|discriminate]. destruct (wp (f_st fs)) eqn:Ew; try discriminate.
      destruct (batch (f_st fs)) eqn:Eb; [discriminate|]. injection E as <-.
      rewrite frun_dead by (simpl; discriminate). exists []. simpl. rewrite Ew, Eb. repeat split; eauto. discriminate.
    + destruct t; [|discriminate]. destruct (wp (f_st fs)) eqn:Ew; try discriminate. injection E as <-.
      rewrite frun_dead by (simpl; discriminate). exists []. simpl. rewrite Ew. eauto.
Qed.

(* ---------- the automaton with faults ---------- *)
Lemma fck_run_app : forall a b k, fck_run k (a ++ b) = match fck_run k a with Some k' => fck_run k' b | None => None end.
Proof. induction a as [|e a IH]; intros; simpl; auto. destruct (fck_step k e); auto. Qed.

Lemma fck_run_FE : forall l k, fck_run (mkfck k 0) (map FE l) = match ck_run k l with Some k' => Some (mkfck k' 0) | None => None end.
Proof.
  induction l as [|e l IH]; intros; simpl; auto.
  unfold fck_step at 1. simpl. destruct (ck_step k e); simpl; auto.
Qed.

Definition phase_of (cr : option crash) : nat := match cr with None => 0 | Some _ => 2 end.

(* in an accepted log every BatchWriteDone(o) is preceded by a (successful) commit of a batch containing o *)
Lemma done_has_commit : forall L1 k k' o L2, ck_run k (L1 ++ EvDone o :: L2) = Some k' ->
  In o (k_pend k) \/ exists L0 b L0', L1 = L0 ++ EvCommit b :: L0' /\ In o (map fst b).
Proof.
  induction L1 as [|e L1 IH]; intros k k' o L2 H; simpl in H.
  - left. destruct (k_pend k) as [|o' r]; [discriminate|]. destruct (Nat.eqb_spec o o'); [|discriminate]. subst. simpl. auto.
  - destruct (ck_step k e) as [k1|] eqn:Es; [|discriminate].
    destruct (IH _ _ _ _ H) as [A | (L0 & b & L0' & -> & Hb)].
    + unfold ck_step in Es. brk Es; try discriminate Es; injection Es as <-; simpl in A; auto; try solve [destruct A];
        try solve [match goal with E : k_pend k = [] |- _ => rewrite E in A; destruct A end].
      * right. eexists [], _, L1. split; [reflexivity | exact A].
      * left. simpl. auto.
    + right. exists (e :: L0), b, L0'. split; auto.
Qed.

(* ---------- safety under faults ---------- *)
Theorem safety_faults : forall c ops fsch, let fs := frun c fsch (finit ops) in
  let s := f_st fs in
  let l := rev (log s) in
  (* the state in which the fault strikes (or the final state) is reachable without faults *)
  reach c ops s /\
  (* the whole log, fault and panic included, obeys the writer protocol with faults *)
  fck_run fck0 (flog fs) = Some (mkfck (mkck (batch s) (dq s) (store s)) (phase_of (f_crash fs))) /\
  (* the store holds the successfully committed mutations only *)
  (forall o, store s o = last_w (committed l) o) /\
  writes l = committed l ++ batch s /\
  dones l ++ dq s = map fst (committed l) /\
  (* every BatchWriteDone(o) follows a successful commit of a batch containing o *)
  (forall L1 o L2, l = L1 ++ EvDone o :: L2 -> exists L0 b L0', L1 = L0 ++ EvCommit b :: L0' /\ In o (map fst b)) /\
  (* at a fault: the refused batch is the open batch, none of its objects is due a BatchWriteDone, and every
     BatchWriteDone so far belongs to a successful commit *)
  match f_crash fs with
  | None => True
  | Some (CrCommit b) => b = batch s /\ b <> [] /\ dq s = [] /\ dones l = map fst (committed l) /\
                         writes l = committed l ++ b
  | Some CrBatched => batch s = [] /\ dq s = [] /\ writes l = committed l /\ dones l = map fst (committed l)
  end /\
  (* and nothing ever happens afterwards *)
  (f_crash fs <> None -> forall fsch', frun c fsch' fs = fs).
Proof.
  intros c ops fsch fs s l.
  destruct (frun_shape c fsch (finit ops) eq_refl) as (sch & Es & Hsite). fold fs in Es, Hsite. fold s in Es, Hsite.
  simpl in Es.
  assert (Hr : reach c ops s) by (exists sch; exact Es).
  destruct (reach_invAE c ops s Hr) as (HO & [Hk Hw] & (E1 & E2 & E3)). fold l in Hk, E1, E2, E3.
  assert (Hst : forall o, store s o = last_w (committed l) o).
  { intro o. rewrite E2, apply_batch_last_w. destruct (last_w _ o); reflexivity. }
  split; [exact Hr|].
  split.
  { unfold flog. fold s. fold l. rewrite fck_run_app. unfold fck0. rewrite fck_run_FE, Hk.
    unfold crash_site in Hsite. destruct (f_crash fs) as [[b|]|]; simpl.
    - destruct Hsite as (-> & Hne & k & Ew). unfold wloc in Hw. rewrite Ew in Hw. rewrite Hw.
      unfold fck_step at 1. simpl. destruct (batch s) eqn:Eb; [congruence|]. rewrite pairs_eqb_refl. reflexivity.
    - destruct Hsite as (m & Ew). unfold wloc in Hw. rewrite Ew in Hw. destruct Hw as [-> ->]. reflexivity.
    - reflexivity. }
  split; [exact Hst|]. split; [exact E1|]. split; [exact E3|].
  split.
  { intros L1 o L2 HL. rewrite HL in Hk. destruct (done_has_commit _ _ _ _ _ Hk) as [A|A]; [destruct A | exact A]. }
  split.
  { unfold crash_site in Hsite. destruct (f_crash fs) as [[b|]|]; auto.
    - destruct Hsite as (-> & Hne & k & Ew). unfold wloc in Hw. rewrite Ew in Hw.
      rewrite Hw, app_nil_r in E3. repeat split; auto.
    - destruct Hsite as (m & Ew). unfold wloc in Hw. rewrite Ew in Hw. destruct Hw as [Hb Hd].
      rewrite Hb, app_nil_r in E1. rewrite Hd, app_nil_r in E3. repeat split; auto. }
  intros Hc fsch'. apply frun_dead. exact Hc.
Qed.

(* the objects of a refused batch: more BatchWrite than BatchWriteDone calls (the last collection is never Done) *)
Definition count_o (o : obj) (l : list obj) : nat := length (filter (Nat.eqb o) l).

Lemma count_o_app : forall o a b, count_o o (a ++ b) = count_o o a + count_o o b.
Proof. intros. unfold count_o. rewrite filter_app, app_length. reflexivity. Qed.

Lemma count_o_in : forall o l, In o l -> 1 <= count_o o l.
Proof.
  induction l as [|x l IH]; intros H; simpl in *. destruct H.
  unfold count_o in *. simpl. destruct (Nat.eqb_spec o x); simpl. lia.
  destruct H as [H|H]; [congruence|]. auto.
Qed.

Theorem refused_not_done : forall c ops fsch b o, let fs := frun c fsch (finit ops) in
  let l := rev (log (f_st fs)) in
  f_crash fs = Some (CrCommit b) -> In o (map fst b) ->
  count_o o (dones l) < count_o o (map fst (writes l)).
Proof.
  intros c ops fsch b o fs l Hc Ho.
  destruct (safety_faults c ops fsch) as (_ & _ & _ & _ & _ & _ & H & _). fold fs in H. fold l in H.
  rewrite Hc in H. destruct H as (_ & _ & _ & Hd & Hw).
  rewrite Hd, Hw, map_app, count_o_app. pose proof (count_o_in _ _ Ho). lia.
Qed.

(* ---------- the batch timer ----------
   The model's writer can always take the time-out branch of its collect select (CTimeout is enabled in every state with
   wp = WSelect MCollect), and when nothing is queued and no flush is requested this is the ONLY step the writer
   goroutine itself can take: an idle writer gets back to its loop condition (and so lets StopBatchWriter return) only
   through the timer.  The implementation realises this for every batchTimeout value because time.NewTimer(d) with
   d <= 0 fires at once. *)
Lemma timeout_always_enabled : forall c s, wp s = WSelect MCollect ->
  writer_step c s CTimeout = Some (set_wp s (WCommit KHead)).
Proof. intros c s H. unfold writer_step. rewrite H. reflexivity. Qed.

Lemma idle_writer_only_timeout : forall c s ch s', wp s = WSelect MCollect -> queue s = [] -> token s = false ->
  writer_step c s ch = Some s' -> ch = CTimeout /\ s' = set_wp s (WCommit KHead).
Proof.
  intros c s ch s' Hw Hq Ht H. unfold writer_step in H. rewrite Hw, Hq, Ht in H.
  destruct ch; try discriminate. injection H as <-. auto.
Qed.

(* ---------- a concrete run with a fault (non-vacuity) ----------
   queue 2, batch 1: Enqueue(0), Enqueue(1) return; the writer commits {0} (BatchWriteDone(0)), collects 1, and the
   store refuses the second commit; the Stop call (and everything else) scheduled afterwards never runs. *)
Definition frep (n t : nat) (ch : choice) : list (nat * fchoice) := repeat (t, FOk ch) n.
Definition fsch_fault : list (nat * fchoice) :=
  frep 10 1 CStep ++ frep 10 2 CStep ++ [(0, FFailCommit)] (* not enabled yet: skipped *) ++ frep 14 0 CRecv ++
  [(0, FFailCommit)] ++ frep 6 3 CStep ++ frep 5 0 CTimeout.
Definition fs_fault : fstate := frun (fixed 2 1) fsch_fault (finit ops_d08b).

Lemma fault_witness :
  f_crash fs_fault = Some (CrCommit [(1, 2)]) /\ store (f_st fs_fault) 0 = Some 1 /\ store (f_st fs_fault) 1 = None /\
  flog fs_fault = [FE (EvSet 0 0 1); FE (EvRet 0 RAcc); FE (EvSet 1 1 2); FE (EvRet 1 RAcc); FE EvBatched; FE (EvReset 0);
                   FE (EvWrite 0 1); FE (EvCommit [(0, 1)]); FE (EvDone 0); FE EvBatched; FE (EvReset 1); FE (EvWrite 1 2);
                   FCommitFail [(1, 2)]; FPanic] /\
  thr (f_st fs_fault) = [(OEnq 0 1, PRet RAcc); (OEnq 1 2, PRet RAcc); (OStop, PIdle)].
Proof. vm_compute. repeat split; reflexivity. Qed.
