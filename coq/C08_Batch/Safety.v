(* C08 - safety invariants, for every variant of the model and every schedule. *)
From Coq Require Import List Bool Arith ZArith Lia.
From Verif.C08_Batch Require Import Model Base.
Import ListNotations.

(* ---------- the checker automaton ---------- *)
Lemma ck_run_app : forall l k e,
  ck_run k (l ++ [e]) = match ck_run k l with Some k' => ck_step k' e | None => None end.
Proof.
  induction l; intros; simpl.
  - destruct (ck_step k e); reflexivity.
  - destruct (ck_step k a); auto.
Qed.

Lemma pairs_eqb_refl : forall b, pairs_eqb b b = true.
Proof. induction b as [|[o v] r IH]; simpl; auto. rewrite !Nat.eqb_refl, IH. reflexivity. Qed.

Definition wloc (s : state) : Prop :=
  match wp s with
  | WNone | WStart | WHead | WHead2 | WBatched _ | WExit | WFin => batch s = [] /\ dq s = []
  | WSelect _ | WAdd1 _ | WAdd2 _ | WAdd3 _ | WCommit _ => dq s = []
  | WDone _ => batch s = [] /\ dq s <> []
  end.

Definition InvA (s : state) : Prop :=
  ck_run ck0 (rev (log s)) = Some (mkck (batch s) (dq s) (store s)) /\ wloc s.

Lemma invA_init : forall ops, InvA (init ops).
Proof. intros. split; simpl; auto. unfold wloc; simpl; auto. Qed.

Lemma invA_step : forall c s t ch s', InvO s -> InvA s -> step c s t ch = Some s' -> InvA s'.
Proof.
  intros c s t ch s' HO [Hk Hw] H. unfold InvA, wloc in *.
  stepcases H; simpl in *; rewrite ?ck_run_app, ?Hk; simpl;
    try match goal with Hn : nth_error (thr s) _ = Some (_, PE EOnceBody) |- _ =>
      pose proof (once_body_wnone _ _ _ HO Hn) end;
    repeat match goal with E : wp s = _ |- _ => rewrite E in *; clear E end; simpl in *;
    try solve [split; [reflexivity | assumption]].
  all: try solve [destruct Hw as [Hb Hd]; rewrite ?Hb, ?Hd in *; simpl; repeat split; auto; discriminate].
  all: try solve [rewrite ?Hw in *; simpl; repeat split; auto; discriminate].
  all: try solve [rewrite ?Hw, ?Heql in *; simpl; repeat split; auto; discriminate].
  all: try solve [rewrite ?Hw in *; destruct p; simpl; rewrite !Nat.eqb_refl, pairs_eqb_refl; simpl; repeat split; auto; discriminate].
  all: try solve [destruct Hw as [Hb Hd]; rewrite ?Nat.eqb_refl, ?Hb in *; simpl; repeat split; auto; discriminate].
Qed.

Lemma reach_invA : forall c ops s, reach c ops s -> InvA s.
Proof.
  intros c ops s Hr.
  enough (InvO s /\ InvA s) by tauto.
  revert s Hr. apply reach_inv.
  - split. apply invO_init. apply invA_init.
  - intros s t ch s' [HO HA] H. split. eapply invO_step; eauto. eapply invA_step; eauto.
Qed.

(* ---------- the store is what the commits say; the commits are the writes ---------- *)
Lemma last_w_app : forall l o v o', last_w (l ++ [(o, v)]) o' = if Nat.eqb o o' then Some v else last_w l o'.
Proof.
  induction l as [|[a b] r IH]; intros; simpl.
  - destruct (Nat.eqb o o'); reflexivity.
  - rewrite IH. destruct (Nat.eqb o o'); auto.
Qed.

Lemma apply_batch_last_w : forall b st o,
  apply_batch b st o = match last_w b o with Some v => Some v | None => st o end.
Proof.
  induction b as [|[a v] r IH]; intros; simpl; auto.
  rewrite IH. destruct (last_w r o); auto. unfold upd. rewrite Nat.eqb_sym. destruct (Nat.eqb a o); auto.
Qed.

Lemma apply_batch_app : forall a b st, apply_batch (a ++ b) st = apply_batch b (apply_batch a st).
Proof. induction a as [|[o v] r IH]; intros; simpl; auto. Qed.

Lemma flat_map_snoc : forall {A B} (f : A -> list B) l x, flat_map f (l ++ [x]) = flat_map f l ++ f x.
Proof. intros. rewrite flat_map_app. simpl. rewrite app_nil_r. reflexivity. Qed.

Definition InvE (s : state) : Prop :=
  writes (rev (log s)) = committed (rev (log s)) ++ batch s /\
  store s = apply_batch (committed (rev (log s))) (fun _ => None) /\
  dones (rev (log s)) ++ dq s = map fst (committed (rev (log s))).

Lemma invE_init : forall ops, InvE (init ops).
Proof. intros. repeat split. Qed.

Lemma writes_snoc : forall l e, writes (l ++ [e]) = writes l ++ match e with EvWrite o v => [(o, v)] | _ => [] end.
Proof. intros. unfold writes. apply flat_map_snoc. Qed.
Lemma committed_snoc : forall l e, committed (l ++ [e]) = committed l ++ match e with EvCommit b => b | _ => [] end.
Proof. intros. unfold committed. apply flat_map_snoc. Qed.
Lemma dones_snoc : forall l e, dones (l ++ [e]) = dones l ++ match e with EvDone o => [o] | _ => [] end.
Proof. intros. unfold dones. apply flat_map_snoc. Qed.

Lemma invE_step : forall c s t ch s', InvO s -> InvA s -> InvE s -> step c s t ch = Some s' -> InvE s'.
Proof.
  intros c s t ch s' HO [_ HW] (H1 & H2 & H4) H. unfold InvE, wloc in *.
  stepcases H; simpl in *; rewrite ?writes_snoc, ?committed_snoc, ?dones_snoc; simpl; rewrite ?app_nil_r;
    try match goal with Hn : nth_error (thr s) _ = Some (_, PE EOnceBody) |- _ =>
      pose proof (once_body_wnone _ _ _ HO Hn) end;
    repeat match goal with E : wp s = _ |- _ => rewrite E in *; clear E end; simpl in *;
    try solve [repeat split; auto].
  all: try solve [repeat split; auto; rewrite ?H1, ?app_assoc; auto].
  all: try solve [destruct HW as [Hb Hd]; rewrite ?Hb, ?Hd, ?app_nil_r in *; repeat split; auto].
  all: try solve [rewrite ?HW, ?Heql, ?Heql0, ?app_nil_r in *; repeat split; auto;
                  rewrite ?apply_batch_app, ?map_app, <- ?H2, <- ?H4, <- ?app_assoc; simpl; auto].
Qed.

Lemma reach_invAE : forall c ops s, reach c ops s -> InvO s /\ InvA s /\ InvE s.
Proof.
  intros c ops. apply reach_inv.
  - split. apply invO_init. split. apply invA_init. apply invE_init.
  - intros s t ch s' (HO & HA & HE) H. split. eapply invO_step; eauto. split. eapply invA_step; eauto. eapply invE_step; eauto.
Qed.

(* Safety, every variant, every schedule. *)
Theorem safety : forall c ops sch, let s := run c sch (init ops) in
  let l := rev (log s) in
  (* the callback log obeys the writer protocol, ending in the model's open batch / due Done calls / store *)
  ck_run ck0 l = Some (mkck (batch s) (dq s) (store s)) /\
  log_safe l = true /\
  (* committed contents = last committed BatchWrite of each object *)
  (forall o, store s o = last_w (committed l) o) /\
  (* every BatchWrite is committed or in the one open batch; Done calls follow the commits in order *)
  writes l = committed l ++ batch s /\
  dones l ++ dq s = map fst (committed l).
Proof.
  intros c ops sch s l.
  destruct (reach_invAE c ops s) as (HO & [Hk Hw] & (E1 & E2 & E3)). exists sch; reflexivity.
  repeat split; auto.
  - unfold log_safe. fold l in Hk. subst l. rewrite Hk. reflexivity.
  - intro o. subst l. rewrite E2, apply_batch_last_w. destruct (last_w _ o); reflexivity.
Qed.
