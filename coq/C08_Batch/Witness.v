(* C08 - concrete schedules on the pinned variants of the model (defects D08a, D08b) and regression
   examples on the fixed variant.  Everything here is a closed computation. *)
From Coq Require Import List Bool Arith ZArith.
From Verif.C08_Batch Require Import Model.
Import ListNotations.

Definition rep (n : nat) (t : nat) : list (nat * choice) := repeat (t, CStep) n.

(* ---- D08a: writeWg.Add(1) inside the writer goroutine ---- *)
Definition cfg_d08a : config := mkcfg 1 1 true false.
Definition ops_d08a : list op := [OEnq 0 7; OStop].
(* Enqueue runs to completion (the writer goroutine is created but has not executed a statement), then Stop *)
Definition sch_d08a : list (nat * choice) := rep 10 1 ++ rep 6 2.
Definition s_d08a : state := run cfg_d08a sch_d08a (init ops_d08a).

Lemma d08a_witness :
  pc_of s_d08a 0 = Some (PRet RAcc) /\ pc_of s_d08a 1 = Some (PRet (RStop true)) /\
  queue s_d08a = [0] /\ store s_d08a 0 = None /\ writes (rev (log s_d08a)) = [] /\ wp s_d08a = WStart.
Proof. vm_compute. repeat split; reflexivity. Qed.

(* the same schedule on the fixed code: Stop cannot pass Wait *)
Definition s_d08a_fixed : state := run (fixed 1 1) sch_d08a (init ops_d08a).
Lemma d08a_fixed_regression : pc_of s_d08a_fixed 1 = Some (PS4 true) /\ wg s_d08a_fixed = 1.
Proof. vm_compute. split; reflexivity. Qed.

(* ---- D08b: Enqueue raises scheduledCount after its running check ---- *)
Definition cfg_d08b (q : nat) : config := mkcfg q 1 false true.
Definition ops_d08b : list op := [OEnq 0 1; OEnq 1 2; OStop].
Definition sch_d08b : list (nat * choice) :=
  rep 9 1 ++ rep 2 0 ++          (* Enqueue(a) up to its send; the writer reaches its select *)
  [(1, CStep)] ++                 (* a is handed over / queued *)
  [(0, CRecv)] ++ rep 6 0 ++      (* the writer writes, commits and calls BatchWriteDone(a) *)
  rep 4 2 ++                      (* Enqueue(b): passes the running check and the flag test *)
  rep 4 3 ++                      (* Stop: lock, running := false *)
  rep 2 0 ++ [(0, CTimeout)] ++ rep 5 0 ++  (* the writer finishes its round, sees !running and scheduledCount = 0, exits *)
  rep 3 3 ++                      (* Stop returns *)
  rep 3 2.                        (* Enqueue(b) continues: increment, send *)

Definition s_d08b (q : nat) : state := run (cfg_d08b q) sch_d08b (init ops_d08b).

(* queue size 0: the call is blocked and nothing in the system can ever move again *)
Lemma d08b_witness_block :
  pc_of (s_d08b 0) 1 = Some (PE ESend) /\ pc_of (s_d08b 0) 2 = Some (PRet (RStop true)) /\
  wp (s_d08b 0) = WFin /\ stuckb (cfg_d08b 0) (s_d08b 0) = true.
Proof. vm_compute. repeat split; reflexivity. Qed.

(* queue size 1: the call returns "accepted", the object stays in the queue with its flag set, never written *)
Lemma d08b_witness_strand :
  pc_of (s_d08b 1) 1 = Some (PRet RAcc) /\ pc_of (s_d08b 1) 2 = Some (PRet (RStop true)) /\
  wp (s_d08b 1) = WFin /\ queue (s_d08b 1) = [1] /\ flag (s_d08b 1) 1 = true /\ store (s_d08b 1) 1 = None /\
  stuckb (cfg_d08b 1) (s_d08b 1) = true.
Proof. vm_compute. repeat split; reflexivity. Qed.

(* the corresponding race on the fixed code: b's counter increment keeps the writer alive *)
Definition sch_race_fixed : list (nat * choice) :=
  rep 10 1 ++ rep 2 0 ++ [(1, CStep)] ++ [(0, CRecv)] ++ rep 6 0 ++
  rep 5 2 ++                      (* Enqueue(b): increment, running check, flag test; now at its send *)
  rep 4 3 ++                      (* Stop: running := false, waits *)
  rep 2 0 ++ [(0, CTimeout)] ++ rep 5 0 ++   (* writer: round ends, !running but scheduledCount = 1: next round *)
  rep 3 3 ++ rep 3 2 ++           (* Stop still waits; b is sent *)
  [(0, CRecv)] ++ rep 12 0 ++ rep 3 3.
Definition s_race_fixed (q : nat) : state := run (fixed q 1) sch_race_fixed (init ops_d08b).
Lemma race_fixed_regression : forall q, q = 0 \/ q = 1 ->
  pc_of (s_race_fixed q) 1 = Some (PRet RAcc) /\ pc_of (s_race_fixed q) 2 = Some (PRet (RStop true)) /\
  wp (s_race_fixed q) = WFin /\ store (s_race_fixed q) 1 = Some 2 /\ dones (rev (log (s_race_fixed q))) = [0; 1].
Proof. intros q [-> | ->]; vm_compute; repeat split; reflexivity. Qed.
