(* C08 - the repaired code can always finish: from every reachable state there is a continuation of the schedule after
   which every call has returned (no call is ever in a position from which it cannot return).  This is the
   possibility form of "no Enqueue or Stop call blocks forever"; it is strictly stronger than the absence of stuck
   states (the writer's time-out branch is always enabled while it lives, so a live writer alone rules out a stuck
   state, but not a call that is parked for ever).
   Proof: the sum of the remaining client steps decreases with every client step; as long as a call is unfinished the
   writer can be driven (receive when the queue is not empty, else time-out / default) to a state where some client
   step is enabled: to its select when a call is parked at its send, to its exit when a Stop call is parked at Wait. *)
From Coq Require Import List Bool Arith ZArith Lia.
From Verif.C08_Batch Require Import Model Base Safety Life Complete Value Progress Witness.
Import ListNotations.

(* ---------- more invariants ---------- *)
Definition InvQ (c : config) (s : state) : Prop := length (queue s) <= qsize c.

Lemma invQ_step : forall c s t ch s', InvQ c s -> step c s t ch = Some s' -> InvQ c s'.
Proof.
  intros c s t ch s' HQ H. unfold InvQ in *.
  stepcases H; simpl in *; try rewrite app_length; simpl; try lia.
  all: try (apply Nat.ltb_lt in Heqb; lia).
  rewrite Heql; simpl; lia.
Qed.

(* a call at Wait has cleared running (and nobody can set it again) *)
Definition InvR (s : state) : Prop := 1 <= cnt wait4 (thr s) -> running s = false.

Lemma invR_step : forall c s t ch s', wg_in_go c = false -> inc_late c = false ->
  InvB s -> InvR s -> step c s t ch = Some s' -> InvR s'.
Proof.
  intros c s t ch s' Hwg Hil (_ & _ & _ & _ & BM & _) HR H. unfold InvR in *.
  stepcases_fixed H Hwg Hil; simpl in *; auto;
    try match goal with Hn : nth_error (thr s) _ = Some _ |- _ =>
      ge1 wait4 Hn; ge1 mtxo Hn; cnt_facts Hn end;
    simpl in *; try solve [intros; apply HR; lia]; try solve [intros; destruct (mu s); lia].
Qed.

Lemma reach_QR : forall c ops s, fixedc c -> reach c ops s -> InvQ c s /\ InvR s.
Proof.
  intros c ops s Hf Hr.
  enough (InvO s /\ InvB s /\ InvQ c s /\ InvR s) by tauto.
  destruct Hf as [Hwg Hil]. revert s Hr. apply reach_inv.
  - split; [apply invO_init | split; [apply invB_init | split]].
    + unfold InvQ; simpl; lia.
    + unfold InvR; simpl. rewrite cnt_init by reflexivity. lia.
  - intros s t ch s' (HO & HB & HQ & HR) H.
    split. eapply invO_step; eauto. split. eapply invB_step; eauto. split. eapply invQ_step; eauto.
    eapply invR_step; eauto.
Qed.

Lemma reach_step : forall c ops s t ch s', reach c ops s -> step c s t ch = Some s' -> reach c ops s'.
Proof.
  intros c ops s t ch s' [sch ->] H. exists (sch ++ [(t, ch)]). rewrite run_app. simpl. rewrite H. reflexivity.
Qed.

Lemma reach_run : forall c ops s sch, reach c ops s -> reach c ops (run c sch s).
Proof. intros c ops s sch [sch0 ->]. exists (sch0 ++ sch). rewrite run_app. reflexivity. Qed.

(* ---------- the client measure ---------- *)
Definition rem (p : pc) : nat :=
  match p with
  | PIdle => 12
  | PE EOnce => 11 | PE EOnceChk => 10 | PE EOnceLock => 9 | PE EOnceBody => 8 | PE EOnceUnlock => 7
  | PE EInc => 6 | PE EChk => 5 | PE EFlag => 4 | PE ESend => 3 | PE (EDec _) => 1
  | PF1 => 2 | PF2 => 1
  | PS1 _ => 5 | PS2 _ => 4 | PS3 _ => 3 | PS4 _ => 2 | PS5 _ => 1
  | PRet _ => 0
  end.

Fixpoint phi (l : list (op * pc)) : nat :=
  match l with [] => 0 | x :: r => rem (snd x) + phi r end.

Lemma phi_set_nth : forall l i x y, nth_error l i = Some x ->
  phi (set_nth l i y) + rem (snd x) = phi l + rem (snd y).
Proof.
  induction l as [|z r IH]; intros [|i] x y H; simpl in *; try discriminate.
  - injection H as ->. lia.
  - specialize (IH _ _ y H). lia.
Qed.

Lemma client_decr : forall c s j ch s', wg_in_go c = false -> inc_late c = false ->
  step c s (S j) ch = Some s' -> phi (thr s') < phi (thr s).
Proof.
  intros c s j ch s' Hwg Hil H.
  unfold step in H. destruct (nth_error (thr s) j) as [[o p]|] eqn:Hn; [|discriminate].
  unfold client_step, goto, ret, set_pc, spawn, after_once in H. rewrite ?Hwg, ?Hil in H.
  brk H; try discriminate H; injection H as H; subst; simpl;
    match goal with |- phi (set_nth _ _ ?y) < _ => pose proof (phi_set_nth _ _ _ y Hn) as K end; simpl in K; lia.
Qed.

Lemma writer_thr : forall c s ch s', step c s 0 ch = Some s' -> thr s' = thr s /\ running s' = running s /\ mu s' = mu s.
Proof. intros c s ch s' H. stepcases H; simpl; auto. Qed.

Lemma phi_0_ret : forall l, phi l = 0 -> forall i o p, nth_error l i = Some (o, p) -> exists r, p = PRet r.
Proof.
  induction l as [|[o' p'] r IH]; intros H [|i] o p Hn; simpl in *; try discriminate.
  - injection Hn as -> ->. destruct p as [|k| | |b|b|b|b|b|r0]; try destruct k; simpl in H; try lia. eauto.
  - eapply IH; eauto. lia.
Qed.

Lemma phi_pos_ex : forall l, 1 <= phi l -> exists i o p, nth_error l i = Some (o, p) /\ (forall r, p <> PRet r).
Proof.
  induction l as [|[o' p'] r IH]; simpl; intros H. lia.
  destruct (rem p') eqn:E.
  - destruct IH as (i & o & p & A & B). lia. exists (S i), o, p. auto.
  - exists 0, o', p'. split; auto. intros r0 ->. discriminate.
Qed.

Lemma run_cons : forall c t ch r s,
  run c ((t, ch) :: r) s = run c r (match step c s t ch with Some s' => s' | None => s end).
Proof. reflexivity. Qed.

(* E: some continuation decreases the client measure *)
Definition E (c : config) (s : state) : Prop := exists sch, phi (thr (run c sch s)) < phi (thr s).

Lemma E_client : forall c s, fixedc c -> can_client c s -> E c s.
Proof.
  intros c s [Hwg Hil] (j & s' & H). exists [(S j, CStep)]. rewrite run_cons, H. simpl run. eapply client_decr; eauto.
Qed.

Lemma E_writer : forall c s ch s', step c s 0 ch = Some s' -> E c s' -> E c s.
Proof.
  intros c s ch s' H [sch Hs]. destruct (writer_thr _ _ _ _ H) as (Ht & _). exists ((0, ch) :: sch).
  rewrite run_cons, H. rewrite <- Ht. exact Hs.
Qed.

(* ---------- a call parked at its send: drive the writer to its select ---------- *)
Definition pos1 (w : wpc) : nat :=
  match w with
  | WAdd1 _ => 12 | WAdd2 _ => 11 | WAdd3 _ => 10 | WCommit _ => 8 | WDone _ => 7
  | WHead => 6 | WHead2 => 5 | WBatched _ => 4 | _ => 0
  end.
Definition m1 (s : state) : nat := pos1 (wp s) + length (batch s) + length (dq s).

Lemma drive1 : forall c s, InvA s -> (1 <= sched s)%Z ->
  match wp s with WNone | WStart | WFin | WExit | WSelect _ => False | _ => True end ->
  exists ch s', step c s 0 ch = Some s' /\ m1 s' < m1 s.
Proof.
  intros c s [_ Hw] Hs Hwp. unfold step, writer_step, wloc, m1 in *.
  destruct (wp s) as [| | | |m|m|m|m|m|k|k| |] eqn:E; try contradiction.
  - exists CStep. destruct (running s); eexists; (split; [reflexivity|]); simpl; lia.
  - exists CStep. destruct (sched s =? 0)%Z eqn:Ez; [apply Z.eqb_eq in Ez; lia|].
    eexists; (split; [reflexivity|]); simpl; lia.
  - exists CStep. eexists; (split; [reflexivity|]); simpl; lia.
  - exists CStep. eexists; (split; [reflexivity|]); simpl; lia.
  - exists CStep. eexists; (split; [reflexivity|]); simpl; lia.
  - exists CStep. destruct (bsize c <=? _); eexists; (split; [reflexivity|]); simpl; rewrite app_length; simpl; lia.
  - exists CStep. destruct (batch s) eqn:Eb; eexists; (split; [reflexivity|]); simpl; rewrite ?map_length, ?Eb; destruct k; simpl; lia.
  - exists CStep. destruct Hw as [_ Hd]. destruct (dq s) as [|o r] eqn:Ed; [congruence|].
    eexists; (split; [reflexivity|]); simpl. destruct r; simpl; [destruct k; simpl; lia | lia].
Qed.

Lemma reach_fixed_all : forall c ops s, fixedc c -> reach c ops s ->
  InvO s /\ InvA s /\ InvB s /\ InvS s /\ InvK s /\ InvQ c s /\ InvR s.
Proof.
  intros c ops s Hf Hr.
  destruct (reach_all _ _ _ Hf Hr) as (HO & HA & _ & HB & HS).
  destruct (reach_QR _ _ _ Hf Hr) as (HQ & HR).
  pose proof (reach_invK _ _ _ Hr). tauto.
Qed.

Lemma sender_E : forall c ops n s j o, fixedc c -> m1 s <= n -> reach c ops s ->
  nth_error (thr s) j = Some (o, PE ESend) -> E c s.
Proof.
  intros c ops n. induction n as [|n IH]; intros s j o Hf Hm Hr Hn;
    destruct (reach_fixed_all _ _ _ Hf Hr) as (HO & HA & HB & HS & HK & HQ & HR);
    pose proof (okpc_at _ _ _ HK Hn) as Hok; destruct o as [ob v| |]; try discriminate;
    pose proof HB as (B1 & _ & B3 & B5 & _);
    pose proof (cnt_ge1 inF _ _ _ Hn eq_refl) as HinF; pose proof (inF_le_incd (thr s)) as Hle;
    assert (Hsched : (1 <= sched s)%Z) by (destruct (wp s); lia).
  all: destruct (wp s) as [| | | |m|m|m|m|m|k|k| |] eqn:Ew;
    try solve [exfalso; eapply no_sender_none; eauto];
    try solve [exfalso; lia]; try contradiction.
  all: try solve [exfalso; unfold m1 in Hm; rewrite Ew in Hm; simpl in Hm; lia].
  all: try solve [destruct (drive1 c s HA Hsched) as (ch & s' & Hst & Hlt); [rewrite Ew; exact I|];
                  apply (E_writer _ _ _ _ Hst); destruct (writer_thr _ _ _ _ Hst) as (Ht & _);
                  eapply (IH s' j); eauto; [lia | eapply reach_step; eauto | rewrite Ht; eauto]].
  (* the writer is at its select *)
  all: destruct (length (queue s) <? qsize c) eqn:Elt;
    [apply E_client; auto; eapply client_can_step; [exact Hn | simpl; rewrite Elt; reflexivity]|].
  all: destruct (qsize c =? 0) eqn:Eq0;
    [apply E_client; auto; eapply client_can_step; [exact Hn | simpl; rewrite Elt, Eq0, Ew; reflexivity]|].
  all: apply Nat.ltb_ge in Elt; apply Nat.eqb_neq in Eq0; unfold InvQ in HQ;
    destruct (queue s) as [|o' q] eqn:Eqq; [simpl in Elt; lia|].
  all: assert (Hst : step c s 0 CRecv = Some (set_wp (set_cur (set_queue s q) o') (WAdd1 m)))
         by (unfold step, writer_step; rewrite Ew, Eqq; destruct m; reflexivity).
  all: apply (E_writer _ _ _ _ Hst); apply E_client; auto;
    eapply client_can_step with (x := (OEnq ob v, PE ESend)); [exact Hn|]; simpl in *;
    assert (Hq : length q <? qsize c = true) by (apply Nat.ltb_lt; lia); rewrite Hq; reflexivity.
Qed.

(* ---------- a Stop call parked at Wait, no call between its counter increment and its return: drive the writer to its exit ---------- *)
Definition pos2 (w : wpc) (e : bool) : nat :=
  match w with
  | WAdd1 _ => 30 | WAdd2 _ => 29 | WAdd3 _ => 28
  | WCommit KFlush => 26 | WDone KFlush => 25
  | WBatched _ => if e then 24 else 11
  | WSelect _ => if e then 23 else 10
  | WCommit KHead => 22 | WDone KHead => 21 | WHead => 20 | WHead2 => 19 | WExit => 1
  | _ => 0
  end.
Definition qe (s : state) : bool := match queue s with [] => true | _ => false end.
Definition m2 (s : state) : nat := 100 * length (queue s) + pos2 (wp s) (qe s) + length (batch s) + length (dq s).

Lemma drive2 : forall c s, InvA s -> InvB s -> running s = false -> cnt incd (thr s) = 0 ->
  match wp s with WNone | WStart | WFin => False | _ => True end ->
  exists ch s', step c s 0 ch = Some s' /\ m2 s' < m2 s.
Proof.
  intros c s [_ Hw] (B1 & _) Hrun Hinc Hwp. unfold step, writer_step, wloc, m2, qe in *. rewrite Hinc in B1.
  destruct (wp s) as [| | | |m|m|m|m|m|k|k| |] eqn:E; try contradiction.
  - exists CStep. rewrite Hrun. eexists; (split; [reflexivity|]); simpl. destruct (queue s); simpl; lia.
  - exists CStep. destruct (sched s =? 0)%Z eqn:Ez.
    + eexists; (split; [reflexivity|]); simpl. destruct (queue s); simpl; lia.
    + apply Z.eqb_neq in Ez. eexists; (split; [reflexivity|]); simpl. destruct (queue s); simpl in *; lia.
  - exists CStep. eexists; (split; [reflexivity|]); simpl. destruct (queue s); simpl; lia.
  - destruct (queue s) as [|o q] eqn:Eq.
    + destruct m; [exists CTimeout | exists CDefault]; eexists; (split; [reflexivity|]); simpl; rewrite ?Eq; simpl; lia.
    + exists CRecv. destruct m; eexists; (split; [reflexivity|]); simpl; destruct q; simpl; lia.
  - exists CStep. eexists; (split; [reflexivity|]); simpl. destruct (queue s); simpl; lia.
  - exists CStep. eexists; (split; [reflexivity|]); simpl. destruct (queue s); simpl; lia.
  - exists CStep. destruct (bsize c <=? _); eexists; (split; [reflexivity|]); simpl; rewrite app_length; simpl;
      destruct m; simpl; destruct (queue s); simpl; lia.
  - exists CStep. destruct (batch s) eqn:Eb; eexists; (split; [reflexivity|]); simpl; rewrite ?map_length, ?Eb;
      destruct k; simpl; destruct (queue s); simpl; lia.
  - exists CStep. destruct Hw as [_ Hd]. destruct (dq s) as [|o r] eqn:Ed; [congruence|].
    eexists; (split; [reflexivity|]); simpl. destruct r; destruct k; simpl; destruct (queue s); simpl; lia.
  - exists CStep. eexists; (split; [reflexivity|]); simpl. destruct (queue s); simpl; lia.
Qed.

Lemma exit_E : forall c ops n s j o b, fixedc c -> m2 s <= n -> reach c ops s ->
  running s = false -> cnt incd (thr s) = 0 -> wp s <> WNone ->
  nth_error (thr s) j = Some (o, PS4 b) -> E c s.
Proof.
  intros c ops n. induction n as [|n IH]; intros s j o b Hf Hm Hr Hrun Hinc Hwn Hn;
    destruct (reach_fixed_all _ _ _ Hf Hr) as (HO & HA & HB & HS & HK & HQ & HR);
    pose proof HB as (_ & B2 & B3 & _).
  all: destruct (wp s) as [| | | |m|m|m|m|m|k|k| |] eqn:Ew; try congruence; try contradiction.
  all: try solve [apply E_client; auto; eapply wait_step; eauto; eapply okpc_at; eauto].
  all: destruct (drive2 c s HA HB Hrun Hinc) as (ch & s' & Hst & Hlt); [rewrite Ew; exact I|]; try (exfalso; lia).
  all: apply (E_writer _ _ _ _ Hst); destruct (writer_thr _ _ _ _ Hst) as (Ht & Hru & _);
    apply (IH s' j o b Hf);
    [lia | eapply reach_step; eauto | congruence | rewrite Ht; auto | | rewrite Ht; auto].
  all: clear - Hst Ew; stepcases Hst; simpl; congruence.
Qed.

Lemma wait_E : forall c ops s j o b, fixedc c -> reach c ops s -> nth_error (thr s) j = Some (o, PS4 b) -> E c s.
Proof.
  intros c ops s j o b Hf Hr Hn.
  destruct (reach_fixed_all _ _ _ Hf Hr) as (HO & HA & HB & HS & HK & HQ & HR).
  assert (Hrun : running s = false) by (apply HR; eapply cnt_ge1; [exact Hn | reflexivity]).
  destruct (cnt incd (thr s)) eqn:Hinc.
  - destruct (wp s) eqn:Ew.
    1: { apply E_client; auto. eapply wait_step; eauto. eapply okpc_at; eauto.
         destruct HB as (_ & B2 & _). rewrite Ew in B2. exact B2. }
    all: eapply (exit_E c ops (m2 s)); eauto; congruence.
  - destruct (cnt_ex incd (thr s)) as (j' & [o' p'] & Hj & Hi). lia.
    pose proof (okpc_at _ _ _ HK Hj) as Hok.
    unfold incd in Hi; simpl in Hi.
    destruct p' as [|k| | |b'|b'|b'|b'|b'|r]; try discriminate; destruct k; try discriminate.
    + apply E_client; auto. eapply free_step; eauto.
    + apply E_client; auto. eapply free_step; eauto.
    + eapply (sender_E c ops (m1 s)); eauto.
    + apply E_client; auto. eapply free_step; eauto.
Qed.

(* as long as a call is unfinished, some continuation lets a client take a step *)
Lemma eventually_client : forall c ops s i o p, fixedc c -> reach c ops s ->
  nth_error (thr s) i = Some (o, p) -> (forall r, p <> PRet r) -> E c s.
Proof.
  intros c ops s i o p Hf Hr Hn Hp.
  destruct (reach_fixed_all _ _ _ Hf Hr) as (HO & HA & HB & HS & HK & HQ & HR).
  eapply (blocked_P c s (E c s)); eauto.
  - apply E_client; auto.
  - intros; eapply wait_E; eauto.
  - intros; eapply (sender_E c ops (m1 s)); eauto.
Qed.

Definition all_returned (s : state) : Prop := forall i o p, nth_error (thr s) i = Some (o, p) -> exists r, p = PRet r.

Theorem can_finish : forall c ops s, fixedc c -> reach c ops s -> exists sch, all_returned (run c sch s).
Proof.
  intros c ops s Hf. remember (phi (thr s)) as n eqn:En.
  assert (Hle : phi (thr s) <= n) by lia. clear En. revert s Hle.
  induction n as [|n IH]; intros s Hle Hr.
  - exists []. simpl. unfold all_returned. apply phi_0_ret. lia.
  - destruct (phi (thr s)) eqn:E0.
    + exists []. simpl. unfold all_returned. apply phi_0_ret. exact E0.
    + destruct (phi_pos_ex (thr s)) as (i & o & p & Hn & Hp). lia.
      destruct (eventually_client c ops s i o p Hf Hr Hn Hp) as [sch1 H1].
      destruct (IH (run c sch1 s)) as [sch2 H2]. lia. apply reach_run; auto.
      exists (sch1 ++ sch2). rewrite run_app. exact H2.
Qed.

(* a stuck state stays as it is under every schedule *)
Lemma all_choices : forall ch, In ch choices.
Proof. intros []; simpl; tauto. Qed.

Lemma stuck_step : forall c s t ch, stuckb c s = true -> step c s t ch = None.
Proof.
  intros c s t ch H. destruct (step c s t ch) as [s'|] eqn:E; auto. exfalso.
  assert (Ht : t <= length (thr s)).
  { destruct t as [|i]. lia. simpl in E. destruct (nth_error (thr s) i) eqn:En; [|discriminate]. eapply nth_lt; eauto. }
  rewrite (enabled_not_stuck _ _ _ _ _ Ht (all_choices ch) E) in H. discriminate.
Qed.

Lemma stuck_run : forall c s sch, stuckb c s = true -> run c sch s = s.
Proof.
  intros c s sch H. induction sch as [|[t ch] r IH]; auto. rewrite run_cons, stuck_step; auto.
Qed.

(* contrast, pinned code (D08b, rendezvous queue): the Enqueue call parked at its send stays there under every continuation *)
Lemma d08b_block_forever : forall sch, pc_of (run (cfg_d08b 0) sch (s_d08b 0)) 1 = Some (PE ESend).
Proof.
  intros sch. rewrite stuck_run. vm_compute; reflexivity. vm_compute; reflexivity.
Qed.
