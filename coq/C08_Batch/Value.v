(* C08 - value-level completeness of the repaired code: an accepted Enqueue of o (result "accepted" or
   "already scheduled") that is the last Enqueue invocation on o has, when a Stop call that was invoked while the writer
   existed returns, its content written, committed and stored.
   Per-object invariants:
     InvL  the last Enqueue invocation on o (log) is a non-idle thread with that operation, val o is its value, and if
           o is not dirty the last BatchWrite of o wrote that value;
     InvF  flag o set => o is queued, or held by a call at its send, or in the writer's hands before the reset;
     InvD  o dirty (content changed after its last BatchWrite) => flag o set, or the writer is between the reset and
           the BatchWrite of o, or the last invocation on o has not yet passed the flag test / was rejected. *)
From Coq Require Import List Bool Arith ZArith Lia.
From Verif.C08_Batch Require Import Model Base Safety Life Complete.
Import ListNotations.

(* ---------- structure of a step on the thread table ---------- *)
Lemma step_thr : forall c s t ch s', step c s t ch = Some s' ->
  (t = 0 /\ thr s' = thr s) \/
  (exists i o p p', t = S i /\ nth_error (thr s) i = Some (o, p) /\ thr s' = set_nth (thr s) i (o, p') /\
                    p' <> PIdle /\ (forall r, p <> PRet r)).
Proof.
  intros c s t ch s' H.
  stepcases H; simpl; try solve [left; split; reflexivity];
    right; do 4 eexists; (split; [reflexivity|]); (split; [eassumption|]); (split; [reflexivity|]);
    split; intros; discriminate.
Qed.

Lemma ret_stable_step : forall c s t ch s' j o r, step c s t ch = Some s' ->
  nth_error (thr s) j = Some (o, PRet r) -> nth_error (thr s') j = Some (o, PRet r).
Proof.
  intros c s t ch s' j o r H Hj.
  destruct (step_thr _ _ _ _ _ H) as [[_ E] | (i & o' & p & p' & _ & Hn & E & _ & Hp)]; rewrite E; auto.
  destruct (Nat.eq_dec i j) as [->|Hne].
  - rewrite Hn in Hj. injection Hj as -> ->. exfalso. eapply Hp; reflexivity.
  - rewrite nth_set_nth_neq by auto. exact Hj.
Qed.

Lemma ret_stable : forall c sch s j o r,
  nth_error (thr s) j = Some (o, PRet r) -> nth_error (thr (run c sch s)) j = Some (o, PRet r).
Proof.
  intros c sch s j o r. apply run_inv with (I := fun s => nth_error (thr s) j = Some (o, PRet r)).
  intros; eapply ret_stable_step; eauto.
Qed.

Lemma thr_keep : forall (l : list (op * pc)) i o p p' t ob v,
  nth_error l i = Some (o, p) -> p' <> PIdle ->
  (exists q, nth_error l t = Some (OEnq ob v, q) /\ q <> PIdle) ->
  exists q, nth_error (set_nth l i (o, p')) t = Some (OEnq ob v, q) /\ q <> PIdle.
Proof.
  intros l i o p p' t ob v Hn Hp (q & Hq & Hq').
  destruct (Nat.eq_dec i t) as [->|Hne].
  - rewrite Hn in Hq. injection Hq as -> ->. exists p'. split; auto. eapply nth_set_nth_eq; eauto.
  - exists q. rewrite nth_set_nth_neq by auto. auto.
Qed.

(* ---------- InvL ---------- *)
Definition InvL (s : state) : Prop := forall o t v, last_setter (log s) o = Some (t, v) ->
  val s o = v /\
  (exists p, nth_error (thr s) t = Some (OEnq o v, p) /\ p <> PIdle) /\
  (dirty (log s) o = false -> last_w (writes (rev (log s))) o = Some v).

Lemma invL_init : forall ops, InvL (init ops).
Proof. intros ops o t v H. simpl in H. discriminate. Qed.

Lemma invL_step : forall c s t ch s', InvL s -> step c s t ch = Some s' -> InvL s'.
Proof.
  intros c s t ch s' HL H. unfold InvL in *.
  stepcases H; simpl in *; rewrite ?writes_snoc; simpl; rewrite ?app_nil_r; intros xo xt xv Hls.
  all: try solve [destruct (HL _ _ _ Hls) as (A & B & C); (split; [exact A|]); (split; [|exact C]);
                  first [exact B | eapply thr_keep; eauto; discriminate]].
  1-3: destruct (HL _ _ _ Hls) as (A & B & C); (split; [exact A|]); (split; [exact B|]);
       rewrite last_w_app; destruct (Nat.eqb_spec (cur s) xo) as [->|Hne]; [intros _; rewrite A; reflexivity | exact C].
  destruct (Nat.eqb_spec o xo) as [->|Hne].
  - injection Hls as <- <-. unfold upd. rewrite Nat.eqb_refl. split; [reflexivity|]. split; [|discriminate].
    eexists. split; [eapply nth_set_nth_eq; eauto | discriminate].
  - destruct (HL _ _ _ Hls) as (A & B & C). unfold upd. destruct (Nat.eqb_spec xo o); [congruence|].
    split; [exact A|]. split; [|exact C]. eapply thr_keep; eauto; discriminate.
Qed.

Lemma reach_invL : forall c ops s, reach c ops s -> InvL s.
Proof. intros c ops. apply reach_inv. apply invL_init. intros; eapply invL_step; eauto. Qed.

(* ---------- InvF: a set flag has a cause ---------- *)
Definition sender (s : state) (o : obj) : Prop := exists t v, nth_error (thr s) t = Some (OEnq o v, PE ESend).

Definition InvF (s : state) : Prop := forall o, flag s o = true ->
  In o (queue s) \/ sender s o \/ (exists m, wp s = WAdd1 m /\ cur s = o).

Lemma invF_init : forall ops, InvF (init ops).
Proof. intros ops o H. simpl in H. discriminate. Qed.

Lemma snd_keep : forall (l : list (op * pc)) i o p p' ob,
  nth_error l i = Some (o, p) -> p <> PE ESend ->
  (exists t v, nth_error l t = Some (OEnq ob v, PE ESend)) ->
  exists t v, nth_error (set_nth l i (o, p')) t = Some (OEnq ob v, PE ESend).
Proof.
  intros l i o p p' ob Hn Hp (t & v & Ht).
  destruct (Nat.eq_dec i t) as [->|Hne].
  - rewrite Hn in Ht. injection Ht as -> ->. congruence.
  - exists t, v. rewrite nth_set_nth_neq by auto. auto.
Qed.

Lemma invF_step : forall c s t ch s', wg_in_go c = false -> inc_late c = false ->
  InvO s -> InvF s -> step c s t ch = Some s' -> InvF s'.
Proof.
  intros c s t ch s' Hwg Hil HO HF H. unfold InvF, sender in *.
  stepcases_fixed H Hwg Hil; simpl in *; intros xo Hfl;
    try match goal with Hn : nth_error (thr s) _ = Some (_, PE EOnceBody) |- _ =>
      pose proof (once_body_wnone _ _ _ HO Hn) end.
  all: try solve [destruct (HF _ Hfl) as [A | [A | (m' & A1 & A2)]];
                  [left; exact A | right; left; first [exact A | eapply snd_keep; eauto; discriminate] |
                   first [congruence | right; right; eexists; split; [first [eassumption | reflexivity] | exact A2]]]].
  - (* receive, collect mode *)
    destruct (HF _ Hfl) as [[A | A] | [A | (m' & A1 & A2)]]; eauto. congruence.
  - destruct (HF _ Hfl) as [[A | A] | [A | (m' & A1 & A2)]]; eauto. congruence.
  - destruct (HF _ Hfl) as [A | [A | (m' & A1 & A2)]]; [destruct A | auto | congruence].
  - (* reset *)
    unfold upd in Hfl. destruct (Nat.eqb_spec xo (cur s)) as [E|Hne]; [discriminate|].
    destruct (HF _ Hfl) as [A | [A | (m' & A1 & A2)]]; auto. congruence.
  - (* flag test succeeds *)
    unfold upd in Hfl. destruct (Nat.eqb_spec xo o) as [E|Hne]; [subst xo|].
    + right; left. exists t, v. eapply nth_set_nth_eq; eauto.
    + destruct (HF _ Hfl) as [A | [A | (m' & A1 & A2)]]; eauto.
      right; left. eapply snd_keep; eauto; discriminate.
  - (* send into the queue *)
    destruct (Nat.eq_dec xo o) as [E|Hne]; [subst xo; left; apply in_or_app; right; left; reflexivity|].
    destruct (HF _ Hfl) as [A | [(t' & v' & A) | (m' & A1 & A2)]]; eauto.
    + left; apply in_or_app; auto.
    + right; left. exists t', v'. destruct (Nat.eq_dec t t') as [->|Hn']; [congruence|].
      rewrite nth_set_nth_neq by auto. exact A.
  - (* rendezvous *)
    destruct (Nat.eq_dec xo o) as [E|Hne]; [subst xo; right; right; eauto|].
    destruct (HF _ Hfl) as [A | [(t' & v' & A) | (m' & A1 & A2)]]; eauto; [|congruence].
    right; left. exists t', v'. destruct (Nat.eq_dec t t') as [->|Hn']; [congruence|].
    rewrite nth_set_nth_neq by auto. exact A.
Qed.

(* ---------- InvD: a dirty object is on its way to the writer, unless its last Enqueue is early or rejected ---------- *)
Definition early (p : pc) : bool :=
  match p with
  | PE (EDec RRej) | PRet RRej => true
  | PE (EDec _) | PE ESend => false
  | PE _ => true
  | _ => false
  end.

Definition early_at (l : list (op * pc)) (t : nat) : bool :=
  match nth_error l t with Some (_, p) => early p | None => false end.

Definition pend (s : state) (o : obj) : Prop :=
  flag s o = true \/ (exists m, (wp s = WAdd2 m \/ wp s = WAdd3 m) /\ cur s = o).

Definition InvD (s : state) : Prop := forall o, dirty (log s) o = true ->
  pend s o \/ (exists t v, last_setter (log s) o = Some (t, v) /\ early_at (thr s) t = true).

Lemma invD_init : forall ops, InvD (init ops).
Proof. intros ops o H. simpl in H. discriminate. Qed.

Lemma early_keep : forall (l : list (op * pc)) i o p p' t,
  nth_error l i = Some (o, p) -> (early p = true -> early p' = true) ->
  early_at l t = true -> early_at (set_nth l i (o, p')) t = true.
Proof.
  intros l i o p p' t Hn Hp He. unfold early_at in *.
  destruct (Nat.eq_dec i t) as [->|Hne].
  - rewrite (nth_set_nth_eq _ _ _ (o, p') Hn). rewrite Hn in He. auto.
  - rewrite nth_set_nth_neq by auto. exact He.
Qed.

Lemma invD_step : forall c s t ch s', wg_in_go c = false -> inc_late c = false ->
  InvO s -> InvL s -> InvD s -> step c s t ch = Some s' -> InvD s'.
Proof.
  intros c s t ch s' Hwg Hil HO HL HD H. unfold InvD, pend in *.
  stepcases_fixed H Hwg Hil; simpl in *; intros xo Hdi;
    try match goal with Hn : nth_error (thr s) _ = Some (_, PE EOnceBody) |- _ =>
      pose proof (once_body_wnone _ _ _ HO Hn) end.
  all: try solve [destruct (HD _ Hdi) as [[A | (m' & [A1|A1] & A2)] | (t' & v' & A & B)];
                  [left; left; exact A
                  |first [congruence | left; right; eexists; split; [first [left; eassumption | right; eassumption | left; reflexivity | right; reflexivity] | exact A2]]
                  |first [congruence | left; right; eexists; split; [first [left; eassumption | right; eassumption | left; reflexivity | right; reflexivity] | exact A2]]
                  |right; exists t', v'; split; [exact A|]; first [exact B | eapply early_keep; eauto; intros; reflexivity]]].
  - (* reset: the writer now holds cur s between reset and write *)
    unfold upd. destruct (Nat.eqb_spec xo (cur s)) as [E|Hne]; [left; right; eauto|].
    destruct (HD _ Hdi) as [[A | (m' & [A1|A1] & A2)] | (t' & v' & A & B)]; eauto; congruence.
  - destruct (Nat.eqb_spec (cur s) xo) as [E|Hne]; [discriminate|].
    destruct (HD _ Hdi) as [[A | (m' & [A1|A1] & A2)] | (t' & v' & A & B)]; eauto; congruence.
  - destruct (Nat.eqb_spec (cur s) xo) as [E|Hne]; [discriminate|].
    destruct (HD _ Hdi) as [[A | (m' & [A1|A1] & A2)] | (t' & v' & A & B)]; eauto; congruence.
  - destruct (Nat.eqb_spec (cur s) xo) as [E|Hne]; [discriminate|].
    destruct (HD _ Hdi) as [[A | (m' & [A1|A1] & A2)] | (t' & v' & A & B)]; eauto; congruence.
  - (* invocation *)
    destruct (Nat.eqb_spec o xo) as [E|Hne].
    + right. exists t, v. split; auto. unfold early_at. erewrite nth_set_nth_eq by eauto. reflexivity.
    + destruct (HD _ Hdi) as [A | (t' & v' & A & B)]; auto.
      right. exists t', v'. split; auto. eapply early_keep; eauto; discriminate.
  - (* flag test: already scheduled *)
    destruct (HD _ Hdi) as [A | (t' & v' & A & B)]; auto.
    destruct (Nat.eq_dec t t') as [E|Hne].
    + subst t'. destruct (HL _ _ _ A) as (_ & (q & Hq & _) & _). rewrite Heqo in Hq. injection Hq as E1 E2 E3. subst.
      left; left; assumption.
    + right. exists t', v'. split; auto. unfold early_at in *. rewrite nth_set_nth_neq by auto. exact B.
  - (* flag test: sets the flag *)
    unfold upd. destruct (Nat.eqb_spec xo o) as [E|Hne]; [left; left; reflexivity|].
    destruct (HD _ Hdi) as [A | (t' & v' & A & B)]; auto.
    destruct (Nat.eq_dec t t') as [E|Hne'].
    + subst t'. destruct (HL _ _ _ A) as (_ & (q & Hq & _) & _). rewrite Heqo in Hq. injection Hq as E1 E2 E3. congruence.
    + right. exists t', v'. split; auto. unfold early_at in *. rewrite nth_set_nth_neq by auto. exact B.
Qed.

(* ---------- every accepted call is followed by a BatchWrite of its object ---------- *)
(* newest-first scan: a BatchWrite(o) after thread t's Enqueue invocation *)
Fixpoint wsince (l : list event) (t : nat) (o : obj) : bool :=
  match l with
  | [] => false
  | EvSet t' _ _ :: r => if Nat.eqb t' t then false else wsince r t o
  | EvWrite o' _ :: r => if Nat.eqb o' o then true else wsince r t o
  | _ :: r => wsince r t o
  end.

Definition acceptedp (p : pc) : bool :=
  match p with PE ESend | PE (EDec RDup) | PE (EDec RAcc) | PRet RAcc | PRet RDup => true | _ => false end.

Definition InvW (s : state) : Prop := forall t o v p,
  nth_error (thr s) t = Some (OEnq o v, p) -> acceptedp p = true -> wsince (log s) t o = true \/ pend s o.

Lemma invW_init : forall ops, InvW (init ops).
Proof.
  intros ops t o v p H Ha. simpl in H. rewrite nth_error_map in H.
  destruct (nth_error ops t); simpl in H; [|discriminate]. injection H as _ <-. discriminate.
Qed.

Lemma pend_frame : forall s s' o, flag s' = flag s -> wp s' = wp s -> cur s' = cur s -> pend s o -> pend s' o.
Proof. unfold pend. intros s s' o -> -> ->. auto. Qed.

Lemma invW_step : forall c s t ch s', wg_in_go c = false -> inc_late c = false ->
  InvO s -> InvW s -> step c s t ch = Some s' -> InvW s'.
Proof.
  intros c s t ch s' Hwg Hil HO HW H. unfold InvW, pend in *.
  stepcases_fixed H Hwg Hil; simpl in *; intros xt xo xv xp Hx Hacc;
    try match goal with Hn : nth_error (thr s) _ = Some (_, PE EOnceBody) |- _ =>
      pose proof (once_body_wnone _ _ _ HO Hn) end.
  all: try (destruct (Nat.eq_dec t xt) as [Et|Net];
       [subst xt; erewrite nth_set_nth_eq in Hx by eauto; first [discriminate Hx | injection Hx as ? ? ?; subst; try discriminate Hacc]
       | rewrite nth_set_nth_neq in Hx by auto]).
  all: try match goal with Hn : nth_error (thr _) _ = Some (OEnq _ _, _) |- _ =>
         pose proof Hn as Hx end.
  all: try solve [match goal with Hx : nth_error (thr _) _ = Some (OEnq _ _, _) |- _ =>
         destruct (HW _ _ _ _ Hx eq_refl) as [A | [A | (m' & [A1|A1] & A2)]] end;
         [left; exact A | right; left; exact A
         |first [congruence | right; right; eexists; split; [first [left; eassumption | right; eassumption | left; reflexivity | right; reflexivity] | exact A2]]
         |first [congruence | right; right; eexists; split; [first [left; eassumption | right; eassumption | left; reflexivity | right; reflexivity] | exact A2]]]].
  all: try solve [match goal with Hx : nth_error (thr _) _ = Some (OEnq _ _, _) |- _ =>
         destruct (HW _ _ _ _ Hx Hacc) as [A | [A | (m' & [A1|A1] & A2)]] end;
         [left; exact A | right; left; exact A
         |first [congruence | right; right; eexists; split; [first [left; eassumption | right; eassumption | left; reflexivity | right; reflexivity] | exact A2]]
         |first [congruence | right; right; eexists; split; [first [left; eassumption | right; eassumption | left; reflexivity | right; reflexivity] | exact A2]]]].
  - unfold upd. destruct (Nat.eqb_spec xo (cur s)) as [E|Hne]; [right; right; eauto|].
    destruct (HW _ _ _ _ Hx Hacc) as [A | [A | (m' & [A1|A1] & A2)]]; auto; congruence.
  - destruct (Nat.eqb_spec (cur s) xo) as [E|Hne]; [auto|].
    destruct (HW _ _ _ _ Hx Hacc) as [A | [A | (m' & [A1|A1] & A2)]]; auto; congruence.
  - destruct (Nat.eqb_spec (cur s) xo) as [E|Hne]; [auto|].
    destruct (HW _ _ _ _ Hx Hacc) as [A | [A | (m' & [A1|A1] & A2)]]; auto; congruence.
  - destruct (Nat.eqb_spec (cur s) xo) as [E|Hne]; [auto|].
    destruct (HW _ _ _ _ Hx Hacc) as [A | [A | (m' & [A1|A1] & A2)]]; auto; congruence.
  - destruct (Nat.eqb_spec t xt) as [E|Hne]; [congruence|]. exact (HW _ _ _ _ Hx Hacc).
  - auto.
  - unfold upd. rewrite Nat.eqb_refl. auto.
  - unfold upd. destruct (Nat.eqb_spec xo o) as [E|Hne]; [auto|]. exact (HW _ _ _ _ Hx Hacc).
Qed.

(* ---------- all value-level invariants on reachable states of the repaired code ---------- *)
Lemma reach_value : forall c ops s, fixedc c -> reach c ops s -> InvO s /\ InvL s /\ InvF s /\ InvD s /\ InvW s.
Proof.
  intros c ops s [Hwg Hil]. revert s. apply reach_inv.
  - split; [apply invO_init | split; [apply invL_init | split; [apply invF_init | split; [apply invD_init | apply invW_init]]]].
  - intros s t ch s' (HO & HL & HF & HD & HW) H.
    split. eapply invO_step; eauto. split. eapply invL_step; eauto. split. eapply invF_step; eauto.
    split. eapply invD_step; eauto. eapply invW_step; eauto.
Qed.

(* after the writer's exit nothing is pending *)
Lemma not_pend_fin : forall s o, InvB s -> InvF s -> wp s = WFin -> ~ pend s o.
Proof.
  intros s o (_ & _ & _ & B5 & _) HF Hw [Hfl | (m & [A|A] & _)]; try congruence.
  rewrite Hw in B5. destruct B5 as [Hq Hc].
  destruct (HF _ Hfl) as [A | [(t & v & A) | (m & A & _)]]; try congruence.
  - rewrite Hq in A. destruct A.
  - pose proof (cnt_ge1 inF _ _ _ A eq_refl). lia.
Qed.

(* COMPLETENESS, value level. *)
Theorem complete : forall c ops sch1 sch2 t ts o v r r', fixedc c ->
  let s1 := run c sch1 (init ops) in
  let s2 := run c sch2 s1 in
  nth_error (thr s1) t = Some (OEnq o v, PRet r) -> (r = RAcc \/ r = RDup) ->
  nth_error (thr s1) ts = Some (OStop, PIdle) ->
  nth_error (thr s2) ts = Some (OStop, PRet r') ->
  last_setter (log s2) o = Some (t, v) ->
  store s2 o = Some v /\ dirty (log s2) o = false.
Proof.
  intros c ops sch1 sch2 t ts o v r r' Hf s1 s2 Ht Hr Hidle Hret Hls.
  assert (R1 : reach c ops s1) by (exists sch1; reflexivity).
  assert (R2 : reach c ops s2) by (exists (sch1 ++ sch2); unfold s2, s1; rewrite run_app; reflexivity).
  pose proof (enq_returned_spawned _ _ _ _ _ _ _ Hf R1 Ht) as Hsp.
  destruct (stop_complete c ops sch1 sch2 ts r' Hf Hsp Hidle Hret) as (Hw & _ & _ & _ & _ & _ & Ewc & _).
  fold s1 in Hw, Ewc. fold s2 in Hw, Ewc.
  destruct (reach_all _ _ _ Hf R2) as (_ & _ & _ & HB & _).
  destruct (reach_value _ _ _ Hf R2) as (_ & HL & HF & HD & _).
  assert (Hnd : dirty (log s2) o = false).
  { destruct (dirty (log s2) o) eqn:E; auto. exfalso.
    destruct (HD _ E) as [A | (t' & v' & A & B)].
    - eapply not_pend_fin; eauto.
    - rewrite Hls in A. injection A as <- <-. unfold early_at in B.
      unfold s2 in B. rewrite (ret_stable c sch2 s1 _ _ _ Ht) in B.
      destruct Hr; subst r; discriminate. }
  split; auto.
  destruct (safety c ops (sch1 ++ sch2)) as (_ & _ & Hst & _). rewrite run_app in Hst. fold s1 in Hst. fold s2 in Hst.
  rewrite Hst, <- Ewc. destruct (HL _ _ _ Hls) as (_ & _ & C). auto.
Qed.

(* The same for every accepted call, whether or not it is the last invocation on its object: a BatchWrite of the
   object follows the call's invocation (and by stop_complete / safety that write is committed and done). *)
Theorem complete_written : forall c ops sch1 sch2 t ts o v r r', fixedc c ->
  let s1 := run c sch1 (init ops) in
  let s2 := run c sch2 s1 in
  nth_error (thr s1) t = Some (OEnq o v, PRet r) -> (r = RAcc \/ r = RDup) ->
  nth_error (thr s1) ts = Some (OStop, PIdle) ->
  nth_error (thr s2) ts = Some (OStop, PRet r') ->
  wsince (log s2) t o = true.
Proof.
  intros c ops sch1 sch2 t ts o v r r' Hf s1 s2 Ht Hr Hidle Hret.
  assert (R1 : reach c ops s1) by (exists sch1; reflexivity).
  assert (R2 : reach c ops s2) by (exists (sch1 ++ sch2); unfold s2, s1; rewrite run_app; reflexivity).
  pose proof (enq_returned_spawned _ _ _ _ _ _ _ Hf R1 Ht) as Hsp.
  destruct (stop_complete c ops sch1 sch2 ts r' Hf Hsp Hidle Hret) as (Hw & _).
  fold s1 in Hw. fold s2 in Hw.
  destruct (reach_all _ _ _ Hf R2) as (_ & _ & _ & HB & _).
  destruct (reach_value _ _ _ Hf R2) as (_ & _ & HF & _ & HW).
  pose proof (ret_stable c sch2 s1 _ _ _ Ht) as Ht2. fold s2 in Ht2.
  destruct (HW _ _ _ _ Ht2) as [A | A]; auto.
  - destruct Hr; subst r; reflexivity.
  - exfalso. eapply not_pend_fin; eauto.
Qed.
