(* C08 - life-cycle invariant of the repaired code (wg.Add before go, counter raised before the running check):
   scheduledCount accounting, the writer only terminates when nothing is in flight, Stop returns only after the
   writer has terminated. *)
From Coq Require Import List Bool Arith ZArith Lia.
From Verif.C08_Batch Require Import Model Base Safety.
Import ListNotations.

Definition incd (x : op * pc) : bool :=      (* counter raised, object not yet handed over / given up *)
  match snd x with PE EChk | PE EFlag | PE ESend | PE (EDec _) => true | _ => false end.
Definition inF (x : op * pc) : bool :=       (* past the running check *)
  match snd x with PE EFlag | PE ESend => true | _ => false end.
Definition wait4 (x : op * pc) : bool := match snd x with PS4 _ => true | _ => false end.
Definition mtxo (x : op * pc) : bool :=      (* holds startStopMutex, not in Wait *)
  match snd x with PE EOnceBody | PE EOnceUnlock | PS2 _ | PS3 _ | PS5 _ => true | _ => false end.
Definition ghost (x : op * pc) : bool :=     (* Stop call invoked when the writer goroutine already existed *)
  match fst x with OStop => match snd x with PS1 b | PS2 b | PS3 b | PS4 b | PS5 b | PRet (RStop b) => b | _ => false end | _ => false end.
Definition sdone (x : op * pc) : bool :=     (* such a Stop call is past Wait *)
  match fst x with OStop => match snd x with PS5 b | PRet (RStop b) => b | _ => false end | _ => false end.

Definition InvB (s : state) : Prop :=
  (sched s = Z.of_nat (length (queue s)) + Z.of_nat (cnt incd (thr s)) +
             match wp s with WAdd1 _ | WAdd2 _ => 1 | _ => 0 end)%Z /\
  wg s = match wp s with WNone | WFin => 0 | _ => 1 end /\
  match wp s with WNone | WHead2 | WExit | WFin => running s = false | WStart => False | _ => True end /\
  match wp s with WExit | WFin => queue s = [] /\ cnt inF (thr s) = 0 | _ => True end /\
  (cnt wait4 (thr s) + cnt mtxo (thr s) = if mu s then 1 else 0) /\
  (spawned s = true -> running s = false -> wp s = WFin \/ 1 <= cnt wait4 (thr s)) /\
  (spawned s = false -> cnt ghost (thr s) = 0) /\
  (wp s <> WFin -> cnt sdone (thr s) = 0).

Lemma cnt_init : forall f ops, (forall o, f (o, PIdle) = false) -> cnt f (map (fun o => (o, PIdle)) ops) = 0.
Proof. intros f ops H. induction ops; simpl; auto. rewrite H. auto. Qed.

Lemma invB_init : forall ops, InvB (init ops).
Proof.
  intros. unfold InvB; simpl. rewrite !cnt_init by (intros []; reflexivity).
  repeat split; auto; try discriminate.
Qed.

Lemma inF_le_incd : forall l, cnt inF l <= cnt incd l.
Proof. intros. apply cnt_le. intros [o p]; unfold inF, incd; simpl. destruct p; try discriminate. destruct k; auto; discriminate. Qed.

Ltac stepcases_fixed H Hwg Hil :=
  unfold step, writer_step, client_step, goto, ret, set_pc, spawn, after_once, after, cont_of in H;
  rewrite ?Hwg, ?Hil in H;
  brk H; try discriminate H; injection H as H; subst.

Ltac ge1 f Hn := try (assert (1 <= cnt f _) by (eapply cnt_ge1; [exact Hn | reflexivity])).

Opaque Z.of_nat.

Lemma invB_step : forall c s t ch s', wg_in_go c = false -> inc_late c = false ->
  InvO s -> InvB s -> step c s t ch = Some s' -> InvB s'.
Proof.
  intros c s t ch s' Hwg Hil HO (B1 & B2 & B3 & B5 & BM & B7 & B8 & B6) H. unfold InvB, spawned in *.
  pose proof (inF_le_incd (thr s)) as Hle.
  stepcases_fixed H Hwg Hil; repeat match goal with b : bool |- _ => destruct b end; simpl in *;
    try match goal with Hn : nth_error (thr s) _ = Some (_, PE EOnceBody) |- _ =>
      pose proof (once_body_wnone _ _ _ HO Hn) end;
    try match goal with Hn : nth_error (thr s) _ = Some _ |- _ =>
      ge1 incd Hn; ge1 inF Hn; ge1 wait4 Hn; ge1 mtxo Hn; ge1 ghost Hn; ge1 sdone Hn;
      cnt_facts Hn end;
    repeat match goal with E : wp s = _ |- _ => rewrite E in *; clear E end;
    repeat match goal with E : running s = _ |- _ => rewrite E in *; clear E end;
    repeat match goal with E : mu s = _ |- _ => rewrite E in *; clear E end;
    try match goal with E : queue s = [] |- _ => assert (length (queue s) = 0) by (rewrite E; reflexivity) end;
    try match goal with E : queue s = _ :: ?l |- _ => assert (length (queue s) = S (length l)) by (rewrite E; reflexivity) end;
    repeat match goal with E : wg s = _ |- _ => rewrite E in *; clear E end;
    rewrite ?app_length in *; simpl in *;
    try (apply Z.eqb_eq in Heqb);
    try solve [destruct (wp s); simpl in *; try discriminate; try contradiction;
               intuition (try congruence; try lia)].
  all: try solve [destruct (queue s) eqn:EQ; simpl in *; try discriminate; intuition (try congruence; try lia)].
  all: unfold spawned in *; destruct (wp s) eqn:EW; simpl in *; try discriminate; try contradiction.
  all: try solve [intuition (try congruence; try lia)].
  all: try solve [destruct (mu s); intuition (try congruence; try lia)].
  all: try solve [intuition (try congruence; try lia)].
  all: try solve [destruct (mu s); intuition (try congruence; try lia)].
Qed.
