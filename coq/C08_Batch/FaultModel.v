(* C08 - store faults: extension of the interleaving model (Model.step) by a fault choice.  No proofs in this file.

   kvstore/batch_writer.go, runBatchWriter:
       batchedMutation, err := bw.store.Batched();  if err != nil { panic(err) }          (two places)
       if err := batchCollector.Commit(); err != nil { panic(err) }                        (four places)
   kvstore/batch_collector.go, Commit:
       br.committed = true
       if br.writtenValuesCounter == 0 { br.batchedMuts.Cancel(); return nil }            (no store commit: cannot fail)
       if err := br.batchedMuts.Commit(); err != nil { return err }                       (<- the fault: NO BatchWriteDone)
       for i := range br.writtenValuesCounter { br.writtenValues[i].BatchWriteDone() }
   The panic is raised in the writer goroutine, which was started by `go bw.runBatchWriter()` and has no recover; the only
   deferred function on its stack is timeutil.CleanupTimer inside collectValues (stops the timer, no callback).  An
   unrecovered panic terminates the Go process: no goroutine takes another step.  Hence: a fault is a terminal event.

   A fault script is a schedule whose entries are either a normal step (FOk ch) or a fault:
     FFailCommit  - enabled when the writer is about to commit a non-empty batch (WCommit, batch <> []): the store's
                    batch Commit returns an error, nothing is applied to the store, the process dies;
     FFailBatched - enabled when the writer is about to open a batch (WBatched): store.Batched() returns an error.
   Which store call fails is a free choice of the script ("the n-th Commit call fails" is one such script). *)
From Coq Require Import List Bool Arith ZArith.
From Verif.C08_Batch Require Import Model.
Import ListNotations.

Inductive fchoice := FOk (ch : choice) | FFailCommit | FFailBatched.

Inductive crash :=
| CrCommit (b : list (obj * nat))   (* the store refused to commit the batch holding the mutations b *)
| CrBatched.                        (* the store refused to open a batch *)

Record fstate := mkf { f_st : state; f_crash : option crash }.

Definition finit (ops : list op) : fstate := mkf (init ops) None.

Definition fstep (c : config) (fs : fstate) (t : nat) (fc : fchoice) : option fstate :=
  match f_crash fs with
  | Some _ => None                                   (* the process has terminated *)
  | None =>
      let s := f_st fs in
      match fc with
      | FOk ch => match step c s t ch with Some s' => Some (mkf s' None) | None => None end
      | FFailCommit =>
          match t, wp s, batch s with
          | O, WCommit _, _ :: _ => Some (mkf s (Some (CrCommit (batch s))))
          | _, _, _ => None
          end
      | FFailBatched =>
          match t, wp s with
          | O, WBatched _ => Some (mkf s (Some CrBatched))
          | _, _ => None
          end
      end
  end.

(* a script entry that is not enabled is skipped (as in Model.run) *)
Fixpoint frun (c : config) (fsch : list (nat * fchoice)) (fs : fstate) : fstate :=
  match fsch with
  | [] => fs
  | (t, fc) :: r => frun c r (match fstep c fs t fc with Some fs' => fs' | None => fs end)
  end.

(* ---- the observable log of a run with faults (chronological) ---- *)
Inductive fev :=
| FE (e : event)
| FCommitFail (b : list (obj * nat))   (* the store's batch Commit was called with the mutations b and returned an error *)
| FBatchedFail                         (* store.Batched() returned an error *)
| FPanic.                              (* the writer goroutine panicked (the process dies) *)

Definition crash_tail (cr : option crash) : list fev :=
  match cr with
  | None => []
  | Some (CrCommit b) => [FCommitFail b; FPanic]
  | Some CrBatched => [FBatchedFail; FPanic]
  end.

Definition flog (fs : fstate) : list fev := map FE (rev (log (f_st fs))) ++ crash_tail (f_crash fs).

(* The writer protocol with faults: Model.ck_step while the store is healthy.  A failed commit must carry exactly the
   mutations written into the open batch, while no BatchWriteDone is due; it leaves the store and the open mutations as
   they are (k_unc stays: these mutations are never committed) and makes NO BatchWriteDone due.  After a failed store
   call the only acceptable event is the panic, and after the panic nothing. *)
Record fck := mkfck { fk : ck; fk_ph : nat }.   (* phase 0 = healthy, 1 = a store call failed, 2 = panicked *)

Definition fck0 : fck := mkfck ck0 0.

Definition fck_step (k : fck) (e : fev) : option fck :=
  match fk_ph k, e with
  | 0, FE e => match ck_step (fk k) e with Some k' => Some (mkfck k' 0) | None => None end
  | 0, FCommitFail b =>
      match k_pend (fk k), b with
      | [], _ :: _ => if pairs_eqb b (k_unc (fk k)) then Some (mkfck (fk k) 1) else None
      | _, _ => None
      end
  | 0, FBatchedFail =>
      match k_unc (fk k), k_pend (fk k) with
      | [], [] => Some (mkfck (fk k) 1)
      | _, _ => None
      end
  | 1, FPanic => Some (mkfck (fk k) 2)
  | _, _ => None
  end.

Fixpoint fck_run (k : fck) (l : list fev) : option fck :=
  match l with
  | [] => Some k
  | e :: r => match fck_step k e with Some k' => fck_run k' r | None => None end
  end.

Definition evs (l : list fev) : list event := flat_map (fun e => match e with FE x => [x] | _ => [] end) l.
