(* Correspondence for C13.
   VSeq / SSeq: a sequential script run on a real reactive.Variable (Event) / reactive.Set with the observed
   per-subscriber callback logs, return values and final value; the model runs the same script (one thread,
   each call to completion) and must agree.
   VFree / SFree: a free-running concurrent run; the recorded global change sequence, final value and
   every subscriber's log are judged by the executable predicates of Model.v (shape_ok, fold_log), which
   Proofs.v shows to hold in every reachable state of the model. *)
From Coq Require Import NArith List Bool Arith.
From Verif.C13_Reactive Require Import Model Api.
Import ListNotations.

(* the value-changing calls of a script; each is the Api.vcall it is in the code (Init, ToggleValue and its reset closure,
   and the Set issued by an InheritFrom callback are writers like Set) *)
Inductive vop := VSet (v : N) | VAddMod (k m : N) | VDefault (v : N)
               | VInit (v : N) | VToggle (v : N) | VReset | VInh (v : N).
Definition vcallN (o : vop) : vcall N :=
  match o with
  | VSet v => CSet v
  | VAddMod k m => CCompute (fun x => N.modulo (x + k) m)
  | VDefault v => CDefaultTo v
  | VInit v => CInit v
  | VToggle v => CToggle v
  | VReset => CReset
  | VInh v => CInherited v
  end.
Definition vfun (o : vop) : N -> N := vcall_fun N N.eqb 0%N (vcallN o).
Inductive trk := TId | TMax.          (* TMax on {0,1} is the Event transformation (||) *)
Definition trf (t : trk) : N -> N -> N := match t with TId => fun _ n => n | TMax => N.max end.

Inductive sfac := FConst (m : N * N) | FToggle (bit : N) | FKeep (mask : N).
Definition sfacf (f : sfac) : N -> N * N :=
  match f with
  | FConst m => fun _ => m
  | FToggle b => fun s => if N.testbit s b then (0%N, N.shiftl 1 b) else (N.shiftl 1 b, 0%N)
  | FKeep mask => fun s => (0%N, N.ldiff s mask)
  end.
Inductive sopx := OApply (m : N * N) | OCompute (f : sfac) | OReplace (e : N) | ODecode (e : N).
Definition scallN (o : sopx) : scall :=
  match o with OApply m => KApply m | OCompute f => KCompute (sfacf f) | OReplace e => KReplace e | ODecode e => KDecode e end.
Definition sopf (o : sopx) : sop := scall_op (scallN o).

(* ---- subscription variants: what the script's callbacks record, as (N * N) events ---- *)
Inductive cnd := CAll | CNewGe (k : N) | CNewNz | CPrevNz.
Definition cnd2 (c : cnd) (p n : N) : bool :=
  match c with CAll => true | CNewGe k => N.leb k n | CNewNz => negb (N.eqb n 0) | CPrevNz => negb (N.eqb p 0) end.
Definition cnd1 (c : cnd) (n : N) : bool := cnd2 c 0%N n.
Inductive view :=
| VwPlain                    (* OnUpdate / OnTrigger *)
| VwOnce (c : option cnd)    (* OnUpdateOnce [condition] *)
| VwCtx (c : cnd)            (* OnUpdateWithContext; withinContext(setup) when c(new) *)
| VwWith (c : cnd)           (* WithValue (CAll: no condition) / WithNonEmptyValue (CNewNz) *)
| VwLog.                     (* LogUpdates *)
Definition enc (e : cev N) : N * N :=
  match e with
  | ECond p n | ECb p n => (p, n)
  | EUser p n => (1000 + p, n)
  | ESetup v => (2000, v)
  | ETeardown v => (3000, v)
  | ELogged v => (5000, v)
  end%N.
Definition observe (w : view) (l : list (N * N)) (fin : bool) : list (N * N) :=
  match w with
  | VwPlain => l
  | VwOnce c => map enc (once_obs N (option_map cnd2 c) l)
  | VwCtx c => map enc (ctx_obs N true (cnd1 c) None l fin)
  | VwWith c => map enc (ctx_obs N false (cnd1 c) None l fin)
  | VwLog => map enc (log_obs N l)
  end.
Inductive sview := SwPlain | SwWith (cm : N).     (* Set.OnUpdate / Set.WithElements with condition "element in cm" *)
Definition sobserve (w : sview) (l : list (N * N)) (fin : bool) : list (N * N) :=
  match w with
  | SwPlain => l
  | SwWith cm => map (fun e : bool * N => ((if fst e then 2000%N else 3000%N), snd e)) (norm_ev (wel_obs cm 0%N l fin))
  end.

Definition sub := (bool * bool * list (N * N))%type.      (* trigger-with-zero flag, complete (never unsubscribed), log *)

Inductive case :=
| VSeq (t : trk) (ops : list (op vop)) (ncb : nat) (logs : list (list (N * N))) (rets : list N) (final : N)
| SSeq (s0 : N) (ops : list (op sopx)) (ncb : nat) (logs : list (list (N * N))) (rets : list (N * N)) (final : N)
(* scripts over the whole exported API: [views] gives the subscription variant of each callback name, [obs] what its
   user-visible callbacks recorded *)
| VApi (t : trk) (ops : list (op vop)) (views : list view) (obs : list (list (N * N))) (rets : list N) (final : N)
| SApi (s0 : N) (ops : list (op sopx)) (views : list sview) (obs : list (list (N * N))) (rets : list (N * N)) (final : N)
(* sequential scripts over several wired sets (Api.wired_program): the target is a DerivedSet (InheritFrom / un-inherit,
   source writes AND direct writes) or the result of SubtractReactive; [obs] = what the target's subscribers recorded,
   [rets] = return values of the script's own write calls on the target, [srcfinal] = final contents of the sources *)
| DApi (k : wkind) (s0s : list N) (ops : list (wop sopx)) (views : list sview) (obs : list (list (N * N)))
       (rets : list (N * N)) (final : N) (srcfinal : list N)
| VFree (G : list (N * N)) (final : N) (subs : list sub)
| SFree (s0 : N) (G : list (N * N)) (final : N) (subs : list sub).

Definition pair_eqb (a b : N * N) : bool := N.eqb (fst a) (fst b) && N.eqb (snd a) (snd b).
Fixpoint leqb {A} (e : A -> A -> bool) (a b : list A) : bool :=
  match a, b with
  | [], [] => true
  | x :: a', y :: b' => e x y && leqb e a' b'
  | _, _ => false
  end.

Section Seq.
  Variables S D W R : Type.
  Variable nonzero : S -> bool.
  Variable initD : S -> D.
  Variable wr : W -> S -> wres S D R.
  Variable wskip : W -> option R.
  Let st := state S D W R.
  (* one call run to completion by thread 0: the op, then as many further steps as it can take *)
  Definition call (s : st) (o : op W) : st :=
    run S D W R nonzero initD wr wskip
        ((0, Some o) :: repeat (0, None) (8 + 3 * length (reg s))) s.
  Definition run_seq (ops : list (op W)) (s : st) : st := fold_left call ops s.
  Definition idle (s : st) : bool := match thr s 0 with Idle => true | _ => false end.
  Definition logs_of (s : st) (n : nat) : list (list D) :=
    map (fun c => match cbs s c with Some b => log b | None => [] end) (seq 0 n).
  Definition obs_of {Vw O} (observe : Vw -> list D -> bool -> O) (dflt : O) (s : st) (views : list Vw) : list O :=
    map (fun cw => match cbs s (fst cw) with
                   | Some b => observe (snd cw) (log b) (unsubd b)
                   | None => dflt
                   end) (combine (seq 0 (length views)) views).
End Seq.

(* Variable: each change is (previous, new) with previous = the value before and new <> previous *)
Fixpoint v_chain (cur : N) (G : list (N * N)) : bool :=
  match G with
  | [] => true
  | (p, n) :: r => N.eqb p cur && negb (N.eqb n cur) && v_chain n r
  end.
(* Set: each reported mutation is the true difference: added elements were absent, deleted ones present *)
Definition s_legal (s : N) (d : N * N) : bool :=
  N.eqb (N.land (fst d) s) 0 && N.eqb (N.ldiff (snd d) (N.lor s (fst d))) 0.
Fixpoint s_chain (cur : N) (G : list (N * N)) : bool :=
  match G with
  | [] => true
  | d :: r => s_legal cur d && s_chain (s_apply cur d) r
  end.

Definition v_shape := shape_ok N (N * N) (v_apply N) 0%N (v_nonzero N N.eqb 0%N) (v_initD N 0%N) pair_eqb N.eqb.
Definition s_shape := shape_ok N (N * N) s_apply 0%N s_nonzero s_initD pair_eqb N.eqb.

Definition sub_ok (shape : N -> list (N * N) -> bool -> bool -> list (N * N) -> bool)
           (fold : list (N * N) -> N) (s0 : N) (G : list (N * N)) (final : N) (x : sub) : bool :=
  let '(trig, complete, l) := x in
  shape s0 G trig complete l && (if complete then N.eqb (fold l) final else true).

(* the return values of the calls flagged as the script's own (every Write yields exactly one entry of [rets]) *)
Fixpoint own_rets {W R} (prog : list (op W * bool)) (rets : list R) : list R :=
  match prog with
  | [] => []
  | (Write _, own) :: p => match rets with
                           | r :: rs => if own then r :: own_rets p rs else own_rets p rs
                           | [] => []
                           end
  | _ :: p => own_rets p rets
  end.

Definition agree (c : case) : bool :=
  match c with
  | VSeq t ops ncb logs rets final =>
      let s := run_seq N (N * N) (N -> N) N (v_nonzero N N.eqb 0%N) (v_initD N 0%N) (v_wr N N.eqb (trf t))
                       (v_wskip N) (map (map_op vfun) ops) (init N (N * N) (N -> N) N 0%N) in
      idle _ _ _ _ s && leqb (leqb pair_eqb) (logs_of _ _ _ _ s ncb) logs
      && leqb N.eqb (Model.rets s) rets && N.eqb (val s) final
  | SSeq s0 ops ncb logs rets final =>
      let s := run_seq N (N * N) sop (N * N) s_nonzero s_initD s_wr s_wskip
                       (map (map_op sopf) ops) (init N (N * N) sop (N * N) s0) in
      idle _ _ _ _ s && leqb (leqb pair_eqb) (logs_of _ _ _ _ s ncb) logs
      && leqb pair_eqb (Model.rets s) rets && N.eqb (val s) final
  | VApi t ops views obs rets final =>
      let s := run_seq N (N * N) (N -> N) N (v_nonzero N N.eqb 0%N) (v_initD N 0%N) (v_wr N N.eqb (trf t))
                       (v_wskip N) (map (map_op vfun) ops) (init N (N * N) (N -> N) N 0%N) in
      idle _ _ _ _ s && leqb (leqb pair_eqb) (obs_of _ _ _ _ observe [] s views) obs
      && leqb N.eqb (Model.rets s) rets && N.eqb (val s) final
  | SApi s0 ops views obs rets final =>
      let s := run_seq N (N * N) sop (N * N) s_nonzero s_initD s_wr s_wskip
                       (map (map_op sopf) ops) (init N (N * N) sop (N * N) s0) in
      idle _ _ _ _ s && leqb (leqb pair_eqb) (obs_of _ _ _ _ sobserve [] s views) obs
      && leqb pair_eqb (Model.rets s) rets && N.eqb (val s) final
  | DApi k s0s ops views obs rets final srcfinal =>
      let '(wst, prog) := wired_program k s0s (map (map_wop scallN) ops) in
      let s := run_seq N (N * N) sop (N * N) s_nonzero s_initD s_wr s_wskip
                       (map (fun x => map_op scall_op (fst x)) prog) (init N (N * N) sop (N * N) 0%N) in
      idle _ _ _ _ s && leqb (leqb pair_eqb) (obs_of _ _ _ _ sobserve [] s views) obs
      && leqb pair_eqb (own_rets prog (Model.rets s)) rets && N.eqb (val s) final
      && leqb N.eqb (map (ws_src wst) (seq 0 (length srcfinal))) srcfinal
  | VFree G final subs =>
      v_chain 0%N G && N.eqb (fold_left (v_apply N) G 0%N) final
      && forallb (sub_ok v_shape (fold_log N (N * N) (v_apply N) 0%N) 0%N G final) subs
  | SFree s0 G final subs =>
      s_chain s0 G && N.eqb (fold_left s_apply G s0) final
      && forallb (sub_ok s_shape (fold_log N (N * N) s_apply 0%N) s0 G final) subs
  end.

Fixpoint mismatches_from (i : nat) (cs : list case) : list nat :=
  match cs with
  | [] => []
  | c :: r => if agree c then mismatches_from (Datatypes.S i) r else i :: mismatches_from (Datatypes.S i) r
  end.
Definition mismatches (cs : list case) : list nat := mismatches_from 0 cs.

(* smoke tests *)
Example seq_var_smoke :
  agree (VSeq TId [Write (VSet 2%N); Subscribe 0 false; Write (VSet 2%N); Write (VAddMod 1 4); Subscribe 1 true;
                   Unsub 0; Write (VSet 0%N)] 2
              [[(0,2);(2,3)]; [(0,3);(3,0)]]%N [0;2;2;3]%N 0%N) = true.
Proof. vm_compute. reflexivity. Qed.

Example seq_set_d13_regression :   (* {1,2}.Replace({2,3}) must report added {3}, deleted {1} *)
  agree (SSeq 6%N [Subscribe 0 false; Write (OReplace 12%N)] 1 [[(6,0);(8,2)]]%N [(0,2)]%N 12%N) = true.
Proof. vm_compute. reflexivity. Qed.

(* Init on a live variable is a write like any other: the subscriber is told, the chain is unbroken *)
Example api_init_on_live_variable :
  agree (VApi TId [Write (VInit 1%N); Subscribe 0 false; Write (VSet 2%N); Write (VInit 7%N); Write (VSet 9%N); Write (VInit 11%N)]
              [VwPlain] [[(0,1);(1,2);(2,7);(7,9);(9,11)]]%N [0;1;2;7;9]%N 11%N) = true.
Proof. vm_compute. reflexivity. Qed.

Example api_views_smoke :
  agree (VApi TId [Subscribe 0 false; Subscribe 1 true; Subscribe 2 true; Write (VSet 2%N); Write (VToggle 3%N); Write VReset; Unsub 1]
              [VwOnce (Some (CNewGe 3%N)); VwCtx CNewNz; VwWith CAll]
              [[(0,2);(2,3);(1002,3)]; [(0,0);(0,2);(2000,2);(3000,2);(2,3);(2000,3);(3000,3);(3,0)];
               [(2000,0);(3000,0);(2000,2);(3000,2);(2000,3);(3000,3);(2000,0)]]%N [0;2;3]%N 0%N) = true.
Proof. vm_compute. reflexivity. Qed.

Example api_withelements_smoke :   (* {0,1}; condition = elements {0,2}; add 2, delete 0, teardown *)
  agree (SApi 3%N [Subscribe 0 false; Write (OApply (4, 0)%N); Write (OApply (0, 1)%N); Unsub 0]
              [SwWith 5%N] [[(2000,5);(3000,1);(3000,4)]]%N [(4,0);(0,1)]%N 6%N) = false.
Proof. vm_compute. reflexivity. Qed.
Example api_withelements_smoke2 :   (* adjacent teardowns are merged: 3000,1 then 3000,4 = 3000,5 *)
  agree (SApi 3%N [Subscribe 0 false; Write (OApply (4, 0)%N); Write (OApply (0, 1)%N); Unsub 0]
              [SwWith 5%N] [[(2000,5);(3000,5)]]%N [(4,0);(0,1)]%N 6%N) = true.
Proof. vm_compute. reflexivity. Qed.

(* Decode on a live set is a write like any other (fix a05beeb): {0,1}, a subscriber, Decode(enc{1,2}) *)
Example api_decode_on_live_set :
  agree (SApi 3%N [Subscribe 0 false; Write (ODecode 6%N); Write (ODecode 6%N)] [SwPlain]
              [[(3,0);(4,0)]]%N [(4,0);(0,0)]%N 7%N) = true.
Proof. vm_compute. reflexivity. Qed.

(* A DerivedSet that is also written directly: Add(0) directly, the source adds 0 (nothing changes: the subscriber is told
   an EMPTY mutation), Delete(0) directly, the source deletes 0 (again nothing changes), the source adds 1. *)
Example api_derived_direct_and_inherited :
  agree (DApi WDerived [0%N] [WInherit 0 [0]; WDir (Subscribe 0 false); WDir (Write (OApply (1, 0)%N)); WSrc 0 (OApply (1, 0)%N);
                             WDir (Write (OApply (0, 1)%N)); WSrc 0 (OApply (0, 1)%N); WSrc 0 (OApply (2, 0)%N)]
              [SwPlain] [[(1,0);(0,0);(0,1);(0,0);(2,0)]]%N [(1,0);(0,1)]%N 2%N [2%N]) = true.
Proof. vm_compute. reflexivity. Qed.
(* reporting the REQUESTED net mutations instead (1,0);(1,0);(0,1);(0,1) is not what the model does *)
Example api_derived_requested_is_not_applied :
  agree (DApi WDerived [0%N] [WInherit 0 [0]; WDir (Subscribe 0 false); WDir (Write (OApply (1, 0)%N)); WSrc 0 (OApply (1, 0)%N);
                             WDir (Write (OApply (0, 1)%N)); WSrc 0 (OApply (0, 1)%N); WSrc 0 (OApply (2, 0)%N)]
              [SwPlain] [[(1,0);(1,0);(0,1);(0,1);(2,0)]]%N [(1,0);(0,1)]%N 2%N [2%N]) = false.
Proof. vm_compute. reflexivity. Qed.
(* two sources providing the same element, un-inherit of one, then of the other; {0,1} minus {1} reactively *)
Example api_derived_two_sources :
  agree (DApi WDerived [3%N; 2%N] [WDir (Subscribe 0 true); WInherit 0 [0; 1]; WSrc 1 (OApply (4, 2)%N); WInherit 1 [1];
                                   WUninherit 0; WDir (Write (OReplace 1%N)); WUninherit 1]
              [SwPlain] [[(0,0);(3,0);(0,0);(4,0);(0,0);(0,3);(0,0);(1,4);(0,0)]]%N [(0,4)]%N 1%N [3%N; 4%N]) = true.
Proof. vm_compute. reflexivity. Qed.
Example api_subtract_reactive :
  agree (DApi (WSubtract 1) [3%N; 2%N] [WDir (Subscribe 0 false); WSrc 1 (OApply (1, 2)%N); WDir (Write (OApply (0, 2)%N));
                                        WSrc 0 (OApply (4, 0)%N); WSrc 1 (OApply (0, 1)%N)]
              [SwPlain] [[(1,0);(2,1);(0,2);(4,0);(1,0)]]%N [(0,2)]%N 5%N [7%N; 0%N]) = true.
Proof. vm_compute. reflexivity. Qed.
