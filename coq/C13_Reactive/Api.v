(* C13 - the exported API of reactive.Variable / Event / Set expressed as programs over the step kinds of Model.v.

   The model has ONE write path (Write w: update-order mutex, value step under the value mutex, notification loop),
   ONE registration path (Subscribe) and ONE deregistration path (Unsub).  Every exported method of
   ds/reactive/variable_impl.go, event_impl.go, set_impl.go that changes the value or (un)registers a callback is
   listed here as the writer / subscriber / unsubscriber program it is in the code; what its user-visible callbacks
   (condition, setup, teardown, ...) observe is a pure function of the underlying subscription's log, so the
   invariant of Inv.v (log shape, completeness, chain) covers it.  No proofs in this file.

   variable_impl.go
     Set(v)                 :43   Compute(const v)                                   -> Write (CSet v)
     Compute(f)             :48   the writer of the model                             -> Write (CCompute f)
     Init(v)                :36   v.Set(v); return v    (a WRITER, on fresh and on live variables) -> Write (CInit v)
     DefaultTo(d)           :67   Compute(cur == zero ? d : cur)                      -> Write (CDefaultTo d)
     ToggleValue(v)         :99   Set(v); the returned reset closure is Set(zero)     -> Write (CToggle v) / Write CReset
     InheritFrom(other)     :82   other.OnUpdate(func(_, n){ v.Set(n) }, true): a subscriber of [other] (Subscribe c true /
                                  Unsub c in other's system) and, in v's system, the writer program
                                  [Write (CInherited n) | (_, n) <- log of that subscription]
     DeriveValueFrom(src)   :90   InheritFrom(src) + src.Unsubscribe (DerivedVariable: C14)
     OnUpdate(cb, trig)     :184  Subscribe c trig ; returned closure = Unsub c
     OnUpdateOnce(cb, cond) :212  Subscribe c false ; after the first accepted delta a fresh goroutine issues Unsub c;
                                  cond / cb observe [once_obs]
     OnUpdateWithContext    :244  Subscribe c trig ; returned closure = Unsub c, then the last context is cancelled;
                                  the contexts observe [ctx_obs]
     WithValue(setup, cond) :168  OnUpdateWithContext(.., true) with withinContext(setup) when cond(new)
     WithNonEmptyValue      :179  WithValue(setup, value != zero)
     LogUpdates             :277  Subscribe c false inside logger.OnLogLevelActive; logs the new values
   event_impl.go
     Trigger()              :19   Set(true) on Variable[bool] with (||)               -> Write (CSet true)
     OnTrigger(h)           :29   OnUpdate(func(_, _){ h() })                         -> Subscribe c false
   set_impl.go
     Add/AddAll/Delete/DeleteAll :30-47  Apply                                         -> Write (SApply m)
     Apply / Compute / Replace   :50-105                                               -> Write (SApply/SCompute/SReplace)
     OnUpdate(cb, trig)     :177  Subscribe c trig ; returned closure = Unsub c
     WithElements(setup, cond) :229  Subscribe c false ; teardown = Unsub c then tear down what is active; [wel_obs]
     Decode(api, bytes)     :108  (after fix a05beeb) decode into a fresh ds.Set, then AddAll(decoded)   -> Write (SApply (e, 0));
                                  a failing decode changes nothing (no operation).  The pinned code wrote the elements
                                  under the value mutex only ([decode_step_pinned] below, refuted in ApiProofs.v)
     DerivedSet.InheritFrom(srcs...) :296  per source a subscriber of the source (OnUpdate without zero trigger) keeping
                                  [sourceElements]; every delivered mutation - and, on un-inherit, "delete sourceElements" -
                                  goes through inheritMutations :317 = the WRITER of the derived set whose section under
                                  the value mutex (applyInheritedMutations :335) turns the mutation into the net mutation
                                  m by the occurrence counts (ds.SetArithmetic; the bookkeeping itself is C14's) and
                                  reports value.Apply(m), always notifying              -> Write (KInherit m)
                                  A DerivedSet is a full Set: the same object is also written directly (Add .. Replace).
     SubtractReactive(others...) :209  result set s; r.OnUpdate(m => s.Compute(const arithmetic.Add(m))), others:
                                  s.Compute(const arithmetic.Subtract(m))                -> Write (KCompute (fun _ => net))
                                  [wired_program] below is the sequential composition used by the correspondence.
   Out of scope (reason): WHICH net mutation the occurrence counts yield (DerivedSet / SubtractReactive contents = C14),
   DerivedVariable (C14), Get/Read/ReadOnly/WasTriggered/Encode (readers). *)
From Coq Require Import List Bool Arith NArith ZArith.
From Verif.C13_Reactive Require Import Model.
Import ListNotations.

Definition map_op {A B} (f : A -> B) (o : op A) : op B :=
  match o with Write w => Write (f w) | Subscribe c t => Subscribe c t | Unsub c => Unsub c end.
Definition map_sch {A B} (f : A -> B) (sch : list (nat * option (op A))) : list (nat * option (op B)) :=
  map (fun e => (fst e, option_map (map_op f) (snd e))) sch.

(* ---------------- value-changing methods of Variable[V] ---------------- *)
Section VarCalls.
  Variable V : Type.
  Variable eqV : V -> V -> bool.
  Variable zeroV : V.

  Inductive vcall :=
  | CSet (v : V)
  | CCompute (f : V -> V)
  | CInit (v : V)
  | CDefaultTo (d : V)
  | CToggle (v : V)
  | CReset
  | CInherited (v : V).

  (* the function each method hands to Compute (variable_impl.go:44, 37, 68-76, 100, 103, 84) *)
  Definition vcall_fun (c : vcall) : V -> V :=
    match c with
    | CSet v | CInit v | CToggle v | CInherited v => fun _ => v
    | CCompute f => f
    | CDefaultTo d => fun cur => if eqV cur zeroV then d else cur
    | CReset => fun _ => zeroV
    end.

  Definition api_sch := map_sch vcall_fun.

  (* the writer program InheritFrom contributes to the inheriting variable: one Set per delta delivered by the source *)
  Definition inherit_program (srclog : list (V * V)) : list (op vcall) :=
    map (fun d => Write (CInherited (snd d))) srclog.

  (* ---------------- subscription variants: what their user callbacks observe, from the underlying log ---------------- *)
  Inductive cev := ECond (p n : V) | EUser (p n : V) | ECb (p n : V) | ESetup (v : V) | ETeardown (v : V) | ELogged (v : V).

  (* OnUpdateOnce: the condition is asked about every delta until it accepts one; the user callback gets that one.
     Without a condition the first delta is accepted. *)
  Fixpoint once_obs (cond : option (V -> V -> bool)) (l : list (V * V)) : list cev :=
    match l with
    | [] => []
    | (p, n) :: r =>
        match cond with
        | None => [EUser p n]
        | Some f => if f p n then [ECond p n; EUser p n] else ECond p n :: once_obs cond r
        end
    end.
  Definition once_accepts (cond : option (V -> V -> bool)) (d : V * V) : bool :=
    match cond with None => true | Some f => f (fst d) (snd d) end.

  (* OnUpdateWithContext with the WithValue discipline (a context is set up for the new value when [acc new]):
     every invocation first cancels the previous context, then runs the callback; the final unsubscribe cancels the last. *)
  Definition teardown_of (active : option V) : list cev :=
    match active with Some a => [ETeardown a] | None => [] end.
  Fixpoint ctx_obs (showcb : bool) (acc : V -> bool) (active : option V) (l : list (V * V)) (fin : bool) : list cev :=
    match l with
    | [] => if fin then teardown_of active else []
    | (p, n) :: r =>
        teardown_of active ++ (if showcb then [ECb p n] else []) ++
        (if acc n then ESetup n :: ctx_obs showcb acc (Some n) r fin else ctx_obs showcb acc None r fin)
    end.
  (* the context that is active after the log (nothing after the final unsubscribe) *)
  Fixpoint ctx_active (acc : V -> bool) (active : option V) (l : list (V * V)) : option V :=
    match l with
    | [] => active
    | (p, n) :: r => ctx_active acc (if acc n then Some n else None) r
    end.

  Definition log_obs (l : list (V * V)) : list cev := map (fun d => ELogged (snd d)) l.
End VarCalls.

Arguments CSet {V}.
Arguments CCompute {V}.
Arguments CInit {V}.
Arguments CDefaultTo {V}.
Arguments CToggle {V}.
Arguments CReset {V}.
Arguments CInherited {V}.
Arguments ECond {V}.
Arguments EUser {V}.
Arguments ECb {V}.
Arguments ESetup {V}.
Arguments ETeardown {V}.
Arguments ELogged {V}.

(* ---------------- Set.WithElements (elements as bits; [cm] = the elements satisfying the condition) ---------------- *)
(* per delivered mutation: set up the added elements that satisfy the condition, then tear down the deleted ones that
   are active; the final teardown tears down everything active.  Events: (true, mask) = setups, (false, mask) = teardowns. *)
Fixpoint wel_obs (cm active : N) (l : list (N * N)) (fin : bool) : list (bool * N) :=
  match l with
  | [] => if fin then [(false, active)] else []
  | (a, d) :: r =>
      let su := N.land a cm in
      let act := N.lor active su in
      let td := N.land d act in
      (true, su) :: (false, td) :: wel_obs cm (N.ldiff act td) r fin
  end.
Fixpoint wel_active (cm active : N) (l : list (N * N)) : N :=
  match l with
  | [] => active
  | (a, d) :: r => let act := N.lor active (N.land a cm) in wel_active cm (N.ldiff act (N.land d act)) r
  end.
(* the order of setups (teardowns) inside one callback follows Go's map iteration: adjacent events of one kind are merged *)
Fixpoint merge_ev (l : list (bool * N)) : list (bool * N) :=
  match l with
  | [] => []
  | (t1, m1) :: r =>
      match merge_ev r with
      | (t2, m2) :: r' => if Bool.eqb t1 t2 then (t1, N.lor m1 m2) :: r' else (t1, m1) :: (t2, m2) :: r'
      | [] => [(t1, m1)]
      end
  end.
Definition norm_ev (l : list (bool * N)) : list (bool * N) :=
  merge_ev (filter (fun e => negb (N.eqb (snd e) 0)) l).

(* ---------------- value-changing methods of Set ---------------- *)
Inductive scall :=
| KApply (m : N * N)            (* Apply; Add/AddAll = (e, 0); Delete/DeleteAll = (0, e) *)
| KCompute (f : N -> N * N)
| KReplace (e : N)
| KDecode (e : N)               (* Decode of the encoding of the elements e (after fix a05beeb) *)
| KInherit (m : N * N).         (* derivedSet.inheritMutations whose occurrence counts yield the net mutation m *)
Definition scall_op (c : scall) : sop :=
  match c with
  | KApply m => SApply m
  | KCompute f => SCompute f
  | KReplace e => SReplace e
  | KDecode e => SApply (e, 0%N)
  | KInherit m => SCompute (fun _ => m)   (* reports value.Apply(m), notifies even when nothing changed *)
  end.
Definition sapi_sch := map_sch scall_op.

(* ---------------- Set.Decode as it was in the pinned code (set_impl.go:108-113 before a05beeb) ---------------- *)
(* readableSet.mutex.Lock(); s.value.Decode(api, b) (= insert every decoded element); Unlock().  One critical section
   without blocking, hence one atomic step, enabled when the value mutex is free.  No update-order mutex, no update id,
   no callback snapshot, no notification, and the change is not part of [hist]. *)
Definition decode_step_pinned (s : state N (N * N) sop (N * N)) (e : N) : option (state N (N * N) sop (N * N)) :=
  match vm s with
  | None => Some (mkSt N (N * N) sop (N * N) (N.lor (val s) e) (uid s) (ord s) (vm s) (reg s) (cbs s) (thr s) (hist s) (rets s))
  | Some _ => None
  end.

(* ---------------- several sets wired together: the write path of a DerivedSet / of the result of SubtractReactive ------- *)
(* ds.setArithmetic (ds/set_impl.go:351-408) with the default threshold 1: occurrence count per element; an element enters
   the net mutation when its count reaches 1 (rising) / 0 (falling), cancelling an opposite entry of the same call. *)
Definition bitN (i : nat) : N := N.shiftl 1 (N.of_nat i).
Definition bits_of (m : N) : list nat := filter (N.testbit_nat m) (seq 0 (N.size_nat m)).
Definition acc := ((nat -> Z) * (N * N))%type.
Definition coll (increase : bool) (st : acc) (i : nat) : acc :=
  let '(c, (a, d)) := st in
  let v := (c i + (if increase then 1 else -1))%Z in
  let c' := updf c i v in
  if Z.eqb v (if increase then 1 else 0)%Z then
    if increase
    then (if N.testbit_nat d i then (c', (a, N.ldiff d (bitN i))) else (c', (N.lor a (bitN i), d)))
    else (if N.testbit_nat a i then (c', (N.ldiff a (bitN i), d)) else (c', (a, N.lor d (bitN i))))
  else (c', (a, d)).
Definition arith_add (c : nat -> Z) (m : N * N) : acc :=
  fold_left (coll false) (bits_of (snd m)) (fold_left (coll true) (bits_of (fst m)) (c, (0%N, 0%N))).
Definition arith_sub (c : nat -> Z) (m : N * N) : acc :=
  fold_left (coll true) (bits_of (snd m)) (fold_left (coll false) (bits_of (fst m)) (c, (0%N, 0%N))).

(* a sequential script over the wired objects: sources (plain reactive Sets) and the target set *)
Inductive wop (C : Type) :=
| WSrc (i : nat) (c : C)                 (* a write call on source i *)
| WDir (o : op C)                        (* a call on the target itself: direct write / subscribe / unsubscribe *)
| WInherit (h : nat) (srcs : list nat)   (* handle h := target.InheritFrom(sources...) *)
| WUninherit (h : nat).                  (* the unsubscribe function of handle h *)
Arguments WSrc {C}.
Arguments WDir {C}.
Arguments WInherit {C}.
Arguments WUninherit {C}.
Definition map_wop {A B} (f : A -> B) (o : wop A) : wop B :=
  match o with WSrc i c => WSrc i (f c) | WDir o' => WDir (map_op f o') | WInherit h l => WInherit h l | WUninherit h => WUninherit h end.

Inductive wkind := WDerived | WSubtract (nothers : nat).   (* NewDerivedSet() / source0.SubtractReactive(source1..n) *)
Record inh := mkInh { i_h : nat; i_src : nat; i_elems : N; i_live : bool }.   (* one source of one InheritFrom call *)
Record wst := mkWst { ws_src : nat -> N; ws_cnt : nat -> Z; ws_inh : list inh }.

(* a write call on a source: its new contents and the mutation its subscribers are told (None: nobody is called) *)
Definition src_write (c : scall) (s : N) : N * option (N * N) :=
  match s_wskip (scall_op c) with
  | Some _ => (s, None)
  | None => let r := s_wr (scall_op c) s in (w_new r, w_delta r)
  end.

(* source i tells mutation d: every live inheritance of i (registration order) applies it to its sourceElements and
   hands the applied part to inheritMutations *)
Fixpoint deliver (i : nat) (d : N * N) (l : list inh) (c : nat -> Z) : list inh * (nat -> Z) * list (N * N) :=
  match l with
  | [] => ([], c, [])
  | e :: r =>
      if i_live e && Nat.eqb (i_src e) i then
        let '(c1, m) := arith_add c (s_applied (i_elems e) d) in
        let '(r', c2, ms) := deliver i d r c1 in
        (mkInh (i_h e) (i_src e) (s_apply (i_elems e) d) true :: r', c2, m :: ms)
      else
        let '(r', c2, ms) := deliver i d r c in (e :: r', c2, ms)
  end.
(* InheritFrom(srcs...): per source OnUpdate without zero trigger: the contents, when not empty, arrive as "added" *)
Fixpoint inherit_all (h : nat) (src : nat -> N) (srcs : list nat) (c : nat -> Z) : list inh * (nat -> Z) * list (N * N) :=
  match srcs with
  | [] => ([], c, [])
  | i :: r =>
      if s_nonzero (src i) then
        let '(c1, m) := arith_add c (src i, 0%N) in
        let '(es, c2, ms) := inherit_all h src r c1 in
        (mkInh h i (src i) true :: es, c2, m :: ms)
      else
        let '(es, c2, ms) := inherit_all h src r c in
        (mkInh h i 0%N true :: es, c2, ms)
  end.
(* the function returned by InheritFrom: per source unsubscribe, then inheritMutations(delete sourceElements); a second
   call repeats the deletions (sourceElements is not cleared) *)
Fixpoint uninherit_all (h : nat) (l : list inh) (c : nat -> Z) : list inh * (nat -> Z) * list (N * N) :=
  match l with
  | [] => ([], c, [])
  | e :: r =>
      if Nat.eqb (i_h e) h then
        let '(c1, m) := arith_add c (0%N, i_elems e) in
        let '(r', c2, ms) := uninherit_all h r c1 in
        (mkInh (i_h e) (i_src e) (i_elems e) false :: r', c2, m :: ms)
      else
        let '(r', c2, ms) := uninherit_all h r c in (e :: r', c2, ms)
  end.

(* one script step: the new wiring state and the operations it issues on the TARGET set; the flag marks the calls made
   by the script itself (their return value is observable) *)
Definition inherited (ms : list (N * N)) : list (op scall * bool) := map (fun m => (Write (KInherit m), false)) ms.
Definition wstep (k : wkind) (st : wst) (o : wop scall) : wst * list (op scall * bool) :=
  match o with
  | WDir o' => (st, [(o', true)])
  | WSrc i c =>
      let '(s', od) := src_write c (ws_src st i) in
      let src' := updf (ws_src st) i s' in
      match od with
      | None => (mkWst src' (ws_cnt st) (ws_inh st), [])
      | Some d =>
          match k with
          | WDerived =>
              let '(l', c', ms) := deliver i d (ws_inh st) (ws_cnt st) in (mkWst src' c' l', inherited ms)
          | WSubtract n =>
              if Nat.leb i n then
                let '(c', m) := (if Nat.eqb i 0 then arith_add else arith_sub) (ws_cnt st) d in
                (mkWst src' c' (ws_inh st), [(Write (KCompute (fun _ => m)), false)])
              else (mkWst src' (ws_cnt st) (ws_inh st), [])
          end
      end
  | WInherit h srcs =>
      let '(es, c', ms) := inherit_all h (ws_src st) srcs (ws_cnt st) in
      (mkWst (ws_src st) c' (ws_inh st ++ es), inherited ms)
  | WUninherit h =>
      let '(l', c', ms) := uninherit_all h (ws_inh st) (ws_cnt st) in
      (mkWst (ws_src st) c' l', inherited ms)
  end.
Fixpoint wsteps (k : wkind) (st : wst) (ops : list (wop scall)) : wst * list (op scall * bool) :=
  match ops with
  | [] => (st, [])
  | o :: r => let '(st1, l1) := wstep k st o in let '(st2, l2) := wsteps k st1 r in (st2, l1 ++ l2)
  end.
(* SubtractReactive subscribes at construction: the non-empty contents of source 0 are added, those of the others subtracted *)
Fixpoint subtract_init (src : nat -> N) (is : list nat) (c : nat -> Z) : (nat -> Z) * list (op scall * bool) :=
  match is with
  | [] => (c, [])
  | i :: r =>
      if s_nonzero (src i) then
        let '(c1, m) := (if Nat.eqb i 0 then arith_add else arith_sub) c (src i, 0%N) in
        let '(c2, l) := subtract_init src r c1 in (c2, (Write (KCompute (fun _ => m)), false) :: l)
      else subtract_init src r c
  end.
Definition wired_program (k : wkind) (s0s : list N) (ops : list (wop scall)) : wst * list (op scall * bool) :=
  let src := fun i => nth i s0s 0%N in
  let '(c0, l0) := match k with
                   | WDerived => (fun _ => 0%Z, [])
                   | WSubtract n => subtract_init src (seq 0 (Datatypes.S n)) (fun _ => 0%Z)
                   end in
  let '(st, l) := wsteps k (mkWst src c0 []) ops in (st, l0 ++ l).

(* a write path that reports the REQUESTED mutations of Compute / inheritMutations instead of what value.Apply changed
   (refuted in ApiProofs.v: the class of defect the wired family exists for) *)
Definition s_wr_requested (w : sop) (s : N) : wres N (N * N) (N * N) :=
  match w with
  | SCompute f => mkW (s_apply s (f s)) (Some (f s)) true (f s)
  | _ => s_wr w s
  end.
Definition s_run_requested := run N (N * N) sop (N * N) s_nonzero s_initD s_wr_requested s_wskip.
(* the schedules whose calls are all issued by a wired script *)
Definition drawn_from (prog : list (op scall * bool)) (sch : list (nat * option (op scall))) : Prop :=
  forall t o, In (t, Some o) sch -> In o (map fst prog).
