(* C13 - the exported API of reactive.Variable / Event / Set expressed as programs over the step kinds of Model.v.

   The model has ONE write path (Write w: update-order mutex, value step under the value mutex, notification loop),
   ONE registration path (Subscribe) and ONE deregistration path (Unsub).  Every exported method of
   ds/reactive/variable_impl.go, event_impl.go, set_impl.go that changes the value or (un)registers a callback is
   listed here as the writer / subscriber / unsubscriber program it is in the code; what its user-visible callbacks
   (condition, setup, teardown, ...) observe is a pure function of the underlying subscription's log, so the
   invariant of Inv.v (log shape, completeness, chain) covers it.  No proofs in this file.

   variable_impl.go
     Set(v)                 :43   Compute(const v)                                   -> Write (CSet v)
     Compute(f)             :48   the writer of the model                             -> Write (CCompute f)
     Init(v)                :36   v.Set(v); return v    (a WRITER, on fresh and on live variables) -> Write (CInit v)
     DefaultTo(d)           :67   Compute(cur == zero ? d : cur)                      -> Write (CDefaultTo d)
     ToggleValue(v)         :99   Set(v); the returned reset closure is Set(zero)     -> Write (CToggle v) / Write CReset
     InheritFrom(other)     :82   other.OnUpdate(func(_, n){ v.Set(n) }, true): a subscriber of [other] (Subscribe c true /
                                  Unsub c in other's system) and, in v's system, the writer program
                                  [Write (CInherited n) | (_, n) <- log of that subscription]
     DeriveValueFrom(src)   :90   InheritFrom(src) + src.Unsubscribe (DerivedVariable: C14)
     OnUpdate(cb, trig)     :184  Subscribe c trig ; returned closure = Unsub c
     OnUpdateOnce(cb, cond) :212  Subscribe c false ; after the first accepted delta a fresh goroutine issues Unsub c;
                                  cond / cb observe [once_obs]
     OnUpdateWithContext    :244  Subscribe c trig ; returned closure = Unsub c, then the last context is cancelled;
                                  the contexts observe [ctx_obs]
     WithValue(setup, cond) :168  OnUpdateWithContext(.., true) with withinContext(setup) when cond(new)
     WithNonEmptyValue      :179  WithValue(setup, value != zero)
     LogUpdates             :277  Subscribe c false inside logger.OnLogLevelActive; logs the new values
   event_impl.go
     Trigger()              :19   Set(true) on Variable[bool] with (||)               -> Write (CSet true)
     OnTrigger(h)           :29   OnUpdate(func(_, _){ h() })                         -> Subscribe c false
   set_impl.go
     Add/AddAll/Delete/DeleteAll :30-47  Apply                                         -> Write (SApply m)
     Apply / Compute / Replace   :50-105                                               -> Write (SApply/SCompute/SReplace)
     OnUpdate(cb, trig)     :177  Subscribe c trig ; returned closure = Unsub c
     WithElements(setup, cond) :229  Subscribe c false ; teardown = Unsub c then tear down what is active; [wel_obs]
     Decode(api, bytes)     :108  (after fix a05beeb) decode into a fresh ds.Set, then AddAll(decoded)   -> Write (SApply (e, 0));
                                  a failing decode changes nothing (no operation).  The pinned code wrote the elements
                                  under the value mutex only ([decode_step_pinned] below, refuted in ApiProofs.v)
   Out of scope (reason): SubtractReactive, DerivedSet.InheritFrom, DerivedVariable (several objects wired together: C14),
   Get/Read/ReadOnly/WasTriggered/Encode (readers). *)
From Coq Require Import List Bool Arith NArith.
From Verif.C13_Reactive Require Import Model.
Import ListNotations.

Definition map_op {A B} (f : A -> B) (o : op A) : op B :=
  match o with Write w => Write (f w) | Subscribe c t => Subscribe c t | Unsub c => Unsub c end.
Definition map_sch {A B} (f : A -> B) (sch : list (nat * option (op A))) : list (nat * option (op B)) :=
  map (fun e => (fst e, option_map (map_op f) (snd e))) sch.

(* ---------------- value-changing methods of Variable[V] ---------------- *)
Section VarCalls.
  Variable V : Type.
  Variable eqV : V -> V -> bool.
  Variable zeroV : V.

  Inductive vcall :=
  | CSet (v : V)
  | CCompute (f : V -> V)
  | CInit (v : V)
  | CDefaultTo (d : V)
  | CToggle (v : V)
  | CReset
  | CInherited (v : V).

  (* the function each method hands to Compute (variable_impl.go:44, 37, 68-76, 100, 103, 84) *)
  Definition vcall_fun (c : vcall) : V -> V :=
    match c with
    | CSet v | CInit v | CToggle v | CInherited v => fun _ => v
    | CCompute f => f
    | CDefaultTo d => fun cur => if eqV cur zeroV then d else cur
    | CReset => fun _ => zeroV
    end.

  Definition api_sch := map_sch vcall_fun.

  (* the writer program InheritFrom contributes to the inheriting variable: one Set per delta delivered by the source *)
  Definition inherit_program (srclog : list (V * V)) : list (op vcall) :=
    map (fun d => Write (CInherited (snd d))) srclog.

  (* ---------------- subscription variants: what their user callbacks observe, from the underlying log ---------------- *)
  Inductive cev := ECond (p n : V) | EUser (p n : V) | ECb (p n : V) | ESetup (v : V) | ETeardown (v : V) | ELogged (v : V).

  (* OnUpdateOnce: the condition is asked about every delta until it accepts one; the user callback gets that one.
     Without a condition the first delta is accepted. *)
  Fixpoint once_obs (cond : option (V -> V -> bool)) (l : list (V * V)) : list cev :=
    match l with
    | [] => []
    | (p, n) :: r =>
        match cond with
        | None => [EUser p n]
        | Some f => if f p n then [ECond p n; EUser p n] else ECond p n :: once_obs cond r
        end
    end.
  Definition once_accepts (cond : option (V -> V -> bool)) (d : V * V) : bool :=
    match cond with None => true | Some f => f (fst d) (snd d) end.

  (* OnUpdateWithContext with the WithValue discipline (a context is set up for the new value when [acc new]):
     every invocation first cancels the previous context, then runs the callback; the final unsubscribe cancels the last. *)
  Definition teardown_of (active : option V) : list cev :=
    match active with Some a => [ETeardown a] | None => [] end.
  Fixpoint ctx_obs (showcb : bool) (acc : V -> bool) (active : option V) (l : list (V * V)) (fin : bool) : list cev :=
    match l with
    | [] => if fin then teardown_of active else []
    | (p, n) :: r =>
        teardown_of active ++ (if showcb then [ECb p n] else []) ++
        (if acc n then ESetup n :: ctx_obs showcb acc (Some n) r fin else ctx_obs showcb acc None r fin)
    end.
  (* the context that is active after the log (nothing after the final unsubscribe) *)
  Fixpoint ctx_active (acc : V -> bool) (active : option V) (l : list (V * V)) : option V :=
    match l with
    | [] => active
    | (p, n) :: r => ctx_active acc (if acc n then Some n else None) r
    end.

  Definition log_obs (l : list (V * V)) : list cev := map (fun d => ELogged (snd d)) l.
End VarCalls.

Arguments CSet {V}.
Arguments CCompute {V}.
Arguments CInit {V}.
Arguments CDefaultTo {V}.
Arguments CToggle {V}.
Arguments CReset {V}.
Arguments CInherited {V}.
Arguments ECond {V}.
Arguments EUser {V}.
Arguments ECb {V}.
Arguments ESetup {V}.
Arguments ETeardown {V}.
Arguments ELogged {V}.

(* ---------------- Set.WithElements (elements as bits; [cm] = the elements satisfying the condition) ---------------- *)
(* per delivered mutation: set up the added elements that satisfy the condition, then tear down the deleted ones that
   are active; the final teardown tears down everything active.  Events: (true, mask) = setups, (false, mask) = teardowns. *)
Fixpoint wel_obs (cm active : N) (l : list (N * N)) (fin : bool) : list (bool * N) :=
  match l with
  | [] => if fin then [(false, active)] else []
  | (a, d) :: r =>
      let su := N.land a cm in
      let act := N.lor active su in
      let td := N.land d act in
      (true, su) :: (false, td) :: wel_obs cm (N.ldiff act td) r fin
  end.
Fixpoint wel_active (cm active : N) (l : list (N * N)) : N :=
  match l with
  | [] => active
  | (a, d) :: r => let act := N.lor active (N.land a cm) in wel_active cm (N.ldiff act (N.land d act)) r
  end.
(* the order of setups (teardowns) inside one callback follows Go's map iteration: adjacent events of one kind are merged *)
Fixpoint merge_ev (l : list (bool * N)) : list (bool * N) :=
  match l with
  | [] => []
  | (t1, m1) :: r =>
      match merge_ev r with
      | (t2, m2) :: r' => if Bool.eqb t1 t2 then (t1, N.lor m1 m2) :: r' else (t1, m1) :: (t2, m2) :: r'
      | [] => [(t1, m1)]
      end
  end.
Definition norm_ev (l : list (bool * N)) : list (bool * N) :=
  merge_ev (filter (fun e => negb (N.eqb (snd e) 0)) l).

(* ---------------- value-changing methods of Set ---------------- *)
Inductive scall :=
| KApply (m : N * N)            (* Apply; Add/AddAll = (e, 0); Delete/DeleteAll = (0, e) *)
| KCompute (f : N -> N * N)
| KReplace (e : N)
| KDecode (e : N).              (* Decode of the encoding of the elements e (after fix a05beeb) *)
Definition scall_op (c : scall) : sop :=
  match c with
  | KApply m => SApply m
  | KCompute f => SCompute f
  | KReplace e => SReplace e
  | KDecode e => SApply (e, 0%N)
  end.
Definition sapi_sch := map_sch scall_op.

(* ---------------- Set.Decode as it was in the pinned code (set_impl.go:108-113 before a05beeb) ---------------- *)
(* readableSet.mutex.Lock(); s.value.Decode(api, b) (= insert every decoded element); Unlock().  One critical section
   without blocking, hence one atomic step, enabled when the value mutex is free.  No update-order mutex, no update id,
   no callback snapshot, no notification, and the change is not part of [hist]. *)
Definition decode_step_pinned (s : state N (N * N) sop (N * N)) (e : N) : option (state N (N * N) sop (N * N)) :=
  match vm s with
  | None => Some (mkSt N (N * N) sop (N * N) (N.lor (val s) e) (uid s) (ord s) (vm s) (reg s) (cbs s) (thr s) (hist s) (rets s))
  | Some _ => None
  end.
