(* C13 - the exported API (Api.v) is covered by the theorems over all schedules (Proofs.v):
   - a schedule of API calls (Set, Compute, Init, DefaultTo, ToggleValue, its reset, the Set of an InheritFrom callback)
     IS a schedule of the model's writer, so log shape / completeness / chain hold for histories containing any of them;
   - what OnUpdateOnce / OnUpdateWithContext / WithValue / WithElements show to their user callbacks is a function of
     the underlying log; the facts below are about that function composed with the log theorems. *)
From Coq Require Import List Bool Arith NArith Lia.
From Verif.C13_Reactive Require Import Model Inv Proofs Api.
Import ListNotations.

Section VarApiThm.
  Variable V : Type.
  Variable eqV : V -> V -> bool.
  Variable zeroV : V.
  Variable tr : V -> V -> V.
  Hypothesis eqV_spec : forall a b, eqV a b = true <-> a = b.
  Notation vinit := (init V (V * V) (V -> V) V zeroV).
  Notation arun sch := (v_run V eqV zeroV tr (api_sch V eqV zeroV sch) vinit).
  Notation vinitpart := (initpart V (V * V) (v_initD V zeroV)).

  (* Init is the writer Set is *)
  Lemma init_is_set v cur : v_wr V eqV tr (vcall_fun V eqV zeroV (CInit v)) cur = v_wr V eqV tr (vcall_fun V eqV zeroV (CSet v)) cur.
  Proof. reflexivity. Qed.

  Lemma var_api_log_shape (sch : list (nat * option (op (vcall V)))) c b :
    let s := arun sch in
    cbs s c = Some b ->
    log b = vinitpart b ++ firstn (ndel b) (skipn (regat b) (hist s))
    /\ regat b + ndel b <= length (hist s)
    /\ initv b = fold_left (v_apply V) (firstn (regat b) (hist s)) zeroV
    /\ val s = fold_left (v_apply V) (hist s) zeroV
    /\ (returned b = true -> gotinit b = false -> initv b = zeroV).
  Proof. apply var_log_shape; auto. Qed.

  Lemma var_api_complete (sch : list (nat * option (op (vcall V)))) c b :
    let s := arun sch in
    quiescent _ _ _ _ s -> cbs s c = Some b -> unsubd b = false ->
    returned b = true /\ regat b + ndel b = length (hist s)
    /\ log b = vinitpart b ++ skipn (regat b) (hist s)
    /\ fold_log V (V * V) (v_apply V) zeroV (log b) = val s.
  Proof. apply var_complete; auto. Qed.

  Lemma var_api_chain (sch : list (nat * option (op (vcall V)))) :
    chain V (V * V) (v_apply V) (v_legal V) zeroV (hist (arun sch)).
  Proof. apply var_chain; auto. Qed.

  (* ---- OnUpdateOnce: the user callback runs at most once, with the first accepted delta of the log ---- *)
  Definition is_user (e : cev V) : bool := match e with EUser _ _ => true | _ => false end.
  Lemma once_user_calls cond l :
    filter is_user (once_obs V cond l) =
    match find (once_accepts V cond) l with Some d => [EUser (fst d) (snd d)] | None => [] end.
  Proof.
    induction l as [|[p n] r IH]; simpl; auto.
    destruct cond as [f|]; simpl; auto.
    destruct (f p n) eqn:E; simpl; auto.
  Qed.

  Lemma var_once_first_accepted (sch : list (nat * option (op (vcall V)))) c b cond :
    let s := arun sch in
    cbs s c = Some b ->
    filter is_user (once_obs V cond (log b)) =
    match find (once_accepts V cond) (vinitpart b ++ firstn (ndel b) (skipn (regat b) (hist s))) with
    | Some d => [EUser (fst d) (snd d)] | None => [] end.
  Proof.
    intros s H. rewrite once_user_calls.
    destruct (var_api_log_shape sch c b H) as (E & _). fold s in E. rewrite <- E. reflexivity.
  Qed.

  (* ---- OnUpdateWithContext / WithValue: setups and teardowns are bracketed: at most one context is active ---- *)
  Fixpoint brk (active : option V) (l : list (cev V)) : bool :=
    match l with
    | [] => true
    | ESetup v :: r => match active with None => brk (Some v) r | Some _ => false end
    | ETeardown v :: r => match active with Some a => eqV a v && brk None r | None => false end
    | _ :: r => brk active r
    end.
  Lemma eqV_refl a : eqV a a = true.
  Proof. apply eqV_spec. reflexivity. Qed.
  Lemma ctx_obs_bracketed showcb acc l fin : forall a, brk a (ctx_obs V showcb acc a l fin) = true.
  Proof.
    induction l as [|[p n] r IH]; intros a; simpl.
    - destruct fin, a; simpl; auto. rewrite eqV_refl. reflexivity.
    - assert (X : brk None ((if showcb then [ECb p n] else []) ++
                  (if acc n then ESetup n :: ctx_obs V showcb acc (Some n) r fin else ctx_obs V showcb acc None r fin)) = true).
      { destruct showcb, (acc n); simpl; auto. }
      destruct a; simpl; auto. rewrite eqV_refl. simpl. exact X.
  Qed.

  (* the context that is active after a non-empty log belongs to the last reported value *)
  Lemma ctx_active_last acc l : forall a z, l <> [] ->
    ctx_active V acc a l = (let n := fold_left (v_apply V) l z in if acc n then Some n else None).
  Proof.
    induction l as [|[p n] r IH]; intros a z NE; [congruence|].
    destruct r as [|d r'].
    - reflexivity.
    - change (ctx_active V acc a ((p, n) :: d :: r')) with (ctx_active V acc (if acc n then Some n else None) (d :: r')).
      rewrite (IH _ (v_apply V z (p, n))); [reflexivity|discriminate].
  Qed.

  (* WithValue at quiescence: the active setup is the one for the final value (when it satisfies the condition) *)
  Lemma var_withvalue_final (sch : list (nat * option (op (vcall V)))) c b acc :
    let s := arun sch in
    quiescent _ _ _ _ s -> cbs s c = Some b -> unsubd b = false -> log b <> [] ->
    ctx_active V acc None (log b) = if acc (val s) then Some (val s) else None.
  Proof.
    intros s Q H U NE.
    destruct (var_api_complete sch c b Q H U) as (_ & _ & _ & F). fold s in F.
    rewrite (ctx_active_last acc (log b) None zeroV NE). unfold fold_log in F. rewrite F. reflexivity.
  Qed.
End VarApiThm.

(* ---- Set.WithElements: the elements whose setup is active are the contents that satisfy the condition ---- *)
Lemma wel_active_fold cm l : forall act x, act = N.land x cm ->
  wel_active cm act l = N.land (fold_left s_apply l x) cm.
Proof.
  induction l as [|[a d] r IH]; intros act x E; simpl; auto.
  apply IH. subst act. unfold s_apply. simpl. apply N.bits_inj. intros n.
  rewrite ?N.land_spec, ?N.ldiff_spec, ?N.lor_spec, ?N.land_spec, ?N.lor_spec, ?N.land_spec.
  destruct (N.testbit x n), (N.testbit cm n), (N.testbit a n), (N.testbit d n); reflexivity.
Qed.

Lemma set_withelements_final s0 sch c b cm :
  let s := s_run sch (init N (N * N) sop (N * N) s0) in
  quiescent _ _ _ _ s -> cbs s c = Some b -> unsubd b = false ->
  wel_active cm 0%N (log b) = N.land (val s) cm.
Proof.
  intros s Q H U. destruct (set_fold s0 sch c b Q H U) as (_ & _ & _ & F). fold s in F.
  unfold fold_log in F. rewrite <- F. apply wel_active_fold. rewrite N.land_0_l. reflexivity.
Qed.

(* non-vacuity: Init on a live variable reaches the subscriber (thread 0 subscribes, thread 1 writes) *)
Definition init_live_schedule : list (nat * option (op (vcall N))) :=
  [(1, Some (Write (CInit 1%N))); (1, None); (1, None); (1, None);
   (0, Some (Subscribe 0 false)); (0, None); (0, None); (0, None); (0, None);
   (1, Some (Write (CSet 2%N))); (1, None); (1, None); (1, None); (1, None); (1, None); (1, None);
   (1, Some (Write (CInit 7%N))); (1, None); (1, None); (1, None); (1, None); (1, None); (1, None)].
Example init_live_run :
  let s := v_run N N.eqb 0%N (fun _ n => n) (api_sch N N.eqb 0%N init_live_schedule) (init N (N * N) (N -> N) N 0%N) in
  thr s 0 = Idle /\ thr s 1 = Idle /\ val s = 7%N /\ hist s = [(0, 1); (1, 2); (2, 7)]%N
  /\ option_map (fun b => (log b, unsubd b)) (cbs s 0) = Some ([(0, 1); (1, 2); (2, 7)]%N, false).
Proof. vm_compute. repeat split. Qed.

(* ---- Set: schedules over the exported mutators (Apply, Compute, Replace, Decode after fix a05beeb) ---- *)
Notation sarun s0 sch := (s_run (sapi_sch sch) (init N (N * N) sop (N * N) s0)).
Lemma set_api_log_shape s0 (sch : list (nat * option (op scall))) c b :
  let s := sarun s0 sch in
  cbs s c = Some b ->
  log b = initpart N (N * N) s_initD b ++ firstn (ndel b) (skipn (regat b) (hist s))
  /\ regat b + ndel b <= length (hist s)
  /\ initv b = fold_left s_apply (firstn (regat b) (hist s)) s0
  /\ val s = fold_left s_apply (hist s) s0
  /\ (returned b = true -> gotinit b = false -> initv b = 0%N).
Proof. apply set_log_shape. Qed.
Lemma set_api_fold s0 (sch : list (nat * option (op scall))) c b :
  let s := sarun s0 sch in
  quiescent _ _ _ _ s -> cbs s c = Some b -> unsubd b = false ->
  returned b = true /\ regat b + ndel b = length (hist s)
  /\ log b = initpart N (N * N) s_initD b ++ skipn (regat b) (hist s)
  /\ fold_log N (N * N) s_apply 0%N (log b) = val s.
Proof. apply set_fold. Qed.
Lemma set_api_true_diff s0 (sch : list (nat * option (op scall))) :
  chain N (N * N) s_apply s_legal_p s0 (hist (sarun s0 sch)).
Proof. apply set_chain. Qed.

(* the witness schedule of the pinned defect, with Decode as it is now: the subscriber is told *)
Definition decode_fixed_schedule : list (nat * option (op scall)) :=
  [(0, Some (Subscribe 0 false)); (0, None); (0, None); (0, None); (0, None);
   (1, Some (Write (KDecode 6%N))); (1, None); (1, None); (1, None); (1, None); (1, None); (1, None)].
Example decode_fixed_run :
  let s := sarun 3%N decode_fixed_schedule in
  thr s 0 = Idle /\ thr s 1 = Idle /\ val s = 7%N /\ hist s = [(4, 0)]%N
  /\ option_map (fun b => (log b, fold_log N (N * N) s_apply 0%N (log b), unsubd b)) (cbs s 0) = Some ([(3, 0); (4, 0)]%N, 7%N, false).
Proof. vm_compute. repeat split. Qed.

(* The pinned Decode (before fix a05beeb) on a set that has a subscriber was a silent change.  {0,1} with one
   subscriber (registered, initial callback delivered, OnUpdate returned), then Decode of {1,2}: nobody runs, the
   contents are {0,1,2}, the subscriber's fold is still {0,1}. *)
Definition decode_live_schedule : list (nat * option (op sop)) :=
  [(0, Some (Subscribe 0 false)); (0, None); (0, None); (0, None); (0, None)].
Lemma refuted_set_decode_pinned :
  let s := s_run decode_live_schedule (init N (N * N) sop (N * N) 3%N) in
  exists s', decode_step_pinned s 6%N = Some s'
    /\ (forall t, t < 4 -> thr s' t = Idle) /\ val s' = 7%N
    /\ option_map (fun b => (fold_log N (N * N) s_apply 0%N (log b), unsubd b, returned b)) (cbs s' 0) = Some (3%N, false, true).
Proof.
  eexists. split; [vm_compute; reflexivity|]. split; [|vm_compute; auto].
  intros t H. do 4 (destruct t as [|t]; [vm_compute; reflexivity|]). lia.
Qed.

(* ---- the inheritance machinery as one more WRITER of the set (DerivedSet.InheritFrom, SubtractReactive) ---- *)
(* whatever net mutation m the occurrence counts yield: the value step applies m and reports what value.Apply changed,
   which is a true difference of the contents and folds to the new contents *)
Lemma inherited_write_reports_applied m s :
  let r := s_wr (scall_op (KInherit m)) s in
  w_new r = s_apply s m /\ w_delta r = Some (s_applied s m) /\ w_ret r = s_applied s m
  /\ s_legal_p s (s_applied s m) /\ s_apply s (s_applied s m) = s_apply s m.
Proof.
  simpl. split; [reflexivity|split; [reflexivity|split; [reflexivity|split]]].
  - apply (s_wr_legal (SCompute (fun _ => m)) s). reflexivity.
  - unfold s_apply, s_applied. simpl. apply N.bits_inj. intros n.
    rewrite ?N.ldiff_spec, ?N.lor_spec, ?N.land_spec, ?N.ldiff_spec, ?N.lor_spec.
    destruct (N.testbit s n), (N.testbit (fst m) n), (N.testbit (snd m) n); reflexivity.
Qed.

(* the theorems over all schedules, spelled out for the calls issued by a wired script (sources written, the target
   written directly, InheritFrom / un-inherit, SubtractReactive) in ANY interleaving, repetition or subset: corollaries
   of set_api_* - the premise only names the schedules meant *)
Lemma wired_set_log_shape k s0s ws (sch : list (nat * option (op scall))) c b :
  drawn_from (snd (wired_program k s0s ws)) sch ->
  let s := sarun 0%N sch in
  cbs s c = Some b ->
  log b = initpart N (N * N) s_initD b ++ firstn (ndel b) (skipn (regat b) (hist s))
  /\ regat b + ndel b <= length (hist s)
  /\ val s = fold_left s_apply (hist s) 0%N.
Proof. intros _ s H. destruct (set_api_log_shape 0%N sch c b H) as (A & B & _ & D & _). auto. Qed.
Lemma wired_set_fold k s0s ws (sch : list (nat * option (op scall))) c b :
  drawn_from (snd (wired_program k s0s ws)) sch ->
  let s := sarun 0%N sch in
  quiescent _ _ _ _ s -> cbs s c = Some b -> unsubd b = false ->
  fold_log N (N * N) s_apply 0%N (log b) = val s.
Proof. intros _ s Q H U. destruct (set_api_fold 0%N sch c b Q H U) as (_ & _ & _ & F). exact F. Qed.
Lemma wired_set_true_diff k s0s ws (sch : list (nat * option (op scall))) :
  drawn_from (snd (wired_program k s0s ws)) sch ->
  chain N (N * N) s_apply s_legal_p 0%N (hist (sarun 0%N sch)).
Proof. intros _. apply set_api_true_diff. Qed.

(* non-vacuity / regression: derived := NewDerivedSet(); derived.InheritFrom(source {}); a subscriber; thread 1 calls
   derived.Add(0), thread 2 is the source's writer adding 0 (count 0 -> 1: net mutation "add 0"), thread 1 Delete(0),
   thread 2 deletes 0 from the source (net "delete 0").  The subscriber is told (1,0), (0,0), (0,1), (0,0). *)
Definition derived_script : list (wop scall) :=
  [WInherit 0 [0]; WDir (Subscribe 0 false); WDir (Write (KApply (1, 0)%N)); WSrc 0 (KApply (1, 0)%N);
   WDir (Write (KApply (0, 1)%N)); WSrc 0 (KApply (0, 1)%N)].
Definition derived_schedule : list (nat * option (op scall)) :=
  [(0, Some (Subscribe 0 false)); (0, None); (0, None); (0, None); (0, None);
   (1, Some (Write (KApply (1, 0)%N))); (1, None); (1, None); (1, None); (1, None); (1, None); (1, None);
   (2, Some (Write (KInherit (1, 0)%N))); (2, None); (2, None); (2, None); (2, None); (2, None); (2, None);
   (1, Some (Write (KApply (0, 1)%N))); (1, None); (1, None); (1, None); (1, None); (1, None); (1, None);
   (2, Some (Write (KInherit (0, 1)%N))); (2, None); (2, None); (2, None); (2, None); (2, None); (2, None)].
Lemma derived_schedule_drawn : drawn_from (snd (wired_program WDerived [0%N] derived_script)) derived_schedule.
Proof.
  intros t o H. vm_compute in H. vm_compute.
  repeat (destruct H as [H|H]; [first [discriminate H | injection H as <- <-; repeat (first [left; reflexivity | right])]|]).
  contradiction.
Qed.
Example derived_run :
  let s := sarun 0%N derived_schedule in
  thr s 0 = Idle /\ thr s 1 = Idle /\ thr s 2 = Idle /\ val s = 0%N /\ hist s = [(1, 0); (0, 0); (0, 1); (0, 0)]%N
  /\ option_map (fun b => (log b, unsubd b)) (cbs s 0) = Some ([(1, 0); (0, 0); (0, 1); (0, 0)]%N, false).
Proof. vm_compute. repeat split. Qed.

(* the same schedule with a write path that reports the REQUESTED net mutations: the subscriber is told "0 added" twice
   and "0 deleted" twice - the second report of each is not a difference of the contents (the fold still agrees, only the
   strict reading sees it) *)
Lemma refuted_inherited_reports_requested :
  let s := s_run_requested (sapi_sch derived_schedule) (init N (N * N) sop (N * N) 0%N) in
  (forall t, t < 3 -> thr s t = Idle)
  /\ option_map (fun b => log b) (cbs s 0) = Some [(1, 0); (1, 0); (0, 1); (0, 1)]%N
  /\ ~ chain N (N * N) s_apply s_legal_p 0%N (hist s).
Proof.
  split; [|split].
  - intros t H. do 3 (destruct t as [|t]; [vm_compute; reflexivity|]). lia.
  - vm_compute. reflexivity.
  - intros C.
    assert (E : hist (s_run_requested (sapi_sch derived_schedule) (init N (N * N) sop (N * N) 0%N)) = [(1, 0); (1, 0); (0, 1); (0, 1)]%N)
      by (vm_compute; reflexivity).
    rewrite E in C. clear E. simpl in C. destruct C as (_ & (L & _) & _). vm_compute in L. discriminate L.
Qed.
