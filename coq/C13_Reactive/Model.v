(* C13 - executable interleaving model of hive.go ds/reactive Variable / Event / Set subscriptions.

   Transcribed from /repo/ds/reactive (after fix commits 0e0e80f, d322c7c):
     variable_impl.go  Compute/updateValue (writer), OnUpdate (subscriber + returned unsubscribe closure)
     set_impl.go       Apply/Compute/Replace + appl/replace (writer), OnUpdate
     utils.go          callback.LockExecution / UnlockExecution / MarkUnsubscribed, uniqueID.Next
     event_impl.go     Event = Variable[bool] with transformation (||)
     ds/list_impl.go   registeredCallbacks: thread-safe list, PushBack / Values / Remove are atomic

   The system is generic in the state type S, the delta type D (what a callback receives), the writer
   operation type W and [wr] (what a writer does to the value under the value mutex).
   A schedule is a list of (thread id, choice); the choice supplies the next operation when the thread
   is idle, so one schedule quantifies over any number of writers / subscribers / unsubscribers and over
   their programs.  No proofs in this file. *)
From Coq Require Import List Bool Arith NArith.
Import ListNotations.

Definition updf {A : Type} (f : nat -> A) (k : nat) (v : A) : nat -> A :=
  fun x => if Nat.eqb x k then v else f x.

Section Sched.
  Variables S D W R : Type.
  Variable appl : S -> D -> S.          (* what a subscriber does with a delta *)
  Variable zero : S.                     (* the zero value (Go: new(Type) deref / empty set) *)
  Variable nonzero : S -> bool.          (* currentValue != emptyValue / !mutations.IsEmpty() *)
  Variable initD : S -> D.               (* delta handed to a new subscriber: (zero,cur) / added = Clone() *)

  (* what the section under the value mutex of a writer does (updateValue / appl / replace) *)
  Record wres := mkW { w_new : S; w_delta : option D; w_bump : bool; w_ret : R }.
  Variable wr : W -> S -> wres.
  Variable wskip : W -> option R.        (* early return before any lock (Set.Apply with empty mutations) *)

  Inductive op := Write (w : W) | Subscribe (c : nat) (trig : bool) | Unsub (c : nat).

  (* program counters; comments name the locks held *)
  Inductive pc :=
  | Idle
  | WLockVm (w : W)                                  (* ord *)
  | WUpdate (w : W)                                  (* ord, vm *)
  | WLoop (id : nat) (d : D) (pend : list nat)       (* ord; range over the snapshot *)
  | WInvoke (id : nat) (d : D) (c : nat) (pend : list nat)  (* ord, exec c; LockExecution returned true *)
  | WInCb (id : nat) (d : D) (c : nat) (pend : list nat)    (* ord, exec c; callback running *)
  | WEnd                                             (* ord; nothing to notify *)
  | SReg (c : nat) (trig : bool)                     (* vm *)
  | SInit (c : nat) (trig : bool) (cur : S)          (* exec c *)
  | SInCb (c : nat)                                  (* exec c; initial callback running *)
  | SUnlock (c : nat)                                (* exec c; deferred UnlockExecution, then return *)
  | UMark (c : nat).                                 (* list element removed; MarkUnsubscribed next *)

  Record cb := mkCb {
    lastUpdate : nat; unsubd : bool; exec : option nat;
    log : list D;                  (* what the callback was invoked with, in invocation order *)
    incb : nat;                    (* invocations in progress (harness: atomic counter) *)
    overlap : bool;                (* an invocation started while another was in progress *)
    late : bool;                   (* an invocation started after unsubscribe had returned *)
    unsub_ret : bool;              (* some unsubscribe() of this callback has finished MarkUnsubscribed *)
    returned : bool;               (* OnUpdate has returned (the unsubscribe closure exists) *)
    (* ghost *)
    regat : nat;                   (* number of global changes before the registration step *)
    initv : S;                     (* value read at registration *)
    gotinit : bool;                (* initial callback invoked *)
    ndel : nat                     (* number of deltas delivered by writers *)
  }.

  Record state := mkSt {
    val : S; uid : nat;
    ord : option nat;              (* updateOrderMutex / set.mutex *)
    vm : option nat;               (* valueMutex / readableSet.mutex *)
    reg : list nat;                (* registeredCallbacks in registration order *)
    cbs : nat -> option cb;
    thr : nat -> pc;
    hist : list D;                 (* ghost: global sequence of notified changes *)
    rets : list R                  (* return values of the write calls, in the order of their value steps *)
  }.

  Definition init (s0 : S) : state :=
    mkSt s0 0 None None [] (fun _ => None) (fun _ => Idle) [] [].

  Definition set_thr (s : state) (t : nat) (p : pc) : state :=
    mkSt (val s) (uid s) (ord s) (vm s) (reg s) (cbs s) (updf (thr s) t p) (hist s) (rets s).
  Definition set_ord (s : state) (o : option nat) : state :=
    mkSt (val s) (uid s) o (vm s) (reg s) (cbs s) (thr s) (hist s) (rets s).
  Definition set_vm (s : state) (o : option nat) : state :=
    mkSt (val s) (uid s) (ord s) o (reg s) (cbs s) (thr s) (hist s) (rets s).
  Definition set_reg (s : state) (l : list nat) : state :=
    mkSt (val s) (uid s) (ord s) (vm s) l (cbs s) (thr s) (hist s) (rets s).
  Definition set_cb (s : state) (c : nat) (b : cb) : state :=
    mkSt (val s) (uid s) (ord s) (vm s) (reg s) (updf (cbs s) c (Some b)) (thr s) (hist s) (rets s).
  Definition add_ret (s : state) (r : R) : state :=
    mkSt (val s) (uid s) (ord s) (vm s) (reg s) (cbs s) (thr s) (hist s) (rets s ++ [r]).

  (* the callback function is entered: Invoke(...) *)
  Definition cb_begin (b : cb) (d : D) (isinit : bool) : cb :=
    mkCb (lastUpdate b) (unsubd b) (exec b) (log b ++ [d]) (Datatypes.S (incb b))
         (overlap b || negb (Nat.eqb (incb b) 0)) (late b || unsub_ret b) (unsub_ret b) (returned b)
         (regat b) (initv b) (gotinit b || isinit) (if isinit then ndel b else Datatypes.S (ndel b)).
  (* the callback function returns and the execution mutex is released *)
  Definition cb_end_unlock (b : cb) : cb :=
    mkCb (lastUpdate b) (unsubd b) None (log b) (pred (incb b)) (overlap b) (late b) (unsub_ret b) (returned b)
         (regat b) (initv b) (gotinit b) (ndel b).
  Definition cb_end (b : cb) : cb :=
    mkCb (lastUpdate b) (unsubd b) (exec b) (log b) (pred (incb b)) (overlap b) (late b) (unsub_ret b) (returned b)
         (regat b) (initv b) (gotinit b) (ndel b).
  Definition cb_lock (b : cb) (t id : nat) : cb :=
    mkCb id (unsubd b) (Some t) (log b) (incb b) (overlap b) (late b) (unsub_ret b) (returned b)
         (regat b) (initv b) (gotinit b) (ndel b).
  Definition cb_unlock_return (b : cb) : cb :=
    mkCb (lastUpdate b) (unsubd b) None (log b) (incb b) (overlap b) (late b) (unsub_ret b) true
         (regat b) (initv b) (gotinit b) (ndel b).
  Definition cb_mark (b : cb) : cb :=
    mkCb (lastUpdate b) true (exec b) (log b) (incb b) (overlap b) (late b) true (returned b)
         (regat b) (initv b) (gotinit b) (ndel b).
  Definition cb_new (t : nat) (s : state) : cb :=
    mkCb (uid s) false (Some t) [] 0 false false false false (length (hist s)) (val s) false 0.

  Definition remove_nat (c : nat) (l : list nat) : list nat := filter (fun x => negb (Nat.eqb x c)) l.

  (* LockExecution's refusal test (utils.go:36) *)
  Definition refuses (b : cb) (id : nat) : bool :=
    unsubd b || (negb (Nat.eqb id 0) && Nat.eqb id (lastUpdate b)).

  Definition step (s : state) (t : nat) (ch : option op) : option state :=
    match thr s t with
    | Idle =>
        match ch with
        | None => None
        | Some (Write w) =>
            match wskip w with
            | Some r => Some (add_ret s r)
            | None => match ord s with                         (* updateOrderMutex.Lock() *)
                      | None => Some (set_thr (set_ord s (Some t)) t (WLockVm w))
                      | Some _ => None
                      end
            end
        | Some (Subscribe c trig) =>
            match vm s, cbs s c with                           (* valueMutex.Lock() *)
            | None, None => Some (set_thr (set_vm s (Some t)) t (SReg c trig))
            | _, _ => None
            end
        | Some (Unsub c) =>                                    (* registeredCallbacks.Remove(element) *)
            match cbs s c with
            | Some b => if returned b
                        then Some (set_thr (set_reg s (remove_nat c (reg s))) t (UMark c))
                        else None
            | None => None
            end
        end
    | WLockVm w =>
        match vm s with                                        (* valueMutex.Lock() in updateValue *)
        | None => Some (set_thr (set_vm s (Some t)) t (WUpdate w))
        | Some _ => None
        end
    | WUpdate w =>                                             (* body of updateValue / appl / replace; unlock vm *)
        let r := wr w (val s) in
        let uid' := if w_bump r then Datatypes.S (uid s) else uid s in
        let id := if w_bump r then uid' else 0 in
        match w_delta r with
        | Some d => Some (mkSt (w_new r) uid' (ord s) None (reg s) (cbs s)
                               (updf (thr s) t (WLoop id d (reg s))) (hist s ++ [d]) (rets s ++ [w_ret r]))
        | None => Some (mkSt (w_new r) uid' (ord s) None (reg s) (cbs s)
                             (updf (thr s) t WEnd) (hist s) (rets s ++ [w_ret r]))
        end
    | WEnd => Some (set_thr (set_ord s None) t Idle)          (* deferred updateOrderMutex.Unlock() *)
    | WLoop id d [] => Some (set_thr (set_ord s None) t Idle)
    | WLoop id d (c :: p) =>                                   (* LockExecution(updateID) *)
        match cbs s c with
        | None => None
        | Some b =>
            match exec b with
            | Some _ => None
            | None => if refuses b id
                      then Some (set_thr s t (WLoop id d p))
                      else Some (set_thr (set_cb s c (cb_lock b t id)) t (WInvoke id d c p))
            end
        end
    | WInvoke id d c p =>                                      (* Invoke(...) entered *)
        match cbs s c with
        | None => None
        | Some b => Some (set_thr (set_cb s c (cb_begin b d false)) t (WInCb id d c p))
        end
    | WInCb id d c p =>                                        (* callback returns; UnlockExecution() *)
        match cbs s c with
        | None => None
        | Some b => Some (set_thr (set_cb s c (cb_end_unlock b)) t (WLoop id d p))
        end
    | SReg c trig =>                                           (* read value, PushBack, LockExecution(uid), unlock vm *)
        match cbs s c with
        | Some _ => None
        | None => Some (set_thr (set_vm (set_reg (set_cb s c (cb_new t s)) (reg s ++ [c])) None) t
                                (SInit c trig (val s)))
        end
    | SInit c trig cur =>
        match cbs s c with
        | None => None
        | Some b => if nonzero cur || trig
                    then Some (set_thr (set_cb s c (cb_begin b (initD cur) true)) t (SInCb c))
                    else Some (set_thr s t (SUnlock c))
        end
    | SInCb c =>
        match cbs s c with
        | None => None
        | Some b => Some (set_thr (set_cb s c (cb_end b)) t (SUnlock c))
        end
    | SUnlock c =>                                             (* deferred UnlockExecution(); return unsubscribe *)
        match cbs s c with
        | None => None
        | Some b => Some (set_thr (set_cb s c (cb_unlock_return b)) t Idle)
        end
    | UMark c =>                                               (* MarkUnsubscribed(): lock exec; flag; unlock *)
        match cbs s c with
        | None => None
        | Some b => match exec b with
                    | Some _ => None
                    | None => Some (set_thr (set_cb s c (cb_mark b)) t Idle)
                    end
        end
    end.

  (* a schedule entry that is not enabled is skipped *)
  Fixpoint run (sch : list (nat * option op)) (s : state) : state :=
    match sch with
    | [] => s
    | (t, ch) :: r => match step s t ch with Some s' => run r s' | None => run r s end
    end.

  Definition quiescent (s : state) : Prop := forall t, thr s t = Idle.

  (* ---------- executable judgement of one subscriber log against the global change sequence ---------- *)
  Variable eqD : D -> D -> bool.
  Variable eqS : S -> S -> bool.

  Fixpoint list_eqb (a b : list D) : bool :=
    match a, b with
    | [], [] => true
    | x :: a', y :: b' => eqD x y && list_eqb a' b'
    | _, _ => false
    end.
  Fixpoint prefixb (a b : list D) : bool :=   (* a is a prefix of b *)
    match a, b with
    | [], _ => true
    | x :: a', y :: b' => eqD x y && prefixb a' b'
    | _, _ => false
    end.

  (* log = [initial state v_k]? ++ (a prefix of / all of) the changes after the first k ones *)
  Definition shape_at (s0 : S) (G : list D) (trig complete : bool) (l : list D) (k : nat) : bool :=
    let vk := fold_left appl (firstn k G) s0 in
    let tl := skipn k G in
    let seg x := if complete then list_eqb x tl else prefixb x tl in
    if nonzero vk || trig
    then match l with
         | d0 :: l' => eqD d0 (initD vk) && seg l'
         | [] => false
         end
    else eqS vk zero && seg l.

  Definition shape_ok (s0 : S) (G : list D) (trig complete : bool) (l : list D) : bool :=
    existsb (shape_at s0 G trig complete l) (seq 0 (Datatypes.S (length G))).

  Definition fold_log (l : list D) : S := fold_left appl l zero.
End Sched.

Arguments Idle {S D W}.
Arguments WEnd {S D W}.
Arguments WLockVm {S D W}.
Arguments WUpdate {S D W}.
Arguments WLoop {S D W}.
Arguments WInvoke {S D W}.
Arguments WInCb {S D W}.
Arguments SReg {S D W}.
Arguments SInit {S D W}.
Arguments SInCb {S D W}.
Arguments SUnlock {S D W}.
Arguments UMark {S D W}.
Arguments w_new {S D R}.
Arguments w_delta {S D R}.
Arguments w_bump {S D R}.
Arguments w_ret {S D R}.
Arguments mkW {S D R}.
Arguments lastUpdate {S D}.
Arguments unsubd {S D}.
Arguments exec {S D}.
Arguments log {S D}.
Arguments incb {S D}.
Arguments overlap {S D}.
Arguments late {S D}.
Arguments unsub_ret {S D}.
Arguments returned {S D}.
Arguments regat {S D}.
Arguments initv {S D}.
Arguments gotinit {S D}.
Arguments ndel {S D}.
Arguments val {S D W R}.
Arguments uid {S D W R}.
Arguments ord {S D W R}.
Arguments vm {S D W R}.
Arguments reg {S D W R}.
Arguments cbs {S D W R}.
Arguments thr {S D W R}.
Arguments hist {S D W R}.
Arguments rets {S D W R}.
Arguments Write {W}.
Arguments Subscribe {W}.
Arguments Unsub {W}.

(* ---------------- instance 1: Variable[V] (and Event = Variable[bool] with ||) ---------------- *)
Section VarInst.
  Variable V : Type.
  Variable eqV : V -> V -> bool.
  Variable zeroV : V.
  Variable tr : V -> V -> V.             (* transformationFunc(currentValue, newValue) *)

  Definition v_apply (_ : V) (d : V * V) : V := snd d.
  Definition v_nonzero (v : V) : bool := negb (eqV v zeroV).
  Definition v_initD (v : V) : V * V := (zeroV, v).
  (* Compute(f): updateValue, variable_impl.go:109-120; the call returns previousValue *)
  Definition v_wr (f : V -> V) (cur : V) : wres V (V * V) V :=
    let n := tr cur (f cur) in
    if eqV n cur then mkW cur None false cur
    else mkW n (Some (cur, n)) true cur.
  Definition v_wskip (_ : V -> V) : option V := None.
  Definition v_eqD (a b : V * V) : bool := eqV (fst a) (fst b) && eqV (snd a) (snd b).

  Definition v_step := step V (V * V) (V -> V) V v_nonzero v_initD v_wr v_wskip.
  Definition v_run := run V (V * V) (V -> V) V v_nonzero v_initD v_wr v_wskip.
End VarInst.

(* ---------------- instance 2: Set[nat-indexed elements] as bit masks ---------------- *)
(* A finite set of elements (numbered by naturals) is the N whose bit i says "element i is in the set".
   A mutation is (added, deleted); ds.Set.Apply adds first, then deletes. *)
Definition s_apply (s : N) (d : N * N) : N := N.ldiff (N.lor s (fst d)) (snd d).
Definition s_nonzero (s : N) : bool := negb (N.eqb s 0).
Definition s_initD (s : N) : N * N := (s, 0%N).
Definition mut_empty (d : N * N) : bool := N.eqb (fst d) 0 && N.eqb (snd d) 0.
(* ds.set.appl: the elements really added / really removed *)
Definition s_applied (s : N) (m : N * N) : N * N :=
  (N.ldiff (fst m) s, N.land (snd m) (N.lor s (fst m))).

Inductive sop :=
| SApply (m : N * N)                     (* also Add/AddAll/Delete/DeleteAll *)
| SCompute (f : N -> N * N)              (* mutationFactory on the current contents *)
| SReplace (e : N).

Definition s_wr (w : sop) (s : N) : wres N (N * N) (N * N) :=
  match w with
  | SApply m => let a := s_applied s m in
                mkW (s_apply s m) (if mut_empty a then None else Some a) true a
  | SCompute f => let a := s_applied s (f s) in
                  mkW (s_apply s (f s)) (Some a) true a
  | SReplace e => let a := (N.ldiff e s, N.ldiff s e) in   (* set_impl.go:129-141 after 0e0e80f *)
                  mkW e (Some a) true (0%N, snd a)
  end.
Definition s_wskip (w : sop) : option (N * N) :=
  match w with SApply m => if mut_empty m then Some (0%N, 0%N) else None | _ => None end.
Definition s_eqD (a b : N * N) : bool := N.eqb (fst a) (fst b) && N.eqb (snd a) (snd b).

Definition s_step := step N (N * N) sop (N * N) s_nonzero s_initD s_wr s_wskip.
Definition s_run := run N (N * N) sop (N * N) s_nonzero s_initD s_wr s_wskip.

(* The pinned Replace (before 0e0e80f, defect D13): added = all new, deleted = all previous. *)
Definition s_wr_pinned (w : sop) (s : N) : wres N (N * N) (N * N) :=
  match w with
  | SReplace e => mkW e (Some (e, s)) true (0%N, s)
  | _ => s_wr w s
  end.
Definition s_run_pinned := run N (N * N) sop (N * N) s_nonzero s_initD s_wr_pinned s_wskip.
