(* C13 - theorems over ALL schedules of the interleaving model, from the inductive invariant of Inv.v. *)
From Coq Require Import List Bool Arith NArith Lia.
From Verif.C13_Reactive Require Import Model Inv.
Import ListNotations.

Section Thm.
  Variables S D W R : Type.
  Variable appl : S -> D -> S.
  Variable zero : S.
  Variable nonzero : S -> bool.
  Variable initD : S -> D.
  Variable wr : W -> S -> wres S D R.
  Variable wskip : W -> option R.
  Variable eqD : D -> D -> bool.
  Variable eqS : S -> S -> bool.

  Hypothesis wr_delta : forall w s d, w_delta (wr w s) = Some d -> w_new (wr w s) = appl s d.
  Hypothesis wr_nodelta : forall w s, w_delta (wr w s) = None -> w_new (wr w s) = s.
  Hypothesis nonzero_zero : forall v, nonzero v = false -> v = zero.
  Hypothesis nonzero_of_zero : nonzero zero = false.
  Hypothesis init_fold : forall v, appl zero (initD v) = v.
  Hypothesis eqD_spec : forall a b, eqD a b = true <-> a = b.
  Hypothesis eqS_spec : forall a b, eqS a b = true <-> a = b.

  Notation state := (state S D W R).
  Notation run := (run S D W R nonzero initD wr wskip).
  Notation init := (init S D W R).
  Notation Inv := (Inv S D W R appl zero initD).
  Notation initpart := (initpart S D initD).

  Lemma reach s0 sch : Inv s0 (run sch (init s0)).
  Proof. apply reachable_inv; auto. Qed.

  (* ---- log shape: initial state at subscription, then the contiguous global change sequence from there ---- *)
  Theorem log_shape s0 sch c b :
    let s := run sch (init s0) in
    cbs s c = Some b ->
    log b = initpart b ++ firstn (ndel b) (skipn (regat b) (hist s))
    /\ regat b + ndel b <= length (hist s)
    /\ initv b = fold_left appl (firstn (regat b) (hist s)) s0
    /\ val s = fold_left appl (hist s) s0
    /\ (returned b = true -> gotinit b = false -> initv b = zero).
  Proof.
    intros s H. pose proof (reach s0 sch) as I. fold s in I.
    destruct (i_shape _ _ _ _ _ _ _ _ _ I _ _ H) as (A & B & C).
    repeat split; auto.
    - apply (i_val _ _ _ _ _ _ _ _ _ I).
    - intros. eapply (i_noinit1 _ _ _ _ _ _ _ _ _ I); eauto.
  Qed.

  (* ---- completeness at quiescence ---- *)
  Theorem complete s0 sch c b :
    let s := run sch (init s0) in
    quiescent S D W R s -> cbs s c = Some b -> unsubd b = false ->
    returned b = true
    /\ regat b + ndel b = length (hist s)
    /\ log b = initpart b ++ skipn (regat b) (hist s)
    /\ fold_log S D appl zero (log b) = val s.
  Proof.
    intros s Q H U. pose proof (reach s0 sch) as I. fold s in I.
    assert (Rt : returned b = true).
    { destruct (returned b) eqn:E; auto. exfalso.
      pose proof (i_ret _ _ _ _ _ _ _ _ _ I _ _ H E) as X.
      destruct (exec b) as [t|] eqn:Ex; [|congruence].
      pose proof (i_execT _ _ _ _ _ _ _ _ _ I _ _ _ H Ex) as Y. rewrite Q in Y. simpl in Y. auto. }
    assert (L : regat b + ndel b = length (hist s)).
    { assert (Hr : In c (reg s)).
      { destruct (i_alive _ _ _ _ _ _ _ _ _ I _ _ H) as [|[|[t X]]]; auto; try congruence;
        try (rewrite Q in X; discriminate). }
      apply (i_live _ _ _ _ _ _ _ _ _ I _ _ H Hr).
      intros t. rewrite Q. simpl. auto. }
    destruct (i_shape _ _ _ _ _ _ _ _ _ I _ _ H) as (A & B & C).
    assert (E : firstn (ndel b) (skipn (regat b) (hist s)) = skipn (regat b) (hist s)).
    { apply firstn_all2. rewrite skipn_length. lia. }
    rewrite E in A. repeat split; auto.
    rewrite A. unfold fold_log. rewrite fold_left_app.
    assert (F : fold_left appl (initpart b) zero = initv b).
    { unfold Inv.initpart. destruct (gotinit b) eqn:G; simpl.
      - apply init_fold.
      - symmetry. eapply (i_noinit1 _ _ _ _ _ _ _ _ _ I); eauto. }
    rewrite F, C. rewrite <- fold_left_app. rewrite firstn_skipn.
    symmetry. apply (i_val _ _ _ _ _ _ _ _ _ I).
  Qed.

  (* ---- callbacks of one subscription never overlap ---- *)
  Theorem serial_callbacks s0 sch c b :
    cbs (run sch (init s0)) c = Some b -> overlap b = false /\ incb b <= 1.
  Proof.
    intros H. pose proof (reach s0 sch) as I.
    destruct (i_flags _ _ _ _ _ _ _ _ _ I _ _ H) as (A & _).
    destruct (i_incb _ _ _ _ _ _ _ _ _ I _ _ H) as (B & _). auto.
  Qed.

  (* ---- no callback starts after unsubscribe returned; none is even running then ---- *)
  Theorem after_unsub s0 sch c b :
    cbs (run sch (init s0)) c = Some b ->
    late b = false /\ (unsub_ret b = true -> incb b = 0).
  Proof.
    intros H. pose proof (reach s0 sch) as I.
    destruct (i_flags _ _ _ _ _ _ _ _ _ I _ _ H) as (_ & A & U & _).
    destruct (i_incb _ _ _ _ _ _ _ _ _ I _ _ H) as (B & N & T).
    split; auto. intros Ur. specialize (U Ur).
    destruct (exec b) as [t|] eqn:E; [|auto].
    destruct (Nat.eq_dec (incb b) 0) as [|n]; auto. exfalso.
    assert (incb b = 1) by lia.
    pose proof (i_execT _ _ _ _ _ _ _ _ _ I _ _ _ H E) as X.
    destruct (i_exec _ _ _ _ _ _ _ _ _ I _ _ X) as (b' & Hb & _ & Hu).
    rewrite H in Hb. injection Hb as <-. congruence.
  Qed.

  (* ---- the lastUpdate test of LockExecution never decides anything: a writer is refused iff unsubscribed ---- *)
  Theorem lastUpdate_test_redundant s0 sch t id d c p b :
    let s := run sch (init s0) in
    thr s t = WLoop id d (c :: p) -> cbs s c = Some b -> refuses S D b id = unsubd b.
  Proof.
    intros s Ht Hc. pose proof (reach s0 sch) as I. fold s in I.
    destruct (i_wid _ _ _ _ _ _ _ _ _ I t id d) as [_ Fw]; [rewrite Ht; reflexivity|].
    unfold refuses. destruct (unsubd b); auto. simpl.
    destruct Fw as [->|[_ Fw]]; [reflexivity|].
    rewrite Ht in Fw. specialize (Fw c b (or_introl eq_refl) Hc).
    destruct (Nat.eqb_spec id (lastUpdate b)); [lia|]. apply andb_false_r.
  Qed.

  (* ---- the executable judgement used on recorded Go runs holds in every reachable state ---- *)
  Lemma list_eqb_refl l : list_eqb D eqD l l = true.
  Proof. induction l; simpl; auto. rewrite IHl. rewrite (proj2 (eqD_spec a a)); auto. Qed.
  Lemma prefixb_firstn n l : prefixb D eqD (firstn n l) l = true.
  Proof.
    revert l; induction n; destruct l; simpl; auto. rewrite IHn. rewrite (proj2 (eqD_spec d d)); auto.
  Qed.

  Theorem shape_ok_reachable s0 sch c b :
    let s := run sch (init s0) in
    cbs s c = Some b -> returned b = true ->
    shape_ok S D appl zero nonzero initD eqD eqS s0 (hist s) (gotinit b) false (log b) = true.
  Proof.
    intros s H Rt. destruct (log_shape s0 sch c b H) as (A & B & C & _ & Z). fold s in A, B, C.
    unfold shape_ok. apply existsb_exists. exists (regat b). split.
    - apply in_seq. lia.
    - unfold shape_at. rewrite <- C. rewrite A. unfold Inv.initpart.
      destruct (gotinit b) eqn:G.
      + rewrite orb_true_r. simpl. rewrite (proj2 (eqD_spec _ _) eq_refl). apply prefixb_firstn.
      + rewrite (Z Rt eq_refl). rewrite nonzero_of_zero. simpl.
        rewrite (proj2 (eqS_spec _ _) eq_refl). apply prefixb_firstn.
  Qed.

  Theorem shape_ok_quiescent s0 sch c b :
    let s := run sch (init s0) in
    quiescent S D W R s -> cbs s c = Some b -> unsubd b = false ->
    shape_ok S D appl zero nonzero initD eqD eqS s0 (hist s) (gotinit b) true (log b) = true.
  Proof.
    intros s Q H U. destruct (complete s0 sch c b Q H U) as (Rt & L & A & _). fold s in L, A.
    destruct (log_shape s0 sch c b H) as (_ & _ & C & _ & Z). fold s in C.
    unfold shape_ok. apply existsb_exists. exists (regat b). split.
    - apply in_seq. lia.
    - unfold shape_at. rewrite <- C. rewrite A. unfold Inv.initpart.
      destruct (gotinit b) eqn:G.
      + rewrite orb_true_r. simpl. rewrite (proj2 (eqD_spec _ _) eq_refl). apply list_eqb_refl.
      + rewrite (Z Rt eq_refl). rewrite nonzero_of_zero. simpl.
        rewrite (proj2 (eqS_spec _ _) eq_refl). apply list_eqb_refl.
  Qed.

  (* ---- every notified change is legal w.r.t. the value it was applied to (instance-specific [legal]) ---- *)
  Variable legal : S -> D -> Prop.
  Hypothesis wr_legal : forall w s d, w_delta (wr w s) = Some d -> legal s d.

  Fixpoint chain (s : S) (G : list D) : Prop :=
    match G with [] => True | d :: r => legal s d /\ chain (appl s d) r end.

  Lemma chain_snoc G : forall s d, chain s G -> legal (fold_left appl G s) d -> chain s (G ++ [d]).
  Proof. induction G; simpl; intros; auto. destruct H. split; auto. Qed.

  Lemma step_hist (s s' : state) t ch :
    step S D W R nonzero initD wr wskip s t ch = Some s' ->
    hist s' = hist s \/ exists w d, w_delta (wr w (val s)) = Some d /\ hist s' = hist s ++ [d].
  Proof.
    unfold step. intros H.
    repeat match type of H with
    | match ?x with _ => _ end = _ => destruct x eqn:?; try discriminate
    | (if ?x then _ else _) = _ => destruct x eqn:?; try discriminate
    end; try (injection H as <-; simpl; auto; fail).
    injection H as <-. simpl. right. eauto.
  Qed.

  Theorem hist_chain s0 sch : chain s0 (hist (run sch (init s0))).
  Proof.
    assert (G : forall sch s, Inv s0 s -> chain s0 (hist s) -> chain s0 (hist (run sch s))).
    { induction sch0 as [|[t ch] r IH]; simpl; intros s I Hc; auto.
      destruct (step S D W R nonzero initD wr wskip s t ch) as [s'|] eqn:E; auto.
      apply IH. - eapply step_inv; eauto.
      - destruct (step_hist _ _ _ _ E) as [->|(w & d & Hd & ->)]; auto.
        apply chain_snoc; auto. rewrite <- (i_val _ _ _ _ _ _ _ _ _ I). eapply wr_legal; eauto. }
    apply G. apply inv_init. simpl. auto.
  Qed.
End Thm.

(* ================= instances ================= *)

(* Variable[V] / Event *)
Section VarThm.
  Variable V : Type.
  Variable eqV : V -> V -> bool.
  Variable zeroV : V.
  Variable tr : V -> V -> V.
  Hypothesis eqV_spec : forall a b, eqV a b = true <-> a = b.

  Lemma v_wr_delta : forall (f : V -> V) s d, w_delta (v_wr V eqV tr f s) = Some d -> w_new (v_wr V eqV tr f s) = v_apply V s d.
  Proof. intros f s d. unfold v_wr. destruct (eqV (tr s (f s)) s); simpl; intros H; [discriminate|]. injection H as <-. reflexivity. Qed.
  Lemma v_wr_nodelta : forall (f : V -> V) s, w_delta (v_wr V eqV tr f s) = None -> w_new (v_wr V eqV tr f s) = s.
  Proof. intros f s. unfold v_wr. destruct (eqV (tr s (f s)) s); simpl; intros H; [reflexivity|discriminate]. Qed.
  Lemma v_nonzero_zero : forall v, v_nonzero V eqV zeroV v = false -> v = zeroV.
  Proof. unfold v_nonzero. intros v H. apply negb_false_iff in H. apply eqV_spec; auto. Qed.
  Lemma v_nonzero_of_zero : v_nonzero V eqV zeroV zeroV = false.
  Proof. unfold v_nonzero. rewrite (proj2 (eqV_spec zeroV zeroV)); auto. Qed.
  Lemma v_init_fold : forall v, v_apply V zeroV (v_initD V zeroV v) = v.
  Proof. reflexivity. Qed.
  Lemma v_eqD_spec : forall a b, v_eqD V eqV a b = true <-> a = b.
  Proof.
    intros [a1 a2] [b1 b2]. unfold v_eqD. simpl. rewrite andb_true_iff, !eqV_spec.
    split; [intros [-> ->]; auto|intros H; injection H; auto].
  Qed.
  (* a change is (value before, value after) with after <> before *)
  Definition v_legal (s : V) (d : V * V) : Prop := fst d = s /\ snd d <> s.
  Lemma v_wr_legal : forall (f : V -> V) s d, w_delta (v_wr V eqV tr f s) = Some d -> v_legal s d.
  Proof.
    intros f s d. unfold v_wr. destruct (eqV (tr s (f s)) s) eqn:E; simpl; intros H; [discriminate|].
    injection H as <-. split; simpl; auto. intros X. apply eqV_spec in X. congruence.
  Qed.
End VarThm.

(* Set as bit masks *)
Lemma N_bits_eq a b : (forall n, N.testbit a n = N.testbit b n) -> a = b.
Proof. apply N.bits_inj. Qed.

Lemma s_applied_true_diff s m : s_apply s (s_applied s m) = s_apply s m.
Proof.
  unfold s_apply, s_applied. simpl. apply N.bits_inj. intros n.
  rewrite !N.ldiff_spec, !N.lor_spec, N.land_spec, N.ldiff_spec, N.lor_spec.
  destruct (N.testbit s n), (N.testbit (fst m) n), (N.testbit (snd m) n); reflexivity.
Qed.

Lemma s_replace_true_diff s e : s_apply s (N.ldiff e s, N.ldiff s e) = e.
Proof.
  unfold s_apply. simpl. apply N.bits_inj. intros n.
  rewrite !N.ldiff_spec, !N.lor_spec, N.ldiff_spec.
  destruct (N.testbit s n), (N.testbit e n); reflexivity.
Qed.

Lemma mut_empty_spec d : mut_empty d = true -> d = (0%N, 0%N).
Proof.
  destruct d as [a b]. unfold mut_empty. simpl. rewrite andb_true_iff, !N.eqb_eq. intros [-> ->]. reflexivity.
Qed.

Lemma s_apply_empty s : s_apply s (0%N, 0%N) = s.
Proof. unfold s_apply. simpl. rewrite N.lor_0_r. apply N.ldiff_0_r. Qed.

Lemma s_wr_delta : forall w s d, w_delta (s_wr w s) = Some d -> w_new (s_wr w s) = s_apply s d.
Proof.
  intros [m|f|e] s d; simpl.
  - destruct (mut_empty (s_applied s m)); intros H; [discriminate|]. injection H as <-. symmetry. apply s_applied_true_diff.
  - intros H. injection H as <-. symmetry. apply s_applied_true_diff.
  - intros H. injection H as <-. symmetry. apply s_replace_true_diff.
Qed.

Lemma s_wr_nodelta : forall w s, w_delta (s_wr w s) = None -> w_new (s_wr w s) = s.
Proof.
  intros [m|f|e] s; simpl; try discriminate.
  destruct (mut_empty (s_applied s m)) eqn:E; intros H; [|discriminate].
  rewrite <- s_applied_true_diff. apply mut_empty_spec in E. rewrite E. apply s_apply_empty.
Qed.

Lemma s_nonzero_zero : forall v, s_nonzero v = false -> v = 0%N.
Proof. unfold s_nonzero. intros v H. apply negb_false_iff in H. apply N.eqb_eq; auto. Qed.
Lemma s_init_fold : forall v, s_apply 0%N (s_initD v) = v.
Proof. intros v. unfold s_apply, s_initD. simpl. apply N.ldiff_0_r. Qed.
Lemma s_eqD_spec : forall a b, s_eqD a b = true <-> a = b.
Proof.
  intros [a1 a2] [b1 b2]. unfold s_eqD. simpl. rewrite andb_true_iff, !N.eqb_eq.
  split; [intros [-> ->]; auto|intros H; injection H; auto].
Qed.

(* each reported mutation is the true difference: added elements were absent, deleted ones present (or just added) *)
Definition s_legal_p (s : N) (d : N * N) : Prop :=
  N.land (fst d) s = 0%N /\ N.ldiff (snd d) (N.lor s (fst d)) = 0%N.
Lemma s_wr_legal : forall w s d, w_delta (s_wr w s) = Some d -> s_legal_p s d.
Proof.
  assert (A : forall s m, s_legal_p s (s_applied s m)).
  { intros s m. unfold s_legal_p, s_applied. simpl. split; apply N.bits_inj; intros n;
    rewrite ?N.land_spec, ?N.ldiff_spec, ?N.lor_spec, ?N.land_spec, ?N.ldiff_spec, ?N.lor_spec, N.bits_0;
    destruct (N.testbit s n), (N.testbit (fst m) n), (N.testbit (snd m) n); reflexivity. }
  intros [m|f|e] s d; simpl.
  - destruct (mut_empty (s_applied s m)); intros H; [discriminate|]. injection H as <-. apply A.
  - intros H. injection H as <-. apply A.
  - intros H. injection H as <-. unfold s_legal_p. simpl. split; apply N.bits_inj; intros n;
    rewrite ?N.land_spec, ?N.ldiff_spec, ?N.lor_spec, ?N.ldiff_spec, N.bits_0;
    destruct (N.testbit s n), (N.testbit e n); reflexivity.
Qed.

(* D13 (fixed by 0e0e80f): the pinned Replace reported added = all new, deleted = all previous, which is not
   the difference; a subscriber of {1,2} folding the report of Replace({2,3}) ends with {3}. *)
Lemma refuted_replace_pinned :
  exists s e d, w_delta (s_wr_pinned (SReplace e) s) = Some d /\ w_new (s_wr_pinned (SReplace e) s) <> s_apply s d.
Proof. exists 6%N, 12%N, (12%N, 6%N). split; [reflexivity|]. vm_compute. discriminate. Qed.

Definition d13_schedule : list (nat * option (op sop)) :=
  [(0, Some (Subscribe 0 false)); (0, None); (0, None); (0, None); (0, None);
   (0, Some (Write (SReplace 12%N))); (0, None); (0, None); (0, None); (0, None); (0, None); (0, None)].

Lemma refuted_replace_pinned_run :
  let s := s_run_pinned d13_schedule (init N (N * N) sop (N * N) 6%N) in
  val s = 12%N /\ option_map (fun b => fold_log N (N * N) s_apply 0%N (log b)) (cbs s 0) = Some 8%N.
Proof. vm_compute. split; reflexivity. Qed.

Lemma replace_fixed_run :
  let s := s_run d13_schedule (init N (N * N) sop (N * N) 6%N) in
  val s = 12%N /\ option_map (fun b => fold_log N (N * N) s_apply 0%N (log b)) (cbs s 0) = Some 12%N
  /\ thr s 0 = Idle.
Proof. vm_compute. repeat split; reflexivity. Qed.

(* ================= the theorems at the two instances ================= *)
Section VarInstThm.
  Variable V : Type.
  Variable eqV : V -> V -> bool.
  Variable zeroV : V.
  Variable tr : V -> V -> V.
  Hypothesis eqV_spec : forall a b, eqV a b = true <-> a = b.
  Notation vrun := (v_run V eqV zeroV tr).
  Notation vinit := (init V (V * V) (V -> V) V zeroV).
  Notation vinitpart := (initpart V (V * V) (v_initD V zeroV)).

  Lemma var_log_shape sch c b :
    let s := vrun sch vinit in
    cbs s c = Some b ->
    log b = vinitpart b ++ firstn (ndel b) (skipn (regat b) (hist s))
    /\ regat b + ndel b <= length (hist s)
    /\ initv b = fold_left (v_apply V) (firstn (regat b) (hist s)) zeroV
    /\ val s = fold_left (v_apply V) (hist s) zeroV
    /\ (returned b = true -> gotinit b = false -> initv b = zeroV).
  Proof.
    intros s H. unfold s, v_run in *.
    eapply log_shape; eauto using v_wr_delta, v_wr_nodelta, v_nonzero_zero.
  Qed.

  Lemma var_complete sch c b :
    let s := vrun sch vinit in
    quiescent _ _ _ _ s -> cbs s c = Some b -> unsubd b = false ->
    returned b = true /\ regat b + ndel b = length (hist s)
    /\ log b = vinitpart b ++ skipn (regat b) (hist s)
    /\ fold_log V (V * V) (v_apply V) zeroV (log b) = val s.
  Proof.
    intros s Q H U. unfold s, v_run in *.
    eapply complete; eauto using v_wr_delta, v_wr_nodelta, v_nonzero_zero, v_init_fold.
  Qed.

  Lemma var_serial sch c b : cbs (vrun sch vinit) c = Some b -> overlap b = false /\ incb b <= 1.
  Proof.
    unfold v_run. intros H. eapply (serial_callbacks V (V * V) (V -> V) V (v_apply V) zeroV); eauto using v_wr_delta, v_wr_nodelta, v_nonzero_zero.
  Qed.

  Lemma var_after_unsub sch c b :
    cbs (vrun sch vinit) c = Some b -> late b = false /\ (unsub_ret b = true -> incb b = 0).
  Proof.
    unfold v_run. intros H. eapply (after_unsub V (V * V) (V -> V) V (v_apply V) zeroV); eauto using v_wr_delta, v_wr_nodelta, v_nonzero_zero.
  Qed.

  (* the global change sequence is a chain: each change is (value before, value after), after <> before *)
  Lemma var_chain sch : chain V (V * V) (v_apply V) (v_legal V) zeroV (hist (vrun sch vinit)).
  Proof.
    unfold v_run. eapply (hist_chain V (V * V) (V -> V) V (v_apply V) zeroV); eauto using v_wr_delta, v_wr_nodelta, v_nonzero_zero, v_wr_legal.
  Qed.
End VarInstThm.

Notation sinitpart := (initpart N (N * N) s_initD).

Lemma set_log_shape s0 sch c b :
  let s := s_run sch (init N (N * N) sop (N * N) s0) in
  cbs s c = Some b ->
  log b = sinitpart b ++ firstn (ndel b) (skipn (regat b) (hist s))
  /\ regat b + ndel b <= length (hist s)
  /\ initv b = fold_left s_apply (firstn (regat b) (hist s)) s0
  /\ val s = fold_left s_apply (hist s) s0
  /\ (returned b = true -> gotinit b = false -> initv b = 0%N).
Proof.
  intros s H. unfold s, s_run in *.
  eapply log_shape; eauto using s_wr_delta, s_wr_nodelta, s_nonzero_zero.
Qed.

Lemma set_fold s0 sch c b :
  let s := s_run sch (init N (N * N) sop (N * N) s0) in
  quiescent _ _ _ _ s -> cbs s c = Some b -> unsubd b = false ->
  returned b = true /\ regat b + ndel b = length (hist s)
  /\ log b = sinitpart b ++ skipn (regat b) (hist s)
  /\ fold_log N (N * N) s_apply 0%N (log b) = val s.
Proof.
  intros s Q H U. unfold s, s_run in *.
  eapply complete; eauto using s_wr_delta, s_wr_nodelta, s_nonzero_zero, s_init_fold.
Qed.

Lemma set_serial s0 sch c b :
  cbs (s_run sch (init N (N * N) sop (N * N) s0)) c = Some b -> overlap b = false /\ incb b <= 1.
Proof.
  unfold s_run. intros H. eapply (serial_callbacks N (N * N) sop (N * N) s_apply 0%N); eauto using s_wr_delta, s_wr_nodelta, s_nonzero_zero.
Qed.

Lemma set_after_unsub s0 sch c b :
  cbs (s_run sch (init N (N * N) sop (N * N) s0)) c = Some b -> late b = false /\ (unsub_ret b = true -> incb b = 0).
Proof.
  unfold s_run. intros H. eapply (after_unsub N (N * N) sop (N * N) s_apply 0%N); eauto using s_wr_delta, s_wr_nodelta, s_nonzero_zero.
Qed.

Lemma set_chain s0 sch : chain N (N * N) s_apply s_legal_p s0 (hist (s_run sch (init N (N * N) sop (N * N) s0))).
Proof.
  unfold s_run. eapply (hist_chain N (N * N) sop (N * N) s_apply 0%N); eauto using s_wr_delta, s_wr_nodelta, s_nonzero_zero, s_wr_legal.
Qed.

(* non-vacuity: a schedule with two writers, two subscribers and an unsubscriber interleaved, ending quiescent *)
Definition demo_schedule : list (nat * option (op sop)) :=
  [(0, Some (Subscribe 0 true)); (0, None);                       (* t0 registers cb 0, holds its execution lock *)
   (1, Some (Write (SReplace 12%N))); (1, None); (1, None);        (* t1 changes the value, snapshot = [0], blocks *)
   (2, Some (Subscribe 1 false)); (2, None); (2, None); (2, None); (2, None);   (* t2 subscribes after the change *)
   (0, None); (0, None); (0, None);                                (* t0 delivers the initial state, returns *)
   (1, None); (1, None); (1, None); (1, None);                     (* t1 delivers the change to cb 0 only *)
   (3, Some (Write (SApply (1%N, 4%N)))); (3, None); (3, None);
   (3, None); (3, None); (3, None); (3, None); (3, None); (3, None); (3, None);
   (0, Some (Unsub 1)); (0, None)].

Example demo_run :
  let s := s_run demo_schedule (init N (N * N) sop (N * N) 6%N) in
  (forall t, t < 5 -> thr s t = Idle) /\ val s = 9%N /\ hist s = [(8, 2); (1, 4)]%N
  /\ option_map (fun b => (log b, regat b, unsubd b)) (cbs s 0) = Some ([(6, 0); (8, 2); (1, 4)]%N, 0, false)
  /\ option_map (fun b => (log b, regat b, unsubd b)) (cbs s 1) = Some ([(12, 0); (1, 4)]%N, 1, true).
Proof.
  vm_compute. split; [|repeat split; reflexivity].
  intros t Ht. do 5 (destruct t as [|t]; [reflexivity|]). exfalso. lia.
Qed.
