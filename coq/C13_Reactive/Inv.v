(* C13 - the inductive invariant of the interleaving model and its preservation by every step. *)
From Coq Require Import List Bool Arith Lia.
From Verif.C13_Reactive Require Import Model.
Import ListNotations.

(* ---------- list facts ---------- *)
Lemma firstn_app_le {A} (h x : list A) k : k <= length h -> firstn k (h ++ x) = firstn k h.
Proof.
  intros. rewrite firstn_app. replace (k - length h) with 0 by lia. simpl. apply app_nil_r.
Qed.

Lemma skipn_app_le {A} (h x : list A) k : k <= length h -> skipn k (h ++ x) = skipn k h ++ x.
Proof.
  intros. rewrite skipn_app. replace (k - length h) with 0 by lia. reflexivity.
Qed.

Lemma seg_app_le {A} (h x : list A) k n :
  k + n <= length h -> firstn n (skipn k (h ++ x)) = firstn n (skipn k h).
Proof.
  intros. rewrite skipn_app_le by lia. apply firstn_app_le. rewrite skipn_length. lia.
Qed.

Lemma seg_snoc {A} (h : list A) d k n :
  k + n = length h -> firstn (S n) (skipn k (h ++ [d])) = firstn n (skipn k (h ++ [d])) ++ [d].
Proof.
  intros. rewrite skipn_app_le by lia.
  assert (L : length (skipn k h) = n) by (rewrite skipn_length; lia).
  rewrite (firstn_app_le (skipn k h) [d] n) by lia.
  rewrite firstn_app. rewrite L. replace (S n - n) with 1 by lia.
  rewrite (firstn_all2 (n:=S n)) by lia. rewrite (firstn_all2 (n:=n)) by lia. reflexivity.
Qed.

Lemma in_remove_nat c x l : In x (remove_nat c l) <-> In x l /\ x <> c.
Proof.
  unfold remove_nat. rewrite filter_In. destruct (Nat.eqb_spec x c); simpl; intuition congruence.
Qed.

Lemma nodup_remove_nat c l : NoDup l -> NoDup (remove_nat c l).
Proof. apply NoDup_filter. Qed.

Lemma nodup_snoc (l : list nat) c : NoDup l -> ~ In c l -> NoDup (l ++ [c]).
Proof.
  induction l; simpl; intros H H0.
  - repeat constructor; auto.
  - inversion H; subst. constructor.
    + rewrite in_app_iff. simpl. intuition.
    + apply IHl; auto.
Qed.

Section Inv.
  Variables S D W R : Type.
  Variable appl : S -> D -> S.
  Variable zero : S.
  Variable nonzero : S -> bool.
  Variable initD : S -> D.
  Variable wr : W -> S -> wres S D R.
  Variable wskip : W -> option R.

  (* what the instance must satisfy: a notified delta is the true difference, no silent change *)
  Hypothesis wr_delta : forall w s d, w_delta (wr w s) = Some d -> w_new (wr w s) = appl s d.
  Hypothesis wr_nodelta : forall w s, w_delta (wr w s) = None -> w_new (wr w s) = s.

  Notation state := (state S D W R).
  Notation pc := (pc S D W).
  Notation cb := (cb S D).
  Notation step := (step S D W R nonzero initD wr wskip).
  Notation run := (run S D W R nonzero initD wr wskip).

  Definition holds_ord (p : pc) : Prop :=
    match p with WLockVm _ | WUpdate _ | WLoop _ _ _ | WInvoke _ _ _ _ | WInCb _ _ _ _ | WEnd => True | _ => False end.
  Definition holds_vm (p : pc) : Prop := match p with WUpdate _ | SReg _ _ => True | _ => False end.
  Definition holds_exec (p : pc) (c : nat) : Prop :=
    match p with WInvoke _ _ c' _ | WInCb _ _ c' _ | SInit c' _ _ | SInCb c' | SUnlock c' => c' = c | _ => False end.
  Definition in_cb (p : pc) (c : nat) : Prop :=
    match p with WInCb _ _ c' _ | SInCb c' => c' = c | _ => False end.
  Definition sub_stage (p : pc) (c : nat) : Prop :=
    match p with SInit c' _ _ | SInCb c' | SUnlock c' => c' = c | _ => False end.
  Definition pend_of (p : pc) : list nat :=
    match p with WLoop _ _ l => l | WInvoke _ _ c l => c :: l | WInCb _ _ _ l => l | _ => [] end.
  Definition rest_of (p : pc) : list nat :=
    match p with WLoop _ _ l | WInvoke _ _ _ l | WInCb _ _ _ l => l | _ => [] end.
  Definition wid (p : pc) : option (nat * D) :=
    match p with WLoop id d _ | WInvoke id d _ _ | WInCb id d _ _ => Some (id, d) | _ => None end.
  Definition initpart (b : cb) : list D := if gotinit b then [initD (initv b)] else [].

  Record Inv (s0 : S) (s : state) : Prop := mkInv {
    i_ord : forall t, holds_ord (thr s t) -> ord s = Some t;
    i_vm : forall t, holds_vm (thr s t) -> vm s = Some t;
    i_exec : forall t c, holds_exec (thr s t) c ->
             exists b, cbs s c = Some b /\ exec b = Some t /\ unsubd b = false;
    i_val : val s = fold_left appl (hist s) s0;
    i_lu : forall c b, cbs s c = Some b -> lastUpdate b <= uid s;
    i_shape : forall c b, cbs s c = Some b ->
              log b = initpart b ++ firstn (ndel b) (skipn (regat b) (hist s))
              /\ regat b + ndel b <= length (hist s)
              /\ initv b = fold_left appl (firstn (regat b) (hist s)) s0;
    i_pend : forall t c, In c (pend_of (thr s t)) ->
             exists b, cbs s c = Some b /\ regat b + ndel b + 1 = length (hist s);
    i_live : forall c b, cbs s c = Some b -> In c (reg s) ->
             (forall t, ~ In c (pend_of (thr s t))) ->
             regat b + ndel b = length (hist s);
    i_nodup : forall t, NoDup (pend_of (thr s t));
    i_regnodup : NoDup (reg s);
    i_reg : forall c, In c (reg s) -> exists b, cbs s c = Some b;
    i_wid : forall t id d, wid (thr s t) = Some (id, d) ->
            (exists h, hist s = h ++ [d])
            /\ (id = 0 \/ (id = uid s /\
                           forall c b, In c (rest_of (thr s t)) -> cbs s c = Some b ->
                                       lastUpdate b < id));
    i_execT : forall c b t, cbs s c = Some b -> exec b = Some t -> holds_exec (thr s t) c;
    i_incb : forall c b, cbs s c = Some b ->
             incb b <= 1 /\ (exec b = None -> incb b = 0)
             /\ (forall t, exec b = Some t -> incb b = 1 -> in_cb (thr s t) c);
    i_flags : forall c b, cbs s c = Some b ->
              overlap b = false /\ late b = false
              /\ (unsub_ret b = true -> unsubd b = true)
              /\ (returned b = false -> unsubd b = false);
    i_sub : forall t c, sub_stage (thr s t) c ->
            exists b, cbs s c = Some b /\ returned b = false;
    i_umark : forall t c, thr s t = UMark c ->
              (exists b, cbs s c = Some b /\ returned b = true) /\ ~ In c (reg s);
    i_unsubd : forall c b, cbs s c = Some b -> unsubd b = true -> ~ In c (reg s);
    i_sinit : forall t c trig cur, thr s t = SInit c trig cur ->
              exists b, cbs s c = Some b /\ cur = initv b /\ gotinit b = false /\ ndel b = 0;
    i_noinit1 : forall c b, cbs s c = Some b -> gotinit b = false -> returned b = true -> initv b = zero;
    i_noinit2 : forall t c b, thr s t = SUnlock c -> cbs s c = Some b -> gotinit b = false -> initv b = zero;
    i_sincb : forall t c b, thr s t = SInCb c -> cbs s c = Some b -> gotinit b = true;
    i_alive : forall c b, cbs s c = Some b ->
              In c (reg s) \/ unsubd b = true \/ exists t, thr s t = UMark c
  }.

  Lemma inv_init s0 : Inv s0 (init S D W R s0).
  Proof.
    constructor; simpl; try (intros; discriminate); try (intros; contradiction); auto.
    - constructor.
    - constructor.
  Qed.


  Lemma updf_same {A} (f : nat -> A) k v : updf f k v k = v.
  Proof. unfold updf. rewrite Nat.eqb_refl. reflexivity. Qed.
  Lemma updf_other {A} (f : nat -> A) k v x : x <> k -> updf f k v x = f x.
  Proof. unfold updf. intros. destruct (Nat.eqb_spec x k); congruence. Qed.
  Arguments updf : simpl never.

  (* frame lemmas for clauses that quantify existentially / negatively over threads *)
  Lemma ex_thr_frame (P : pc -> Prop) (th : nat -> pc) t p' :
    (exists t1, P (th t1)) -> (P (th t) -> P p') -> exists t1, P (updf th t p' t1).
  Proof.
    intros [t1 H] Hp. destruct (Nat.eq_dec t1 t) as [->|n].
    - exists t. rewrite updf_same. auto.
    - exists t1. rewrite updf_other; auto.
  Qed.
  Lemma all_thr_frame (P : pc -> Prop) (th : nat -> pc) t p' :
    (forall t0, ~ P (updf th t p' t0)) -> (P (th t) -> P p') -> forall t0, ~ P (th t0).
  Proof.
    intros H Hp t0 Hc. destruct (Nat.eq_dec t0 t) as [->|n].
    - apply (H t). rewrite updf_same. auto.
    - apply (H t0). rewrite updf_other; auto.
  Qed.

  Ltac tsplit t :=
    repeat match goal with
    | H : context [updf _ t _ ?t0] |- _ =>
        destruct (Nat.eq_dec t0 t) as [->|?]; [rewrite ?updf_same in * | rewrite ?updf_other in * by assumption]
    | |- context [updf _ t _ ?t0] =>
        destruct (Nat.eq_dec t0 t) as [->|?]; [rewrite ?updf_same in * | rewrite ?updf_other in * by assumption]
    end.
  Ltac csplit c :=
    repeat match goal with
    | H : context [updf _ c _ ?c0] |- _ =>
        destruct (Nat.eq_dec c0 c) as [->|?]; [rewrite ?updf_same in * | rewrite ?updf_other in * by assumption]
    | |- context [updf _ c _ ?c0] =>
        destruct (Nat.eq_dec c0 c) as [->|?]; [rewrite ?updf_same in * | rewrite ?updf_other in * by assumption]
    end.
  Ltac inj := repeat match goal with H : Some _ = Some _ |- _ => injection H as H; try subst end.

  (* facts the old invariant gives about the acting thread *)
  Ltac sat I t Ht :=
    pose proof (i_ord _ _ I t) as Fo; pose proof (i_vm _ _ I t) as Fv; pose proof (i_exec _ _ I t) as Fe;
    pose proof (i_pend _ _ I t) as Fp; pose proof (i_nodup _ _ I t) as Fn; pose proof (i_wid _ _ I t) as Fw;
    pose proof (i_sub _ _ I t) as Fs; pose proof (i_umark _ _ I t) as Fu; pose proof (i_sinit _ _ I t) as Fi;
    rewrite Ht in Fo, Fv, Fe, Fp, Fn, Fw, Fs, Fu, Fi; simpl in Fo, Fv, Fe, Fp, Fn, Fw, Fs, Fu, Fi;
    try specialize (Fo Logic.I); try specialize (Fv Logic.I); try specialize (Fe _ eq_refl);
    try specialize (Fs _ eq_refl); try specialize (Fu _ eq_refl); try specialize (Fi _ _ _ eq_refl);
    try specialize (Fw _ _ eq_refl);
    try (destruct Fe as (be&Fe1&Fe2&Fe3)); try (destruct Fs as (bs&Fs1&Fs2)); try (destruct Fu as ((bu&Fu1&Fu2)&Fu3));
    try (destruct Fi as (bi&Fi1&Fi2&Fi3&Fi4)).

  Hypothesis nonzero_zero : forall v, nonzero v = false -> v = zero.

  Inductive mark {A B} (a : A) (b : B) : Prop := mk_mark.

  Ltac fwd I :=
    repeat match goal with
    | H : cbs _ ?c = Some ?b |- _ =>
        lazymatch goal with | _ : mark c b |- _ => fail | _ => idtac end;
        assert (mark c b) by constructor;
        pose proof (i_lu _ _ I _ _ H); pose proof (i_shape _ _ I _ _ H); pose proof (i_flags _ _ I _ _ H);
        pose proof (i_incb _ _ I _ _ H)
    end;
    repeat match goal with
    | H : cbs _ ?c = Some ?b, H0 : exec ?b = Some ?t |- _ =>
        lazymatch goal with | _ : mark (c, b) t |- _ => fail | _ => idtac end;
        assert (mark (c, b) t) by constructor;
        pose proof (i_execT _ _ I _ _ _ H H0)
    | H : holds_ord (thr _ ?t0) |- _ =>
        lazymatch goal with | _ : mark t0 0 |- _ => fail | _ => idtac end;
        assert (mark t0 0) by constructor;
        pose proof (i_ord _ _ I _ H)
    | H : holds_vm (thr _ ?t0) |- _ =>
        lazymatch goal with | _ : mark t0 1 |- _ => fail | _ => idtac end;
        assert (mark t0 1) by constructor;
        pose proof (i_vm _ _ I _ H)
    | H : holds_exec (thr _ ?t0) ?c |- _ =>
        lazymatch goal with | _ : mark (t0, c) 2 |- _ => fail | _ => idtac end;
        assert (mark (t0, c) 2) by constructor;
        destruct (i_exec _ _ I _ _ H) as (?&?&?&?)
    | H : In ?c (pend_of (thr _ ?t0)) |- _ =>
        lazymatch goal with | _ : mark (t0, c) 3 |- _ => fail | _ => idtac end;
        assert (mark (t0, c) 3) by constructor;
        destruct (i_pend _ _ I _ _ H) as (?&?&?)
    | H : sub_stage (thr _ ?t0) ?c |- _ =>
        lazymatch goal with | _ : mark (t0, c) 4 |- _ => fail | _ => idtac end;
        assert (mark (t0, c) 4) by constructor;
        destruct (i_sub _ _ I _ _ H) as (?&?&?)
    | H : thr _ ?t0 = UMark ?c |- _ =>
        lazymatch goal with | _ : mark (t0, c) 5 |- _ => fail | _ => idtac end;
        assert (mark (t0, c) 5) by constructor;
        destruct (i_umark _ _ I _ _ H) as ((?&?&?)&?)
    | H : thr _ ?t0 = SInit ?c _ _ |- _ =>
        lazymatch goal with | _ : mark (t0, c) 6 |- _ => fail | _ => idtac end;
        assert (mark (t0, c) 6) by constructor;
        destruct (i_sinit _ _ I _ _ _ _ H) as (?&?&?&?&?)
    | H : In ?c (reg _) |- _ =>
        lazymatch goal with | _ : mark c 7 |- _ => fail | _ => idtac end;
        assert (mark c 7) by constructor;
        destruct (i_reg _ _ I _ H) as (?&?)
    end.

  Ltac fin Ht := rewrite ?Ht in *; unfold cb_lock, cb_begin, cb_end, cb_end_unlock, cb_unlock_return, cb_mark, cb_new in *; simpl in *; subst; eauto; try congruence; try lia; try tauto;
    try solve [repeat (eexists || split); simpl; eauto; try congruence; try lia].
  Ltac fwdp :=
    try match goal with
    | Fp : (forall c0, _ -> exists _, _), H : _ \/ _ |- _ => destruct (Fp _ H) as (?&?&?)
    | Fp : (forall c0, _ -> exists _, _), H : In _ _ |- _ => destruct (Fp _ H) as (?&?&?)
    end.
  Ltac go I Ht t c := tsplit t; csplit c; inj; fwd I; repeat (fwd I; tsplit t; csplit c; inj); fwdp; fin Ht.

  Ltac c_live I t Ht :=
    match goal with Hp : forall t0, ~ In ?c (pend_of (updf _ t ?p' t0)) |- _ =>
      eapply (i_live _ _ I); eauto;
      apply (all_thr_frame (fun p => In c (pend_of p)) _ t p' Hp); rewrite ?Ht; simpl; tauto end.
  Ltac c_incb I t Ht :=
    match goal with H : cbs _ ?c = Some ?b |- _ =>
      let Hx := fresh "Hx" in
      destruct (i_incb _ _ I _ _ H) as (?&?&Hx); repeat split; auto;
      let t1 := fresh "t1" in intros t1 ? ?; specialize (Hx t1); tsplit t; fwd I; fin Ht end.
  Ltac c_alive I t Ht :=
    match goal with H : cbs _ ?c = Some ?b |- _ =>
      let Hx := fresh "Hx" in
      destruct (i_alive _ _ I _ _ H) as [|[|Hx]]; auto; right; right;
      apply (ex_thr_frame (fun p => p = UMark c) _ t _ Hx); rewrite ?Ht; simpl; try congruence end.
  Ltac start I t Ht := sat I t Ht; pose proof I as J; destruct J; constructor; simpl; intros; auto.
  Ltac c_live2 I t c Ht :=
    csplit c; inj; simpl;
    match goal with Hp : forall t0, ~ In ?c0 (pend_of (updf _ t ?p' t0)) |- _ =>
      first [ solve [exfalso; apply (Hp t); rewrite updf_same; simpl; auto]
            | eapply (i_live _ _ I); eauto;
              apply (all_thr_frame (fun q => In c0 (pend_of q)) _ t p' Hp); rewrite ?Ht; simpl; tauto ] end.
  Ltac rest I t Ht := try solve [c_live I t Ht]; try solve [c_incb I t Ht]; try solve [c_alive I t Ht].

  Lemma pres_skip s0 s r : Inv s0 s -> Inv s0 (add_ret S D W R s r).
  Proof. intros []. constructor; simpl; auto. Qed.

  (* Idle -> WLockVm : updateOrderMutex.Lock() *)
  Lemma pres_lock_ord s0 s t w :
    Inv s0 s -> thr s t = Idle -> ord s = None ->
    Inv s0 (set_thr S D W R (set_ord S D W R s (Some t)) t (WLockVm w)).
  Proof.
    intros I Ht Ho. start I t Ht.
    all: try solve [go I Ht t 0]. all: rest I t Ht.
  Qed.

  (* WLockVm -> WUpdate : valueMutex.Lock() *)
  Lemma pres_w_lock_vm s0 s t w :
    Inv s0 s -> thr s t = WLockVm w -> vm s = None ->
    Inv s0 (set_thr S D W R (set_vm S D W R s (Some t)) t (WUpdate w)).
  Proof.
    intros I Ht Ho. start I t Ht.
    all: try solve [go I Ht t 0]. all: rest I t Ht.
  Qed.

  (* Idle -> SReg : valueMutex.Lock() in OnUpdate *)
  Lemma pres_s_lock_vm s0 s t c trig :
    Inv s0 s -> thr s t = Idle -> vm s = None ->
    Inv s0 (set_thr S D W R (set_vm S D W R s (Some t)) t (SReg c trig)).
  Proof.
    intros I Ht Ho. start I t Ht.
    all: try solve [go I Ht t 0]. all: rest I t Ht.
  Qed.

  (* WEnd / WLoop [] -> Idle : updateOrderMutex.Unlock() *)
  Lemma pres_w_end s0 s t :
    Inv s0 s -> thr s t = WEnd ->
    Inv s0 (set_thr S D W R (set_ord S D W R s None) t Idle).
  Proof.
    intros I Ht. start I t Ht.
    all: try solve [go I Ht t 0]. all: rest I t Ht.
  Qed.

  Lemma pres_w_loop_nil s0 s t id d :
    Inv s0 s -> thr s t = WLoop id d [] ->
    Inv s0 (set_thr S D W R (set_ord S D W R s None) t Idle).
  Proof.
    intros I Ht. start I t Ht.
    all: try solve [go I Ht t 0]. all: rest I t Ht.
  Qed.

  (* LockExecution refuses: lock, test, unlock in one go *)
  Lemma pres_w_refuse s0 s t id d c p b :
    Inv s0 s -> thr s t = WLoop id d (c :: p) -> cbs s c = Some b -> exec b = None -> refuses S D b id = true ->
    Inv s0 (set_thr S D W R s t (WLoop id d p)).
  Proof.
    intros I Ht Hc He Hr. start I t Ht.
    all: try solve [go I Ht t 0]. all: rest I t Ht.
    - (* live *)
      destruct (Nat.eq_dec c0 c) as [->|n].
      + exfalso. rewrite Hc in H; inj. unfold refuses in Hr.
        apply orb_true_iff in Hr as [Hu|Hl].
        * eapply i_unsubd0; eauto.
        * apply andb_true_iff in Hl as [Hz Hl]. apply Nat.eqb_eq in Hl. apply negb_true_iff in Hz.
          apply Nat.eqb_neq in Hz. destruct Fw as [_ [|[_ Fw]]]; [congruence|].
          specialize (Fw c b0 (or_introl eq_refl) Hc). lia.
      + eapply i_live0; eauto.
        apply (all_thr_frame (fun q => In c0 (pend_of q)) _ t _ H1). rewrite Ht. simpl. intuition congruence.
    - tsplit t; simpl; auto. inversion Fn; auto.
    - tsplit t; simpl in *; auto. inj. destruct Fw as [Fh Fw]. split; auto.
      destruct Fw as [|[? Fw]]; auto. right. split; auto. intros. eapply Fw; eauto.
  Qed.

  (* LockExecution succeeds *)
  Lemma pres_w_lock s0 s t id d c p b :
    Inv s0 s -> thr s t = WLoop id d (c :: p) -> cbs s c = Some b -> exec b = None -> refuses S D b id = false ->
    Inv s0 (set_thr S D W R (set_cb S D W R s c (cb_lock S D b t id)) t (WInvoke id d c p)).
  Proof.
    intros I Ht Hc He Hr.
    assert (Hu : unsubd b = false) by (unfold refuses in Hr; apply orb_false_iff in Hr; tauto).
    start I t Ht.
    all: try solve [go I Ht t c]. all: rest I t Ht.
    all: try solve [c_live2 I t c Ht].
    Show.
  Abort.

  (* Invoke(...) entered by a writer *)
  Lemma pres_w_begin s0 s t id d c p b :
    Inv s0 s -> thr s t = WInvoke id d c p -> cbs s c = Some b ->
    Inv s0 (set_thr S D W R (set_cb S D W R s c (cb_begin S D b d false)) t (WInCb id d c p)).
  Proof.
    intros I Ht Hc. start I t Ht.
    all: try solve [go I Ht t c]. all: rest I t Ht. all: try solve [c_live2 I t c Ht].
    Show.
  Abort.

  Lemma pres_w_cb_end s0 s t id d c p b :
    Inv s0 s -> thr s t = WInCb id d c p -> cbs s c = Some b ->
    Inv s0 (set_thr S D W R (set_cb S D W R s c (cb_end_unlock S D b)) t (WLoop id d p)).
  Proof.
    intros I Ht Hc. start I t Ht.
    all: try solve [go I Ht t c]. all: rest I t Ht. all: try solve [c_live2 I t c Ht].
    Show.
  Abort.
End Inv.
