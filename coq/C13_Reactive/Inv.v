(* C13 - the inductive invariant of the interleaving model and its preservation by every step. *)
From Coq Require Import List Bool Arith Lia.
From Verif.C13_Reactive Require Import Model.
Import ListNotations.

(* ---------- list facts ---------- *)
Lemma firstn_app_le {A} (h x : list A) k : k <= length h -> firstn k (h ++ x) = firstn k h.
Proof.
  intros. rewrite firstn_app. replace (k - length h) with 0 by lia. simpl. apply app_nil_r.
Qed.

Lemma skipn_app_le {A} (h x : list A) k : k <= length h -> skipn k (h ++ x) = skipn k h ++ x.
Proof.
  intros. rewrite skipn_app. replace (k - length h) with 0 by lia. reflexivity.
Qed.

Lemma seg_app_le {A} (h x : list A) k n :
  k + n <= length h -> firstn n (skipn k (h ++ x)) = firstn n (skipn k h).
Proof.
  intros. rewrite skipn_app_le by lia. apply firstn_app_le. rewrite skipn_length. lia.
Qed.

Lemma seg_snoc {A} (h : list A) d k n :
  k + n = length h -> firstn (S n) (skipn k (h ++ [d])) = firstn n (skipn k (h ++ [d])) ++ [d].
Proof.
  intros. rewrite skipn_app_le by lia.
  assert (L : length (skipn k h) = n) by (rewrite skipn_length; lia).
  rewrite (firstn_app_le (skipn k h) [d] n) by lia.
  rewrite firstn_app. rewrite L. replace (S n - n) with 1 by lia.
  rewrite (firstn_all2 (n:=S n)) by lia. rewrite (firstn_all2 (n:=n)) by lia. reflexivity.
Qed.

Lemma in_remove_nat c x l : In x (remove_nat c l) <-> In x l /\ x <> c.
Proof.
  unfold remove_nat. rewrite filter_In. destruct (Nat.eqb_spec x c); simpl; intuition congruence.
Qed.

Lemma nodup_remove_nat c l : NoDup l -> NoDup (remove_nat c l).
Proof. apply NoDup_filter. Qed.

Lemma nodup_snoc (l : list nat) c : NoDup l -> ~ In c l -> NoDup (l ++ [c]).
Proof.
  induction l; simpl; intros H H0.
  - repeat constructor; auto.
  - inversion H; subst. constructor.
    + rewrite in_app_iff. simpl. intuition.
    + apply IHl; auto.
Qed.

Section Inv.
  Variables S D W R : Type.
  Variable appl : S -> D -> S.
  Variable zero : S.
  Variable nonzero : S -> bool.
  Variable initD : S -> D.
  Variable wr : W -> S -> wres S D R.
  Variable wskip : W -> option R.

  (* what the instance must satisfy: a notified delta is the true difference, no silent change *)
  Hypothesis wr_delta : forall w s d, w_delta (wr w s) = Some d -> w_new (wr w s) = appl s d.
  Hypothesis wr_nodelta : forall w s, w_delta (wr w s) = None -> w_new (wr w s) = s.

  Notation state := (state S D W R).
  Notation pc := (pc S D W).
  Notation cb := (cb S D).
  Notation step := (step S D W R nonzero initD wr wskip).
  Notation run := (run S D W R nonzero initD wr wskip).

  Definition holds_ord (p : pc) : Prop :=
    match p with WLockVm _ | WUpdate _ | WLoop _ _ _ | WInvoke _ _ _ _ | WInCb _ _ _ _ | WEnd => True | _ => False end.
  Definition holds_vm (p : pc) : Prop := match p with WUpdate _ | SReg _ _ => True | _ => False end.
  Definition holds_exec (p : pc) (c : nat) : Prop :=
    match p with WInvoke _ _ c' _ | WInCb _ _ c' _ | SInit c' _ _ | SInCb c' | SUnlock c' => c' = c | _ => False end.
  Definition in_cb (p : pc) (c : nat) : Prop :=
    match p with WInCb _ _ c' _ | SInCb c' => c' = c | _ => False end.
  Definition sub_stage (p : pc) (c : nat) : Prop :=
    match p with SInit c' _ _ | SInCb c' | SUnlock c' => c' = c | _ => False end.
  Definition pend_of (p : pc) : list nat :=
    match p with WLoop _ _ l => l | WInvoke _ _ c l => c :: l | WInCb _ _ _ l => l | _ => [] end.
  Definition rest_of (p : pc) : list nat :=
    match p with WLoop _ _ l | WInvoke _ _ _ l | WInCb _ _ _ l => l | _ => [] end.
  Definition wid (p : pc) : option (nat * D) :=
    match p with WLoop id d _ | WInvoke id d _ _ | WInCb id d _ _ => Some (id, d) | _ => None end.
  Definition w_holds (p : pc) (c : nat) : Prop :=
    match p with WInvoke _ _ c' _ | WInCb _ _ c' _ => c' = c | _ => False end.
  Definition initpart (b : cb) : list D := if gotinit b then [initD (initv b)] else [].

  Record Inv (s0 : S) (s : state) : Prop := mkInv {
    i_ord : forall t, holds_ord (thr s t) -> ord s = Some t;
    i_vm : forall t, holds_vm (thr s t) -> vm s = Some t;
    i_exec : forall t c, holds_exec (thr s t) c ->
             exists b, cbs s c = Some b /\ exec b = Some t /\ unsubd b = false;
    i_val : val s = fold_left appl (hist s) s0;
    i_lu : forall c b, cbs s c = Some b -> lastUpdate b <= uid s;
    i_shape : forall c b, cbs s c = Some b ->
              log b = initpart b ++ firstn (ndel b) (skipn (regat b) (hist s))
              /\ regat b + ndel b <= length (hist s)
              /\ initv b = fold_left appl (firstn (regat b) (hist s)) s0;
    i_pend : forall t c, In c (pend_of (thr s t)) ->
             exists b, cbs s c = Some b /\ regat b + ndel b + 1 = length (hist s);
    i_live : forall c b, cbs s c = Some b -> In c (reg s) ->
             (forall t, ~ In c (pend_of (thr s t))) ->
             regat b + ndel b = length (hist s);
    i_nodup : forall t, NoDup (pend_of (thr s t));
    i_regnodup : NoDup (reg s);
    i_reg : forall c, In c (reg s) -> exists b, cbs s c = Some b;
    i_wid : forall t id d, wid (thr s t) = Some (id, d) ->
            (exists h, hist s = h ++ [d])
            /\ (id = 0 \/ (id = uid s /\
                           forall c b, In c (rest_of (thr s t)) -> cbs s c = Some b ->
                                       lastUpdate b < id));
    i_execT : forall c b t, cbs s c = Some b -> exec b = Some t -> holds_exec (thr s t) c;
    i_incb : forall c b, cbs s c = Some b ->
             incb b <= 1 /\ (exec b = None -> incb b = 0)
             /\ (forall t, exec b = Some t -> incb b = 1 -> in_cb (thr s t) c);
    i_flags : forall c b, cbs s c = Some b ->
              overlap b = false /\ late b = false
              /\ (unsub_ret b = true -> unsubd b = true)
              /\ (returned b = false -> unsubd b = false);
    i_sub : forall t c, sub_stage (thr s t) c ->
            exists b, cbs s c = Some b /\ returned b = false;
    i_umark : forall t c, thr s t = UMark c ->
              (exists b, cbs s c = Some b /\ returned b = true) /\ ~ In c (reg s);
    i_unsubd : forall c b, cbs s c = Some b -> unsubd b = true -> ~ In c (reg s);
    i_sinit : forall t c trig cur, thr s t = SInit c trig cur ->
              exists b, cbs s c = Some b /\ cur = initv b /\ gotinit b = false /\ ndel b = 0;
    i_noinit1 : forall c b, cbs s c = Some b -> gotinit b = false -> returned b = true -> initv b = zero;
    i_noinit2 : forall t c b, thr s t = SUnlock c -> cbs s c = Some b -> gotinit b = false -> initv b = zero;
    i_sincb : forall t c b, thr s t = SInCb c -> cbs s c = Some b -> gotinit b = true;
    i_alive : forall c b, cbs s c = Some b ->
              In c (reg s) \/ unsubd b = true \/ exists t, thr s t = UMark c;
    i_ret : forall c b, cbs s c = Some b -> returned b = false -> exec b <> None;
    i_wret : forall t c b, w_holds (thr s t) c -> cbs s c = Some b -> returned b = true
  }.

  Lemma inv_init s0 : Inv s0 (init S D W R s0).
  Proof.
    constructor; simpl; try (intros; discriminate); try (intros; contradiction); auto.
    - constructor.
    - constructor.
  Qed.


  Lemma updf_same {A} (f : nat -> A) k v : updf f k v k = v.
  Proof. unfold updf. rewrite Nat.eqb_refl. reflexivity. Qed.
  Lemma updf_other {A} (f : nat -> A) k v x : x <> k -> updf f k v x = f x.
  Proof. unfold updf. intros. destruct (Nat.eqb_spec x k); congruence. Qed.
  Arguments updf : simpl never.

  (* frame lemmas for clauses that quantify existentially / negatively over threads *)
  Lemma ex_thr_frame (P : pc -> Prop) (th : nat -> pc) t p' :
    (exists t1, P (th t1)) -> (P (th t) -> P p') -> exists t1, P (updf th t p' t1).
  Proof.
    intros [t1 H] Hp. destruct (Nat.eq_dec t1 t) as [->|n].
    - exists t. rewrite updf_same. auto.
    - exists t1. rewrite updf_other; auto.
  Qed.
  Lemma all_thr_frame (P : pc -> Prop) (th : nat -> pc) t p' :
    (forall t0, ~ P (updf th t p' t0)) -> (P (th t) -> P p') -> forall t0, ~ P (th t0).
  Proof.
    intros H Hp t0 Hc. destruct (Nat.eq_dec t0 t) as [->|n].
    - apply (H t). rewrite updf_same. auto.
    - apply (H t0). rewrite updf_other; auto.
  Qed.

  Ltac tsplit t :=
    repeat match goal with
    | H : context [updf _ t _ ?t0] |- _ =>
        destruct (Nat.eq_dec t0 t) as [->|?]; [rewrite ?updf_same in * | rewrite ?updf_other in * by assumption]
    | |- context [updf _ t _ ?t0] =>
        destruct (Nat.eq_dec t0 t) as [->|?]; [rewrite ?updf_same in * | rewrite ?updf_other in * by assumption]
    end.
  Ltac csplit c :=
    repeat match goal with
    | H : context [updf _ c _ ?c0] |- _ =>
        destruct (Nat.eq_dec c0 c) as [->|?]; [rewrite ?updf_same in * | rewrite ?updf_other in * by assumption]
    | |- context [updf _ c _ ?c0] =>
        destruct (Nat.eq_dec c0 c) as [->|?]; [rewrite ?updf_same in * | rewrite ?updf_other in * by assumption]
    end.
  Ltac inj := repeat match goal with H : Some _ = Some _ |- _ => injection H as H; try subst end.

  (* facts the old invariant gives about the acting thread *)
  Ltac sat I t Ht :=
    pose proof (i_ord _ _ I t) as Fo; pose proof (i_vm _ _ I t) as Fv; pose proof (i_exec _ _ I t) as Fe;
    pose proof (i_pend _ _ I t) as Fp; pose proof (i_nodup _ _ I t) as Fn; pose proof (i_wid _ _ I t) as Fw;
    pose proof (i_sub _ _ I t) as Fs; pose proof (i_umark _ _ I t) as Fu; pose proof (i_sinit _ _ I t) as Fi;
    rewrite Ht in Fo, Fv, Fe, Fp, Fn, Fw, Fs, Fu, Fi; simpl in Fo, Fv, Fe, Fp, Fn, Fw, Fs, Fu, Fi;
    try specialize (Fo Logic.I); try specialize (Fv Logic.I); try specialize (Fe _ eq_refl);
    try specialize (Fs _ eq_refl); try specialize (Fu _ eq_refl); try specialize (Fi _ _ _ eq_refl);
    try specialize (Fw _ _ eq_refl);
    try (destruct Fe as (be&Fe1&Fe2&Fe3)); try (destruct Fs as (bs&Fs1&Fs2)); try (destruct Fu as ((bu&Fu1&Fu2)&Fu3));
    try (destruct Fi as (bi&Fi1&Fi2&Fi3&Fi4)).

  Hypothesis nonzero_zero : forall v, nonzero v = false -> v = zero.

  Inductive mark {A B} (a : A) (b : B) : Prop := mk_mark.

  Ltac fwd I :=
    repeat match goal with
    | H : cbs _ ?c = Some ?b |- _ =>
        lazymatch goal with | _ : mark c b |- _ => fail | _ => idtac end;
        assert (mark c b) by constructor;
        pose proof (i_lu _ _ I _ _ H); pose proof (i_shape _ _ I _ _ H); pose proof (i_flags _ _ I _ _ H);
        pose proof (i_incb _ _ I _ _ H); pose proof (i_ret _ _ I _ _ H)
    end;
    repeat match goal with
    | H : cbs _ ?c = Some ?b, H0 : exec ?b = Some ?t |- _ =>
        lazymatch goal with | _ : mark (c, b) t |- _ => fail | _ => idtac end;
        assert (mark (c, b) t) by constructor;
        pose proof (i_execT _ _ I _ _ _ H H0)
    | H : holds_ord (thr _ ?t0) |- _ =>
        lazymatch goal with | _ : mark t0 0 |- _ => fail | _ => idtac end;
        assert (mark t0 0) by constructor;
        pose proof (i_ord _ _ I _ H)
    | H : holds_vm (thr _ ?t0) |- _ =>
        lazymatch goal with | _ : mark t0 1 |- _ => fail | _ => idtac end;
        assert (mark t0 1) by constructor;
        pose proof (i_vm _ _ I _ H)
    | H : holds_exec (thr _ ?t0) ?c |- _ =>
        lazymatch goal with | _ : mark (t0, c) 2 |- _ => fail | _ => idtac end;
        assert (mark (t0, c) 2) by constructor;
        destruct (i_exec _ _ I _ _ H) as (?&?&?&?)
    | H : In ?c (pend_of (thr _ ?t0)) |- _ =>
        lazymatch goal with | _ : mark (t0, c) 3 |- _ => fail | _ => idtac end;
        assert (mark (t0, c) 3) by constructor;
        destruct (i_pend _ _ I _ _ H) as (?&?&?)
    | H : sub_stage (thr _ ?t0) ?c |- _ =>
        lazymatch goal with | _ : mark (t0, c) 4 |- _ => fail | _ => idtac end;
        assert (mark (t0, c) 4) by constructor;
        destruct (i_sub _ _ I _ _ H) as (?&?&?)
    | H : thr _ ?t0 = UMark ?c |- _ =>
        lazymatch goal with | _ : mark (t0, c) 5 |- _ => fail | _ => idtac end;
        assert (mark (t0, c) 5) by constructor;
        destruct (i_umark _ _ I _ _ H) as ((?&?&?)&?)
    | H : thr _ ?t0 = SInit ?c _ _ |- _ =>
        lazymatch goal with | _ : mark (t0, c) 6 |- _ => fail | _ => idtac end;
        assert (mark (t0, c) 6) by constructor;
        destruct (i_sinit _ _ I _ _ _ _ H) as (?&?&?&?&?)
    | H : In ?c (reg _) |- _ =>
        lazymatch goal with | _ : mark c 7 |- _ => fail | _ => idtac end;
        assert (mark c 7) by constructor;
        destruct (i_reg _ _ I _ H) as (?&?)
    end.

  Ltac fin Ht := rewrite ?Ht in *; unfold cb_lock, cb_begin, cb_end, cb_end_unlock, cb_unlock_return, cb_mark, cb_new in *; simpl in *; subst; eauto; try congruence; try lia; try tauto;
    try solve [repeat (eexists || split); simpl; eauto; try congruence; try lia].
  Ltac fwdp :=
    try match goal with
    | Fp : (forall c0, _ -> exists _, _), H : _ \/ _ |- _ => destruct (Fp _ H) as (?&?&?)
    | Fp : (forall c0, _ -> exists _, _), H : In _ _ |- _ => destruct (Fp _ H) as (?&?&?)
    end.
  Ltac go I Ht t c := tsplit t; csplit c; inj; fwd I; repeat (fwd I; tsplit t; csplit c; inj); fwdp; fin Ht.

  Ltac c_live I t Ht :=
    match goal with Hp : forall t0, ~ In ?c (pend_of (updf _ t ?p' t0)) |- _ =>
      eapply (i_live _ _ I); eauto;
      apply (all_thr_frame (fun p => In c (pend_of p)) _ t p' Hp); rewrite ?Ht; simpl; tauto end.
  Ltac c_incb I t Ht :=
    match goal with H : cbs _ ?c = Some ?b |- _ =>
      let Hx := fresh "Hx" in
      destruct (i_incb _ _ I _ _ H) as (?&?&Hx); repeat split; auto;
      let t1 := fresh "t1" in intros t1 ? ?; specialize (Hx t1); tsplit t; fwd I; fin Ht end.
  Ltac c_alive I t Ht :=
    match goal with H : cbs _ ?c = Some ?b |- _ =>
      let Hx := fresh "Hx" in
      destruct (i_alive _ _ I _ _ H) as [|[|Hx]]; auto; right; right;
      apply (ex_thr_frame (fun p => p = UMark c) _ t _ Hx); rewrite ?Ht; simpl; try congruence end.
  Ltac start0 I t Ht := sat I t Ht; pose proof I as J; destruct J.
  Ltac start1 := constructor; simpl; intros; auto.
  Ltac start I t Ht := start0 I t Ht; start1.
  Ltac c_live2 I t c Ht :=
    csplit c; inj; simpl;
    match goal with Hp : forall t0, ~ In ?c0 (pend_of (updf _ t ?p' t0)) |- _ =>
      first [ solve [exfalso; apply (Hp t); rewrite updf_same; simpl; auto]
            | eapply (i_live _ _ I); eauto;
              apply (all_thr_frame (fun q => In c0 (pend_of q)) _ t p' Hp); rewrite ?Ht; simpl; tauto ] end.
  Ltac rest I t Ht := try solve [c_live I t Ht]; try solve [c_incb I t Ht]; try solve [c_alive I t Ht].

  Lemma wid_holds_ord (q : pc) x : wid q = Some x -> holds_ord q.
  Proof. destruct q; simpl; intros; auto; discriminate. Qed.

  (* another thread with a writer id would hold ord as well *)
  Ltac wid_other I Fo :=
    match goal with H : wid (thr _ ?t0) = Some _ |- _ =>
      exfalso; apply wid_holds_ord in H; apply (i_ord _ _ I) in H; congruence end.
  Ltac c_alive2 I t Ht :=
    match goal with H : cbs _ ?cc = Some ?bb |- In ?cc _ \/ _ \/ _ =>
      let Hx := fresh "Hx" in
      destruct (i_alive _ _ I _ _ H) as [|[|Hx]]; auto; right; right;
      apply (ex_thr_frame (fun q => q = UMark cc) _ t _ Hx); rewrite ?Ht; simpl; try congruence end.
  Ltac c_incb_other I t Ht :=
    match goal with H : cbs _ ?c = Some ?b |- incb ?b <= 1 /\ _ =>
      let Hx := fresh "Hx" in
      destruct (i_incb _ _ I _ _ H) as (?&?&Hx); repeat split; auto;
      let t1 := fresh "t1" in intros t1 ? ?; specialize (Hx t1); tsplit t; fwd I; fin Ht end.

  Lemma pend_holds_ord (q : pc) c : In c (pend_of q) -> holds_ord q.
  Proof. destruct q; simpl; intros; auto. Qed.
  Ltac pend_other I Fo :=
    match goal with H : In _ (pend_of (thr _ ?t0)) |- _ =>
      exfalso; apply pend_holds_ord in H; apply (i_ord _ _ I) in H; congruence end.
  (* another thread at a pc that holds the execution lock of c, while we hold it *)
  Ltac excl I Hc Fe2 :=
    exfalso;
    match goal with H : thr _ ?t0 = _ |- _ =>
      let X := fresh "X" in let Y := fresh "Y" in
      destruct (i_exec _ _ I t0 _ ltac:(rewrite H; simpl; reflexivity)) as (?&X&Y&?);
      rewrite Hc in X; injection X as <-; congruence end.

  (* a step of a thread that is not a writer in its loop and leaves lastUpdate alone *)
  Ltac c_wid_same I t c Ht :=
    match goal with H : wid (updf _ t _ ?t0) = Some _ |- _ =>
      tsplit t; [simpl in *; discriminate|];
      let Fh := fresh "Fh" in let Fx := fresh "Fx" in
      destruct (i_wid _ _ I _ _ _ H) as [Fh Fx]; split; auto;
      destruct Fx as [|[? Fx]]; auto; right; split; auto;
      let c1 := fresh "c1" in let b1 := fresh "b1" in
      intros c1 b1 ? ?; csplit c; inj; simpl; eauto end.

  Ltac c_ret I t c Ht Hc :=
    csplit c; inj; simpl in *;
    first [ discriminate | congruence | solve [eauto]
          | (exfalso; pose proof (i_wret _ _ I t c _ ltac:(rewrite Ht; simpl; reflexivity) Hc); congruence) ].
  Ltac c_wret I t c Ht Hc :=
    tsplit t; csplit c; inj; simpl in *;
    first [ solve [eauto] | contradiction | congruence
          | (pose proof (i_wret _ _ I t c _ ltac:(rewrite Ht; simpl; reflexivity) Hc); congruence)
          | solve [eapply (i_wret _ _ I); eauto] ].

  Lemma pres_skip s0 s r : Inv s0 s -> Inv s0 (add_ret S D W R s r).
  Proof. intros []. constructor; simpl; auto. Qed.

  (* Idle -> WLockVm : updateOrderMutex.Lock() *)
  Lemma pres_lock_ord s0 s t w :
    Inv s0 s -> thr s t = Idle -> ord s = None ->
    Inv s0 (set_thr S D W R (set_ord S D W R s (Some t)) t (WLockVm w)).
  Proof.
    intros I Ht Ho. start I t Ht.
    all: try solve [go I Ht t 0]. all: rest I t Ht.
  Qed.

  (* WLockVm -> WUpdate : valueMutex.Lock() *)
  Lemma pres_w_lock_vm s0 s t w :
    Inv s0 s -> thr s t = WLockVm w -> vm s = None ->
    Inv s0 (set_thr S D W R (set_vm S D W R s (Some t)) t (WUpdate w)).
  Proof.
    intros I Ht Ho. start I t Ht.
    all: try solve [go I Ht t 0]. all: rest I t Ht.
  Qed.

  (* Idle -> SReg : valueMutex.Lock() in OnUpdate *)
  Lemma pres_s_lock_vm s0 s t c trig :
    Inv s0 s -> thr s t = Idle -> vm s = None ->
    Inv s0 (set_thr S D W R (set_vm S D W R s (Some t)) t (SReg c trig)).
  Proof.
    intros I Ht Ho. start I t Ht.
    all: try solve [go I Ht t 0]. all: rest I t Ht.
  Qed.

  (* WEnd / WLoop [] -> Idle : updateOrderMutex.Unlock() *)
  Lemma pres_w_end s0 s t :
    Inv s0 s -> thr s t = WEnd ->
    Inv s0 (set_thr S D W R (set_ord S D W R s None) t Idle).
  Proof.
    intros I Ht. start I t Ht.
    all: try solve [go I Ht t 0]. all: rest I t Ht.
  Qed.

  Lemma pres_w_loop_nil s0 s t id d :
    Inv s0 s -> thr s t = WLoop id d [] ->
    Inv s0 (set_thr S D W R (set_ord S D W R s None) t Idle).
  Proof.
    intros I Ht. start I t Ht.
    all: try solve [go I Ht t 0]. all: rest I t Ht.
  Qed.

  (* LockExecution refuses: lock, test, unlock in one go *)
  Lemma pres_w_refuse s0 s t id d c p b :
    Inv s0 s -> thr s t = WLoop id d (c :: p) -> cbs s c = Some b -> exec b = None -> refuses S D b id = true ->
    Inv s0 (set_thr S D W R s t (WLoop id d p)).
  Proof.
    intros I Ht Hc He Hr. start I t Ht.
    all: try solve [go I Ht t 0]. all: rest I t Ht.
    - (* live *)
      destruct (Nat.eq_dec c0 c) as [->|n].
      + exfalso. rewrite Hc in H; inj. unfold refuses in Hr.
        apply orb_true_iff in Hr as [Hu|Hl].
        * eapply i_unsubd0; eauto.
        * apply andb_true_iff in Hl as [Hz Hl]. apply Nat.eqb_eq in Hl. apply negb_true_iff in Hz.
          apply Nat.eqb_neq in Hz. destruct Fw as [_ [|[_ Fw]]]; [congruence|].
          specialize (Fw c b0 (or_introl eq_refl) Hc). lia.
      + eapply i_live0; eauto.
        apply (all_thr_frame (fun q => In c0 (pend_of q)) _ t _ H1). rewrite Ht. simpl. intuition congruence.
    - tsplit t; simpl; auto. inversion Fn; auto.
    - tsplit t; simpl in *; auto. inj. destruct Fw as [Fh Fw]. split; auto.
      destruct Fw as [|[? Fw]]; auto. right. split; auto. intros. eapply Fw; eauto.
  Qed.

  (* LockExecution succeeds *)
  Lemma pres_w_lock s0 s t id d c p b :
    Inv s0 s -> thr s t = WLoop id d (c :: p) -> cbs s c = Some b -> exec b = None -> refuses S D b id = false ->
    Inv s0 (set_thr S D W R (set_cb S D W R s c (cb_lock S D b t id)) t (WInvoke id d c p)).
  Proof.
    intros I Ht Hc He Hr.
    assert (Hu : unsubd b = false) by (unfold refuses in Hr; apply orb_false_iff in Hr; tauto).
    start I t Ht.
    all: try solve [go I Ht t c]. all: try solve [c_ret I t c Ht Hc]. all: try solve [c_wret I t c Ht Hc]. all: rest I t Ht.
    all: try solve [c_live2 I t c Ht].
    - (* wid *) tsplit t; [|wid_other I Fo]. simpl in *. inj. destruct Fw as [Fh Fw]. split; auto.
      destruct Fw as [|[? Fw]]; auto. right. split; auto. intros c0 b0 Hin Hb.
      inversion Fn; subst. csplit c; [contradiction|]. eapply Fw; eauto.
    - (* incb *) csplit c; inj; [|c_incb_other I t Ht].
      destruct (i_incb0 _ _ Hc) as (?&Hz&?). simpl. repeat split; auto; try congruence.
      intros t1 E. inj. rewrite (Hz He). discriminate.
    - csplit c; inj; simpl; c_alive2 I t Ht.
    - (* wret *) tsplit t; simpl in *.
      + subst. rewrite ?updf_same in *. inj. simpl. destruct (returned b) eqn:E; auto. exfalso. eapply i_ret0; eauto.
      + csplit c; inj; simpl; eauto.
  Qed.

  (* Invoke(...) entered by a writer *)
  Lemma pres_w_begin s0 s t id d c p b :
    Inv s0 s -> thr s t = WInvoke id d c p -> cbs s c = Some b ->
    Inv s0 (set_thr S D W R (set_cb S D W R s c (cb_begin S D b d false)) t (WInCb id d c p)).
  Proof.
    intros I Ht Hc. start0 I t Ht. rewrite Hc in Fe1; injection Fe1 as <-.
    assert (Hpend : regat b + ndel b + 1 = length (hist s)).
    { destruct (Fp c (or_introl eq_refl)) as (?&E&?). rewrite Hc in E; inj. auto. }
    destruct Fw as [[h Fh] Fw].
    assert (Hnc : ~ In c p) by (inversion Fn; auto).
    destruct (i_incb0 _ _ Hc) as (Hle&_&Hin).
    assert (Hz : incb b = 0).
    { destruct (Nat.eq_dec (incb b) 1) as [E|]; [|lia]. specialize (Hin _ Fe2 E). rewrite Ht in Hin. simpl in Hin. contradiction. }
    destruct (i_flags0 _ _ Hc) as (Hov&Hla&Hur&Hrt).
    destruct (i_shape0 _ _ Hc) as (Hlog&Hlen&Hiv).
    start1.
    all: try solve [go I Ht t c]. all: try solve [c_ret I t c Ht Hc]. all: try solve [c_wret I t c Ht Hc].
    - (* shape *) csplit c; inj; [|eauto]. unfold initpart, cb_begin; cbn [log ndel regat gotinit initv]. rewrite orb_false_r.
      fold (initpart b). rewrite Fh in *. rewrite seg_snoc by (rewrite app_length in Hpend; simpl in Hpend; lia).
      rewrite app_assoc. rewrite <- Hlog. repeat split; auto. lia.
    - (* pend *) tsplit t; [|pend_other I Fo]. simpl in *. csplit c; [contradiction|]. apply Fp; auto.
    - (* live *) csplit c; inj; simpl; [lia|].
      eapply i_live0; eauto.
      apply (all_thr_frame (fun q => In c0 (pend_of q)) _ t _ H1). rewrite Ht. simpl. intuition congruence.
    - tsplit t; simpl; auto. inversion Fn; auto.
    - (* wid *) tsplit t; [|wid_other I Fo]. simpl in *. inj. split; [eauto|].
      destruct Fw as [|[? Fw]]; auto. right. split; auto. intros c0 b0 Hin0 Hb.
      csplit c; [contradiction|]. eapply Fw; eauto.
    - (* incb *) csplit c; inj; [|c_incb_other I t Ht]. simpl. repeat split; try lia; try congruence.
      intros t1 E _. rewrite Fe2 in E; inj. rewrite updf_same. simpl. auto.
    - (* flags *) csplit c; inj; [|eauto]. simpl. rewrite Hov, Hla, Hz. simpl.
      destruct (unsub_ret b) eqn:E; auto. specialize (Hur eq_refl). congruence.
    - (* sinit *) tsplit t; [discriminate|]. csplit c; [excl I Hc Fe2|]. eauto.
    - (* noinit1 *) csplit c; inj; [|eauto]. simpl in *. rewrite orb_false_r in *. eauto.
    - (* noinit2 *) tsplit t; [discriminate|]. csplit c; [excl I Hc Fe2|]. eauto.
    - (* sincb *) tsplit t; [discriminate|]. csplit c; [excl I Hc Fe2|]. eauto.
    - csplit c; inj; simpl; c_alive2 I t Ht.
  Qed.

  Lemma pres_w_cb_end s0 s t id d c p b :
    Inv s0 s -> thr s t = WInCb id d c p -> cbs s c = Some b ->
    Inv s0 (set_thr S D W R (set_cb S D W R s c (cb_end_unlock S D b)) t (WLoop id d p)).
  Proof.
    intros I Ht Hc. start0 I t Ht. rewrite Hc in Fe1; injection Fe1 as <-. start1.
    all: try solve [go I Ht t c]. all: try solve [c_ret I t c Ht Hc]. all: try solve [c_wret I t c Ht Hc]. all: rest I t Ht. all: try solve [c_live2 I t c Ht].
    - (* wid *) tsplit t; [|wid_other I Fo]. simpl in *. inj. destruct Fw as [Fh Fw]. split; auto.
      destruct Fw as [|[? Fw]]; auto. right. split; auto. intros c0 b0 Hin Hb.
      csplit c; inj; simpl; eauto.
    - (* incb *) csplit c; inj; [|c_incb_other I t Ht].
      destruct (i_incb0 _ _ Hc) as (?&?&?). simpl. repeat split; try lia; try congruence.
    - csplit c; inj; simpl; c_alive2 I t Ht.
  Qed.

  (* SInit, no initial callback: straight to the deferred unlock *)
  Lemma pres_s_noinit s0 s t c trig cur b :
    Inv s0 s -> thr s t = SInit c trig cur -> cbs s c = Some b -> nonzero cur || trig = false ->
    Inv s0 (set_thr S D W R s t (SUnlock c)).
  Proof.
    intros I Ht Hc Hn. start0 I t Ht. rewrite Hc in Fe1; injection Fe1 as <-.
    rewrite Hc in Fi1; injection Fi1 as <-. start1.
    all: try solve [go I Ht t c]. all: rest I t Ht.
    - (* noinit2 *) tsplit t; [|eauto]. injection H as <-. rewrite Hc in H0; injection H0 as <-.
      apply orb_false_iff in Hn as [Hn _]. apply nonzero_zero in Hn. congruence.
  Qed.

  Lemma pres_s_begin s0 s t c trig cur b :
    Inv s0 s -> thr s t = SInit c trig cur -> cbs s c = Some b ->
    Inv s0 (set_thr S D W R (set_cb S D W R s c (cb_begin S D b (initD cur) true)) t (SInCb c)).
  Proof.
    intros I Ht Hc. start0 I t Ht. rewrite Hc in Fe1; injection Fe1 as <-.
    rewrite Hc in Fi1; injection Fi1 as <-. start1.
    all: try solve [go I Ht t c]. all: try solve [c_ret I t c Ht Hc]. all: try solve [c_wret I t c Ht Hc]. all: rest I t Ht. all: try solve [c_live2 I t c Ht].
    - (* shape *) csplit c; inj; [|eauto]. destruct (i_shape0 _ _ Hc) as (Hlog&Hlen&Hiv).
      unfold initpart, cb_begin in *; cbn [log ndel regat gotinit initv]. rewrite Fi3, Fi4 in *. simpl in *.
      rewrite Hlog. try subst cur. repeat split; auto.
    - c_wid_same I t c Ht.
    - (* incb *) csplit c; inj; [|c_incb_other I t Ht].
      destruct (i_incb0 _ _ Hc) as (Hle&_&Hin).
      assert (Hz : incb b = 0).
      { destruct (Nat.eq_dec (incb b) 1) as [E|]; [|lia]. specialize (Hin _ Fe2 E). rewrite Ht in Hin. simpl in Hin. contradiction. }
      simpl. repeat split; try lia; try congruence.
      intros t1 E _. rewrite Fe2 in E; inj. rewrite updf_same. simpl. auto.
    - (* flags *) csplit c; inj; [|eauto].
      destruct (i_incb0 _ _ Hc) as (Hle&_&Hin).
      assert (Hz : incb b = 0).
      { destruct (Nat.eq_dec (incb b) 1) as [E|]; [|lia]. specialize (Hin _ Fe2 E). rewrite Ht in Hin. simpl in Hin. contradiction. }
      destruct (i_flags0 _ _ Hc) as (Hov&Hla&Hur&Hrt).
      simpl. rewrite Hov, Hla, Hz. simpl.
      destruct (unsub_ret b) eqn:E; auto. specialize (Hur eq_refl). congruence.
    - (* sinit *) tsplit t; [discriminate|]. csplit c; [excl I Hc Fe2|]. eauto.
    - csplit c; inj; simpl; c_alive2 I t Ht.
  Qed.

  Lemma pres_s_cb_end s0 s t c b :
    Inv s0 s -> thr s t = SInCb c -> cbs s c = Some b ->
    Inv s0 (set_thr S D W R (set_cb S D W R s c (cb_end S D b)) t (SUnlock c)).
  Proof.
    intros I Ht Hc. start0 I t Ht. rewrite Hc in Fe1; injection Fe1 as <-. start1.
    all: try solve [go I Ht t c]. all: try solve [c_ret I t c Ht Hc]. all: try solve [c_wret I t c Ht Hc]. all: rest I t Ht. all: try solve [c_live2 I t c Ht].
    - c_wid_same I t c Ht.
    - (* incb *) csplit c; inj; [|c_incb_other I t Ht].
      destruct (i_incb0 _ _ Hc) as (?&?&?). simpl. repeat split; try lia; try congruence.
    - (* noinit2 *) tsplit t.
      + injection H as <-. rewrite ?updf_same in *. inj. simpl in *. pose proof (i_sincb0 _ _ _ Ht Hc). congruence.
      + csplit c; [excl I Hc Fe2|]. eauto.
    - csplit c; inj; simpl; c_alive2 I t Ht.
  Qed.

  Lemma pres_s_unlock s0 s t c b :
    Inv s0 s -> thr s t = SUnlock c -> cbs s c = Some b ->
    Inv s0 (set_thr S D W R (set_cb S D W R s c (cb_unlock_return S D b)) t Idle).
  Proof.
    intros I Ht Hc. start0 I t Ht. rewrite Hc in Fe1; injection Fe1 as <-. start1.
    all: try solve [go I Ht t c]. all: try solve [c_ret I t c Ht Hc]. all: try solve [c_wret I t c Ht Hc]. all: rest I t Ht. all: try solve [c_live2 I t c Ht].
    - c_wid_same I t c Ht.
    - (* incb *) csplit c; inj; [|c_incb_other I t Ht].
      destruct (i_incb0 _ _ Hc) as (Hle&_&Hin).
      assert (Hz : incb b = 0).
      { destruct (Nat.eq_dec (incb b) 1) as [E|]; [|lia]. specialize (Hin _ Fe2 E). rewrite Ht in Hin. simpl in Hin. contradiction. }
      simpl. repeat split; try lia; try congruence.
    - (* sub *) tsplit t; [simpl in *; contradiction|]. csplit c.
      + exfalso. destruct (i_exec0 t0 c) as (?&X&Y&?).
        { destruct (thr s t0); simpl in *; auto; contradiction. }
        rewrite Hc in X; injection X as <-. congruence.
      + eauto.
    - csplit c; inj; simpl; c_alive2 I t Ht.
  Qed.

  Lemma pres_u_remove s0 s t c b :
    Inv s0 s -> thr s t = Idle -> cbs s c = Some b -> returned b = true ->
    Inv s0 (set_thr S D W R (set_reg S D W R s (remove_nat c (reg s))) t (UMark c)).
  Proof.
    intros I Ht Hc Hr. start I t Ht.
    all: try solve [go I Ht t c]. all: rest I t Ht.
    - (* live *) apply in_remove_nat in H0 as [H0 ?]. eapply i_live0; eauto.
      apply (all_thr_frame (fun q => In c0 (pend_of q)) _ t _ H1). rewrite Ht. simpl. tauto.
    - apply nodup_remove_nat; auto.
    - apply in_remove_nat in H as [H ?]. eauto.
    - (* umark *) rewrite in_remove_nat. tsplit t.
      + injection H as <-. split; [eauto|]. intros [_ X]; apply X; reflexivity.
      + destruct (i_umark0 _ _ H) as [? ?]. split; auto. tauto.
    - rewrite in_remove_nat. intros [? ?]. eapply i_unsubd0; eauto.
    - (* alive *) rewrite in_remove_nat. destruct (i_alive0 _ _ H) as [|[|[t1 Hx]]]; auto.
      + destruct (Nat.eq_dec c0 c) as [->|]; [|tauto]. right; right. exists t. rewrite updf_same. auto.
      + right; right. exists t1. rewrite updf_other; auto. intros ->. congruence.
  Qed.

  Lemma pres_u_mark s0 s t c b :
    Inv s0 s -> thr s t = UMark c -> cbs s c = Some b -> exec b = None ->
    Inv s0 (set_thr S D W R (set_cb S D W R s c (cb_mark S D b)) t Idle).
  Proof.
    intros I Ht Hc He. start I t Ht.
    all: try solve [go I Ht t c]. all: try solve [c_ret I t c Ht Hc]. all: try solve [c_wret I t c Ht Hc]. all: rest I t Ht. all: try solve [c_live2 I t c Ht].
    - c_wid_same I t c Ht.
    - (* incb *) csplit c; inj; [|c_incb_other I t Ht].
      destruct (i_incb0 _ _ Hc) as (?&?&?). simpl. repeat split; intros; auto; try lia; try congruence.
    - csplit c; inj; simpl; auto. c_alive2 I t Ht.
  Qed.

  Lemma rest_in_pend (q : pc) c : In c (rest_of q) -> In c (pend_of q).
  Proof. destruct q; simpl; auto. Qed.

  (* body of updateValue / apply / replace without a notification *)
  Lemma pres_w_update_none s0 s t w :
    Inv s0 s -> thr s t = WUpdate w -> w_delta (wr w (val s)) = None ->
    Inv s0 (mkSt S D W R (w_new (wr w (val s))) (if w_bump (wr w (val s)) then Datatypes.S (uid s) else uid s)
                 (ord s) None (reg s) (cbs s) (updf (thr s) t WEnd) (hist s) (rets s ++ [w_ret (wr w (val s))])).
  Proof.
    intros I Ht Hd. start I t Ht.
    all: try solve [go I Ht t 0]. all: rest I t Ht.
    - rewrite wr_nodelta; auto.
    - pose proof (i_lu0 _ _ H). destruct (w_bump (wr w (val s))); lia.
    - tsplit t; [simpl in *; discriminate|wid_other I Fo].
  Qed.

  Lemma pres_w_update_some s0 s t w d :
    Inv s0 s -> thr s t = WUpdate w -> w_delta (wr w (val s)) = Some d ->
    Inv s0 (mkSt S D W R (w_new (wr w (val s))) (if w_bump (wr w (val s)) then Datatypes.S (uid s) else uid s)
                 (ord s) None (reg s) (cbs s)
                 (updf (thr s) t (WLoop (if w_bump (wr w (val s)) then Datatypes.S (uid s) else 0) d (reg s)))
                 (hist s ++ [d]) (rets s ++ [w_ret (wr w (val s))])).
  Proof.
    intros I Ht Hd. start I t Ht.
    all: try solve [go I Ht t 0].
    - rewrite (wr_delta _ _ _ Hd). rewrite fold_left_app. simpl. congruence.
    - pose proof (i_lu0 _ _ H). destruct (w_bump (wr w (val s))); lia.
    - (* shape *) destruct (i_shape0 _ _ H) as (Hlog&Hlen&Hiv).
      rewrite seg_app_le by lia. rewrite firstn_app_le by lia. rewrite app_length. simpl. repeat split; auto. lia.
    - (* pend *) tsplit t; [|pend_other I Fo]. simpl in *.
      destruct (i_reg0 _ H) as [b Hb]. exists b. split; auto. rewrite app_length. simpl.
      assert (regat b + ndel b = length (hist s)); [|lia].
      eapply i_live0; eauto. intros t1 Hin. destruct (Nat.eq_dec t1 t) as [->|].
      + rewrite Ht in Hin. simpl in Hin. auto.
      + apply pend_holds_ord in Hin. apply i_ord0 in Hin. congruence.
    - (* live *) exfalso. apply (H1 t). rewrite updf_same. simpl. auto.
    - (* wid *) tsplit t; [|wid_other I Fo]. simpl in *. inj. split; [eauto|].
      destruct (w_bump (wr w (val s))); auto. right. split; auto.
      intros c b _ Hb. pose proof (i_lu0 _ _ Hb). lia.
    - c_incb I t Ht.
    - c_alive I t Ht.
  Qed.

  Lemma pres_s_reg s0 s t c trig :
    Inv s0 s -> thr s t = SReg c trig -> cbs s c = None ->
    Inv s0 (set_thr S D W R (set_vm S D W R (set_reg S D W R (set_cb S D W R s c (cb_new S D W R t s)) (reg s ++ [c])) None)
                    t (SInit c trig (val s))).
  Proof.
    intros I Ht Hc. start I t Ht.
    all: try solve [go I Ht t c]. all: try solve [c_ret I t c Ht Hc]. all: try solve [c_wret I t c Ht Hc].
    - (* shape *) csplit c; inj; [|eauto]. unfold initpart. simpl. rewrite Nat.add_0_r. repeat split; auto.
      rewrite firstn_all. auto.
    - (* live *) csplit c; inj; simpl; [lia|]. apply in_app_iff in H0 as [H0|[?|[]]]; [|congruence].
      eapply i_live0; eauto.
      apply (all_thr_frame (fun q => In c0 (pend_of q)) _ t _ H1). rewrite Ht. simpl. tauto.
    - apply nodup_snoc; auto. intros Hin. destruct (i_reg0 _ Hin). congruence.
    - csplit c; [eauto|]. apply in_app_iff in H as [H|[?|[]]]; [eauto|congruence].
    - (* wid *) tsplit t; [simpl in *; discriminate|].
      destruct (i_wid0 _ _ _ H) as [Fh Fx]. split; auto. destruct Fx as [|[? Fx]]; auto. right. split; auto.
      intros c1 b1 Hin Hb. csplit c; [|eauto].
      exfalso. apply rest_in_pend in Hin. destruct (i_pend0 _ _ Hin) as (?&?&?). congruence.
    - (* incb *) csplit c; inj; [|c_incb_other I t Ht]. simpl. repeat split; auto; intros; try lia; congruence.
    - (* umark *) tsplit t; [discriminate|]. destruct (i_umark0 _ _ H) as [(b0&Hb0&?) ?].
      csplit c; [congruence|]. split; [eauto|]. rewrite in_app_iff. simpl. intuition congruence.
    - (* unsubd *) csplit c; inj; [simpl in *; discriminate|]. rewrite in_app_iff. simpl.
      pose proof (i_unsubd0 _ _ H H0). intuition congruence.
    - (* noinit2 *) tsplit t; [discriminate|]. csplit c; [|eauto].
      exfalso. destruct (i_sub0 t0 c) as (?&?&?); [rewrite H; simpl; auto|congruence].
    - (* sincb *) tsplit t; [discriminate|]. csplit c; [|eauto].
      exfalso. destruct (i_sub0 t0 c) as (?&?&?); [rewrite H; simpl; auto|congruence].
    - (* alive *) csplit c; inj; [left; rewrite in_app_iff; simpl; auto|].
      rewrite in_app_iff.
      destruct (i_alive0 _ _ H) as [|[|Hx]]; auto. right; right.
      apply (ex_thr_frame (fun q => q = UMark c0) _ t _ Hx). rewrite Ht. congruence.
    - (* wret *) tsplit t; [simpl in *; contradiction|]. csplit c; [|eauto].
      exfalso. destruct (i_exec0 t0 c) as (?&?&?); [destruct (thr s t0); simpl in *; auto; contradiction|congruence].
  Qed.

  Theorem step_inv s0 s t ch s' : Inv s0 s -> step s t ch = Some s' -> Inv s0 s'.
  Proof.
    intros I H. unfold Model.step in H. destruct (thr s t) eqn:Ht.
    - (* Idle *) destruct ch as [[w|c trig|c]|]; try discriminate.
      + destruct (wskip w); [inj; apply pres_skip; auto|].
        destruct (ord s) eqn:Ho; [discriminate|]. inj. apply pres_lock_ord; auto.
      + destruct (vm s) eqn:Hv; [discriminate|]. destruct (cbs s c) eqn:Hc; [discriminate|]. inj.
        apply pres_s_lock_vm; auto.
      + destruct (cbs s c) eqn:Hc; [|discriminate]. destruct (returned c0) eqn:Hr; [|discriminate]. inj.
        eapply pres_u_remove; eauto.
    - destruct (vm s) eqn:Hv; [discriminate|]. inj. apply pres_w_lock_vm; auto.
    - destruct (w_delta (wr w (val s))) eqn:Hd; inj.
      + pose proof (pres_w_update_some s0 s t w d I Ht Hd) as P. destruct (w_bump (wr w (val s))); exact P.
      + pose proof (pres_w_update_none s0 s t w I Ht Hd) as P. destruct (w_bump (wr w (val s))); exact P.
    - destruct pend as [|c p].
      + inj. eapply pres_w_loop_nil; eauto.
      + destruct (cbs s c) eqn:Hc; [|discriminate]. destruct (exec c0) eqn:He; [discriminate|].
        destruct (refuses S D c0 id) eqn:Hr; inj.
        * eapply pres_w_refuse; eauto.
        * eapply pres_w_lock; eauto.
    - destruct (cbs s c) eqn:Hc; [|discriminate]. inj. eapply pres_w_begin; eauto.
    - destruct (cbs s c) eqn:Hc; [|discriminate]. inj. eapply pres_w_cb_end; eauto.
    - inj. apply pres_w_end; auto.
    - destruct (cbs s c) eqn:Hc; [discriminate|]. inj. apply pres_s_reg; auto.
    - destruct (cbs s c) eqn:Hc; [|discriminate]. destruct (nonzero cur || trig) eqn:Hn; inj.
      + eapply pres_s_begin; eauto.
      + eapply pres_s_noinit; eauto.
    - destruct (cbs s c) eqn:Hc; [|discriminate]. inj. eapply pres_s_cb_end; eauto.
    - destruct (cbs s c) eqn:Hc; [|discriminate]. inj. eapply pres_s_unlock; eauto.
    - destruct (cbs s c) eqn:Hc; [|discriminate]. destruct (exec c0) eqn:He; [discriminate|]. inj.
      eapply pres_u_mark; eauto.
  Qed.

  Theorem run_inv s0 sch : forall s, Inv s0 s -> Inv s0 (run sch s).
  Proof.
    induction sch as [|[t ch] r IH]; simpl; intros s I; auto.
    destruct (step s t ch) eqn:E; auto. apply IH. eapply step_inv; eauto.
  Qed.

  Corollary reachable_inv s0 sch : Inv s0 (run sch (init S D W R s0)).
  Proof. apply run_inv, inv_init. Qed.
End Inv.
