(* C05 - view creation. In the model a view IS (object id of its own RWMutex, realm, flushkv or not); WithRealm /
   WithExtendedRealm / Batched compile to the closed test only (CWithRealm), the derived view is simply a view with an
   object id nobody used before and the realm the derivation prescribes. What "its own, fresh lock" means for the run:
   a view object on which NO call is in flight is unlocked in every reachable state - whatever is going on on its parent
   and its siblings - so the first call through a freshly derived view never waits for the view lock. (seeded/C05-m10:
   WithExtendedRealm copied the parent's RWMutex in whatever state it was; harness family `derive`.) *)
From Coq Require Import NArith List Bool Arith Lia.
From Verif.C05_KVConc Require Import Model Locks.
Import ListNotations.

(* the remaining program of a call still has to release the lock of view object x *)
Fixpoint releases (x : nat) (p : list instr) : bool :=
  match p with
  | [] => false
  | IRel (LView y) :: r => Nat.eqb x y || releases x r
  | _ :: r => releases x r
  end.

(* a call that holds, or is about to take, the lock of x has its release ahead *)
Lemma held_releases x w : forall p m, ok_prog (Some (x, w)) m p = true -> releases x p = true.
Proof.
  induction p as [|i p IH]; intros m H; simpl in H.
  - destruct m; discriminate.
  - destruct i as [g|l w'|l|o| | |cb|c|ci iv rr]; simpl.
    + destruct m; discriminate.
    + destruct l as [y|]; [destruct m; discriminate|]. destruct m; [discriminate|]. eapply IH; eauto.
    + destruct l as [y|].
      * destruct m; [discriminate|]. apply andb_true_iff in H as [H _].
        apply Nat.eqb_eq in H. subst y. rewrite Nat.eqb_refl. reflexivity.
      * destruct m; [|discriminate]. eapply IH; eauto.
    + destruct m; [|discriminate]. apply andb_true_iff in H as [_ H]. eapply IH; eauto.
    + eapply IH; eauto.
    + eapply IH; eauto.
    + destruct m; discriminate.
    + destruct m; discriminate.
    + destruct m; discriminate.
Qed.

Definition not_in_use (x : nat) (s : state) : Prop :=
  forall th p, In th (threads s) -> cur th = Some p -> releases x p = false.

Definition not_in_useb (x : nat) (s : state) : bool :=
  forallb (fun th => match cur th with Some p => negb (releases x p) | None => true end) (threads s).

Lemma not_in_useb_spec x s : not_in_useb x s = true -> not_in_use x s.
Proof.
  intros H th p Hin Hc. unfold not_in_useb in H. rewrite forallb_forall in H. specialize (H th Hin).
  rewrite Hc in H. apply negb_true_iff in H. exact H.
Qed.

Lemma not_in_use_free s x : LInv s -> not_in_use x s ->
  forall th, In th (threads s) -> holds th (LView x) = None /\ waits_w th (LView x) = false.
Proof.
  intros L N th Hin. destruct (L th Hin) as [Hp _]. split.
  - unfold holds. destruct (hv th) as [[x' w]|] eqn:Ehv; [|reflexivity].
    destruct (Nat.eqb x x') eqn:E; [|reflexivity]. apply Nat.eqb_eq in E. subst x'. exfalso.
    destruct (cur th) as [p|] eqn:Ec.
    + pose proof (held_releases _ _ _ _ Hp) as R. rewrite (N th p Hin Ec) in R. discriminate.
    + destruct Hp as [Hp _]. discriminate.
  - unfold waits_w. destruct (cur th) as [[|[g|l w|l|o| | |cb|c|ci iv rr] p]|] eqn:Ec; try apply andb_false_r.
    destruct w; [|apply andb_false_r]. destruct l as [y|]; [|apply andb_false_r]. simpl.
    destruct (Nat.eqb x y) eqn:E; [|apply andb_false_r]. apply Nat.eqb_eq in E. subst y. exfalso.
    simpl in Hp. destruct (hv th); [discriminate|]. destruct (hm th); [discriminate|].
    pose proof (held_releases _ _ _ _ Hp) as R.
    pose proof (N th _ Hin Ec) as R'. simpl in R'. rewrite R in R'. discriminate.
Qed.

(* in every reachable state: a view object on which no call is in flight can be locked, for writing and for reading, at once *)
Theorem unused_view_unlocked scripts sch x :
  let s := run sch (init scripts) in
  not_in_use x s -> can_lock (threads s) (LView x) = true /\ can_rlock (threads s) (LView x) = true.
Proof.
  intros s N. assert (L : LInv s) by (apply linv_run, linv_init).
  split; apply forallb_forall; intros th Hin; destruct (not_in_use_free s x L N th Hin) as [H1 H2].
  - rewrite H1. reflexivity.
  - rewrite H1, H2. reflexivity.
Qed.

(* non-vacuity: goroutine 0 is inside Set on view object 1 (holds its lock and the map lock, effect not yet done);
   goroutine 1 has just derived a view from object 1 (CWithRealm) - object 7 - and is about to call Set through it *)
Definition fr_parent := mkV 1 [97%N] false.
Definition fr_child := mkV 7 [97%N; 98%N] false.
Definition fr_scripts : list (list call) :=
  [[CSet fr_parent [98%N] [1%N]]; [CWithRealm fr_parent; CSet fr_child [] [2%N]]].
Definition fr_sch : list nat := [0; 0; 0; 0; 1; 1; 1].

Example fr_parent_busy_child_unused :
  let s := run fr_sch (init fr_scripts) in
  map (fun th => (hv th, hm th)) (threads s) = [(Some (1, true), Some true); (None, None)] /\
  map (fun th => match cur th with Some p => releases 7 p | None => false end) (threads s) = [false; false] /\
  (* the child's writer gets the lock of object 7 while the parent's lock is still held ... *)
  map hv (threads (run (fr_sch ++ [1; 1; 1; 1; 1]) (init fr_scripts))) = [Some (1, true); Some (7, true)] /\
  (* ... and returns once the parent's writer has released the MAP lock *)
  map finished (threads (run (fr_sch ++ [1; 1; 1; 1; 1] ++ repeat 0 6 ++ repeat 1 8) (init fr_scripts))) = [true; true].
Proof. vm_compute. repeat split. Qed.
