(* C05 - every schedule of the thread-program model yields a linearizable history (invariant over `step`).

   Linearization order: all records that saw the store open (in the order of their effect steps), then the
   first Close and everything that saw the store closed (in the order of their steps). An effect that is
   executed after the first Close belongs to a call that loaded `closed` before that Close: it is
   linearized before the Close - legal, because nothing that comes after the Close looks at the map. *)
From Coq Require Import NArith List Bool Arith Lia Permutation.
From Verif.C05_KVConc Require Import Model Lin.
Import ListNotations.

Definition post (r : orec) : bool :=
  match o_op r with
  | OClose => true
  | _ => match o_ret r with RClosed => true | _ => false end
  end.
Definition pre (r : orec) : bool := negb (post r).

Definition okop (o : sop) : bool := match o with OClose | ONop => false | _ => true end.

Definition wf_instr (i : instr) : Prop :=
  match i with
  | IEff o => okop o = true
  | ICheck g => Forall (fun o => okop o = true) g
  | _ => True
  end.

(* the next effect of the program is no longer guarded by a test of `closed` *)
Fixpoint hot (p : list instr) : bool :=
  match p with
  | [] => false
  | ICheck _ :: _ => false
  | IEff _ :: _ => true
  | ICallbacks _ :: _ | IInvoke _ :: _ | IReturn _ _ _ :: _ => false
  | _ :: r => hot r
  end.

(* control instructions of re-entrant consumers *)
Definition ctl (i : instr) : bool :=
  match i with ICallbacks _ | IInvoke _ | IReturn _ _ _ => true | _ => false end.

(* what follows a consumer invocation / nested call / return never starts with an unguarded effect *)
Fixpoint safe (p : list instr) : bool :=
  match p with
  | [] => true
  | i :: r => (if ctl i then negb (hot r) else true) && safe r
  end.

(* the invocation stamps saved for the outer calls are in the past *)
Definition saved_le (clk : nat) (i : instr) : Prop :=
  match i with IReturn _ iv _ => iv <= clk | _ => True end.

Definition plain (i : instr) : Prop := ctl i = false.

Lemma hot_app_false a b : hot a = false -> hot b = false -> hot (a ++ b) = false.
Proof.
  intros Ha Hb. induction a as [|i a IH]; simpl; auto.
  destruct i; simpl in *; auto; discriminate.
Qed.

Lemma safe_plain_app a b : Forall plain a -> safe (a ++ b) = safe b.
Proof.
  induction 1 as [|i a Hi _ IH]; simpl; auto. unfold plain in Hi. rewrite Hi. simpl. exact IH.
Qed.

Lemma safe_suffix a b : safe (a ++ b) = true -> safe b = true.
Proof.
  induction a as [|i a IH]; simpl; auto. intros H. apply andb_true_iff in H as [_ H]. auto.
Qed.

Lemma plain_saved clk a : Forall plain a -> Forall (saved_le clk) a.
Proof.
  intros H. eapply Forall_impl; [|exact H]. intros i Hi. unfold plain in Hi. destruct i; simpl; auto; discriminate.
Qed.

Lemma saved_le_mono clk clk' p : clk <= clk' -> Forall (saved_le clk) p -> Forall (saved_le clk') p.
Proof.
  intros Hle H. eapply Forall_impl; [|exact H]. intros i Hi. destruct i; simpl in *; auto. lia.
Qed.

Lemma skip_ret_suffix p : exists a, p = a ++ skip_ret p.
Proof.
  induction p as [|i p [a IH]]; [exists []; reflexivity|].
  destruct i; simpl; try (eexists (_ :: a); simpl; f_equal; exact IH).
  exists []. reflexivity.
Qed.

Lemma hot_skip_ret p : hot (skip_ret p) = false.
Proof. induction p as [|i p IH]; simpl; auto. destruct i; simpl; auto. Qed.

Lemma safe_invokes l p : hot p = false -> safe p = true -> safe (map IInvoke l ++ p) = true.
Proof.
  intros Hh Hs. induction l as [|c l IH]; simpl; auto. rewrite IH, andb_true_r.
  destruct l; simpl; [rewrite Hh|]; reflexivity.
Qed.

Definition fill (cid : nat * nat) (now : nat) (r : orec) : orec :=
  if cid_eqb (o_call r) cid then mkO (o_call r) (o_inv r) (Some now) (o_op r) (o_ret r) else r.

Lemma respond_fill cid now l : respond cid now l = map (fill cid now) l.
Proof. reflexivity. Qed.

Lemma fill_facts cid now r :
  o_inv (fill cid now r) = o_inv r /\ o_op (fill cid now r) = o_op r /\ o_ret (fill cid now r) = o_ret r /\
  post (fill cid now r) = post r /\
  (forall x, o_res (fill cid now r) = Some x -> x = now \/ o_res r = Some x).
Proof.
  unfold fill, post; destruct (cid_eqb _ _); simpl; repeat split; auto.
  intros x H; inversion H; auto.
Qed.

Lemma filter_map_comm {A} (p : A -> bool) (f : A -> A) l :
  (forall x, p (f x) = p x) -> filter p (map f l) = map f (filter p l).
Proof.
  intros H; induction l as [|x l IH]; simpl; auto. rewrite H. destruct (p x); simpl; congruence.
Qed.

Lemma in_upd {A} (l : list A) i x y : In y (upd l i x) -> y = x \/ In y l.
Proof.
  revert i; induction l as [|a l IH]; intros i; destruct i; simpl; auto.
  - intros [H|H]; auto.
  - intros [H|H]; auto. destruct (IH _ H); auto.
Qed.

(* ------------------------------------------------------------------ programs *)
Lemma single_wf w o : okop o = true -> Forall wf_instr (single w o).
Proof. intros H. unfold single. repeat constructor; simpl; auto. Qed.

Lemma flush_tail_wf w : Forall wf_instr (flush_tail w).
Proof. unfold flush_tail. destruct (fl w); repeat constructor. Qed.

Lemma write_op_ok w kx : okop (write_op w kx) = true.
Proof. unfold write_op. destruct (snd kx); reflexivity. Qed.

Lemma compile_wf c : Forall wf_instr (compile c).
Proof.
  destruct c; cbn [compile];
    try (apply Forall_app; split; [apply single_wf; reflexivity | apply flush_tail_wf]);
    try (apply single_wf; reflexivity); try (repeat constructor; simpl; auto; fail).
  cbn zeta. constructor.
  - simpl. apply Forall_forall. intros o Ho. apply in_map_iff in Ho as [kx [<- _]]. apply write_op_ok.
  - constructor; [exact I|]. apply Forall_app; split.
    + apply Forall_forall. intros i Hi. apply in_flat_map in Hi as [o [Ho Hi]].
      apply in_map_iff in Ho as [kx [<- _]].
      simpl in Hi. destruct Hi as [<-|[<-|[<-|[]]]]; simpl; auto. apply write_op_ok.
    + constructor; [exact I | apply flush_tail_wf].
Qed.

Lemma compile_not_hot c : hot (compile c) = false.
Proof. destruct c; reflexivity. Qed.

(* a compiled call has no control instruction, except the consumer loop at the very end of an Iterate *)
Lemma compile_shape c :
  Forall plain (compile c) \/ exists a cb, compile c = a ++ [ICallbacks cb] /\ Forall plain a.
Proof.
  destruct c; cbn [compile];
    try (left; unfold single, flush_tail; destruct (fl w); repeat constructor; fail);
    try (left; repeat constructor; fail).
  - left. cbn zeta. constructor; [reflexivity|]. constructor; [reflexivity|]. apply Forall_app; split.
    + apply Forall_forall. intros i Hi. apply in_flat_map in Hi as [o [_ Hi]].
      simpl in Hi. destruct Hi as [<-|[<-|[<-|[]]]]; reflexivity.
    + constructor; [reflexivity|]. unfold flush_tail. destruct (fl w); repeat constructor.
  - right. cbn zeta. eexists [_; _; _; _], cb. split; [reflexivity|]. repeat constructor.
Qed.

Lemma hot_compile_app c tl : hot tl = false -> hot (compile c ++ tl) = false.
Proof. intros H. apply hot_app_false; [apply compile_not_hot | exact H]. Qed.

Lemma safe_compile_app c ci iv r p :
  safe (IReturn ci iv r :: p) = true -> safe (compile c ++ IReturn ci iv r :: p) = true.
Proof.
  intros H. destruct (compile_shape c) as [Hp|[a [cb [-> Hp]]]].
  - rewrite safe_plain_app; auto.
  - rewrite <- app_assoc. rewrite safe_plain_app; auto.
Qed.

Lemma saved_compile clk c : Forall (saved_le clk) (compile c).
Proof.
  destruct (compile_shape c) as [Hp|[a [cb [-> Hp]]]]; [apply plain_saved; exact Hp|].
  apply Forall_app; split; [apply plain_saved; exact Hp | repeat constructor].
Qed.

(* ------------------------------------------------------------------ the invariant *)
Definition thread_ok (clk : nat) (rs : list orec) (th : thread) : Prop :=
  cinv th <= clk /\
  (forall p, cur th = Some p -> Forall wf_instr p) /\
  (forall p, cur th = Some p -> hot p = true ->
     forall b x, In b rs -> post b = true -> o_res b = Some x -> cinv th <= x) /\
  (forall p, cur th = Some p -> safe p = true /\ Forall (saved_le clk) p).

Record Inv (s : state) : Prop := mkInv {
  i_thr : forall th, In th (threads s) -> thread_ok (clock s) (recs s) th;
  i_rinv : forall r, In r (recs s) -> o_inv r <= clock s;
  i_ord : ordpairs (fun a b => ~ precedes b a) (recs s);
  i_cross : forall a b, In a (recs s) -> In b (recs s) -> post a = false -> post b = true -> ~ precedes b a;
  i_pre : replay sinit (filter pre (recs s)) = Some (mkS (mem s) false);
  i_post_open : closed s = false -> filter post (recs s) = [];
  i_post_closed : closed s = true -> exists c rest, filter post (recs s) = c :: rest /\ o_op c = OClose;
  i_close_ok : forall b, In b (recs s) -> o_op b = OClose -> o_ret b = ROk
}.

Lemma thread_ok_mono clk clk' rs rs' th :
  thread_ok clk rs th -> clk <= clk' ->
  (forall b x, In b rs' -> post b = true -> o_res b = Some x ->
     (exists b0, In b0 rs /\ post b0 = true /\ o_res b0 = Some x) \/ clk <= x) ->
  thread_ok clk' rs' th.
Proof.
  intros [H1 [H2 [H3 H4]]] Hle Hrs. split; [lia|]. split; [exact H2|]. split.
  - intros p Hp Hh b x Hb Hpb Hx.
    destruct (Hrs b x Hb Hpb Hx) as [[b0 [Hb0 [Hp0 Hx0]]]|Hc]; [eapply H3; eauto | lia].
  - intros p Hp. destruct (H4 p Hp) as [Hs Hv]. split; [exact Hs|]. eapply saved_le_mono; eauto.
Qed.

Lemma thread_ok_app clk rs new th :
  thread_ok clk rs th -> (forall r, In r new -> o_res r = None) -> thread_ok clk (rs ++ new) th.
Proof.
  intros H Hn. eapply thread_ok_mono; [exact H | lia |].
  intros b x Hb Hp Hx. apply in_app_or in Hb as [Hb|Hb]; [left; eauto|].
  rewrite (Hn b Hb) in Hx; discriminate.
Qed.

(* a thread whose remaining program got shorter (or is unchanged) *)
Lemma thread_ok_next clk rs th th' :
  thread_ok clk rs th -> cinv th' = cinv th ->
  (forall p', cur th' = Some p' ->
     exists p, cur th = Some p /\ (Forall wf_instr p -> Forall wf_instr p') /\ (hot p' = true -> hot p = true) /\
               (safe p = true -> safe p' = true) /\ (Forall (saved_le clk) p -> Forall (saved_le clk) p')) ->
  thread_ok clk rs th'.
Proof.
  intros [H1 [H2 [H3 H4]]] Hc Hp. split; [lia|]. split; [|split].
  - intros p' Hp'. destruct (Hp p' Hp') as [p [Hcp [Hw _]]]. apply Hw, (H2 p Hcp).
  - intros p' Hp' Hh b x Hb Hpb Hx. destruct (Hp p' Hp') as [p [Hcp [_ [Hhh _]]]].
    rewrite Hc. eapply H3; eauto.
  - intros p' Hp'. destruct (Hp p' Hp') as [p [Hcp [_ [_ [Hs Hv]]]]]. destruct (H4 p Hcp). auto.
Qed.

Lemma no_post_when_open s b : Inv s -> closed s = false -> In b (recs s) -> post b = true -> False.
Proof.
  intros I Hc Hb Hp. pose proof (i_post_open s I Hc) as E.
  assert (In b (filter post (recs s))) by (apply filter_In; auto). rewrite E in H. destruct H.
Qed.

Lemma ordpairs_none l : (forall r, In r l -> o_res r = None) -> ordpairs (fun a b : orec => ~ precedes b a) l.
Proof.
  induction l as [|x l IH]; simpl; auto. intros H. split.
  - apply Forall_forall. intros y Hy. unfold precedes. rewrite (H y); auto.
  - apply IH. auto.
Qed.

(* ---- family A: a step that only changes the stepping thread *)
Lemma inv_A s t th' :
  Inv s -> thread_ok (S (clock s)) (recs s) th' -> Inv (with_threads s (upd (threads s) t th')).
Proof.
  intros I Hth. destruct I. constructor; simpl; auto;
    try (intros r Hr; specialize (i_rinv0 r Hr); lia).
  intros th Hin. apply in_upd in Hin as [->|Hin]; auto.
  eapply thread_ok_mono; [apply i_thr0; exact Hin | lia | intros; left; eauto].
Qed.

(* ---- family B: a step that emits records *)
Lemma inv_B s t th' m' cl' new :
  Inv s ->
  thread_ok (S (clock s)) (recs s) th' ->
  (forall r, In r new -> o_res r = None /\ o_inv r <= clock s) ->
  replay (mkS (mem s) false) (filter pre new) = Some (mkS m' false) ->
  (cl' = false -> closed s = false /\ filter post new = []) ->
  (cl' = true -> closed s = true \/ exists c rest, filter post new = c :: rest /\ o_op c = OClose) ->
  (forall b, In b new -> o_op b = OClose -> o_ret b = ROk) ->
  (forall a b x, In a new -> post a = false -> In b (recs s) -> post b = true -> o_res b = Some x -> o_inv a <= x) ->
  Inv (mkSt m' cl' (upd (threads s) t th') (S (clock s)) (recs s ++ new) (rets s)).
Proof.
  intros I Hth Hnew Hrep Hop Hcl Hok Hx.
  assert (Hnone : forall r, In r new -> o_res r = None) by (intros r Hr; apply Hnew; exact Hr).
  constructor; simpl.
  - intros th Hin. apply thread_ok_app; [|exact Hnone].
    apply in_upd in Hin as [->|Hin]; auto.
    eapply thread_ok_mono; [apply (i_thr s I); exact Hin | lia | intros; left; eauto].
  - intros r Hr. apply in_app_or in Hr as [Hr|Hr].
    + pose proof (i_rinv s I r Hr). lia.
    + destruct (Hnew r Hr). lia.
  - apply ordpairs_app. split; [apply (i_ord s I)|]. split; [apply ordpairs_none; exact Hnone|].
    intros a b _ Hb. unfold precedes. rewrite (Hnone b Hb). tauto.
  - intros a b Ha Hb Hpa Hpb Hprec.
    apply in_app_or in Hb as [Hb|Hb]; [|unfold precedes in Hprec; rewrite (Hnone b Hb) in Hprec; exact Hprec].
    apply in_app_or in Ha as [Ha|Ha]; [exact (i_cross s I a b Ha Hb Hpa Hpb Hprec)|].
    unfold precedes in Hprec. destruct (o_res b) as [x|] eqn:Ex; [|exact Hprec].
    pose proof (Hx a b x Ha Hpa Hb Hpb Ex). lia.
  - rewrite filter_app, replay_app, (i_pre s I). exact Hrep.
  - intros ->. destruct (Hop eq_refl) as [Hc Hf]. rewrite filter_app, (i_post_open s I Hc), Hf. reflexivity.
  - intros ->. rewrite filter_app. destruct (closed s) eqn:Hc.
    + destruct (i_post_closed s I Hc) as [c [rest [E Ec]]]. rewrite E. exists c, (rest ++ filter post new). auto.
    + rewrite (i_post_open s I Hc). destruct (Hcl eq_refl) as [H|H]; [discriminate|]. exact H.
  - intros b Hb. apply in_app_or in Hb as [Hb|Hb]; [apply (i_close_ok s I b Hb) | apply Hok; exact Hb].
Qed.

(* ---- family C: the response of a call *)
Lemma inv_C s t th' cid extra :
  Inv s -> thread_ok (clock s) (recs s) th' ->
  Inv (mkSt (mem s) (closed s) (upd (threads s) t th') (S (clock s)) (respond cid (clock s) (recs s)) extra).
Proof.
  intros I Hth'. rewrite respond_fill.
  set (f := fill cid (clock s)).
  assert (Ff : forall r, o_inv (f r) = o_inv r /\ o_op (f r) = o_op r /\ o_ret (f r) = o_ret r /\
             post (f r) = post r /\ (forall x, o_res (f r) = Some x -> x = clock s \/ o_res r = Some x))
    by (intros r; apply fill_facts).
  assert (Fpre : forall r, pre (f r) = pre r) by (intros r; unfold pre; destruct (Ff r) as [_ [_ [_ [-> _]]]]; reflexivity).
  assert (Fpost : forall r, post (f r) = post r) by (intros r; apply Ff).
  assert (Hprec : forall a b, In a (recs s) -> precedes (f b) (f a) -> precedes b a).
  { intros a b Ha. unfold precedes. destruct (o_res (f b)) as [x|] eqn:Ex; [|tauto].
    destruct (Ff b) as [_ [_ [_ [_ Hres]]]]. destruct (Ff a) as [-> _].
    destruct (Hres x Ex) as [->|E].
    - intros Hlt. pose proof (i_rinv s I a Ha). lia.
    - rewrite E. tauto. }
  constructor; simpl.
  - intros th Hin.
    assert (Hsrc : thread_ok (clock s) (recs s) th).
    { apply in_upd in Hin as [->|Hin]; [exact Hth' | apply (i_thr s I); exact Hin]. }
    eapply thread_ok_mono; [exact Hsrc | lia |].
    intros b x Hb Hp Hx. apply in_map_iff in Hb as [b0 [<- Hb0]].
    destruct (Ff b0) as [_ [_ [_ [Hpo Hres]]]]. destruct (Hres x Hx) as [->|E]; [right; lia|].
    left. exists b0. rewrite <- Hpo. auto.
  - intros r Hr. apply in_map_iff in Hr as [r0 [<- Hr0]]. destruct (Ff r0) as [-> _].
    pose proof (i_rinv s I r0 Hr0). lia.
  - eapply ordpairs_map; [apply (i_ord s I)|]. intros a b Ha Hb HR Hp. apply HR. apply Hprec; auto.
  - intros a b Ha Hb Hpa Hpb Hp.
    apply in_map_iff in Ha as [a0 [<- Ha0]]. apply in_map_iff in Hb as [b0 [<- Hb0]].
    rewrite Fpost in Hpa, Hpb. apply (i_cross s I a0 b0 Ha0 Hb0 Hpa Hpb). apply Hprec; auto.
  - rewrite (filter_map_comm pre f _ Fpre). rewrite replay_map; [apply (i_pre s I)|].
    intros r. destruct (Ff r) as [_ [H1 [H2 _]]]. auto.
  - intros Hc. rewrite (filter_map_comm post f _ Fpost), (i_post_open s I Hc). reflexivity.
  - intros Hc. rewrite (filter_map_comm post f _ Fpost).
    destruct (i_post_closed s I Hc) as [c [rest [E Ec]]]. rewrite E. simpl.
    exists (f c), (map f rest). split; auto. destruct (Ff c) as [_ [-> _]]. exact Ec.
  - intros b Hb Ho. apply in_map_iff in Hb as [b0 [<- Hb0]].
    destruct (Ff b0) as [_ [H1 [H2 _]]]. rewrite H1 in Ho. rewrite H2. apply (i_close_ok s I b0 Hb0 Ho).
Qed.

(* ------------------------------------------------------------------ effects of well-formed operations *)
Lemma eff_pre m o m' r cid i :
  okop o = true -> eff m o = (m', r) ->
  post (mkO cid i None o r) = false /\
  replay (mkS m false) [mkO cid i None o r] = Some (mkS m' false).
Proof.
  intros Hok He. unfold post.
  destruct o; simpl in *; try discriminate; inversion He; subst; clear He; simpl;
    try (split; reflexivity).
  - destruct (lookup k m'); simpl; rewrite ?(proj2 (bytes_eqb_eq _ _) eq_refl); split; reflexivity.
  - destruct (lookup k m'); simpl; split; reflexivity.
  - rewrite (proj2 (kvl_eqb_eq _ _) eq_refl). split; reflexivity.
Qed.

Lemma closed_recs_post cid i g :
  filter pre (map (fun o => mkO cid i None o RClosed) g) = [] /\
  filter post (map (fun o => mkO cid i None o RClosed) g) = map (fun o => mkO cid i None o RClosed) g.
Proof.
  induction g as [|o g [IH1 IH2]]; simpl; auto.
  assert (E : post (mkO cid i None o RClosed) = true) by (unfold post; simpl; destruct o; reflexivity).
  unfold pre at 1. rewrite E. simpl. rewrite IH1, IH2. auto.
Qed.

Lemma in_nth_error {A} (l : list A) t x : nth_error l t = Some x -> In x l.
Proof. apply nth_error_In. Qed.

Lemma set_hold_cur th l x : cur (set_hold th l x) = cur th /\ cinv (set_hold th l x) = cinv th.
Proof. destruct l; simpl; auto. Qed.

(* ------------------------------------------------------------------ preservation *)
Theorem inv_step s t s' : Inv s -> step s t = Some s' -> Inv s'.
Proof.
  intros I H. unfold step, step_with in H.
  destruct (nth_error (threads s) t) as [th|] eqn:Hth; [|discriminate].
  pose proof (i_thr s I th (nth_error_In _ _ Hth)) as Hok.
  assert (Hmono : thread_ok (S (clock s)) (recs s) th)
    by (eapply thread_ok_mono; [exact Hok | lia | intros; left; eauto]).
  cbv zeta in H.
  destruct (cur th) as [[|i p]|] eqn:Hcur.
  - (* response *)
    inversion H; subst; clear H. apply inv_C; [exact I|].
    split; [simpl; destruct Hok as [Hc _]; exact Hc|]. split; [|split]; intros p0 Hp0; discriminate.
  - assert (Hwf : wf_instr i /\ Forall wf_instr p).
    { destruct Hok as [_ [Hw _]]. specialize (Hw _ Hcur). inversion Hw; auto. }
    destruct Hwf as [Hwi Hwp].
    assert (Hnext : forall th', cinv th' = cinv th -> cur th' = Some p ->
              (hot p = true -> hot (i :: p) = true) -> thread_ok (S (clock s)) (recs s) th').
    { intros th' Hci Hcu Hh. eapply thread_ok_next; [exact Hmono | exact Hci |].
      intros p' Hp'. rewrite Hcu in Hp'. inversion Hp'; subst. exists (i :: p'). repeat split; auto.
      - simpl. intros Hs. apply andb_true_iff in Hs as [_ Hs]. exact Hs.
      - intros Hs. inversion Hs; auto. }
    assert (Hsafe : safe (i :: p) = true /\ Forall (saved_le (clock s)) (i :: p))
      by (destruct Hok as [_ [_ [_ H4]]]; apply (H4 _ Hcur)).
    destruct Hsafe as [Hsf Hsv].
    assert (Hsfp : safe p = true) by (simpl in Hsf; apply andb_true_iff in Hsf as [_ Hsf]; exact Hsf).
    assert (Hsvp : Forall (saved_le (S (clock s))) p)
      by (eapply saved_le_mono; [|inversion Hsv; eassumption]; lia).
    destruct i as [g|l w|l|o| | |cb|c|ci iv rr].
    + (* ICheck *)
      destruct (closed s) eqn:Hcl; inversion H; subst; clear H.
      * destruct (closed_recs_post (t, cidx th) (cinv th) g) as [E1 E2].
        apply inv_B; [exact I | | | | | | | ].
        -- destruct (skip_ret_suffix p) as [pre0 Hsuf].
           split; [destruct Hok; simpl; lia|].
           split; [|split]; intros p0 Hp0; simpl in Hp0; inversion Hp0; subst.
           ++ rewrite Hsuf in Hwp. apply Forall_app in Hwp as [_ Hwp]. exact Hwp.
           ++ rewrite hot_skip_ret. discriminate.
           ++ split; [rewrite Hsuf in Hsfp; eapply safe_suffix; exact Hsfp|].
              rewrite Hsuf in Hsvp. apply Forall_app in Hsvp as [_ Hsvp]. exact Hsvp.
        -- intros r Hr. apply in_map_iff in Hr as [o [<- _]]. simpl. destruct Hok. split; auto.
        -- rewrite E1. reflexivity.
        -- discriminate.
        -- intros _. left. exact Hcl.
        -- intros b Hb Ho. apply in_map_iff in Hb as [o [<- Hg]]. simpl in Ho. subst o.
           simpl in Hwi. rewrite Forall_forall in Hwi. specialize (Hwi _ Hg). discriminate.
        -- intros a b x Ha Hpa. apply in_map_iff in Ha as [o [<- _]].
           unfold post in Hpa; simpl in Hpa. destruct o; discriminate.
      * (apply inv_A; [exact I|]). destruct Hmono as [M1 [M2 [M3 M4]]]. split; [simpl; exact M1|]. split; [|split].
        -- intros p0 Hp0; simpl in Hp0; inversion Hp0; subst; exact Hwp.
        -- intros p0 Hp0 _ b x Hb Hpb _. exfalso. eapply no_post_when_open; eauto.
        -- intros p0 Hp0; simpl in Hp0; inversion Hp0; subst. auto.
    + (* IAcq *)
      destruct w.
      * destruct (can_lock (threads s) l); [|destruct (ww th); [discriminate|]];
          inversion H; subst; clear H; (apply inv_A; [exact I|]).
        -- apply Hnext; simpl; auto. destruct l; reflexivity.
        -- eapply thread_ok_next; [exact Hmono | reflexivity |].
           intros p' Hp'. simpl in Hp'. rewrite Hcur in Hp'. inversion Hp'; subst.
           exists (IAcq l true :: p). repeat split; auto.
      * destruct (can_rlock (threads s) l); [|discriminate].
        inversion H; subst; clear H; (apply inv_A; [exact I|]). apply Hnext; simpl; auto. destruct l; reflexivity.
    + (* IRel *)
      inversion H; subst; clear H; (apply inv_A; [exact I|]). apply Hnext; simpl; auto. destruct l; reflexivity.
    + (* IEff *)
      destruct (eff (mem s) o) as [m' r] eqn:He. inversion H; subst; clear H.
      destruct (eff_pre (mem s) o m' r (t, cidx th) (cinv th) Hwi He) as [Hpost Hrep].
      apply inv_B; [exact I | | | | | | | ].
      * apply Hnext; simpl; auto.
      * intros r0 [<-|[]]; simpl. destruct Hok; auto.
      * cbn [filter]. unfold pre at 1. rewrite Hpost. simpl negb. cbv iota. exact Hrep.
      * intros Hc; split; auto. cbn [filter]. rewrite Hpost. reflexivity.
      * auto.
      * intros b [<-|[]] Ho; simpl in Ho; subst; discriminate Hwi.
      * intros a b x [<-|[]] _ Hb Hpb Hx; simpl. destruct Hok as [_ [_ H3]]. eapply H3; eauto.
    + (* INop *)
      destruct (closed s) eqn:Hcl; inversion H; subst; clear H; (apply inv_B; [exact I | | | | | | | ]).
      * apply Hnext; simpl; auto.
      * intros r0 [<-|[]]; simpl. destruct Hok; auto.
      * reflexivity.
      * discriminate.
      * auto.
      * intros b [<-|[]] Ho; simpl in Ho; discriminate.
      * intros a b x [<-|[]] Hpa; discriminate.
      * apply Hnext; simpl; auto.
      * intros r0 [<-|[]]; simpl. destruct Hok; auto.
      * reflexivity.
      * auto.
      * discriminate.
      * intros b [<-|[]] Ho; simpl in Ho; discriminate.
      * intros a b x [<-|[]] _ Hb Hpb _. exfalso. eapply no_post_when_open; eauto.
    + (* IClose *)
      inversion H; subst; clear H; (apply inv_B; [exact I | | | | | | | ]).
      * apply Hnext; simpl; auto.
      * intros r0 [<-|[]]; simpl. destruct Hok; auto.
      * reflexivity.
      * discriminate.
      * intros _. right. eexists; eexists; split; reflexivity.
      * intros b [<-|[]] _; reflexivity.
      * intros a b x [<-|[]] Hpa; discriminate.
    + (* ICallbacks: the consumer's calls are spliced in; nothing is held, nothing is hot *)
      assert (Hhp : hot p = false) by (simpl in Hsf; apply andb_true_iff in Hsf as [Hsf _]; apply negb_true_iff; exact Hsf).
      inversion H; subst; clear H; (apply inv_A; [exact I|]).
      destruct Hmono as [M1 _]. split; [simpl; exact M1|]. split; [|split]; intros p0 Hp0; simpl in Hp0; inversion Hp0; subst.
      * apply Forall_app; split; [|exact Hwp]. apply Forall_forall. intros i Hi. apply in_map_iff in Hi as [c [<- _]]. exact Logic.I.
      * intros Hh. exfalso. destruct (cb_calls (cres th) cb); simpl in Hh; [rewrite Hhp in Hh|]; discriminate.
      * split; [apply safe_invokes; auto|]. apply Forall_app; split; [|exact Hsvp].
        apply Forall_forall. intros i Hi. apply in_map_iff in Hi as [c [<- _]]. exact Logic.I.
    + (* IInvoke: a nested call starts like a top-level one; the outer call's stamp is saved *)
      assert (Hhp : hot p = false) by (simpl in Hsf; apply andb_true_iff in Hsf as [Hsf _]; apply negb_true_iff; exact Hsf).
      inversion H; subst; clear H; (apply inv_A; [exact I|]).
      split; [simpl; lia|]. split; [|split]; intros p0 Hp0; simpl in Hp0; inversion Hp0; subst.
      * apply Forall_app; split; [apply compile_wf|]. constructor; [exact Logic.I | exact Hwp].
      * rewrite hot_compile_app; [discriminate | reflexivity].
      * split; [apply safe_compile_app; simpl; rewrite Hhp, Hsfp; reflexivity|].
        apply Forall_app; split; [apply saved_compile|]. constructor; [|exact Hsvp].
        simpl. destruct Hok as [Hc _]. lia.
    + (* IReturn: response of the nested call, the outer call resumes *)
      assert (Hhp : hot p = false) by (simpl in Hsf; apply andb_true_iff in Hsf as [Hsf _]; apply negb_true_iff; exact Hsf).
      inversion H; subst; clear H. apply inv_C; [exact I|].
      split; [simpl; inversion Hsv; assumption|]. split; [|split]; intros p0 Hp0; simpl in Hp0; inversion Hp0; subst.
      * exact Hwp.
      * intros Hh. rewrite Hhp in Hh. discriminate.
      * split; [exact Hsfp | inversion Hsv; assumption].
  - (* invocation *)
    destruct (script th) as [|c sc]; [discriminate|]. inversion H; subst; clear H. (apply inv_A; [exact I|]).
    split; [simpl; lia|]. split; [|split]; intros p0 Hp0; simpl in Hp0; inversion Hp0; subst.
    + apply compile_wf.
    + rewrite compile_not_hot; discriminate.
    + split; [|apply saved_compile]. destruct (compile_shape c) as [Hpl|[a [cb [-> Hpl]]]].
      * rewrite <- (app_nil_r (compile c)). rewrite safe_plain_app; auto.
      * rewrite safe_plain_app; auto.
Qed.

(* ------------------------------------------------------------------ all schedules *)
Lemma inv_init scripts : Inv (init scripts).
Proof.
  constructor; simpl; auto; try (intros ? []; fail); try (intros ? ? []; fail); try discriminate.
  intros th Hin. apply in_map_iff in Hin as [sc [<- _]]. split; simpl; [lia|].
  split; [|split]; intros p Hp; discriminate.
Qed.

Lemma inv_step' s t : Inv s -> Inv (step' s t).
Proof. intros I. unfold step'. destruct (step s t) eqn:E; [eapply inv_step; eauto | exact I]. Qed.

Lemma inv_run sch : forall s, Inv s -> Inv (run sch s).
Proof. induction sch as [|t sch IH]; intros s I; simpl; auto. apply IH, inv_step', I. Qed.

Lemma replay_closed m rest :
  (forall b, In b rest -> post b = true /\ (o_op b = OClose -> o_ret b = ROk)) ->
  replay (mkS m true) rest = Some (mkS m true).
Proof.
  induction rest as [|b rest IH]; intros H; simpl; auto.
  destruct (H b (or_introl eq_refl)) as [Hp Hc].
  assert (IH' := IH (fun x Hx => H x (or_intror Hx))).
  unfold post in Hp. destruct (o_op b) eqn:Eo; simpl;
    try (destruct (o_ret b); try discriminate; simpl; exact IH').
  rewrite (Hc eq_refl). simpl. exact IH'.
Qed.

Theorem inv_linearizable s : Inv s -> linearizable (recs s).
Proof.
  intros I. exists (filter pre (recs s) ++ filter post (recs s)). split; [|split].
  - apply (filter_split_perm post).
  - rewrite replay_app, (i_pre s I).
    assert (Hall : forall b, In b (filter post (recs s)) -> post b = true /\ (o_op b = OClose -> o_ret b = ROk)).
    { intros b Hb. apply filter_In in Hb as [Hb Hp]. split; auto. apply (i_close_ok s I b Hb). }
    destruct (closed s) eqn:Hc.
    + destruct (i_post_closed s I Hc) as [c [rest [E Ec]]]. rewrite E in *. simpl. rewrite Ec. simpl.
      destruct (Hall c (or_introl eq_refl)) as [_ Hr]. rewrite (Hr Ec). simpl.
      rewrite replay_closed; [discriminate|]. intros b Hb. apply Hall. right; exact Hb.
    + rewrite (i_post_open s I Hc). simpl. discriminate.
  - apply ordpairs_app. split; [apply ordpairs_filter, (i_ord s I)|]. split; [apply ordpairs_filter, (i_ord s I)|].
    intros a b Ha Hb. apply filter_In in Ha as [Ha Hpa]. apply filter_In in Hb as [Hb Hpb].
    apply (i_cross s I a b Ha Hb); auto. unfold pre in Hpa. destruct (post a); [discriminate | reflexivity].
Qed.

(* MAIN THEOREM: any number of threads, any scripts, any schedule *)
Theorem all_schedules_linearizable scripts sch : linearizable (recs (run sch (init scripts))).
Proof. apply inv_linearizable, inv_run, inv_init. Qed.

(* an operation of a call invoked after a Close had returned fails with ErrStoreClosed *)
Theorem closed_after_return scripts sch c x rc :
  let h := recs (run sch (init scripts)) in
  In c h -> o_op c = OClose -> o_res c = Some rc ->
  In x h -> rc < o_inv x ->
  o_ret x = RClosed \/ o_op x = OClose.
Proof.
  intros h Hc Hoc Hrc Hx Hlt.
  pose proof (inv_run sch _ (inv_init scripts)) as I.
  destruct (post x) eqn:Hp.
  - unfold post in Hp. destruct (o_op x); auto; destruct (o_ret x); auto; discriminate.
  - exfalso. apply (i_cross _ I x c Hx Hc Hp); [unfold post; rewrite Hoc; reflexivity|].
    unfold precedes. rewrite Hrc. exact Hlt.
Qed.

(* ------------------------------------------------------------------ the instant of every operation *)
(* what an operation reports was true of the store at one instant s1 of the run: either exactly what the
   sequential contract prescribes in that state, or - possible only when a Close overlapped the call -
   the plain effect on the map of that instant *)
Definition outcome (s1 : state) (r : orec) : Prop :=
  o_ret r = snd (spec_step (mkS (mem s1) (closed s1)) (o_op r)) \/
  (closed s1 = true /\ okop (o_op r) = true /\ o_ret r = snd (eff (mem s1) (o_op r))).

Definition Tinv (s : state) : Prop := forall th, In th (threads s) -> cur th <> None -> cinv th < clock s.

Definition rel_from (c : nat) (r0 r : orec) : Prop :=
  o_inv r = o_inv r0 /\ o_op r = o_op r0 /\ o_ret r = o_ret r0 /\
  (o_res r = o_res r0 \/ exists x, o_res r = Some x /\ c <= x).

Lemma rel_from_refl c r : rel_from c r r.
Proof. repeat split; auto. Qed.

Lemma spec_open_eff m o : okop o = true -> snd (spec_step (mkS m false) o) = snd (eff m o).
Proof. destruct o; simpl; try discriminate; intros _; try reflexivity. Qed.

Lemma spec_closed m o : okop o = true -> snd (spec_step (mkS m true) o) = RClosed.
Proof. destruct o; simpl; try discriminate; reflexivity. Qed.

Lemma step_emits s t s' :
  Inv s -> Tinv s -> step s t = Some s' ->
  Tinv s' /\ clock s' = S (clock s) /\
  forall r', In r' (recs s') ->
    (exists r0, In r0 (recs s) /\ rel_from (clock s) r0 r') \/
    (o_res r' = None /\ o_inv r' < clock s /\ outcome s r').
Proof.
  intros I T H. unfold step, step_with in H.
  destruct (nth_error (threads s) t) as [th|] eqn:Hth; [|discriminate].
  pose proof (nth_error_In _ _ Hth) as Hin.
  pose proof (i_thr s I th Hin) as [_ [Hwf [_ Hsv]]].
  assert (Told : forall th0, In th0 (threads s) -> cur th0 <> None -> cinv th0 < S (clock s))
    by (intros th0 H0 H1; specialize (T th0 H0 H1); lia).
  assert (Tupd : forall th', (cur th' <> None -> cinv th' < S (clock s)) ->
            forall th0, In th0 (upd (threads s) t th') -> cur th0 <> None -> cinv th0 < S (clock s)).
  { intros th' Hn th0 H0. apply in_upd in H0 as [->|H0]; auto. }
  assert (Hsame : forall r', In r' (recs s) ->
            (exists r0, In r0 (recs s) /\ rel_from (clock s) r0 r') \/
            (o_res r' = None /\ o_inv r' < clock s /\ outcome s r'))
    by (intros r' Hr; left; exists r'; split; [exact Hr | apply rel_from_refl]).
  cbv zeta in H.
  destruct (cur th) as [[|i p]|] eqn:Hcur.
  - inversion H; subst; clear H. simpl. split; [|split; [reflexivity|]].
    + (unfold Tinv; simpl; apply Tupd). simpl. congruence.
    + intros r' Hr. left. rewrite respond_fill in Hr. apply in_map_iff in Hr as [r0 [<- Hr0]].
      exists r0. split; auto. destruct (fill_facts (t, cidx th) (clock s) r0) as [F1 [F2 [F3 [_ F5]]]].
      repeat split; auto. destruct (o_res (fill (t, cidx th) (clock s) r0)) as [x|] eqn:Ex.
      * destruct (F5 x eq_refl) as [->|E]; [right; exists (clock s); auto | left; congruence].
      * unfold fill in Ex. destruct (cid_eqb _ _); [discriminate | left; congruence].
  - assert (Hci : cinv th < clock s) by (apply T; [exact Hin | congruence]).
    specialize (Hwf _ eq_refl). inversion Hwf as [|? ? Hwi Hwp]; subst.
    destruct (Hsv _ eq_refl) as [_ Hsv'].
    assert (Hnew : forall o r, outcome s (mkO (t, cidx th) (cinv th) None o r) ->
              forall r', In r' (recs s ++ [mkO (t, cidx th) (cinv th) None o r]) ->
              (exists r0, In r0 (recs s) /\ rel_from (clock s) r0 r') \/
              (o_res r' = None /\ o_inv r' < clock s /\ outcome s r')).
    { intros o r Ho r' Hr. apply in_app_or in Hr as [Hr|[<-|[]]]; auto. }
    destruct i as [g|l w|l|o| | |cb|c|ci iv rr].
    + destruct (closed s) eqn:Hcl; inversion H; subst; clear H; simpl;
        (split; [(unfold Tinv; simpl; apply Tupd); simpl; intros _; lia | split; [reflexivity|]]); auto.
      intros r' Hr. apply in_app_or in Hr as [Hr|Hr]; auto.
      apply in_map_iff in Hr as [o [<- Hg]]. right. simpl. repeat split; auto.
      left. simpl. rewrite Hcl. simpl in Hwi. rewrite Forall_forall in Hwi.
      rewrite spec_closed; auto.
    + destruct w.
      * destruct (can_lock (threads s) l); [|destruct (ww th); [discriminate|]];
          inversion H; subst; clear H; simpl;
          (split; [(unfold Tinv; simpl; apply Tupd); simpl; intros _; destruct l; simpl; lia | split; [reflexivity|]]); auto.
      * destruct (can_rlock (threads s) l); [|discriminate].
        inversion H; subst; clear H; simpl;
          (split; [(unfold Tinv; simpl; apply Tupd); simpl; intros _; destruct l; simpl; lia | split; [reflexivity|]]); auto.
    + inversion H; subst; clear H; simpl;
        (split; [(unfold Tinv; simpl; apply Tupd); simpl; intros _; destruct l; simpl; lia | split; [reflexivity|]]); auto.
    + destruct (eff (mem s) o) as [m' r] eqn:He. inversion H; subst; clear H; simpl.
      split; [(unfold Tinv; simpl; apply Tupd); simpl; intros _; lia | split; [reflexivity|]].
      apply Hnew. simpl in Hwi. unfold outcome; simpl. destruct (closed s) eqn:Hcl.
      * right. rewrite He. auto.
      * left. rewrite spec_open_eff, He; auto.
    + inversion H; subst; clear H; simpl.
      split; [(unfold Tinv; simpl; apply Tupd); simpl; intros _; lia | split; [reflexivity|]].
      apply Hnew. left. simpl. destruct (closed s); reflexivity.
    + inversion H; subst; clear H; simpl.
      split; [(unfold Tinv; simpl; apply Tupd); simpl; intros _; lia | split; [reflexivity|]].
      apply Hnew. left. reflexivity.
    + (* ICallbacks *)
      inversion H; subst; clear H; simpl.
      split; [(unfold Tinv; simpl; apply Tupd); simpl; intros _; lia | split; [reflexivity|]]. auto.
    + (* IInvoke *)
      inversion H; subst; clear H; simpl.
      split; [(unfold Tinv; simpl; apply Tupd); simpl; intros _; lia | split; [reflexivity|]]. auto.
    + (* IReturn *)
      inversion H; subst; clear H. simpl. split; [|split; [reflexivity|]].
      * (unfold Tinv; simpl; apply Tupd). simpl. intros _. inversion Hsv'; subst. simpl in *. lia.
      * intros r' Hr. left. rewrite respond_fill in Hr. apply in_map_iff in Hr as [r0 [<- Hr0]].
        exists r0. split; auto. destruct (fill_facts (t, cidx th) (clock s) r0) as [F1 [F2 [F3 [_ F5]]]].
        repeat split; auto. destruct (o_res (fill (t, cidx th) (clock s) r0)) as [x|] eqn:Ex.
        -- destruct (F5 x eq_refl) as [->|E]; [right; exists (clock s); auto | left; congruence].
        -- unfold fill in Ex. destruct (cid_eqb _ _); [discriminate | left; congruence].
  - destruct (script th) as [|c sc]; [discriminate|]. inversion H; subst; clear H. simpl.
    split; [(unfold Tinv; simpl; apply Tupd); simpl; intros _; lia | split; [reflexivity|]]. auto.
Qed.

Lemma tinv_init scripts : Tinv (init scripts).
Proof. intros th Hin. simpl in Hin. apply in_map_iff in Hin as [sc [<- _]]. simpl. congruence. Qed.

Definition witness (s1 : state) (r : orec) : Prop :=
  o_inv r < clock s1 /\ (forall x, o_res r = Some x -> clock s1 < x) /\ outcome s1 r.

Lemma run_instants sch : forall s, Inv s -> Tinv s ->
  forall r, In r (recs (run sch s)) ->
    (exists r0, In r0 (recs s) /\ rel_from (clock s) r0 r) \/
    (exists k, k <= length sch /\ witness (run (firstn k sch) s) r).
Proof.
  induction sch as [|t sch IH]; intros s I T r Hr; simpl in Hr.
  - left. exists r. split; [exact Hr | apply rel_from_refl].
  - unfold step' in Hr. destruct (step s t) as [s'|] eqn:Es.
    + destruct (step_emits s t s' I T Es) as [T' [Hclk Hem]].
      assert (I' : Inv s') by (eapply inv_step; eauto).
      destruct (IH s' I' T' r Hr) as [[r1 [Hr1 Hrel]]|[k [Hk Hw]]].
      * destruct (Hem r1 Hr1) as [[r0 [Hr0 Hrel0]]|[Hn [Hi Ho]]].
        -- left. exists r0. split; auto.
           destruct Hrel as [A1 [A2 [A3 A4]]]. destruct Hrel0 as [B1 [B2 [B3 B4]]].
           repeat split; try congruence.
           destruct A4 as [A4|[x [A4 A5]]]; [rewrite A4; destruct B4 as [B4|[y [B4 B5]]]; [left; auto | right; exists y; auto] |].
           right. exists x. split; auto. lia.
        -- right. exists 0. split; [lia|]. simpl.
           destruct Hrel as [A1 [A2 [A3 A4]]]. unfold witness. split; [lia|]. split.
           ++ intros x Hx. destruct A4 as [A4|[y [A4 A5]]]; [congruence|].
              rewrite A4 in Hx. inversion Hx; subst. lia.
           ++ unfold outcome in *. rewrite A2, A3. exact Ho.
      * right. exists (S k). split; [simpl; lia|]. simpl. unfold step'. rewrite Es. exact Hw.
    + destruct (IH s I T r Hr) as [H|[k [Hk Hw]]]; auto.
      right. exists (S k). split; [simpl; lia|]. simpl. unfold step'. rewrite Es. exact Hw.
Qed.

(* every operation record has an instant of the run, strictly between its invocation and its response, at
   which its result was true of the store *)
Theorem effect_instant scripts sch r :
  In r (recs (run sch (init scripts))) ->
  exists k, k <= length sch /\ witness (run (firstn k sch) (init scripts)) r.
Proof.
  intros Hr. destruct (run_instants sch _ (inv_init scripts) (tinv_init scripts) r Hr) as [[r0 [[] _]]|H].
  exact H.
Qed.

(* Iterate / IterateKeys report a snapshot: exactly the selected entries of the map as it was at ONE instant
   between the invocation and the return of the call *)
Theorem iterate_snapshot scripts sch r p strip fwd keys lim l :
  In r (recs (run sch (init scripts))) ->
  o_op r = OIter p strip fwd keys lim -> o_ret r = RList l ->
  exists k, k <= length sch /\
    let s1 := run (firstn k sch) (init scripts) in
    o_inv r < clock s1 /\ (forall x, o_res r = Some x -> clock s1 < x) /\
    l = snapshot (mem s1) p strip fwd keys lim.
Proof.
  intros Hr Ho Hl. destruct (effect_instant scripts sch r Hr) as [k [Hk [W1 [W2 W3]]]].
  exists k. split; auto. simpl. split; auto. split; auto.
  unfold outcome in W3. rewrite Ho, Hl in W3. simpl in W3.
  destruct W3 as [W3|[_ [_ W3]]].
  - destruct (closed (run (firstn k sch) (init scripts))); simpl in W3; [discriminate | congruence].
  - congruence.
Qed.
