(* Correspondence for C05.
   CLin h     : a history recorded from free-running goroutines on the real mapdb/flushkv; it must be accepted
                by the (proved sound) checker lin_check, i.e. be linearizable w.r.t. spec_step.
   CSeq sc o  : a single-goroutine script executed on the real code with the result of every call; the
                thread-program model run alone on the same script (compile + step) must give the same results.
   CNeg h     : a synthetic history built by the harness from a recorded one by corrupting one result so that
                the Go-side checker rejects it; lin_check must reject it too (the checker is not vacuous). *)
From Coq Require Import NArith List Bool Arith.
From Verif.C05_KVConc Require Import Model.
Import ListNotations.

Inductive case :=
| CLin (h : list orec)
| CSeq (sc : list call) (obs : list ret)
| CNeg (h : list orec).

Fixpoint rets_eqb (a b : list ret) : bool :=
  match a, b with
  | [], [] => true
  | x :: a', y :: b' => ret_eqb x y && rets_eqb a' b'
  | _, _ => false
  end.

Definition case_ok (c : case) : bool :=
  match c with
  | CLin h => lin_check h
  | CSeq sc obs => rets_eqb (seq_results sc) obs
  | CNeg h => negb (lin_check h)
  end.

Fixpoint mismatches_from (i : nat) (cs : list case) : list nat :=
  match cs with
  | [] => []
  | c :: r => if case_ok c then mismatches_from (S i) r else i :: mismatches_from (S i) r
  end.

Definition mismatches (cs : list case) : list nat := mismatches_from 0 cs.

(* helpers for compact case files *)
Definition O_ (t i inv res : nat) (o : sop) (r : ret) : orec := mkO (t, i) inv (Some res) o r.
