(* C05 - executable model of kvstore/mapdb (mapdb.go, synced_map.go) + flushkv under concurrent use.

   Three layers, all executable:
   1. the sequential specification of the store: a map bytes -> bytes (kept as a key-sorted association
      list) plus the `closed` flag, with one transition function `spec_step` over atomic operations `sop`;
   2. operation records `orec` (invocation stamp, optional response stamp, operation, result), the
      definition of a linearizable history of such records, and the executable checker `lin_check`;
   3. the thread-program model: every API call is compiled to the instruction list that the Go code
      executes (load of `closed`, RWMutex acquisitions of the per-view lock and of the map lock, the
      atomic effect under the map lock, releases, flushkv's trailing Flush), and `step` interleaves any
      number of threads instruction by instruction, recording an `orec` for every effect.
      The consumer of an Iterate/IterateKeys is user code: `CIterRe` lets it call back into the store
      (`cb`: the API calls it makes inside its j-th invocation). The callbacks run after the snapshot was
      copied and the map lock released, with NO store lock held (`ICallbacks`/`IInvoke`/`IReturn`).
   No proofs in this file. *)
From Coq Require Import NArith List Bool Arith Permutation.
Import ListNotations.

(* ------------------------------------------------------------------ bytes *)
Definition bytes := list N.

Fixpoint bytes_eqb (a b : bytes) : bool :=
  match a, b with
  | [], [] => true
  | x :: a', y :: b' => N.eqb x y && bytes_eqb a' b'
  | _, _ => false
  end.

(* strings.HasPrefix(k, p) *)
Fixpoint is_prefix (p k : bytes) : bool :=
  match p, k with
  | [], _ => true
  | x :: p', y :: k' => N.eqb x y && is_prefix p' k'
  | _ :: _, [] => false
  end.

(* Go string order (bytewise lexicographic), strict *)
Fixpoint lex_ltb (a b : bytes) : bool :=
  match a, b with
  | [], [] => false
  | [], _ :: _ => true
  | _ :: _, [] => false
  | x :: a', y :: b' => if N.ltb x y then true else if N.eqb x y then lex_ltb a' b' else false
  end.

(* ------------------------------------------------------------------ the map *)
Definition kvmap := list (bytes * bytes).   (* sorted by key, unique keys *)

Fixpoint lookup (k : bytes) (m : kvmap) : option bytes :=
  match m with
  | [] => None
  | (k', v) :: r => if bytes_eqb k k' then Some v else lookup k r
  end.

Fixpoint remove (k : bytes) (m : kvmap) : kvmap :=
  match m with
  | [] => []
  | (k', v) :: r => if bytes_eqb k k' then remove k r else (k', v) :: remove k r
  end.

Fixpoint insert (k v : bytes) (m : kvmap) : kvmap :=
  match m with
  | [] => [(k, v)]
  | (k', v') :: r =>
      if bytes_eqb k k' then (k, v) :: r
      else if lex_ltb k k' then (k, v) :: (k', v') :: r
      else (k', v') :: insert k v r
  end.

(* ------------------------------------------------------------------ sequential spec *)
(* Atomic operations; keys and prefixes are *full* keys (realm already prepended by the view). *)
Inductive sop :=
| OGet (k : bytes)
| OHas (k : bytes)
| OSet (k v : bytes)
| ODel (k : bytes)
| ODelPrefix (p : bytes)
(* snapshot of all entries with prefix p; reported keys lose `strip` leading bytes (the realm);
   fwd = ascending; keys = IterateKeys; lim = number of entries the consumer accepts *)
| OIter (p : bytes) (strip : nat) (fwd keys : bool) (lim : nat)
| ONop        (* Flush / WithRealm / Batched: only look at `closed` *)
| OClose.

Inductive ret :=
| ROk | RClosed | RNotFound
| RVal (v : bytes)
| RBool (b : bool)
| RList (l : list (bytes * bytes))
| ROther.      (* any other error class: never produced by the model *)

Definition snapshot (m : kvmap) (p : bytes) (strip : nat) (fwd keys : bool) (lim : nat) : list (bytes * bytes) :=
  let sel := filter (fun kv => is_prefix p (fst kv)) m in
  let ord := if fwd then sel else rev sel in
  firstn lim (map (fun kv => (skipn strip (fst kv), if keys then [] else snd kv)) ord).

(* the effect of an operation on the shared map, executed under the map lock (no look at `closed`) *)
Definition eff (m : kvmap) (o : sop) : kvmap * ret :=
  match o with
  | OGet k => (m, match lookup k m with Some v => RVal v | None => RNotFound end)
  | OHas k => (m, RBool (match lookup k m with Some _ => true | None => false end))
  | OSet k v => (insert k v m, ROk)
  | ODel k => (remove k m, ROk)
  | ODelPrefix p => (filter (fun kv => negb (is_prefix p (fst kv))) m, ROk)
  | OIter p strip fwd keys lim => (m, RList (snapshot m p strip fwd keys lim))
  | ONop => (m, ROk)
  | OClose => (m, ROk)
  end.

Record sstate := mkS { s_map : kvmap; s_closed : bool }.
Definition sinit : sstate := mkS [] false.

(* THE sequential contract: Close closes (idempotent, nil); everything else fails with ErrStoreClosed
   on a closed store and otherwise applies its effect. *)
Definition spec_step (s : sstate) (o : sop) : sstate * ret :=
  match o with
  | OClose => (mkS (s_map s) true, ROk)
  | _ => if s_closed s then (s, RClosed)
         else let '(m', r) := eff (s_map s) o in (mkS m' false, r)
  end.

(* ------------------------------------------------------------------ decidable equality of results *)
Fixpoint kvl_eqb (a b : list (bytes * bytes)) : bool :=
  match a, b with
  | [], [] => true
  | (k, v) :: a', (k', v') :: b' => bytes_eqb k k' && bytes_eqb v v' && kvl_eqb a' b'
  | _, _ => false
  end.

Definition ret_eqb (a b : ret) : bool :=
  match a, b with
  | ROk, ROk | RClosed, RClosed | RNotFound, RNotFound | ROther, ROther => true
  | RVal x, RVal y => bytes_eqb x y
  | RBool x, RBool y => Bool.eqb x y
  | RList x, RList y => kvl_eqb x y
  | _, _ => false
  end.

(* ------------------------------------------------------------------ histories and linearizability *)
(* One record per atomic operation. o_call identifies the API call (thread, index) it belongs to (a batch
   Commit and the flushkv wrappers issue several operations inside one call; they share its interval).
   o_res = None: the call has not returned (yet). Stamps come from one global counter. *)
Record orec := mkO { o_call : nat * nat; o_inv : nat; o_res : option nat; o_op : sop; o_ret : ret }.

(* a returned before b was invoked *)
Definition precedes (a b : orec) : Prop :=
  match o_res a with Some r => r < o_inv b | None => False end.
Definition precedesb (a b : orec) : bool :=
  match o_res a with Some r => Nat.ltb r (o_inv b) | None => false end.

(* replay a sequence of records against the spec, comparing every result *)
Fixpoint replay (s : sstate) (l : list orec) : option sstate :=
  match l with
  | [] => Some s
  | o :: l' => let '(s', r) := spec_step s (o_op o) in
               if ret_eqb r (o_ret o) then replay s' l' else None
  end.

Fixpoint ordpairs {A} (R : A -> A -> Prop) (l : list A) : Prop :=
  match l with
  | [] => True
  | a :: r => Forall (R a) r /\ ordpairs R r
  end.

(* the sequence respects real time: nothing is placed before an operation that had returned before it was invoked *)
Definition rt_ok (l : list orec) : Prop := ordpairs (fun a b => ~ precedes b a) l.

(* Herlihy-Wing: some total order of the records is a legal sequential history of the spec with the
   recorded results and respects real-time precedence. (Records exist only for operations whose effect
   took place; a pending call without effect has no record, a pending call with effect is completed by
   its record - exactly the completions H-W allow.) *)
Definition linearizable (h : list orec) : Prop :=
  exists l, Permutation l h /\ replay sinit l <> None /\ rt_ok l.

(* ---- executable checker: depth-first search over the minimal (not preceded) remaining records *)
Fixpoint picks {A} (pre l : list A) : list (A * list A) :=
  match l with
  | [] => []
  | x :: r => (x, rev_append pre r) :: picks (x :: pre) r
  end.

Definition minimal (x : orec) (rest : list orec) : bool :=
  forallb (fun y => negb (precedesb y x)) rest.

Definition is_read (o : sop) : bool :=
  match o with OGet _ | OHas _ | OIter _ _ _ _ _ | ONop => true | _ => false end.

(* x can be linearized next in state s *)
Definition fits (s : sstate) (x : orec) (rest : list orec) : bool :=
  if minimal x rest then ret_eqb (snd (spec_step s (o_op x))) (o_ret x) else false.

(* existsb with a lazy tail (vm_compute is call-by-value: `||` and `&&` would evaluate both sides) *)
Fixpoint try_all {A} (f : A -> bool) (l : list A) : bool :=
  match l with
  | [] => false
  | x :: r => if f x then true else try_all f r
  end.

Fixpoint lin_search (fuel : nat) (s : sstate) (h : list orec) : bool :=
  match h with
  | [] => true
  | _ =>
    match fuel with
    | 0 => false
    | S f =>
      (* a minimal read that fits can be taken at once (it does not change the state) *)
      match find (fun xr => if is_read (o_op (fst xr)) then fits s (fst xr) (snd xr) else false) (picks [] h) with
      | Some xr => lin_search f s (snd xr)
      | None =>
          try_all (fun xr => if fits s (fst xr) (snd xr)
                             then lin_search f (fst (spec_step s (o_op (fst xr)))) (snd xr)
                             else false) (picks [] h)
      end
    end
  end.

Definition lin_check (h : list orec) : bool := lin_search (length h) sinit h.

(* ------------------------------------------------------------------ API calls and their programs *)
(* A view = one *mapDB object (its own RWMutex, identified by vid) with its realm; fl = wrapped by flushkv. *)
Record view := mkV { vid : nat; realm : bytes; fl : bool }.

Inductive call :=
| CGet (w : view) (k : bytes)
| CHas (w : view) (k : bytes)
| CSet (w : view) (k v : bytes)
| CDel (w : view) (k : bytes)
| CDelPrefix (w : view) (p : bytes)
| CClear (w : view)
| CIter (w : view) (p : bytes) (fwd keys : bool) (lim : nat)
| CFlush (w : view)
| CWithRealm (w : view)             (* WithRealm / WithExtendedRealm / Batched: only the closed test is observable *)
| CClose (w : view)
| CCommit (w : view) (ws : list (bytes * option bytes))    (* batch.Set/Delete... then Commit *)
(* Iterate / IterateKeys whose consumer re-enters the store: inside its j-th invocation (one invocation per
   reported entry, at most `lim`) it makes the calls `nth j cb []`, one after the other, each returning
   before the next starts; the calls may be anything, through any view, re-entrant iterations included *)
| CIterRe (w : view) (p : bytes) (fwd keys : bool) (lim : nat) (cb : list (list call)).

(* batchedMutations: Set removes the key from the delete set and vice versa; Commit applies all sets, then all deletes *)
Fixpoint batch_last (k : bytes) (ws : list (bytes * option bytes)) : option (option bytes) :=
  match ws with
  | [] => None
  | (k', x) :: r => match batch_last k r with
                    | Some y => Some y
                    | None => if bytes_eqb k k' then Some x else None
                    end
  end.

Fixpoint mem_key (k : bytes) (l : list bytes) : bool :=
  match l with [] => false | k' :: r => bytes_eqb k k' || mem_key k r end.

Fixpoint dedup_keys (l : list bytes) (seen : list bytes) : list bytes :=
  match l with
  | [] => []
  | k :: r => if mem_key k seen then dedup_keys r seen else k :: dedup_keys r (k :: seen)
  end.

Definition batch_net (ws : list (bytes * option bytes)) : list (bytes * option bytes) :=
  let ks := dedup_keys (map fst ws) [] in
  let net := map (fun k => (k, match batch_last k ws with Some x => x | None => None end)) ks in
  filter (fun kx => match snd kx with Some _ => true | None => false end) net ++
  filter (fun kx => match snd kx with Some _ => false | None => true end) net.

Inductive lockid := LView (v : nat) | LMap.

Inductive instr :=
| ICheck (guarded : list sop)   (* closed.Load(): when closed, the call fails and none of `guarded` happens *)
| IAcq (l : lockid) (w : bool)  (* Lock (w = true) / RLock *)
| IRel (l : lockid)
| IEff (o : sop)                (* body of a syncedKVMap method, under its lock *)
| INop                          (* Flush: closed.Load() as an operation of its own *)
| IClose                        (* closed.Swap(true) *)
(* the loop of syncedKVMap.iterate/iterateKeys over the copied entries: one consumer invocation per entry
   reported (the result accumulated so far); the goroutine holds no lock of the store here *)
| ICallbacks (cb : list (list call))
| IInvoke (c : call)            (* the consumer calls the store: a nested API call with its own interval *)
| IReturn (ci iv : nat) (r : ret).   (* the nested call returns; the outer call (id, invocation stamp, result so far) resumes *)

Definition is_write (o : sop) : bool :=
  match o with OSet _ _ | ODel _ | ODelPrefix _ => true | _ => false end.

Definition flush_tail (w : view) : list instr := if fl w then [INop] else [].

(* Get/Has: view.RLock; map.RLock.  Set/Delete/DeletePrefix/Clear: view.Lock; map.Lock. *)
Definition single (w : view) (o : sop) : list instr :=
  [ICheck [o]; IAcq (LView (vid w)) (is_write o); IAcq LMap (is_write o); IEff o; IRel LMap; IRel (LView (vid w))].

Definition write_op (w : view) (kx : bytes * option bytes) : sop :=
  match snd kx with Some v => OSet (realm w ++ fst kx) v | None => ODel (realm w ++ fst kx) end.

Definition compile (c : call) : list instr :=
  match c with
  | CGet w k => single w (OGet (realm w ++ k))
  | CHas w k => single w (OHas (realm w ++ k))
  | CSet w k v => single w (OSet (realm w ++ k) v) ++ flush_tail w
  | CDel w k => single w (ODel (realm w ++ k)) ++ flush_tail w
  | CDelPrefix w p => single w (ODelPrefix (realm w ++ p)) ++ flush_tail w
  | CClear w => single w (ODelPrefix (realm w)) ++ flush_tail w
  | CIter w p fwd keys lim =>
      (* Iterate takes no view lock; the snapshot is copied under the map's read lock *)
      let o := OIter (realm w ++ p) (length (realm w)) fwd keys lim in
      [ICheck [o]; IAcq LMap false; IEff o; IRel LMap]
  | CIterRe w p fwd keys lim cb =>
      (* the same; then the consumer is called for every copied entry, after s.RUnlock() of the map *)
      let o := OIter (realm w ++ p) (length (realm w)) fwd keys lim in
      [ICheck [o]; IAcq LMap false; IEff o; IRel LMap; ICallbacks cb]
  | CFlush w => [INop]
  | CWithRealm w => [INop]
  | CClose w => [IClose]
  | CCommit w ws =>
      let ops := map (write_op w) (batch_net ws) in
      [ICheck ops; IAcq (LView (vid w)) true]
        ++ flat_map (fun o => [IAcq LMap true; IEff o; IRel LMap]) ops
        ++ [IRel (LView (vid w))] ++ flush_tail w
  end.

(* NOT the code: the variant that keeps the view's read lock (s.RLock(); defer s.RUnlock()) around the
   iteration, so that the consumer runs while the view lock is read-held. Only used for the refutation
   C05_refuted_rlock_across_callbacks (deadlock with a re-entrant consumer and a pending writer). *)
Definition compile_held (c : call) : list instr :=
  match c with
  | CIterRe w p fwd keys lim cb =>
      let o := OIter (realm w ++ p) (length (realm w)) fwd keys lim in
      [ICheck [o]; IAcq (LView (vid w)) false; IAcq LMap false; IEff o; IRel LMap; ICallbacks cb; IRel (LView (vid w))]
  | _ => compile c
  end.

(* the calls a consumer makes, given what the iteration reports: cb[j] for every reported entry j *)
Definition cb_calls (r : ret) (cb : list (list call)) : list call :=
  match r with RList l => concat (firstn (length l) cb) | _ => [] end.

(* a failed `closed` test ends the call in flight: control goes to the return of that call *)
Fixpoint skip_ret (p : list instr) : list instr :=
  match p with
  | [] => []
  | IReturn _ _ _ :: _ => p
  | _ :: r => skip_ret r
  end.

(* ------------------------------------------------------------------ threads and interleaving *)
Record thread := mkT {
  script : list call;            (* calls still to be made *)
  cur : option (list instr);     (* remaining program of the call in flight *)
  cidx : nat;                    (* id of the call in flight (of the innermost one when a consumer re-entered) *)
  cinv : nat;                    (* invocation stamp of the call in flight *)
  cres : ret;                    (* result accumulated by the call in flight *)
  hv : option (nat * bool);      (* view lock held: (vid, write?) *)
  hm : option bool;              (* map lock held: write? *)
  ww : bool;                     (* announced as waiting writer on the lock of the next IAcq *)
  nid : nat                      (* number of calls invoked so far (nested ones included) = next call id *)
}.

Record crec := mkC { c_call : nat * nat; c_inv : nat; c_res : nat; c_ret : ret }.

Record state := mkSt {
  mem : kvmap;
  closed : bool;
  threads : list thread;
  clock : nat;                   (* one stamp per executed step *)
  recs : list orec;              (* operation records in the order of their effects *)
  rets : list crec               (* returned calls *)
}.

Definition new_thread (sc : list call) : thread := mkT sc None 0 0 ROk None None false 0.
Definition init (scripts : list (list call)) : state := mkSt [] false (map new_thread scripts) 0 [] [].

Definition lock_eqb (a b : lockid) : bool :=
  match a, b with LMap, LMap => true | LView x, LView y => Nat.eqb x y | _, _ => false end.

(* mode in which thread th holds lock l *)
Definition holds (th : thread) (l : lockid) : option bool :=
  match l with
  | LMap => hm th
  | LView v => match hv th with Some (v', w) => if Nat.eqb v v' then Some w else None | None => None end
  end.

Definition waits_w (th : thread) (l : lockid) : bool :=
  ww th && match cur th with Some (IAcq l' true :: _) => lock_eqb l l' | _ => false end.

(* sync.RWMutex: Lock succeeds when nobody holds the lock; RLock when no writer holds it and no writer
   has announced itself (a waiting writer blocks new readers) *)
Definition can_lock (ths : list thread) (l : lockid) : bool :=
  forallb (fun th => match holds th l with None => true | Some _ => false end) ths.
Definition can_rlock (ths : list thread) (l : lockid) : bool :=
  forallb (fun th => match holds th l with Some true => false | _ => negb (waits_w th l) end) ths.

Definition set_hold (th : thread) (l : lockid) (x : option bool) : thread :=
  match l with
  | LMap => mkT (script th) (cur th) (cidx th) (cinv th) (cres th) (hv th) x (ww th) (nid th)
  | LView v => mkT (script th) (cur th) (cidx th) (cinv th) (cres th)
                   (match x with Some w => Some (v, w) | None => None end) (hm th) (ww th) (nid th)
  end.
Definition set_cur (th : thread) (p : option (list instr)) : thread :=
  mkT (script th) p (cidx th) (cinv th) (cres th) (hv th) (hm th) (ww th) (nid th).
Definition set_res (th : thread) (r : ret) : thread :=
  mkT (script th) (cur th) (cidx th) (cinv th) r (hv th) (hm th) (ww th) (nid th).
Definition set_ww (th : thread) (b : bool) : thread :=
  mkT (script th) (cur th) (cidx th) (cinv th) (cres th) (hv th) (hm th) b (nid th).

Fixpoint upd {A} (l : list A) (i : nat) (x : A) : list A :=
  match l, i with
  | [], _ => []
  | _ :: r, 0 => x :: r
  | a :: r, S j => a :: upd r j x
  end.

Definition with_threads (s : state) (ths : list thread) : state :=
  mkSt (mem s) (closed s) ths (S (clock s)) (recs s) (rets s).

Definition cid_eqb (a b : nat * nat) : bool := Nat.eqb (fst a) (fst b) && Nat.eqb (snd a) (snd b).

(* the call `cid` returns at stamp `now`: its records get their response stamp *)
Definition respond (cid : nat * nat) (now : nat) (l : list orec) : list orec :=
  map (fun r => if cid_eqb (o_call r) cid then mkO (o_call r) (o_inv r) (Some now) (o_op r) (o_ret r) else r) l.

(* One step of thread t. None = not enabled (finished, or blocked on a lock).
   `comp` = the program of every call (compile = the code; compile_held only for the refutation). *)
Definition step_with (comp : call -> list instr) (s : state) (t : nat) : option state :=
  match nth_error (threads s) t with
  | None => None
  | Some th =>
    let cid := (t, cidx th) in
    let put th' := upd (threads s) t th' in
    match cur th with
    | None =>
        match script th with
        | [] => None
        | c :: sc =>   (* invocation *)
            Some (with_threads s (put (mkT sc (Some (comp c)) (nid th) (clock s) ROk (hv th) (hm th) false (S (nid th)))))
        end
    | Some [] =>       (* response *)
        Some (mkSt (mem s) (closed s)
                   (put (mkT (script th) None (cidx th) (cinv th) (cres th) (hv th) (hm th) false (nid th)))
                   (S (clock s)) (respond cid (clock s) (recs s))
                   (rets s ++ [mkC cid (cinv th) (clock s) (cres th)]))
    | Some (i :: p) =>
        let emit o r := mkO cid (cinv th) None o r in
        match i with
        | ICheck g =>
            if closed s
            then Some (mkSt (mem s) (closed s) (put (set_res (set_cur th (Some (skip_ret p))) RClosed)) (S (clock s))
                            (recs s ++ map (fun o => emit o RClosed) g) (rets s))
            else Some (with_threads s (put (set_cur th (Some p))))
        | INop =>
            let r := if closed s then RClosed else ROk in
            Some (mkSt (mem s) (closed s) (put (set_res (set_cur th (Some p)) r)) (S (clock s))
                       (recs s ++ [emit ONop r]) (rets s))
        | IClose =>
            Some (mkSt (mem s) true (put (set_res (set_cur th (Some p)) ROk)) (S (clock s))
                       (recs s ++ [emit OClose ROk]) (rets s))
        | IEff o =>
            let '(m', r) := eff (mem s) o in
            Some (mkSt m' (closed s) (put (set_res (set_cur th (Some p)) r)) (S (clock s))
                       (recs s ++ [emit o r]) (rets s))
        | IRel l =>
            Some (with_threads s (put (set_cur (set_hold th l None) (Some p))))
        | IAcq l true =>
            if can_lock (threads s) l
            then Some (with_threads s (put (set_ww (set_cur (set_hold th l (Some true)) (Some p)) false)))
            else if ww th then None
                 else Some (with_threads s (put (set_ww th true)))      (* announce, then wait *)
        | IAcq l false =>
            if can_rlock (threads s) l
            then Some (with_threads s (put (set_cur (set_hold th l (Some false)) (Some p))))
            else None
        | ICallbacks cb =>   (* the consumer's calls for the entries reported, in order *)
            Some (with_threads s (put (set_cur th (Some (map IInvoke (cb_calls (cres th) cb) ++ p)))))
        | IInvoke c =>       (* invocation of a nested call: fresh id, own invocation stamp *)
            Some (with_threads s (put (mkT (script th) (Some (comp c ++ IReturn (cidx th) (cinv th) (cres th) :: p))
                                           (nid th) (clock s) ROk (hv th) (hm th) false (S (nid th)))))
        | IReturn ci iv r => (* response of the nested call; the outer call resumes *)
            Some (mkSt (mem s) (closed s)
                       (put (mkT (script th) (Some p) ci iv r (hv th) (hm th) false (nid th)))
                       (S (clock s)) (respond cid (clock s) (recs s))
                       (rets s ++ [mkC cid (cinv th) (clock s) (cres th)]))
        end
    end
  end.

Definition step : state -> nat -> option state := step_with compile.

Definition step' (s : state) (t : nat) : state := match step s t with Some s' => s' | None => s end.

(* a schedule is any list of thread numbers; entries that are not enabled are skipped *)
Definition run (sch : list nat) (s : state) : state := fold_left step' sch s.

(* the same for the variant programs *)
Definition run_with (comp : call -> list instr) (sch : list nat) (s : state) : state :=
  fold_left (fun s t => match step_with comp s t with Some s' => s' | None => s end) sch s.

Definition finished (th : thread) : bool :=
  match cur th, script th with None, [] => true | _, _ => false end.

(* ------------------------------------------------------------------ lockstep (sequential) use of the same model *)
(* run thread 0 alone until its script is exhausted: the results of its calls, in order *)
(* an upper bound of the number of steps of a call, nested calls included *)
Fixpoint call_size (c : call) : nat :=
  3 + length (compile c) +
  match c with
  | CIterRe _ _ _ _ _ cb =>
      (fix outer (l : list (list call)) : nat :=
         match l with
         | [] => 0
         | cs :: r => (fix inner (l2 : list call) : nat :=
                         match l2 with [] => 0 | c' :: r2 => call_size c' + inner r2 end) cs + outer r
         end) cb
  | _ => 0
  end.
Definition seq_fuel (sc : list call) : nat :=
  fold_right (fun c n => n + call_size c) 1 sc.
Definition run_seq (sc : list call) : state := run (repeat 0 (seq_fuel sc)) (init [sc]).
Definition seq_results (sc : list call) : list ret := map c_ret (rets (run_seq sc)).
