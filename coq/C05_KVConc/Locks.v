(* C05 - the lock skeleton of mapdb: lock discipline of every compiled call, and deadlock freedom.
   Hierarchy: view lock (per *mapDB object) -> map lock; a thread holds at most one view lock and never
   re-acquires a lock it holds (also not for reading); sync.RWMutex with writer preference.
   Consumer callbacks of Iterate (ICallbacks / IInvoke / IReturn) run with NO lock held: that is what makes
   re-entrant consumers safe. The variant that keeps the view's read lock across the callbacks deadlocks
   (rlock_across_callbacks_deadlocks). *)
From Coq Require Import NArith List Bool Arith Lia.
From Verif.C05_KVConc Require Import Model.
Import ListNotations.

(* lock discipline of a remaining program, given the locks held now *)
Fixpoint ok_prog (v : option (nat * bool)) (m : option bool) (p : list instr) : bool :=
  match p with
  | [] => match v, m with None, None => true | _, _ => false end
  | ICheck _ :: r => match v, m with None, None => ok_prog None None r | _, _ => false end
  | IAcq (LView x) w :: r => match v, m with None, None => ok_prog (Some (x, w)) None r | _, _ => false end
  | IAcq LMap w :: r => match m with None => ok_prog v (Some w) r | Some _ => false end
  | IRel (LView x) :: r =>
      match v, m with Some (x', _), None => Nat.eqb x x' && ok_prog None None r | _, _ => false end
  | IRel LMap :: r => match m with Some _ => ok_prog v None r | None => false end
  | IEff o :: r => match m with Some w => implb (is_write o) w && ok_prog v m r | None => false end
  | INop :: r => ok_prog v m r
  | IClose :: r => ok_prog v m r
  (* user code (the consumer) runs, and may call the store, only while this thread holds no lock *)
  | ICallbacks _ :: r | IInvoke _ :: r | IReturn _ _ _ :: r =>
      match v, m with None, None => ok_prog None None r | _, _ => false end
  end.

Lemma flush_tail_ok w : ok_prog None None (flush_tail w) = true.
Proof. unfold flush_tail. destruct (fl w); reflexivity. Qed.

Lemma single_ok w o tl : ok_prog None None tl = true -> ok_prog None None (single w o ++ tl) = true.
Proof. intros H. simpl. rewrite Nat.eqb_refl, implb_same. simpl. exact H. Qed.

Lemma write_op_is_write w kx : is_write (write_op w kx) = true.
Proof. unfold write_op. destruct (snd kx); reflexivity. Qed.

Lemma commit_loop_ok x ops tl :
  (forall o, In o ops -> is_write o = true) ->
  ok_prog (Some (x, true)) None (flat_map (fun o => [IAcq LMap true; IEff o; IRel LMap]) ops ++ tl)
  = ok_prog (Some (x, true)) None tl.
Proof.
  induction ops as [|o ops IH]; intros H; simpl; auto.
  rewrite (H o (or_introl eq_refl)). simpl. apply IH. intros o' Ho'. apply H. right; exact Ho'.
Qed.

Lemma compile_ok c : ok_prog None None (compile c) = true.
Proof.
  destruct c; cbn [compile];
    try (apply single_ok; apply flush_tail_ok);
    try (rewrite <- (app_nil_r (single _ _)); apply single_ok; reflexivity);
    try reflexivity.
  cbn zeta. simpl. rewrite commit_loop_ok.
  - simpl. rewrite Nat.eqb_refl. simpl. apply flush_tail_ok.
  - intros o Ho. apply in_map_iff in Ho as [kx [<- _]]. apply write_op_is_write.
Qed.

(* a program that obeys the discipline, followed by one that starts without locks *)
Lemma ok_prog_app a : forall v m b,
  ok_prog v m a = true -> ok_prog None None b = true -> ok_prog v m (a ++ b) = true.
Proof.
  induction a as [|i a IH]; intros v m b Ha Hb.
  - simpl in *. destruct v, m; try discriminate. exact Hb.
  - destruct i as [g|l w|l|o| | |cb|c|ci iv rr]; [ | destruct l | destruct l | | | | | | ];
      destruct v as [[x w']|], m as [w''|]; simpl in *; try discriminate;
      try (apply andb_true_iff in Ha as [H1 H2]; rewrite H1; simpl); auto.
Qed.

Lemma compile_ok_app c tl : ok_prog None None tl = true -> ok_prog None None (compile c ++ tl) = true.
Proof. intros H. apply ok_prog_app; [apply compile_ok | exact H]. Qed.

Lemma invokes_ok l tl : ok_prog None None tl = true -> ok_prog None None (map IInvoke l ++ tl) = true.
Proof. intros H. induction l as [|c l IH]; simpl; auto. Qed.

(* wherever a failed `closed` test happens, the return it jumps to is reached without locks *)
Lemma ok_skip_ret p : forall v m, ok_prog v m p = true -> ok_prog None None (skip_ret p) = true.
Proof.
  induction p as [|i p IH]; intros v m H; [reflexivity|].
  destruct i as [g|l w|l|o| | |cb|c|ci iv rr]; [ | destruct l | destruct l | | | | | | ];
    destruct v as [[x w']|], m as [w''|]; simpl in *; try discriminate;
    try (apply andb_true_iff in H as [_ H]); try exact H; eauto.
Qed.

(* ------------------------------------------------------------------ invariant *)
Definition lok (th : thread) : Prop :=
  match cur th with
  | Some p => ok_prog (hv th) (hm th) p = true
  | None => hv th = None /\ hm th = None
  end /\
  (ww th = true -> exists l p, cur th = Some (IAcq l true :: p)).

Definition LInv (s : state) : Prop := forall th, In th (threads s) -> lok th.

Lemma in_upd {A} (l : list A) i x y : In y (upd l i x) -> y = x \/ In y l.
Proof.
  revert i; induction l as [|a l IH]; intros i; destruct i; simpl; auto.
  - intros [H|H]; auto.
  - intros [H|H]; auto. destruct (IH _ H); auto.
Qed.

Lemma linv_init scripts : LInv (init scripts).
Proof.
  intros th Hin. simpl in Hin. apply in_map_iff in Hin as [sc [<- _]]. split; simpl; auto. discriminate.
Qed.

Lemma linv_step s t s' : LInv s -> step s t = Some s' -> LInv s'.
Proof.
  intros L H. unfold step, step_with in H.
  destruct (nth_error (threads s) t) as [th|] eqn:Hth; [|discriminate].
  destruct (L th (nth_error_In _ _ Hth)) as [Hp Hw].
  assert (Hupd : forall th', lok th' ->
            forall m c k r x, LInv (mkSt m c (upd (threads s) t th') k r x)).
  { intros th' Hl m c k r x th0 H0. simpl in H0. apply in_upd in H0 as [->|H0]; auto. }
  cbv zeta in H.
  destruct (cur th) as [[|i p]|] eqn:Hcur.
  - inversion H; subst; clear H. apply Hupd. split; simpl; [|discriminate].
    destruct (hv th), (hm th); simpl in Hp; try discriminate; auto.
  - assert (Hnw : forall l' p', Some (i :: p) = Some (IAcq l' true :: p') -> i = IAcq l' true)
      by (intros l' p' E; inversion E; reflexivity).
    destruct i as [g|l w|l|o| | |cb|c|ci iv rr].
    + destruct (closed s); inversion H; subst; clear H; apply Hupd; split; simpl;
        destruct (hv th), (hm th); simpl in Hp; try discriminate; auto;
        try (eapply ok_skip_ret; eassumption);
        intros Hww; destruct (Hw Hww) as [l' [p' E]]; discriminate (Hnw _ _ E).
    + destruct w.
      * destruct (can_lock (threads s) l); [|destruct (ww th) eqn:Eww; [discriminate|]];
          inversion H; subst; clear H; apply Hupd; split; simpl; try discriminate.
        -- destruct l; simpl in *; destruct (hv th), (hm th); try discriminate; auto.
        -- rewrite Hcur. exact Hp.
        -- intros _. rewrite Hcur. eauto.
      * destruct (can_rlock (threads s) l); [|discriminate].
        inversion H; subst; clear H; apply Hupd; split; simpl.
        -- destruct l; simpl in *; destruct (hv th), (hm th); try discriminate; auto.
        -- intros Hww. destruct l; simpl in Hww; destruct (Hw Hww) as [l' [p' E]]; discriminate (Hnw _ _ E).
    + inversion H; subst; clear H; apply Hupd; split; simpl.
      * destruct l; simpl in *.
        -- destruct (hv th) as [[x' w']|], (hm th); try discriminate.
           apply andb_true_iff in Hp as [_ Hp]. exact Hp.
        -- destruct (hm th); try discriminate. exact Hp.
      * intros Hww. destruct l; simpl in Hww; destruct (Hw Hww) as [l' [p' E]]; discriminate (Hnw _ _ E).
    + destruct (eff (mem s) o) as [m' r]. inversion H; subst; clear H; apply Hupd; split; simpl.
      * simpl in Hp. destruct (hm th); try discriminate. apply andb_true_iff in Hp as [_ Hp]. exact Hp.
      * intros Hww. destruct (Hw Hww) as [l' [p' E]]; discriminate (Hnw _ _ E).
    + inversion H; subst; clear H; apply Hupd; split; simpl; auto.
      intros Hww. destruct (Hw Hww) as [l' [p' E]]; discriminate (Hnw _ _ E).
    + inversion H; subst; clear H; apply Hupd; split; simpl; auto.
      intros Hww. destruct (Hw Hww) as [l' [p' E]]; discriminate (Hnw _ _ E).
    + (* ICallbacks *)
      inversion H; subst; clear H; apply Hupd; split; simpl.
      * destruct (hv th), (hm th); simpl in Hp; try discriminate. apply invokes_ok. exact Hp.
      * intros Hww. destruct (Hw Hww) as [l' [p' E]]; discriminate (Hnw _ _ E).
    + (* IInvoke *)
      inversion H; subst; clear H; apply Hupd; split; simpl; [|discriminate].
      destruct (hv th), (hm th); simpl in Hp; try discriminate. apply compile_ok_app. exact Hp.
    + (* IReturn *)
      inversion H; subst; clear H; apply Hupd; split; simpl; [|discriminate].
      destruct (hv th), (hm th); simpl in Hp; try discriminate. exact Hp.
  - destruct (script th) as [|c sc]; [discriminate|]. inversion H; subst; clear H.
    apply Hupd. destruct Hp as [-> ->]. split; simpl; [apply compile_ok | discriminate].
Qed.

Lemma linv_run sch : forall s, LInv s -> LInv (run sch s).
Proof.
  induction sch as [|t sch IH]; intros s L; simpl; auto. apply IH. unfold step'.
  destruct (step s t) eqn:E; [eapply linv_step; eauto | exact L].
Qed.

(* every effect on the shared map is executed while holding the map lock, writes while holding it for writing *)
Theorem effects_under_lock scripts sch th o p :
  In th (threads (run sch (init scripts))) -> cur th = Some (IEff o :: p) ->
  exists w, hm th = Some w /\ (is_write o = true -> w = true).
Proof.
  intros Hin Hc. destruct (linv_run sch _ (linv_init scripts) th Hin) as [Hp _].
  rewrite Hc in Hp. simpl in Hp. destruct (hm th) as [w|]; [|discriminate].
  exists w. split; auto. apply andb_true_iff in Hp as [Hi _]. intros Hw. rewrite Hw in Hi. exact Hi.
Qed.

(* ------------------------------------------------------------------ enabledness *)
Definition is_acq (i : instr) : bool := match i with IAcq _ _ => true | _ => false end.

Lemma step_nonacq s t th i p :
  nth_error (threads s) t = Some th -> cur th = Some (i :: p) -> is_acq i = false ->
  exists s', step s t = Some s'.
Proof.
  intros Hth Hc Hi. unfold step, step_with. rewrite Hth, Hc. cbv zeta.
  destruct i; try discriminate; eauto.
  - destruct (closed s); eauto.
  - destruct (eff (mem s) o); eauto.
Qed.

Lemma step_acq_w s t th l p :
  nth_error (threads s) t = Some th -> cur th = Some (IAcq l true :: p) -> can_lock (threads s) l = true ->
  exists s', step s t = Some s'.
Proof. intros Hth Hc Hl. unfold step, step_with. rewrite Hth, Hc. cbv zeta. rewrite Hl. eauto. Qed.

Lemma step_acq_r s t th l p :
  nth_error (threads s) t = Some th -> cur th = Some (IAcq l false :: p) -> can_rlock (threads s) l = true ->
  exists s', step s t = Some s'.
Proof. intros Hth Hc Hl. unfold step, step_with. rewrite Hth, Hc. cbv zeta. rewrite Hl. eauto. Qed.

Lemma ok_hm_head v w p : ok_prog v (Some w) p = true -> exists i p', p = i :: p' /\ is_acq i = false.
Proof.
  destruct p as [|i p']; simpl; [destruct v; discriminate|].
  destruct i as [g|l w'|l|o| | |cb|c|ci iv rr]; try (intros _; eexists; eexists; split; reflexivity).
  destruct l; [destruct v; discriminate | discriminate].
Qed.

Lemma ok_hv_head vw p :
  ok_prog (Some vw) None p = true ->
  exists i p', p = i :: p' /\ (is_acq i = false \/ exists w, i = IAcq LMap w).
Proof.
  destruct p as [|i p']; simpl; [discriminate|].
  destruct i as [g|l w'|l|o| | |cb|c|ci iv rr]; try (intros _; eexists; eexists; split; [reflexivity | left; reflexivity]).
  destruct l; [discriminate|]. intros _. eexists; eexists; split; [reflexivity | right; eauto].
Qed.

Definition holds_map (th : thread) : bool := match hm th with Some _ => true | None => false end.
Definition holds_view (th : thread) : bool := match hv th with Some _ => true | None => false end.
Definition at_acq (l : lockid) (w : bool) (th : thread) : bool :=
  match cur th with
  | Some (IAcq l' w' :: _) => lock_eqb l l' && Bool.eqb w w'
  | _ => false
  end.

Lemma lock_eqb_eq a b : lock_eqb a b = true -> a = b.
Proof. destruct a, b; simpl; try discriminate; auto. intros H. apply Nat.eqb_eq in H. subst; auto. Qed.

Lemma at_acq_spec l w th : at_acq l w th = true -> exists p, cur th = Some (IAcq l w :: p).
Proof.
  unfold at_acq. destruct (cur th) as [[|[g|l' w'|l'|o| | |cb|c|ci iv rr] p]|]; try discriminate.
  intros H. apply andb_true_iff in H as [H1 H2]. apply lock_eqb_eq in H1. apply eqb_prop in H2. subst. eauto.
Qed.

Lemma find_none_all {A} (f : A -> bool) l : find f l = None -> forall x, In x l -> f x = false.
Proof. intros H x Hx. eapply find_none; eauto. Qed.

(* if nobody holds l and nobody is a waiting writer that could take it, an acquirer of l can step;
   if a waiting writer exists, that writer can step *)
Lemma free_lock_progress s l :
  (forall th, In th (threads s) -> holds th l = None) ->
  forall t th w p, nth_error (threads s) t = Some th -> cur th = Some (IAcq l w :: p) ->
  exists t' s', step s t' = Some s'.
Proof.
  intros Hfree t th w p Hth Hc.
  assert (Hcl : can_lock (threads s) l = true).
  { unfold can_lock. apply forallb_forall. intros th0 H0. rewrite (Hfree th0 H0). reflexivity. }
  destruct w.
  - exists t. eapply step_acq_w; eauto.
  - destruct (find (at_acq l true) (threads s)) as [th1|] eqn:Ef.
    + apply find_some in Ef as [Hin1 Ha]. apply at_acq_spec in Ha as [p1 Hc1].
      destruct (In_nth_error _ _ Hin1) as [t1 Ht1]. exists t1. eapply step_acq_w; eauto.
    + exists t. eapply step_acq_r; eauto. unfold can_rlock. apply forallb_forall. intros th0 H0.
      rewrite (Hfree th0 H0). apply negb_true_iff. unfold waits_w.
      pose proof (find_none_all _ _ Ef th0 H0) as Hn. unfold at_acq in Hn.
      destruct (cur th0) as [[|[g|l' w'|l'|o| | |cb|c|ci iv rr] p0]|]; try (rewrite andb_false_r; reflexivity).
      destruct w'; [|rewrite andb_false_r; reflexivity].
      simpl in Hn. rewrite andb_true_r in Hn. rewrite Hn. apply andb_false_r.
Qed.

(* DEADLOCK FREEDOM of the skeleton: in a state satisfying the lock discipline, if some thread is not
   finished then some thread can take a step *)
Theorem linv_progress s :
  LInv s -> (exists th, In th (threads s) /\ finished th = false) -> exists t s', step s t = Some s'.
Proof.
  intros L [thu [Hinu Hfu]].
  (* 1. somebody holds the map lock: he is not at an acquisition *)
  destruct (find holds_map (threads s)) as [th1|] eqn:E1.
  { apply find_some in E1 as [Hin1 Hh]. unfold holds_map in Hh.
    destruct (hm th1) as [w|] eqn:Ehm; [|discriminate].
    destruct (L th1 Hin1) as [Hp _]. destruct (cur th1) as [p|] eqn:Ec; [|destruct Hp; congruence].
    rewrite Ehm in Hp. apply ok_hm_head in Hp as [i [p' [-> Hi]]].
    destruct (In_nth_error _ _ Hin1) as [t1 Ht1]. exists t1. eapply step_nonacq; eauto. }
  assert (Hmfree : forall th, In th (threads s) -> holds th LMap = None).
  { intros th Hin. pose proof (find_none_all _ _ E1 th Hin) as Hn. unfold holds_map in Hn. simpl.
    destruct (hm th); [discriminate | reflexivity]. }
  (* 2. somebody wants the map lock *)
  destruct (find (fun th => at_acq LMap true th || at_acq LMap false th) (threads s)) as [th2|] eqn:E2.
  { apply find_some in E2 as [Hin2 Ha]. destruct (In_nth_error _ _ Hin2) as [t2 Ht2].
    apply orb_true_iff in Ha as [Ha|Ha]; apply at_acq_spec in Ha as [p2 Hc2];
      eapply (free_lock_progress s LMap Hmfree); eauto. }
  assert (Hnomap : forall th w p, In th (threads s) -> cur th <> Some (IAcq LMap w :: p)).
  { intros th w p Hin Hc. pose proof (find_none_all _ _ E2 th Hin) as Hn. simpl in Hn.
    unfold at_acq in Hn. rewrite Hc in Hn. simpl in Hn. destruct w; simpl in Hn; discriminate. }
  (* 3. somebody holds a view lock: he is neither at a view acquisition nor (by 2) at a map acquisition *)
  destruct (find holds_view (threads s)) as [th3|] eqn:E3.
  { apply find_some in E3 as [Hin3 Hh]. unfold holds_view in Hh.
    destruct (hv th3) as [vw|] eqn:Ehv; [|discriminate].
    destruct (L th3 Hin3) as [Hp _]. destruct (cur th3) as [p|] eqn:Ec; [|destruct Hp; congruence].
    rewrite Ehv, (Hmfree th3 Hin3 : hm th3 = None) in Hp.
    apply ok_hv_head in Hp as [i [p' [-> [Hi|[w ->]]]]].
    - destruct (In_nth_error _ _ Hin3) as [t3 Ht3]. exists t3. eapply step_nonacq; eauto.
    - exfalso. eapply Hnomap; eauto. }
  assert (Hvfree : forall x th, In th (threads s) -> holds th (LView x) = None).
  { intros x th Hin. pose proof (find_none_all _ _ E3 th Hin) as Hn. unfold holds_view in Hn. simpl.
    destruct (hv th); [discriminate | reflexivity]. }
  (* 4. nobody holds anything: the unfinished thread (or a waiting writer) moves *)
  destruct (In_nth_error _ _ Hinu) as [tu Htu].
  unfold finished in Hfu.
  destruct (cur thu) as [[|i p]|] eqn:Ec.
  - exists tu. unfold step, step_with. rewrite Htu, Ec. eauto.
  - destruct (is_acq i) eqn:Ei.
    + destruct i as [g|l w|l|o| | |cb|c|ci iv rr]; try discriminate. destruct l as [x|].
      * eapply (free_lock_progress s (LView x) (Hvfree x)); eauto.
      * exfalso. eapply Hnomap; eauto.
    + exists tu. eapply step_nonacq; eauto.
  - destruct (script thu) as [|c sc] eqn:Es; [discriminate|].
    exists tu. unfold step, step_with. rewrite Htu, Ec, Es. eauto.
Qed.

Theorem no_deadlock scripts sch :
  let s := run sch (init scripts) in
  (exists th, In th (threads s) /\ finished th = false) -> exists t s', step s t = Some s'.
Proof. intros s. apply linv_progress, linv_run, linv_init. Qed.

(* ------------------------------------------------------------------ the variant that keeps the view's read lock *)
(* s.RLock(); defer s.RUnlock() around the iteration (compile_held): goroutine 0 iterates view 0 with a consumer
   that reads through the same view; goroutine 1 calls Set on that view while the consumer is inside its first
   invocation. The writer announces itself and waits for the read lock to be released; the consumer's nested
   RLock waits behind the announced writer; nobody can take a step any more and neither call ever returns. *)
Definition held_v0 := mkV 0 [] false.
Definition held_scripts : list (list call) :=
  [[CSet held_v0 [97%N] [1%N]; CIterRe held_v0 [] true false 9 [[CGet held_v0 [97%N]]]];
   [CSet held_v0 [98%N] [2%N]]].
(* goroutine 0: Set (8 steps), Iterate up to the nested invocation (8 steps); goroutine 1: invoke, closed test,
   announce; goroutine 0: closed test of the nested Get - and then nothing *)
Definition held_sch : list nat := repeat 0 8 ++ repeat 0 8 ++ [1; 1; 1] ++ [0; 0].
Definition held_state : state := Eval vm_compute in run_with compile_held held_sch (init held_scripts).

Lemma held_state_eq : run_with compile_held held_sch (init held_scripts) = held_state.
Proof. vm_compute. reflexivity. Qed.

Example held_state_heads :
  map (fun th => (match cur th with Some (i :: _) => Some i | _ => None end, hv th, ww th)) (threads held_state) =
    [(Some (IAcq (LView 0) false), Some (0, false), false); (Some (IAcq (LView 0) true), None, true)].
Proof. vm_compute. reflexivity. Qed.

Theorem rlock_across_callbacks_deadlocks :
  exists scripts sch,
    let s := run_with compile_held sch (init scripts) in
    (exists th, In th (threads s) /\ finished th = false) /\ (forall t, step_with compile_held s t = None).
Proof.
  exists held_scripts, held_sch. cbv zeta. rewrite held_state_eq. split.
  - eexists. split; [left; reflexivity | reflexivity].
  - intros [|[|t]]; [vm_compute; reflexivity | vm_compute; reflexivity |].
    unfold step_with.
    replace (nth_error (threads held_state) (S (S t))) with (@None thread); [reflexivity|].
    symmetry. apply nth_error_None. simpl. lia.
Qed.

(* the code itself (compile: no lock across the callbacks) finishes the same scripts when the same schedule is continued *)
Example held_scripts_fine_in_the_code :
  map finished (threads (run (held_sch ++ repeat 1 8 ++ repeat 0 20) (init held_scripts))) = [true; true].
Proof. vm_compute. reflexivity. Qed.
