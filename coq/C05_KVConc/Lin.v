(* C05 - generic facts about histories: ordered pairs, replay, and SOUNDNESS of the executable checker:
   lin_check h = true -> linearizable h. *)
From Coq Require Import NArith List Bool Arith Lia Permutation.
From Verif.C05_KVConc Require Import Model.
Import ListNotations.

(* ------------------------------------------------------------------ equality tests are equality *)
Lemma bytes_eqb_eq a b : bytes_eqb a b = true <-> a = b.
Proof.
  revert b; induction a as [|x a IH]; destruct b as [|y b]; simpl; split; intros H;
    try reflexivity; try discriminate.
  - apply andb_true_iff in H as [H1 H2]. apply N.eqb_eq in H1. apply IH in H2. subst; reflexivity.
  - inversion H; subst. apply andb_true_iff; split; [apply N.eqb_refl | apply IH; reflexivity].
Qed.

Lemma kvl_eqb_eq a b : kvl_eqb a b = true <-> a = b.
Proof.
  revert b; induction a as [|[k v] a IH]; destruct b as [|[k' v'] b]; simpl; split; intros H;
    try reflexivity; try discriminate.
  - apply andb_true_iff in H as [H1 H3]. apply andb_true_iff in H1 as [H1 H2].
    apply bytes_eqb_eq in H1. apply bytes_eqb_eq in H2. apply IH in H3. subst; reflexivity.
  - inversion H; subst. rewrite !andb_true_iff. repeat split; try (apply bytes_eqb_eq; reflexivity).
    apply IH; reflexivity.
Qed.

Lemma ret_eqb_eq a b : ret_eqb a b = true <-> a = b.
Proof.
  destruct a, b; simpl; split; intros H; try reflexivity; try discriminate.
  - apply bytes_eqb_eq in H; subst; reflexivity.
  - inversion H; subst. apply bytes_eqb_eq; reflexivity.
  - apply eqb_prop in H; subst; reflexivity.
  - inversion H; subst. apply eqb_reflx.
  - apply kvl_eqb_eq in H; subst; reflexivity.
  - inversion H; subst. apply kvl_eqb_eq; reflexivity.
Qed.

Lemma ret_eqb_refl r : ret_eqb r r = true.
Proof. apply ret_eqb_eq; reflexivity. Qed.

(* ------------------------------------------------------------------ legal sequential histories, propositionally *)
Fixpoint legal (s : sstate) (l : list orec) : Prop :=
  match l with
  | [] => True
  | o :: l' => snd (spec_step s (o_op o)) = o_ret o /\ legal (fst (spec_step s (o_op o))) l'
  end.

Lemma replay_legal s l : replay s l <> None <-> legal s l.
Proof.
  revert s; induction l as [|o l IH]; intros s; simpl.
  - split; [trivial | discriminate].
  - destruct (spec_step s (o_op o)) as [s' r] eqn:E; simpl.
    destruct (ret_eqb r (o_ret o)) eqn:Er.
    + apply ret_eqb_eq in Er. rewrite IH. tauto.
    + split; [congruence|]. intros [H _]. apply ret_eqb_eq in H. congruence.
Qed.

Lemma replay_app s l1 l2 :
  replay s (l1 ++ l2) = match replay s l1 with Some s1 => replay s1 l2 | None => None end.
Proof.
  revert s; induction l1 as [|o l1 IH]; intros s; simpl; auto.
  destruct (spec_step s (o_op o)) as [s' r]. destruct (ret_eqb r (o_ret o)); auto.
Qed.

Lemma replay_map (f : orec -> orec) s l :
  (forall r, o_op (f r) = o_op r /\ o_ret (f r) = o_ret r) -> replay s (map f l) = replay s l.
Proof.
  intros Hf. revert s; induction l as [|o l IH]; intros s; simpl; auto.
  destruct (Hf o) as [-> ->]. destruct (spec_step s (o_op o)) as [s' r].
  destruct (ret_eqb r (o_ret o)); auto.
Qed.

(* ------------------------------------------------------------------ ordered pairs *)
Lemma ordpairs_app {A} (R : A -> A -> Prop) l1 l2 :
  ordpairs R (l1 ++ l2) <->
  ordpairs R l1 /\ ordpairs R l2 /\ (forall a b, In a l1 -> In b l2 -> R a b).
Proof.
  induction l1 as [|x l1 IH]; simpl.
  - intuition.
  - rewrite Forall_app, IH, !Forall_forall. split.
    + intros [[H1 H2] [H3 [H4 H5]]]. repeat split; auto. intros a b [<-|Ha] Hb; auto.
    + intros [[H1 H2] [H3 H4]]. repeat split; auto.
Qed.

Lemma ordpairs_filter {A} (R : A -> A -> Prop) (p : A -> bool) l :
  ordpairs R l -> ordpairs R (filter p l).
Proof.
  induction l as [|x l IH]; simpl; auto. intros [H1 H2].
  destruct (p x); simpl; auto. split; auto.
  rewrite Forall_forall in *. intros y Hy. apply filter_In in Hy as [Hy _]. auto.
Qed.

Lemma ordpairs_map {A} (R R' : A -> A -> Prop) (f : A -> A) l :
  ordpairs R l -> (forall a b, In a l -> In b l -> R a b -> R' (f a) (f b)) -> ordpairs R' (map f l).
Proof.
  induction l as [|x l IH]; simpl; auto. intros [H1 H2] H. split.
  - rewrite Forall_forall in *. intros y Hy. apply in_map_iff in Hy as [b [<- Hb]]. apply H; auto.
  - apply IH; auto.
Qed.

Lemma filter_split_perm {A} (p : A -> bool) l :
  Permutation (filter (fun x => negb (p x)) l ++ filter p l) l.
Proof.
  induction l as [|x l IH]; simpl; auto.
  destruct (p x); simpl.
  - apply Permutation_sym, Permutation_cons_app, Permutation_sym, IH.
  - apply perm_skip, IH.
Qed.

(* ------------------------------------------------------------------ soundness of the checker *)
Lemma picks_perm {A} (pre l : list A) x rest :
  In (x, rest) (picks pre l) -> Permutation (x :: rest) (rev pre ++ l).
Proof.
  revert pre; induction l as [|y l IH]; intros pre; simpl; [tauto|].
  intros [H|H].
  - inversion H; subst. rewrite rev_append_rev. apply Permutation_middle.
  - apply IH in H. simpl in H. rewrite <- app_assoc in H. exact H.
Qed.

Lemma precedesb_spec a b : precedesb a b = true <-> precedes a b.
Proof.
  unfold precedesb, precedes. destruct (o_res a); [apply Nat.ltb_lt | split; [discriminate | tauto]].
Qed.

Lemma minimal_spec x rest : minimal x rest = true -> Forall (fun y => ~ precedes y x) rest.
Proof.
  unfold minimal. rewrite forallb_forall, Forall_forall. intros H y Hy Hp.
  apply H in Hy. apply precedesb_spec in Hp. rewrite Hp in Hy. discriminate.
Qed.

Lemma try_all_exists {A} (f : A -> bool) l : try_all f l = true -> exists x, In x l /\ f x = true.
Proof.
  induction l as [|x l IH]; simpl; [discriminate|].
  destruct (f x) eqn:E; [exists x; auto|]. intros H. destruct (IH H) as [y [Hy Hf]]. exists y; auto.
Qed.

Lemma read_keeps_state s o : is_read o = true -> fst (spec_step s o) = s.
Proof.
  destruct s as [m c]; destruct o; simpl; try discriminate; intros _; destruct c; reflexivity.
Qed.

Lemma fits_spec s x rest :
  fits s x rest = true ->
  Forall (fun y => ~ precedes y x) rest /\ ret_eqb (snd (spec_step s (o_op x))) (o_ret x) = true.
Proof.
  unfold fits. destruct (minimal x rest) eqn:E; [|discriminate].
  intros H; split; [apply minimal_spec; exact E | exact H].
Qed.

Lemma lin_search_sound fuel : forall s h,
  lin_search fuel s h = true ->
  exists l, Permutation l h /\ replay s l <> None /\ rt_ok l.
Proof.
  induction fuel as [|f IH]; intros s h H.
  - destruct h; [|discriminate]. exists []. repeat split; simpl; auto; discriminate.
  - destruct h as [|h0 ht]; [exists []; repeat split; simpl; auto; discriminate|].
    cbn [lin_search] in H.
    assert (Hstep : forall x rest s', In (x, rest) (picks [] (h0 :: ht)) -> fits s x rest = true ->
              s' = fst (spec_step s (o_op x)) -> lin_search f s' rest = true ->
              exists l, Permutation l (h0 :: ht) /\ replay s l <> None /\ rt_ok l).
    { intros x rest s' Hin Hfit -> Hrec.
      apply fits_spec in Hfit as [Hmin Hret].
      destruct (IH _ _ Hrec) as [l' [Hp [Hl Hrt]]].
      exists (x :: l'). split; [|split].
      - apply picks_perm in Hin. simpl in Hin. rewrite <- Hin. apply perm_skip, Hp.
      - simpl. destruct (spec_step s (o_op x)) as [s1 r1]. simpl in *. rewrite Hret. exact Hl.
      - split; [|exact Hrt]. rewrite Forall_forall in *. intros y Hy.
        apply Hmin. eapply Permutation_in; eauto. }
    destruct (find _ (picks [] (h0 :: ht))) as [[x rest]|] eqn:Ef.
    + apply find_some in Ef as [Hin Hc]. simpl in Hc, H.
      destruct (is_read (o_op x)) eqn:Er; [|discriminate].
      apply (Hstep x rest s Hin Hc); [symmetry; apply read_keeps_state; exact Er | exact H].
    + apply try_all_exists in H as [[x rest] [Hin Hc]]. simpl in Hc.
      destruct (fits s x rest) eqn:Efit; [|discriminate].
      apply (Hstep x rest _ Hin Efit eq_refl Hc).
Qed.

Theorem lin_check_sound h : lin_check h = true -> linearizable h.
Proof. unfold lin_check, linearizable. apply lin_search_sound. Qed.
