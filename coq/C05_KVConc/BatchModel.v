(* C05 - a BatchedMutations object SHARED by goroutines and reused after Commit (kvstore/mapdb/mapdb.go
   batchedMutations; kvstore/flushkv/flushkv.go batchedMutations). No proofs in this file.

   The batch is an object of its own, guarded by its own sync.Mutex:
     Set k v : b.Lock(); delete(deleteOperations,k); setOperations[k]=copy(v); b.Unlock()      (never looks at `closed`)
     Delete k: b.Lock(); delete(setOperations,k); deleteOperations[k]={}; b.Unlock()
     Cancel  : b.Lock(); both maps replaced by empty ones; b.Unlock()
     Commit  : closed.Load() (ErrStoreClosed ends the call); b.Lock(); kvStore.Lock(); range over setOperations: set;
               range over deleteOperations: delete; unlock both.  The maps are NOT emptied: a later Commit applies them again.
   Content = one map key -> Some v (in setOperations) | None (in deleteOperations): a key is never in both maps. It is kept as
   a `kvmap` under the encoding Some v = 1 :: v, None = [0], so that the batch object is an instance of the store contract
   `spec_step`: Set/Delete = OSet k (enc x), Cancel = ODelPrefix [], a successful Commit = OIter [] over the whole content,
   returning it. `Model.batch_net` of the accepted writes is exactly this map (last operation per key).
   The store part of a Commit that read the content ws is the program `compile (CCommit w ws)` of Model.v (view lock, then
   per write map lock - effect - unlock), executed while the batch's mutex is held: lock order batch -> view -> map; Set/
   Delete/Cancel take only the batch's mutex. That part touches no batch state and is not repeated here.
   flushkv's batch holds ONE underlying batch for its whole life (field `batched`, written once in Batched()): its Set/
   Delete/Cancel/Commit are those of the underlying batch (+ Flush after Commit, a store operation).  `wstep` below is NOT
   the code: the variant in which the wrapper's Commit replaces the underlying batch by a fresh one after committing. *)
From Coq Require Import NArith List Bool Arith.
From Verif.C05_KVConc Require Import Model.
Import ListNotations.

Inductive bcall :=
| BSet (k v : bytes)
| BDel (k : bytes)
| BCancel
| BCommit
| BCloseStore.     (* somebody closes the store: closed.Swap(true) *)

Definition encv (x : option bytes) : bytes := match x with Some v => 1%N :: v | None => [0%N] end.

Inductive binstr :=
| BICheck                               (* Commit: closed.Load() *)
| BIAcq                                 (* b.Lock() *)
| BIRel
| BIPut (k : bytes) (x : option bytes)  (* body of Set / Delete *)
| BIClear                               (* body of Cancel *)
| BISnap                                (* Commit ranges over both maps *)
| BIClose.

Definition bprog (c : bcall) : list binstr :=
  match c with
  | BSet k v => [BIAcq; BIPut k (Some v); BIRel]
  | BDel k => [BIAcq; BIPut k None; BIRel]
  | BCancel => [BIAcq; BIClear; BIRel]
  | BCommit => [BICheck; BIAcq; BISnap; BIRel]
  | BCloseStore => [BIClose]
  end.

Record bthread := mkBT {
  bscript : list bcall;
  bcur : option (list binstr);
  bidx : nat;          (* id of the call in flight *)
  binv : nat;          (* its invocation stamp *)
  bholds : bool;       (* holds the batch's mutex *)
  bnid : nat
}.

Record bstate := mkBS {
  bmem : kvmap;          (* content of the batch (encoded) *)
  bclosed : bool;        (* the store's closed flag *)
  bthreads : list bthread;
  bclock : nat;
  brecs : list orec      (* operations on the batch object, in the order of their effects *)
}.

Definition bnew (sc : list bcall) : bthread := mkBT sc None 0 0 false 0.
Definition binit (scripts : list (list bcall)) : bstate := mkBS [] false (map bnew scripts) 0 [].

Definition bfree (ths : list bthread) : bool := forallb (fun th => negb (bholds th)) ths.

Definition snap_op (m : kvmap) : sop := OIter [] 0 true false (length m).

Definition bstep (s : bstate) (t : nat) : option bstate :=
  match nth_error (bthreads s) t with
  | None => None
  | Some th =>
    let cid := (t, bidx th) in
    let put th' := upd (bthreads s) t th' in
    let emit o r := mkO cid (binv th) None o r in
    match bcur th with
    | None =>
        match bscript th with
        | [] => None
        | c :: sc => Some (mkBS (bmem s) (bclosed s) (put (mkBT sc (Some (bprog c)) (bnid th) (bclock s) (bholds th) (S (bnid th))))
                                (S (bclock s)) (brecs s))
        end
    | Some [] =>
        Some (mkBS (bmem s) (bclosed s) (put (mkBT (bscript th) None (bidx th) (binv th) (bholds th) (bnid th)))
                   (S (bclock s)) (respond cid (bclock s) (brecs s)))
    | Some (i :: p) =>
        let th_p := mkBT (bscript th) (Some p) (bidx th) (binv th) (bholds th) (bnid th) in
        match i with
        | BICheck =>
            if bclosed s
            then Some (mkBS (bmem s) (bclosed s) (put (mkBT (bscript th) (Some []) (bidx th) (binv th) (bholds th) (bnid th)))
                            (S (bclock s)) (brecs s))
            else Some (mkBS (bmem s) (bclosed s) (put th_p) (S (bclock s)) (brecs s))
        | BIAcq =>
            if bfree (bthreads s)
            then Some (mkBS (bmem s) (bclosed s) (put (mkBT (bscript th) (Some p) (bidx th) (binv th) true (bnid th)))
                            (S (bclock s)) (brecs s))
            else None
        | BIRel =>
            Some (mkBS (bmem s) (bclosed s) (put (mkBT (bscript th) (Some p) (bidx th) (binv th) false (bnid th)))
                       (S (bclock s)) (brecs s))
        | BIPut k x =>
            Some (mkBS (insert k (encv x) (bmem s)) (bclosed s) (put th_p) (S (bclock s))
                       (brecs s ++ [emit (OSet k (encv x)) ROk]))
        | BIClear =>
            Some (mkBS [] (bclosed s) (put th_p) (S (bclock s)) (brecs s ++ [emit (ODelPrefix []) ROk]))
        | BISnap =>
            Some (mkBS (bmem s) (bclosed s) (put th_p) (S (bclock s))
                       (brecs s ++ [emit (snap_op (bmem s)) (snd (eff (bmem s) (snap_op (bmem s))))]))
        | BIClose =>
            Some (mkBS (bmem s) true (put th_p) (S (bclock s)) (brecs s))
        end
    end
  end.

Definition bstep' (s : bstate) (t : nat) : bstate := match bstep s t with Some s' => s' | None => s end.
Definition brun (sch : list nat) (s : bstate) : bstate := fold_left bstep' sch s.

(* the operation touches key k of the content *)
Definition touches (k : bytes) (o : sop) : bool :=
  match o with
  | OSet k' _ => bytes_eqb k k'
  | ODelPrefix _ => true
  | _ => false
  end.

(* the content as the list of writes a Commit applies (what mapdb's Commit ranges over) *)
Definition content_writes (m : kvmap) : list (bytes * option bytes) :=
  map (fun kv => (fst kv, match snd kv with 1%N :: v => Some v | _ => None end)) m.

(* ------------------------------------------------------------------ NOT the code: the swapping wrapper *)
(* flushkv batch whose Commit, after committing the underlying batch, replaces it by a fresh one (field write not
   synchronised with Set/Delete, which load the field and then call into the - internally locked - underlying batch).
   Underlying batches are numbered; each has its own mutex and content. *)
Inductive winstr :=
| WLoad                                 (* read field b.batched *)
| WCheck
| WAcq | WRel
| WPut (k : bytes) (x : option bytes)
| WSnap
| WSwap.                                (* b.batched = b.store.Batched() *)

Definition wprog (c : bcall) : list winstr :=
  match c with
  | BSet k v => [WLoad; WAcq; WPut k (Some v); WRel]
  | BDel k => [WLoad; WAcq; WPut k None; WRel]
  | BCommit => [WLoad; WCheck; WAcq; WSnap; WRel; WSwap]
  | _ => []
  end.

Record wthread := mkWT { wscript : list bcall; wcur : option (list winstr); widx : nat; winv : nat;
                         wreg : nat; wholds : bool; wnid : nat }.
Record wstate := mkWS { wmems : list kvmap; wfield : nat; wthreads : list wthread; wclock : nat; wrecs : list orec }.

Definition winit (scripts : list (list bcall)) : wstate :=
  mkWS [[]] 0 (map (fun sc => mkWT sc None 0 0 0 false 0) scripts) 0 [].

Definition wfree (ths : list wthread) (b : nat) : bool :=
  forallb (fun th => negb (wholds th && Nat.eqb (wreg th) b)) ths.

Definition wstep (s : wstate) (t : nat) : option wstate :=
  match nth_error (wthreads s) t with
  | None => None
  | Some th =>
    let cid := (t, widx th) in
    let put th' := upd (wthreads s) t th' in
    let emit o r := mkO cid (winv th) None o r in
    let m := nth (wreg th) (wmems s) [] in
    match wcur th with
    | None =>
        match wscript th with
        | [] => None
        | c :: sc => Some (mkWS (wmems s) (wfield s) (put (mkWT sc (Some (wprog c)) (wnid th) (wclock s) (wreg th) false (S (wnid th))))
                                (S (wclock s)) (wrecs s))
        end
    | Some [] =>
        Some (mkWS (wmems s) (wfield s) (put (mkWT (wscript th) None (widx th) (winv th) (wreg th) false (wnid th)))
                   (S (wclock s)) (respond cid (wclock s) (wrecs s)))
    | Some (i :: p) =>
        let th_p := mkWT (wscript th) (Some p) (widx th) (winv th) (wreg th) (wholds th) (wnid th) in
        match i with
        | WLoad => Some (mkWS (wmems s) (wfield s) (put (mkWT (wscript th) (Some p) (widx th) (winv th) (wfield s) false (wnid th)))
                              (S (wclock s)) (wrecs s))
        | WCheck => Some (mkWS (wmems s) (wfield s) (put th_p) (S (wclock s)) (wrecs s))
        | WAcq =>
            if wfree (wthreads s) (wreg th)
            then Some (mkWS (wmems s) (wfield s) (put (mkWT (wscript th) (Some p) (widx th) (winv th) (wreg th) true (wnid th)))
                            (S (wclock s)) (wrecs s))
            else None
        | WRel => Some (mkWS (wmems s) (wfield s) (put (mkWT (wscript th) (Some p) (widx th) (winv th) (wreg th) false (wnid th)))
                             (S (wclock s)) (wrecs s))
        | WPut k x =>
            Some (mkWS (upd (wmems s) (wreg th) (insert k (encv x) m)) (wfield s) (put th_p) (S (wclock s))
                       (wrecs s ++ [emit (OSet k (encv x)) ROk]))
        | WSnap =>
            Some (mkWS (wmems s) (wfield s) (put th_p) (S (wclock s))
                       (wrecs s ++ [emit (snap_op m) (snd (eff m (snap_op m)))]))
        | WSwap =>
            Some (mkWS (wmems s ++ [[]]) (length (wmems s)) (put th_p) (S (wclock s)) (wrecs s))
        end
    end
  end.

Definition wrun (sch : list nat) (s : wstate) : wstate :=
  fold_left (fun s t => match wstep s t with Some s' => s' | None => s end) sch s.
