(* C05 - proofs about the shared batch object of BatchModel.v:
   batch_linearizable        : for all scripts and schedules the history of the batch object is linearizable (store encoding);
   accepted_write_not_lost   : a write that returned before a Commit was invoked is in the content that Commit applies;
   swapping_wrapper_loses    : in the variant whose Commit replaces the underlying batch, it is not. *)
From Coq Require Import NArith List Bool Arith Lia Permutation.
From Verif.C05_KVConc Require Import Model Lin BatchModel.
Import ListNotations.

(* ------------------------------------------------------------------ small facts *)
Definition bfill (cid : nat * nat) (now : nat) (r : orec) : orec :=
  if cid_eqb (o_call r) cid then mkO (o_call r) (o_inv r) (Some now) (o_op r) (o_ret r) else r.

Lemma respond_bfill cid now l : respond cid now l = map (bfill cid now) l.
Proof. reflexivity. Qed.

Lemma bfill_facts cid now r :
  o_inv (bfill cid now r) = o_inv r /\ o_op (bfill cid now r) = o_op r /\ o_ret (bfill cid now r) = o_ret r /\
  (forall x, o_res (bfill cid now r) = Some x -> x = now \/ o_res r = Some x).
Proof.
  unfold bfill; destruct (cid_eqb _ _); simpl; repeat split; auto.
  intros x H; inversion H; auto.
Qed.

Lemma Forall_upd {A} (P : A -> Prop) l i x : Forall P l -> P x -> Forall P (upd l i x).
Proof.
  revert i; induction l as [|a l IH]; intros i Hl Hx; simpl; auto.
  inversion Hl; subst. destruct i; constructor; auto.
Qed.

Lemma bytes_eqb_refl k : bytes_eqb k k = true.
Proof. apply bytes_eqb_eq; reflexivity. Qed.

Lemma lookup_insert_eq k v m : lookup k (insert k v m) = Some v.
Proof.
  induction m as [|[k' v'] m IH]; simpl.
  - rewrite bytes_eqb_refl; reflexivity.
  - destruct (bytes_eqb k k') eqn:E; simpl.
    + rewrite bytes_eqb_refl; reflexivity.
    + destruct (lex_ltb k k'); simpl.
      * rewrite bytes_eqb_refl; reflexivity.
      * rewrite E; exact IH.
Qed.

Lemma lookup_insert_neq k k' v m : bytes_eqb k k' = false -> lookup k (insert k' v m) = lookup k m.
Proof.
  intros H. induction m as [|[k2 v2] m IH]; simpl.
  - rewrite H; reflexivity.
  - destruct (bytes_eqb k' k2) eqn:E; simpl.
    + apply bytes_eqb_eq in E; subst k2. rewrite H; reflexivity.
    + destruct (lex_ltb k' k2); simpl.
      * rewrite H; reflexivity.
      * destruct (bytes_eqb k k2); auto.
Qed.

Lemma filter_all {A} (f : A -> bool) l : (forall x, f x = true) -> filter f l = l.
Proof. intros H; induction l as [|a l IH]; simpl; auto. rewrite H, IH; reflexivity. Qed.

Lemma filter_none {A} (f : A -> bool) l : (forall x, f x = false) -> filter f l = [].
Proof. intros H; induction l as [|a l IH]; simpl; auto. rewrite H; exact IH. Qed.

Lemma lookup_In k v m : lookup k m = Some v -> In (k, v) m.
Proof.
  induction m as [|[k' v'] m IH]; simpl; [discriminate|].
  destruct (bytes_eqb k k') eqn:E.
  - intros H; inversion H; subst. apply bytes_eqb_eq in E; subst; auto.
  - auto.
Qed.

Lemma snapshot_full m : snapshot m [] 0 true false (length m) = m.
Proof.
  unfold snapshot. rewrite filter_all by reflexivity.
  rewrite firstn_all2 by (rewrite map_length; auto).
  induction m as [|[k v] m IH]; simpl; auto. f_equal; exact IH.
Qed.

Lemma clear_all (m : kvmap) : filter (fun kv => negb (is_prefix [] (fst kv))) m = [].
Proof. apply filter_none; reflexivity. Qed.

(* ------------------------------------------------------------------ the invariant *)
Record BInv (s : bstate) : Prop := {
  bi_replay : replay sinit (brecs s) = Some (mkS (bmem s) false);
  bi_rt : rt_ok (brecs s);
  bi_inv : Forall (fun r => o_inv r < bclock s) (brecs s);
  bi_thr : Forall (fun th => bcur th <> None -> binv th < bclock s) (bthreads s)
}.

Lemma thr_weaken n ths :
  Forall (fun th => bcur th <> None -> binv th < n) ths ->
  Forall (fun th => bcur th <> None -> binv th < S n) ths.
Proof. intros H; eapply Forall_impl; [|exact H]. simpl; intros th Hth Hc; specialize (Hth Hc); lia. Qed.

Lemma inv_weaken n (l : list orec) : Forall (fun r => o_inv r < n) l -> Forall (fun r => o_inv r < S n) l.
Proof. intros H; eapply Forall_impl; [|exact H]. simpl; intros; lia. Qed.

(* appending the record of an effect *)
Lemma emit_ok l m n cid iv o r m' :
  replay sinit l = Some (mkS m false) -> rt_ok l -> Forall (fun r => o_inv r < n) l -> iv < n ->
  spec_step (mkS m false) o = (mkS m' false, r) ->
  replay sinit (l ++ [mkO cid iv None o r]) = Some (mkS m' false) /\
  rt_ok (l ++ [mkO cid iv None o r]) /\
  Forall (fun r => o_inv r < S n) (l ++ [mkO cid iv None o r]).
Proof.
  intros Hr Hrt Hi Hiv Hs. split; [|split].
  - rewrite replay_app, Hr. simpl. rewrite Hs, ret_eqb_refl. reflexivity.
  - unfold rt_ok. apply ordpairs_app. split; [exact Hrt|]. split; [simpl; auto|].
    intros a b _ [<-|[]]. unfold precedes; simpl. tauto.
  - apply Forall_app; split; [apply inv_weaken; exact Hi|]. constructor; simpl; auto.
Qed.

Lemma respond_ok l n cid st :
  replay sinit l = Some st -> rt_ok l -> Forall (fun r => o_inv r < n) l ->
  replay sinit (respond cid n l) = Some st /\ rt_ok (respond cid n l) /\
  Forall (fun r => o_inv r < S n) (respond cid n l).
Proof.
  intros Hr Hrt Hi. rewrite respond_bfill. split; [|split].
  - rewrite replay_map; [exact Hr|]. intros r. destruct (bfill_facts cid n r) as [_ [H1 [H2 _]]]; auto.
  - unfold rt_ok. eapply ordpairs_map; [exact Hrt|]. intros a b Ha _ Hab Hp.
    unfold precedes in Hp. destruct (o_res (bfill cid n b)) as [x|] eqn:E; [|exact Hp].
    destruct (bfill_facts cid n a) as [Hia _]. rewrite Hia in Hp.
    destruct (bfill_facts cid n b) as [_ [_ [_ Hres]]]. destruct (Hres x E) as [->|Hold].
    + rewrite Forall_forall in Hi. specialize (Hi a Ha). lia.
    + apply Hab. unfold precedes. rewrite Hold. exact Hp.
  - rewrite Forall_forall in *. intros r Hr'. apply in_map_iff in Hr' as [r0 [<- Hr0]].
    destruct (bfill_facts cid n r0) as [-> _]. specialize (Hi r0 Hr0). lia.
Qed.

Lemma binv_step s t s' : BInv s -> bstep s t = Some s' -> BInv s'.
Proof.
  intros [Hr Hrt Hi Ht] Hs. unfold bstep in Hs.
  destruct (nth_error (bthreads s) t) as [th|] eqn:Eth; [|discriminate].
  assert (Hin : In th (bthreads s)) by (eapply nth_error_In; eauto).
  assert (Hth : bcur th <> None -> binv th < bclock s) by (rewrite Forall_forall in Ht; auto).
  destruct (bcur th) as [[|i p]|] eqn:Ec.
  - (* response *)
    inversion Hs; subst s'; clear Hs.
    destruct (respond_ok _ _ (t, bidx th) _ Hr Hrt Hi) as [A [B C]].
    constructor; simpl; auto.
    apply Forall_upd; [apply thr_weaken; exact Ht|]. simpl; congruence.
  - assert (Hiv : binv th < bclock s) by (apply Hth; congruence).
    assert (Hupd : forall p' h, Forall (fun th0 => bcur th0 <> None -> binv th0 < S (bclock s))
                     (upd (bthreads s) t (mkBT (bscript th) p' (bidx th) (binv th) h (bnid th)))).
    { intros p' h. apply Forall_upd; [apply thr_weaken; exact Ht|]. simpl; intros _; lia. }
    destruct i.
    + (* BICheck *) destruct (bclosed s); inversion Hs; subst s'; constructor; simpl; auto using inv_weaken.
    + (* BIAcq *) destruct (bfree (bthreads s)); inversion Hs; subst s'; constructor; simpl; auto using inv_weaken.
    + (* BIRel *) inversion Hs; subst s'; constructor; simpl; auto using inv_weaken.
    + (* BIPut *) inversion Hs; subst s'; clear Hs.
      destruct (emit_ok _ _ _ (t, bidx th) _ (OSet k (encv x)) ROk (insert k (encv x) (bmem s)) Hr Hrt Hi Hiv eq_refl) as [A [B C]].
      constructor; simpl; auto.
    + (* BIClear *) inversion Hs; subst s'; clear Hs.
      assert (E : spec_step (mkS (bmem s) false) (ODelPrefix []) = (mkS [] false, ROk)).
      { unfold spec_step; simpl. rewrite clear_all. reflexivity. }
      destruct (emit_ok _ _ _ (t, bidx th) _ _ _ _ Hr Hrt Hi Hiv E) as [A [B C]].
      constructor; simpl; auto.
    + (* BISnap *) inversion Hs; subst s'; clear Hs.
      assert (E : spec_step (mkS (bmem s) false) (snap_op (bmem s)) =
                  (mkS (bmem s) false, snd (eff (bmem s) (snap_op (bmem s))))) by reflexivity.
      destruct (emit_ok _ _ _ (t, bidx th) _ _ _ _ Hr Hrt Hi Hiv E) as [A [B C]].
      constructor; simpl; auto.
    + (* BIClose *) inversion Hs; subst s'; constructor; simpl; auto using inv_weaken.
  - (* invocation *)
    destruct (bscript th) as [|c sc]; [discriminate|]. inversion Hs; subst s'; clear Hs.
    constructor; simpl; auto using inv_weaken.
    apply Forall_upd; [apply thr_weaken; exact Ht|]. simpl; intros _; lia.
Qed.

Lemma binv_init scripts : BInv (binit scripts).
Proof.
  constructor; simpl; auto.
  - unfold rt_ok; simpl; auto.
  - rewrite Forall_forall. intros th H. apply in_map_iff in H as [sc [<- _]]. simpl. congruence.
Qed.

Lemma binv_run sch : forall s, BInv s -> BInv (brun sch s).
Proof.
  induction sch as [|t sch IH]; intros s H; simpl; auto.
  apply IH. unfold bstep'. destruct (bstep s t) eqn:E; auto. eapply binv_step; eauto.
Qed.

Theorem batch_linearizable scripts sch : linearizable (brecs (brun sch (binit scripts))).
Proof.
  destruct (binv_run sch _ (binv_init scripts)) as [Hr Hrt _ _].
  exists (brecs (brun sch (binit scripts))). split; [apply Permutation_refl|]. split; [congruence | exact Hrt].
Qed.

(* ------------------------------------------------------------------ no accepted write is lost *)
Definition ops_of (l : list orec) : list (sop * ret) := map (fun r => (o_op r, o_ret r)) l.

Definition notouch (k : bytes) (q : sop * ret) : Prop := touches k (fst q) = false.

(* the content holds the last accepted write of every key not touched since *)
Definition kept (m : kvmap) (ops : list (sop * ret)) : Prop :=
  forall a k v r b, ops = a ++ (OSet k v, r) :: b -> Forall (notouch k) b -> lookup k m = Some v.

(* every Commit saw the writes accepted before it and not touched in between *)
Definition seen (ops : list (sop * ret)) : Prop :=
  forall a k v r b n l c, ops = a ++ (OSet k v, r) :: b ++ (OIter [] 0 true false n, RList l) :: c ->
    Forall (notouch k) b -> In (k, v) l.

Lemma snoc_split {A} (l : list A) x a p b :
  l ++ [x] = a ++ p :: b -> (b = [] /\ a = l /\ p = x) \/ (exists b0, b = b0 ++ [x] /\ l = a ++ p :: b0).
Proof.
  intros H. induction b as [|y b _] using rev_ind.
  - left. apply app_inj_tail in H as [-> ->]. auto.
  - right. exists b.
    change (a ++ p :: b ++ [y]) with (a ++ (p :: b) ++ [y]) in H. rewrite app_assoc in H.
    apply app_inj_tail in H as [-> ->]. auto.
Qed.

Lemma ops_of_respond cid n l : ops_of (respond cid n l) = ops_of l.
Proof.
  rewrite respond_bfill. unfold ops_of. rewrite map_map. apply map_ext. intros r.
  destruct (bfill_facts cid n r) as [_ [-> [-> _]]]. reflexivity.
Qed.

Lemma ops_of_snoc l r : ops_of (l ++ [r]) = ops_of l ++ [(o_op r, o_ret r)].
Proof. unfold ops_of. rewrite map_app. reflexivity. Qed.

Lemma kept_seen_step s t s' :
  kept (bmem s) (ops_of (brecs s)) /\ seen (ops_of (brecs s)) -> bstep s t = Some s' ->
  kept (bmem s') (ops_of (brecs s')) /\ seen (ops_of (brecs s')).
Proof.
  intros [HK HS] Hs. unfold bstep in Hs.
  destruct (nth_error (bthreads s) t) as [th|]; [|discriminate].
  destruct (bcur th) as [[|i p]|].
  - inversion Hs; subst s'; simpl. rewrite ops_of_respond. auto.
  - destruct i.
    + destruct (bclosed s); inversion Hs; subst s'; simpl; auto.
    + destruct (bfree (bthreads s)); inversion Hs; subst s'; simpl; auto.
    + inversion Hs; subst s'; simpl; auto.
    + (* put *) inversion Hs; subst s'; simpl. rewrite ops_of_snoc; simpl. split.
      * intros a k0 v r b E Hb. apply snoc_split in E as [[-> [-> Hp]]|[b0 [-> E]]].
        -- inversion Hp; subst. apply lookup_insert_eq.
        -- apply Forall_app in Hb as [Hb0 Hx]. inversion Hx as [|? ? Hx1 _]; subst.
           unfold notouch in Hx1; simpl in Hx1. rewrite lookup_insert_neq by exact Hx1.
           eapply HK; eauto.
      * intros a k0 v r b n l c E Hb.
        change (a ++ (OSet k0 v, r) :: b ++ (OIter [] 0 true false n, RList l) :: c)
          with (a ++ ((OSet k0 v, r) :: b) ++ (OIter [] 0 true false n, RList l) :: c) in E.
        rewrite app_assoc in E. apply snoc_split in E as [[_ [_ Hp]]|[c0 [-> E]]]; [discriminate|].
        rewrite <- app_assoc in E. eapply HS; eauto.
    + (* clear *) inversion Hs; subst s'; simpl. rewrite ops_of_snoc; simpl. split.
      * intros a k0 v r b E Hb. apply snoc_split in E as [[_ [_ Hp]]|[b0 [-> E]]]; [discriminate|].
        apply Forall_app in Hb as [_ Hx]. inversion Hx as [|? ? Hx1 _]; subst. discriminate.
      * intros a k0 v r b n l c E Hb.
        change (a ++ (OSet k0 v, r) :: b ++ (OIter [] 0 true false n, RList l) :: c)
          with (a ++ ((OSet k0 v, r) :: b) ++ (OIter [] 0 true false n, RList l) :: c) in E.
        rewrite app_assoc in E. apply snoc_split in E as [[_ [_ Hp]]|[c0 [-> E]]]; [discriminate|].
        rewrite <- app_assoc in E. eapply HS; eauto.
    + (* snap *) inversion Hs; subst s'; simpl. rewrite ops_of_snoc; simpl. split.
      * intros a k0 v r b E Hb. apply snoc_split in E as [[_ [_ Hp]]|[b0 [-> E]]]; [discriminate|].
        apply Forall_app in Hb as [Hb0 _]. eapply HK; eauto.
      * intros a k0 v r b n l c E Hb.
        change (a ++ (OSet k0 v, r) :: b ++ (OIter [] 0 true false n, RList l) :: c)
          with (a ++ ((OSet k0 v, r) :: b) ++ (OIter [] 0 true false n, RList l) :: c) in E.
        rewrite app_assoc in E. apply snoc_split in E as [[_ [E1 Hp]]|[c0 [-> E]]].
        -- inversion Hp; subst. rewrite snapshot_full. apply lookup_In. eapply HK; eauto.
        -- rewrite <- app_assoc in E. eapply HS; eauto.
    + inversion Hs; subst s'; simpl; auto.
  - destruct (bscript th); [discriminate|]. inversion Hs; subst s'; simpl; auto.
Qed.

Lemma kept_seen_run sch : forall s,
  kept (bmem s) (ops_of (brecs s)) /\ seen (ops_of (brecs s)) ->
  kept (bmem (brun sch s)) (ops_of (brecs (brun sch s))) /\ seen (ops_of (brecs (brun sch s))).
Proof.
  induction sch as [|t sch IH]; intros s H; simpl; auto.
  apply IH. unfold bstep'. destruct (bstep s t) eqn:E; auto. eapply kept_seen_step; eauto.
Qed.

Lemma filter_nil_Forall {A} (f : A -> bool) l : filter f l = [] -> Forall (fun x => f x = false) l.
Proof.
  induction l as [|a l IH]; simpl; auto. destruct (f a) eqn:E; [discriminate|]. intros H; constructor; auto.
Qed.

Theorem accepted_write_not_lost scripts sch :
  let h := brecs (brun sch (binit scripts)) in
  forall p c k v n l,
    In p h -> In c h ->
    o_op p = OSet k v ->                                        (* a Set/Delete the batch accepted (v = encv x) *)
    o_op c = OIter [] 0 true false n -> o_ret c = RList l ->    (* a Commit that got to the batch; l = the content it applies *)
    precedes p c ->                                             (* the write had returned before the Commit was invoked *)
    length (filter (fun q => touches k (o_op q)) h) = 1 ->      (* nothing else touched the key, no Cancel *)
    In (k, v) l.
Proof.
  intros h p c k v n l Hp Hc Eop Ecop Ecret Hprec Hone.
  destruct (binv_run sch _ (binv_init scripts)) as [_ Hrt _ _]. fold h in Hrt.
  assert (HKS : kept (bmem (brun sch (binit scripts))) (ops_of h) /\ seen (ops_of h)).
  { apply kept_seen_run. simpl. split.
    - intros a k0 v0 r b E. destruct a; discriminate.
    - intros a k0 v0 r b n0 l0 c0 E. destruct a; discriminate. }
  destruct HKS as [_ HS].
  apply in_split in Hc as [h1 [h2 Eh]].
  assert (Hp1 : In p h1).
  { rewrite Eh in Hp. apply in_app_or in Hp as [Hp|[Hp|Hp]]; auto.
    - subst p. rewrite Ecop in Eop. discriminate.
    - exfalso. unfold rt_ok in Hrt. rewrite Eh in Hrt. apply ordpairs_app in Hrt as [_ [Hrt _]].
      simpl in Hrt. destruct Hrt as [Hf _]. rewrite Forall_forall in Hf. exact (Hf p Hp Hprec). }
  apply in_split in Hp1 as [g1 [g2 Eg]]. subst h1.
  assert (Hg2 : Forall (notouch k) (ops_of g2)).
  { rewrite Eh in Hone. rewrite <- app_assoc in Hone. simpl in Hone.
    rewrite filter_app in Hone. simpl in Hone. rewrite Eop in Hone. simpl in Hone. rewrite bytes_eqb_refl in Hone.
    simpl in Hone. rewrite filter_app in Hone. rewrite !app_length in Hone. simpl in Hone.
    assert (E0 : filter (fun q => touches k (o_op q)) g2 = []).
    { destruct (filter (fun q => touches k (o_op q)) g2); auto. simpl in Hone. lia. }
    apply filter_nil_Forall in E0. unfold ops_of. rewrite Forall_map. exact E0. }
  eapply (HS (ops_of g1) k v (o_ret p) (ops_of g2) n l (ops_of h2)); [|exact Hg2].
  rewrite Eh. unfold ops_of. repeat (rewrite map_app; simpl).
  rewrite Eop, Ecop, Ecret. rewrite <- app_assoc. reflexivity.
Qed.

(* ------------------------------------------------------------------ the swapping wrapper loses an accepted write *)
(* goroutine 0: Set "a"; Commit; Commit.  goroutine 1: Set "b", started while the first Commit holds the underlying
   batch's mutex: it has loaded the OLD underlying batch and waits for its mutex; after the Commit released it the write
   lands in the old batch, which the Commit then drops. The second Commit (invoked after that Set returned) reads the
   fresh, empty batch. *)
Definition w_scripts : list (list bcall) := [[BSet [97]%N [1]%N; BCommit; BCommit]; [BSet [98]%N [2]%N]].
Definition w_sch : list nat := [0;0;0;0;0;0; 0;0;0;0;0; 1;1;1; 0; 1;1;1;1; 0;0; 0;0;0;0;0;0;0;0].

(* h contains a write p that returned before the Commit c was invoked, on a key nothing else touched, and c's content lacks it *)
Definition loses_write (h : list orec) : Prop :=
  exists p c k v n l,
    In p h /\ In c h /\ o_op p = OSet k v /\ o_op c = OIter [] 0 true false n /\ o_ret c = RList l /\
    precedes p c /\ length (filter (fun q => touches k (o_op q)) h) = 1 /\ ~ In (k, v) l.

Theorem swapping_wrapper_loses :
  exists scripts sch, loses_write (wrecs (wrun sch (winit scripts))).
Proof.
  exists w_scripts, w_sch. unfold loses_write.
  exists (mkO (1, 0) 11 (Some 17) (OSet [98]%N [1; 2]%N) ROk),
         (mkO (0, 2) 20 (Some 27) (OIter [] 0 true false 0) (RList [])), [98]%N, [1; 2]%N, 0, [].
  split; [vm_compute; auto 10|]. split; [vm_compute; auto 10|].
  repeat (split; [reflexivity|]).
  split; [unfold precedes; simpl; lia|].
  split; [vm_compute; reflexivity|]. intros [].
Qed.

Corollary code_never_loses scripts sch : ~ loses_write (brecs (brun sch (binit scripts))).
Proof.
  intros [p [c [k [v [n [l [H1 [H2 [H3 [H4 [H5 [H6 [H7 H8]]]]]]]]]]]]].
  apply H8. apply (accepted_write_not_lost scripts sch p c k v n l); assumption.
Qed.
