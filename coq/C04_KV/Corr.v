(* Correspondence for C04: a case is an operation history over view/batch handles (an operation may be an
   Iterate/IterateKeys whose consumer calls back into the store: HIterRe) together with what the real mapdb
   (+ flushkv/debug wrappers) returned for every operation - the call's own result followed by the results of
   the calls its consumer made, in the order they returned - and the final debug-callback log. *)
From Coq Require Import NArith List Bool.
From Verif.C04_KV Require Import Model.
Import ListNotations.
Open Scope N_scope.

Record case := mk { c_hist : list hop; c_outs : list (list out); c_log : list logent (* oldest first *); c_nfl : nat }.

Fixpoint list_eqb {A} (eqb : A -> A -> bool) (a b : list A) : bool :=
  match a, b with
  | [], [] => true
  | x :: a', y :: b' => eqb x y && list_eqb eqb a' b'
  | _, _ => false
  end.

Definition kv_eqb (a b : kv) : bool := beqb (fst a) (fst b) && beqb (snd a) (snd b).

Definition out_eqb (a b : out) : bool :=
  match a, b with
  | OOk, OOk | OClosed, OClosed | ONotFound, ONotFound | OPanic, OPanic | OBadHandle, OBadHandle => true
  | OVal x, OVal y => beqb x y
  | OBool x, OBool y => Bool.eqb x y
  | OKVs x, OKVs y => list_eqb kv_eqb x y
  | OKeys x, OKeys y => list_eqb beqb x y
  | ORealm x, ORealm y => beqb x y
  | _, _ => false
  end.

Definition logent_eqb (a b : logent) : bool :=
  let '(i1, c1, p1) := a in let '(i2, c2, p2) := b in (i1 =? i2) && (c1 =? c2) && list_eqb beqb p1 p2.

Definition agree (c : case) : bool :=
  let '(w, outs) := hrun init (c_hist c) in
  list_eqb (list_eqb out_eqb) outs (c_outs c) && list_eqb logent_eqb (rev (log (w_st w))) (c_log c) && Nat.eqb (nfl (w_st w)) (c_nfl c).

Fixpoint mismatches_from (i : nat) (cs : list case) : list nat :=
  match cs with
  | [] => []
  | c :: r => if agree c then mismatches_from (S i) r else i :: mismatches_from (S i) r
  end.

Definition mismatches (cs : list case) : list nat := mismatches_from 0 cs.
