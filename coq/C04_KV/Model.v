(* C04 - executable model of the in-memory KVStore (kvstore/mapdb), its realm views, batches, and the
   flushkv / debug wrappers, plus the executable ordered-map specification it is proved to refine.
   Transcribed from kvstore/mapdb/mapdb.go, synced_map.go, kvstore/utils/utils.go (SortSlice),
   kvstore/flushkv/flushkv.go, kvstore/debug/debug.go (after fix a80bf96).  No proofs here. *)
From Coq Require Import NArith List Bool.
Import ListNotations.
Open Scope N_scope.

(* ---------- byte strings ---------- *)
Definition bytes := list N.

Fixpoint beqb (a b : bytes) : bool :=
  match a, b with
  | [], [] => true
  | x :: a', y :: b' => (x =? y) && beqb a' b'
  | _, _ => false
  end.

(* strings.HasPrefix(k, p) *)
Fixpoint is_prefix (p k : bytes) : bool :=
  match p, k with
  | [], _ => true
  | x :: p', y :: k' => (x =? y) && is_prefix p' k'
  | _ :: _, [] => false
  end.

(* Go string order: a <= b, bytewise lexicographic, a proper prefix is smaller *)
Fixpoint bleb (a b : bytes) : bool :=
  match a, b with
  | [], _ => true
  | _ :: _, [] => false
  | x :: a', y :: b' => if x <? y then true else if y <? x then false else bleb a' b'
  end.
Definition bgeb (a b : bytes) : bool := bleb b a.

(* ---------- the shared Go map: association list with unique keys, order irrelevant ---------- *)
Definition kv := (bytes * bytes)%type.
Definition kvmap := list kv.

Fixpoint lookup (k : bytes) (m : kvmap) : option bytes :=
  match m with
  | [] => None
  | (k', v) :: r => if beqb k k' then Some v else lookup k r
  end.
Definition remove (k : bytes) (m : kvmap) : kvmap := filter (fun e => negb (beqb k (fst e))) m.
Definition put (k v : bytes) (m : kvmap) : kvmap := (k, v) :: remove k m.               (* syncedKVMap.set *)
Definition del_prefix (p : bytes) (m : kvmap) : kvmap := filter (fun e => negb (is_prefix p (fst e))) m.
Definition removeb (k : bytes) (l : list bytes) : list bytes := filter (fun x => negb (beqb k x)) l.
Definition memb (k : bytes) (l : list bytes) : bool := existsb (beqb k) l.

(* sort.Sort(sort.StringSlice) / sort.Reverse: insertion sort on the key (the keys of a Go map are distinct) *)
Fixpoint insert_by (le : bytes -> bytes -> bool) (e : kv) (l : kvmap) : kvmap :=
  match l with
  | [] => [e]
  | x :: r => if le (fst e) (fst x) then e :: l else x :: insert_by le e r
  end.
Definition sort_by (le : bytes -> bytes -> bool) (l : kvmap) : kvmap := fold_right (insert_by le) [] l.

Inductive dir := DDefault | DFwd | DBwd | DBad.   (* no direction argument / Forward / Backward / any other byte *)

(* syncedKVMap.iterate: snapshot of the entries with prefix realm||p, sorted, realm stripped *)
Definition iterate (realm p : bytes) (d : dir) (m : kvmap) : kvmap :=
  let sel := filter (fun e => is_prefix (realm ++ p) (fst e)) m in
  let srt := match d with DBwd => sort_by bgeb sel | _ => sort_by bleb sel end in
  map (fun e => (skipn (length realm) (fst e), snd e)) srt.

(* the consumer returns false on its lim-th call (a consumer is always called once when there is an entry) *)
Definition consumed (lim : nat) (l : kvmap) : kvmap := firstn (Nat.max 1 lim) l.

(* ---------- store state, wrappers, calls ---------- *)
Definition logent := (N * N * list bytes)%type.       (* debug wrapper id, command bit, parameters *)
Record st := mkSt { m : kvmap; closed : bool; log : list logent (* newest first *);
                    nfl : nat (* Flush calls that reached the mapDB (counted by the harness's spy below the stack) *) }.

Inductive wrapper := WFlush | WDebug (id mask : N).

(* debug.New(store, cb, filters...): no filter = AllCommands, else the OR of the filters *)
Definition debug_mask (filters : list N) : N :=
  match filters with [] => 255 | _ => fold_left N.lor filters 0 end.
(* debug.New(store, nil, filters...): no access callback - every call site in debug.go is guarded by
   accessCallback != nil, i.e. the log filter is constantly false, whatever the filters: the mask of the zero filter *)
Definition nocb_filters : list N := [0].
Definition hasbits (mask c : N) : bool := 0 <? N.land mask c.        (* bitmask.HasBits *)

Inductive kvop :=
| KGet (k : bytes) | KHas (k : bytes) | KSet (k v : bytes) | KDelete (k : bytes)
| KDeletePrefix (p : bytes) | KClear | KFlush | KClose
| KIterate (p : bytes) (d : dir) (lim : nat) | KIterateKeys (p : bytes) (d : dir) (lim : nat)
(* internal calls that travel through the same wrapper stack *)
| KWithRealm | KBatched | KBSet (k v : bytes) | KBDelete (k : bytes) | KCommit (sets : kvmap) (dels : list bytes).

Definition user_op (o : kvop) : bool :=
  match o with KWithRealm | KBatched | KBSet _ _ | KBDelete _ | KCommit _ _ => false | _ => true end.

Inductive out :=
| OOk | OClosed | ONotFound | OVal (v : bytes) | OBool (b : bool)
| OKVs (l : kvmap) | OKeys (l : list bytes) | OPanic | ORealm (r : bytes) | OBadHandle.

Definition add_log (s : st) (e : logent) : st := mkSt (m s) (closed s) (e :: log s) (nfl s).

(* batchedMutations.Commit on the view with this realm: all sets, then all deletes *)
Definition apply_commit (realm : bytes) (sets : kvmap) (dels : list bytes) (mm : kvmap) : kvmap :=
  fold_left (fun acc k => remove (realm ++ k) acc) dels
    (fold_left (fun acc e => put (realm ++ fst e) (snd e) acc) sets mm).

(* the mapDB method itself on (map, closed flag); every entry point tests the shared closed flag first,
   exactly where the Go code does *)
Definition core (realm : bytes) (o : kvop) (mm : kvmap) (cl : bool) : kvmap * bool * out :=
  match o with
  | KClose => (mm, true, OOk)
  | KBSet _ _ | KBDelete _ => (mm, cl, OOk)                  (* batch Set/Delete never look at the flag *)
  | _ =>
    if cl then (mm, cl, OClosed) else
    match o with
    | KGet k => (mm, cl, match lookup (realm ++ k) mm with Some v => OVal v | None => ONotFound end)
    | KHas k => (mm, cl, OBool (match lookup (realm ++ k) mm with Some _ => true | None => false end))
    | KSet k v => (put (realm ++ k) v mm, cl, OOk)
    | KDelete k => (remove (realm ++ k) mm, cl, OOk)
    | KDeletePrefix p => (del_prefix (realm ++ p) mm, cl, OOk)
    | KClear => (del_prefix realm mm, cl, OOk)
    | KIterate p DBad _ | KIterateKeys p DBad _ => (mm, cl, OPanic)     (* kvstore.GetIterDirection panics *)
    | KIterate p d lim => (mm, cl, OKVs (consumed lim (iterate realm p d mm)))
    | KIterateKeys p d lim => (mm, cl, OKeys (map fst (consumed lim (iterate realm p d mm))))
    | KCommit sets dels => (apply_commit realm sets dels mm, cl, OOk)
    | _ => (mm, cl, OOk)                                      (* Flush, WithRealm, Batched *)
    end
  end.

Definition is_flush (o : kvop) : nat := match o with KFlush => 1 | _ => 0 end.
Definition base_op (realm : bytes) (o : kvop) (s : st) : st * out :=
  let '(mm', cl', r) := core realm o (m s) (closed s) in (mkSt mm' cl' (log s) (nfl s + is_flush o), r).

(* what a debug wrapper reports for a call: command bit and parameters *)
Definition cmd_of (o : kvop) : option (N * list bytes) :=
  match o with
  | KIterate p _ _ => Some (1, [p]) | KIterateKeys p _ _ => Some (2, [p]) | KClear => Some (4, [])
  | KGet k => Some (8, [k]) | KSet k v | KBSet k v => Some (16, [k; v]) | KHas k => Some (32, [k])
  | KDelete k | KBDelete k => Some (64, [k]) | KDeletePrefix p => Some (128, [p])
  | _ => None
  end.

(* the calls flushkv follows by Flush *)
Definition mutating (o : kvop) : bool :=
  match o with KSet _ _ | KDelete _ | KDeletePrefix _ | KClear | KCommit _ _ => true | _ => false end.

Definition is_ok (r : out) : bool := match r with OOk => true | _ => false end.

(* a call travelling through a wrapper stack (outermost first) down to the mapDB view *)
Fixpoint exec (stk : list wrapper) (realm : bytes) (o : kvop) (s : st) : st * out :=
  match stk with
  | [] => base_op realm o s
  | WDebug id mask :: rest =>
      let s' := match cmd_of o with
                | Some (c, ps) => if hasbits mask c then add_log s (id, c, ps) else s
                | None => s
                end in
      exec rest realm o s'
  | WFlush :: rest =>
      let '(s', r) := exec rest realm o s in
      if mutating o && is_ok r then exec rest realm KFlush s' else (s', r)
  end.

(* ---------- the world: handles to views and batches ---------- *)
Record view := mkView { v_realm : bytes; v_stack : list wrapper }.
Record batch := mkBatch { b_realm : bytes; b_stack : list wrapper; b_sets : kvmap; b_dels : list bytes }.
Record world := mkW { w_st : st; w_views : list view; w_batches : list batch }.

Inductive op :=
| OpWithRealm (v : nat) (r : bytes) | OpWithExtRealm (v : nat) (r : bytes)
| OpWrapFlush (v : nat) | OpWrapDebug (v : nat) (id : N) (filters : list N)
| OpRealm (v : nat)
| OpKV (v : nat) (o : kvop)
| OpBatched (v : nat)
| OpBSet (b : nat) (k v : bytes) | OpBDelete (b : nat) (k : bytes) | OpBCancel (b : nat) | OpBCommit (b : nat).

Fixpoint set_nth {A} (n : nat) (x : A) (l : list A) : list A :=
  match n, l with
  | _, [] => []
  | O, _ :: r => x :: r
  | S n', y :: r => y :: set_nth n' x r
  end.

Definition step (w : world) (o : op) : world * out :=
  let '(mkW s vs bs) := w in
  match o with
  | OpWithRealm v r =>
      match nth_error vs v with
      | Some vw => let '(s', res) := exec (v_stack vw) (v_realm vw) KWithRealm s in
                   if is_ok res then (mkW s' (vs ++ [mkView r (v_stack vw)]) bs, OOk) else (mkW s' vs bs, res)
      | None => (w, OBadHandle) end
  | OpWithExtRealm v r =>
      match nth_error vs v with
      | Some vw => let '(s', res) := exec (v_stack vw) (v_realm vw) KWithRealm s in
                   if is_ok res then (mkW s' (vs ++ [mkView (v_realm vw ++ r) (v_stack vw)]) bs, OOk) else (mkW s' vs bs, res)
      | None => (w, OBadHandle) end
  | OpWrapFlush v =>
      match nth_error vs v with
      | Some vw => (mkW s (vs ++ [mkView (v_realm vw) (WFlush :: v_stack vw)]) bs, OOk)
      | None => (w, OBadHandle) end
  | OpWrapDebug v id filters =>
      match nth_error vs v with
      | Some vw => (mkW s (vs ++ [mkView (v_realm vw) (WDebug id (debug_mask filters) :: v_stack vw)]) bs, OOk)
      | None => (w, OBadHandle) end
  | OpRealm v =>
      match nth_error vs v with Some vw => (w, ORealm (v_realm vw)) | None => (w, OBadHandle) end
  | OpKV v ko =>
      match nth_error vs v with
      | Some vw => if user_op ko then let '(s', res) := exec (v_stack vw) (v_realm vw) ko s in (mkW s' vs bs, res)
                   else (w, OBadHandle)
      | None => (w, OBadHandle) end
  | OpBatched v =>
      match nth_error vs v with
      | Some vw => let '(s', res) := exec (v_stack vw) (v_realm vw) KBatched s in
                   if is_ok res then (mkW s' vs (bs ++ [mkBatch (v_realm vw) (v_stack vw) [] []]), OOk) else (mkW s' vs bs, res)
      | None => (w, OBadHandle) end
  | OpBSet b k v =>
      match nth_error bs b with
      | Some bt => let '(s', res) := exec (b_stack bt) (b_realm bt) (KBSet k v) s in
                   (mkW s' vs (set_nth b (mkBatch (b_realm bt) (b_stack bt) (put k v (b_sets bt)) (removeb k (b_dels bt))) bs), res)
      | None => (w, OBadHandle) end
  | OpBDelete b k =>
      match nth_error bs b with
      | Some bt => let '(s', res) := exec (b_stack bt) (b_realm bt) (KBDelete k) s in
                   (mkW s' vs (set_nth b (mkBatch (b_realm bt) (b_stack bt) (remove k (b_sets bt)) (k :: removeb k (b_dels bt))) bs), res)
      | None => (w, OBadHandle) end
  | OpBCancel b =>
      match nth_error bs b with
      | Some bt => (mkW s vs (set_nth b (mkBatch (b_realm bt) (b_stack bt) [] []) bs), OOk)
      | None => (w, OBadHandle) end
  | OpBCommit b =>
      match nth_error bs b with
      | Some bt => let '(s', res) := exec (b_stack bt) (b_realm bt) (KCommit (b_sets bt) (b_dels bt)) s in (mkW s' vs bs, res)
      | None => (w, OBadHandle) end
  end.

Fixpoint run (w : world) (h : list op) : world * list out :=
  match h with
  | [] => (w, [])
  | o :: r => let '(w1, x) := step w o in let '(w2, xs) := run w1 r in (w2, x :: xs)
  end.

(* mapdb.NewMapDB(): one root view with the empty realm *)
Definition init : world := mkW (mkSt [] false [] 0) [mkView [] []] [].

(* ====================================================================================================
   Specification: ONE ordered map keyed by the full key (realm||key), kept sorted; views are realms;
   wrappers do not exist (except that the debug log is the filtered list of calls); a batch is the
   list of its Set/Delete calls, replayed in order on Commit.
   ==================================================================================================== *)
Fixpoint oput (k v : bytes) (l : kvmap) : kvmap :=
  match l with
  | [] => [(k, v)]
  | (k', v') :: r => if beqb k k' then (k, v) :: r else if bleb k k' then (k, v) :: l else (k', v') :: oput k v r
  end.

Inductive bop := BS (k v : bytes) | BD (k : bytes).
Definition replay (realm : bytes) (ops : list bop) (mm : kvmap) : kvmap :=
  fold_left (fun acc o => match o with BS k v => oput (realm ++ k) v acc | BD k => remove (realm ++ k) acc end) ops mm.

Definition strip (realm : bytes) (l : kvmap) : kvmap := map (fun e => (skipn (length realm) (fst e), snd e)) l.
Definition siterate (realm p : bytes) (d : dir) (mm : kvmap) : kvmap :=
  let sel := filter (fun e => is_prefix (realm ++ p) (fst e)) mm in
  strip realm (match d with DBwd => rev sel | _ => sel end).

Record sworld := mkSW { s_map : kvmap; s_closed : bool; s_log : list logent;
                        s_views : list view; s_batches : list (bytes * list wrapper * list bop) }.

(* the debug log of one call: one entry per debug wrapper whose mask has the command bit, outermost first *)
Definition log_of (stk : list wrapper) (o : kvop) : list logent :=
  match cmd_of o with
  | None => []
  | Some (c, ps) => flat_map (fun w => match w with WDebug id mask => if hasbits mask c then [(id, c, ps)] else [] | WFlush => [] end) stk
  end.

(* flush-on-write: how many Flush calls reach the store for one call through a stack: the call itself if it
   is Flush, plus one per flushkv wrapper after a mutation that succeeded *)
Definition count_flush (stk : list wrapper) : nat :=
  length (filter (fun w => match w with WFlush => true | _ => false end) stk).
Definition flushes_of (stk : list wrapper) (o : kvop) (r : out) : nat :=
  (is_flush o + if mutating o && is_ok r then count_flush stk else 0)%nat.

Definition sbase (realm : bytes) (o : kvop) (mm : kvmap) (cl : bool) : kvmap * bool * out :=
  match o with
  | KClose => (mm, true, OOk)
  | _ =>
    if cl then (mm, cl, OClosed) else
    match o with
    | KGet k => (mm, cl, match lookup (realm ++ k) mm with Some v => OVal v | None => ONotFound end)
    | KHas k => (mm, cl, OBool (match lookup (realm ++ k) mm with Some _ => true | None => false end))
    | KSet k v => (oput (realm ++ k) v mm, cl, OOk)
    | KDelete k => (remove (realm ++ k) mm, cl, OOk)
    | KDeletePrefix p => (del_prefix (realm ++ p) mm, cl, OOk)
    | KClear => (del_prefix realm mm, cl, OOk)
    | KIterate p DBad _ | KIterateKeys p DBad _ => (mm, cl, OPanic)
    | KIterate p d lim => (mm, cl, OKVs (consumed lim (siterate realm p d mm)))
    | KIterateKeys p d lim => (mm, cl, OKeys (map fst (consumed lim (siterate realm p d mm))))
    | _ => (mm, cl, OOk)
    end
  end.

Definition sstep (w : sworld) (o : op) : sworld * out :=
  let '(mkSW mm cl lg vs bs) := w in
  match o with
  | OpWithRealm v r =>
      match nth_error vs v with
      | Some vw => if cl then (w, OClosed) else (mkSW mm cl lg (vs ++ [mkView r (v_stack vw)]) bs, OOk)
      | None => (w, OBadHandle) end
  | OpWithExtRealm v r =>
      match nth_error vs v with
      | Some vw => if cl then (w, OClosed) else (mkSW mm cl lg (vs ++ [mkView (v_realm vw ++ r) (v_stack vw)]) bs, OOk)
      | None => (w, OBadHandle) end
  | OpWrapFlush v =>
      match nth_error vs v with
      | Some vw => (mkSW mm cl lg (vs ++ [mkView (v_realm vw) (WFlush :: v_stack vw)]) bs, OOk)
      | None => (w, OBadHandle) end
  | OpWrapDebug v id filters =>
      match nth_error vs v with
      | Some vw => (mkSW mm cl lg (vs ++ [mkView (v_realm vw) (WDebug id (debug_mask filters) :: v_stack vw)]) bs, OOk)
      | None => (w, OBadHandle) end
  | OpRealm v =>
      match nth_error vs v with Some vw => (w, ORealm (v_realm vw)) | None => (w, OBadHandle) end
  | OpKV v ko =>
      match nth_error vs v with
      | Some vw => if user_op ko then
                     let '(mm', cl', res) := sbase (v_realm vw) ko mm cl in
                     (mkSW mm' cl' (rev (log_of (v_stack vw) ko) ++ lg) vs bs, res)
                   else (w, OBadHandle)
      | None => (w, OBadHandle) end
  | OpBatched v =>
      match nth_error vs v with
      | Some vw => if cl then (w, OClosed) else (mkSW mm cl lg vs (bs ++ [(v_realm vw, v_stack vw, [])]), OOk)
      | None => (w, OBadHandle) end
  | OpBSet b k v =>
      match nth_error bs b with
      | Some (r, stk, ops) => (mkSW mm cl (rev (log_of stk (KBSet k v)) ++ lg) vs (set_nth b (r, stk, ops ++ [BS k v]) bs), OOk)
      | None => (w, OBadHandle) end
  | OpBDelete b k =>
      match nth_error bs b with
      | Some (r, stk, ops) => (mkSW mm cl (rev (log_of stk (KBDelete k)) ++ lg) vs (set_nth b (r, stk, ops ++ [BD k]) bs), OOk)
      | None => (w, OBadHandle) end
  | OpBCancel b =>
      match nth_error bs b with
      | Some (r, stk, _) => (mkSW mm cl lg vs (set_nth b (r, stk, []) bs), OOk)
      | None => (w, OBadHandle) end
  | OpBCommit b =>
      match nth_error bs b with
      | Some (r, _, ops) => if cl then (w, OClosed) else (mkSW (replay r ops mm) cl lg vs bs, OOk)
      | None => (w, OBadHandle) end
  end.

Fixpoint srun (w : sworld) (h : list op) : sworld * list out :=
  match h with
  | [] => (w, [])
  | o :: r => let '(w1, x) := sstep w o in let '(w2, xs) := srun w1 r in (w2, x :: xs)
  end.

Definition sinit : sworld := mkSW [] false [] [mkView [] []] [].

(* ====================================================================================================
   Re-entrant consumers (round 2).  The consumer of Iterate / IterateKeys is user code and may call back
   into the store - through the view it iterates, a sibling / parent / child view, a wrapper or a batch.
   syncedKVMap.iterate / iterateKeys copy the matching entries (keys AND values) under the map's read lock,
   release it, sort the copy and only then call the consumer on the copied entries with no lock held:
   whatever the consumer does to the store cannot change what is delivered.  So: the call through the
   wrapper stack yields the snapshot (= the plain call, `step` on OpKV); callback j (0-based) then performs
   the operations script[j] (plain history operations, executed by `step`, results recorded); callbacks
   run for exactly the delivered entries (the consumer's operations of the callback that says stop still run).
   A history operation now yields a LIST of results: the call's own result, then those of the nested calls
   in the order they returned.
   ==================================================================================================== *)
Inductive hop :=
| HOp (o : op)
| HIterRe (v : nat) (keysonly : bool) (p : bytes) (d : dir) (lim : nat) (script : list (list op)).

Definition iter_op (keysonly : bool) (p : bytes) (d : dir) (lim : nat) : kvop :=
  if keysonly then KIterateKeys p d lim else KIterate p d lim.

(* number of consumer callbacks of a call that returned r (ErrStoreClosed / panic / bad handle: none) *)
Definition ndeliv (r : out) : nat :=
  match r with OKVs l => length l | OKeys l => length l | _ => 0%nat end.

(* what the consumer does over the whole call when it is called n times *)
Definition consumer_ops (n : nat) (script : list (list op)) : list op := concat (firstn n script).

Definition hstep (w : world) (o : hop) : world * list out :=
  match o with
  | HOp o => let '(w1, x) := step w o in (w1, [x])
  | HIterRe v ko p d lim script =>
      let '(w1, res) := step w (OpKV v (iter_op ko p d lim)) in             (* snapshot first ... *)
      let '(w2, xs) := run w1 (consumer_ops (ndeliv res) script) in         (* ... then the callbacks' calls *)
      (w2, res :: xs)
  end.

Fixpoint hrun (w : world) (h : list hop) : world * list (list out) :=
  match h with
  | [] => (w, [])
  | o :: r => let '(w1, x) := hstep w o in let '(w2, xs) := hrun w1 r in (w2, x :: xs)
  end.

(* specification side: the ordered map's range at call time, then the nested calls on the ordered map *)
Definition shstep (w : sworld) (o : hop) : sworld * list out :=
  match o with
  | HOp o => let '(w1, x) := sstep w o in (w1, [x])
  | HIterRe v ko p d lim script =>
      let '(w1, res) := sstep w (OpKV v (iter_op ko p d lim)) in
      let '(w2, xs) := srun w1 (consumer_ops (ndeliv res) script) in
      (w2, res :: xs)
  end.

Fixpoint shrun (w : sworld) (h : list hop) : sworld * list (list out) :=
  match h with
  | [] => (w, [])
  | o :: r => let '(w1, x) := shstep w o in let '(w2, xs) := shrun w1 r in (w2, x :: xs)
  end.
