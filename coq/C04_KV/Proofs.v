(* C04 - wrapper transparency (exec_spec) and the refinement of the ordered-map specification. *)
From Coq Require Import Arith NArith List Bool Lia Sorting.Sorted Sorting.Permutation.
From Verif.C04_KV Require Import Model Lemmas.
Import ListNotations.
Open Scope N_scope.

(* ---------- wrappers ---------- *)
Lemma log_of_nil : forall o, log_of [] o = [].
Proof. intro o. unfold log_of. destruct (cmd_of o) as [[c ps]|]; reflexivity. Qed.

Lemma log_of_nil' : forall stk o, cmd_of o = None -> log_of stk o = [].
Proof. intros stk o H. unfold log_of. rewrite H. reflexivity. Qed.

Lemma log_of_flush : forall stk o, log_of (WFlush :: stk) o = log_of stk o.
Proof. intros. unfold log_of. destruct (cmd_of o) as [[c ps]|]; reflexivity. Qed.

Lemma log_of_debug : forall id mask stk o,
  log_of (WDebug id mask :: stk) o =
  match cmd_of o with
  | Some (c, ps) => (if hasbits mask c then [(id, c, ps)] else []) ++ log_of stk o
  | None => []
  end.
Proof. intros. unfold log_of. destruct (cmd_of o) as [[c ps]|]; reflexivity. Qed.

Lemma core_mutating_ok : forall realm o mm cl mm' cl',
  mutating o = true -> core realm o mm cl = (mm', cl', OOk) -> cl' = false.
Proof. intros realm o mm cl mm' cl' Hm H. destruct o; try discriminate; simpl in H; destruct cl; inversion H; reflexivity. Qed.

(* A call through ANY wrapper stack returns what the bare view returns and changes the map and the closed
   flag as the bare view does; the only trace of the stack is the debug log: one entry per debug wrapper
   whose mask has the command's bit, outermost first, written before the call reaches the store. *)
Lemma core_flush : forall realm mm cl, exists x, core realm KFlush mm cl = (mm, cl, x).
Proof. intros. destruct cl; cbn; eauto. Qed.

Theorem exec_spec : forall stk realm o s,
  exec stk realm o s =
  let '(mm', cl', r) := core realm o (m s) (closed s) in
  (mkSt mm' cl' (rev (log_of stk o) ++ log s) (nfl s + flushes_of stk o r), r).
Proof.
  induction stk as [|w stk IH]; intros realm o s.
  - cbn [exec]. unfold base_op, flushes_of. rewrite log_of_nil.
    destruct (core realm o (m s) (closed s)) as [[mm' cl'] r]. cbn [count_flush filter length app rev].
    destruct (mutating o && is_ok r); rewrite Nat.add_0_r; reflexivity.
  - destruct w as [|id mask]; cbn [exec].
    + rewrite IH. rewrite log_of_flush. destruct (core realm o (m s) (closed s)) as [[mm' cl'] r] eqn:E.
      unfold flushes_of. cbn [count_flush filter length]. fold (count_flush stk).
      destruct (mutating o && is_ok r) eqn:G; [|reflexivity].
      apply andb_true_iff in G as [G1 G2]. destruct r; try discriminate.
      pose proof (core_mutating_ok _ _ _ _ _ _ G1 E). subst cl'.
      rewrite IH. cbn [m closed log nfl core]. cbn [log_of cmd_of rev app flushes_of is_flush mutating andb].
      replace (is_flush o) with 0%nat by (destruct o; try discriminate; reflexivity).
      unfold flushes_of. cbn [is_flush mutating andb]. f_equal. f_equal. lia.
    + rewrite IH. rewrite log_of_debug. unfold flushes_of. cbn [count_flush filter]. fold (count_flush stk).
      destruct (cmd_of o) as [[c ps]|] eqn:C.
      * destruct (hasbits mask c); cbn [add_log m closed log nfl];
          destruct (core realm o (m s) (closed s)) as [[mm' cl'] r]; [|reflexivity].
        rewrite rev_app_distr. cbn [rev app]. rewrite <- app_assoc. reflexivity.
      * rewrite (log_of_nil' stk o C). destruct (core realm o (m s) (closed s)) as [[mm' cl'] r]. reflexivity.
Qed.

(* ---------- batches: two maps "last write wins" = replaying the call list ---------- *)
Definition bact (sets : kvmap) (dels : list bytes) (k : bytes) : option (option bytes) :=
  if memb k dels then Some None else match lookup k sets with Some v => Some (Some v) | None => None end.
Definition bstep (k : bytes) (acc : option (option bytes)) (o : bop) : option (option bytes) :=
  match o with
  | BS k' v => if beqb k k' then Some (Some v) else acc
  | BD k' => if beqb k k' then Some None else acc
  end.
(* the last Set/Delete call on key k in the call list, if any *)
Definition lact (ops : list bop) (k : bytes) : option (option bytes) := fold_left (bstep k) ops None.
Definition resolve (a : option (option bytes)) (old : option bytes) : option bytes :=
  match a with Some x => x | None => old end.

Lemma memb_removeb : forall k k' l, memb k (removeb k' l) = if beqb k k' then false else memb k l.
Proof.
  intros k k'. induction l as [|x l IH]; simpl.
  - destruct (beqb k k'); reflexivity.
  - destruct (beqb k' x) eqn:E; simpl.
    + apply beqb_eq in E. subst. rewrite IH. destruct (beqb k x); reflexivity.
    + rewrite IH. destruct (beqb k x) eqn:E2; simpl; auto.
      apply beqb_eq in E2. subst. rewrite beqb_sym, E. reflexivity.
Qed.

Lemma bact_set : forall sets dels k v k',
  bact (put k v sets) (removeb k dels) k' = if beqb k' k then Some (Some v) else bact sets dels k'.
Proof. intros. unfold bact. rewrite memb_removeb, lookup_put. destruct (beqb k' k); reflexivity. Qed.

Lemma bact_del : forall sets dels k k',
  bact (remove k sets) (k :: removeb k dels) k' = if beqb k' k then Some None else bact sets dels k'.
Proof.
  intros. unfold bact. cbn [memb existsb]. fold (memb k' (removeb k dels)). rewrite memb_removeb, lookup_remove.
  destruct (beqb k' k); reflexivity.
Qed.

Lemma lact_snoc : forall ops o k, lact (ops ++ [o]) k = bstep k (lact ops k) o.
Proof. intros. unfold lact. rewrite fold_left_app. reflexivity. Qed.

Lemma beqb_app_nonprefix : forall r k k', is_prefix r k' = false -> beqb k' (r ++ k) = false.
Proof.
  intros r k k' H. apply beqb_neq. intro E. subst. rewrite is_prefix_app in H. discriminate.
Qed.

Lemma fold_put_lookup : forall r sets mm k, NoDup (keys sets) ->
  lookup (r ++ k) (fold_left (fun acc e => put (r ++ fst e) (snd e) acc) sets mm) =
  match lookup k sets with Some v => Some v | None => lookup (r ++ k) mm end.
Proof.
  intros r. induction sets as [|[k1 v1] sets IH]; intros mm k ND; simpl; auto.
  inversion ND; subst. rewrite IH by assumption. rewrite lookup_put, beqb_app_l.
  destruct (beqb k k1) eqn:E; auto. apply beqb_eq in E. subst. rewrite lookup_None; auto.
Qed.

Lemma fold_put_other : forall r sets mm k', is_prefix r k' = false ->
  lookup k' (fold_left (fun acc e => put (r ++ fst e) (snd e) acc) sets mm) = lookup k' mm.
Proof.
  intros r. induction sets as [|[k1 v1] sets IH]; intros mm k' H; simpl; auto.
  rewrite IH by assumption. rewrite lookup_put, beqb_app_nonprefix; auto.
Qed.

Lemma fold_put_NoDup : forall r sets mm, NoDup (keys mm) ->
  NoDup (keys (fold_left (fun acc e => put (r ++ fst e) (snd e) acc) sets mm)).
Proof. intros r. induction sets as [|e sets IH]; intros mm H; simpl; auto. apply IH. apply put_NoDup. assumption. Qed.

Lemma fold_remove_lookup : forall r dels mm k,
  lookup (r ++ k) (fold_left (fun acc k => remove (r ++ k) acc) dels mm) = if memb k dels then None else lookup (r ++ k) mm.
Proof.
  intros r. induction dels as [|k1 dels IH]; intros mm k; simpl; auto.
  rewrite IH. rewrite lookup_remove, beqb_app_l. destruct (beqb k k1); simpl; auto. destruct (memb k dels); auto.
Qed.

Lemma fold_remove_other : forall r dels mm k', is_prefix r k' = false ->
  lookup k' (fold_left (fun acc k => remove (r ++ k) acc) dels mm) = lookup k' mm.
Proof.
  intros r. induction dels as [|k1 dels IH]; intros mm k' H; simpl; auto.
  rewrite IH by assumption. rewrite lookup_remove, beqb_app_nonprefix; auto.
Qed.

Lemma fold_remove_NoDup : forall r dels mm, NoDup (keys mm) ->
  NoDup (keys (fold_left (fun acc k => remove (r ++ k) acc) dels mm)).
Proof. intros r. induction dels as [|e dels IH]; intros mm H; simpl; auto. apply IH. apply keys_filter_NoDup. assumption. Qed.

(* Commit, model side: key r||k gets the batch's pending action on k, every other key keeps its value *)
Lemma commit_lookup : forall r sets dels mm k, NoDup (keys sets) ->
  lookup (r ++ k) (apply_commit r sets dels mm) = resolve (bact sets dels k) (lookup (r ++ k) mm).
Proof.
  intros. unfold apply_commit, bact, resolve. rewrite fold_remove_lookup, fold_put_lookup by assumption.
  destruct (memb k dels); auto. destruct (lookup k sets); auto.
Qed.

Lemma commit_other : forall r sets dels mm k', is_prefix r k' = false ->
  lookup k' (apply_commit r sets dels mm) = lookup k' mm.
Proof. intros. unfold apply_commit. rewrite fold_remove_other, fold_put_other; auto. Qed.

Lemma commit_NoDup : forall r sets dels mm, NoDup (keys mm) -> NoDup (keys (apply_commit r sets dels mm)).
Proof. intros. unfold apply_commit. apply fold_remove_NoDup, fold_put_NoDup. assumption. Qed.

(* Commit, specification side *)
Lemma replay_snoc : forall r ops o mm,
  replay r (ops ++ [o]) mm =
  match o with BS k v => oput (r ++ k) v (replay r ops mm) | BD k => remove (r ++ k) (replay r ops mm) end.
Proof. intros. unfold replay. rewrite fold_left_app. reflexivity. Qed.

Lemma replay_lookup : forall r ops mm k,
  lookup (r ++ k) (replay r ops mm) = resolve (lact ops k) (lookup (r ++ k) mm).
Proof.
  intros r ops mm k. induction ops as [|o ops IH] using rev_ind.
  - reflexivity.
  - rewrite replay_snoc, lact_snoc. destruct o as [k1 v|k1]; simpl.
    + rewrite lookup_oput, beqb_app_l. destruct (beqb k k1); auto.
    + rewrite lookup_remove, beqb_app_l. destruct (beqb k k1); auto.
Qed.

Lemma replay_other : forall r ops mm k', is_prefix r k' = false -> lookup k' (replay r ops mm) = lookup k' mm.
Proof.
  intros r ops mm k' H. induction ops as [|o ops IH] using rev_ind.
  - reflexivity.
  - rewrite replay_snoc. destruct o as [k1 v|k1].
    + rewrite lookup_oput, beqb_app_nonprefix; auto.
    + rewrite lookup_remove, beqb_app_nonprefix; auto.
Qed.

Lemma remove_SS : forall k l, SS bleb l -> SS bleb (remove k l).
Proof. intros. unfold remove. apply SS_filter. assumption. Qed.

Lemma replay_SS : forall r ops mm, SS bleb mm -> SS bleb (replay r ops mm).
Proof.
  intros r ops mm H. induction ops as [|o ops IH] using rev_ind.
  - exact H.
  - rewrite replay_snoc. destruct o. apply oput_SS; assumption. apply remove_SS; assumption.
Qed.

Lemma prefix_split : forall r k', is_prefix r k' = true -> exists k, k' = r ++ k.
Proof. intros. apply is_prefix_spec. assumption. Qed.

(* ---------- iteration: snapshot+sort of the Go map = a range of the ordered map ---------- *)
Lemma iterate_siterate : forall realm p d mm sm,
  (forall k, lookup k mm = lookup k sm) -> NoDup (keys mm) -> SS bleb sm ->
  iterate realm p d mm = siterate realm p d sm.
Proof.
  intros realm p d mm sm H ND S. unfold iterate, siterate, strip. f_equal.
  set (f := fun e : kv => is_prefix (realm ++ p) (fst e)).
  assert (NDf : NoDup (keys (filter f mm))) by (apply keys_filter_NoDup; assumption).
  assert (Sf : SS bleb (filter f sm)) by (apply SS_filter; assumption).
  assert (Hf : forall k, lookup k (filter f mm) = lookup k (filter f sm)).
  { intro k. unfold f. rewrite !(lookup_filter (is_prefix (realm ++ p))). rewrite H. reflexivity. }
  assert (Fwd : sort_by bleb (filter f mm) = filter f sm).
  { apply (SS_ext bleb bleb_antisym); auto.
    - apply (sort_by_SS bleb bleb_total bleb_trans); auto.
    - intro k. rewrite sort_by_lookup; auto. }
  destruct d; auto.
  apply (SS_ext bgeb bgeb_antisym).
  - apply (sort_by_SS bgeb bgeb_total bgeb_trans); auto.
  - apply SS_rev. assumption.
  - intro k. rewrite sort_by_lookup; auto. rewrite lookup_rev; [apply Hf | apply Sf].
Qed.

(* ---------- one call: model and specification agree ---------- *)
Lemma core_sbase : forall realm o mm sm cl,
  user_op o = true -> (forall k, lookup k mm = lookup k sm) -> NoDup (keys mm) -> SS bleb sm ->
  let '(mm', cl1, r1) := core realm o mm cl in
  let '(sm', cl2, r2) := sbase realm o sm cl in
  (forall k, lookup k mm' = lookup k sm') /\ NoDup (keys mm') /\ SS bleb sm' /\ cl1 = cl2 /\ r1 = r2.
Proof.
  intros realm o mm sm cl U H ND S.
  destruct o; try discriminate; destruct cl; cbn [core sbase];
    try (destruct d; rewrite ?(iterate_siterate realm p _ mm sm) by assumption);
    rewrite ?H;
    (split; [|split; [|split; [|split]]]); auto using put_NoDup, oput_SS, remove_SS;
    try (intro k0; rewrite ?lookup_put, ?lookup_oput, ?lookup_remove, ?lookup_del_prefix, ?H; reflexivity);
    try (apply keys_filter_NoDup; assumption); try (apply SS_filter; assumption).
Qed.

(* ---------- the refinement relation between worlds ---------- *)
Definition batchR (b : batch) (sb : bytes * list wrapper * list bop) : Prop :=
  let '(r, stk, ops) := sb in
  b_realm b = r /\ b_stack b = stk /\ NoDup (keys (b_sets b)) /\ forall k, bact (b_sets b) (b_dels b) k = lact ops k.

Record R (w : world) (sw : sworld) : Prop := mkR {
  R_lookup : forall k, lookup k (m (w_st w)) = lookup k (s_map sw);
  R_nodup : NoDup (keys (m (w_st w)));
  R_sorted : SS bleb (s_map sw);
  R_closed : closed (w_st w) = s_closed sw;
  R_log : log (w_st w) = s_log sw;
  R_views : w_views w = s_views sw;
  R_batches : Forall2 batchR (w_batches w) (s_batches sw) }.

Lemma Forall2_nth_error_l : forall {A B} (P : A -> B -> Prop) l1 l2 n a,
  Forall2 P l1 l2 -> nth_error l1 n = Some a -> exists b, nth_error l2 n = Some b /\ P a b.
Proof.
  intros A B P l1 l2 n a F. revert n. induction F as [|x y l1 l2 Pxy F IH]; intros [|n] Hn; simpl in *; try discriminate.
  - inversion Hn; subst. eauto.
  - eauto.
Qed.

Lemma Forall2_nth_error_none : forall {A B} (P : A -> B -> Prop) l1 l2 n,
  Forall2 P l1 l2 -> nth_error l1 n = None -> nth_error l2 n = None.
Proof.
  intros A B P l1 l2 n F. revert n. induction F as [|x y l1 l2 Pxy F IH]; intros [|n] Hn; simpl in *; try discriminate; auto.
Qed.

Lemma Forall2_set_nth : forall {A B} (P : A -> B -> Prop) l1 l2 n a b,
  Forall2 P l1 l2 -> P a b -> Forall2 P (set_nth n a l1) (set_nth n b l2).
Proof.
  intros A B P l1 l2 n a b F Pab. revert n. induction F as [|x y l1 l2 Pxy F IH]; intros [|n]; simpl; constructor; auto.
Qed.

Lemma R_init : R init sinit.
Proof.
  constructor; simpl; auto.
  - constructor.
  - split; constructor.
Qed.

Lemma step_refines : forall w sw o, R w sw ->
  R (fst (step w o)) (fst (sstep sw o)) /\ snd (step w o) = snd (sstep sw o).
Proof.
  intros [[mm cl lg nf] vs bs] [sm scl slg svs sbs] o [HL HN HS HC HG HV HB]. simpl in *. subst scl slg svs.
  destruct o; cbn [step sstep].
  - (* WithRealm *)
    destruct (nth_error vs v) as [vw|] eqn:E; [|split; [constructor|]; auto].
    rewrite exec_spec. cbn [m closed log core]. rewrite log_of_nil' by reflexivity.
    destruct cl; cbn; (split; [constructor|]; auto).
  - (* WithExtendedRealm *)
    destruct (nth_error vs v) as [vw|] eqn:E; [|split; [constructor|]; auto].
    rewrite exec_spec. cbn [m closed log core]. rewrite log_of_nil' by reflexivity.
    destruct cl; cbn; (split; [constructor|]; auto).
  - destruct (nth_error vs v) as [vw|] eqn:E; (split; [constructor|]; auto).
  - destruct (nth_error vs v) as [vw|] eqn:E; (split; [constructor|]; auto).
  - destruct (nth_error vs v) as [vw|] eqn:E; (split; [constructor|]; auto).
  - (* a KVStore method *)
    destruct (nth_error vs v) as [vw|] eqn:E; [|split; [constructor|]; auto].
    destruct (user_op o) eqn:U; [|split; [constructor|]; auto].
    rewrite exec_spec. cbn [m closed log].
    pose proof (core_sbase (v_realm vw) o mm sm cl U HL HN HS) as H.
    destruct (core (v_realm vw) o mm cl) as [[mm' cl1] r1]. destruct (sbase (v_realm vw) o sm cl) as [[sm' cl2] r2].
    destruct H as (H1 & H2 & H3 & H4 & H5). subst. cbn. split; [constructor|]; auto.
  - (* Batched *)
    destruct (nth_error vs v) as [vw|] eqn:E; [|split; [constructor|]; auto].
    rewrite exec_spec. cbn [m closed log core]. rewrite log_of_nil' by reflexivity.
    destruct cl; cbn; (split; [constructor|]; auto).
    apply Forall2_app; auto. constructor; [|constructor]. cbn. repeat split; auto. constructor.
  - (* batch Set *)
    destruct (nth_error bs b) as [bt|] eqn:E.
    + destruct (Forall2_nth_error_l _ _ _ _ _ HB E) as [[[r stk] ops] [E2 (B1 & B2 & B3 & B4)]]. rewrite E2.
      rewrite exec_spec. cbn [m closed log core]. subst. cbn. split; [constructor|]; auto.
      apply Forall2_set_nth; auto. unfold batchR. cbn [b_realm b_stack b_sets b_dels].
      split; [reflexivity|split; [reflexivity|split]].
      * apply put_NoDup. assumption.
      * intro k0. rewrite bact_set, lact_snoc, B4. reflexivity.
    + rewrite (Forall2_nth_error_none _ _ _ _ HB E). split; [constructor|]; auto.
  - (* batch Delete *)
    destruct (nth_error bs b) as [bt|] eqn:E.
    + destruct (Forall2_nth_error_l _ _ _ _ _ HB E) as [[[r stk] ops] [E2 (B1 & B2 & B3 & B4)]]. rewrite E2.
      rewrite exec_spec. cbn [m closed log core]. subst. cbn. split; [constructor|]; auto.
      apply Forall2_set_nth; auto. unfold batchR. cbn [b_realm b_stack b_sets b_dels].
      split; [reflexivity|split; [reflexivity|split]].
      * apply keys_filter_NoDup; auto.
      * intro k0. rewrite bact_del, lact_snoc, B4. reflexivity.
    + rewrite (Forall2_nth_error_none _ _ _ _ HB E). split; [constructor|]; auto.
  - (* batch Cancel *)
    destruct (nth_error bs b) as [bt|] eqn:E.
    + destruct (Forall2_nth_error_l _ _ _ _ _ HB E) as [[[r stk] ops] [E2 (B1 & B2 & B3 & B4)]]. rewrite E2.
      cbn. split; [constructor|]; auto.
      apply Forall2_set_nth; auto. cbn. repeat split; auto. constructor.
    + rewrite (Forall2_nth_error_none _ _ _ _ HB E). split; [constructor|]; auto.
  - (* batch Commit *)
    destruct (nth_error bs b) as [bt|] eqn:E.
    + destruct (Forall2_nth_error_l _ _ _ _ _ HB E) as [[[r stk] ops] [E2 (B1 & B2 & B3 & B4)]]. rewrite E2.
      rewrite exec_spec. cbn [m closed log core]. rewrite log_of_nil' by reflexivity. subst.
      destruct cl; cbn; (split; [constructor|]; auto); cbn.
      * intro k'. destruct (is_prefix (b_realm bt) k') eqn:P.
        -- apply prefix_split in P as [k ->]. rewrite commit_lookup, replay_lookup, B4, HL by assumption. reflexivity.
        -- rewrite commit_other, replay_other by assumption. apply HL.
      * apply commit_NoDup. assumption.
      * apply replay_SS. assumption.
    + rewrite (Forall2_nth_error_none _ _ _ _ HB E). split; [constructor|]; auto.
Qed.

Theorem run_refines : forall h w sw, R w sw ->
  R (fst (run w h)) (fst (srun sw h)) /\ snd (run w h) = snd (srun sw h).
Proof.
  induction h as [|o h IH]; intros w sw HR; cbn [run srun].
  - auto.
  - destruct (step_refines w sw o HR) as [HR1 HO].
    destruct (step w o) as [w1 x]. destruct (sstep sw o) as [sw1 y]. simpl in HR1, HO. subst y.
    destruct (IH w1 sw1 HR1) as [HR2 HO2].
    destruct (run w1 h) as [w2 xs]. destruct (srun sw1 h) as [sw2 ys]. simpl in *. subst. auto.
Qed.

(* ---------- re-entrant consumers: snapshot, then the consumer's calls ---------- *)
Lemma hstep_refines : forall w sw o, R w sw ->
  R (fst (hstep w o)) (fst (shstep sw o)) /\ snd (hstep w o) = snd (shstep sw o).
Proof.
  intros w sw o HR. destruct o as [o|v ko p d lim script]; cbn [hstep shstep].
  - destruct (step_refines w sw o HR) as [HR1 HO].
    destruct (step w o) as [w1 x]. destruct (sstep sw o) as [sw1 y]. simpl in *. subst. auto.
  - destruct (step_refines w sw (OpKV v (iter_op ko p d lim)) HR) as [HR1 HO].
    destruct (step w (OpKV v (iter_op ko p d lim))) as [w1 x].
    destruct (sstep sw (OpKV v (iter_op ko p d lim))) as [sw1 y]. simpl in HR1, HO. subst y.
    destruct (run_refines (consumer_ops (ndeliv x) script) w1 sw1 HR1) as [HR2 HO2].
    destruct (run w1 (consumer_ops (ndeliv x) script)) as [w2 xs].
    destruct (srun sw1 (consumer_ops (ndeliv x) script)) as [sw2 ys]. simpl in *. subst. auto.
Qed.

Theorem hrun_refines : forall h w sw, R w sw ->
  R (fst (hrun w h)) (fst (shrun sw h)) /\ snd (hrun w h) = snd (shrun sw h).
Proof.
  induction h as [|o h IH]; intros w sw HR; cbn [hrun shrun].
  - auto.
  - destruct (hstep_refines w sw o HR) as [HR1 HO].
    destruct (hstep w o) as [w1 x]. destruct (shstep sw o) as [sw1 y]. simpl in HR1, HO. subst y.
    destruct (IH w1 sw1 HR1) as [HR2 HO2].
    destruct (hrun w1 h) as [w2 xs]. destruct (shrun sw1 h) as [sw2 ys]. simpl in *. subst. auto.
Qed.

(* a history without re-entrant consumers is the old `run` *)
Lemma hrun_plain : forall h w,
  hrun w (map HOp h) = (fst (run w h), map (fun x => [x]) (snd (run w h))).
Proof.
  induction h as [|o h IH]; intro w; cbn [map hrun run hstep]; auto.
  rewrite (surjective_pairing (step w o)). rewrite IH. destruct (run (fst (step w o)) h); reflexivity.
Qed.

Lemma shrun_plain : forall h w,
  shrun w (map HOp h) = (fst (srun w h), map (fun x => [x]) (snd (srun w h))).
Proof.
  induction h as [|o h IH]; intro w; cbn [map shrun srun shstep]; auto.
  rewrite (surjective_pairing (sstep w o)). rewrite IH. destruct (srun (fst (sstep w o)) h); reflexivity.
Qed.
