(* C04 - basic facts: byte strings, association lists, sorting. *)
From Coq Require Import NArith List Bool Lia Sorting.Sorted Sorting.Permutation.
From Verif.C04_KV Require Import Model.
Import ListNotations.
Open Scope N_scope.

(* ---------- byte strings ---------- *)
Lemma beqb_eq : forall a b, beqb a b = true <-> a = b.
Proof.
  induction a as [|x a IH]; destruct b as [|y b]; simpl; split; intro H; try congruence; try discriminate; auto.
  - apply andb_true_iff in H as [H1 H2]. apply N.eqb_eq in H1. apply IH in H2. congruence.
  - inversion H; subst. rewrite N.eqb_refl. simpl. apply IH. reflexivity.
Qed.

Lemma beqb_refl : forall a, beqb a a = true.
Proof. intro a. apply beqb_eq. reflexivity. Qed.

Lemma beqb_neq : forall a b, beqb a b = false <-> a <> b.
Proof.
  intros a b. split.
  - intros H E. apply beqb_eq in E. congruence.
  - intro H. destruct (beqb a b) eqn:E; auto. apply beqb_eq in E. contradiction.
Qed.

Lemma beqb_sym : forall a b, beqb a b = beqb b a.
Proof.
  intros a b. destruct (beqb a b) eqn:E.
  - apply beqb_eq in E. subst. symmetry. apply beqb_refl.
  - symmetry. apply beqb_neq. apply beqb_neq in E. congruence.
Qed.

Lemma beqb_app_l : forall r a b, beqb (r ++ a) (r ++ b) = beqb a b.
Proof. induction r as [|x r IH]; intros; simpl; auto. rewrite N.eqb_refl. simpl. apply IH. Qed.

Lemma is_prefix_spec : forall p k, is_prefix p k = true <-> exists s, k = p ++ s.
Proof.
  induction p as [|x p IH]; intros k; simpl.
  - split; eauto.
  - destruct k as [|y k].
    + split; [discriminate | intros [s H]; discriminate].
    + split.
      * intro H. apply andb_true_iff in H as [H1 H2]. apply N.eqb_eq in H1. apply IH in H2 as [s ->]. exists s. subst. reflexivity.
      * intros [s H]. inversion H; subst. rewrite N.eqb_refl. simpl. apply IH. eauto.
Qed.

Lemma is_prefix_app : forall p s, is_prefix p (p ++ s) = true.
Proof. intros. apply is_prefix_spec. eauto. Qed.

Lemma is_prefix_app_l : forall r p k, is_prefix (r ++ p) (r ++ k) = is_prefix p k.
Proof. induction r as [|x r IH]; intros; simpl; auto. rewrite N.eqb_refl. simpl. apply IH. Qed.

Lemma is_prefix_app_false : forall r p k, is_prefix r k = false -> is_prefix (r ++ p) k = false.
Proof.
  intros r p k H. destruct (is_prefix (r ++ p) k) eqn:E; auto.
  apply is_prefix_spec in E as [s ->]. rewrite <- app_assoc in H. rewrite is_prefix_app in H. discriminate.
Qed.

Lemma skipn_app_len : forall (r k : bytes), skipn (length r) (r ++ k) = k.
Proof. induction r; simpl; auto. Qed.

Lemma bleb_refl : forall a, bleb a a = true.
Proof. induction a as [|x a IH]; simpl; auto. rewrite N.ltb_irrefl. exact IH. Qed.

Lemma bleb_total : forall a b, bleb a b = true \/ bleb b a = true.
Proof.
  induction a as [|x a IH]; destruct b as [|y b]; simpl; auto.
  destruct (x <? y) eqn:E1; destruct (y <? x) eqn:E2; auto.
Qed.

Lemma bleb_antisym : forall a b, bleb a b = true -> bleb b a = true -> a = b.
Proof.
  induction a as [|x a IH]; destruct b as [|y b]; simpl; intros H1 H2; try discriminate; auto.
  destruct (x <? y) eqn:E1; destruct (y <? x) eqn:E2; try discriminate.
  - apply N.ltb_lt in E1, E2. lia.
  - apply N.ltb_ge in E1, E2. assert (x = y) by lia. subst. f_equal. auto.
Qed.

Lemma bleb_trans : forall a b c, bleb a b = true -> bleb b c = true -> bleb a c = true.
Proof.
  induction a as [|x a IH]; destruct b as [|y b]; destruct c as [|z c]; simpl; intros H1 H2; try discriminate; auto.
  destruct (x <? y) eqn:E1.
  - apply N.ltb_lt in E1. destruct (y <? z) eqn:E2.
    + apply N.ltb_lt in E2. assert (x < z) by lia. apply N.ltb_lt in H. rewrite H. reflexivity.
    + destruct (z <? y) eqn:E3; try discriminate. apply N.ltb_ge in E2, E3. assert (y = z) by lia. subst.
      apply N.ltb_lt in E1. rewrite E1. reflexivity.
  - destruct (y <? x) eqn:E1'; try discriminate. apply N.ltb_ge in E1, E1'. assert (x = y) by lia. subst.
    destruct (y <? z) eqn:E2; auto. destruct (z <? y) eqn:E3; try discriminate. eauto.
Qed.

(* ---------- association lists ---------- *)
Definition keys (l : kvmap) : list bytes := map fst l.

Lemma lookup_filter : forall (f : bytes -> bool) k l,
  lookup k (filter (fun e => f (fst e)) l) = if f k then lookup k l else None.
Proof.
  intros f k. induction l as [|[k' v] l IH]; simpl.
  - destruct (f k); reflexivity.
  - destruct (f k') eqn:Ef; simpl.
    + destruct (beqb k k') eqn:E.
      * apply beqb_eq in E. subst. rewrite Ef. reflexivity.
      * exact IH.
    + destruct (beqb k k') eqn:E.
      * apply beqb_eq in E. subst. rewrite Ef in *. exact IH.
      * exact IH.
Qed.

Lemma lookup_remove : forall k k' l, lookup k (remove k' l) = if beqb k k' then None else lookup k l.
Proof.
  intros. unfold remove. rewrite (lookup_filter (fun x => negb (beqb k' x))).
  rewrite (beqb_sym k' k). destruct (beqb k k'); reflexivity.
Qed.

Lemma lookup_put : forall k k' v l, lookup k (put k' v l) = if beqb k k' then Some v else lookup k l.
Proof. intros. unfold put. simpl. rewrite lookup_remove. destruct (beqb k k'); reflexivity. Qed.

Lemma lookup_del_prefix : forall k p l, lookup k (del_prefix p l) = if is_prefix p k then None else lookup k l.
Proof.
  intros. unfold del_prefix. rewrite (lookup_filter (fun x => negb (is_prefix p x))). destruct (is_prefix p k); reflexivity.
Qed.

Lemma lookup_In : forall k v l, lookup k l = Some v -> In (k, v) l.
Proof.
  intros k v. induction l as [|[k' v'] l IH]; simpl; [discriminate|].
  destruct (beqb k k') eqn:E; intro H.
  - apply beqb_eq in E. inversion H; subst. auto.
  - auto.
Qed.

Lemma lookup_None : forall k l, ~ In k (keys l) -> lookup k l = None.
Proof.
  intros k. induction l as [|[k' v'] l IH]; simpl; auto. intro H.
  destruct (beqb k k') eqn:E.
  - apply beqb_eq in E. subst. tauto.
  - apply IH. tauto.
Qed.

Lemma In_lookup : forall k v l, NoDup (keys l) -> In (k, v) l -> lookup k l = Some v.
Proof.
  intros k v. induction l as [|[k' v'] l IH]; simpl; [tauto|]. intros ND [H|H].
  - inversion H; subst. rewrite beqb_refl. reflexivity.
  - inversion ND; subst. destruct (beqb k k') eqn:E.
    + apply beqb_eq in E. subst. exfalso. apply H2. change k' with (fst (k', v)). apply in_map. exact H.
    + auto.
Qed.

Lemma lookup_Some_key : forall k v l, lookup k l = Some v -> In k (keys l).
Proof. intros. apply lookup_In in H. change k with (fst (k, v)). apply in_map. exact H. Qed.

Lemma keys_filter_NoDup : forall (f : kv -> bool) l, NoDup (keys l) -> NoDup (keys (filter f l)).
Proof.
  intros f. induction l as [|e l IH]; simpl; intro H; auto. inversion H; subst.
  destruct (f e); simpl; auto. constructor; auto.
  intro Hin. apply H2. unfold keys in *. apply in_map_iff in Hin as [x [Hx Hin]]. apply filter_In in Hin as [Hin _].
  apply in_map_iff. eauto.
Qed.

Lemma remove_not_in : forall k l, ~ In k (keys (remove k l)).
Proof.
  intros k l H. unfold keys, remove in H. apply in_map_iff in H as [[k' v] [Hx Hin]]. simpl in Hx. subst.
  apply filter_In in Hin as [_ Hin]. simpl in Hin. rewrite beqb_refl in Hin. discriminate.
Qed.

Lemma put_NoDup : forall k v l, NoDup (keys l) -> NoDup (keys (put k v l)).
Proof.
  intros. unfold put. simpl. constructor. apply remove_not_in. apply keys_filter_NoDup. assumption.
Qed.

Lemma perm_lookup : forall l l' k, Permutation l l' -> NoDup (keys l) -> lookup k l = lookup k l'.
Proof.
  intros l l' k P ND.
  assert (ND' : NoDup (keys l')) by (eapply Permutation_NoDup; [apply Permutation_map; exact P | exact ND]).
  destruct (lookup k l) eqn:E1.
  - apply lookup_In in E1. symmetry. apply In_lookup; auto. eapply Permutation_in; eauto.
  - destruct (lookup k l') eqn:E2; auto. apply lookup_In in E2.
    assert (In (k, b) l) by (eapply Permutation_in; [apply Permutation_sym; exact P | exact E2]).
    apply In_lookup in H; auto. congruence.
Qed.

(* ---------- sorting ---------- *)
Section Sort.
  Variable le : bytes -> bytes -> bool.
  Hypothesis le_total : forall a b, le a b = true \/ le b a = true.
  Hypothesis le_trans : forall a b c, le a b = true -> le b c = true -> le a c = true.
  Hypothesis le_antisym : forall a b, le a b = true -> le b a = true -> a = b.

  Definition kle (x y : kv) : Prop := le (fst x) (fst y) = true.
  Definition SS (l : kvmap) : Prop := StronglySorted kle l /\ NoDup (keys l).

  Lemma insert_by_perm : forall e l, Permutation (insert_by le e l) (e :: l).
  Proof.
    intros e. induction l as [|x l IH]; simpl; auto.
    destruct (le (fst e) (fst x)); auto.
    eapply perm_trans; [apply perm_skip; exact IH | apply perm_swap].
  Qed.

  Lemma sort_by_perm : forall l, Permutation (sort_by le l) l.
  Proof.
    induction l as [|x l IH]; simpl; auto.
    eapply perm_trans; [apply insert_by_perm | apply perm_skip; exact IH].
  Qed.

  Lemma insert_by_sorted : forall e l, StronglySorted kle l -> StronglySorted kle (insert_by le e l).
  Proof.
    intros e. induction l as [|x l IH]; simpl; intro H.
    - constructor; constructor.
    - inversion H; subst. destruct (le (fst e) (fst x)) eqn:E.
      + constructor; auto. constructor; auto.
        eapply Forall_impl; [|exact H3]. intros a Ha. unfold kle in *. eapply le_trans; eauto.
      + constructor; auto.
        assert (Hx : kle x e) by (unfold kle; destruct (le_total (fst e) (fst x)); congruence).
        eapply Permutation_Forall; [apply Permutation_sym; apply insert_by_perm|]. constructor; auto.
  Qed.

  Lemma sort_by_sorted : forall l, StronglySorted kle (sort_by le l).
  Proof. induction l; simpl. constructor. apply insert_by_sorted. assumption. Qed.

  Lemma sort_by_SS : forall l, NoDup (keys l) -> SS (sort_by le l).
  Proof.
    intros l H. split. apply sort_by_sorted.
    eapply Permutation_NoDup; [apply Permutation_map; apply Permutation_sym; apply sort_by_perm | exact H].
  Qed.

  Lemma sort_by_lookup : forall l k, NoDup (keys l) -> lookup k (sort_by le l) = lookup k l.
  Proof. intros. symmetry. apply perm_lookup; auto. apply Permutation_sym. apply sort_by_perm. Qed.

  (* a strictly sorted association list is determined by its lookup function *)
  Lemma SS_ext : forall l1 l2, SS l1 -> SS l2 -> (forall k, lookup k l1 = lookup k l2) -> l1 = l2.
  Proof.
    induction l1 as [|[k1 v1] r1 IH]; intros [|[k2 v2] r2] S1 S2 H.
    - reflexivity.
    - specialize (H k2). simpl in H. rewrite beqb_refl in H. discriminate.
    - specialize (H k1). simpl in H. rewrite beqb_refl in H. discriminate.
    - destruct S1 as [S1 N1], S2 as [S2 N2]. inversion S1; subst. inversion S2; subst. inversion N1; subst. inversion N2; subst.
      assert (Hk : k1 = k2).
      { pose proof (H k1) as Ha. pose proof (H k2) as Hb. simpl in Ha, Hb. rewrite beqb_refl in Ha, Hb.
        destruct (beqb k1 k2) eqn:E; [apply beqb_eq; exact E|].
        rewrite (beqb_sym k2 k1), E in Hb.
        symmetry in Ha. apply lookup_In in Ha. apply lookup_In in Hb.
        rewrite Forall_forall in H3, H5. apply H5 in Ha. apply H3 in Hb. unfold kle in Ha, Hb. simpl in Ha, Hb.
        apply le_antisym; assumption. }
      subst k2.
      assert (Hv : v1 = v2).
      { specialize (H k1). simpl in H. rewrite beqb_refl in H. congruence. }
      subst v2. f_equal. apply IH; [split; assumption | split; assumption |].
      intro k. destruct (beqb k k1) eqn:E.
      + apply beqb_eq in E. subst. rewrite !lookup_None; auto.
      + specialize (H k). simpl in H. rewrite E in H. exact H.
  Qed.

  Lemma SS_filter : forall (f : kv -> bool) l, SS l -> SS (filter f l).
  Proof.
    intros f l [S N]. split; [|apply keys_filter_NoDup; assumption].
    induction S as [|x l S IH F]; simpl; [constructor|].
    assert (N' : NoDup (keys l)) by (inversion N; assumption).
    destruct (f x); auto. constructor; auto.
    rewrite Forall_forall in *. intros y Hy. apply filter_In in Hy as [Hy _]. auto.
  Qed.
End Sort.

Lemma bgeb_total : forall a b, bgeb a b = true \/ bgeb b a = true.
Proof. intros. unfold bgeb. apply bleb_total. Qed.
Lemma bgeb_trans : forall a b c, bgeb a b = true -> bgeb b c = true -> bgeb a c = true.
Proof. unfold bgeb. intros. eapply bleb_trans; eauto. Qed.
Lemma bgeb_antisym : forall a b, bgeb a b = true -> bgeb b a = true -> a = b.
Proof. unfold bgeb. intros. apply bleb_antisym; auto. Qed.

Lemma SS_rev : forall l, SS bleb l -> SS bgeb (rev l).
Proof.
  intros l [S N]. split.
  - clear N. induction S as [|x l S IH F]; simpl; [constructor|].
    assert (G : forall l' : kvmap, StronglySorted (kle bgeb) l' -> Forall (fun y => kle bgeb y x) l' -> StronglySorted (kle bgeb) (l' ++ [x])).
    { induction l' as [|y l' IH']; simpl; intros S' F'.
      - constructor; constructor.
      - inversion S'; subst. inversion F'; subst. constructor; auto.
        apply Forall_app. split; auto. }
    apply G; auto. rewrite Forall_forall in *. intros y Hy. apply in_rev in Hy. apply F in Hy. exact Hy.
  - unfold keys in *. rewrite map_rev. apply NoDup_rev. exact N.
Qed.

Lemma lookup_rev : forall l k, NoDup (keys l) -> lookup k (rev l) = lookup k l.
Proof. intros. symmetry. apply perm_lookup; auto. apply Permutation_rev. Qed.

(* the ordered map of the specification *)
Lemma lookup_oput : forall k k' v l, lookup k (oput k' v l) = if beqb k k' then Some v else lookup k l.
Proof.
  intros k k' v. induction l as [|[k2 v2] l IH]; simpl.
  - reflexivity.
  - destruct (beqb k' k2) eqn:E; simpl.
    + apply beqb_eq in E. subst. destruct (beqb k k2); reflexivity.
    + destruct (bleb k' k2); simpl.
      * reflexivity.
      * rewrite IH. destruct (beqb k k2) eqn:E2; auto.
        destruct (beqb k k') eqn:E3; auto. apply beqb_eq in E2, E3. subst. rewrite beqb_refl in E. discriminate.
Qed.

Lemma oput_keys_in : forall k v l x, In x (oput k v l) -> x = (k, v) \/ In x l.
Proof.
  intros k v. induction l as [|[k2 v2] l IH]; simpl; intros x H.
  - destruct H as [H|[]]. auto.
  - destruct (beqb k k2).
    + simpl in H. destruct H as [H|H]; auto.
    + destruct (bleb k k2); simpl in H.
      * destruct H as [H|[H|H]]; auto.
      * destruct H as [H|H]; auto. apply IH in H. destruct H; auto.
Qed.

Lemma oput_SS : forall k v l, SS bleb l -> SS bleb (oput k v l).
Proof.
  intros k v l [S N]. induction S as [|[k2 v2] l S IH F]; simpl.
  - split. constructor; constructor. repeat constructor. simpl. tauto.
  - inversion N; subst. destruct (beqb k k2) eqn:E.
    + apply beqb_eq in E. subst. split. constructor; auto. exact N.
    + destruct (bleb k k2) eqn:E2.
      * split.
        -- constructor. constructor; auto. constructor. exact E2.
           eapply Forall_impl; [|exact F]. intros a Ha. unfold kle in *. simpl in *. eapply bleb_trans; eauto.
        -- simpl. constructor; auto. simpl. intros [H|H].
           ++ subst. rewrite beqb_refl in E. discriminate.
           ++ unfold keys in H. apply in_map_iff in H as [x [Hx Hin]]. rewrite Forall_forall in F. apply F in Hin.
              unfold kle in Hin. simpl in Hin. subst. apply beqb_neq in E. apply E. apply bleb_antisym; auto.
      * destruct (IH H2) as [S' N']. split.
        -- constructor; auto. rewrite Forall_forall in *. intros x Hx. apply oput_keys_in in Hx as [Hx|Hx]; auto.
           subst. unfold kle. simpl. destruct (bleb_total k k2); congruence.
        -- simpl. constructor; auto. intro H. unfold keys in H. apply in_map_iff in H as [x [Hx Hin]].
           apply oput_keys_in in Hin as [Hin|Hin].
           ++ subst. simpl in E. rewrite beqb_refl in E. discriminate.
           ++ apply H1. unfold keys. apply in_map_iff. eauto.
Qed.
