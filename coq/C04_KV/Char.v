(* C04 - what every call means in terms of ONE function full-key -> option value (abs), for every view
   (any realm) behind every wrapper stack; closed store; reachability. *)
From Coq Require Import PeanoNat NArith List Bool Lia Sorting.Sorted Sorting.Permutation.
From Verif.C04_KV Require Import Model Lemmas Proofs.
Import ListNotations.
Open Scope N_scope.

Definition abs (s : st) (k : bytes) : option bytes := lookup k (m s).
Definition Inv (s : st) : Prop := NoDup (keys (m s)).
Definition blt (a b : bytes) : Prop := bleb a b = true /\ a <> b.     (* strict Go string order *)

(* ---------- reads ---------- *)
Theorem get_spec : forall stk r k s, closed s = false ->
  snd (exec stk r (KGet k) s) = match abs s (r ++ k) with Some v => OVal v | None => ONotFound end
  /\ snd (exec stk r (KHas k) s) = OBool (match abs s (r ++ k) with Some _ => true | None => false end)
  /\ (forall k', abs (fst (exec stk r (KGet k) s)) k' = abs s k')
  /\ (forall k', abs (fst (exec stk r (KHas k) s)) k' = abs s k').
Proof. intros stk r k s C. rewrite !exec_spec. cbn [core]. rewrite C. cbn. auto. Qed.

(* ---------- writes: exact effect on every full key (effect + frame in one equation) ---------- *)
Theorem set_spec : forall stk r k v s, closed s = false ->
  let s' := fst (exec stk r (KSet k v) s) in
  snd (exec stk r (KSet k v) s) = OOk /\ closed s' = false /\ (Inv s -> Inv s') /\
  forall k', abs s' k' = if beqb k' (r ++ k) then Some v else abs s k'.
Proof.
  intros stk r k v s C. cbn zeta. rewrite exec_spec. cbn [core]. rewrite C. cbn [fst snd]. unfold abs, Inv. cbn [m closed].
  split; [reflexivity|split; [reflexivity|split]].
  - apply put_NoDup.
  - intro k'. apply lookup_put.
Qed.

Theorem delete_spec : forall stk r k s, closed s = false ->
  let s' := fst (exec stk r (KDelete k) s) in
  snd (exec stk r (KDelete k) s) = OOk /\ closed s' = false /\ (Inv s -> Inv s') /\
  forall k', abs s' k' = if beqb k' (r ++ k) then None else abs s k'.
Proof.
  intros stk r k s C. cbn zeta. rewrite exec_spec. cbn [core]. rewrite C. cbn [fst snd]. unfold abs, Inv. cbn [m closed].
  split; [reflexivity|split; [reflexivity|split]].
  - intro; apply keys_filter_NoDup; auto.
  - intro k'. apply lookup_remove.
Qed.

Theorem delete_prefix_spec : forall stk r p s, closed s = false ->
  let s' := fst (exec stk r (KDeletePrefix p) s) in
  snd (exec stk r (KDeletePrefix p) s) = OOk /\ closed s' = false /\ (Inv s -> Inv s') /\
  forall k', abs s' k' = if is_prefix (r ++ p) k' then None else abs s k'.
Proof.
  intros stk r p s C. cbn zeta. rewrite exec_spec. cbn [core]. rewrite C. cbn [fst snd]. unfold abs, Inv. cbn [m closed].
  split; [reflexivity|split; [reflexivity|split]].
  - intro; apply keys_filter_NoDup; auto.
  - intro k'. apply lookup_del_prefix.
Qed.

Theorem clear_spec : forall stk r s, closed s = false ->
  let s' := fst (exec stk r KClear s) in
  snd (exec stk r KClear s) = OOk /\ closed s' = false /\ (Inv s -> Inv s') /\
  forall k', abs s' k' = if is_prefix r k' then None else abs s k'.
Proof.
  intros stk r s C. cbn zeta. rewrite exec_spec. cbn [core]. rewrite C. cbn [fst snd]. unfold abs, Inv. cbn [m closed].
  split; [reflexivity|split; [reflexivity|split]].
  - intro; apply keys_filter_NoDup; auto.
  - intro k'. apply lookup_del_prefix.
Qed.

(* two views over the same store are one map: a write through (r1,k1) is read through (r2,k2) exactly when
   r1||k1 = r2||k2 - in particular for r2 = r1||x, k1 = x||k2 (the straddling case); any wrapper stacks *)
Theorem views_are_one_map : forall stk1 stk2 r1 r2 k1 k2 v s, closed s = false ->
  let s' := fst (exec stk1 r1 (KSet k1 v) s) in
  (r1 ++ k1 = r2 ++ k2 -> snd (exec stk2 r2 (KGet k2) s') = OVal v) /\
  (r1 ++ k1 <> r2 ++ k2 -> snd (exec stk2 r2 (KGet k2) s') = snd (exec stk2 r2 (KGet k2) s)).
Proof.
  intros stk1 stk2 r1 r2 k1 k2 v s C.
  destruct (set_spec stk1 r1 k1 v s C) as (_ & C' & _ & A). cbn zeta in *.
  destruct (get_spec stk2 r2 k2 _ C') as (G & _). destruct (get_spec stk2 r2 k2 s C) as (G0 & _).
  rewrite G, G0, A. split; intro H.
  - rewrite H, beqb_refl. reflexivity.
  - apply not_eq_sym in H. apply beqb_neq in H. rewrite H. reflexivity.
Qed.

Corollary straddling_realms : forall stk1 stk2 r x k v s, closed s = false ->
  snd (exec stk2 (r ++ x) (KGet k) (fst (exec stk1 r (KSet (x ++ k) v) s))) = OVal v.
Proof. intros. apply views_are_one_map; auto. rewrite app_assoc. reflexivity. Qed.

(* ---------- iteration ---------- *)
Lemma In_sort_by : forall le l e, In e (sort_by le l) <-> In e l.
Proof.
  intros. split; intro H.
  - eapply Permutation_in; [apply sort_by_perm | exact H].
  - eapply Permutation_in; [apply Permutation_sym; apply sort_by_perm | exact H].
Qed.

Definition sel (r p : bytes) (mm : kvmap) : kvmap := filter (fun e => is_prefix (r ++ p) (fst e)) mm.
Definition sorted_sel (r p : bytes) (d : dir) (mm : kvmap) : kvmap :=
  match d with DBwd => sort_by bgeb (sel r p mm) | _ => sort_by bleb (sel r p mm) end.

Lemma iterate_unfold : forall r p d mm, iterate r p d mm = strip r (sorted_sel r p d mm).
Proof. intros. unfold iterate, strip, sorted_sel, sel. destruct d; reflexivity. Qed.

Lemma In_sorted_sel : forall r p d mm e, In e (sorted_sel r p d mm) <-> In e mm /\ is_prefix (r ++ p) (fst e) = true.
Proof.
  intros. unfold sorted_sel. destruct d; rewrite In_sort_by; unfold sel; rewrite filter_In; tauto.
Qed.

(* exactly the entries whose full key carries realm||prefix, with the realm stripped *)
Theorem iterate_exact : forall r p d s k v, Inv s ->
  (In (k, v) (iterate r p d (m s)) <-> exists k', k = p ++ k' /\ abs s (r ++ p ++ k') = Some v).
Proof.
  intros r p d s k v I. rewrite iterate_unfold. unfold strip. rewrite in_map_iff. split.
  - intros [[fk fv] [E H]]. cbn in E. inversion E; subst. apply In_sorted_sel in H as [H P]. cbn in P.
    apply is_prefix_spec in P as [k' ->]. exists k'. rewrite <- app_assoc. rewrite skipn_app_len. split; auto.
    unfold abs. apply In_lookup; auto. rewrite <- app_assoc in H. exact H.
  - intros [k' [-> H]]. exists (r ++ p ++ k', v). cbn. rewrite skipn_app_len. split; auto.
    apply In_sorted_sel. split. apply lookup_In. exact H. cbn. rewrite app_assoc. apply is_prefix_app.
Qed.

Lemma bleb_app_l : forall r a b, bleb (r ++ a) (r ++ b) = bleb a b.
Proof. induction r as [|x r IH]; intros; simpl; auto. rewrite N.ltb_irrefl. apply IH. Qed.

Lemma StronglySorted_map_in : forall {A B} (R1 : A -> A -> Prop) (R2 : B -> B -> Prop) (g : A -> B) l,
  StronglySorted R1 l -> (forall x y, In x l -> In y l -> R1 x y -> R2 (g x) (g y)) -> StronglySorted R2 (map g l).
Proof.
  intros A B R1 R2 g l S. induction S as [|x l S IH F]; intros H; simpl; constructor.
  - apply IH. intros; apply H; simpl; auto.
  - rewrite Forall_forall in *. intros y Hy. apply in_map_iff in Hy as [z [<- Hz]]. apply H; simpl; auto.
Qed.

Lemma SS_strict : forall le l, SS le l ->
  StronglySorted (fun x y : kv => le (fst x) (fst y) = true /\ fst x <> fst y) l.
Proof.
  intros le l [S N]. induction S as [|x l S IH F]; constructor.
  - apply IH. inversion N; assumption.
  - inversion N; subst. rewrite Forall_forall in *. intros y Hy. split. apply F; assumption.
    intro E. apply H1. rewrite E. unfold keys. apply in_map. assumption.
Qed.

Lemma sorted_sel_SS : forall r p d mm, NoDup (keys mm) ->
  SS (match d with DBwd => bgeb | _ => bleb end) (sorted_sel r p d mm).
Proof.
  intros r p d mm N. assert (NoDup (keys (sel r p mm))) by (apply keys_filter_NoDup; assumption).
  unfold sorted_sel. destruct d; try (apply (sort_by_SS bleb bleb_total bleb_trans); assumption).
  apply (sort_by_SS bgeb bgeb_total bgeb_trans); assumption.
Qed.

(* ascending byte order of the stripped keys (strict: no key twice); descending for Backward *)
Theorem iterate_sorted : forall r p d s, Inv s ->
  StronglySorted (match d with DBwd => fun a b => blt b a | _ => blt end) (map fst (iterate r p d (m s))).
Proof.
  intros r p d s I. rewrite iterate_unfold. unfold strip. rewrite map_map. cbn [fst].
  pose proof (SS_strict _ _ (sorted_sel_SS r p d (m s) I)) as S.
  eapply StronglySorted_map_in; [exact S|]. cbn beta.
  intros [k1 v1] [k2 v2] H1 H2 [L NE]. cbn [fst] in *.
  apply In_sorted_sel in H1 as [_ P1]. apply In_sorted_sel in H2 as [_ P2]. cbn in P1, P2.
  apply is_prefix_spec in P1 as [a ->]. apply is_prefix_spec in P2 as [b ->].
  rewrite <- !app_assoc, !skipn_app_len. rewrite <- !app_assoc in L, NE.
  destruct d; unfold blt, bgeb in *; rewrite bleb_app_l in L; (split; [exact L | intro E; apply NE; rewrite E; reflexivity]).
Qed.

Theorem iterate_nodup : forall r p d s, Inv s -> NoDup (map fst (iterate r p d (m s))).
Proof.
  intros r p d s I. pose proof (iterate_sorted r p d s I) as S. revert S.
  generalize (map fst (iterate r p d (m s))). intros l S.
  induction S as [|x l S IH F]; constructor; auto.
  intro Hin. rewrite Forall_forall in F. apply F in Hin. destruct d; destruct Hin as [_ NE]; congruence.
Qed.

(* the consumer sees the first n entries of that list and nothing after it said stop; IterateKeys = the keys *)
Theorem iterate_stops : forall stk r p d lim s, closed s = false -> d <> DBad ->
  snd (exec stk r (KIterate p d lim) s) = OKVs (firstn (Nat.max 1 lim) (iterate r p d (m s))) /\
  snd (exec stk r (KIterateKeys p d lim) s) = OKeys (map fst (firstn (Nat.max 1 lim) (iterate r p d (m s)))) /\
  (forall k', abs (fst (exec stk r (KIterate p d lim) s)) k' = abs s k').
Proof.
  intros stk r p d lim s C D. rewrite !exec_spec. cbn [core]. rewrite C. destruct d; try congruence; cbn; auto.
Qed.

(* ---------- batches ---------- *)
Definition bbuild_step (acc : kvmap * list bytes) (o : bop) : kvmap * list bytes :=
  match o with
  | BS k v => (put k v (fst acc), removeb k (snd acc))
  | BD k => (remove k (fst acc), k :: removeb k (snd acc))
  end.
(* the two Go maps of a batch after the calls ops (oldest first) *)
Definition bbuild (ops : list bop) : kvmap * list bytes := fold_left bbuild_step ops ([], []).

Lemma bbuild_inv : forall ops, NoDup (keys (fst (bbuild ops))) /\
  forall k, bact (fst (bbuild ops)) (snd (bbuild ops)) k = lact ops k.
Proof.
  induction ops as [|o ops [IH1 IH2]] using rev_ind.
  - split. constructor. reflexivity.
  - unfold bbuild in *. rewrite fold_left_app. cbn [fold_left].
    destruct (fold_left bbuild_step ops ([], [])) as [sets dels]. cbn [fst snd] in *.
    destruct o as [k v|k]; cbn [bbuild_step fst snd]; split.
    + apply put_NoDup; assumption.
    + intro k'. rewrite bact_set, lact_snoc, IH2. reflexivity.
    + apply keys_filter_NoDup; assumption.
    + intro k'. rewrite bact_del, lact_snoc, IH2. reflexivity.
Qed.

(* Commit applies, per key, the LAST Set/Delete the batch received; keys outside the view's realm and keys
   the batch never mentioned keep their value; nothing else happens *)
Theorem commit_last_op_per_key : forall stk r ops s, closed s = false ->
  let c := KCommit (fst (bbuild ops)) (snd (bbuild ops)) in
  let s' := fst (exec stk r c s) in
  snd (exec stk r c s) = OOk /\ (Inv s -> Inv s') /\
  (forall k, abs s' (r ++ k) = match lact ops k with Some a => a | None => abs s (r ++ k) end) /\
  (forall k', is_prefix r k' = false -> abs s' k' = abs s k').
Proof.
  intros stk r ops s C. cbn zeta. rewrite exec_spec. cbn [core]. rewrite C. cbn [fst snd]. unfold abs, Inv. cbn [m].
  destruct (bbuild_inv ops) as [N B]. repeat split.
  - apply commit_NoDup.
  - intro k. rewrite commit_lookup by assumption. rewrite B. reflexivity.
  - intros k' P. apply commit_other. assumption.
Qed.

(* Cancel empties the batch: a Commit after Cancel changes nothing *)
Theorem cancel_noop : forall stk r s, closed s = false ->
  snd (exec stk r (KCommit [] []) s) = OOk /\ forall k, abs (fst (exec stk r (KCommit [] []) s)) k = abs s k.
Proof. intros stk r s C. rewrite exec_spec. cbn [core]. rewrite C. cbn. auto. Qed.

(* ---------- closed store ---------- *)
Definition fails_when_closed (o : kvop) : bool :=
  match o with KClose | KBSet _ _ | KBDelete _ => false | _ => true end.

(* after Close every read, write, iteration, view creation, batch creation, Flush and Commit, through every
   view and wrapper stack, returns ErrStoreClosed and leaves map and flag alone *)
Theorem closed_all_fail : forall stk r o s, closed s = true -> fails_when_closed o = true ->
  snd (exec stk r o s) = OClosed /\ m (fst (exec stk r o s)) = m s /\ closed (fst (exec stk r o s)) = true.
Proof.
  intros stk r o s C F. rewrite exec_spec. rewrite C. destruct o; try discriminate; cbn; auto.
Qed.

Lemma core_closed : forall r o mm, exists x, core r o mm true = (mm, true, x).
Proof. intros r o mm. destruct o; cbn; eauto. Qed.

Lemma exec_closed_frozen : forall stk r o s, closed s = true ->
  m (fst (exec stk r o s)) = m s /\ closed (fst (exec stk r o s)) = true.
Proof.
  intros stk r o s C. rewrite exec_spec. rewrite C. destruct (core_closed r o (m s)) as [x ->]. cbn. auto.
Qed.

Theorem close_spec : forall stk r s,
  snd (exec stk r KClose s) = OOk /\ closed (fst (exec stk r KClose s)) = true /\ m (fst (exec stk r KClose s)) = m s.
Proof. intros. rewrite exec_spec. cbn. auto. Qed.

Lemma step_closed_frozen : forall w o, closed (w_st w) = true ->
  m (w_st (fst (step w o))) = m (w_st w) /\ closed (w_st (fst (step w o))) = true.
Proof.
  intros [s vs bs] o C. cbn [w_st] in C.
  destruct o; cbn [step];
    try (destruct (nth_error vs v) as [vw|]; [|cbn; auto]);
    try (destruct (nth_error bs b) as [bt|]; [|cbn; auto]);
    try (cbn; auto; fail).
  - destruct (exec_closed_frozen (v_stack vw) (v_realm vw) KWithRealm s C) as [A B].
    destruct (exec (v_stack vw) (v_realm vw) KWithRealm s) as [s' res]. destruct (is_ok res); cbn in *; auto.
  - destruct (exec_closed_frozen (v_stack vw) (v_realm vw) KWithRealm s C) as [A B].
    destruct (exec (v_stack vw) (v_realm vw) KWithRealm s) as [s' res]. destruct (is_ok res); cbn in *; auto.
  - destruct (user_op o); [|cbn; auto].
    destruct (exec_closed_frozen (v_stack vw) (v_realm vw) o s C) as [A B].
    destruct (exec (v_stack vw) (v_realm vw) o s) as [s' res]. cbn in *; auto.
  - destruct (exec_closed_frozen (v_stack vw) (v_realm vw) KBatched s C) as [A B].
    destruct (exec (v_stack vw) (v_realm vw) KBatched s) as [s' res]. destruct (is_ok res); cbn in *; auto.
  - destruct (exec_closed_frozen (b_stack bt) (b_realm bt) (KBSet k v) s C) as [A B].
    destruct (exec (b_stack bt) (b_realm bt) (KBSet k v) s) as [s' res]. cbn in *; auto.
  - destruct (exec_closed_frozen (b_stack bt) (b_realm bt) (KBDelete k) s C) as [A B].
    destruct (exec (b_stack bt) (b_realm bt) (KBDelete k) s) as [s' res]. cbn in *; auto.
  - destruct (exec_closed_frozen (b_stack bt) (b_realm bt) (KCommit (b_sets bt) (b_dels bt)) s C) as [A B].
    destruct (exec (b_stack bt) (b_realm bt) (KCommit (b_sets bt) (b_dels bt)) s) as [s' res]. cbn in *; auto.
Qed.

(* once closed, no history reopens the store or changes its contents *)
Theorem closed_state_frozen : forall h w, closed (w_st w) = true ->
  m (w_st (fst (run w h))) = m (w_st w) /\ closed (w_st (fst (run w h))) = true.
Proof.
  induction h as [|o h IH]; intros w C; cbn [run].
  - auto.
  - destruct (step_closed_frozen w o C) as [A B]. destruct (step w o) as [w1 x]. cbn [fst] in *.
    destruct (IH w1 B) as [A2 B2]. destruct (run w1 h) as [w2 xs]. cbn [fst] in *. split; congruence.
Qed.

(* operations of a history that must fail on a closed store (with a valid handle) *)
Definition op_fails_when_closed (o : op) : bool :=
  match o with
  | OpWithRealm _ _ | OpWithExtRealm _ _ | OpBatched _ | OpBCommit _ => true
  | OpKV _ ko => user_op ko && fails_when_closed ko
  | _ => false
  end.

Theorem closed_world_all_fail : forall w o, closed (w_st w) = true -> op_fails_when_closed o = true ->
  snd (step w o) = OClosed \/ snd (step w o) = OBadHandle.
Proof.
  intros [s vs bs] o C F. cbn [w_st] in C.
  destruct o; try discriminate; cbn [step];
    try (destruct (nth_error vs v) as [vw|]; [|cbn; auto]);
    try (destruct (nth_error bs b) as [bt|]; [|cbn; auto]).
  - destruct (closed_all_fail (v_stack vw) (v_realm vw) KWithRealm s C eq_refl) as [A _].
    destruct (exec (v_stack vw) (v_realm vw) KWithRealm s) as [s' res]. cbn in A. subst. cbn. auto.
  - destruct (closed_all_fail (v_stack vw) (v_realm vw) KWithRealm s C eq_refl) as [A _].
    destruct (exec (v_stack vw) (v_realm vw) KWithRealm s) as [s' res]. cbn in A. subst. cbn. auto.
  - cbn in F. apply andb_true_iff in F as [U F]. rewrite U.
    destruct (closed_all_fail (v_stack vw) (v_realm vw) o s C F) as [A _].
    destruct (exec (v_stack vw) (v_realm vw) o s) as [s' res]. cbn in A. subst. cbn. auto.
  - destruct (closed_all_fail (v_stack vw) (v_realm vw) KBatched s C eq_refl) as [A _].
    destruct (exec (v_stack vw) (v_realm vw) KBatched s) as [s' res]. cbn in A. subst. cbn. auto.
  - destruct (closed_all_fail (b_stack bt) (b_realm bt) (KCommit (b_sets bt) (b_dels bt)) s C eq_refl) as [A _].
    destruct (exec (b_stack bt) (b_realm bt) (KCommit (b_sets bt) (b_dels bt)) s) as [s' res]. cbn in A. subst. cbn. auto.
Qed.

(* ---------- wrappers are transparent ---------- *)
Theorem wrapper_transparent : forall stk r o s,
  snd (exec stk r o s) = snd (exec [] r o s) /\
  m (fst (exec stk r o s)) = m (fst (exec [] r o s)) /\
  closed (fst (exec stk r o s)) = closed (fst (exec [] r o s)) /\
  log (fst (exec stk r o s)) = rev (log_of stk o) ++ log s.
Proof.
  intros. rewrite !exec_spec. destruct (core r o (m s) (closed s)) as [[mm' cl'] x]. cbn. auto.
Qed.

(* flushkv = flush-on-write: a call through a stack makes the store see exactly one Flush per flushkv wrapper
   after a mutation (Set/Delete/DeletePrefix/Clear/batch Commit) that succeeded, none otherwise *)
Theorem flush_on_write : forall stk r o s,
  nfl (fst (exec stk r o s)) = (nfl s + flushes_of stk o (snd (exec [] r o s)))%nat.
Proof.
  intros. rewrite !exec_spec. destruct (core r o (m s) (closed s)) as [[mm' cl'] x]. cbn. reflexivity.
Qed.

(* ---------- every reachable state is a map (unique keys) ---------- *)
Theorem reachable_inv : forall h, Inv (w_st (fst (run init h))).
Proof. intro h. destruct (run_refines h init sinit R_init) as [HR _]. apply (R_nodup _ _ HR). Qed.

(* ---------- the central theorem ---------- *)
Theorem refines : forall h,
  snd (run init h) = snd (srun sinit h) /\
  log (w_st (fst (run init h))) = s_log (fst (srun sinit h)) /\
  (forall k, abs (w_st (fst (run init h))) k = lookup k (s_map (fst (srun sinit h)))) /\
  closed (w_st (fst (run init h))) = s_closed (fst (srun sinit h)).
Proof.
  intro h. destruct (run_refines h init sinit R_init) as [HR HO].
  repeat split; auto. apply (R_log _ _ HR). apply (R_lookup _ _ HR). apply (R_closed _ _ HR).
Qed.

(* the specification's map is an ordered map: strictly ascending full keys, in every reachable state *)
Theorem spec_map_sorted : forall h, SS bleb (s_map (fst (srun sinit h))).
Proof. intro h. destruct (run_refines h init sinit R_init) as [HR _]. apply (R_sorted _ _ HR). Qed.

(* ====================================================================================================
   Re-entrant consumers (histories over `hop`, executed by `hrun`)
   ==================================================================================================== *)
Theorem hreachable_inv : forall h, Inv (w_st (fst (hrun init h))).
Proof. intro h. destruct (hrun_refines h init sinit R_init) as [HR _]. apply (R_nodup _ _ HR). Qed.

Theorem hrefines : forall h,
  snd (hrun init h) = snd (shrun sinit h) /\
  log (w_st (fst (hrun init h))) = s_log (fst (shrun sinit h)) /\
  (forall k, abs (w_st (fst (hrun init h))) k = lookup k (s_map (fst (shrun sinit h)))) /\
  closed (w_st (fst (hrun init h))) = s_closed (fst (shrun sinit h)).
Proof.
  intro h. destruct (hrun_refines h init sinit R_init) as [HR HO].
  repeat split; auto. apply (R_log _ _ HR). apply (R_lookup _ _ HR). apply (R_closed _ _ HR).
Qed.

Theorem hspec_map_sorted : forall h, SS bleb (s_map (fst (shrun sinit h))).
Proof. intro h. destruct (hrun_refines h init sinit R_init) as [HR _]. apply (R_sorted _ _ HR). Qed.

Lemma hstep_closed_frozen : forall w o, closed (w_st w) = true ->
  m (w_st (fst (hstep w o))) = m (w_st w) /\ closed (w_st (fst (hstep w o))) = true.
Proof.
  intros w o C. destruct o as [o|v ko p d lim script]; cbn [hstep].
  - destruct (step_closed_frozen w o C) as [A B]. destruct (step w o) as [w1 x]. cbn [fst] in *. auto.
  - destruct (step_closed_frozen w (OpKV v (iter_op ko p d lim)) C) as [A B].
    destruct (step w (OpKV v (iter_op ko p d lim))) as [w1 x]. cbn [fst] in *.
    destruct (closed_state_frozen (consumer_ops (ndeliv x) script) w1 B) as [A2 B2].
    destruct (run w1 (consumer_ops (ndeliv x) script)) as [w2 xs]. cbn [fst] in *. split; congruence.
Qed.

Theorem hclosed_state_frozen : forall h w, closed (w_st w) = true ->
  m (w_st (fst (hrun w h))) = m (w_st w) /\ closed (w_st (fst (hrun w h))) = true.
Proof.
  induction h as [|o h IH]; intros w C; cbn [hrun].
  - auto.
  - destruct (hstep_closed_frozen w o C) as [A B]. destruct (hstep w o) as [w1 x]. cbn [fst] in *.
    destruct (IH w1 B) as [A2 B2]. destruct (hrun w1 h) as [w2 xs]. cbn [fst] in *. split; congruence.
Qed.

(* what was delivered by an iteration that returned r *)
Definition delivered (ko : bool) (snap : kvmap) : out := if ko then OKeys (map fst snap) else OKVs snap.

(* the world right after the snapshot was taken: only the debug wrappers of the stack have logged the call *)
Definition after_snapshot (w : world) (vw : view) (o : kvop) : world :=
  let s := w_st w in
  mkW (mkSt (m s) (closed s) (rev (log_of (v_stack vw) o) ++ log s) (nfl s)) (w_views w) (w_batches w).

(* Iterate / IterateKeys with a consumer that calls back into the store (any script of history operations per
   callback, through any view / wrapper / batch): the delivered list is the iteration of the state AT CALL TIME
   (whatever the script does), the consumer was called once per delivered entry, and the world afterwards is the
   fold of the consumer's operations, in order, over the state at call time. *)
Theorem iterate_snapshot_reentrant : forall w v vw ko p d lim script,
  nth_error (w_views w) v = Some vw -> closed (w_st w) = false -> d <> DBad ->
  let snap := firstn (Nat.max 1 lim) (iterate (v_realm vw) p d (m (w_st w))) in
  let ops := consumer_ops (length snap) script in
  let w0 := after_snapshot w vw (iter_op ko p d lim) in
  hstep w (HIterRe v ko p d lim script) = (fst (run w0 ops), delivered ko snap :: snd (run w0 ops)).
Proof.
  intros [s vs bs] v vw ko p d lim script E C D. cbn [w_st w_views w_batches] in *. cbn zeta.
  cbn [hstep step]. rewrite E.
  assert (U : user_op (iter_op ko p d lim) = true) by (destruct ko; reflexivity). rewrite U.
  rewrite exec_spec. unfold after_snapshot. cbn [w_st w_views w_batches]. rewrite C.
  destruct ko; cbn [iter_op core]; destruct d; try congruence; cbn [delivered ndeliv flushes_of is_flush mutating andb];
    unfold consumed; rewrite ?map_length, Nat.add_0_r;
    match goal with |- (let '(w2, xs) := ?X in _) = _ => rewrite (surjective_pairing X) end; reflexivity.
Qed.

(* in particular the delivered list does not depend on what the consumer does *)
Corollary iterate_reentrant_delivery_independent : forall w v ko p d lim script,
  hd OBadHandle (snd (hstep w (HIterRe v ko p d lim script))) = snd (step w (OpKV v (iter_op ko p d lim))).
Proof.
  intros. cbn [hstep]. destruct (step w (OpKV v (iter_op ko p d lim))) as [w1 res].
  destruct (run w1 (consumer_ops (ndeliv res) script)) as [w2 xs]. reflexivity.
Qed.

(* on a closed store / with an invalid direction the consumer is never called: nothing of the script runs *)
Theorem iterate_reentrant_no_callbacks : forall w v vw ko p d lim script,
  nth_error (w_views w) v = Some vw -> closed (w_st w) = true \/ d = DBad ->
  hstep w (HIterRe v ko p d lim script) =
    (after_snapshot w vw (iter_op ko p d lim), [if closed (w_st w) then OClosed else OPanic]).
Proof.
  intros [s vs bs] v vw ko p d lim script E H. cbn [w_st w_views w_batches] in *.
  cbn [hstep step]. rewrite E.
  assert (U : user_op (iter_op ko p d lim) = true) by (destruct ko; reflexivity). rewrite U.
  rewrite exec_spec. unfold after_snapshot. cbn [w_st w_views w_batches].
  destruct (closed s) eqn:C.
  - destruct ko; cbn [iter_op core ndeliv consumer_ops firstn concat run flushes_of is_flush mutating andb];
      rewrite Nat.add_0_r; reflexivity.
  - destruct H as [H|H]; [discriminate|]. subst d.
    destruct ko; cbn [iter_op core ndeliv consumer_ops firstn concat run flushes_of is_flush mutating andb];
      rewrite Nat.add_0_r; reflexivity.
Qed.
