(* C15 (c): executable model of runtime/valuenotifier/listener.go, in three versions:
     VPinned  the pinned code  (removeListener looks the value up again and closes the channel when the count is 0)
     VMid     after fix a95de67 (removeListener only touches the listener's own entry and never closes)
     VCur     after fix f215c7a (Wait re-checks the deregistered flag after the notification channel fired) = /repo now
   Channels are numbers, [closed] is the set of closed ones. Atomic steps:
     NAListener v    Listener(v) under the write lock
     NANotify v      Notify(v) (read-locked pre-check + write-locked re-check = one atomic test-and-close)
     NAWait l        new thread; Wait's first action  deregistered.Load()
     NADeregister l  new thread; Deregister's first action  deregistered.Swap(true)
     NAStep t c      next action of thread t:  select (c = which ready case fires; blocked if not ready; the context can be done
                     at any time) / Load after the channel case / the deferred Swap / close(deregisteredChan) / removeListener
   [l_ok] is a ghost flag: some Notify(l_val) step closed l's channel while l was not yet deregistered (flag false). *)
From Coq Require Import List NArith Bool Arith.
Import ListNotations.

Inductive version := VPinned | VMid | VCur.
Inductive result := ROk | RDereg | RCtx.
Inductive choice := CChan | CDereg | CCtx.

Record entry := mkEn { en_val : N; en_chan : nat; en_cnt : nat }.
Record lst := mkL { l_val : N; l_chan : nat; l_dereg : bool; l_dclosed : bool; l_ok : bool }.
Inductive npc := NSel | NChk | NDefer | ND2 | ND3 | NDone.
Record thr := mkT { th_l : nat; th_pc : npc; th_res : option result }.

Record nst := mkN { entries : list entry; nchan : nat; closed : list nat; lsts : list lst; nthr : list thr }.
Definition ninit : nst := mkN [] 0 [] [] [].

Inductive naction := NAListener (v : N) | NANotify (v : N) | NAWait (l : nat) | NADeregister (l : nat) | NAStep (t : nat) (c : choice).

Fixpoint find_entry (v : N) (l : list entry) : option entry :=
  match l with [] => None | e :: r => if N.eqb (en_val e) v then Some e else find_entry v r end.
Fixpoint del_entry (v : N) (l : list entry) : list entry :=
  match l with [] => [] | e :: r => if N.eqb (en_val e) v then r else e :: del_entry v r end.
Fixpoint set_entry (v : N) (f : entry -> entry) (l : list entry) : list entry :=
  match l with [] => [] | e :: r => if N.eqb (en_val e) v then f e :: r else e :: set_entry v f r end.
Definition is_closed (c : nat) (s : nst) : bool := existsb (Nat.eqb c) (closed s).

Fixpoint updn {A} (l : list A) (i : nat) (f : A -> A) : list A :=
  match l, i with
  | [], _ => []
  | x :: r, 0 => f x :: r
  | x :: r, S j => x :: updn r j f
  end.

Definition set_lsts (s : nst) l := mkN (entries s) (nchan s) (closed s) l (nthr s).
Definition set_thr (s : nst) t := mkN (entries s) (nchan s) (closed s) (lsts s) t.
Definition set_entries (s : nst) e := mkN e (nchan s) (closed s) (lsts s) (nthr s).

(* removeListener of the three versions, for listener (v, ch) *)
Definition remove_listener (ver : version) (s : nst) (v : N) (ch : nat) : nst :=
  match find_entry v (entries s) with
  | None => s
  | Some e =>
      match ver with
      | VPinned =>
          if Nat.eqb (en_cnt e) 1
          then mkN (del_entry v (entries s)) (nchan s) (en_chan e :: closed s) (lsts s) (nthr s)
          else set_entries s (set_entry v (fun e => mkEn (en_val e) (en_chan e) (pred (en_cnt e))) (entries s))
      | _ =>
          if Nat.eqb (en_chan e) ch then
            if Nat.eqb (en_cnt e) 1 then set_entries s (del_entry v (entries s))
            else set_entries s (set_entry v (fun e => mkEn (en_val e) (en_chan e) (pred (en_cnt e))) (entries s))
          else s
      end
  end.

Definition mark_ok (v : N) (ch : nat) (x : lst) : lst :=
  if N.eqb (l_val x) v && Nat.eqb (l_chan x) ch && negb (l_dereg x)
  then mkL (l_val x) (l_chan x) (l_dereg x) (l_dclosed x) true else x.

(* deregistered.Swap(true): returns the thread's next pc *)
Definition swap_dereg (s : nst) (l : nat) : nst * npc :=
  match nth_error (lsts s) l with
  | None => (s, NDone)
  | Some x =>
      if l_dereg x then (s, NDone)
      else (set_lsts s (updn (lsts s) l (fun x => mkL (l_val x) (l_chan x) true (l_dclosed x) (l_ok x))), ND2)
  end.

Definition set_t (s : nst) (t : nat) (p : npc) (r : option result) : nst :=
  set_thr s (updn (nthr s) t (fun x => mkT (th_l x) p r)).

Definition nstep (ver : version) (s : nst) (a : naction) : nst :=
  match a with
  | NAListener v =>
      match find_entry v (entries s) with
      | Some e =>
          mkN (set_entry v (fun e => mkEn (en_val e) (en_chan e) (S (en_cnt e))) (entries s)) (nchan s) (closed s)
              (lsts s ++ [mkL v (en_chan e) false false false]) (nthr s)
      | None =>
          mkN (entries s ++ [mkEn v (nchan s) 1]) (S (nchan s)) (closed s)
              (lsts s ++ [mkL v (nchan s) false false false]) (nthr s)
      end
  | NANotify v =>
      match find_entry v (entries s) with
      | None => s
      | Some e => mkN (del_entry v (entries s)) (nchan s) (en_chan e :: closed s) (map (mark_ok v (en_chan e)) (lsts s)) (nthr s)
      end
  | NAWait l =>
      match nth_error (lsts s) l with
      | None => set_thr s (nthr s ++ [mkT l NDone None])
      | Some x => if l_dereg x then set_thr s (nthr s ++ [mkT l NDone (Some RDereg)])
                  else set_thr s (nthr s ++ [mkT l NSel None])
      end
  | NADeregister l =>
      let '(s1, p) := swap_dereg s l in set_thr s1 (nthr s1 ++ [mkT l p None])
  | NAStep t c =>
      match nth_error (nthr s) t with
      | None => s
      | Some th =>
          let l := th_l th in
          match nth_error (lsts s) l with
          | None => s
          | Some x =>
              match th_pc th with
              | NSel =>
                  match c with
                  | CChan => if is_closed (l_chan x) s
                             then match ver with VCur => set_t s t NChk None | _ => set_t s t NDefer (Some ROk) end
                             else s
                  | CDereg => if l_dclosed x then set_t s t NDefer (Some RDereg) else s
                  | CCtx => set_t s t NDefer (Some RCtx)
                  end
              | NChk => set_t s t NDefer (Some (if l_dereg x then RDereg else ROk))
              | NDefer => let '(s1, p) := swap_dereg s l in set_t s1 t p (th_res th)
              | ND2 => set_t (set_lsts s (updn (lsts s) l (fun x => mkL (l_val x) (l_chan x) (l_dereg x) true (l_ok x)))) t ND3 (th_res th)
              | ND3 => set_t (remove_listener ver s (l_val x) (l_chan x)) t NDone (th_res th)
              | NDone => s
              end
          end
      end
  end.

Definition nrun (ver : version) (s : nst) (l : list naction) : nst := fold_left (nstep ver) l s.

(* results of the Wait calls that have returned: (listener, result) *)
Definition wait_results (s : nst) : list (nat * result) :=
  flat_map (fun th => match th_pc th, th_res th with NDone, Some r => [(th_l th, r)] | _, _ => [] end) (nthr s).
