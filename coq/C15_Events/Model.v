(* C15 (a): executable model of runtime/event (event.go, events.go, hook.go, options.go) over the part of
   ds/orderedmap that event uses (Set of a fresh key, Delete, ForEach).

   Hooks of all events live in one table, indexed by allocation order (= attachment order); the index is the hook's
   identity.  The ordered map of an event is its list [e_live] of attached hook indices (insertion order).  An element
   that is deleted from the linked list keeps its [next] pointer in the Go code (Delete only re-links the neighbours):
   that frozen pointer is [h_frozen]; a walker (OrderedMap.ForEach inside Trigger) standing on a removed element
   continues from it.  Every shared-memory operation of Trigger is one step of a thread:
     ATrigger        triggerCount.Add(1) of the event + comparison with the limit            (atomic in the code)
     FWalk .. PHead  read of the list head under RLock
     PAt n           triggerCount.Add(1) of hook n + comparison with the hook's limit        (atomic in the code)
     PUnhook n       hook.Unhook()  (OrderedMap.Delete under the write lock)
     PCall n         hook.trigger(args) / workerPool.Submit(...) ; a link hook calls Trigger of the linked event inline
     PNext n         read of n.next under RLock
   [now], [h_born], [h_died], [trigs], [calls] are ghost history variables (never read by the control flow). *)
From Coq Require Import List NArith Bool Arith.
Import ListNotations.

Inductive kind := KCb | KLink (e : nat).
Inductive poolopt := PDefault | PSync | PPool.   (* no option / WithWorkerPool(nil) / WithWorkerPool(p) *)

Record hook := mkHook {
  h_ev : nat; h_kind : kind; h_max : N; h_cnt : N; h_pooled : bool;
  h_in : bool; h_frozen : option nat; h_born : nat; h_died : nat }.

Record event := mkEv { e_max : N; e_cnt : N; e_pooled : bool; e_live : list nat; e_link : option nat; e_lock : bool }.

Inductive pc := PHead | PAt (n : nat) | PUnhook (n : nat) | PCall (n : nat) | PNext (n : nat).
Inductive frame := FWalk (e : nat) (a : N) (k : nat) (p : pc) | FLink (e : nat) (tgt : option nat).

Record trig := mkTrig { t_ev : nat; t_arg : N; t_t0 : nat; t_rej : bool; t_parent : option (nat * nat) }.
Record call := mkCall { c_hook : nat; c_arg : N; c_tid : nat }.

Record st := mkSt {
  hooks : list hook; events : list event; threads : list (list frame);
  trigs : list trig; calls : list call; now : nat }.

Definition init : st := mkSt [] [] [] [] [] 0.

Fixpoint upd {A} (l : list A) (i : nat) (f : A -> A) : list A :=
  match l, i with
  | [], _ => []
  | x :: r, 0 => f x :: r
  | x :: r, S j => x :: upd r j f
  end.

Fixpoint succ_of (n : nat) (l : list nat) : option nat :=
  match l with
  | [] => None
  | x :: r => if Nat.eqb x n then hd_error r else succ_of n r
  end.

Fixpoint remove_nat (n : nat) (l : list nat) : list nat :=
  match l with
  | [] => []
  | x :: r => if Nat.eqb x n then r else x :: remove_nat n r
  end.

Definition set_hooks (s : st) h := mkSt h (events s) (threads s) (trigs s) (calls s) (now s).
Definition set_events (s : st) e := mkSt (hooks s) e (threads s) (trigs s) (calls s) (now s).
Definition set_threads (s : st) t := mkSt (hooks s) (events s) t (trigs s) (calls s) (now s).
Definition set_trigs (s : st) t := mkSt (hooks s) (events s) (threads s) t (calls s) (now s).
Definition set_calls (s : st) c := mkSt (hooks s) (events s) (threads s) (trigs s) c (now s).
Definition tick (s : st) := mkSt (hooks s) (events s) (threads s) (trigs s) (calls s) (S (now s)).

Definition ev_set_live (l : list nat) (e : event) := mkEv (e_max e) (e_cnt e) (e_pooled e) l (e_link e) (e_lock e).
Definition ev_set_cnt (c : N) (e : event) := mkEv (e_max e) c (e_pooled e) (e_live e) (e_link e) (e_lock e).
Definition ev_set_link (k : option nat) (lk : bool) (e : event) := mkEv (e_max e) (e_cnt e) (e_pooled e) (e_live e) k lk.

Definition exceeds (cnt mx : N) : bool := negb (N.eqb mx 0) && N.ltb mx cnt.

(* OrderedMap.Delete(h.id): no-op when the key is gone; the removed element keeps its successor pointer. *)
Definition delete (s : st) (n : nat) : st :=
  match nth_error (hooks s) n with
  | None => s
  | Some h =>
      if h_in h then
        match nth_error (events s) (h_ev h) with
        | None => s
        | Some e =>
            let sc := succ_of n (e_live e) in
            let h' := mkHook (h_ev h) (h_kind h) (h_max h) (h_cnt h) (h_pooled h) false sc (h_born h) (now s) in
            set_events (set_hooks s (upd (hooks s) n (fun _ => h')))
                       (upd (events s) (h_ev h) (ev_set_live (remove_nat n (e_live e))))
        end
      else s
  end.

(* event.Hook: newHook(counter.Add(1), ...) ; hooks.Set(id, hook) -- the insertion at the tail is the atomic step. *)
Definition attach (s : st) (e : nat) (k : kind) (mx : N) (po : poolopt) : st :=
  match nth_error (events s) e with
  | None => s
  | Some ev =>
      let pooled := match po with PDefault => e_pooled ev | PSync => false | PPool => true end in
      let id := length (hooks s) in
      let h := mkHook e k mx 0 pooled true None (now s) 0 in
      set_events (set_hooks s (hooks s ++ [h])) (upd (events s) e (ev_set_live (e_live ev ++ [id])))
  end.

(* First atomic step of Trigger: currentTriggerExceedsMaxTriggerCount of the event. Returns the frame to run. *)
Definition start_trigger (s : st) (e : nat) (a : N) (parent : option (nat * nat)) : st * list frame :=
  match nth_error (events s) e with
  | None => (s, [])
  | Some ev =>
      let c := N.succ (e_cnt ev) in
      let rej := exceeds c (e_max ev) in
      let k := length (trigs s) in
      let s1 := set_events s (upd (events s) e (ev_set_cnt c)) in
      let s2 := set_trigs s1 (trigs s ++ [mkTrig e a (now s) rej parent]) in
      (s2, if rej then [] else [FWalk e a k PHead])
  end.

Definition next_of (s : st) (n : nat) : option nat :=
  match nth_error (hooks s) n with
  | None => None
  | Some h =>
      if h_in h then
        match nth_error (events s) (h_ev h) with Some e => succ_of n (e_live e) | None => None end
      else h_frozen h
  end.

Definition goto (o : option nat) (e : nat) (a : N) (k : nat) (rest : list frame) : list frame :=
  match o with Some m => FWalk e a k (PAt m) :: rest | None => rest end.

(* one step of a thread whose stack is [f :: rest]; returns the new state and the new stack *)
Definition step_frame (s : st) (f : frame) (rest : list frame) : st * list frame :=
  match f with
  | FLink e tgt =>
      match tgt with
      | None => (set_events s (upd (events s) e (ev_set_link None false)), rest)
      | Some t =>
          match nth_error (events s) t with
          | None => (set_events s (upd (events s) e (ev_set_link None false)), rest)
          | Some _ =>
              let id := length (hooks s) in
              let s1 := attach s t (KLink e) 0 PDefault in
              (set_events s1 (upd (events s1) e (ev_set_link (Some id) false)), rest)
          end
      end
  | FWalk e a k PHead =>
      match nth_error (events s) e with
      | None => (s, rest)
      | Some ev => (s, goto (hd_error (e_live ev)) e a k rest)
      end
  | FWalk e a k (PAt n) =>
      match nth_error (hooks s) n with
      | None => (s, rest)
      | Some h =>
          let c := N.succ (h_cnt h) in
          let h' := mkHook (h_ev h) (h_kind h) (h_max h) c (h_pooled h) (h_in h) (h_frozen h) (h_born h) (h_died h) in
          let s1 := set_hooks s (upd (hooks s) n (fun _ => h')) in
          (s1, FWalk e a k (if exceeds c (h_max h) then PUnhook n else PCall n) :: rest)
      end
  | FWalk e a k (PUnhook n) => (delete s n, FWalk e a k (PNext n) :: rest)
  | FWalk e a k (PCall n) =>
      match nth_error (hooks s) n with
      | None => (s, rest)
      | Some h =>
          let s1 := set_calls s (calls s ++ [mkCall n a k]) in
          let cont := FWalk e a k (PNext n) :: rest in
          if h_pooled h then (s1, cont)
          else match h_kind h with
               | KCb => (s1, cont)
               | KLink e2 => let '(s2, fr) := start_trigger s1 e2 a (Some (n, k)) in (s2, fr ++ cont)
               end
      end
  | FWalk e a k (PNext n) => (s, goto (next_of s n) e a k rest)
  end.

Inductive action :=
| ANewEvent (mx : N) (pooled : bool)
| AHook (e : nat) (mx : N) (po : poolopt)
| AUnhook (h : nat)
| ATrigger (e : nat) (a : N)          (* new thread; executes the event-level count test *)
| ALinkTo (e : nat) (tgt : option nat)  (* new thread; takes linkMutex and unhooks the old link (no-op while the mutex is held) *)
| AStep (t : nat).

Definition step_thread (s : st) (t : nat) : st :=
  match nth_error (threads s) t with
  | Some (f :: rest) =>
      let '(s1, stk) := step_frame s f rest in
      set_threads s1 (upd (threads s1) t (fun _ => stk))
  | _ => s
  end.

Definition act (s : st) (a : action) : st :=
  match a with
  | ANewEvent mx p => set_events s (events s ++ [mkEv mx 0 p [] None false])
  | AHook e mx po => attach s e KCb mx po
  | AUnhook h => delete s h
  | ATrigger e a =>
      let '(s1, fr) := start_trigger s e a None in set_threads s1 (threads s1 ++ [fr])
  | ALinkTo e tgt =>
      match nth_error (events s) e with
      | None => set_threads s (threads s ++ [[]])
      | Some ev =>
          if e_lock ev then set_threads s (threads s ++ [[]])
          else
            let s1 := match e_link ev with Some l => delete s l | None => s end in
            let s2 := set_events s1 (upd (events s1) e (fun x => ev_set_link (e_link x) true x)) in
            set_threads s2 (threads s2 ++ [[FLink e tgt]])
      end
  | AStep t => step_thread s t
  end.

Definition step (s : st) (a : action) : st := tick (act s a).

Definition run (s : st) (l : list action) : st := fold_left step l s.

(* ---------- observables ---------- *)
Definition is_sync_cb (s : st) (c : call) : bool :=
  match nth_error (hooks s) (c_hook c) with
  | Some h => negb (h_pooled h) && match h_kind h with KCb => true | _ => false end
  | None => false
  end.
Definition is_pooled (s : st) (c : call) : bool :=
  match nth_error (hooks s) (c_hook c) with Some h => h_pooled h | None => false end.

Definition sync_log (s : st) : list (nat * N) := map (fun c => (c_hook c, c_arg c)) (filter (is_sync_cb s) (calls s)).
Definition pool_log (s : st) : list (nat * N) := map (fun c => (c_hook c, c_arg c)) (filter (is_pooled s) (calls s)).
Definition calls_of (s : st) (h : nat) : list call := filter (fun c => Nat.eqb (c_hook c) h) (calls s).
Definition calls_by (s : st) (k : nat) : list call := filter (fun c => Nat.eqb (c_tid c) k) (calls s).
Definition quiescent (s : st) : Prop := forall stk, In stk (threads s) -> stk = [].
