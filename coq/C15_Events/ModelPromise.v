(* C15 (b): executable model of runtime/promise/event.go (Event / Event1; the EventN variants are the same code).
   Every critical section under e.mutex is one atomic step:
     PATrigger a   lock; callbacks == nil ? return false : (callbacks = nil; value = a; snapshot = Values()); unlock
     PAOnTrigger   lock; callbacks == nil ? (not subscribed -> the callback is called inline) : callbacks[id] = cb; unlock
     PAUnsub c     lock; if callbacks != nil { delete(callbacks, c) }; unlock
     PACall t c    thread t calls one callback of its snapshot (ShrinkingMap.Values() has no order: any c of the rest)
   Callback identities are the indices of the OnTrigger calls. [p_removed] is a ghost variable. *)
From Coq Require Import List NArith Bool Arith.
Import ListNotations.

Record pst := mkP {
  p_cbs : option (list nat);          (* None = nil map = triggered *)
  p_next : nat;                       (* number of OnTrigger calls so far *)
  p_val : option N;
  p_thr : list (N * list nat);        (* per thread: argument it passes, callbacks it still has to call *)
  p_res : list bool;                  (* return values of the Trigger calls, in order *)
  p_log : list (nat * N);             (* callback invocations *)
  p_removed : list nat }.

Definition pinit : pst := mkP (Some []) 0 None [] [] [] [].

Inductive paction := PATrigger (a : N) | PAOnTrigger | PAUnsub (c : nat) | PACall (t : nat) (c : nat).

Fixpoint remove1 (n : nat) (l : list nat) : list nat :=
  match l with
  | [] => []
  | x :: r => if Nat.eqb x n then r else x :: remove1 n r
  end.
Definition mem (n : nat) (l : list nat) : bool := existsb (Nat.eqb n) l.

Fixpoint updp {A} (l : list A) (i : nat) (f : A -> A) : list A :=
  match l, i with
  | [], _ => []
  | x :: r, 0 => f x :: r
  | x :: r, S j => x :: updp r j f
  end.

Definition pstep (s : pst) (a : paction) : pst :=
  match a with
  | PATrigger v =>
      match p_cbs s with
      | None => mkP None (p_next s) (p_val s) (p_thr s ++ [(v, [])]) (p_res s ++ [false]) (p_log s) (p_removed s)
      | Some l => mkP None (p_next s) (Some v) (p_thr s ++ [(v, l)]) (p_res s ++ [true]) (p_log s) (p_removed s)
      end
  | PAOnTrigger =>
      let c := p_next s in
      match p_cbs s with
      | None =>
          let v := match p_val s with Some v => v | None => 0%N end in
          mkP None (S c) (p_val s) (p_thr s ++ [(v, [c])]) (p_res s) (p_log s) (p_removed s)
      | Some l => mkP (Some (l ++ [c])) (S c) (p_val s) (p_thr s ++ [(0%N, [])]) (p_res s) (p_log s) (p_removed s)
      end
  | PAUnsub c =>
      match p_cbs s with
      | None => s
      | Some l =>
          if mem c l then mkP (Some (remove1 c l)) (p_next s) (p_val s) (p_thr s) (p_res s) (p_log s) (p_removed s ++ [c])
          else s
      end
  | PACall t c =>
      match nth_error (p_thr s) t with
      | Some (v, rem) =>
          if mem c rem then
            mkP (p_cbs s) (p_next s) (p_val s) (updp (p_thr s) t (fun _ => (v, remove1 c rem))) (p_res s)
                (p_log s ++ [(c, v)]) (p_removed s)
          else s
      | None => s
      end
  end.

Definition prun (s : pst) (l : list paction) : pst := fold_left pstep l s.

Definition pquiescent (s : pst) : Prop := forall v rem, In (v, rem) (p_thr s) -> rem = [].
Definition pending (s : pst) : list nat := concat (map snd (p_thr s)).
