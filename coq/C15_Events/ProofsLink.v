(* C15 (a), continued: (1) a finished Trigger never invokes anything later; (2) LinkTo keeps at most one attached link hook
   per linked event (the one recorded in its link field); (3) nested Trigger calls = synchronous invocations of link hooks.
   All for ALL action lists. *)
From Coq Require Import List NArith Bool Arith Lia PeanoNat.
From Verif.C15_Events Require Import Model ProofsEvent ProofsWalk.
Import ListNotations.

(* ---------- (1) finished triggers stay finished and silent ---------- *)
Lemma start_trigger_local : forall s e a p s1 fr, start_trigger s e a p = (s1, fr) ->
  threads s1 = threads s /\ calls s1 = calls s /\ hooks s1 = hooks s /\ length (trigs s) <= length (trigs s1) /\
  (forall k, k < length (trigs s) -> nfr_stk k fr = 0).
Proof.
  intros s e a p s1 fr H. unfold start_trigger in H. destruct (nth_error (events s) e).
  - inversion H; subst; simpl. rewrite app_length. simpl. repeat split; try lia. intros k Lk.
    destruct (exceeds _ _); [reflexivity|]. unfold nfr_stk. simpl. destruct (Nat.eqb (length (trigs s)) k) eqn:E; [|reflexivity].
    apply Nat.eqb_eq in E. lia.
  - inversion H; subst. repeat split; auto.
Qed.

Lemma nfr_stk_app : forall k a b, nfr_stk k (a ++ b) = nfr_stk k a + nfr_stk k b.
Proof. intros. unfold nfr_stk. rewrite map_app, list_sum_app. reflexivity. Qed.
Lemma nfr_stk_cons : forall k f r, nfr_stk k (f :: r) = is_w k f + nfr_stk k r.
Proof. reflexivity. Qed.

Lemma step_frame_local : forall s f rest s1 stk, step_frame s f rest = (s1, stk) ->
  threads s1 = threads s /\ length (trigs s) <= length (trigs s1) /\
  (forall k, k < length (trigs s) -> nfr_stk k stk <= nfr_stk k (f :: rest)) /\
  (exists cs, calls s1 = calls s ++ cs /\ forall c, In c cs -> is_w (c_tid c) f = 1).
Proof.
  intros s f rest s1 stk H.
  assert (NoC : forall s0, calls s0 = calls s -> exists cs, calls s0 = calls s ++ cs /\ forall c, In c cs -> is_w (c_tid c) f = 1).
  { intros s0 E. exists []. rewrite app_nil_r. split; [exact E|intros c []]. }
  assert (Gt : forall o e a k k0, nfr_stk k0 (goto o e a k rest) <= nfr_stk k0 (FWalk e a k PHead :: rest)).
  { intros [m|] e a k k0; unfold goto; rewrite ?nfr_stk_cons; simpl; lia. }
  destruct f as [e a k p|e tgt]; unfold step_frame in H.
  - destruct p as [|n|n|n|n].
    + destruct (nth_error (events s) e); inversion H; subst; (split; [reflexivity|]); (split; [lia|]); (split; [|apply NoC; reflexivity]);
        intros k0 _; [apply Gt | rewrite nfr_stk_cons; lia].
    + destruct (nth_error (hooks s) n); inversion H; subst; (split; [reflexivity|]); (split; [simpl; lia|]); (split; [|apply NoC; reflexivity]);
        intros k0 _; rewrite !nfr_stk_cons; simpl; lia.
    + inversion H; subst. destruct (delete_tct s n) as (T1 & T2 & T3 & _). split; [exact T1|]. split; [rewrite T2; lia|].
      split; [|apply NoC; exact T3]. intros k0 _. rewrite !nfr_stk_cons. simpl. lia.
    + destruct (nth_error (hooks s) n) as [h|].
      2:{ inversion H; subst. split; [reflexivity|]. split; [lia|]. split; [|apply NoC; reflexivity]. intros k0 _. rewrite nfr_stk_cons. lia. }
      assert (One : exists cs, calls s ++ [mkCall n a k] = calls s ++ cs /\ forall c, In c cs -> is_w (c_tid c) (FWalk e a k (PCall n)) = 1).
      { exists [mkCall n a k]. split; [reflexivity|]. intros c [<-|[]]. simpl. rewrite Nat.eqb_refl. reflexivity. }
      assert (Simple : forall s0, s0 = set_calls s (calls s ++ [mkCall n a k]) ->
                threads s0 = threads s /\ length (trigs s) <= length (trigs s0) /\
                (forall k0, k0 < length (trigs s) -> nfr_stk k0 (FWalk e a k (PNext n) :: rest) <= nfr_stk k0 (FWalk e a k (PCall n) :: rest)) /\
                (exists cs, calls s0 = calls s ++ cs /\ forall c, In c cs -> is_w (c_tid c) (FWalk e a k (PCall n)) = 1)).
      { intros s0 ->. split; [reflexivity|]. split; [simpl; lia|]. split; [|exact One]. intros k0 _. rewrite !nfr_stk_cons. simpl. lia. }
      destruct (h_pooled h); [inversion H; subst; apply Simple; reflexivity|].
      destruct (h_kind h) as [|e2]; [inversion H; subst; apply Simple; reflexivity|].
      destruct (start_trigger _ e2 a (Some (n, k))) as [s2 fr] eqn:E2. inversion H; subst.
      destruct (start_trigger_local _ _ _ _ _ _ E2) as (T1 & T2 & T3 & T4 & T5). simpl in *.
      split; [exact T1|]. split; [exact T4|]. split; [|rewrite T2; exact One].
      intros k0 Lk. rewrite nfr_stk_app, !nfr_stk_cons, (T5 k0 Lk). simpl. lia.
    + inversion H; subst. split; [reflexivity|]. split; [lia|]. split; [|apply NoC; reflexivity]. intros k0 _.
      pose proof (Gt (next_of s1 n) e a k k0) as Q. rewrite !nfr_stk_cons in *. simpl in *. lia.
  - assert (Z : forall k0, nfr_stk k0 rest <= nfr_stk k0 (FLink e tgt :: rest)) by (intros; rewrite nfr_stk_cons; lia).
    destruct tgt as [tg|]; [|inversion H; subst; repeat split; auto; apply NoC; reflexivity].
    destruct (nth_error (events s) tg); [|inversion H; subst; repeat split; auto; apply NoC; reflexivity].
    inversion H; subst. destruct (attach_tct s tg (KLink e) 0 PDefault) as (T1 & T2 & T3 & _). simpl.
    split; [exact T1|]. split; [rewrite T2; lia|]. split; [intros; apply Z|apply NoC; exact T3].
Qed.

Lemma calls_by_app : forall s s1 cs k, calls s1 = calls s ++ cs -> (forall c, In c cs -> c_tid c <> k) -> calls_by s1 k = calls_by s k.
Proof.
  intros s s1 cs k H Hn. unfold calls_by. rewrite H, filter_app. rewrite (filter_none _ cs); [apply app_nil_r|].
  intros c Hc. apply Nat.eqb_neq. apply Hn. exact Hc.
Qed.

Lemma silent_step : forall s a k, k < length (trigs s) -> nfr k s = 0 ->
  calls_by (step s a) k = calls_by s k /\ nfr k (step s a) = 0 /\ k < length (trigs (step s a)).
Proof.
  intros s a k Lk Z. unfold step. change (calls_by (tick (act s a)) k) with (calls_by (act s a) k).
  change (nfr k (tick (act s a))) with (nfr k (act s a)). change (trigs (tick (act s a))) with (trigs (act s a)).
  destruct a as [mx p|e mx po|h|e a|e tgt|t]; cbn [act].
  - auto.
  - destruct (attach_tct s e KCb mx po) as (T1 & T2 & T3 & _). unfold calls_by, nfr. rewrite T1, T2, T3. auto.
  - destruct (delete_tct s h) as (T1 & T2 & T3 & _). unfold calls_by, nfr. rewrite T1, T2, T3. auto.
  - destruct (start_trigger s e a None) as [s1 fr] eqn:E. destruct (start_trigger_local _ _ _ _ _ _ E) as (T1 & T2 & T3 & T4 & T5).
    split; [unfold calls_by; simpl; rewrite T2; reflexivity|]. split; [|simpl; lia].
    unfold nfr, nfrT. simpl. rewrite T1, map_app, list_sum_app. simpl. rewrite (T5 k Lk). unfold nfr, nfrT in Z. lia.
  - assert (NT : forall s0 stk, threads s0 = threads s -> calls s0 = calls s -> trigs s0 = trigs s -> nfr_stk k stk = 0 ->
        calls_by (set_threads s0 (threads s0 ++ [stk])) k = calls_by s k /\ nfr k (set_threads s0 (threads s0 ++ [stk])) = 0 /\
        k < length (trigs (set_threads s0 (threads s0 ++ [stk])))).
    { intros s0 stk H1 H2 H3 H4. unfold calls_by, nfr, nfrT. simpl. rewrite H1, H2, H3, map_app, list_sum_app. simpl. rewrite H4.
      unfold nfr, nfrT in Z. repeat split; auto; lia. }
    destruct (nth_error (events s) e) as [ev|]; [|apply NT; reflexivity]. destruct (e_lock ev); [apply NT; reflexivity|].
    cbv zeta. apply NT; simpl; try reflexivity; destruct (e_link ev) as [l|]; try reflexivity; apply delete_tct.
  - unfold step_thread. destruct (nth_error (threads s) t) as [[|f rest]|] eqn:Et; auto.
    destruct (step_frame s f rest) as [s1 stk] eqn:E. destruct (step_frame_local _ _ _ _ _ E) as (T1 & T2 & T3 & cs & T4 & T5).
    pose proof (sum_ge (nfr_stk k) _ _ (nth_error_In _ _ Et)) as Q. unfold nfr, nfrT in Z. rewrite nfr_stk_cons in Q.
    split; [|split; [|simpl; lia]].
    + unfold calls_by. simpl. fold (calls_by s1 k). apply (calls_by_app s s1 cs k T4). intros c Hc Ek. specialize (T5 c Hc). rewrite Ek in T5. lia.
    + unfold nfr, nfrT. simpl. rewrite T1. pose proof (sum_upd (nfr_stk k) (threads s) t (f :: rest) stk Et) as S.
      specialize (T3 k Lk). lia.
Qed.

Lemma run_app : forall l1 l2 s, run s (l1 ++ l2) = run (run s l1) l2.
Proof. intros. unfold run. apply fold_left_app. Qed.

Theorem finished_calls_stable : forall acts1 acts2 k, k < length (trigs (run init acts1)) -> finished (run init acts1) k ->
  calls_by (run init (acts1 ++ acts2)) k = calls_by (run init acts1) k /\ finished (run init (acts1 ++ acts2)) k.
Proof.
  intros acts1 acts2 k Lk Hf. rewrite run_app. apply finished_nfr in Hf. revert Lk Hf. generalize (run init acts1) as s.
  assert (Q : forall l s, k < length (trigs s) -> nfr k s = 0 -> calls_by (run s l) k = calls_by s k /\ nfr k (run s l) = 0).
  { induction l as [|a l IH]; intros s Lk Z; simpl; [auto|]. destruct (silent_step s a k Lk Z) as (S1 & S2 & S3).
    destruct (IH (step s a) S3 S2) as [I1 I2]. split; [congruence|exact I2]. }
  intros s Lk Z. destruct (Q acts2 s Lk Z) as [Q1 Q2]. split; [exact Q1|].
  intros stk f H1 H2. destruct f as [e a k' p|]; [|exact I]. intros ->.
  unfold nfr, nfrT in Q2. pose proof (sum_zero (nfr_stk k) _ stk Q2 H1) as Z1. pose proof (sum_zero (is_w k) _ _ Z1 H2) as Z2.
  simpl in Z2. rewrite Nat.eqb_refl in Z2. discriminate.
Qed.

(* ---------- (2) at most one attached link hook per linked event ---------- *)
Definition is_l (e : nat) (f : frame) : nat :=
  match f with FLink e' _ => if Nat.eqb e' e then 1 else 0 | FWalk _ _ _ _ => 0 end.
Definition nfl_stk (e : nat) (stk : list frame) : nat := list_sum (map (is_l e) stk).
Definition nflT (e : nat) (ths : list (list frame)) : nat := list_sum (map (nfl_stk e) ths).
Definition lk_of (evs : list event) (e : nat) : option (option nat * bool) :=
  option_map (fun ev => (e_link ev, e_lock ev)) (nth_error evs e).
Definition lock_cnt (s : st) (e : nat) : nat := match lk_of (events s) e with Some (_, true) => 1 | _ => 0 end.

Definition LInv (s : st) : Prop :=
  (forall n h e, nth_error (hooks s) n = Some h -> h_kind h = KLink e ->
      lk_of (events s) e <> None /\ (h_in h = true -> lk_of (events s) e = Some (Some n, false))) /\
  (forall e, nflT e (threads s) = lock_cnt s e).

Definition lk_ext (s s' : st) : Prop :=
  (forall n h', nth_error (hooks s') n = Some h' ->
     (exists h, nth_error (hooks s) n = Some h /\ h_kind h' = h_kind h /\ (h_in h' = true -> h_in h = true)) \/ h_kind h' = KCb) /\
  (forall e, lk_of (events s') e = lk_of (events s) e \/ (lk_of (events s) e = None /\ lk_of (events s') e = Some (None, false))).

Lemma lk_ext_refl : forall s, lk_ext s s.
Proof. intros s. split; [intros n h H; left; exists h; auto | intros e; left; reflexivity]. Qed.
Lemma lk_ext_trans : forall s1 s2 s3, lk_ext s1 s2 -> lk_ext s2 s3 -> lk_ext s1 s3.
Proof.
  intros s1 s2 s3 [A1 B1] [A2 B2]. split.
  - intros n h3 H3. destruct (A2 n h3 H3) as [(h2 & H2 & K2 & I2)|K]; [|right; exact K].
    destruct (A1 n h2 H2) as [(h1 & H1 & K1 & I1)|K]; [|right; congruence]. left. exists h1. split; [exact H1|]. split; [congruence|auto].
  - intros e. destruct (B2 e) as [Q2|[Q2 R2]]; destruct (B1 e) as [Q1|[Q1 R1]].
    + left. congruence. + right. split; [exact Q1|congruence]. + rewrite Q1 in Q2. right. auto. + congruence.
Qed.

Lemma linv_env : forall s s', LInv s -> lk_ext s s' -> (forall e, nflT e (threads s') = nflT e (threads s)) -> LInv s'.
Proof.
  intros s s' [A B] [X1 X2] T. split.
  - intros n h' e H K. destruct (X1 n h' H) as [(h & H0 & K0 & I0)|K0]; [|congruence]. rewrite K0 in K.
    destruct (A n h e H0 K) as [A1 A2]. destruct (X2 e) as [Q|[Q R]]; [|contradiction]. rewrite Q. split; [exact A1|]. intros Hi. auto.
  - intros e. rewrite T, B. unfold lock_cnt. destruct (X2 e) as [Q|[Q R]]; [rewrite Q; reflexivity|]. rewrite Q, R. reflexivity.
Qed.

Lemma lk_upd_keep : forall evs x f e, (forall ev, e_link (f ev) = e_link ev /\ e_lock (f ev) = e_lock ev) -> lk_of (upd evs x f) e = lk_of evs e.
Proof.
  intros evs x f e H. unfold lk_of. rewrite nth_upd. destruct (Nat.eqb x e); [|reflexivity]. destruct (nth_error evs e) as [ev|]; [|reflexivity].
  simpl. destruct (H ev) as [H1 H2]. rewrite H1, H2. reflexivity.
Qed.
Lemma lk_upd_link : forall evs x v b e, lk_of (upd evs x (ev_set_link v b)) e =
  if Nat.eqb x e then option_map (fun _ => (v, b)) (nth_error evs e) else lk_of evs e.
Proof.
  intros evs x v b e. unfold lk_of. rewrite nth_upd. destruct (Nat.eqb x e); [|reflexivity]. destruct (nth_error evs e); reflexivity.
Qed.

Lemma lk_delete : forall s n, lk_ext s (delete s n).
Proof.
  intros s n. destruct (delete_cases s n) as [E|(h & ev & H1 & H2 & H3 & E)]; rewrite E; [apply lk_ext_refl|]. split; cbn [hooks events].
  - intros m h' H. left. rewrite nth_upd in H. destruct (Nat.eqb n m) eqn:Enm.
    + apply Nat.eqb_eq in Enm. subst m. rewrite H1 in H. simpl in H. inversion H; subst h'. exists h. simpl. split; [exact H1|]. split; [reflexivity|discriminate].
    + exists h'. auto.
  - intros e. left. apply lk_upd_keep. intros x. split; reflexivity.
Qed.
Lemma lk_attach_events : forall s e k mx po e0, lk_of (events (attach s e k mx po)) e0 = lk_of (events s) e0.
Proof. intros. unfold attach. destruct (nth_error (events s) e); [|reflexivity]. simpl. apply lk_upd_keep. intros x. split; reflexivity. Qed.
Lemma lk_attach_cb : forall s e mx po, lk_ext s (attach s e KCb mx po).
Proof.
  intros s e mx po. split; [|intros e0; left; apply lk_attach_events].
  intros n h' H. unfold attach in H. destruct (nth_error (events s) e); [|left; exists h'; auto]. simpl in H.
  destruct (nth_snoc _ _ _ _ H) as [[_ H1]|[_ H1]]; [left; exists h'; auto|]. right. subst h'. reflexivity.
Qed.
Lemma lk_start_trigger : forall s e a p s1 fr, start_trigger s e a p = (s1, fr) -> lk_ext s s1 /\ forall e0, nfl_stk e0 fr = 0.
Proof.
  intros s e a p s1 fr H. unfold start_trigger in H. destruct (nth_error (events s) e).
  - inversion H; subst. split; [|intros x0; destruct (exceeds _ _); reflexivity]. split; simpl.
    + intros n h' Hn. left. exists h'. auto.
    + intros x0. left. apply lk_upd_keep. intros x. split; reflexivity.
  - inversion H; subst. split; [apply lk_ext_refl|reflexivity].
Qed.

Lemma nfl_stk_cons : forall e f r, nfl_stk e (f :: r) = is_l e f + nfl_stk e r.
Proof. reflexivity. Qed.
Lemma nfl_stk_app : forall e a b, nfl_stk e (a ++ b) = nfl_stk e a + nfl_stk e b.
Proof. intros. unfold nfl_stk. rewrite map_app, list_sum_app. reflexivity. Qed.

Lemma walker_lk : forall s e a k p rest s1 stk, step_frame s (FWalk e a k p) rest = (s1, stk) ->
  lk_ext s s1 /\ threads s1 = threads s /\ forall e0, nfl_stk e0 stk = nfl_stk e0 rest.
Proof.
  intros s e a k p rest s1 stk H. unfold step_frame in H.
  assert (Gt : forall o e0, nfl_stk e0 (goto o e a k rest) = nfl_stk e0 rest) by (intros [m|] e0; reflexivity).
  destruct p as [|n|n|n|n].
  - destruct (nth_error (events s) e); inversion H; subst; (split; [apply lk_ext_refl|]); (split; [reflexivity|]); auto.
  - destruct (nth_error (hooks s) n) as [h|] eqn:En; inversion H; subst; [|split; [apply lk_ext_refl|auto]].
    split; [|split; [reflexivity|intros; reflexivity]]. split; [|intros e0; left; reflexivity]. simpl. intros m h' Hm. left.
    rewrite nth_upd in Hm. destruct (Nat.eqb n m) eqn:Enm; [|exists h'; auto]. apply Nat.eqb_eq in Enm. subst m. rewrite En in Hm. simpl in Hm.
    inversion Hm; subst h'. exists h. simpl. auto.
  - inversion H; subst. split; [apply lk_delete|]. split; [apply delete_tct|intros; reflexivity].
  - destruct (nth_error (hooks s) n) as [h|]; [|inversion H; subst; split; [apply lk_ext_refl|auto]].
    assert (S0 : lk_ext s (set_calls s (calls s ++ [mkCall n a k]))) by (split; [intros m h' Hm; left; exists h'; auto|intros; left; reflexivity]).
    destruct (h_pooled h); [inversion H; subst; split; [exact S0|split; [reflexivity|intros; reflexivity]]|].
    destruct (h_kind h) as [|e2]; [inversion H; subst; split; [exact S0|split; [reflexivity|intros; reflexivity]]|].
    destruct (start_trigger _ e2 a (Some (n, k))) as [s2 fr] eqn:E2. inversion H; subst.
    destruct (lk_start_trigger _ _ _ _ _ _ E2) as [L1 L2]. destruct (start_trigger_local _ _ _ _ _ _ E2) as (T1 & _).
    split; [exact (lk_ext_trans _ _ _ S0 L1)|]. split; [exact T1|]. intros e0. rewrite nfl_stk_app, L2. reflexivity.
  - inversion H; subst. split; [apply lk_ext_refl|]. split; [reflexivity|]. intros. apply Gt.
Qed.

Lemma nflT_upd : forall e ths t f rest stk, nth_error ths t = Some (f :: rest) ->
  nflT e (upd ths t (fun _ => stk)) + is_l e f + nfl_stk e rest = nflT e ths + nfl_stk e stk.
Proof.
  intros e ths t f rest stk H. pose proof (sum_upd (nfl_stk e) ths t (f :: rest) stk H) as S. rewrite nfl_stk_cons in S. unfold nflT. lia.
Qed.
Lemma nflT_snoc : forall e ths stk, nflT e (ths ++ [stk]) = nflT e ths + nfl_stk e stk.
Proof. intros. unfold nflT. rewrite map_app, list_sum_app. simpl. lia. Qed.

(* LinkTo's second step, and LinkTo's first step, given the facts they rely on *)
Lemma linv_flink : forall b s t e tgt rest, WFb s b -> LInv s -> nth_error (threads s) t = Some (FLink e tgt :: rest) ->
  forall s1 stk, step_frame s (FLink e tgt) rest = (s1, stk) -> LInv (set_threads s1 (upd (threads s1) t (fun _ => stk))).
Proof.
  intros b s t e tgt rest W [A B] Et s1 stk H.
  assert (Lk : lk_of (events s) e <> None /\ forall v, lk_of (events s) e <> Some (v, false)).
  { pose proof (B e) as Be. pose proof (sum_ge (nfl_stk e) _ _ (nth_error_In _ _ Et)) as Q. rewrite nfl_stk_cons in Q. simpl in Q.
    rewrite Nat.eqb_refl in Q. unfold nflT in Be. unfold lock_cnt in Be. destruct (lk_of (events s) e) as [[v [|]]|]; try lia.
    split; [discriminate|]. intros v0. discriminate. }
  destruct Lk as [Lk1 Lk2].
  assert (Ex : exists ev, nth_error (events s) e = Some ev).
  { unfold lk_of in Lk1. destruct (nth_error (events s) e) as [ev|]; [eauto|simpl in Lk1; congruence]. }
  destruct Ex as [ev Eev].
  assert (Cnt : forall s1' v, threads s1' = threads s -> (forall e0, e0 <> e -> lk_of (events s1') e0 = lk_of (events s) e0) ->
             lk_of (events s1') e = Some (v, false) ->
             forall e0, nflT e0 (upd (threads s1') t (fun _ => rest)) = lock_cnt (set_threads s1' (upd (threads s1') t (fun _ => rest))) e0).
  { intros s1' v Ht Ho He e0. rewrite Ht. pose proof (nflT_upd e0 _ t _ rest rest Et) as S. specialize (B e0).
    unfold lock_cnt in *. cbn [events set_threads]. simpl is_l in S. destruct (Nat.eqb e e0) eqn:Ee.
    - apply Nat.eqb_eq in Ee. subst e0. rewrite He. destruct (lk_of (events s) e) as [[v0 [|]]|]; [lia|exfalso; apply (Lk2 v0); reflexivity|congruence].
    - apply Nat.eqb_neq in Ee. rewrite Ho by congruence. lia. }
  unfold step_frame in H.
  assert (NoAttach : forall s1', s1' = set_events s (upd (events s) e (ev_set_link None false)) -> LInv (set_threads s1' (upd (threads s1') t (fun _ => rest)))).
  { intros s1' ->. split; cbn [hooks events set_threads set_events].
    - intros n h e' Hn K. destruct (A n h e' Hn K) as [A1 A2]. rewrite lk_upd_link. destruct (Nat.eqb e e') eqn:Ee.
      + apply Nat.eqb_eq in Ee. subst e'. rewrite Eev. simpl. split; [discriminate|]. intros Hi. exfalso. apply (Lk2 (Some n)). auto.
      + auto.
    - apply (Cnt _ None); [reflexivity| |].
      + intros e0 Ne. simpl. rewrite lk_upd_link. destruct (Nat.eqb e e0) eqn:Ee; [apply Nat.eqb_eq in Ee; congruence|reflexivity].
      + simpl. rewrite lk_upd_link, Nat.eqb_refl, Eev. reflexivity. }
  destruct tgt as [tg|]; [|inversion H; subst; apply NoAttach; reflexivity].
  destruct (nth_error (events s) tg) as [evt|] eqn:Etg; [|inversion H; subst; apply NoAttach; reflexivity].
  inversion H; subst s1 stk; clear H.
  set (sa := attach s tg (KLink e) 0 PDefault). destruct (attach_tct s tg (KLink e) 0 PDefault) as (T1 & _). fold sa in T1.
  assert (Hh : exists hn, hooks sa = hooks s ++ [hn] /\ h_kind hn = KLink e).
  { unfold sa, attach. rewrite Etg. simpl. eexists. split; reflexivity. }
  destruct Hh as (hn & Hh & Hk).
  assert (Eva : exists eva, nth_error (events sa) e = Some eva).
  { pose proof (lk_attach_events s tg (KLink e) 0 PDefault e) as Q. fold sa in Q. unfold lk_of in Q. rewrite Eev in Q.
    destruct (nth_error (events sa) e) as [eva|]; [eauto|discriminate]. }
  destruct Eva as [eva Eeva].
  split; cbn [hooks events set_threads set_events].
  - assert (Lsa : forall e0, lk_of (events sa) e0 = lk_of (events s) e0) by (intros; apply lk_attach_events).
    intros n h e' Hn K. rewrite lk_upd_link. rewrite Hh in Hn.
    destruct (nth_snoc _ _ _ _ Hn) as [[_ H1]|[H1 H2]].
    + destruct (A n h e' H1 K) as [A1 A2]. destruct (Nat.eqb e e') eqn:Ee; [|rewrite Lsa; auto].
      apply Nat.eqb_eq in Ee. subst e'. rewrite Eeva. simpl. split; [discriminate|]. intros Hi. exfalso. apply (Lk2 (Some n)). auto.
    + subst h n. rewrite Hk in K. inversion K; subst e'. rewrite Nat.eqb_refl, Eeva. simpl. split; [discriminate|reflexivity].
  - apply (Cnt _ (Some (length (hooks s)))); [exact T1| |].
    + intros e0 Ne. simpl. rewrite lk_upd_link. destruct (Nat.eqb e e0) eqn:Ee; [apply Nat.eqb_eq in Ee; congruence|]. apply lk_attach_events.
    + simpl. rewrite lk_upd_link, Nat.eqb_refl, Eeva. reflexivity.
Qed.

Lemma lk_delete_events : forall s n e, lk_of (events (delete s n)) e = lk_of (events s) e.
Proof.
  intros s n e. destruct (delete_cases s n) as [E|(h & ev & _ & _ & _ & E)]; rewrite E; [reflexivity|]. cbn [events].
  apply lk_upd_keep. intros x. split; reflexivity.
Qed.

Lemma linv_linkto : forall b s e tgt, WFb s b -> LInv s -> LInv (act s (ALinkTo e tgt)).
Proof.
  intros b s e tgt W I. cbn [act].
  assert (NT : LInv (set_threads s (threads s ++ [[]]))).
  { apply (linv_env s); [exact I|exact (lk_ext_refl s)|]. intros e0. simpl. rewrite nflT_snoc. unfold nfl_stk. simpl. lia. }
  destruct (nth_error (events s) e) as [ev|] eqn:Eev; [|exact NT]. destruct (e_lock ev) eqn:Elk; [exact NT|]. cbv zeta.
  set (s1 := match e_link ev with Some l => delete s l | None => s end).
  assert (I1 : LInv s1).
  { unfold s1. destruct (e_link ev) as [l|]; [|exact I]. apply (linv_env s); [exact I|apply lk_delete|]. intros e0.
    destruct (delete_tct s l) as (T & _). rewrite T. reflexivity. }
  assert (Lk1 : forall e0, lk_of (events s1) e0 = lk_of (events s) e0).
  { intros e0. unfold s1. destruct (e_link ev); [apply lk_delete_events|reflexivity]. }
  assert (F : forall l h, e_link ev = Some l -> nth_error (hooks s1) l = Some h -> h_in h = false).
  { intros l h El Hh. unfold s1 in Hh. rewrite El in Hh. eapply delete_unhooked; eauto. }
  assert (Le : lk_of (events s) e = Some (e_link ev, false)) by (unfold lk_of; rewrite Eev, <- Elk; reflexivity).
  assert (Lk2 : forall e0, lk_of (upd (events s1) e (fun x => ev_set_link (e_link x) true x)) e0 =
                          if Nat.eqb e e0 then Some (e_link ev, true) else lk_of (events s) e0).
  { intros e0. unfold lk_of at 1. rewrite nth_upd. destruct (Nat.eqb e e0) eqn:Ee; [|apply Lk1].
    apply Nat.eqb_eq in Ee. subst e0. pose proof (Lk1 e) as Q. rewrite Le in Q. unfold lk_of in Q.
    destruct (nth_error (events s1) e) as [x|]; [|discriminate]. simpl in *. inversion Q. reflexivity. }
  destruct I1 as [A1 B1]. split; cbn [hooks events threads set_threads set_events].
  - intros n h e' Hn K. destruct (A1 n h e' Hn K) as [Q1 Q2]. rewrite Lk2. destruct (Nat.eqb e e') eqn:Ee.
    + apply Nat.eqb_eq in Ee. subst e'. split; [discriminate|]. intros Hi. exfalso. specialize (Q2 Hi). rewrite Lk1, Le in Q2.
      inversion Q2 as [Q3]. rewrite (F n h Q3 Hn) in Hi. discriminate.
    + rewrite <- Lk1. auto.
  - intros e0. rewrite nflT_snoc, B1. unfold lock_cnt. cbn [events set_threads set_events]. rewrite Lk2, Lk1. unfold nfl_stk. simpl.
    destruct (Nat.eqb e e0) eqn:Ee; [|lia]. apply Nat.eqb_eq in Ee. subst e0. rewrite Le. reflexivity.
Qed.

Lemma linv_act : forall b s a, WFb s b -> LInv s -> LInv (act s a).
Proof.
  intros b s a W I. destruct a as [mx p|e mx po|h|e a|e tgt|t].
  - cbn [act]. apply (linv_env s); [exact I| |intros; reflexivity]. split; cbn [hooks events set_events].
    + intros n h' H. left. exists h'. auto.
    + intros e. unfold lk_of. destruct (Nat.lt_ge_cases e (length (events s))) as [L|L].
      * left. rewrite nth_error_app1 by assumption. reflexivity.
      * assert (N0 : nth_error (events s) e = None) by (apply nth_error_None; exact L). rewrite N0.
        rewrite nth_error_app2 by assumption. destruct (e - length (events s)) as [|d]; simpl; [right; auto|left; destruct d; reflexivity].
  - cbn [act]. apply (linv_env s); [exact I|apply lk_attach_cb|]. intros e0. destruct (attach_tct s e KCb mx po) as (T & _). rewrite T. reflexivity.
  - cbn [act]. apply (linv_env s); [exact I|apply lk_delete|]. intros e0. destruct (delete_tct s h) as (T & _). rewrite T. reflexivity.
  - cbn [act]. destruct (start_trigger s e a None) as [s1 fr] eqn:E. destruct (lk_start_trigger _ _ _ _ _ _ E) as [L1 L2].
    destruct (start_trigger_local _ _ _ _ _ _ E) as (T1 & _).
    apply (linv_env s); [exact I| |].
    + destruct L1 as [X1 X2]. split; [exact X1|exact X2].
    + intros e0. cbn [threads set_threads]. rewrite nflT_snoc, L2, T1. lia.
  - eapply linv_linkto; eauto.
  - cbn [act]. unfold step_thread. destruct (nth_error (threads s) t) as [[|f rest]|] eqn:Et; try exact I.
    destruct (step_frame s f rest) as [s1 stk] eqn:E. destruct f as [e a k p|e tgt].
    + destruct (walker_lk _ _ _ _ _ _ _ _ E) as (L1 & T1 & L2). apply (linv_env s); [exact I| |].
      * destruct L1 as [X1 X2]. split; [exact X1|exact X2].
      * intros e0. cbn [threads set_threads]. rewrite T1. pose proof (nflT_upd e0 _ t _ rest stk Et) as S. rewrite L2 in S. simpl in S. lia.
    + eapply linv_flink; eauto.
Qed.

Lemma linv_run : forall acts, LInv (run init acts).
Proof.
  intros acts. assert (Q : forall l s, GI s -> LInv s -> LInv (run s l)).
  { induction l as [|a l IH]; simpl; intros s G0 I; [exact I|]. apply IH; [apply GI_step; exact G0|].
    destruct G0 as (W & _). change (LInv (step s a)) with (LInv (act s a)). eapply linv_act; eauto. }
  apply Q; [apply GI_init|]. split; [intros [|n] h e H; discriminate|intros [|e]; reflexivity].
Qed.

(* An attached link hook of event e is the one recorded in e's link field, and e is not inside a LinkTo: at most one link
   hook of e is attached at any time; between LinkTo's two steps there is none. *)
Theorem link_unique : forall acts n h e, let s := run init acts in
  nth_error (hooks s) n = Some h -> h_kind h = KLink e -> h_in h = true ->
  exists ev, nth_error (events s) e = Some ev /\ e_link ev = Some n /\ e_lock ev = false.
Proof.
  intros acts n h e s Hn K Hi. destruct (linv_run acts) as [A _]. fold s in A. destruct (A n h e Hn K) as [_ A2]. specialize (A2 Hi).
  unfold lk_of in A2. destruct (nth_error (events s) e) as [ev|]; [|discriminate]. simpl in A2. inversion A2. exists ev. auto.
Qed.

Corollary link_unique2 : forall acts n1 n2 h1 h2 e, let s := run init acts in
  nth_error (hooks s) n1 = Some h1 -> h_kind h1 = KLink e -> h_in h1 = true ->
  nth_error (hooks s) n2 = Some h2 -> h_kind h2 = KLink e -> h_in h2 = true -> n1 = n2.
Proof.
  intros acts n1 n2 h1 h2 e s A1 A2 A3 B1 B2 B3. destruct (link_unique acts n1 h1 e A1 A2 A3) as (ev & E1 & E2 & _).
  destruct (link_unique acts n2 h2 e B1 B2 B3) as (ev' & E1' & E2' & _). fold s in E1, E1'. congruence.
Qed.
