(* C15 (a), continued: event-level WithMaxTriggerCount for ALL action lists (= all interleavings of the atomic steps of
   any number of concurrent Trigger / Hook / Unhook / LinkTo callers, including nested triggers through links).
   Proves [max_trigger_count_event_full_statement] of ProofsEvent.v. *)
From Coq Require Import List NArith Bool Arith Lia PeanoNat.
From Verif.C15_Events Require Import Model ProofsEvent.
Import ListNotations.

(* the invariant only looks at (events, trigs) *)
Definition trigs_ofL (trs : list trig) (e : nat) : list trig := filter (fun t => Nat.eqb (t_ev t) e) trs.
Definition acceptedL (trs : list trig) (e : nat) : list trig := filter (fun t => negb (t_rej t)) (trigs_ofL trs e).

Definition EInvP (evs : list event) (trs : list trig) : Prop :=
  (forall e ev, nth_error evs e = Some ev ->
     N.of_nat (length (trigs_ofL trs e)) = e_cnt ev /\
     N.of_nat (length (acceptedL trs e)) = allowed (e_max ev) (e_cnt ev)) /\
  (forall t, In t trs -> nth_error evs (t_ev t) <> None).
Definition EInv (s : st) : Prop := EInvP (events s) (trigs s).

(* event tables that agree on limits and counters *)
Definition same_ev (a b : list event) : Prop :=
  forall e, match nth_error a e, nth_error b e with
            | Some x, Some y => e_max y = e_max x /\ e_cnt y = e_cnt x
            | None, None => True
            | _, _ => False
            end.
Lemma same_ev_refl : forall a, same_ev a a.
Proof. intros a e. destruct (nth_error a e); auto. Qed.
Lemma same_ev_trans : forall a b c, same_ev a b -> same_ev b c -> same_ev a c.
Proof.
  intros a b c H1 H2 e. specialize (H1 e). specialize (H2 e).
  destruct (nth_error a e), (nth_error b e), (nth_error c e); try tauto. destruct H1, H2. split; congruence.
Qed.
Lemma same_ev_upd : forall evs e f, (forall x, e_max (f x) = e_max x /\ e_cnt (f x) = e_cnt x) -> same_ev evs (upd evs e f).
Proof.
  intros evs e f H e'. rewrite nth_upd. destruct (Nat.eqb e e'); destruct (nth_error evs e') as [x|]; simpl; auto.
Qed.

Lemma einv_same : forall evs evs' trs, EInvP evs trs -> same_ev evs evs' -> EInvP evs' trs.
Proof.
  intros evs evs' trs [A B] H. split.
  - intros e ev' E. specialize (H e). rewrite E in H. destruct (nth_error evs e) as [ev|] eqn:E0; [|contradiction].
    destruct H as [H1 H2]. rewrite H1, H2. apply A. exact E0.
  - intros t Ht. specialize (B t Ht). specialize (H (t_ev t)). destruct (nth_error evs (t_ev t)); [|congruence].
    destruct (nth_error evs' (t_ev t)); [discriminate|contradiction].
Qed.

Lemma delete_ev : forall s n, same_ev (events s) (events (delete s n)) /\ trigs (delete s n) = trigs s.
Proof.
  intros s n. unfold delete. destruct (nth_error (hooks s) n) as [h|]; [|auto using same_ev_refl].
  destruct (h_in h); [|auto using same_ev_refl]. destruct (nth_error (events s) (h_ev h)); [|auto using same_ev_refl].
  simpl. split; [|reflexivity]. apply same_ev_upd. intros x. split; reflexivity.
Qed.
Lemma attach_ev : forall s e k mx po, same_ev (events s) (events (attach s e k mx po)) /\ trigs (attach s e k mx po) = trigs s.
Proof.
  intros. unfold attach. destruct (nth_error (events s) e); [|auto using same_ev_refl].
  simpl. split; [|reflexivity]. apply same_ev_upd. intros x. split; reflexivity.
Qed.

Lemma einv_start_trigger : forall s e a p s1 fr, EInv s -> start_trigger s e a p = (s1, fr) -> EInv s1.
Proof.
  intros s e a p s1 fr [A B] H. unfold start_trigger in H. destruct (nth_error (events s) e) as [ev|] eqn:E.
  2:{ inversion H; subst. split; assumption. }
  inversion H; subst s1 fr; clear H. unfold EInv. simpl. split.
  - intros e' ev' E'. rewrite nth_upd in E'. unfold trigs_ofL, acceptedL, trigs_ofL. rewrite filter_app. simpl.
    destruct (Nat.eqb e e') eqn:Ee.
    + apply Nat.eqb_eq in Ee. subst e'. rewrite E in E'. simpl in E'. inversion E'; subst ev'; clear E'.
      destruct (A e ev E) as [A1 A2]. simpl. rewrite filter_app, !app_length. simpl. split.
      * rewrite Nat.add_1_r, Nat2N.inj_succ. f_equal. exact A1.
      * destruct (exceeds (N.succ (e_cnt ev)) (e_max ev)) eqn:X; simpl.
        -- rewrite Nat.add_0_r, allowed_stay by assumption. exact A2.
        -- rewrite Nat.add_1_r, Nat2N.inj_succ, allowed_step by assumption. f_equal. exact A2.
    + rewrite ?app_nil_r. apply A. exact E'.
  - intros t Ht. apply in_app_or in Ht. rewrite nth_upd. destruct Ht as [Ht|[Ht|[]]].
    + specialize (B t Ht). destruct (Nat.eqb e (t_ev t)); destruct (nth_error (events s) (t_ev t)); simpl; congruence.
    + subst t. simpl. rewrite Nat.eqb_refl, E. simpl. discriminate.
Qed.

Lemma einv_new_event : forall evs trs mx p, EInvP evs trs -> EInvP (evs ++ [mkEv mx 0 p [] None false]) trs.
Proof.
  intros evs trs mx p [A B]. split.
  - intros e ev E. destruct (Nat.lt_ge_cases e (length evs)) as [L|L].
    + rewrite nth_error_app1 in E by assumption. apply A. exact E.
    + rewrite nth_error_app2 in E by assumption.
      assert (Z : trigs_ofL trs e = []).
      { unfold trigs_ofL. clear -B L. induction trs as [|t r IH]; simpl; [reflexivity|].
        destruct (Nat.eqb (t_ev t) e) eqn:Et.
        - apply Nat.eqb_eq in Et. exfalso. apply (B t (or_introl eq_refl)). apply nth_error_None. lia.
        - apply IH. intros t' Ht'. apply B. right. exact Ht'. }
      destruct (e - length evs) as [|d]; simpl in E; [|destruct d; discriminate].
      inversion E; subst ev. unfold acceptedL. rewrite Z. simpl. rewrite allowed_zero. auto.
  - intros t Ht. specialize (B t Ht). intros N. apply B. apply nth_error_None. apply nth_error_None in N.
    rewrite app_length in N. lia.
Qed.

Lemma einv_step_frame : forall s f rest s1 stk, EInv s -> step_frame s f rest = (s1, stk) -> EInv s1.
Proof.
  intros s f rest s1 stk I H. destruct f as [e a k p|e tgt]; simpl in H.
  - destruct p as [|n|n|n|n].
    + destruct (nth_error (events s) e); inversion H; subst; exact I.
    + destruct (nth_error (hooks s) n); inversion H; subst; exact I.
    + inversion H; subst. destruct (delete_ev s n) as [A B]. unfold EInv. rewrite B. eapply einv_same; eauto.
    + destruct (nth_error (hooks s) n) as [h|]; [|inversion H; subst; exact I].
      destruct (h_pooled h); [inversion H; subst; exact I|].
      destruct (h_kind h) as [|e2]; [inversion H; subst; exact I|].
      destruct (start_trigger _ e2 a (Some (n, k))) as [s2 fr] eqn:E2. inversion H; subst.
      eapply einv_start_trigger; [|exact E2]. exact I.
    + inversion H; subst; exact I.
  - assert (L : forall s0, EInv s0 -> EInv (set_events s0 (upd (events s0) e (ev_set_link None false)))).
    { intros s0 I0. unfold EInv. simpl. eapply einv_same; [exact I0|]. apply same_ev_upd. intros x; split; reflexivity. }
    destruct tgt as [t|]; [|inversion H; subst; apply L; exact I].
    destruct (nth_error (events s) t); [|inversion H; subst; apply L; exact I].
    inversion H; subst. destruct (attach_ev s t (KLink e) 0 PDefault) as [A B]. unfold EInv. simpl. rewrite B.
    eapply einv_same; [exact I|]. eapply same_ev_trans; [exact A|]. apply same_ev_upd. intros x; split; reflexivity.
Qed.

Lemma einv_act : forall s a, EInv s -> EInv (act s a).
Proof.
  intros s a I. destruct a as [mx p|e mx po|h|e a|e tgt|t]; simpl.
  - apply einv_new_event. exact I.
  - destruct (attach_ev s e KCb mx po) as [A B]. unfold EInv. rewrite B. eapply einv_same; eauto.
  - destruct (delete_ev s h) as [A B]. unfold EInv. rewrite B. eapply einv_same; eauto.
  - destruct (start_trigger s e a None) as [s1 fr] eqn:E. apply (einv_start_trigger _ _ _ _ _ _ I E).
  - destruct (nth_error (events s) e) as [ev|]; [|exact I]. destruct (e_lock ev); [exact I|].
    unfold EInv. simpl.
    assert (I1 : EInv (match e_link ev with Some l => delete s l | None => s end)).
    { destruct (e_link ev) as [l|]; [|exact I]. destruct (delete_ev s l) as [A B]. unfold EInv. rewrite B. eapply einv_same; eauto. }
    eapply einv_same; [exact I1|]. apply same_ev_upd. intros x; split; reflexivity.
  - unfold step_thread. destruct (nth_error (threads s) t) as [[|f rest]|]; try exact I.
    destruct (step_frame s f rest) as [s1 stk] eqn:E. apply (einv_step_frame _ _ _ _ _ I E).
Qed.

Lemma einv_run : forall l s, EInv s -> EInv (run s l).
Proof. induction l as [|a l IH]; simpl; intros s I; [exact I|]. apply IH. apply (einv_act s a I). Qed.

Lemma einv_init : EInv init.
Proof. split; [intros [|e] ev H; discriminate | intros t []]. Qed.

(* WithMaxTriggerCount(n) on an event: for every interleaving, at every reachable state, the number of Trigger calls on e
   that passed the event's count test (= that walk the hooks, "fire") is min(n, number of Trigger calls on e); e_cnt is the
   event's atomic counter and equals the number of Trigger calls on e (direct ones and those made by link hooks). *)
Theorem max_trigger_count_event : max_trigger_count_event_full_statement.
Proof.
  intros acts e ev H. destruct (einv_run acts init einv_init) as [A _]. exact (A e ev H).
Qed.

Corollary max_trigger_count_event_min : forall acts e ev, let s := run init acts in
  nth_error (events s) e = Some ev -> e_max ev <> 0%N ->
  N.of_nat (length (accepted s e)) = N.min (e_max ev) (N.of_nat (length (trigs_of s e))).
Proof.
  intros acts e ev s H Hm. destruct (max_trigger_count_event acts e ev H) as [A B]. fold s in A, B.
  rewrite B, A. unfold allowed. destruct (N.eqb (e_max ev) 0) eqn:E; [apply N.eqb_eq in E; contradiction|apply N.min_comm].
Qed.

(* every recorded trigger belongs to an existing event, and a rejected trigger has no walker: it never invokes a hook
   (proved with the walk invariant in ProofsWalk.v: every call's trigger is an accepted one) *)

(* non-vacuity: event limited to 2, three triggers (two of them racing on the count test), all run to completion *)
Definition ex_evlimit : list action :=
  [ANewEvent 2 false; AHook 0 0 PDefault;
   ATrigger 0 10; ATrigger 0 11; ATrigger 0 12;
   AStep 1; AStep 0; AStep 1; AStep 0; AStep 0; AStep 1; AStep 0; AStep 1; AStep 2].
Example ex_evlimit_result :
  let s := run init ex_evlimit in
  map (fun c => (c_hook c, c_arg c)) (calls s) = [(0, 10%N); (0, 11%N)] /\ map t_rej (trigs s) = [false; false; true]
  /\ map e_cnt (events s) = [3%N] /\ threads s = [[]; []; []].
Proof. vm_compute. repeat split. Qed.
