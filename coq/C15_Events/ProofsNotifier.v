(* C15 (c): proofs about the value-notifier model (version VCur = /repo after the fixes), for all action lists,
   and refutation witnesses for the two older versions. *)
From Coq Require Import List NArith Bool Arith Lia PeanoNat.
From Verif.C15_Events Require Import ModelNotifier.
Import ListNotations.

Lemma nrun_snoc : forall v l s a, nrun v s (l ++ [a]) = nstep v (nrun v s l) a.
Proof. intros. unfold nrun. rewrite fold_left_app. reflexivity. Qed.

(* ---------- list helpers ---------- *)
Lemma nth_updn : forall {A} (l : list A) i f j,
  nth_error (updn l i f) j = if Nat.eqb i j then option_map f (nth_error l j) else nth_error l j.
Proof.
  induction l as [|x r IH]; intros i f j.
  - destruct i, j; simpl; try reflexivity; destruct (Nat.eqb _ _); reflexivity.
  - destruct i, j; simpl; auto.
Qed.
Lemma In_updn : forall {A} (l : list A) i f x, In x (updn l i f) -> In x l \/ exists y, In y l /\ x = f y.
Proof.
  induction l as [|y r IH]; intros [|i] f x H; simpl in *; try tauto.
  - destruct H as [H|H]; [right; exists y; auto | left; auto].
  - destruct H as [H|H]; [left; auto|]. destruct (IH i f x H) as [H1|(z & Hz & E)]; [left; auto | right; exists z; auto].
Qed.
Lemma nth_snoc : forall {A} (l : list A) x j y, nth_error (l ++ [x]) j = Some y ->
  nth_error l j = Some y \/ (j = length l /\ y = x).
Proof.
  intros A l x j y H. destruct (Nat.lt_ge_cases j (length l)).
  - rewrite nth_error_app1 in H by assumption. auto.
  - rewrite nth_error_app2 in H by assumption. destruct (j - length l) eqn:E; simpl in H.
    + inversion H. right. split; [lia|reflexivity].
    + destruct n; discriminate.
Qed.
Lemma nth_snoc_old : forall {A} (l : list A) x j y, nth_error l j = Some y -> nth_error (l ++ [x]) j = Some y.
Proof. intros. rewrite nth_error_app1; [assumption | apply nth_error_Some; congruence]. Qed.

Lemma find_entry_In : forall v l e, find_entry v l = Some e -> In e l /\ en_val e = v.
Proof.
  induction l as [|x r IH]; simpl; intros e H; [discriminate|].
  destruct (N.eqb (en_val x) v) eqn:E.
  - inversion H; subst. apply N.eqb_eq in E. auto.
  - destruct (IH e H). auto.
Qed.
Lemma find_entry_None : forall v l, find_entry v l = None -> ~ In v (map en_val l).
Proof.
  induction l as [|x r IH]; simpl; intros H; [tauto|].
  destruct (N.eqb (en_val x) v) eqn:E; [discriminate|]. apply N.eqb_neq in E. intros [A|A]; [congruence | exact (IH H A)].
Qed.
Lemma In_del_entry : forall v l e, In e (del_entry v l) -> In e l.
Proof.
  induction l as [|x r IH]; simpl; intros e H; [tauto|].
  destruct (N.eqb (en_val x) v); [auto|]. destruct H; auto.
Qed.
Lemma del_entry_vals : forall v l e, NoDup (map en_val l) -> In e (del_entry v l) -> en_val e <> v.
Proof.
  induction l as [|x r IH]; simpl; intros e ND H; [tauto|].
  inversion ND as [|? ? Hn ND']; subst.
  destruct (N.eqb (en_val x) v) eqn:E.
  - apply N.eqb_eq in E. subst. intros C. apply Hn. rewrite <- C. apply in_map. exact H.
  - apply N.eqb_neq in E. destruct H as [H|H]; [subst; exact E | exact (IH e ND' H)].
Qed.
Lemma del_entry_nodup : forall v l, NoDup (map en_val l) -> NoDup (map en_val (del_entry v l)).
Proof.
  induction l as [|x r IH]; simpl; intros ND; [constructor|].
  inversion ND as [|? ? Hn ND']; subst.
  destruct (N.eqb (en_val x) v); [exact ND'|]. simpl. constructor; [|auto].
  intros C. apply Hn. apply in_map_iff in C. destruct C as (e & E1 & E2). apply In_del_entry in E2.
  rewrite <- E1. apply in_map. exact E2.
Qed.
Lemma In_set_entry : forall v f l e, In e (set_entry v f l) -> In e l \/ exists e0, In e0 l /\ e = f e0.
Proof.
  induction l as [|x r IH]; simpl; intros e H; [tauto|].
  destruct (N.eqb (en_val x) v).
  - destruct H as [H|H]; [right; exists x; auto | left; auto].
  - destruct H as [H|H]; [left; auto|]. destruct (IH e H) as [A|(e0 & A & B)]; [left; auto | right; exists e0; auto].
Qed.
Lemma set_entry_vals : forall v f l, (forall e, en_val (f e) = en_val e) -> map en_val (set_entry v f l) = map en_val l.
Proof.
  induction l as [|x r IH]; simpl; intros Hf; [reflexivity|].
  destruct (N.eqb (en_val x) v); simpl; [rewrite Hf; reflexivity | rewrite IH by assumption; reflexivity].
Qed.

Lemma NoDup_app_snoc_helper : forall (l : list N) v, NoDup l -> ~ In v l -> NoDup (l ++ [v]).
Proof.
  induction l as [|x r IH]; simpl; intros v ND Hn; [constructor; [tauto|constructor]|].
  inversion ND; subst. constructor.
  - intros C. apply in_app_or in C. destruct C as [C|[C|[]]]; [contradiction | subst; tauto].
  - apply IH; tauto.
Qed.

(* ---------- the invariant (version VCur) ---------- *)
Notation clo s c := (existsb (Nat.eqb c) (closed s)).

Record NInv (s : nst) : Prop := {
  ni_ent : forall e, In e (entries s) -> en_chan e < nchan s /\ clo s (en_chan e) = false;
  ni_nodup : NoDup (map en_val (entries s));
  ni_echan : forall e1 e2, In e1 (entries s) -> In e2 (entries s) -> en_chan e1 = en_chan e2 -> en_val e1 = en_val e2;
  ni_closed : forall c, clo s c = true -> c < nchan s;
  ni_lchan : forall x, In x (lsts s) -> l_chan x < nchan s;
  ni_share : forall e x, In e (entries s) -> In x (lsts s) -> l_chan x = en_chan e -> l_val x = en_val e;
  ni_ok : forall x, In x (lsts s) -> clo s (l_chan x) = true -> l_dereg x = false -> l_ok x = true;
  ni_res : forall t th, nth_error (nthr s) t = Some th -> th_res th = Some ROk ->
           exists x, nth_error (lsts s) (th_l th) = Some x /\ l_ok x = true;
  ni_chk : forall t th, nth_error (nthr s) t = Some th -> th_pc th = NChk ->
           exists x, nth_error (lsts s) (th_l th) = Some x /\ clo s (l_chan x) = true }.

Lemma ninv_init : NInv ninit.
Proof.
  constructor; simpl; try tauto; try discriminate; try constructor.
  - intros [|t] th H; discriminate.
  - intros [|t] th H; discriminate.
Qed.

Definition lst_mono (x y : lst) : Prop :=
  l_val y = l_val x /\ l_chan y = l_chan x /\ (l_ok x = true -> l_ok y = true) /\ (l_dereg y = false -> l_dereg x = false).

(* rewriting one listener monotonically *)
Lemma lsts_update_inv : forall s l f, (forall x, lst_mono x (f x)) -> NInv s -> NInv (set_lsts s (updn (lsts s) l f)).
Proof.
  intros s l f Hf I. destruct I as [Ie Ind Iec Icl Ilc Ish Iok Ires Ichk].
  constructor; simpl; auto.
  - intros x Hx. apply In_updn in Hx. destruct Hx as [Hx|(y & Hy & E)]; [auto|]. subst. destruct (Hf y) as (_ & A & _). rewrite A. auto.
  - intros e x He Hx. apply In_updn in Hx. destruct Hx as [Hx|(y & Hy & E)]; [auto|]. subst.
    destruct (Hf y) as (A & B & _). rewrite A, B. auto.
  - intros x Hx. apply In_updn in Hx. destruct Hx as [Hx|(y & Hy & E)]; [auto|]. subst.
    destruct (Hf y) as (A & B & C & D). rewrite B. intros H1 H2. apply C. apply Iok; auto.
  - intros t th Hth Hr. destruct (Ires t th Hth Hr) as (x & Hx & Hok). rewrite nth_updn.
    destruct (Nat.eqb l (th_l th)); [|eauto]. rewrite Hx. simpl. eexists; split; [reflexivity|]. apply (Hf x). exact Hok.
  - intros t th Hth Hp. destruct (Ichk t th Hth Hp) as (x & Hx & Hc). rewrite nth_updn.
    destruct (Nat.eqb l (th_l th)); [|eauto]. rewrite Hx. simpl. eexists; split; [reflexivity|].
    destruct (Hf x) as (_ & B & _). rewrite B. exact Hc.
Qed.

(* moving one thread *)
Lemma thr_update_inv : forall s t p r, NInv s ->
  (forall th, nth_error (nthr s) t = Some th ->
     (r = Some ROk -> exists x, nth_error (lsts s) (th_l th) = Some x /\ l_ok x = true) /\
     (p = NChk -> exists x, nth_error (lsts s) (th_l th) = Some x /\ clo s (l_chan x) = true)) ->
  NInv (set_t s t p r).
Proof.
  intros s t p r I H. destruct I as [Ie Ind Iec Icl Ilc Ish Iok Ires Ichk].
  constructor; simpl; auto.
  - intros t' th Hth Hr. rewrite nth_updn in Hth. destruct (Nat.eqb t t') eqn:E; [|eauto].
    apply Nat.eqb_eq in E. subst t'. destruct (nth_error (nthr s) t) as [th0|] eqn:Et; [|discriminate].
    simpl in Hth. inversion Hth; subst. simpl in *. apply (H th0 eq_refl). exact Hr.
  - intros t' th Hth Hp. rewrite nth_updn in Hth. destruct (Nat.eqb t t') eqn:E; [|eauto].
    apply Nat.eqb_eq in E. subst t'. destruct (nth_error (nthr s) t) as [th0|] eqn:Et; [|discriminate].
    simpl in Hth. inversion Hth; subst. simpl in *. apply (H th0 eq_refl). exact Hp.
Qed.

(* a new thread that neither claims success nor sits behind the channel case *)
Lemma thr_app_inv : forall s th, NInv s -> th_res th <> Some ROk -> th_pc th <> NChk -> NInv (set_thr s (nthr s ++ [th])).
Proof.
  intros s th I H1 H2. destruct I as [Ie Ind Iec Icl Ilc Ish Iok Ires Ichk].
  constructor; simpl; auto.
  - intros t th' Hth Hr. apply nth_snoc in Hth. destruct Hth as [Hth|[_ E]]; [eauto | subst; contradiction].
  - intros t th' Hth Hp. apply nth_snoc in Hth. destruct Hth as [Hth|[_ E]]; [eauto | subst; contradiction].
Qed.

(* shrinking / recounting the entries *)
Lemma entries_inv : forall s es, NInv s ->
  (forall e', In e' es -> exists e, In e (entries s) /\ en_val e' = en_val e /\ en_chan e' = en_chan e) ->
  NoDup (map en_val es) -> NInv (set_entries s es).
Proof.
  intros s es I H ND. destruct I as [Ie Ind Iec Icl Ilc Ish Iok Ires Ichk].
  constructor; simpl; auto.
  - intros e' He'. destruct (H e' He') as (e & He & _ & B). rewrite B. auto.
  - intros e1 e2 H1 H2 Hc. destruct (H e1 H1) as (a & Ha & A1 & A2). destruct (H e2 H2) as (b & Hb & B1 & B2).
    rewrite A1, B1. apply Iec; auto. congruence.
  - intros e' x He' Hx Hc. destruct (H e' He') as (e & He & A & B). rewrite A. apply Ish; auto. congruence.
Qed.

Lemma swap_dereg_inv : forall s l s1 p, NInv s -> swap_dereg s l = (s1, p) ->
  NInv s1 /\ nthr s1 = nthr s /\ p <> NChk /\
  (forall j x, nth_error (lsts s) j = Some x -> exists y, nth_error (lsts s1) j = Some y /\ lst_mono x y) /\
  (forall c, clo s1 c = clo s c).
Proof.
  intros s l s1 p I H. unfold swap_dereg in H.
  assert (Hid : forall j y, nth_error (lsts s) j = Some y -> exists y0, nth_error (lsts s) j = Some y0 /\ lst_mono y y0).
  { intros j y Hy. exists y. unfold lst_mono. auto. }
  destruct (nth_error (lsts s) l) as [x|] eqn:El.
  - destruct (l_dereg x) eqn:Ed; inversion H; subst.
    + split; [exact I|]. split; [reflexivity|]. split; [discriminate|]. split; [exact Hid | reflexivity].
    + split.
      { apply lsts_update_inv; [|exact I]. intros y. unfold lst_mono. simpl.
        split; [reflexivity|]. split; [reflexivity|]. split; [auto | discriminate]. }
      split; [reflexivity|]. split; [discriminate|]. split; [|reflexivity].
      intros j y Hy. simpl. rewrite nth_updn. destruct (Nat.eqb l j); rewrite Hy; simpl; eexists; split; try reflexivity;
        unfold lst_mono; simpl.
      * split; [reflexivity|]. split; [reflexivity|]. split; [auto | discriminate].
      * auto.
  - inversion H; subst. split; [exact I|]. split; [reflexivity|]. split; [discriminate|]. split; [exact Hid | reflexivity].
Qed.

Lemma ninv_step : forall s a, NInv s -> NInv (nstep VCur s a).
Proof.
  intros s a I. destruct a as [v|v|l|l|t c]; simpl.
  - (* Listener *)
    destruct I as [Ie Ind Iec Icl Ilc Ish Iok Ires Ichk].
    destruct (find_entry v (entries s)) as [e|] eqn:Ef.
    + destruct (find_entry_In _ _ _ Ef) as [He Hv].
      constructor; simpl.
      * intros e' He'. apply In_set_entry in He'. destruct He' as [A|(e0 & A & B)]; [auto | subst; simpl; auto].
      * rewrite set_entry_vals; auto.
      * intros e1 e2 H1 H2. apply In_set_entry in H1. apply In_set_entry in H2.
        destruct H1 as [A1|(a & A1 & B1)]; destruct H2 as [A2|(b & A2 & B2)]; subst; simpl; auto.
      * auto.
      * intros x Hx. apply in_app_or in Hx. destruct Hx as [Hx|[Hx|[]]]; [auto | subst; simpl; apply Ie; auto].
      * intros e' x He' Hx Hc. apply in_app_or in Hx.
        assert (Hold : exists e0, In e0 (entries s) /\ en_val e' = en_val e0 /\ en_chan e' = en_chan e0).
        { apply In_set_entry in He'. destruct He' as [A|(e0 & A & B)]; [eauto | subst; simpl; eauto]. }
        destruct Hold as (e0 & H0 & A & B). rewrite A.
        destruct Hx as [Hx|[Hx|[]]]; [apply Ish; auto; congruence|].
        subst x. simpl in *. rewrite <- Hv. apply Iec; auto. congruence.
      * intros x Hx Hc Hd. apply in_app_or in Hx. destruct Hx as [Hx|[Hx|[]]]; [auto|].
        subst x. simpl in *. destruct (Ie e He) as [_ Hn]. congruence.
      * intros t th Hth Hr. destruct (Ires t th Hth Hr) as (x & Hx & Hok). exists x. split; [apply nth_snoc_old; auto | auto].
      * intros t th Hth Hp. destruct (Ichk t th Hth Hp) as (x & Hx & Hok). exists x. split; [apply nth_snoc_old; auto | auto].
    + pose proof (find_entry_None _ _ Ef) as Hn.
      assert (Hfresh : clo s (nchan s) = false).
      { destruct (clo s (nchan s)) eqn:E; [|reflexivity]. apply Icl in E. lia. }
      constructor; simpl.
      * intros e' He'. apply in_app_or in He'. destruct He' as [A|[A|[]]].
        -- destruct (Ie e' A). split; [lia | auto].
        -- subst. simpl. split; [lia | exact Hfresh].
      * rewrite map_app. simpl. apply NoDup_app_snoc_helper; [exact Ind | exact Hn].
      * intros e1 e2 H1 H2 Hc. apply in_app_or in H1. apply in_app_or in H2.
        destruct H1 as [A1|[A1|[]]]; destruct H2 as [A2|[A2|[]]]; subst; simpl in *; auto.
        -- destruct (Ie e1 A1). lia.
        -- destruct (Ie e2 A2). lia.
      * intros c Hc. apply Icl in Hc. lia.
      * intros x Hx. apply in_app_or in Hx. destruct Hx as [Hx|[Hx|[]]]; [apply Ilc in Hx; lia | subst; simpl; lia].
      * intros e' x He' Hx Hc. apply in_app_or in He'. apply in_app_or in Hx.
        destruct He' as [A|[A|[]]]; destruct Hx as [B|[B|[]]]; subst; simpl in *; auto.
        -- destruct (Ie e' A). lia.
        -- apply Ilc in B. lia.
      * intros x Hx Hc Hd. apply in_app_or in Hx. destruct Hx as [Hx|[Hx|[]]]; [auto|].
        subst x. simpl in *. congruence.
      * intros t th Hth Hr. destruct (Ires t th Hth Hr) as (x & Hx & Hok). exists x. split; [apply nth_snoc_old; auto | auto].
      * intros t th Hth Hp. destruct (Ichk t th Hth Hp) as (x & Hx & Hok). exists x. split; [apply nth_snoc_old; auto | auto].
  - (* Notify *)
    destruct (find_entry v (entries s)) as [e|] eqn:Ef; [|exact I].
    destruct I as [Ie Ind Iec Icl Ilc Ish Iok Ires Ichk].
    destruct (find_entry_In _ _ _ Ef) as [He Hv].
    assert (Hmk : forall x, lst_mono x (mark_ok v (en_chan e) x)).
    { intros x. unfold mark_ok. destruct (_ && _); unfold lst_mono; simpl; auto. }
    constructor; simpl.
    + intros e' He'. pose proof (del_entry_vals _ _ _ Ind He') as Hne. apply In_del_entry in He'.
      destruct (Ie e' He') as [A B]. split; [exact A|]. simpl. rewrite B.
      destruct (Nat.eqb (en_chan e') (en_chan e)) eqn:E; [|reflexivity].
      apply Nat.eqb_eq in E. exfalso. apply Hne. rewrite <- Hv. apply Iec; auto.
    + apply del_entry_nodup. exact Ind.
    + intros e1 e2 H1 H2. apply In_del_entry in H1. apply In_del_entry in H2. auto.
    + intros c Hc. simpl in Hc. apply orb_true_iff in Hc. destruct Hc as [Hc|Hc]; [|auto].
      apply Nat.eqb_eq in Hc. subst. apply Ie. exact He.
    + intros x Hx. apply in_map_iff in Hx. destruct Hx as (y & E & Hy). subst x. destruct (Hmk y) as (_ & B & _). rewrite B. auto.
    + intros e' x He' Hx. apply In_del_entry in He'. apply in_map_iff in Hx. destruct Hx as (y & E & Hy). subst x.
      destruct (Hmk y) as (A & B & _). rewrite A, B. auto.
    + intros x Hx Hc Hd. apply in_map_iff in Hx. destruct Hx as (y & E & Hy). subst x.
      destruct (Hmk y) as (A & B & C & D). rewrite B in Hc. simpl in Hc. apply orb_true_iff in Hc.
      destruct Hc as [Hc|Hc].
      * apply Nat.eqb_eq in Hc. unfold mark_ok in *.
        assert (Hval : l_val y = v) by (rewrite <- Hv; apply Ish; auto).
        destruct (N.eqb (l_val y) v && Nat.eqb (l_chan y) (en_chan e) && negb (l_dereg y)) eqn:Em; [reflexivity|].
        simpl in Hd. rewrite Hd in Em. apply N.eqb_eq in Hval. apply Nat.eqb_eq in Hc. rewrite Hval, Hc in Em. discriminate.
      * apply C. apply Iok; auto.
    + intros t th Hth Hr. destruct (Ires t th Hth Hr) as (x & Hx & Hok). exists (mark_ok v (en_chan e) x).
      split; [rewrite nth_error_map, Hx; reflexivity | apply (Hmk x); exact Hok].
    + intros t th Hth Hp. destruct (Ichk t th Hth Hp) as (x & Hx & Hc). exists (mark_ok v (en_chan e) x).
      split; [rewrite nth_error_map, Hx; reflexivity|]. destruct (Hmk x) as (_ & B & _). rewrite B. simpl. rewrite Hc. apply orb_true_r.
  - (* Wait *)
    destruct (nth_error (lsts s) l) as [x|]; [destruct (l_dereg x)|]; apply thr_app_inv; simpl; auto; discriminate.
  - (* Deregister *)
    destruct (swap_dereg s l) as [s1 p] eqn:Es. destruct (swap_dereg_inv _ _ _ _ I Es) as (I1 & _ & Hp & _).
    apply thr_app_inv; simpl; auto. discriminate.
  - (* Step *)
    destruct (nth_error (nthr s) t) as [th|] eqn:Et; [|exact I].
    destruct (nth_error (lsts s) (th_l th)) as [x|] eqn:El; [|exact I].
    destruct (th_pc th) eqn:Epc.
    + (* select *)
      destruct c.
      * destruct (is_closed (l_chan x) s) eqn:Ec; [|exact I].
        apply thr_update_inv; [exact I|]. intros th0 H0. rewrite Et in H0. inversion H0; subst th0.
        split; [discriminate|]. intros _. exists x. auto.
      * destruct (l_dclosed x); [|exact I].
        apply thr_update_inv; [exact I|]. intros th0 H0. split; discriminate.
      * apply thr_update_inv; [exact I|]. intros th0 H0. split; discriminate.
    + (* the re-check after the channel case *)
      apply thr_update_inv; [exact I|]. intros th0 H0. rewrite Et in H0. inversion H0; subst th0.
      split; [|discriminate]. intros Hr. destruct (l_dereg x) eqn:Ed; [discriminate|].
      exists x. split; [exact El|].
      destruct (ni_chk _ I t th Et Epc) as (x' & Hx' & Hc). rewrite El in Hx'. inversion Hx'; subst x'.
      apply (ni_ok _ I x); auto. eapply nth_error_In; eauto.
    + (* deferred Deregister: the swap *)
      destruct (swap_dereg s (th_l th)) as [s1 p] eqn:Es.
      destruct (swap_dereg_inv _ _ _ _ I Es) as (I1 & Hthr & Hp & Hl & _).
      apply thr_update_inv; [exact I1|]. intros th0 H0. rewrite Hthr, Et in H0. inversion H0; subst th0.
      split; [|intros; contradiction]. intros Hr.
      destruct (ni_res _ I t th Et Hr) as (y & Hy & Hok). destruct (Hl _ _ Hy) as (z & Hz & Hm).
      exists z. split; [exact Hz | apply Hm; exact Hok].
    + (* close(deregisteredChan) *)
      apply thr_update_inv.
      * apply lsts_update_inv; [|exact I]. intros y. unfold lst_mono. simpl. auto.
      * intros th0 H0. simpl in H0. rewrite Et in H0. inversion H0; subst th0. split; [|discriminate].
        intros Hr. destruct (ni_res _ I t th Et Hr) as (y & Hy & Hok). simpl. rewrite nth_updn, Hy.
        destruct (Nat.eqb _ _); simpl; eexists; split; try reflexivity; auto.
    + (* removeListener *)
      assert (I1 : NInv (remove_listener VCur s (l_val x) (l_chan x))).
      { unfold remove_listener. destruct (find_entry (l_val x) (entries s)) as [e|] eqn:Ef; [|exact I].
        destruct (Nat.eqb (en_chan e) (l_chan x)); [|exact I].
        destruct (Nat.eqb (en_cnt e) 1).
        - apply entries_inv; [exact I| |apply del_entry_nodup, (ni_nodup _ I)].
          intros e' He'. apply In_del_entry in He'. eauto.
        - apply entries_inv; [exact I| |rewrite set_entry_vals; [apply (ni_nodup _ I) | reflexivity]].
          intros e' He'. apply In_set_entry in He'. destruct He' as [A|(e0 & A & B)]; [eauto | subst; simpl; eauto]. }
      assert (E1 : nthr (remove_listener VCur s (l_val x) (l_chan x)) = nthr s /\ lsts (remove_listener VCur s (l_val x) (l_chan x)) = lsts s).
      { unfold remove_listener. destruct (find_entry _ _); [|auto]. destruct (Nat.eqb _ _); [|auto]. destruct (Nat.eqb _ _); auto. }
      destruct E1 as [E1 E2].
      apply thr_update_inv; [exact I1|]. intros th0 H0. rewrite E1, Et in H0. inversion H0; subst th0. split; [|discriminate].
      intros Hr. rewrite E2. apply (ni_res _ I t th Et Hr).
    + exact I.
Qed.

Lemma ninv_run : forall l s, NInv s -> NInv (nrun VCur s l).
Proof. induction l; simpl; intros; auto using ninv_step. Qed.

Theorem notifier_ok_sound : forall acts l, In (l, ROk) (wait_results (nrun VCur ninit acts)) ->
  exists x, nth_error (lsts (nrun VCur ninit acts)) l = Some x /\ l_ok x = true.
Proof.
  intros acts l H. pose proof (ninv_run acts _ ninv_init) as I.
  unfold wait_results in H. apply in_flat_map in H. destruct H as (th & Hth & Hin).
  destruct (th_pc th) eqn:Ep; try (simpl in Hin; tauto).
  destruct (th_res th) as [r|] eqn:Er; [|simpl in Hin; tauto].
  destruct Hin as [Hin|[]]. inversion Hin; subst.
  apply In_nth_error in Hth. destruct Hth as [t Ht]. exact (ni_res _ I t th Ht Er).
Qed.

(* how one step can produce a listener whose ghost flag is set *)
Lemma step_ok_origin : forall s a l x', nth_error (lsts (nstep VCur s a)) l = Some x' -> l_ok x' = true ->
  (exists x, nth_error (lsts s) l = Some x /\ l_val x = l_val x' /\ l_ok x = true) \/
  (exists x, a = NANotify (l_val x') /\ nth_error (lsts s) l = Some x /\ l_dereg x = false).
Proof.
  intros s a l x' H Hok.
  assert (Hupd : forall s0 j f, (forall y, l_val (f y) = l_val y /\ l_ok (f y) = l_ok y) ->
            nth_error (updn (lsts s0) j f) l = Some x' ->
            exists x, nth_error (lsts s0) l = Some x /\ l_val x = l_val x' /\ l_ok x = true).
  { intros s0 j f Hf Hn. rewrite nth_updn in Hn. destruct (Nat.eqb j l).
    - destruct (nth_error (lsts s0) l) as [y|]; [|discriminate]. simpl in Hn. inversion Hn; subst.
      exists y. destruct (Hf y) as [A B]. rewrite A, <- B. auto.
    - exists x'. auto. }
  assert (Hswap : forall s0 j s1 p, swap_dereg s0 j = (s1, p) -> nth_error (lsts s1) l = Some x' ->
            exists x, nth_error (lsts s0) l = Some x /\ l_val x = l_val x' /\ l_ok x = true).
  { intros s0 j s1 p Hs Hn. unfold swap_dereg in Hs. destruct (nth_error (lsts s0) j) as [y|]; [destruct (l_dereg y)|];
      inversion Hs; subst; eauto. simpl in Hn. eapply Hupd; [|exact Hn]. intros; simpl; auto. }
  destruct a as [v|v|j|j|t c]; simpl in H.
  - left. destruct (find_entry v (entries s)); simpl in H; apply nth_snoc in H;
      (destruct H as [H|[_ E]]; [eauto | subst; simpl in Hok; discriminate]).
  - destruct (find_entry v (entries s)) as [e|]; [|left; eauto]. simpl in H. rewrite nth_error_map in H.
    destruct (nth_error (lsts s) l) as [y|] eqn:Ey; [|discriminate]. simpl in H. inversion H; subst x'.
    unfold mark_ok in *. destruct (N.eqb (l_val y) v && Nat.eqb (l_chan y) (en_chan e) && negb (l_dereg y)) eqn:Em.
    + apply andb_true_iff in Em. destruct Em as [Em Hd]. apply andb_true_iff in Em. destruct Em as [Ev _].
      apply N.eqb_eq in Ev. simpl. right. exists y. subst v. destruct (l_dereg y); [discriminate|]. auto.
    + left. eauto.
  - left. destruct (nth_error (lsts s) j) as [y|]; [destruct (l_dereg y)|]; simpl in H; eauto.
  - left. destruct (swap_dereg s j) as [s1 p] eqn:Es. simpl in H. eapply Hswap; eauto.
  - left. destruct (nth_error (nthr s) t) as [th|]; [|eauto].
    destruct (nth_error (lsts s) (th_l th)) as [y|]; [|eauto].
    destruct (th_pc th).
    + destruct c; [destruct (is_closed _ _) | destruct (l_dclosed y) | ]; simpl in H; eauto.
    + simpl in H. eauto.
    + destruct (swap_dereg s (th_l th)) as [s1 p] eqn:Es. simpl in H. eapply Hswap; eauto.
    + simpl in H. eapply (Hupd s); [|exact H]. intros; simpl; auto.
    + simpl in H. unfold remove_listener in H. destruct (find_entry _ _); [|eauto].
      destruct (Nat.eqb _ _); [|eauto]. destruct (Nat.eqb _ _); simpl in H; eauto.
    + eauto.
Qed.

(* meaning of the ghost flag: there is a Notify(value of l) step before which l existed and was not deregistered *)
Theorem notifier_ok_trace : forall acts l x, nth_error (lsts (nrun VCur ninit acts)) l = Some x -> l_ok x = true ->
  exists a1 a2 x1, acts = a1 ++ NANotify (l_val x) :: a2 /\
                   nth_error (lsts (nrun VCur ninit a1)) l = Some x1 /\ l_dereg x1 = false.
Proof.
  induction acts as [|a acts IH] using rev_ind; intros l x H Hok.
  - simpl in H. destruct l; discriminate.
  - rewrite nrun_snoc in H. destruct (step_ok_origin _ _ _ _ H Hok) as [(y & Hy & Hv & Hoky)|(y & Ea & Hy & Hd)].
    + destruct (IH l y Hy Hoky) as (a1 & a2 & x1 & E & A & B). exists a1, (a2 ++ [a]), x1.
      rewrite Hv in E. subst acts. rewrite <- app_assoc. auto.
    + subst a. exists acts, [], y. auto.
Qed.

(* C15 (c): a successful Wait implies a Notify of the listener's value after its creation and before its deregistration *)
Theorem notifier_success_only_if_notified : forall acts l, In (l, ROk) (wait_results (nrun VCur ninit acts)) ->
  exists a1 a2 x1 v, acts = a1 ++ NANotify v :: a2 /\
                     nth_error (lsts (nrun VCur ninit a1)) l = Some x1 /\ l_val x1 = v /\ l_dereg x1 = false.
Proof.
  intros acts l H. destruct (notifier_ok_sound acts l H) as (x & Hx & Hok).
  destruct (notifier_ok_trace acts l x Hx Hok) as (a1 & a2 & x1 & E & A & B).
  exists a1, a2, x1, (l_val x). repeat split; auto.
  (* the value of a listener never changes: x1 is listener l in a prefix *)
  subst acts. clear - A Hx. revert x Hx.
  assert (G : forall suffix s x1, nth_error (lsts s) l = Some x1 -> forall x, nth_error (lsts (nrun VCur s suffix)) l = Some x -> l_val x1 = l_val x).
  { induction suffix as [|a r IH]; simpl; intros s y1 H1 y H2; [congruence|].
    assert (Hs : exists y', nth_error (lsts (nstep VCur s a)) l = Some y' /\ l_val y' = l_val y1).
    { clear IH H2. destruct a as [v|v|j|j|t c]; simpl.
      - destruct (find_entry v (entries s)); simpl; exists y1; split; auto; apply nth_snoc_old; auto.
      - destruct (find_entry v (entries s)) as [e|]; simpl; [|eauto]. rewrite nth_error_map, H1. simpl.
        eexists; split; [reflexivity|]. unfold mark_ok. destruct (_ && _); reflexivity.
      - destruct (nth_error (lsts s) j) as [z|]; [destruct (l_dereg z)|]; simpl; eauto.
      - unfold swap_dereg. destruct (nth_error (lsts s) j) as [z|]; [destruct (l_dereg z)|]; simpl; eauto.
        rewrite nth_updn, H1. destruct (Nat.eqb j l); simpl; eauto.
      - destruct (nth_error (nthr s) t) as [th|]; [|eauto].
        destruct (nth_error (lsts s) (th_l th)) as [z|]; [|eauto].
        destruct (th_pc th); simpl; eauto.
        + destruct c; [destruct (is_closed _ _) | destruct (l_dclosed z) | ]; simpl; eauto.
        + unfold swap_dereg. destruct (nth_error (lsts s) (th_l th)) as [z'|]; [destruct (l_dereg z')|]; simpl; eauto.
          rewrite nth_updn, H1. destruct (Nat.eqb _ l); simpl; eauto.
        + rewrite nth_updn, H1. destruct (Nat.eqb _ l); simpl; eauto.
        + unfold remove_listener. destruct (find_entry _ _); [|eauto]. destruct (Nat.eqb _ _); [|eauto].
          destruct (Nat.eqb _ _); simpl; eauto. }
    destruct Hs as (y' & Hy' & Hv). rewrite <- Hv. eapply IH; eauto. }
  intros x Hx. unfold nrun in Hx. rewrite fold_left_app in Hx. eapply G; eauto.
Qed.

(* ---------- the older versions are refuted by concrete histories ---------- *)
Definition d15a_history : list naction :=
  [NAListener 1%N; NANotify 1%N; NAListener 1%N; NAWait 0; NAStep 0 CChan; NAStep 0 CCtx; NAStep 0 CCtx; NAStep 0 CCtx;
   NAWait 1; NAStep 1 CChan; NAStep 1 CCtx; NAStep 1 CCtx; NAStep 1 CCtx].
Definition d15b_history : list naction :=
  [NAListener 1%N; NAWait 0; NADeregister 0; NAStep 1 CCtx; NAStep 1 CCtx; NAStep 0 CChan; NAStep 0 CCtx; NAStep 0 CCtx; NAStep 0 CCtx].
Definition d15c_history : list naction :=
  [NAListener 1%N; NAListener 1%N; NAWait 0; NADeregister 0; NAStep 1 CCtx; NAStep 1 CCtx; NANotify 1%N;
   NAStep 0 CChan; NAStep 0 CCtx; NAStep 0 CCtx; NAStep 0 CCtx; NAStep 0 CCtx].

Definition has_notify (l : list naction) : bool := existsb (fun a => match a with NANotify _ => true | _ => false end) l.

(* D15a on the pinned code: listener 1 is created after the only Notify and still gets success *)
Theorem notifier_refuted_reuse_pinned :
  In (1, ROk) (wait_results (nrun VPinned ninit d15a_history)) /\
  (forall a1 a2 v, d15a_history = a1 ++ NANotify v :: a2 -> nth_error (lsts (nrun VPinned ninit a1)) 1 = None).
Proof.
  split; [vm_compute; auto|].
  intros a1 a2 v H. unfold d15a_history in H.
  destruct a1 as [|b1 a1]; [discriminate|]. destruct a1 as [|b2 a1].
  - inversion H; subst. reflexivity.
  - exfalso. inversion H as [[E1 E2 E3]]. clear - E3.
    assert (F : has_notify (a1 ++ NANotify v :: a2) = true).
    { unfold has_notify. rewrite existsb_app. simpl. apply orb_true_r. }
    rewrite <- E3 in F. vm_compute in F. discriminate.
Qed.

(* D15b on the pinned code: success without any Notify in the whole history *)
Theorem notifier_refuted_dereg_race_pinned :
  In (0, ROk) (wait_results (nrun VPinned ninit d15b_history)) /\ has_notify d15b_history = false.
Proof. split; vm_compute; auto. Qed.

(* D15c after the first fix only: at the only Notify step listener 0 was already deregistered, yet its Wait succeeds *)
Theorem notifier_refuted_shared_entry_mid :
  In (0, ROk) (wait_results (nrun VMid ninit d15c_history)) /\
  (forall a1 a2 v, d15c_history = a1 ++ NANotify v :: a2 ->
     exists x, nth_error (lsts (nrun VMid ninit a1)) 0 = Some x /\ l_dereg x = true).
Proof.
  split; [vm_compute; auto|].
  intros a1 a2 v H. unfold d15c_history in H.
  do 6 (destruct a1 as [|? a1]; [discriminate|]).
  destruct a1 as [|b a1].
  - inversion H; subst. vm_compute. eauto.
  - exfalso. inversion H as [[E1 E2 E3 E4 E5 E6 E7 E8]]. clear - E8.
    assert (F : has_notify (a1 ++ NANotify v :: a2) = true).
    { unfold has_notify. rewrite existsb_app. simpl. apply orb_true_r. }
    rewrite <- E8 in F. vm_compute in F. discriminate.
Qed.

(* regression: the current version does not report success on the three histories *)
Example d15a_current :
  wait_results (nrun VCur ninit [NAListener 1%N; NANotify 1%N; NAListener 1%N; NAWait 0; NAStep 0 CChan; NAStep 0 CCtx; NAStep 0 CCtx;
     NAStep 0 CCtx; NAStep 0 CCtx; NAWait 1; NAStep 1 CChan; NAStep 1 CCtx; NAStep 1 CCtx; NAStep 1 CCtx; NAStep 1 CCtx]) = [(0, ROk); (1, RCtx)].
Proof. vm_compute. reflexivity. Qed.
Example d15b_current : forall c, wait_results (nrun VCur ninit [NAListener 1%N; NAWait 0; NADeregister 0; NAStep 1 CCtx; NAStep 1 CCtx; NAStep 0 c; NAStep 0 CCtx; NAStep 0 CCtx; NAStep 0 CCtx; NAStep 0 CCtx]) <> [(0, ROk)].
Proof. intros c. destruct c; vm_compute; discriminate. Qed.
Example d15c_current : wait_results (nrun VCur ninit d15c_history) = [(0, RDereg)].
Proof. vm_compute. reflexivity. Qed.

(* non-vacuity: a Wait that is notified in its window does succeed *)
Example notifier_success_possible :
  wait_results (nrun VCur ninit [NAListener 2%N; NAWait 0; NANotify 2%N; NAStep 0 CChan; NAStep 0 CCtx; NAStep 0 CCtx; NAStep 0 CCtx; NAStep 0 CCtx]) = [(0, ROk)].
Proof. vm_compute. reflexivity. Qed.
