(* Correspondence for C15: a case is a schedule (action list) for one of the three models together with what the real
   code did on it. [XRun t] / [NXRun t] are macro steps (iterate the model's own single steps of thread t). *)
From Coq Require Import List NArith Bool Arith.
From Verif.C15_Events Require Import Model ModelPromise ModelNotifier.
Import ListNotations.

(* ---------- events ---------- *)
Inductive xact := XA (a : action) | XRun (t : nat).   (* XRun: thread t runs until it has invoked a synchronous callback or finished *)

Definition n_sync (s : st) : nat := length (filter (is_sync_cb s) (calls s)).
Definition thread_done (s : st) (t : nat) : bool := match nth_error (threads s) t with Some (_ :: _) => false | _ => true end.

Fixpoint run_until (fuel : nat) (s : st) (t : nat) (n0 : nat) : st :=
  match fuel with
  | 0 => s
  | S f => if thread_done s t then s
           else let s1 := step s (AStep t) in
                if Nat.ltb n0 (n_sync s1) then s1 else run_until f s1 t n0
  end.

Definition xstep (s : st) (x : xact) : st :=
  match x with XA a => step s a | XRun t => run_until 400 s t (n_sync s) end.

Definition pairN_eqb (a b : nat * N) : bool := Nat.eqb (fst a) (fst b) && N.eqb (snd a) (snd b).
Fixpoint list_eqb {A} (eqb : A -> A -> bool) (a b : list A) : bool :=
  match a, b with
  | [], [] => true
  | x :: r, y :: r' => eqb x y && list_eqb eqb r r'
  | _, _ => false
  end.
(* multiset equality (pooled callbacks: the pool's execution order is not part of this property) *)
Fixpoint remove_first (x : nat * N) (l : list (nat * N)) : option (list (nat * N)) :=
  match l with
  | [] => None
  | y :: r => if pairN_eqb x y then Some r else match remove_first x r with Some r' => Some (y :: r') | None => None end
  end.
Fixpoint perm_eqb (a b : list (nat * N)) : bool :=
  match a with
  | [] => match b with [] => true | _ => false end
  | x :: r => match remove_first x b with Some b' => perm_eqb r b' | None => false end
  end.
Definition optN_agree (o : option N) (v : N) : bool := match o with None => true | Some x => N.eqb x v end.
Fixpoint agree_cnt (o : list (option N)) (h : list hook) : bool :=
  match o, h with
  | [], [] => true
  | x :: r, y :: r' => optN_agree x (h_cnt y) && agree_cnt r r'
  | _, _ => false
  end.

(* ---------- notifier ---------- *)
Inductive nxact :=
| NX (a : naction)
| NXRun (t : nat)                      (* thread t (past its select) runs to completion *)
| NXPeek (l : nat) (ch dch : bool).    (* observed: is l's notification channel / deregisteredChan closed right now *)
Fixpoint nrun_done (fuel : nat) (s : nst) (t : nat) : nst :=
  match fuel with
  | 0 => s
  | S f => match nth_error (nthr s) t with
           | Some th => match th_pc th with
                        | NDone | NSel => s
                        | _ => nrun_done f (nstep VCur s (NAStep t CCtx)) t
                        end
           | None => s
           end
  end.
Definition nxstep (sb : nst * bool) (x : nxact) : nst * bool :=
  let '(s, ok) := sb in
  match x with
  | NX a => (nstep VCur s a, ok)
  | NXRun t => (nrun_done 8 s t, ok)
  | NXPeek l ch dch =>
      match nth_error (lsts s) l with
      | Some x => (s, ok && Bool.eqb (is_closed (l_chan x) s) ch && Bool.eqb (l_dclosed x) dch)
      | None => (s, false)
      end
  end.
Definition res_eqb (a b : nat * result) : bool :=
  Nat.eqb (fst a) (fst b) && match snd a, snd b with ROk, ROk | RDereg, RDereg | RCtx, RCtx => true | _, _ => false end.
Definition all_done (s : nst) : bool := forallb (fun th => match th_pc th with NDone => true | _ => false end) (nthr s).

Inductive case :=
| CEvent (acts : list xact) (sync pool : list (nat * N)) (ecnt : list N) (hcnt : list (option N))
| CPromise (acts : list paction) (log : list (nat * N)) (res : list bool) (triggered : bool)
| CNotif (acts : list nxact) (results : list (nat * result)).

Definition agree (c : case) : bool :=
  match c with
  | CEvent acts sync pool ecnt hcnt =>
      let s := fold_left xstep acts init in
      list_eqb pairN_eqb (sync_log s) sync && perm_eqb (pool_log s) pool
      && list_eqb N.eqb (map e_cnt (events s)) ecnt && agree_cnt hcnt (hooks s)
      && forallb (fun stk => match stk with [] => true | _ => false end) (threads s)
  | CPromise acts log res trg =>
      let s := prun pinit acts in
      list_eqb pairN_eqb (p_log s) log && list_eqb Bool.eqb (p_res s) res
      && Bool.eqb (match p_cbs s with None => true | Some _ => false end) trg
      && forallb (fun x => match snd x with [] => true | _ => false end) (p_thr s)
  | CNotif acts results =>
      let '(s, ok) := fold_left nxstep acts (ninit, true) in
      ok && list_eqb res_eqb (wait_results s) results && all_done s
  end.

Fixpoint mismatches_from (i : nat) (cs : list case) : list nat :=
  match cs with
  | [] => []
  | c :: r => if agree c then mismatches_from (S i) r else i :: mismatches_from (S i) r
  end.
Definition mismatches (cs : list case) : list nat := mismatches_from 0 cs.
