(* C15 (b): proofs about the promise.Event model, for all action lists (= all interleavings of the atomic sections). *)
From Coq Require Import List NArith Bool Arith Lia Permutation PeanoNat.
From Verif.C15_Events Require Import ModelPromise.
Import ListNotations.

Lemma prun_snoc : forall l s a, prun s (l ++ [a]) = pstep (prun s l) a.
Proof. intros. unfold prun. rewrite fold_left_app. reflexivity. Qed.

Lemma mem_In : forall c l, mem c l = true <-> In c l.
Proof.
  intros c l. unfold mem. rewrite existsb_exists. split.
  - intros (x & Hx & E). apply Nat.eqb_eq in E. subst. exact Hx.
  - intros H. exists c. split; [exact H | apply Nat.eqb_refl].
Qed.

Lemma remove1_perm : forall c l, In c l -> Permutation l (c :: remove1 c l).
Proof.
  induction l as [|x r IH]; simpl; intros H; [tauto|].
  destruct (Nat.eqb x c) eqn:E.
  - apply Nat.eqb_eq in E. subst. apply Permutation_refl.
  - destruct H as [H|H]; [subst; rewrite Nat.eqb_refl in E; discriminate|].
    eapply perm_trans; [apply perm_skip, IH, H | apply perm_swap].
Qed.

Definition cbs_list (s : pst) : list nat := match p_cbs s with Some c => c | None => [] end.
Definition all_ids (s : pst) : list nat := cbs_list s ++ pending s ++ map fst (p_log s) ++ p_removed s.

Lemma pending_app : forall (thr : list (N * list nat)) x, concat (map snd (thr ++ [x])) = concat (map snd thr) ++ snd x.
Proof. intros. rewrite map_app, concat_app. simpl. rewrite app_nil_r. reflexivity. Qed.

Lemma pending_upd : forall (thr : list (N * list nat)) t v rem c, nth_error thr t = Some (v, rem) -> In c rem ->
  Permutation (concat (map snd thr)) (c :: concat (map snd (updp thr t (fun _ => (v, remove1 c rem))))).
Proof.
  induction thr as [|x r IH]; intros [|t] v rem c H Hin; simpl in *; try discriminate.
  - inversion H; subst. simpl.
    change (c :: remove1 c rem ++ concat (map snd r)) with ((c :: remove1 c rem) ++ concat (map snd r)).
    apply Permutation_app_tail, remove1_perm, Hin.
  - eapply perm_trans; [apply Permutation_app_head, (IH t v rem c H Hin)|].
    apply Permutation_sym, Permutation_middle.
Qed.

Lemma perm_cnt : forall l1 l2 : list nat, (forall x, count_occ Nat.eq_dec l1 x = count_occ Nat.eq_dec l2 x) -> Permutation l1 l2.
Proof. intros. apply (Permutation_count_occ Nat.eq_dec). assumption. Qed.
Lemma cnt_perm : forall l1 l2 : list nat, Permutation l1 l2 -> forall x, count_occ Nat.eq_dec l1 x = count_occ Nat.eq_dec l2 x.
Proof. intros l1 l2 H. apply (Permutation_count_occ Nat.eq_dec). assumption. Qed.
Ltac cnt_solve :=
  repeat rewrite ?seq_S, ?pending_app, ?map_app, ?count_occ_app in *; simpl in *;
  repeat rewrite ?count_occ_app in *; simpl in *;
  repeat match goal with
         | |- context [Nat.eq_dec ?a ?b] => destruct (Nat.eq_dec a b)
         | H : context [Nat.eq_dec ?a ?b] |- _ => destruct (Nat.eq_dec a b)
         end; try lia.

(* the central invariant *)
Record PInv (s : pst) : Prop := {
  pi_perm : Permutation (seq 0 (p_next s)) (all_ids s);
  pi_quiet : (exists c, p_cbs s = Some c) -> p_log s = [] /\ pending s = [] /\ p_val s = None;
  pi_val : p_cbs s = None -> exists v, p_val s = Some v;
  pi_thr : forall a rem, In (a, rem) (p_thr s) -> rem <> [] -> p_val s = Some a;
  pi_log : forall c v, In (c, v) (p_log s) -> p_val s = Some v;
  pi_res : count_occ Bool.bool_dec (p_res s) true = match p_cbs s with None => 1 | Some _ => 0 end }.

Lemma pinv_init : PInv pinit.
Proof.
  constructor; simpl.
  - apply Permutation_refl.
  - intros _. auto.
  - discriminate.
  - tauto.
  - tauto.
  - reflexivity.
Qed.

Lemma count_occ_snoc : forall (l : list bool) b, count_occ Bool.bool_dec (l ++ [b]) true = count_occ Bool.bool_dec l true + (if b then 1 else 0).
Proof. intros. rewrite count_occ_app. destruct b; cbn; lia. Qed.

Lemma In_updp : forall {A} (l : list A) t f x, In x (updp l t f) -> In x l \/ exists y, nth_error l t = Some y /\ x = f y.
Proof.
  induction l as [|y r IH]; intros [|t] f x H; simpl in *; try tauto.
  - destruct H as [H|H]; [right; exists y; auto | left; auto].
  - destruct H as [H|H]; [left; auto|]. destruct (IH t f x H) as [H1|H1]; [left; auto | right; exact H1].
Qed.

Local Opaque seq.
Lemma pinv_step : forall s a, PInv s -> PInv (pstep s a).
Proof.
  intros s a I. destruct I as [Pp Pq Pv Pt Pl Pr].
  unfold all_ids, cbs_list, pending in *.
  destruct a as [v| |c|t c]; simpl.
  - (* Trigger *)
    destruct (p_cbs s) as [cs|] eqn:Ec.
    + destruct (Pq (ex_intro _ cs eq_refl)) as (Hl & Hp & Hv).
      constructor; simpl; unfold all_ids, cbs_list, pending; simpl.
      * rewrite pending_app. simpl. rewrite Hp. simpl. rewrite Hp in Pp. exact Pp.
      * intros [c0 H0]; discriminate.
      * intros _. eauto.
      * intros a rem Hin Hne. apply in_app_or in Hin. destruct Hin as [Hin|[Hin|[]]].
        -- exfalso. unfold pending in Hp. clear - Hp Hin Hne.
           induction (p_thr s) as [|x r IH]; simpl in *; [tauto|].
           apply app_eq_nil in Hp. destruct Hp as [H1 H2]. destruct Hin as [Hin|Hin]; [subst; simpl in *; tauto | auto].
        -- inversion Hin; subst. reflexivity.
      * rewrite Hl. simpl. tauto.
      * rewrite count_occ_snoc. rewrite Pr. reflexivity.
    + constructor; simpl; unfold all_ids, cbs_list, pending; simpl.
      * rewrite pending_app. simpl. rewrite app_nil_r. exact Pp.
      * intros [c0 H0]; discriminate.
      * intros _. apply Pv. reflexivity.
      * intros a rem Hin Hne. apply in_app_or in Hin. destruct Hin as [Hin|[Hin|[]]]; [eauto|].
        inversion Hin; subst. congruence.
      * exact Pl.
      * rewrite count_occ_snoc. rewrite Pr. simpl. lia.
  - (* OnTrigger *)
    destruct (p_cbs s) as [cs|] eqn:Ec.
    + destruct (Pq (ex_intro _ cs eq_refl)) as (Hl & Hp & Hv).
      constructor; simpl; unfold all_ids, cbs_list, pending; simpl.
      * apply perm_cnt; intros x. pose proof (cnt_perm _ _ Pp x) as Cx. cnt_solve.
      * intros _. rewrite pending_app. simpl. rewrite app_nil_r. auto.
      * discriminate.
      * intros a rem Hin Hne. apply in_app_or in Hin. destruct Hin as [Hin|[Hin|[]]]; [eauto|].
        inversion Hin; subst. congruence.
      * exact Pl.
      * exact Pr.
    + destruct (Pv eq_refl) as [v Hv].
      constructor; simpl; unfold all_ids, cbs_list, pending; simpl.
      * apply perm_cnt; intros x. pose proof (cnt_perm _ _ Pp x) as Cx. cnt_solve.
      * intros [c0 H0]; discriminate.
      * intros _. eauto.
      * intros a rem Hin Hne. apply in_app_or in Hin. destruct Hin as [Hin|[Hin|[]]]; [eauto|].
        inversion Hin; subst. rewrite Hv. reflexivity.
      * exact Pl.
      * exact Pr.
  - (* Unsub *)
    destruct (p_cbs s) as [cs|] eqn:Ec; [|constructor; unfold all_ids, cbs_list, pending; rewrite ?Ec; auto].
    destruct (mem c cs) eqn:Em; [|constructor; unfold all_ids, cbs_list, pending; rewrite ?Ec; auto].
    apply mem_In in Em.
    destruct (Pq (ex_intro _ cs eq_refl)) as (Hl & Hp & Hv).
    constructor; simpl; unfold all_ids, cbs_list, pending; simpl.
    + apply perm_cnt; intros x. pose proof (cnt_perm _ _ Pp x) as Cx.
      pose proof (cnt_perm _ _ (remove1_perm c cs Em) x) as Rx. cnt_solve.
    + intros _. auto.
    + discriminate.
    + exact Pt.
    + exact Pl.
    + exact Pr.
  - (* Call *)
    destruct (nth_error (p_thr s) t) as [[v rem]|] eqn:Et; [|constructor; auto].
    destruct (mem c rem) eqn:Em; [|constructor; auto].
    apply mem_In in Em.
    assert (Hval : p_val s = Some v).
    { apply (Pt v rem); [eapply nth_error_In; eauto | intros E; subst; inversion Em]. }
    assert (Hc : p_cbs s = None).
    { destruct (p_cbs s) eqn:Ec; [|reflexivity]. destruct (Pq (ex_intro _ l eq_refl)) as (_ & _ & Hn). congruence. }
    constructor; simpl; unfold all_ids, cbs_list, pending; simpl.
    + apply perm_cnt; intros x. pose proof (cnt_perm _ _ Pp x) as Cx.
      pose proof (cnt_perm _ _ (pending_upd _ _ _ _ _ Et Em) x) as Rx. rewrite Hc in *. cnt_solve.
    + intros [c0 H0]. congruence.
    + intros _. eauto.
    + intros a0 rem0 Hin Hne. apply In_updp in Hin. destruct Hin as [Hin|(y & Hy & E)]; [eauto|].
      inversion E; subst. exact Hval.
    + intros c0 v0 Hin. apply in_app_or in Hin. destruct Hin as [Hin|[Hin|[]]]; [eauto|].
      inversion Hin; subst. exact Hval.
    + rewrite Hc in *. exact Pr.
Qed.

Local Transparent seq.
Lemma pinv_run : forall l s, PInv s -> PInv (prun s l).
Proof. induction l; simpl; intros; auto using pinv_step. Qed.

Theorem promise_perm : forall l, let s := prun pinit l in
  Permutation (seq 0 (p_next s)) (cbs_list s ++ pending s ++ map fst (p_log s) ++ p_removed s).
Proof. intros l. exact (pi_perm _ (pinv_run l _ pinv_init)). Qed.

Lemma count_seq : forall c n, count_occ Nat.eq_dec (seq 0 n) c = if c <? n then 1 else 0.
Proof.
  intros c n. induction n.
  - reflexivity.
  - rewrite seq_S, count_occ_app, IHn. simpl.
    destruct (Nat.ltb_spec c n); destruct (Nat.ltb_spec c (S n)); destruct (Nat.eq_dec n c); simpl; lia.
Qed.

Theorem promise_at_most_once : forall l c, count_occ Nat.eq_dec (map fst (p_log (prun pinit l))) c <= 1.
Proof.
  intros l c. pose proof (promise_perm l) as P. cbv zeta in P.
  apply (Permutation_count_occ Nat.eq_dec) with (x := c) in P.
  rewrite count_seq in P. rewrite !count_occ_app in P.
  destruct (c <? _); lia.
Qed.

Theorem promise_exactly_once : forall l c, let s := prun pinit l in
  pquiescent s -> p_cbs s = None -> c < p_next s ->
  count_occ Nat.eq_dec (map fst (p_log s)) c + count_occ Nat.eq_dec (p_removed s) c = 1.
Proof.
  intros l c s Hq Hc Hlt. pose proof (promise_perm l) as P. cbv zeta in P. fold s in P.
  assert (Hp : pending s = []).
  { unfold pending. unfold pquiescent in Hq. induction (p_thr s) as [|[v rem] r IH]; simpl; [reflexivity|].
    rewrite (Hq v rem (or_introl eq_refl)). simpl. apply IH. intros v0 rem0 H. apply (Hq v0 rem0). right. exact H. }
  unfold cbs_list in P. rewrite Hc, Hp in P. simpl in P.
  apply (Permutation_count_occ Nat.eq_dec) with (x := c) in P.
  rewrite count_seq, count_occ_app in P. apply Nat.ltb_lt in Hlt. rewrite Hlt in P. lia.
Qed.

Theorem promise_not_triggered_no_call : forall l, (exists c, p_cbs (prun pinit l) = Some c) ->
  p_log (prun pinit l) = [] /\ pending (prun pinit l) = [].
Proof. intros l H. destruct (pi_quiet _ (pinv_run l _ pinv_init) H) as (A & B & _). auto. Qed.

Theorem promise_args : forall l c v, In (c, v) (p_log (prun pinit l)) -> p_val (prun pinit l) = Some v.
Proof. intros l c v. exact (pi_log _ (pinv_run l _ pinv_init) c v). Qed.

Theorem promise_one_winner : forall l, let s := prun pinit l in
  count_occ Bool.bool_dec (p_res s) true = match p_cbs s with None => 1 | Some _ => 0 end.
Proof. intros l. exact (pi_res _ (pinv_run l _ pinv_init)). Qed.

(* meaning of the ghost list p_removed: the unsubscribe happened while c was registered and the event not yet triggered *)
Theorem promise_removed_before_trigger : forall l c, In c (p_removed (prun pinit l)) ->
  exists l1 l2 cs, l = l1 ++ PAUnsub c :: l2 /\ p_cbs (prun pinit l1) = Some cs /\ In c cs.
Proof.
  induction l as [|a l IH] using rev_ind; intros c H; [simpl in H; tauto|].
  rewrite prun_snoc in H.
  assert (Hcase : In c (p_removed (prun pinit l)) \/
                  (a = PAUnsub c /\ exists cs, p_cbs (prun pinit l) = Some cs /\ In c cs)).
  { destruct a as [v| |c0|t c0]; simpl in H.
    - destruct (p_cbs (prun pinit l)); simpl in H; auto.
    - destruct (p_cbs (prun pinit l)); simpl in H; auto.
    - destruct (p_cbs (prun pinit l)) as [cs|] eqn:Ec; auto.
      destruct (mem c0 cs) eqn:Em; auto. simpl in H. apply in_app_or in H. destruct H as [H|[H|[]]]; auto.
      subst. right. split; auto. exists cs. split; auto. apply mem_In. exact Em.
    - destruct (nth_error _ t) as [[v rem]|]; auto. destruct (mem c0 rem); auto. }
  destruct Hcase as [Hc|(Ea & cs & Hcs & Hin)].
  - destruct (IH c Hc) as (l1 & l2 & cs & E & A & B). exists l1, (l2 ++ [a]), cs. subst l. rewrite <- app_assoc. auto.
  - subst a. exists l, [], cs. auto.
Qed.

Theorem promise_value_first_trigger : forall l v, p_val (prun pinit l) = Some v ->
  exists l1 l2 cs, l = l1 ++ PATrigger v :: l2 /\ p_cbs (prun pinit l1) = Some cs.
Proof.
  induction l as [|a l IH] using rev_ind; intros v H; [simpl in H; discriminate|].
  rewrite prun_snoc in H.
  assert (Hcase : p_val (prun pinit l) = Some v \/ (a = PATrigger v /\ exists cs, p_cbs (prun pinit l) = Some cs)).
  { destruct a as [v0| |c0|t c0]; simpl in H.
    - destruct (p_cbs (prun pinit l)) eqn:Ec; simpl in H; auto. inversion H; subst. right. eauto.
    - destruct (p_cbs (prun pinit l)); simpl in H; auto.
    - destruct (p_cbs (prun pinit l)) as [cs|]; auto. destruct (mem c0 cs); auto.
    - destruct (nth_error _ t) as [[v1 rem]|]; auto. destruct (mem c0 rem); auto. }
  destruct Hcase as [Hc|(Ea & cs & Hcs)].
  - destruct (IH v Hc) as (l1 & l2 & cs & E & A). exists l1, (l2 ++ [a]), cs. subst l. rewrite <- app_assoc. auto.
  - subst a. exists l, [], cs. auto.
Qed.

(* progress: a pending callback can always be called *)
Theorem promise_pending_can_run : forall s t v rem c, nth_error (p_thr s) t = Some (v, rem) -> In c rem ->
  p_log (pstep s (PACall t c)) = p_log s ++ [(c, v)].
Proof. intros s t v rem c H Hin. simpl. rewrite H. apply mem_In in Hin. rewrite Hin. reflexivity. Qed.

(* non-vacuity: c0 registered before Trigger, c1 unsubscribed before, c2 registered during (after the swap, before the
   snapshot has been called), c3 after; quiescent at the end; log = each of c0, c2, c3 exactly once with the argument *)
Definition pex : list paction :=
  [PAOnTrigger; PAOnTrigger; PAUnsub 1; PATrigger 7%N; PAOnTrigger; PACall 2 0; PACall 3 2; PAOnTrigger; PACall 4 3; PATrigger 8%N].

Example pex_result : p_log (prun pinit pex) = [(0, 7%N); (2, 7%N); (3, 7%N)] /\ p_removed (prun pinit pex) = [1]
  /\ p_res (prun pinit pex) = [true; false] /\ p_cbs (prun pinit pex) = None /\ p_next (prun pinit pex) = 4.
Proof. vm_compute. repeat split. Qed.
Example pex_quiescent : pquiescent (prun pinit pex).
Proof. intros v rem H. vm_compute in H. intuition congruence. Qed.
