(* C15 (a): proofs about the event model, for all action lists (= all interleavings of the atomic steps of any number
   of concurrent Trigger / Hook / Unhook / LinkTo callers). *)
From Coq Require Import List NArith Bool Arith Lia PeanoNat.
From Verif.C15_Events Require Import Model.
Import ListNotations.

Lemma run_snoc : forall l s a, run s (l ++ [a]) = step (run s l) a.
Proof. intros. unfold run. rewrite fold_left_app. reflexivity. Qed.

Lemma nth_upd : forall {A} (l : list A) i f j,
  nth_error (upd l i f) j = if Nat.eqb i j then option_map f (nth_error l j) else nth_error l j.
Proof.
  induction l as [|x r IH]; intros i f j.
  - destruct i, j; simpl; try reflexivity; destruct (Nat.eqb _ _); reflexivity.
  - destruct i, j; simpl; auto.
Qed.
Lemma length_upd : forall {A} (l : list A) i f, length (upd l i f) = length l.
Proof. induction l; intros [|i] f; simpl; auto. Qed.

Lemma sum_upd : forall {A} (g : A -> nat) l t x y, nth_error l t = Some x ->
  list_sum (map g (upd l t (fun _ => y))) + g x = list_sum (map g l) + g y.
Proof.
  induction l as [|z r IH]; intros [|t] x y H; simpl in *; try discriminate.
  - inversion H; subst. lia.
  - specialize (IH t x y H). lia.
Qed.

(* ---------- WithMaxTriggerCount at hook level ---------- *)
Definition is_call (n : nat) (f : frame) : nat :=
  match f with FWalk _ _ _ (PCall m) => if Nat.eqb m n then 1 else 0 | _ => 0 end.
Definition pend_stk (n : nat) (stk : list frame) : nat := list_sum (map (is_call n) stk).
Definition pendT (n : nat) (ths : list (list frame)) : nat := list_sum (map (pend_stk n) ths).
Definition pend (n : nat) (s : st) : nat := pendT n (threads s).     (* walkers that passed n's count test and are about to call it *)
Definition ncallsL (n : nat) (cs : list call) : nat := length (filter (fun c => Nat.eqb (c_hook c) n) cs).
Definition ncalls (n : nat) (s : st) : nat := ncallsL n (calls s).
Definition allowed (mx cnt : N) : N := if N.eqb mx 0 then cnt else N.min cnt mx.

Definition hook_ok (n : nat) (s : st) : Prop :=
  match nth_error (hooks s) n with
  | Some h => N.of_nat (ncalls n s + pend n s) = allowed (h_max h) (h_cnt h)
  | None => ncalls n s + pend n s = 0
  end.
Definition HInv (s : st) : Prop := forall n, hook_ok n s.

Lemma ncalls_length : forall n s, ncalls n s = length (calls_of s n).
Proof. reflexivity. Qed.

(* hooks tables that agree on the limits and counters *)
Definition same_lim (a b : list hook) : Prop :=
  forall n, match nth_error a n, nth_error b n with
            | Some h, Some h' => h_max h' = h_max h /\ h_cnt h' = h_cnt h
            | None, None => True
            | _, _ => False
            end.
Lemma same_lim_refl : forall a, same_lim a a.
Proof. intros a n. destruct (nth_error a n); auto. Qed.
Lemma same_lim_trans : forall a b c, same_lim a b -> same_lim b c -> same_lim a c.
Proof.
  intros a b c H1 H2 n. specialize (H1 n). specialize (H2 n).
  destruct (nth_error a n), (nth_error b n), (nth_error c n); try tauto. destruct H1, H2. split; congruence.
Qed.

Lemma hinv_same : forall s s1, HInv s -> same_lim (hooks s) (hooks s1) -> threads s1 = threads s -> calls s1 = calls s -> HInv s1.
Proof.
  intros s s1 I H Ht Hc n. specialize (I n). specialize (H n). unfold hook_ok, ncalls, pend in *. rewrite Ht, Hc.
  destruct (nth_error (hooks s) n), (nth_error (hooks s1) n); try tauto. destruct H as [A B]. rewrite A, B. exact I.
Qed.

Lemma delete_same : forall s m, same_lim (hooks s) (hooks (delete s m)) /\ threads (delete s m) = threads s /\ calls (delete s m) = calls s.
Proof.
  intros s m. unfold delete. destruct (nth_error (hooks s) m) as [h|] eqn:E; [|auto using same_lim_refl].
  destruct (h_in h); [|auto using same_lim_refl]. destruct (nth_error (events s) (h_ev h)); [|auto using same_lim_refl].
  simpl. split; [|auto]. intros n. rewrite nth_upd. destruct (Nat.eqb m n) eqn:En.
  - apply Nat.eqb_eq in En. subst. rewrite E. simpl. auto.
  - destruct (nth_error (hooks s) n); auto.
Qed.

Lemma pendT_app : forall n a b, pendT n (a ++ b) = pendT n a + pendT n b.
Proof. intros. unfold pendT. rewrite map_app, list_sum_app. reflexivity. Qed.

Lemma start_trigger_same : forall s e a p s1 fr, start_trigger s e a p = (s1, fr) ->
  hooks s1 = hooks s /\ threads s1 = threads s /\ calls s1 = calls s /\ (forall n, pend_stk n fr = 0).
Proof.
  intros s e a p s1 fr H. unfold start_trigger in H. destruct (nth_error (events s) e).
  - inversion H; subst; simpl. repeat split; auto. intros n. destruct (exceeds _ _); reflexivity.
  - inversion H; subst. auto.
Qed.

Lemma attach_spec : forall s e k mx po,
  threads (attach s e k mx po) = threads s /\ calls (attach s e k mx po) = calls s /\
  (hooks (attach s e k mx po) = hooks s \/ exists h, hooks (attach s e k mx po) = hooks s ++ [h] /\ h_cnt h = 0%N).
Proof.
  intros. unfold attach. destruct (nth_error (events s) e); simpl; auto.
  split; auto. split; auto. right. eexists. split; [reflexivity|reflexivity].
Qed.

Lemma hinv_attach : forall s s1, HInv s -> threads s1 = threads s -> calls s1 = calls s ->
  (hooks s1 = hooks s \/ exists h, hooks s1 = hooks s ++ [h] /\ h_cnt h = 0%N) -> HInv s1.
Proof.
  intros s s1 I Ht Hc [Hh|(h & Hh & Hz)].
  - eapply hinv_same; eauto. rewrite Hh. apply same_lim_refl.
  - intros n. specialize (I n). unfold hook_ok, ncalls, pend in *. rewrite Ht, Hc, Hh.
    destruct (Nat.lt_ge_cases n (length (hooks s))) as [L|L].
    + rewrite nth_error_app1 by assumption. exact I.
    + assert (E : nth_error (hooks s) n = None) by (apply nth_error_None; exact L). rewrite E in I.
      rewrite nth_error_app2 by assumption. destruct (n - length (hooks s)) as [|k] eqn:Ek; simpl.
      * rewrite I, Hz. unfold allowed. destruct (N.eqb (h_max h) 0); [reflexivity|]. rewrite N.min_l; [reflexivity | apply N.le_0_l].
      * destruct k; exact I.
Qed.

Lemma ncallsL_snoc : forall n cs c, ncallsL n (cs ++ [c]) = ncallsL n cs + (if Nat.eqb (c_hook c) n then 1 else 0).
Proof. intros. unfold ncallsL. rewrite filter_app, app_length. simpl. destruct (Nat.eqb _ _); reflexivity. Qed.

Lemma allowed_step : forall mx cnt, exceeds (N.succ cnt) mx = false -> allowed mx (N.succ cnt) = N.succ (allowed mx cnt).
Proof.
  intros mx cnt H. unfold exceeds, allowed in *. destruct (N.eqb mx 0) eqn:E; [reflexivity|]. simpl in H.
  apply N.ltb_ge in H. rewrite !N.min_l by lia. reflexivity.
Qed.
Lemma allowed_stay : forall mx cnt, exceeds (N.succ cnt) mx = true -> allowed mx (N.succ cnt) = allowed mx cnt.
Proof.
  intros mx cnt H. unfold exceeds, allowed in *. destruct (N.eqb mx 0) eqn:E; [discriminate|]. simpl in H.
  apply N.ltb_lt in H. rewrite !N.min_r by lia. reflexivity.
Qed.

Lemma pend_stk_cons : forall n f r, pend_stk n (f :: r) = is_call n f + pend_stk n r.
Proof. reflexivity. Qed.
Lemma pend_stk_app : forall n a b, pend_stk n (a ++ b) = pend_stk n a + pend_stk n b.
Proof. intros. unfold pend_stk. rewrite map_app, list_sum_app. reflexivity. Qed.

Lemma transfer : forall n s s',
  hook_ok n s ->
  match nth_error (hooks s) n, nth_error (hooks s') n with
  | Some h, Some h' => h_max h' = h_max h /\ h_cnt h' = h_cnt h
  | None, None => True
  | _, _ => False
  end ->
  ncalls n s' + pend n s' = ncalls n s + pend n s -> hook_ok n s'.
Proof.
  intros n s s' I H E. unfold hook_ok in *. rewrite E.
  destruct (nth_error (hooks s) n), (nth_error (hooks s') n); try tauto. destruct H as [A B]. rewrite A, B. exact I.
Qed.

(* one step of a thread *)
Lemma hinv_step_thread : forall s t, HInv s -> HInv (step_thread s t).
Proof.
  intros s t I. unfold step_thread. destruct (nth_error (threads s) t) as [[|f rest]|] eqn:Et; try exact I.
  destruct (step_frame s f rest) as [s1 stk] eqn:Es.
  assert (Fin : forall n, threads s1 = threads s ->
            pend n (set_threads s1 (upd (threads s1) t (fun _ => stk))) + (is_call n f + pend_stk n rest) = pend n s + pend_stk n stk).
  { intros n Ht. unfold pend. simpl. rewrite Ht. unfold pendT. rewrite <- pend_stk_cons. apply sum_upd. exact Et. }
  assert (Hooks : forall X, hooks (set_threads s1 X) = hooks s1) by reflexivity.
  assert (Calls : forall X n, ncalls n (set_threads s1 X) = ncalls n s1) by reflexivity.
  pose proof I as I0. intros n. specialize (I n).
  destruct f as [e a k p|e tgt].
  - destruct p as [|m|m|m|m]; simpl in Es.
    + (* PHead *)
      assert (E1 : s1 = s /\ pend_stk n stk = pend_stk n rest).
      { destruct (nth_error (events s) e) as [ev|]; inversion Es; subst; split; auto.
        unfold goto. destruct (hd_error (e_live ev)); reflexivity. }
      destruct E1 as [E1 E2]. subst s1. specialize (Fin n eq_refl). rewrite E2 in Fin. simpl in Fin.
      apply (transfer n s); [exact I | rewrite Hooks; destruct (nth_error (hooks s) n); auto | rewrite Calls; lia].
    + (* PAt m: the atomic add and comparison *)
      destruct (nth_error (hooks s) m) as [h|] eqn:Eh.
      * inversion Es; subst s1 stk; clear Es. specialize (Fin n eq_refl).
        rewrite pend_stk_cons in Fin.
        destruct (Nat.eqb m n) eqn:Emn.
        -- apply Nat.eqb_eq in Emn. subst n. unfold hook_ok in *. rewrite Hooks. rewrite Calls. simpl hooks.
           rewrite nth_upd, Nat.eqb_refl, Eh in *. simpl option_map. cbn [h_max h_cnt].
           change (ncalls m (set_hooks s _)) with (ncalls m s).
           revert Fin. destruct (exceeds (N.succ (h_cnt h)) (h_max h)) eqn:Ex; intros Fin.
           ++ rewrite allowed_stay by assumption. rewrite <- I. f_equal. simpl in Fin. cbn [threads set_hooks]. lia.
           ++ rewrite allowed_step by assumption. rewrite <- I. simpl in Fin. rewrite Nat.eqb_refl in Fin. cbn [threads set_hooks]. lia.
        -- apply (transfer n s); [exact I | |].
           ++ rewrite Hooks. simpl hooks. rewrite nth_upd, Emn. destruct (nth_error (hooks s) n); auto.
           ++ rewrite Calls. change (ncalls n (set_hooks s _)) with (ncalls n s).
              revert Fin. destruct (exceeds _ _); intros Fin; simpl in Fin; try rewrite Emn in Fin; cbn [threads set_hooks]; lia.
      * inversion Es; subst s1 stk; clear Es. specialize (Fin n eq_refl). simpl in Fin.
        apply (transfer n s); [exact I | rewrite Hooks; destruct (nth_error (hooks s) n); auto | rewrite Calls; lia].
    + (* PUnhook *)
      inversion Es; subst s1 stk; clear Es. destruct (delete_same s m) as (A & B & C).
      specialize (Fin n B). rewrite pend_stk_cons in Fin. simpl in Fin.
      apply (transfer n s); [exact I | rewrite Hooks; apply (A n) | rewrite Calls; unfold ncalls; rewrite C; fold (ncalls n s); lia].
    + (* PCall m *)
      destruct (nth_error (hooks s) m) as [h|] eqn:Eh.
      * set (s0 := set_calls s (calls s ++ [mkCall m a k])) in *.
        assert (E1 : hooks s1 = hooks s /\ threads s1 = threads s /\ calls s1 = calls s ++ [mkCall m a k] /\
                     pend_stk n stk = pend_stk n rest).
        { destruct (h_pooled h); [inversion Es; subst; simpl; auto|].
          destruct (h_kind h) as [|e2]; [inversion Es; subst; simpl; auto|].
          destruct (start_trigger s0 e2 a (Some (m, k))) as [s2 fr] eqn:E2. inversion Es; subst s1 stk.
          destruct (start_trigger_same _ _ _ _ _ _ E2) as (A & B & C & D). simpl in *.
          repeat split; auto. rewrite pend_stk_app, D, pend_stk_cons. reflexivity. }
        destruct E1 as (A & B & C & D). specialize (Fin n B). rewrite D in Fin. simpl in Fin.
        unfold hook_ok in *. rewrite Hooks, Calls, A. unfold ncalls at 1 2. rewrite C, ncallsL_snoc. fold (ncalls n s). simpl c_hook.
        destruct (Nat.eqb m n); destruct (nth_error (hooks s) n); try (rewrite <- I; f_equal; lia); lia.
      * inversion Es; subst s1 stk; clear Es. specialize (Fin n eq_refl). simpl in Fin.
        destruct (Nat.eqb m n) eqn:Emn.
        -- apply Nat.eqb_eq in Emn. subst n. unfold hook_ok in *. rewrite Hooks, Calls, Eh in *. lia.
        -- apply (transfer n s); [exact I | rewrite Hooks; destruct (nth_error (hooks s) n); auto | rewrite Calls; lia].
    + (* PNext *)
      inversion Es; subst s1 stk; clear Es. specialize (Fin n eq_refl).
      assert (G : pend_stk n (goto (next_of s m) e a k rest) = pend_stk n rest).
      { unfold goto. destruct (next_of s m); reflexivity. }
      rewrite G in Fin. simpl in Fin.
      apply (transfer n s); [exact I | rewrite Hooks; destruct (nth_error (hooks s) n); auto | rewrite Calls; lia].
  - (* FLink *)
    simpl in Es.
    assert (E1 : threads s1 = threads s /\ calls s1 = calls s /\ stk = rest /\
                 (hooks s1 = hooks s \/ exists h, hooks s1 = hooks s ++ [h] /\ h_cnt h = 0%N)).
    { destruct tgt as [tg|]; [|inversion Es; subst; simpl; auto].
      destruct (nth_error (events s) tg); [|inversion Es; subst; simpl; auto].
      inversion Es; subst s1 stk. simpl. destruct (attach_spec s tg (KLink e) 0 PDefault) as (A & B & C). auto. }
    destruct E1 as (A & B & C & D). subst stk.
    assert (I1 : HInv s1).
    { eapply hinv_attach; eauto. }
    specialize (Fin n A). simpl in Fin.
    apply (transfer n s1); [exact (I1 n) | rewrite Hooks; destruct (nth_error (hooks s1) n); auto |].
    assert (P : pend n s1 = pend n s) by (unfold pend; rewrite A; reflexivity).
    rewrite Calls, P. lia.
Qed.

Lemma hinv_app_thread : forall s fr, HInv s -> (forall n, pend_stk n fr = 0) -> HInv (set_threads s (threads s ++ [fr])).
Proof.
  intros s fr I H n. apply (transfer n s); [exact (I n) | simpl; destruct (nth_error (hooks s) n); auto |].
  unfold pend. simpl. rewrite pendT_app. unfold pendT at 2. simpl. rewrite H. unfold ncalls. simpl. lia.
Qed.

Lemma hinv_app_thread2 : forall s ths fr, HInv s -> ths = threads s -> (forall n, pend_stk n fr = 0) -> HInv (set_threads s (ths ++ [fr])).
Proof. intros; subst; apply hinv_app_thread; auto. Qed.

Lemma hinv_act : forall s a, HInv s -> HInv (act s a).
Proof.
  intros s a I. destruct a as [mx p|e mx po|h|e a|e tgt|t]; simpl.
  - eapply hinv_same; eauto. apply same_lim_refl.
  - destruct (attach_spec s e KCb mx po) as (A & B & C). eapply hinv_attach; eauto.
  - destruct (delete_same s h) as (A & B & C). eapply hinv_same; eauto.
  - destruct (start_trigger s e a None) as [s1 fr] eqn:E. destruct (start_trigger_same _ _ _ _ _ _ E) as (A & B & C & D).
    apply hinv_app_thread; [|exact D]. eapply hinv_same; eauto. rewrite A. apply same_lim_refl.
  - destruct (nth_error (events s) e) as [ev|]; [|apply hinv_app_thread; auto].
    destruct (e_lock ev); [apply hinv_app_thread; auto|].
    assert (I1 : HInv (match e_link ev with Some l => delete s l | None => s end)).
    { destruct (e_link ev) as [l|]; [|exact I]. destruct (delete_same s l) as (A & B & C). eapply hinv_same; eauto. }
    apply hinv_app_thread2; [|reflexivity|intros n; reflexivity].
    apply (hinv_same (match e_link ev with Some l => delete s l | None => s end)); [exact I1 | apply same_lim_refl | reflexivity | reflexivity].
  - apply hinv_step_thread. exact I.
Qed.

Lemma hinv_step : forall s a, HInv s -> HInv (step s a).
Proof. intros s a I. unfold step. eapply hinv_same; [apply (hinv_act s a I) | apply same_lim_refl | reflexivity | reflexivity]. Qed.

Lemma hinv_init : HInv init.
Proof. intros n. unfold hook_ok. simpl. destruct n; reflexivity. Qed.

Lemma hinv_run : forall l s, HInv s -> HInv (run s l).
Proof. induction l; simpl; intros; auto using hinv_step. Qed.

(* WithMaxTriggerCount(mx) on a hook, any schedule, any reachable state: the number of invocations so far plus the walkers that
   have passed the hook's count test and are about to invoke it equals min(mx, number of triggers that reached the hook)
   (no limit: all of them). [h_cnt] is the hook's atomic trigger counter = number of count tests performed on it. *)
Theorem max_trigger_count_hook : forall acts n h, let s := run init acts in
  nth_error (hooks s) n = Some h ->
  N.of_nat (length (calls_of s n) + pend n s) = if N.eqb (h_max h) 0 then h_cnt h else N.min (h_cnt h) (h_max h).
Proof.
  intros acts n h s H. pose proof (hinv_run acts _ hinv_init n) as I. unfold hook_ok in I. fold s in I. rewrite H in I. exact I.
Qed.

Lemma quiescent_pend : forall s n, quiescent s -> pend n s = 0.
Proof.
  intros s n Q. unfold pend, pendT. unfold quiescent in Q. induction (threads s) as [|x r IH]; simpl; [reflexivity|].
  rewrite (Q x (or_introl eq_refl)). simpl. apply IH. intros stk H. apply Q. right. exact H.
Qed.

Theorem max_trigger_count_hook_quiescent : forall acts n h, let s := run init acts in
  quiescent s -> nth_error (hooks s) n = Some h -> h_max h <> 0%N ->
  N.of_nat (length (calls_of s n)) = N.min (h_max h) (h_cnt h).
Proof.
  intros acts n h s Q H Hm. pose proof (max_trigger_count_hook acts n h H) as T. cbv zeta in T. fold s in T.
  rewrite (quiescent_pend s n Q) in T. rewrite Nat.add_0_r in T. rewrite T.
  destruct (N.eqb (h_max h) 0) eqn:E; [apply N.eqb_eq in E; contradiction | apply N.min_comm].
Qed.

(* ---------- WithMaxTriggerCount at event level (the count test is the first, atomic, step of Trigger) ---------- *)
Definition trigs_of (s : st) (e : nat) : list trig := filter (fun t => Nat.eqb (t_ev t) e) (trigs s).
Definition accepted (s : st) (e : nat) : list trig := filter (fun t => negb (t_rej t)) (trigs_of s e).

Definition ev_ok (s : st) : Prop := forall e ev, nth_error (events s) e = Some ev ->
  N.of_nat (length (trigs_of s e)) = e_cnt ev /\
  N.of_nat (length (accepted s e)) = allowed (e_max ev) (e_cnt ev).
Definition no_ghost_trigs (s : st) : Prop := forall t, In t (trigs s) -> t_ev t < length (events s).

Lemma allowed_zero : forall mx, allowed mx 0 = 0%N.
Proof. intros. unfold allowed. destruct (N.eqb mx 0); [reflexivity | apply N.min_l, N.le_0_l]. Qed.

(* ---------- full statements; proved in ProofsEvent2.v (max_trigger_count_event) and ProofsWalk.v (trigger_exactly_once,
   link_no_fire_after_unhook) ---------- *)
Definition max_trigger_count_event_full_statement : Prop :=
  forall acts, ev_ok (run init acts).     (* accepted triggers of e = min(e_max, Trigger calls on e) *)

Definition finished (s : st) (k : nat) : Prop :=
  forall stk f, In stk (threads s) -> In f stk -> match f with FWalk _ _ k' _ => k' <> k | FLink _ _ => True end.

(* every hook attached before trigger k began and still attached when k has finished was invoked by k exactly once,
   with k's argument; k's invocations are in attachment order *)
Definition trigger_exactly_once_full_statement : Prop :=
  forall acts k tr n h, let s := run init acts in
  nth_error (trigs s) k = Some tr -> t_rej tr = false -> finished s k ->
  nth_error (hooks s) n = Some h -> h_ev h = t_ev tr -> h_born h < t_t0 tr -> h_in h = true ->
  (exists i, nth_error (calls_by s k) i = Some (mkCall n (t_arg tr) k)) /\
  length (filter (fun c => Nat.eqb (c_hook c) n) (calls_by s k)) = 1 /\
  (forall i j c1 c2, i < j -> nth_error (calls_by s k) i = Some c1 -> nth_error (calls_by s k) j = Some c2 -> c_hook c1 < c_hook c2).

(* a hook that was unhooked before trigger k began is not invoked by k (LinkTo: the former target's triggers no longer fire) *)
Definition link_full_statement : Prop :=
  forall acts c h tr, let s := run init acts in
  In c (calls s) -> nth_error (hooks s) (c_hook c) = Some h -> nth_error (trigs s) (c_tid c) = Some tr ->
  h_in h = true \/ t_t0 tr < h_died h.

(* ---------- non-vacuity / regression examples ---------- *)
(* one event, hook 0 limited to 2, hook 1 unlimited; three complete triggers, the third one interleaved with the second *)
Definition ex_limit : list action :=
  [ANewEvent 0 false; AHook 0 2 PDefault; AHook 0 0 PDefault;
   ATrigger 0 10; AStep 0; AStep 0; AStep 0; AStep 0; AStep 0; AStep 0; AStep 0;
   ATrigger 0 11; ATrigger 0 12; AStep 1; AStep 2; AStep 1; AStep 2; AStep 2; AStep 1; AStep 1; AStep 2;
   AStep 1; AStep 2; AStep 1; AStep 2; AStep 1; AStep 2; AStep 1; AStep 2].
Example ex_limit_result :
  let s := run init ex_limit in
  map (fun c => (c_hook c, c_arg c)) (calls s) = [(0, 10%N); (1, 10%N); (0, 11%N); (1, 11%N); (1, 12%N)]
  /\ map h_cnt (hooks s) = [3%N; 3%N] /\ map h_in (hooks s) = [false; true] /\ threads s = [[]; []; []].
Proof. vm_compute. repeat split. Qed.
Example ex_limit_quiescent : quiescent (run init ex_limit).
Proof. intros stk H. vm_compute in H. intuition. Qed.

(* a callback-free rendering of "a hook unhooks itself and its successor while the walker stands on it": the walker
   continues from the removed element into a removed one (frozen next pointer) *)
Example ex_frozen :
  map (fun c => c_hook c) (calls (run init
    [ANewEvent 0 false; AHook 0 0 PDefault; AHook 0 0 PDefault; AHook 0 0 PDefault; AHook 0 0 PDefault;
     ATrigger 0 1; AStep 0; AStep 0; AStep 0; AStep 0; AStep 0; AStep 0; AUnhook 1; AUnhook 2;
     AStep 0; AStep 0; AStep 0; AStep 0; AStep 0; AStep 0; AStep 0; AStep 0])) = [0; 1; 2; 3].
Proof. vm_compute. reflexivity. Qed.
