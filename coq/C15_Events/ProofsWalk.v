(* C15 (a), continued: the Trigger walk over the hook list with concurrent Hook / Unhook / LinkTo / other Triggers.
   Inductive invariant over ALL action lists: frozen next pointers never skip a hook that was attached before the walk
   began and is still attached; every walker only stands on hooks that were attached at some moment after its trigger
   began.  Proves [trigger_exactly_once_full_statement] and [link_full_statement] of ProofsEvent.v. *)
From Coq Require Import List NArith Bool Arith Lia PeanoNat.
From Verif.C15_Events Require Import Model ProofsEvent.
Import ListNotations.

(* ---------- strictly increasing lists of hook ids ---------- *)
Fixpoint incr (l : list nat) : Prop :=
  match l with [] => True | x :: r => (forall y, In y r -> x < y) /\ incr r end.

Lemma incr_snoc : forall l y, incr l -> (forall x, In x l -> x < y) -> incr (l ++ [y]).
Proof.
  induction l as [|x r IH]; intros y H1 H2; simpl; [split; [intros z []|exact I]|].
  destruct H1 as [A B]. split.
  - intros z Hz. apply in_app_or in Hz. destruct Hz as [Hz|[Hz|[]]]; [auto | subst; apply H2; left; reflexivity].
  - apply IH; [exact B | intros z Hz; apply H2; right; exact Hz].
Qed.

Lemma remove_in : forall l n x, incr l -> (In x (remove_nat n l) <-> In x l /\ x <> n).
Proof.
  induction l as [|y r IH]; intros n x H; simpl; [tauto|].
  destruct H as [A B]. destruct (Nat.eqb y n) eqn:E.
  - apply Nat.eqb_eq in E. subst y. split.
    + intros Hx. split; [right; exact Hx | specialize (A x Hx); lia].
    + intros [[Hx|Hx] Hn]; [congruence | exact Hx].
  - apply Nat.eqb_neq in E. simpl. rewrite (IH n x B). split.
    + intros [Hx|[Hx Hn]]; [subst; auto | auto].
    + intros [[Hx|Hx] Hn]; auto.
Qed.

Lemma remove_incr : forall l n, incr l -> incr (remove_nat n l).
Proof.
  induction l as [|y r IH]; intros n H; simpl; [exact I|].
  destruct H as [A B]. destruct (Nat.eqb y n); [exact B|]. simpl. split; [|apply IH; exact B].
  intros z Hz. apply remove_in in Hz; [|exact B]. apply A. tauto.
Qed.

Lemma succ_some : forall l n p, incr l -> succ_of n l = Some p ->
  In n l /\ In p l /\ n < p /\ forall m, In m l -> n < m -> p <= m.
Proof.
  induction l as [|y r IH]; intros n p H E; simpl in *; [discriminate|].
  destruct H as [A B]. destruct (Nat.eqb y n) eqn:Ey.
  - apply Nat.eqb_eq in Ey. subst y. destruct r as [|z r']; simpl in E; [discriminate|]. inversion E; subst z.
    split; [left; reflexivity|]. split; [right; left; reflexivity|]. split; [apply A; left; reflexivity|].
    intros m [Hm|[Hm|Hm]] L; [lia | lia |]. destruct B as [B1 _]. specialize (B1 m Hm). lia.
  - destruct (IH n p B E) as (I1 & I2 & I3 & I4). split; [right; exact I1|]. split; [right; exact I2|]. split; [exact I3|].
    intros m [Hm|Hm] L; [|auto]. subst m. specialize (A n I1). lia.
Qed.

Lemma succ_none : forall l n, incr l -> In n l -> succ_of n l = None -> forall m, In m l -> m <= n.
Proof.
  induction l as [|y r IH]; intros n H Hn E m Hm; simpl in *; [contradiction|].
  destruct H as [A B]. destruct (Nat.eqb y n) eqn:Ey.
  - apply Nat.eqb_eq in Ey. subst y. destruct r as [|z r']; simpl in E; [|discriminate]. destruct Hm as [Hm|[]]. lia.
  - apply Nat.eqb_neq in Ey. destruct Hn as [Hn|Hn]; [contradiction|]. destruct Hm as [Hm|Hm].
    + subst m. specialize (A n Hn). lia.
    + eapply IH; eauto.
Qed.

Lemma hd_min : forall l p, incr l -> hd_error l = Some p -> In p l /\ forall m, In m l -> p <= m.
Proof.
  intros [|y r] p H E; simpl in *; [discriminate|]. inversion E; subst y. destruct H as [A _]. split; [left; reflexivity|].
  intros m [Hm|Hm]; [lia | specialize (A m Hm); lia].
Qed.

Lemma incr_nth : forall l i j x y, incr l -> i < j -> nth_error l i = Some x -> nth_error l j = Some y -> x < y.
Proof.
  induction l as [|z r IH]; intros i j x y H L Hi Hj; [destruct i; discriminate|].
  destruct H as [A B]. destruct j as [|j]; [lia|]. simpl in Hj. destruct i as [|i]; simpl in Hi.
  - inversion Hi; subst z. apply A. eapply nth_error_In; eauto.
  - apply (IH i j x y B); [lia | exact Hi | exact Hj].
Qed.

Lemma incr_count : forall {A} (f : A -> nat) (L : list A) n, incr (map f L) -> In n (map f L) ->
  length (filter (fun c => Nat.eqb (f c) n) L) = 1.
Proof.
  intros A f L n. induction L as [|c r IH]; intros H Hn; simpl in *; [contradiction|].
  destruct H as [H1 H2]. destruct (Nat.eqb (f c) n) eqn:E.
  - apply Nat.eqb_eq in E. simpl. f_equal.
    assert (Z : forall r', (forall y, In y (map f r') -> n < y) -> filter (fun c0 => Nat.eqb (f c0) n) r' = []).
    { induction r' as [|d r' IH']; intros Hy; simpl; [reflexivity|].
      destruct (Nat.eqb (f d) n) eqn:Ed.
      - apply Nat.eqb_eq in Ed. specialize (Hy (f d) (or_introl eq_refl)). lia.
      - apply IH'. intros y Hy'. apply Hy. right. exact Hy'. }
    rewrite Z; [reflexivity|]. rewrite <- E. exact H1.
  - apply Nat.eqb_neq in E. destruct Hn as [Hn|Hn]; [contradiction|]. apply IH; assumption.
Qed.

Lemma in_upd : forall {A} (l : list A) t y x, In x (upd l t (fun _ => y)) -> x = y \/ In x l.
Proof.
  induction l as [|z r IH]; intros [|t] y x H; simpl in *; try contradiction.
  - destruct H; [left; auto | right; right; assumption].
  - destruct H as [H|H]; [right; left; assumption|]. destruct (IH _ _ _ H); auto.
Qed.
Lemma in_upd2 : forall {A} (l : list A) t y z x, In x (upd l t (fun _ => y)) -> x = y \/ In x (upd l t (fun _ => z)).
Proof.
  induction l as [|w r IH]; intros [|t] y z x H; simpl in *; try contradiction.
  - destruct H; [left; auto | right; right; assumption].
  - destruct H as [H|H]; [right; left; assumption|]. destruct (IH _ _ z _ H); auto.
Qed.
Lemma sum_zero : forall {A} (g : A -> nat) l x, list_sum (map g l) = 0 -> In x l -> g x = 0.
Proof.
  induction l as [|z r IH]; intros x H Hx; simpl in *; [contradiction|]. destruct Hx as [Hx|Hx]; [subst; lia|]. apply IH; [lia|exact Hx].
Qed.
Lemma sum_all_zero : forall {A} (g : A -> nat) l, (forall x, In x l -> g x = 0) -> list_sum (map g l) = 0.
Proof.
  induction l as [|z r IH]; intros H; simpl; [reflexivity|]. rewrite (H z (or_introl eq_refl)). apply IH. intros x Hx. apply H. right. exact Hx.
Qed.
Lemma sum_ge : forall {A} (g : A -> nat) l x, In x l -> g x <= list_sum (map g l).
Proof.
  induction l as [|z r IH]; intros x Hx; simpl in *; [contradiction|]. destruct Hx as [Hx|Hx]; [subst; lia|]. specialize (IH x Hx). lia.
Qed.

(* ---------- well-formedness of the hook table / ordered maps, with birth and death stamps ---------- *)
Definition hcore (h : hook) := (h_ev h, h_in h, h_frozen h, h_born h, h_died h).

(* a removed element n: its frozen next pointer goes forward to an element that was attached when n was removed, and every
   element of the same event between n and that target was removed earlier or attached later than n's removal *)
Definition FR (s : st) (n : nat) (h : hook) : Prop :=
  (forall p, h_frozen h = Some p ->
     n < p /\ exists hp, nth_error (hooks s) p = Some hp /\ h_ev hp = h_ev h /\ (h_in hp = true \/ h_died h < h_died hp)) /\
  (forall m hm, nth_error (hooks s) m = Some hm -> h_ev hm = h_ev h -> n < m -> (forall p, h_frozen h = Some p -> m < p) ->
     h_in hm = false \/ h_died h <= h_born hm).

Definition live_ok (s : st) (e : nat) (ev : event) : Prop :=
  incr (e_live ev) /\
  forall n, In n (e_live ev) <-> exists h, nth_error (hooks s) n = Some h /\ h_ev h = e /\ h_in h = true.

Definition WFb (s : st) (b : nat) : Prop :=
  (forall n h, nth_error (hooks s) n = Some h -> nth_error (events s) (h_ev h) <> None) /\
  (forall e ev, nth_error (events s) e = Some ev -> live_ok s e ev) /\
  (forall n h, nth_error (hooks s) n = Some h -> h_in h = false -> h_died h < b) /\
  (forall k tr, nth_error (trigs s) k = Some tr -> t_t0 tr < b) /\
  (forall n h, nth_error (hooks s) n = Some h -> h_in h = false -> FR s n h).

Lemma core_tr : forall (a b : list hook) n h,
  (forall n, option_map hcore (nth_error a n) = option_map hcore (nth_error b n)) ->
  nth_error a n = Some h ->
  exists h', nth_error b n = Some h' /\ h_ev h' = h_ev h /\ h_in h' = h_in h /\ h_frozen h' = h_frozen h /\
             h_born h' = h_born h /\ h_died h' = h_died h.
Proof.
  intros a b n h H E. specialize (H n). rewrite E in H. destruct (nth_error b n) as [h'|]; simpl in H; [|discriminate].
  unfold hcore in H. inversion H. exists h'. repeat split; auto.
Qed.

Lemma wfb_weaken : forall s b b', WFb s b -> b <= b' -> WFb s b'.
Proof.
  intros s b b' (A & B & C & D & E) L. split; [exact A|]. split; [exact B|]. split; [|split; [|exact E]].
  - intros n h H1 H2. specialize (C n h H1 H2). lia.
  - intros k tr H. specialize (D k tr H). lia.
Qed.

Lemma wfb_irrel : forall s s' b, WFb s b ->
  (forall n, option_map hcore (nth_error (hooks s') n) = option_map hcore (nth_error (hooks s) n)) ->
  (forall e, option_map e_live (nth_error (events s') e) = option_map e_live (nth_error (events s) e)) ->
  (forall k tr, nth_error (trigs s') k = Some tr -> t_t0 tr < b) -> WFb s' b.
Proof.
  intros s s' b (A & B & C & D & E) Hh He Ht.
  assert (Hh' : forall n, option_map hcore (nth_error (hooks s) n) = option_map hcore (nth_error (hooks s') n)) by (intros; symmetry; apply Hh).
  assert (EV : forall e ev', nth_error (events s') e = Some ev' -> exists ev, nth_error (events s) e = Some ev /\ e_live ev = e_live ev').
  { intros e ev' H. specialize (He e). rewrite H in He. destruct (nth_error (events s) e) as [ev|]; simpl in He; [|discriminate].
    inversion He. eauto. }
  split; [|split; [|split; [|split]]].
  - intros n h' H. destruct (core_tr _ _ _ _ Hh H) as (h & H1 & H2 & _). rewrite <- H2. specialize (A n h H1).
    specialize (He (h_ev h)). destruct (nth_error (events s') (h_ev h)); [discriminate|].
    destruct (nth_error (events s) (h_ev h)); [discriminate|congruence].
  - intros e ev' H. destruct (EV e ev' H) as (ev & H1 & H2). destruct (B e ev H1) as [B1 B2]. unfold live_ok. rewrite <- H2.
    split; [exact B1|]. intros n. rewrite B2. split; intros (h & X1 & X2 & X3).
    + destruct (core_tr _ _ _ _ Hh' X1) as (h' & Y1 & Y2 & Y3 & _). exists h'. repeat split; congruence.
    + destruct (core_tr _ _ _ _ Hh X1) as (h' & Y1 & Y2 & Y3 & _). exists h'. repeat split; congruence.
  - intros n h' H1 H2. destruct (core_tr _ _ _ _ Hh H1) as (h & Y1 & Y2 & Y3 & Y4 & Y5 & Y6). rewrite <- Y6. apply (C n h Y1). congruence.
  - exact Ht.
  - intros n h' H1 H2. destruct (core_tr _ _ _ _ Hh H1) as (h & Y1 & Y2 & Y3 & Y4 & Y5 & Y6).
    assert (Hin : h_in h = false) by congruence. destruct (E n h Y1 Hin) as [F1 F2]. split.
    + intros p Hp. rewrite <- Y4 in Hp. destruct (F1 p Hp) as (L & hp & Z1 & Z2 & Z3). split; [exact L|].
      destruct (core_tr _ _ _ _ Hh' Z1) as (hp' & W1 & W2 & W3 & W4 & W5 & W6). exists hp'. split; [exact W1|]. split; [congruence|].
      rewrite W3, W6, <- Y6. exact Z3.
    + intros m hm' M1 M2 M3 M4. destruct (core_tr _ _ _ _ Hh M1) as (hm & W1 & W2 & W3 & W4 & W5 & W6).
      rewrite <- W3, <- W5, <- Y6. apply (F2 m hm W1); [congruence | exact M3 |]. intros p Hp. apply M4. congruence.
Qed.

Lemma wfb_delete : forall s b n, WFb s b -> b <= now s -> WFb (delete s n) (S (now s)).
Proof.
  intros s b n W L. assert (W0 : WFb s (S (now s))) by (eapply wfb_weaken; [exact W|lia]).
  unfold delete. destruct (nth_error (hooks s) n) as [h|] eqn:En; [|exact W0].
  destruct (h_in h) eqn:Hin; [|exact W0]. destruct (nth_error (events s) (h_ev h)) as [ev|] eqn:Ee; [|exact W0].
  destruct W as (A & B & C & D & E). destruct (B _ _ Ee) as [Binc Bin].
  assert (Nin : In n (e_live ev)) by (apply Bin; eauto).
  set (h' := mkHook (h_ev h) (h_kind h) (h_max h) (h_cnt h) (h_pooled h) false (succ_of n (e_live ev)) (h_born h) (now s)).
  split; [|split; [|split; [|split]]]; simpl.
  - intros m hm H. rewrite nth_upd in H. rewrite nth_upd.
    assert (X : nth_error (events s) (h_ev hm) <> None).
    { destruct (Nat.eqb n m) eqn:Enm; [|apply (A m hm H)]. apply Nat.eqb_eq in Enm. subst m. rewrite En in H. simpl in H.
      inversion H; subst hm. simpl. congruence. }
    destruct (Nat.eqb (h_ev h) (h_ev hm)); [|exact X]. destruct (nth_error (events s) (h_ev hm)); simpl; congruence.
  - intros e ev' H. rewrite nth_upd in H. destruct (Nat.eqb (h_ev h) e) eqn:Eev.
    + apply Nat.eqb_eq in Eev. subst e. rewrite Ee in H. simpl in H. inversion H; subst ev'; clear H. split; simpl.
      * apply remove_incr. exact Binc.
      * intros x. rewrite remove_in by exact Binc. rewrite Bin. rewrite nth_upd. destruct (Nat.eqb n x) eqn:Enx.
        -- apply Nat.eqb_eq in Enx. subst x. rewrite En. simpl. split; [intros [_ X]; congruence|].
           intros (h0 & X1 & X2 & X3). inversion X1; subst h0. discriminate.
        -- apply Nat.eqb_neq in Enx. split; [intros [X _]; exact X | intros X; split; [exact X|congruence]].
    + apply Nat.eqb_neq in Eev. destruct (B e ev' H) as [B1 B2]. split; [exact B1|]. intros x. rewrite B2. cbn [hooks set_events set_hooks]. rewrite nth_upd.
      destruct (Nat.eqb n x) eqn:Enx; [|tauto]. apply Nat.eqb_eq in Enx. subst x. rewrite En. simpl.
      split; intros (h0 & X1 & X2 & X3); inversion X1; subst h0; simpl in *; congruence.
  - intros m hm H Hi. rewrite nth_upd in H. destruct (Nat.eqb n m) eqn:Enm.
    + rewrite (proj1 (Nat.eqb_eq _ _) Enm) in En. rewrite En in H. simpl in H. inversion H; subst hm. simpl. lia.
    + specialize (C m hm H Hi). lia.
  - intros k tr H. specialize (D k tr H). lia.
  - intros m hm H Hi. rewrite nth_upd in H. destruct (Nat.eqb n m) eqn:Enm.
    + apply Nat.eqb_eq in Enm. subst m. rewrite En in H. simpl in H. inversion H; subst hm; clear H. split; simpl.
      * intros p Hp. destruct (succ_some _ _ _ Binc Hp) as (S1 & S2 & S3 & S4). split; [exact S3|].
        apply Bin in S2. destruct S2 as (hp & P1 & P2 & P3). exists hp. rewrite nth_upd.
        assert (Enp : Nat.eqb n p = false) by (apply Nat.eqb_neq; lia). rewrite Enp. auto.
      * intros m hm M1 M2 M3 M4. rewrite nth_upd in M1. assert (Enm : Nat.eqb n m = false) by (apply Nat.eqb_neq; lia).
        rewrite Enm in M1. destruct (h_in hm) eqn:Him; [|left; reflexivity]. exfalso.
        assert (Lm : In m (e_live ev)) by (apply Bin; eauto).
        destruct (succ_of n (e_live ev)) as [p|] eqn:Es.
        -- destruct (succ_some _ _ _ Binc Es) as (S1 & S2 & S3 & S4). specialize (S4 m Lm M3). specialize (M4 p eq_refl). lia.
        -- pose proof (succ_none _ _ Binc Nin Es m Lm). lia.
    + apply Nat.eqb_neq in Enm. destruct (E m hm H Hi) as [F1 F2]. unfold FR. cbn [hooks set_events set_hooks]. split.
      * intros p Hp. destruct (F1 p Hp) as (Lp & hp & P1 & P2 & P3). split; [exact Lp|]. rewrite nth_upd.
        destruct (Nat.eqb n p) eqn:Enp.
        -- apply Nat.eqb_eq in Enp. subst p. rewrite En in P1. inversion P1; subst hp. rewrite En. simpl. exists h'. split; [reflexivity|].
           split; [exact P2|]. right. simpl. specialize (C m hm H Hi). lia.
        -- exists hp. auto.
      * intros m2 hm2 M1 M2 M3 M4. rewrite nth_upd in M1. destruct (Nat.eqb n m2) eqn:Enm2.
        -- rewrite (proj1 (Nat.eqb_eq _ _) Enm2) in En. rewrite En in M1. simpl in M1. inversion M1; subst hm2. left. reflexivity.
        -- apply (F2 m2 hm2 M1 M2 M3 M4).
Qed.

Lemma nth_snoc : forall {A} (l : list A) x n y, nth_error (l ++ [x]) n = Some y ->
  (n < length l /\ nth_error l n = Some y) \/ (n = length l /\ y = x).
Proof.
  intros A l x n y H. destruct (Nat.lt_ge_cases n (length l)) as [L|L].
  - rewrite nth_error_app1 in H by assumption. left. auto.
  - rewrite nth_error_app2 in H by assumption. destruct (n - length l) as [|d] eqn:Ed; simpl in H.
    + inversion H. right. split; [lia|reflexivity].
    + destruct d; discriminate.
Qed.
Lemma nth_snoc_old : forall {A} (l : list A) x n y, nth_error l n = Some y -> nth_error (l ++ [x]) n = Some y.
Proof. intros A l x n y H. rewrite nth_error_app1; [exact H|]. apply nth_error_Some. congruence. Qed.
Lemma nth_snoc_new : forall {A} (l : list A) x, nth_error (l ++ [x]) (length l) = Some x.
Proof. intros. rewrite nth_error_app2 by lia. rewrite Nat.sub_diag. reflexivity. Qed.
Lemma nth_lt : forall {A} (l : list A) n y, nth_error l n = Some y -> n < length l.
Proof. intros A l n y H. apply nth_error_Some. congruence. Qed.

Lemma wfb_attach : forall s b e k mx po, WFb s b -> b <= S (now s) -> WFb (attach s e k mx po) b.
Proof.
  intros s b e k mx po W L. unfold attach. destruct (nth_error (events s) e) as [ev|] eqn:Ee; [|exact W].
  destruct W as (A & B & C & D & E). destruct (B _ _ Ee) as [Binc Bin].
  set (pl := match po with PDefault => e_pooled ev | PSync => false | PPool => true end).
  set (hn := mkHook e k mx 0 pl true None (now s) 0).
  split; [|split; [|split; [|split]]]; cbn [hooks events trigs set_events set_hooks].
  - intros m hm H. rewrite nth_upd.
    assert (X : nth_error (events s) (h_ev hm) <> None).
    { destruct (nth_snoc _ _ _ _ H) as [[_ H1]|[_ H1]]; [apply (A m hm H1)|]. subst hm. simpl. congruence. }
    destruct (Nat.eqb e (h_ev hm)); [|exact X]. destruct (nth_error (events s) (h_ev hm)); simpl; congruence.
  - intros e' ev' H. rewrite nth_upd in H. destruct (Nat.eqb e e') eqn:Eev.
    + apply Nat.eqb_eq in Eev. subst e'. rewrite Ee in H. simpl in H. inversion H; subst ev'; clear H. split; simpl.
      * apply incr_snoc; [exact Binc|]. intros x Hx. apply Bin in Hx. destruct Hx as (h0 & X1 & _). eapply nth_lt; eauto.
      * intros x. split.
        -- intros Hx. apply in_app_or in Hx. destruct Hx as [Hx|[Hx|[]]].
           ++ apply Bin in Hx. destruct Hx as (h0 & X1 & X2 & X3). exists h0. split; [apply nth_snoc_old; exact X1|auto].
           ++ subst x. exists hn. split; [apply nth_snoc_new|auto].
        -- intros (h0 & X1 & X2 & X3). apply in_or_app. destruct (nth_snoc _ _ _ _ X1) as [[_ H1]|[H1 _]].
           ++ left. apply Bin. eauto.
           ++ right. left. auto.
    + apply Nat.eqb_neq in Eev. destruct (B e' ev' H) as [B1 B2]. split; [exact B1|]. intros x. rewrite B2.
      cbn [hooks events trigs set_events set_hooks]. split; intros (h0 & X1 & X2 & X3).
      * exists h0. split; [apply nth_snoc_old; exact X1|auto].
      * destruct (nth_snoc _ _ _ _ X1) as [[_ H1]|[_ H1]]; [eauto|]. subst h0. simpl in X2. congruence.
  - intros m hm H Hi. destruct (nth_snoc _ _ _ _ H) as [[_ H1]|[_ H1]]; [apply (C m hm H1 Hi)|]. subst hm. discriminate.
  - exact D.
  - intros m hm H Hi. destruct (nth_snoc _ _ _ _ H) as [[_ H1]|[_ H1]]; [|subst hm; discriminate].
    destruct (E m hm H1 Hi) as [F1 F2]. unfold FR. cbn [hooks events trigs set_events set_hooks]. split.
    + intros p Hp. destruct (F1 p Hp) as (Lp & hp & P1 & P2 & P3). split; [exact Lp|]. exists hp. split; [apply nth_snoc_old; exact P1|auto].
    + intros m2 hm2 M1 M2 M3 M4. destruct (nth_snoc _ _ _ _ M1) as [[_ H2]|[_ H2]]; [apply (F2 m2 hm2 H2 M2 M3 M4)|].
      subst hm2. right. simpl. specialize (C m hm H1 Hi). lia.
Qed.

Lemma wfb_newevent : forall s b mx p, WFb s b -> WFb (set_events s (events s ++ [mkEv mx 0 p [] None false])) b.
Proof.
  intros s b mx p (A & B & C & D & E). split; [|split; [|split; [|split]]]; cbn [hooks events trigs set_events set_hooks]; auto.
  - intros n h H. specialize (A n h H). intros N. apply A. apply nth_error_None. apply nth_error_None in N. rewrite app_length in N. lia.
  - intros e ev H. destruct (nth_snoc _ _ _ _ H) as [[_ H1]|[H1 H2]]; [apply (B e ev H1)|]. subst ev. split; simpl; [exact I|].
    intros n. split; [intros []|]. intros (h & X1 & X2 & X3). specialize (A n h X1). apply A. apply nth_error_None. lia.
Qed.

(* ---------- how the environment may change under a walker: [ext b s s'] ---------- *)
Definition ext (b : nat) (s s' : st) : Prop :=
  (forall n h, nth_error (hooks s) n = Some h -> exists h', nth_error (hooks s') n = Some h' /\
      h_ev h' = h_ev h /\ h_born h' = h_born h /\ h_kind h' = h_kind h /\ h_pooled h' = h_pooled h /\
      (h_in h = false -> h_in h' = false /\ h_died h' = h_died h) /\
      (h_in h = true -> h_in h' = false -> b <= h_died h')) /\
  (forall n h', nth_error (hooks s) n = None -> nth_error (hooks s') n = Some h' -> b <= S (h_born h')) /\
  (forall k tr, nth_error (trigs s) k = Some tr -> nth_error (trigs s') k = Some tr) /\
  (forall e, nth_error (events s) e <> None -> nth_error (events s') e <> None).

Lemma ext_same_hooks : forall b s s', hooks s' = hooks s ->
  (forall k tr, nth_error (trigs s) k = Some tr -> nth_error (trigs s') k = Some tr) ->
  (forall e, nth_error (events s) e <> None -> nth_error (events s') e <> None) -> ext b s s'.
Proof.
  intros b s s' Hh Ht He. split; [|split; [|split]]; auto; rewrite Hh.
  - intros n h H. exists h. repeat split; auto. congruence.
  - intros n h' H1 H2. congruence.
Qed.

Lemma ext_trans : forall b s1 s2 s3, ext b s1 s2 -> ext b s2 s3 -> ext b s1 s3.
Proof.
  intros b s1 s2 s3 (A1 & B1 & C1 & D1) (A2 & B2 & C2 & D2). split; [|split; [|split]]; auto.
  - intros n h H. destruct (A1 n h H) as (h2 & H2 & E1 & E2 & E3 & E4 & E5 & E6).
    destruct (A2 n h2 H2) as (h3 & H3 & F1 & F2 & F3 & F4 & F5 & F6). exists h3. split; [exact H3|].
    split; [congruence|]. split; [congruence|]. split; [congruence|]. split; [congruence|]. split.
    + intros Hi. destruct (E5 Hi) as [X1 X2]. destruct (F5 X1) as [Y1 Y2]. split; congruence.
    + intros Hi Hi3. destruct (h_in h2) eqn:Hi2.
      * apply F6; auto.
      * destruct (F5 eq_refl) as [_ Y2]. rewrite Y2. apply E6; auto.
  - intros n h3 H1 H3. destruct (nth_error (hooks s2) n) as [h2|] eqn:H2.
    + specialize (B1 n h2 H1 H2). destruct (A2 n h2 H2) as (h3' & H3' & F1 & F2 & _). rewrite H3 in H3'. inversion H3'; subst h3'. lia.
    + apply (B2 n h3 H2 H3).
Qed.

Lemma delete_cases : forall s n, delete s n = s \/
  exists h ev, nth_error (hooks s) n = Some h /\ h_in h = true /\ nth_error (events s) (h_ev h) = Some ev /\
    delete s n = mkSt (upd (hooks s) n (fun _ => mkHook (h_ev h) (h_kind h) (h_max h) (h_cnt h) (h_pooled h) false (succ_of n (e_live ev)) (h_born h) (now s)))
                      (upd (events s) (h_ev h) (ev_set_live (remove_nat n (e_live ev)))) (threads s) (trigs s) (calls s) (now s).
Proof.
  intros s n. unfold delete. destruct (nth_error (hooks s) n) as [h|] eqn:E; [|left; reflexivity].
  destruct (h_in h) eqn:Hi; [|left; reflexivity]. destruct (nth_error (events s) (h_ev h)) as [ev|] eqn:Ee; [|left; reflexivity].
  right. exists h, ev. auto.
Qed.

Lemma ext_refl : forall b s, ext b s s.
Proof. intros. apply ext_same_hooks; auto. Qed.

Lemma upd_not_none : forall {A} (l : list A) i f j, nth_error l j <> None -> nth_error (upd l i f) j <> None.
Proof. intros A l i f j H. rewrite nth_upd. destruct (Nat.eqb i j); [|exact H]. destruct (nth_error l j); simpl; congruence. Qed.

Lemma ext_delete : forall b s n, b <= now s -> ext b s (delete s n).
Proof.
  intros b s n L. destruct (delete_cases s n) as [E|(h & ev & H1 & H2 & H3 & E)]; rewrite E; [apply ext_refl|].
  split; [|split; [|split]]; cbn [hooks events trigs]; auto.
  - intros m hm H. rewrite nth_upd. destruct (Nat.eqb n m) eqn:Enm.
    + apply Nat.eqb_eq in Enm. subst m. rewrite H. simpl. rewrite H in H1. inversion H1; subst hm. eexists. split; [reflexivity|]. simpl.
      repeat split; auto; congruence.
    + exists hm. repeat split; auto. congruence.
  - intros m h' H4 H5. rewrite nth_upd in H5. destruct (Nat.eqb n m); [rewrite H4 in H5; discriminate | congruence].
  - intros e. apply upd_not_none.
Qed.

Lemma ext_attach : forall b s e k mx po, b <= S (now s) -> ext b s (attach s e k mx po).
Proof.
  intros b s e k mx po L. unfold attach. destruct (nth_error (events s) e) as [ev|]; [|apply ext_refl].
  split; [|split; [|split]]; cbn [hooks events trigs set_events set_hooks]; auto.
  - intros m hm H. exists hm. split; [apply nth_snoc_old; exact H|]. repeat split; auto. congruence.
  - intros m h' H4 H5. destruct (nth_snoc _ _ _ _ H5) as [[_ X]|[_ X]]; [congruence|]. subst h'. simpl. exact L.
  - intros e'. apply upd_not_none.
Qed.

Lemma ext_cnt : forall b s n h c, nth_error (hooks s) n = Some h ->
  ext b s (set_hooks s (upd (hooks s) n (fun _ => mkHook (h_ev h) (h_kind h) (h_max h) c (h_pooled h) (h_in h) (h_frozen h) (h_born h) (h_died h)))).
Proof.
  intros b s n h c H. split; [|split; [|split]]; cbn [hooks events trigs set_events set_hooks]; auto.
  - intros m hm Hm. rewrite nth_upd. destruct (Nat.eqb n m) eqn:Enm.
    + apply Nat.eqb_eq in Enm. subst m. rewrite Hm. simpl. rewrite Hm in H. inversion H; subst hm. eexists. split; [reflexivity|]. simpl.
      repeat split; auto; congruence.
    + exists hm. repeat split; auto. congruence.
  - intros m h' H4 H5. rewrite nth_upd in H5. destruct (Nat.eqb n m); [rewrite H4 in H5; discriminate | congruence].
Qed.

(* ---------- what a walker has done so far ---------- *)
Definition hkl (s : st) (k : nat) : list nat := map c_hook (calls_by s k).
Definition eligible (s : st) (k m : nat) : Prop :=
  exists tr hm, nth_error (trigs s) k = Some tr /\ nth_error (hooks s) m = Some hm /\
    h_ev hm = t_ev tr /\ h_born hm < t_t0 tr /\ h_in hm = true.
Definition pnode (p : pc) : option nat := match p with PHead => None | PAt n | PUnhook n | PCall n | PNext n => Some n end.
Definition bound (p : pc) : nat := match p with PHead => 0 | PAt n | PUnhook n | PCall n => n | PNext n => S n end.
Definition node_ok (s : st) (e t0 : nat) (o : option nat) : Prop :=
  match o with
  | None => True
  | Some n => exists h, nth_error (hooks s) n = Some h /\ h_ev h = e /\ (h_in h = true \/ t0 < h_died h)
  end.
Definition prog_ok (s : st) (k : nat) (a : N) (b : nat) : Prop :=
  incr (hkl s k) /\ (forall x, In x (hkl s k) -> x < b) /\ (forall c, In c (calls_by s k) -> c_arg c = a) /\
  (forall m, eligible s k m -> m < b -> In m (hkl s k)).
Definition walk_ok (s : st) (e : nat) (a : N) (k : nat) (p : pc) : Prop :=
  exists tr, nth_error (trigs s) k = Some tr /\ t_ev tr = e /\ t_arg tr = a /\ t_rej tr = false /\
    nth_error (events s) e <> None /\ node_ok s e (t_t0 tr) (pnode p) /\ prog_ok s k a (bound p).
Definition done_ok (s : st) (k : nat) : Prop :=
  exists tr, nth_error (trigs s) k = Some tr /\
  incr (hkl s k) /\ (forall c, In c (calls_by s k) -> c_arg c = t_arg tr) /\ (forall m, eligible s k m -> In m (hkl s k)).
Definition call_ok (s : st) (c : call) : Prop :=
  exists h tr, nth_error (hooks s) (c_hook c) = Some h /\ nth_error (trigs s) (c_tid c) = Some tr /\
    (h_in h = true \/ t_t0 tr < h_died h) /\ t_rej tr = false /\ h_ev h = t_ev tr /\ c_arg c = t_arg tr.

Section Stable.
Variables (b : nat) (s s' : st).
Hypothesis X : ext b s s'.
Hypothesis T0 : forall k tr, nth_error (trigs s) k = Some tr -> t_t0 tr < b.

Lemma alive_stable : forall n h t0, nth_error (hooks s) n = Some h -> t0 < b -> (h_in h = true \/ t0 < h_died h) ->
  exists h', nth_error (hooks s') n = Some h' /\ h_ev h' = h_ev h /\ (h_in h' = true \/ t0 < h_died h').
Proof.
  intros n h t0 H L A. destruct X as (X1 & _). destruct (X1 n h H) as (h' & H' & E1 & E2 & E3 & E4 & E5 & E6).
  exists h'. split; [exact H'|]. split; [exact E1|]. destruct (h_in h) eqn:Hi.
  - destruct (h_in h') eqn:Hi'; [left; reflexivity|]. right. specialize (E6 eq_refl eq_refl). lia.
  - destruct (E5 eq_refl) as [_ Y]. rewrite Y. destruct A as [A|A]; [discriminate|]. right. exact A.
Qed.

Lemma node_stable : forall e t0 o, t0 < b -> node_ok s e t0 o -> node_ok s' e t0 o.
Proof.
  intros e t0 [n|] L H; simpl in *; [|exact I]. destruct H as (h & H1 & H2 & H3).
  destruct (alive_stable n h t0 H1 L H3) as (h' & Y1 & Y2 & Y3). exists h'. split; [exact Y1|]. split; [congruence|exact Y3].
Qed.

Lemma elig_back : forall k m tr, nth_error (trigs s) k = Some tr -> eligible s' k m -> eligible s k m.
Proof.
  intros k m tr Hk (tr' & hm' & E1 & E2 & E3 & E4 & E5). destruct X as (X1 & X2 & X3 & _).
  rewrite (X3 k tr Hk) in E1. inversion E1; subst tr'. specialize (T0 k tr Hk).
  destruct (nth_error (hooks s) m) as [hm|] eqn:Hm.
  - destruct (X1 m hm Hm) as (h'' & H'' & F1 & F2 & F3 & F4 & F5 & F6). rewrite E2 in H''. inversion H''; subst h''.
    exists tr, hm. split; [exact Hk|]. split; [exact Hm|]. split; [congruence|]. split; [congruence|].
    destruct (h_in hm) eqn:Hi; [reflexivity|]. destruct (F5 eq_refl). congruence.
  - specialize (X2 m hm' Hm E2). lia.
Qed.

Lemma walk_stable : forall e a k p, calls_by s' k = calls_by s k -> walk_ok s e a k p -> walk_ok s' e a k p.
Proof.
  intros e a k p Hc (tr & W1 & W2 & W3 & W4 & W5 & W6 & W7). destruct X as (X1 & X2 & X3 & X4).
  exists tr. split; [apply X3; exact W1|]. split; [exact W2|]. split; [exact W3|]. split; [exact W4|]. split; [apply X4; exact W5|].
  split; [apply node_stable; [apply (T0 k tr W1)|exact W6]|].
  destruct W7 as (P1 & P2 & P3 & P4). unfold prog_ok, hkl. rewrite Hc. fold (hkl s k).
  split; [exact P1|]. split; [exact P2|]. split; [exact P3|]. intros m Hm. apply P4. eapply elig_back; eauto.
Qed.

Lemma done_stable : forall k, calls_by s' k = calls_by s k -> done_ok s k -> done_ok s' k.
Proof.
  intros k Hc (tr & W1 & P1 & P3 & P4). destruct X as (X1 & X2 & X3 & X4).
  exists tr. split; [apply X3; exact W1|]. unfold hkl. rewrite Hc. fold (hkl s k).
  split; [exact P1|]. split; [exact P3|]. intros m Hm. apply P4. eapply elig_back; eauto.
Qed.

Lemma call_stable : forall c, call_ok s c -> call_ok s' c.
Proof.
  intros c (h & tr & C1 & C2 & C3 & C4 & C5 & C6). destruct X as (X1 & X2 & X3 & X4).
  destruct (alive_stable _ h (t_t0 tr) C1 (T0 _ tr C2) C3) as (h' & Y1 & Y2 & Y3).
  exists h', tr. split; [exact Y1|]. split; [apply X3; exact C2|]. split; [exact Y3|]. split; [exact C4|]. split; [congruence|exact C6].
Qed.
End Stable.

(* ---------- the global invariant ---------- *)
Definition is_w (k : nat) (f : frame) : nat :=
  match f with FWalk _ _ k' _ => if Nat.eqb k' k then 1 else 0 | FLink _ _ => 0 end.
Definition nfr_stk (k : nat) (stk : list frame) : nat := list_sum (map (is_w k) stk).
Definition nfrT (k : nat) (ths : list (list frame)) : nat := list_sum (map (nfr_stk k) ths).
Definition nfr (k : nat) (s : st) : nat := nfrT k (threads s).      (* number of walker frames of trigger k: 0 or 1 *)
Definition InF (f : frame) (ths : list (list frame)) : Prop := exists stk, In stk ths /\ In f stk.

Definition G (b : nat) (s : st) : Prop :=
  WFb s b /\
  (forall e a k p, InF (FWalk e a k p) (threads s) -> walk_ok s e a k p) /\
  (forall k, nfr k s <= 1) /\
  (forall k tr, nth_error (trigs s) k = Some tr -> t_rej tr = false -> nfr k s = 0 -> done_ok s k) /\
  (forall c, In c (calls s) -> call_ok s c).

Lemma G_weaken : forall b b' s, G b s -> b <= b' -> G b' s.
Proof. intros b b' s (A & B) L. split; [eapply wfb_weaken; eauto|exact B]. Qed.

Lemma G_T0 : forall b s, G b s -> forall k tr, nth_error (trigs s) k = Some tr -> t_t0 tr < b.
Proof. intros b s ((_ & _ & _ & D & _) & _). exact D. Qed.

Lemma L_env : forall b b' s s', G b s -> ext b s s' -> WFb s' b' -> b <= b' ->
  threads s' = threads s -> calls s' = calls s -> trigs s' = trigs s -> G b' s'.
Proof.
  intros b b' s s' I X W L Ht Hc Hr. pose proof (G_T0 _ _ I) as T0. destruct I as (A & B & C & D & E).
  assert (CB : forall k, calls_by s' k = calls_by s k) by (intros; unfold calls_by; rewrite Hc; reflexivity).
  split; [exact W|]. split; [|split; [|split]].
  - intros e a k p H. rewrite Ht in H. eapply walk_stable; eauto.
  - intros k. unfold nfr. rewrite Ht. apply C.
  - intros k tr H1 H2 H3. rewrite Hr in H1. unfold nfr in H3. rewrite Ht in H3. eapply done_stable; eauto.
  - intros c Hc'. rewrite Hc in Hc'. eapply call_stable; eauto.
Qed.

Lemma L_thr : forall b s ths', G b s ->
  (forall e a k p, InF (FWalk e a k p) ths' -> walk_ok s e a k p) ->
  (forall k, nfrT k ths' <= 1) ->
  (forall k tr, nth_error (trigs s) k = Some tr -> t_rej tr = false -> nfrT k ths' = 0 -> done_ok s k) ->
  G b (set_threads s ths').
Proof. intros b s ths' (A & B & C & D & E) H1 H2 H3. split; [exact A|]. split; [exact H1|]. split; [exact H2|]. split; [exact H3|exact E]. Qed.

Lemma nfr_upd : forall k ths t f rest new, nth_error ths t = Some (f :: rest) ->
  nfrT k (upd ths t (fun _ => new ++ rest)) + is_w k f = nfrT k ths + nfr_stk k new.
Proof.
  intros k ths t f rest new H. pose proof (sum_upd (nfr_stk k) ths t (f :: rest) (new ++ rest) H) as S.
  unfold nfrT. unfold nfr_stk at 2 4 in S. rewrite map_app, list_sum_app in S. simpl in S. unfold nfr_stk at 3. lia.
Qed.

Lemma frames_upd : forall ths t f rest new f', nth_error ths t = Some (f :: rest) ->
  InF f' (upd ths t (fun _ => new ++ rest)) -> In f' new \/ InF f' (upd ths t (fun _ => rest)).
Proof.
  intros ths t f rest new f' H (stk & H1 & H2). destruct (in_upd2 _ _ _ rest _ H1) as [E|E].
  - subst stk. apply in_app_or in H2. destruct H2 as [H2|H2]; [left; exact H2|]. right. exists rest. split; [|exact H2].
    apply (nth_error_In _ t). rewrite nth_upd, Nat.eqb_refl, H. reflexivity.
  - right. exists stk. auto.
Qed.

Lemma InF_upd_old : forall ths t f rest f', nth_error ths t = Some (f :: rest) ->
  InF f' (upd ths t (fun _ => rest)) -> InF f' ths.
Proof.
  intros ths t f rest f' H (stk & H1 & H2). destruct (in_upd _ _ _ _ H1) as [E|E].
  - subst stk. exists (f :: rest). split; [eapply nth_error_In; eauto | right; exact H2].
  - exists stk. auto.
Qed.

Lemma others_zero : forall k ths t f rest f', nfrT k ths <= 1 -> nth_error ths t = Some (f :: rest) -> is_w k f = 1 ->
  InF f' (upd ths t (fun _ => rest)) -> is_w k f' = 0.
Proof.
  intros k ths t f rest f' L H W (stk & H1 & H2). pose proof (nfr_upd k ths t f rest [] H) as S. simpl in S.
  assert (Z : nfrT k (upd ths t (fun _ => rest)) = 0) by (unfold nfr_stk in S; simpl in S; lia).
  pose proof (sum_zero (nfr_stk k) _ stk Z H1) as Z1. apply (sum_zero (is_w k) _ f' Z1 H2).
Qed.

Lemma nfr_ge1 : forall k ths t f rest, nth_error ths t = Some (f :: rest) -> is_w k f = 1 -> 1 <= nfrT k ths.
Proof.
  intros k ths t f rest H W. pose proof (sum_ge (nfr_stk k) ths (f :: rest) (nth_error_In _ _ H)) as S.
  unfold nfr_stk at 1 in S. simpl in S. unfold nfrT. lia.
Qed.

Lemma is_w_1 : forall k f, is_w k f = 1 -> exists e a p, f = FWalk e a k p.
Proof.
  intros k [e a k' p|e t] H; simpl in H; [|discriminate]. destruct (Nat.eqb k' k) eqn:E; [|discriminate].
  apply Nat.eqb_eq in E. subst. eauto.
Qed.
Lemma is_w_01 : forall k f, is_w k f = 0 \/ is_w k f = 1.
Proof. intros k [e a k' p|e t]; simpl; auto. destruct (Nat.eqb k' k); auto. Qed.

(* (A) the head frame of thread t is popped *)
Lemma L_pop : forall b s t f rest, G b s -> nth_error (threads s) t = Some (f :: rest) ->
  (forall e a k p, f = FWalk e a k p -> done_ok s k) ->
  G b (set_threads s (upd (threads s) t (fun _ => rest))).
Proof.
  intros b s t f rest I H Hd. pose proof I as (A & B & C & D & E). apply L_thr; [exact I| | |].
  - intros e a k p Hf. apply B. eapply InF_upd_old; eauto.
  - intros k. pose proof (nfr_upd k _ t f rest [] H) as S. simpl in S. specialize (C k). unfold nfr in C. unfold nfr_stk in S. simpl in S. lia.
  - intros k tr H1 H2 H3. pose proof (nfr_upd k _ t f rest [] H) as S. simpl in S. rewrite H3 in S. unfold nfr_stk in S. simpl in S.
    destruct (is_w_01 k f) as [Z|Z].
    + apply (D k tr H1 H2). unfold nfr. lia.
    + destruct (is_w_1 k f Z) as (e & a & p & Ef). eapply Hd; eauto.
Qed.

(* (B) the head frame of thread t moves to another program point *)
Lemma L_move : forall b s t e a k p p' rest, G b s -> nth_error (threads s) t = Some (FWalk e a k p :: rest) ->
  walk_ok s e a k p' ->
  G b (set_threads s (upd (threads s) t (fun _ => FWalk e a k p' :: rest))).
Proof.
  intros b s t e a k p p' rest I H Hw. pose proof I as (A & B & C & D & E).
  assert (S : forall k0, nfrT k0 (upd (threads s) t (fun _ => FWalk e a k p' :: rest)) = nfr k0 s).
  { intros k0. pose proof (nfr_upd k0 _ t _ rest [FWalk e a k p'] H) as S. unfold nfr_stk in S. simpl in S. simpl. unfold nfr. lia. }
  apply L_thr; [exact I| | |].
  - intros e1 a1 k1 p1 Hf. destruct (frames_upd _ t _ rest [FWalk e a k p'] _ H Hf) as [[Hn|[]]|Ho].
    + inversion Hn; subst. exact Hw.
    + apply B. eapply InF_upd_old; eauto.
  - intros k0. rewrite S. apply C.
  - intros k0 tr H1 H2 H3. rewrite S in H3. eauto.
Qed.

Lemma calls_by_snoc : forall s c k ths, calls_by (set_threads (set_calls s (calls s ++ [c])) ths) k =
  calls_by s k ++ (if Nat.eqb (c_tid c) k then [c] else []).
Proof. intros. unfold calls_by. simpl. rewrite filter_app. reflexivity. Qed.

(* (C) the head frame of thread t performs its call *)
Lemma L_call : forall b s t e a k n rest, G b s -> nth_error (threads s) t = Some (FWalk e a k (PCall n) :: rest) ->
  G b (set_threads (set_calls s (calls s ++ [mkCall n a k])) (upd (threads s) t (fun _ => FWalk e a k (PNext n) :: rest))).
Proof.
  intros b s t e a k n rest I H. pose proof (G_T0 _ _ I) as T0. pose proof I as (A & B & C & D & E).
  set (s' := set_threads (set_calls s (calls s ++ [mkCall n a k])) (upd (threads s) t (fun _ => FWalk e a k (PNext n) :: rest))).
  assert (X : ext b s s') by (apply ext_same_hooks; auto).
  assert (S : forall k0, nfr k0 s' = nfr k0 s).
  { intros k0. pose proof (nfr_upd k0 _ t _ rest [FWalk e a k (PNext n)] H) as S. unfold nfr_stk in S. simpl in S. unfold nfr. simpl. lia. }
  assert (Wk : is_w k (FWalk e a k (PCall n)) = 1) by (simpl; rewrite Nat.eqb_refl; reflexivity).
  assert (CB : forall k0, k0 <> k -> calls_by s' k0 = calls_by s k0).
  { intros k0 Hk. unfold s'. rewrite calls_by_snoc. simpl. destruct (Nat.eqb k k0) eqn:Ek; [apply Nat.eqb_eq in Ek; congruence|apply app_nil_r]. }
  assert (Hme : InF (FWalk e a k (PCall n)) (threads s)).
  { exists (FWalk e a k (PCall n) :: rest). split; [eapply nth_error_In; eauto|left; reflexivity]. }
  pose proof (B _ _ _ _ Hme) as (tr & W1 & W2 & W3 & W4 & W5 & W6 & W7).
  split; [|split; [|split; [|split]]].
  - apply (wfb_irrel s); auto.
  - intros e1 a1 k1 p1 Hf. destruct (frames_upd _ t _ rest [FWalk e a k (PNext n)] _ H Hf) as [[Hn|[]]|Ho].
    + inversion Hn; subst e1 a1 k1 p1. exists tr. split; [exact W1|]. split; [exact W2|]. split; [exact W3|]. split; [exact W4|].
      split; [exact W5|]. split; [exact W6|]. destruct W7 as (P1 & P2 & P3 & P4). simpl bound in *.
      assert (HK : hkl s' k = hkl s k ++ [n]).
      { unfold hkl, s'. rewrite calls_by_snoc. simpl. rewrite Nat.eqb_refl, map_app. reflexivity. }
      unfold prog_ok. rewrite HK. split; [apply incr_snoc; assumption|]. split; [|split].
      * intros x Hx. apply in_app_or in Hx. destruct Hx as [Hx|[Hx|[]]]; [specialize (P2 x Hx); lia | lia].
      * intros c Hc. unfold s' in Hc. rewrite calls_by_snoc in Hc. simpl in Hc. rewrite Nat.eqb_refl in Hc.
        apply in_app_or in Hc. destruct Hc as [Hc|[Hc|[]]]; [auto | subst c; reflexivity].
      * intros m Hm Lm. apply in_or_app. destruct (Nat.eq_dec m n) as [En|En]; [right; left; auto|]. left. apply P4; [|lia].
        exact Hm.
    + pose proof (others_zero k _ t _ rest _ (C k) H Wk Ho) as Z. simpl in Z. destruct (Nat.eqb k1 k) eqn:Ek; [discriminate|].
      apply Nat.eqb_neq in Ek. eapply (walk_stable b s s' X T0); [apply CB; exact Ek|]. apply B. eapply InF_upd_old; eauto.
  - intros k0. rewrite S. apply C.
  - intros k0 tr0 H1 H2 H3. rewrite S in H3. assert (Hk : k0 <> k).
    { intros ->. pose proof (nfr_ge1 k _ t _ rest H Wk). unfold nfr in H3. lia. }
    eapply (done_stable b s s' X T0); [apply CB; exact Hk|]. eapply D; eauto.
  - intros c Hc. simpl in Hc. apply in_app_or in Hc. destruct Hc as [Hc|[Hc|[]]].
    + eapply (call_stable b s s' X T0). apply E. exact Hc.
    + subst c. simpl in W6. destruct W6 as (h & N1 & N2 & N3). exists h, tr. simpl. repeat split; auto; congruence.
Qed.

Lemma filter_none : forall {A} (f : A -> bool) l, (forall x, In x l -> f x = false) -> filter f l = [].
Proof.
  induction l as [|x r IH]; intros H; simpl; [reflexivity|]. rewrite (H x (or_introl eq_refl)). apply IH. intros y Hy. apply H. right. exact Hy.
Qed.

Lemma calls_by_fresh : forall b s k, G b s -> length (trigs s) <= k -> calls_by s k = [].
Proof.
  intros b s k (_ & _ & _ & _ & E) L. unfold calls_by. apply filter_none. intros c Hc.
  destruct (E c Hc) as (h & tr & _ & C2 & _). apply nth_lt in C2. apply Nat.eqb_neq. lia.
Qed.

Lemma nfr_fresh : forall b s k, G b s -> length (trigs s) <= k -> nfr k s = 0.
Proof.
  intros b s k (_ & B & _) L. unfold nfr, nfrT. apply sum_all_zero. intros stk Hs. unfold nfr_stk. apply sum_all_zero.
  intros [e a k' p|e t] Hf; simpl; [|reflexivity]. destruct (B e a k' p) as (tr & W1 & _); [exists stk; auto|].
  apply nth_lt in W1. destruct (Nat.eqb k' k) eqn:Ek; [apply Nat.eqb_eq in Ek; lia|reflexivity].
Qed.

(* (D) a Trigger call performs its event-level count test; its walker frame (if accepted) is added somewhere *)
Lemma L_trig : forall b s e2 a2 par s1 fr ths', G b s -> start_trigger s e2 a2 par = (s1, fr) -> b <= S (now s) ->
  (forall k, nfrT k ths' = nfr k s + nfr_stk k fr) ->
  (forall f', InF f' ths' -> In f' fr \/ InF f' (threads s)) ->
  G (S (now s)) (set_threads s1 ths').
Proof.
  intros b s e2 a2 par s1 fr ths' I H L HN HF. assert (I' : G (S (now s)) s) by (eapply G_weaken; eauto).
  pose proof (G_T0 _ _ I) as T0. pose proof I as (A & B & C & D & E).
  unfold start_trigger in H. destruct (nth_error (events s) e2) as [ev|] eqn:Ee.
  2:{ inversion H; subst s1 fr; clear H. apply L_thr; [exact I'| | |].
      - intros e a k p Hf. destruct (HF _ Hf) as [[]|Ho]. apply B. exact Ho.
      - intros k. rewrite HN. unfold nfr_stk. simpl. specialize (C k). lia.
      - intros k tr H1 H2 H3. rewrite HN in H3. apply (D k tr H1 H2). lia. }
  set (rej := exceeds (N.succ (e_cnt ev)) (e_max ev)) in *.
  set (ntr := mkTrig e2 a2 (now s) rej par) in *. set (kn := length (trigs s)) in *.
  inversion H; subst s1 fr; clear H.
  match goal with |- G _ ?x => set (s' := x) end.
  assert (X : ext b s s').
  { apply ext_same_hooks; [reflexivity| |].
    - intros k tr Hk. simpl. apply nth_snoc_old. exact Hk.
    - intros e. simpl. apply upd_not_none. }
  assert (CB : forall k, calls_by s' k = calls_by s k) by reflexivity.
  split; [|split; [|split; [|split]]].
  - apply (wfb_irrel s); [eapply wfb_weaken; eauto|reflexivity| |].
    + intros e. simpl. rewrite nth_upd. destruct (Nat.eqb e2 e); [|reflexivity]. destruct (nth_error (events s) e); reflexivity.
    + intros k tr Hk. simpl in Hk. destruct (nth_snoc _ _ _ _ Hk) as [[_ H1]|[_ H1]]; [specialize (T0 k tr H1); lia|]. subst tr. simpl. lia.
  - intros e a k p Hf. destruct (HF _ Hf) as [Hn|Ho].
    + destruct rej eqn:Er; [destruct Hn|]. destruct Hn as [Hn|[]]. inversion Hn; subst e a k p.
      exists ntr. split; [simpl; apply nth_snoc_new|]. split; [reflexivity|]. split; [reflexivity|]. split; [reflexivity|].
      split; [simpl; apply upd_not_none; congruence|]. split; [exact Logic.I|].
      unfold prog_ok, hkl. rewrite CB, (calls_by_fresh b s kn I) by (unfold kn; lia). simpl.
      split; [exact Logic.I|]. split; [intros x []|]. split; [intros c []|]. intros m _ Lm. lia.
    + eapply (walk_stable b s s' X T0); [apply CB|]. apply B. exact Ho.
  - intros k. unfold nfr. change (threads s') with ths'. rewrite HN. specialize (C k). destruct rej; [unfold nfr_stk; simpl; lia|].
    unfold nfr_stk. simpl. destruct (Nat.eqb kn k) eqn:Ek; [|lia]. apply Nat.eqb_eq in Ek.
    rewrite (nfr_fresh b s k I) by (unfold kn in Ek; lia). lia.
  - intros k tr H1 H2 H3. unfold nfr in H3. change (threads s') with ths' in H3. rewrite HN in H3. simpl in H1.
    destruct (nth_snoc _ _ _ _ H1) as [[_ H4]|[H4 H5]].
    + eapply (done_stable b s s' X T0); [apply CB|]. apply (D k tr H4 H2). lia.
    + exfalso. subst tr. simpl in H2. rewrite H2 in H3. unfold nfr_stk in H3. simpl in H3. subst k. fold kn in H3. rewrite Nat.eqb_refl in H3. lia.
  - intros c Hc. eapply (call_stable b s s' X T0). apply E. exact Hc.
Qed.

(* ---------- the walker's own moves ---------- *)
Lemma walk_same : forall s e a k p p', pnode p = pnode p' -> bound p = bound p' -> walk_ok s e a k p -> walk_ok s e a k p'.
Proof. intros s e a k p p' H1 H2 H. unfold walk_ok in *. rewrite <- H1, <- H2. exact H. Qed.

Lemma elig_live : forall b s k m tr ev, WFb s b -> nth_error (trigs s) k = Some tr -> nth_error (events s) (t_ev tr) = Some ev ->
  eligible s k m -> In m (e_live ev).
Proof.
  intros b s k m tr ev (_ & B & _) H1 H2 (tr' & hm & E1 & E2 & E3 & E4 & E5). rewrite H1 in E1. inversion E1; subst tr'.
  destruct (B _ _ H2) as [_ Bin]. apply Bin. eauto.
Qed.

Lemma walk_head : forall b s e a k ev, WFb s b -> walk_ok s e a k PHead -> nth_error (events s) e = Some ev ->
  match hd_error (e_live ev) with Some m => walk_ok s e a k (PAt m) | None => done_ok s k end.
Proof.
  intros b s e a k ev W (tr & W1 & W2 & W3 & W4 & W5 & W6 & P1 & P2 & P3 & P4) He. simpl in P2. subst e.
  pose proof W as (_ & B & _). destruct (B _ _ He) as [Binc Bin].
  destruct (hd_error (e_live ev)) as [m|] eqn:Eh.
  - destruct (hd_min _ _ Binc Eh) as [M1 M2]. exists tr. repeat (split; [first [assumption|reflexivity]|]).
    split.
    + simpl. apply Bin in M1. destruct M1 as (h & X1 & X2 & X3). exists h. auto.
    + split; [exact P1|]. split; [intros x Hx; specialize (P2 x Hx); lia|]. split; [exact P3|]. simpl.
      intros m' Hm Lm. pose proof (elig_live _ _ _ _ _ _ W W1 He Hm) as Hl. specialize (M2 m' Hl). lia.
  - exists tr. split; [exact W1|]. split; [exact P1|]. split; [intros c Hc; rewrite W3; auto|].
    intros m' Hm. pose proof (elig_live _ _ _ _ _ _ W W1 He Hm) as Hl. destruct (e_live ev); [destruct Hl|discriminate].
Qed.

Lemma walk_unhooked : forall s e a k n, walk_ok s e a k (PUnhook n) ->
  (forall h, nth_error (hooks s) n = Some h -> h_in h = false) -> walk_ok s e a k (PNext n).
Proof.
  intros s e a k n (tr & W1 & W2 & W3 & W4 & W5 & W6 & P1 & P2 & P3 & P4) Hn. exists tr. split; [exact W1|]. split; [exact W2|]. split; [exact W3|]. split; [exact W4|]. split; [exact W5|].
  split; [exact W6|]. simpl bound in *. split; [exact P1|]. split; [intros x Hx; specialize (P2 x Hx); lia|]. split; [exact P3|].
  intros m Hm Lm. destruct (Nat.eq_dec m n) as [En|En]; [|apply P4; [exact Hm|lia]]. subst m.
  destruct Hm as (tr' & hm & _ & E2 & _ & _ & E5). rewrite (Hn hm E2) in E5. discriminate.
Qed.

Lemma walk_next : forall b s e a k n, WFb s b -> walk_ok s e a k (PNext n) ->
  match next_of s n with Some m => walk_ok s e a k (PAt m) | None => done_ok s k end.
Proof.
  intros b s e a k n W (tr & W1 & W2 & W3 & W4 & W5 & W6 & P1 & P2 & P3 & P4). simpl in W6, P2, P4.
  destruct W6 as (h & N1 & N2 & N3). pose proof W as (_ & B & _ & _ & FRs). unfold next_of. rewrite N1.
  assert (Done : (forall m', eligible s k m' -> m' <= n) -> done_ok s k).
  { intros Hd. exists tr. split; [exact W1|]. split; [exact P1|]. split; [intros c Hc; rewrite W3; auto|].
    intros m' Hm. apply P4; [exact Hm|]. specialize (Hd m' Hm). lia. }
  assert (Step : forall m, n < m -> node_ok s e (t_t0 tr) (Some m) ->
            (forall m', eligible s k m' -> n < m' -> m <= m') -> walk_ok s e a k (PAt m)).
  { intros m Lm Hnode Hcov. exists tr. split; [exact W1|]. split; [exact W2|]. split; [exact W3|]. split; [exact W4|]. split; [exact W5|]. split; [exact Hnode|]. simpl bound.
    split; [exact P1|]. split; [intros x Hx; specialize (P2 x Hx); lia|]. split; [exact P3|].
    intros m' Hm Lm'. destruct (Nat.lt_ge_cases m' (S n)) as [Q|Q]; [apply P4; assumption|]. specialize (Hcov m' Hm). lia. }
  destruct (h_in h) eqn:Hi.
  - rewrite N2. destruct (nth_error (events s) e) as [ev|] eqn:He; [|congruence]. destruct (B _ _ He) as [Binc Bin].
    assert (Nin : In n (e_live ev)) by (apply Bin; eauto). subst e.
    destruct (succ_of n (e_live ev)) as [m|] eqn:Es.
    + destruct (succ_some _ _ _ Binc Es) as (S1 & S2 & S3 & S4). apply Step; [exact S3| |].
      * simpl. apply Bin in S2. destruct S2 as (hm & X1 & X2 & X3). exists hm. auto.
      * intros m' Hm Lm. apply S4; [|exact Lm]. eapply elig_live; eauto.
    + apply Done. intros m' Hm. eapply succ_none; eauto. eapply elig_live; eauto.
  - destruct N3 as [N3|N3]; [discriminate|]. destruct (FRs n h N1 Hi) as [F1 F2].
    assert (Cov : forall m', eligible s k m' -> n < m' -> (forall p, h_frozen h = Some p -> m' < p) -> False).
    { intros m' (tr' & hm & E1 & E2 & E3 & E4 & E5) Lm Hp. rewrite W1 in E1. inversion E1; subst tr'.
      destruct (F2 m' hm E2) as [Q|Q]; [congruence | exact Lm | exact Hp | congruence | lia]. }
    destruct (h_frozen h) as [m|] eqn:Ef.
    + destruct (F1 m eq_refl) as (Lm & hm & X1 & X2 & X3). apply Step; [exact Lm| |].
      * simpl. exists hm. split; [exact X1|]. split; [congruence|]. destruct X3 as [X3|X3]; [left; exact X3|right; lia].
      * intros m' Hm Lm'. destruct (Nat.lt_ge_cases m' m) as [Q|Q]; [|exact Q]. exfalso. apply (Cov m' Hm Lm'). intros p Hp. inversion Hp; subst p. exact Q.
    + apply Done. intros m' Hm. destruct (Nat.lt_ge_cases n m') as [Q|Q]; [|exact Q]. exfalso. apply (Cov m' Hm Q). intros p Hp. discriminate.
Qed.

(* ---------- environment steps ---------- *)
Lemma delete_tct : forall s n, threads (delete s n) = threads s /\ trigs (delete s n) = trigs s /\ calls (delete s n) = calls s /\ now (delete s n) = now s.
Proof. intros s n. destruct (delete_cases s n) as [E|(h & ev & _ & _ & _ & E)]; rewrite E; auto. Qed.
Lemma attach_tct : forall s e k mx po, threads (attach s e k mx po) = threads s /\ trigs (attach s e k mx po) = trigs s /\
  calls (attach s e k mx po) = calls s /\ now (attach s e k mx po) = now s.
Proof. intros. unfold attach. destruct (nth_error (events s) e); auto. Qed.

Lemma E_delete : forall b s n, G b s -> b <= now s -> G (S (now s)) (delete s n).
Proof.
  intros b s n I L. destruct (delete_tct s n) as (T1 & T2 & T3 & _). pose proof I as (A & _).
  apply (L_env b (S (now s)) s); auto; [apply ext_delete; exact L | eapply wfb_delete; eauto].
Qed.
Lemma E_attach : forall b s e k mx po, G b s -> b <= S (now s) -> G b (attach s e k mx po).
Proof.
  intros b s e k mx po I L. destruct (attach_tct s e k mx po) as (T1 & T2 & T3 & _). pose proof I as (A & _).
  apply (L_env b b s); auto; [apply ext_attach; exact L | eapply wfb_attach; eauto].
Qed.
Lemma E_events : forall b s evs', G b s ->
  (forall e, option_map e_live (nth_error evs' e) = option_map e_live (nth_error (events s) e)) -> G b (set_events s evs').
Proof.
  intros b s evs' I H. pose proof I as (A & _). pose proof (G_T0 _ _ I) as T0. apply (L_env b b s); auto.
  - apply ext_same_hooks; auto. intros e He. simpl. specialize (H e). destruct (nth_error evs' e); [discriminate|].
    destruct (nth_error (events s) e); [discriminate|congruence].
  - apply (wfb_irrel s); auto.
Qed.
Lemma E_cnt : forall b s n h c, G b s -> nth_error (hooks s) n = Some h ->
  G b (set_hooks s (upd (hooks s) n (fun _ => mkHook (h_ev h) (h_kind h) (h_max h) c (h_pooled h) (h_in h) (h_frozen h) (h_born h) (h_died h)))).
Proof.
  intros b s n h c I H. pose proof I as (A & _). pose proof (G_T0 _ _ I) as T0. apply (L_env b b s); auto.
  - apply ext_cnt. exact H.
  - apply (wfb_irrel s); auto. intros m. simpl. rewrite nth_upd. destruct (Nat.eqb n m) eqn:E; [|reflexivity].
    apply Nat.eqb_eq in E. subst m. rewrite H. reflexivity.
Qed.
Lemma E_newevent : forall b s mx p, G b s -> G b (set_events s (events s ++ [mkEv mx 0 p [] None false])).
Proof.
  intros b s mx p I. pose proof I as (A & _). apply (L_env b b s); auto.
  - apply ext_same_hooks; auto. intros e He. simpl. intros N. apply He. apply nth_error_None. apply nth_error_None in N. rewrite app_length in N. lia.
  - apply wfb_newevent. exact A.
Qed.
Lemma ev_link_live : forall evs e f, (forall x, e_live (f x) = e_live x) ->
  forall e', option_map e_live (nth_error (upd evs e f) e') = option_map e_live (nth_error evs e').
Proof. intros evs e f H e'. rewrite nth_upd. destruct (Nat.eqb e e'); [|reflexivity]. destruct (nth_error evs e'); simpl; [rewrite H|]; reflexivity. Qed.

Lemma L_addthread : forall b s stk, G b s -> (forall f, In f stk -> exists e t, f = FLink e t) -> G b (set_threads s (threads s ++ [stk])).
Proof.
  intros b s stk I H. pose proof I as (A & B & C & D & E).
  assert (Z : forall k, nfrT k (threads s ++ [stk]) = nfr k s).
  { intros k. unfold nfrT. rewrite map_app, list_sum_app. simpl. replace (nfr_stk k stk) with 0; [unfold nfr, nfrT; lia|].
    symmetry. apply sum_all_zero. intros f Hf. destruct (H f Hf) as (e & t & ->). reflexivity. }
  apply L_thr; [exact I| | |].
  - intros e a k p (stk' & H1 & H2). apply in_app_or in H1. destruct H1 as [H1|[H1|[]]]; [apply B; exists stk'; auto|].
    subst stk'. destruct (H _ H2) as (e' & t' & Q). discriminate.
  - intros k. rewrite Z. apply C.
  - intros k tr H1 H2 H3. rewrite Z in H3. eauto.
Qed.

Lemma start_trigger_threads : forall s e a p s1 fr T, start_trigger s e a p = (s1, fr) ->
  start_trigger (set_threads s T) e a p = (set_threads s1 T, fr).
Proof.
  intros s e a p s1 fr T H. unfold start_trigger in *. simpl. destruct (nth_error (events s) e); inversion H; subst; reflexivity.
Qed.
Lemma start_trigger_now : forall s e a p s1 fr, start_trigger s e a p = (s1, fr) -> now s1 = now s /\ threads s1 = threads s.
Proof. intros s e a p s1 fr H. unfold start_trigger in H. destruct (nth_error (events s) e); inversion H; subst; auto. Qed.

Lemma L_push : forall b s e2 a2 par s1 fr t stk, G b s -> start_trigger s e2 a2 par = (s1, fr) -> b <= S (now s) ->
  nth_error (threads s) t = Some stk -> G (S (now s)) (set_threads s1 (upd (threads s) t (fun _ => fr ++ stk))).
Proof.
  intros b s e2 a2 par s1 fr t stk I H L Ht. eapply L_trig; eauto.
  - intros k. pose proof (sum_upd (nfr_stk k) (threads s) t stk (fr ++ stk) Ht) as S.
    assert (Q : nfr_stk k (fr ++ stk) = nfr_stk k fr + nfr_stk k stk) by (unfold nfr_stk; rewrite map_app, list_sum_app; reflexivity).
    rewrite Q in S. unfold nfr, nfrT. lia.
  - intros f' (stk' & H1 & H2). destruct (in_upd _ _ _ _ H1) as [Q|Q].
    + subst stk'. apply in_app_or in H2. destruct H2 as [H2|H2]; [left; exact H2|]. right. exists stk. split; [eapply nth_error_In; eauto|exact H2].
    + right. exists stk'. auto.
Qed.

Lemma upd_upd : forall {A} (l : list A) t x y, upd (upd l t (fun _ => x)) t (fun _ => y) = upd l t (fun _ => y).
Proof. induction l as [|z r IH]; intros [|t] x y; simpl; auto. rewrite IH. reflexivity. Qed.

Lemma delete_unhooked : forall b s n h, WFb s b -> nth_error (hooks (delete s n)) n = Some h -> h_in h = false.
Proof.
  intros b s n h (A & _) H. unfold delete in H. destruct (nth_error (hooks s) n) as [h0|] eqn:E; [|congruence].
  destruct (h_in h0) eqn:Hi; [|congruence]. destruct (nth_error (events s) (h_ev h0)) eqn:Ee; [|exfalso; apply (A n h0 E Ee)].
  simpl in H. rewrite nth_upd, Nat.eqb_refl, E in H. simpl in H. inversion H. reflexivity.
Qed.

Lemma frame_in : forall ths t (f : frame) rest, nth_error ths t = Some (f :: rest) -> InF f ths.
Proof. intros ths t f rest H. exists (f :: rest). split; [eapply nth_error_In; eauto|left; reflexivity]. Qed.

(* ---------- one step of a thread ---------- *)
Lemma G_step_thread : forall b s t, G b s -> b <= now s -> G (S (now s)) (step_thread s t).
Proof.
  intros b s t I0 L. assert (I : G (S (now s)) s) by (eapply G_weaken; eauto).
  unfold step_thread. destruct (nth_error (threads s) t) as [[|f rest]|] eqn:Et; try exact I.
  pose proof I0 as (A & B & C & D & E).
  destruct f as [e a k p|e tgt].
  - pose proof (B _ _ _ _ (frame_in _ _ _ _ Et)) as Hw. pose proof Hw as (tr & W1 & W2 & W3 & W4 & W5 & W6 & W7).
    destruct p as [|n|n|n|n]; unfold step_frame; cbv beta iota.
    + (* PHead *)
      destruct (nth_error (events s) e) as [ev|] eqn:Ee; [|congruence].
      pose proof (walk_head b s e a k ev A Hw Ee) as Hh. destruct (hd_error (e_live ev)) as [m|]; cbn [goto].
      * exact (L_move _ s t e a k PHead (PAt m) rest I Et Hh).
      * apply (L_pop _ s t _ rest I Et). intros e0 a0 k0 p0 Q. inversion Q; subst. exact Hh.
    + (* PAt n *)
      destruct W6 as (h & N1 & N2 & N3). rewrite N1. cbv beta iota zeta.
      pose proof (E_cnt _ s n h (N.succ (h_cnt h)) I N1) as I1.
      match type of I1 with G _ ?x => set (s1 := x) in * end.
      assert (Et1 : nth_error (threads s1) t = Some (FWalk e a k (PAt n) :: rest)) by exact Et.
      pose proof I1 as (_ & B1 & _). pose proof (B1 _ _ _ _ (frame_in _ _ _ _ Et1)) as Hw1.
      refine (L_move _ s1 t e a k (PAt n) _ rest I1 Et1 _).
      eapply walk_same; [| |exact Hw1]; destruct (exceeds _ _); reflexivity.
    + (* PUnhook n *)
      pose proof (E_delete _ s n I0 L) as I1. destruct (delete_tct s n) as (T1 & _ & _ & _).
      assert (Et1 : nth_error (threads (delete s n)) t = Some (FWalk e a k (PUnhook n) :: rest)) by (rewrite T1; exact Et).
      pose proof I1 as (_ & B1 & _). pose proof (B1 _ _ _ _ (frame_in _ _ _ _ Et1)) as Hw1.
      refine (L_move _ (delete s n) t e a k (PUnhook n) (PNext n) rest I1 Et1 _).
      apply walk_unhooked; [exact Hw1|]. intros h Hh. eapply delete_unhooked; eauto.
    + (* PCall n *)
      destruct W6 as (h & N1 & N2 & N3). rewrite N1. cbv beta iota zeta.
      pose proof (L_call _ s t e a k n rest I Et) as Ic.
      destruct (h_pooled h); [exact Ic|]. destruct (h_kind h) as [|e2]; [exact Ic|].
      destruct (start_trigger (set_calls s (calls s ++ [mkCall n a k])) e2 a (Some (n, k))) as [s2 fr] eqn:E2.
      destruct (start_trigger_now _ _ _ _ _ _ E2) as [Q1 Q2]. cbn [threads set_calls] in Q2. rewrite Q2.
      pose proof (start_trigger_threads _ _ _ _ _ _ (upd (threads s) t (fun _ => FWalk e a k (PNext n) :: rest)) E2) as E3.
      match type of Ic with G _ ?x => set (sc := x) in * end.
      assert (Etc : nth_error (threads sc) t = Some (FWalk e a k (PNext n) :: rest)).
      { unfold sc. cbn [threads set_threads]. rewrite nth_upd, Nat.eqb_refl, Et. reflexivity. }
      pose proof (L_push _ sc e2 a (Some (n, k)) _ fr t _ Ic E3 (le_n _) Etc) as P.
      unfold sc in P. cbn [threads set_threads set_calls now] in P. rewrite upd_upd in P. exact P.
    + (* PNext n *)
      pose proof (walk_next b s e a k n A Hw) as Hn. destruct (next_of s n) as [m|]; cbn [goto].
      * exact (L_move _ s t e a k (PNext n) (PAt m) rest I Et Hn).
      * apply (L_pop _ s t _ rest I Et). intros e0 a0 k0 p0 Q. inversion Q; subst. exact Hn.
  - (* FLink *)
    assert (LK : forall s0 v, G b s0 -> G b (set_events s0 (upd (events s0) e (ev_set_link v false)))).
    { intros s0 v J. apply E_events; [exact J|]. apply ev_link_live. reflexivity. }
    assert (Pop : forall s1, G b s1 -> threads s1 = threads s -> G (S (now s)) (set_threads s1 (upd (threads s1) t (fun _ => rest)))).
    { intros s1 J Ht. eapply G_weaken; [|exact (le_S _ _ L)]. apply (L_pop _ s1 t (FLink e tgt) rest J); [rewrite Ht; exact Et|].
      intros e0 a0 k0 p0 Q. discriminate. }
    unfold step_frame. destruct tgt as [tg|]; [|apply Pop; [apply LK; exact I0|reflexivity]].
    destruct (nth_error (events s) tg); [|apply Pop; [apply LK; exact I0|reflexivity]].
    cbv zeta. apply Pop.
    + apply LK. apply E_attach; [exact I0|lia].
    + cbn [threads set_events]. apply attach_tct.
Qed.

Lemma G_act : forall b s a, G b s -> b <= now s -> G (S (now s)) (act s a).
Proof.
  intros b s a I L. assert (I' : G (S (now s)) s) by (eapply G_weaken; eauto).
  destruct a as [mx p|e mx po|h|e a|e tgt|t]; cbn [act].
  - apply E_newevent. exact I'.
  - apply E_attach; [exact I'|lia].
  - exact (E_delete _ s h I L).
  - destruct (start_trigger s e a None) as [s1 fr] eqn:E. destruct (start_trigger_now _ _ _ _ _ _ E) as [_ Q]. rewrite Q.
    eapply L_trig; [exact I|exact E|lia| |].
    + intros k. unfold nfrT. rewrite map_app, list_sum_app. simpl. unfold nfr, nfrT. lia.
    + intros f' (stk & H1 & H2). apply in_app_or in H1. destruct H1 as [H1|[H1|[]]]; [right; exists stk; auto|subst stk; left; exact H2].
  - assert (NT : G (S (now s)) (set_threads s (threads s ++ [[]]))) by (apply L_addthread; [exact I'|intros f []]).
    destruct (nth_error (events s) e) as [ev|]; [|exact NT]. destruct (e_lock ev); [exact NT|].
    set (s1 := match e_link ev with Some l => delete s l | None => s end).
    assert (I1 : G (S (now s)) s1 /\ threads s1 = threads s).
    { unfold s1. destruct (e_link ev) as [l|]; [|auto]. split; [exact (E_delete _ s l I L)|apply delete_tct]. }
    destruct I1 as [I1 T1]. cbv zeta.
    match goal with |- G _ (set_threads ?x _) => set (s2 := x) end.
    assert (I2 : G (S (now s)) s2).
    { unfold s2. apply E_events; [exact I1|]. apply ev_link_live. reflexivity. }
    apply (L_addthread _ s2 [FLink e tgt] I2). intros f [Hf|[]]. subst f. eauto.
  - exact (G_step_thread _ s t I L).
Qed.

Lemma now_act : forall s a, now (act s a) = now s.
Proof.
  intros s a. destruct a as [mx p|e mx po|h|e a|e tgt|t]; cbn [act]; try reflexivity.
  - apply attach_tct.
  - apply delete_tct.
  - destruct (start_trigger s e a None) as [s1 fr] eqn:E. destruct (start_trigger_now _ _ _ _ _ _ E) as [Q _]. exact Q.
  - destruct (nth_error (events s) e) as [ev|]; [|reflexivity]. destruct (e_lock ev); [reflexivity|]. cbn [now set_threads set_events].
    destruct (e_link ev); [apply delete_tct|reflexivity].
  - unfold step_thread. destruct (nth_error (threads s) t) as [[|f rest]|]; try reflexivity.
    destruct (step_frame s f rest) as [s1 stk] eqn:E. cbn [now set_threads].
    destruct f as [e a k p|e tgt]; unfold step_frame in E.
    + destruct p as [|n|n|n|n].
      * destruct (nth_error (events s) e); inversion E; reflexivity.
      * destruct (nth_error (hooks s) n); inversion E; reflexivity.
      * inversion E. apply delete_tct.
      * destruct (nth_error (hooks s) n) as [h|]; [|inversion E; reflexivity].
        destruct (h_pooled h); [inversion E; reflexivity|]. destruct (h_kind h) as [|e2]; [inversion E; reflexivity|].
        destruct (start_trigger _ e2 a (Some (n, k))) as [s2 fr] eqn:E2. inversion E; subst.
        destruct (start_trigger_now _ _ _ _ _ _ E2) as [Q _]. exact Q.
      * inversion E; reflexivity.
    + destruct tgt as [tg|]; [|inversion E; reflexivity]. destruct (nth_error (events s) tg); inversion E; [|reflexivity].
      cbn [now set_events]. apply attach_tct.
Qed.

Definition GI (s : st) : Prop := G (now s) s.

Lemma GI_step : forall s a, GI s -> GI (step s a).
Proof.
  intros s a I. unfold GI, step. pose proof (G_act (now s) s a I (le_n _)) as J. rewrite <- (now_act s a) in J.
  exact J.
Qed.

Lemma GI_init : GI init.
Proof.
  unfold GI. simpl. split; [|split; [|split; [|split]]].
  - split; [|split; [|split; [|split]]]; intros [|n] x H; discriminate.
  - intros e a k p (stk & [] & _).
  - intros k. unfold nfr, nfrT. simpl. lia.
  - intros [|k] tr H; discriminate.
  - intros c [].
Qed.

Lemma GI_run : forall l s, GI s -> GI (run s l).
Proof. induction l as [|a l IH]; simpl; intros s I; [exact I|]. apply IH. apply GI_step. exact I. Qed.

Lemma sum_nonzero : forall {A} (g : A -> nat) l, list_sum (map g l) <> 0 -> exists x, In x l /\ g x <> 0.
Proof.
  induction l as [|x r IH]; simpl; intros Z; [congruence|]. destruct (Nat.eq_dec (g x) 0) as [Y|Y].
  - destruct IH as (y & S1 & S2); [lia|]. exists y. split; [right; exact S1|exact S2].
  - exists x. split; [left; reflexivity|exact Y].
Qed.

(* ---------- the theorems ---------- *)
Lemma finished_nfr : forall s k, finished s k -> nfr k s = 0.
Proof.
  intros s k H. unfold nfr, nfrT. apply sum_all_zero. intros stk Hs. unfold nfr_stk. apply sum_all_zero. intros f Hf.
  specialize (H stk f Hs Hf). destruct f as [e a k' p|e t]; simpl; [|reflexivity].
  destruct (Nat.eqb k' k) eqn:E; [apply Nat.eqb_eq in E; contradiction|reflexivity].
Qed.

(* Every hook that was attached before Trigger k began and is still attached when k has finished was invoked by k exactly
   once, with k's argument; all invocations (and pool submissions) of k are in attachment order. Any interleaving. *)
Theorem trigger_exactly_once : trigger_exactly_once_full_statement.
Proof.
  intros acts k tr n h s Hk Hr Hf Hn He Hb Hi.
  pose proof (GI_run acts init GI_init) as I. fold s in I. destruct I as (_ & _ & _ & D & _).
  destruct (D k tr Hk Hr (finished_nfr s k Hf)) as (tr' & W1 & P1 & P3 & P4). rewrite Hk in W1. inversion W1; subst tr'; clear W1.
  assert (Hin : In n (hkl s k)) by (apply P4; exists tr, h; auto).
  split; [|split].
  - unfold hkl in Hin. apply in_map_iff in Hin. destruct Hin as (c & C1 & C2). pose proof (P3 c C2) as C3.
    assert (C4 : c_tid c = k). { unfold calls_by in C2. apply filter_In in C2. destruct C2 as [_ C2]. apply Nat.eqb_eq. exact C2. }
    destruct c as [ch ca ct]. simpl in *. subst. apply In_nth_error. exact C2.
  - apply (incr_count c_hook (calls_by s k) n P1 Hin).
  - intros i j c1 c2 Lij H1 H2. apply (incr_nth (hkl s k) i j); [exact P1|exact Lij| |]; unfold hkl; apply map_nth_error; assumption.
Qed.

(* A hook that was unhooked before Trigger k began is never invoked by k: in particular, once LinkTo has unhooked the link
   hook from the former target, triggers of the former target that begin afterwards no longer fire the linked event. *)
Theorem link_no_fire_after_unhook : link_full_statement.
Proof.
  intros acts c h tr s Hc Hh Ht. pose proof (GI_run acts init GI_init) as I. fold s in I. destruct I as (_ & _ & _ & _ & E).
  destruct (E c Hc) as (h' & tr' & C1 & C2 & C3 & _). rewrite Hh in C1. rewrite Ht in C2. inversion C1; inversion C2; subst. exact C3.
Qed.

(* every invocation belongs to an accepted Trigger of the hook's own event and carries that Trigger's argument
   (a Trigger rejected by the event-level limit never invokes anything) *)
Theorem calls_sound : forall acts c, let s := run init acts in In c (calls s) ->
  exists h tr, nth_error (hooks s) (c_hook c) = Some h /\ nth_error (trigs s) (c_tid c) = Some tr /\
               t_rej tr = false /\ h_ev h = t_ev tr /\ c_arg c = t_arg tr.
Proof.
  intros acts c s Hc. pose proof (GI_run acts init GI_init) as I. fold s in I. destruct I as (_ & _ & _ & _ & E).
  destruct (E c Hc) as (h & tr & C1 & C2 & C3 & C4 & C5 & C6). exists h, tr. auto.
Qed.

(* at any moment (not only at the end): the invocations of one Trigger are in attachment order, hence no hook is invoked
   twice by the same Trigger *)
Theorem trigger_at_most_once : forall acts k n, let s := run init acts in
  length (filter (fun c => Nat.eqb (c_hook c) n) (calls_by s k)) <= 1.
Proof.
  intros acts k n s. pose proof (GI_run acts init GI_init) as I. fold s in I.
  assert (Inc : incr (hkl s k)).
  { destruct (Nat.lt_ge_cases k (length (trigs s))) as [Lk|Lk].
    - destruct (nth_error (trigs s) k) as [tr|] eqn:Hk; [|apply nth_error_None in Hk; lia].
      destruct I as (_ & B & C & D & E).
      assert (Q : nfr k s = 0 \/ exists e a p, InF (FWalk e a k p) (threads s)).
      { destruct (Nat.eq_dec (nfr k s) 0) as [Z|Z]; [left; exact Z|right].
        unfold nfr, nfrT in Z. destruct (sum_nonzero (nfr_stk k) _ Z) as (stk & S1 & S2).
        unfold nfr_stk in S2. destruct (sum_nonzero (is_w k) _ S2) as (f & F1 & F2).
        destruct (is_w_01 k f) as [Y|Y]; [congruence|]. destruct (is_w_1 k f Y) as (e & a & p & ->). exists e, a, p, stk. auto. }
      destruct Q as [Z|(e & a & p & Hf)].
      + destruct (t_rej tr) eqn:Hr.
        * unfold hkl. replace (calls_by s k) with (@nil call); [exact Logic.I|]. symmetry. apply filter_none. intros c Hc.
          destruct (E c Hc) as (h' & tr' & _ & C2 & _ & C4 & _). apply Nat.eqb_neq. intros Q. rewrite Q, Hk in C2. inversion C2; subst. congruence.
        * destruct (D k tr Hk Hr Z) as (_ & _ & P1 & _). exact P1.
      + destruct (B e a k p Hf) as (_ & _ & _ & _ & _ & _ & _ & P1 & _). exact P1.
    - unfold hkl. rewrite (calls_by_fresh _ s k I Lk). exact Logic.I. }
  clear I. unfold hkl in Inc. induction (calls_by s k) as [|c r IH]; simpl; [lia|]. simpl in Inc. destruct Inc as [I1 I2].
  destruct (Nat.eqb (c_hook c) n) eqn:E; [|apply IH; exact I2]. apply Nat.eqb_eq in E. simpl.
  replace (filter (fun c0 => Nat.eqb (c_hook c0) n) r) with (@nil call); [simpl; lia|]. symmetry. apply filter_none.
  intros x Hx. apply Nat.eqb_neq. specialize (I1 (c_hook x) (in_map c_hook r x Hx)). lia.
Qed.

(* ---------- non-vacuity / regression examples ---------- *)
(* event 0 with hooks 0..3; Trigger(7) by thread 0; while the walker stands on hook 1 (after calling it), hooks 1 and 2 are
   unhooked and hook 4 is attached: the walker follows the frozen pointers 1 -> 2 -> 3 and does not miss hook 3 *)
Definition ex_walk : list action :=
  [ANewEvent 0 false; AHook 0 0 PDefault; AHook 0 0 PDefault; AHook 0 0 PDefault; AHook 0 0 PDefault;
   ATrigger 0 7; AStep 0; AStep 0; AStep 0; AStep 0; AStep 0; AStep 0; AUnhook 1; AUnhook 2; AHook 0 0 PDefault;
   AStep 0; AStep 0; AStep 0; AStep 0; AStep 0; AStep 0; AStep 0; AStep 0; AStep 0; AStep 0; AStep 0; AStep 0].
Example ex_walk_hyps : let s := run init ex_walk in
  nth_error (trigs s) 0 = Some (mkTrig 0 7 5 false None) /\ finished s 0 /\
  option_map (fun h => (h_ev h, h_born h, h_in h)) (nth_error (hooks s) 3) = Some (0, 4, true) /\
  map (fun h => (h_in h, h_frozen h)) (hooks s) = [(true, None); (false, Some 2); (false, Some 3); (true, None); (true, None)] /\
  map c_hook (calls_by s 0) = [0; 1; 2; 3; 4].
Proof.
  split; [vm_compute; reflexivity|]. split; [|vm_compute; auto].
  intros stk f H1 H2. vm_compute in H1. destruct H1 as [H1|[]]. subst stk. destruct H2.
Qed.

(* events A = 0, B = 1, E = 2 (with a callback, hook 0); E.LinkTo(A) (link hook 1); A.Trigger(5) fires E;
   E.LinkTo(B) (unhooks 1, link hook 2); A.Trigger(6) no longer fires E; B.Trigger(8) fires E *)
Definition ex_link : list action :=
  [ANewEvent 0 false; ANewEvent 0 false; ANewEvent 0 false; AHook 2 0 PDefault;
   ALinkTo 2 (Some 0); AStep 0;
   ATrigger 0 5; AStep 1; AStep 1; AStep 1; AStep 1; AStep 1; AStep 1; AStep 1; AStep 1;
   ALinkTo 2 (Some 1); AStep 2;
   ATrigger 0 6; AStep 3; AStep 3;
   ATrigger 1 8; AStep 4; AStep 4; AStep 4; AStep 4; AStep 4; AStep 4; AStep 4; AStep 4].
Example ex_link_result : let s := run init ex_link in
  map (fun c => (c_hook c, c_arg c, c_tid c)) (calls s) = [(1, 5%N, 0); (0, 5%N, 1); (2, 8%N, 3); (0, 8%N, 4)] /\
  map (fun t => (t_ev t, t_arg t, t_t0 t, t_parent t)) (trigs s) =
    [(0, 5%N, 6, None); (2, 5%N, 9, Some (1, 0)); (0, 6%N, 17, None); (1, 8%N, 20, None); (2, 8%N, 23, Some (2, 3))] /\
  map (fun h => (h_ev h, h_kind h, h_in h, h_died h)) (hooks s) = [(2, KCb, true, 0); (0, KLink 2, false, 15); (1, KLink 2, true, 0)] /\
  threads s = [[]; []; []; []; []].
Proof. vm_compute. auto. Qed.
