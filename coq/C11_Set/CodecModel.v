(* C11 - executable model of ds/serializableorderedmap Encode/Decode for ARBITRARY key / value types whose serix codec
   may fail (round 2, seed class "error paths of the codec"). No proofs here.

   Keys and values are identified by numbers (N); the per-entry codecs are parameters:
     ek, ev : N -> option (list N)            api.Encode(key) / api.Encode(value): None = the serix encoding fails
     dk, dv : list N -> option (N * list N)   api.Decode into a key / value: the decoded id and the remaining bytes
   (a "fault script": which entries fail, and the bytes the others produce). The map layer is transcribed statement by
   statement, including serializer.Serializer's sticky first error:

     seri := NewSerializer(); seri.WriteNum(uint32(o.Size()))
     o.ForEach(func(key, val) bool {
        keyBytes, err := api.Encode(key); if err != nil { seri.AbortIf(wrap err) }; seri.WriteBytes(keyBytes)
        valBytes, err := api.Encode(val); if err != nil { seri.AbortIf(wrap err) }; seri.WriteBytes(valBytes)
        return true })                                   (the iteration is NOT stopped by a failure)
     return seri.Serialize()                             (nil, err) if an error was recorded, else (buf, nil) *)
From Coq Require Import NArith List Bool.
From Verif.C11_Set Require Import Model.
Import ListNotations.
Open Scope N_scope.

(* which api.Encode call failed first: the key / the value of the i-th entry in iteration order *)
Inductive cerr := CEKey (i : nat) | CEVal (i : nat).

(* serializer.Serializer: buffer and the first recorded error; every Write*/AbortIf is a no-op once err is set *)
Record ser := mkSer { sbuf : list N; serr : option cerr }.

Definition ser_new : ser := mkSer [] None.

Definition ser_write (s : ser) (b : list N) : ser :=
  match serr s with Some _ => s | None => mkSer (sbuf s ++ b) None end.

Definition ser_abort (s : ser) (e : cerr) : ser :=
  match serr s with Some _ => s | None => mkSer (sbuf s) (Some e) end.

Inductive encres := EncOk (b : list N) | EncErr (e : cerr).

Definition ser_serialize (s : ser) : encres :=
  match serr s with Some e => EncErr e | None => EncOk (sbuf s) end.

(* api.Encode returns nil bytes together with an error *)
Definition bytes_of (r : option (list N)) : list N := match r with Some b => b | None => [] end.

(* the consumer handed to ForEach; the state carries the entry index (only used to name the error) *)
Definition enc_entry (ek ev : N -> option (list N)) (st : ser * nat) (kv : N * N) : ser * nat :=
  let '(s, i) := st in
  let kb := ek (fst kv) in
  let s1 := match kb with None => ser_abort s (CEKey i) | Some _ => s end in
  let s2 := ser_write s1 (bytes_of kb) in
  let vb := ev (snd kv) in
  let s3 := match vb with None => ser_abort s2 (CEVal i) | Some _ => s2 end in
  let s4 := ser_write s3 (bytes_of vb) in
  (s4, S i).

Definition som_encode (ek ev : N -> option (list N)) (o : omap) : encres :=
  let s0 := ser_write ser_new (enc_u32 (N.of_nat (om_size o))) in
  ser_serialize (fst (fold_left (enc_entry ek ev) (om_list o) (s0, 0%nat))).

(* Decode: uint32 count, then count times (key, value), each Set into the receiver; the first failing api.Decode ends
   the call with (0, err) and leaves the entries set so far in the receiver. Result: Some bytesRead / None = error. *)
Fixpoint gdec_entries (dk dv : list N -> option (N * list N)) (s : omap) (n : nat) (b : list N) : omap * option (list N) :=
  match n with
  | O => (s, Some b)
  | S n' =>
      match dk b with
      | None => (s, None)
      | Some (k, r1) =>
          match dv r1 with
          | None => (s, None)
          | Some (v, r2) => gdec_entries dk dv (fst (om_set s k v)) n' r2
          end
      end
  end.

Definition som_decode (dk dv : list N -> option (N * list N)) (s : omap) (b : list N) : omap * option nat :=
  match dec_u32 b with
  | None => (s, None)
  | Some (n, r) =>
      let '(s', rest) := gdec_entries dk dv s (N.to_nat n) r in
      (s', option_map (fun r' => (length b - length r')%nat) rest)
  end.

(* ---------- table codecs (used by the correspondence): the codec of a finite universe of keys / values ---------- *)

Definition codec_tbl := list (N * option (list N)).

Fixpoint tenc (t : codec_tbl) (x : N) : option (list N) :=
  match t with
  | [] => None
  | (y, c) :: r => if x =? y then c else tenc r x
  end.

Fixpoint strip_prefix (p b : list N) : option (list N) :=
  match p, b with
  | [], _ => Some b
  | x :: p', y :: b' => if x =? y then strip_prefix p' b' else None
  | _ :: _, [] => None
  end.

(* the decoder of a table of prefix-free codes: the entry whose code starts the input *)
Fixpoint tdec (t : codec_tbl) (b : list N) : option (N * list N) :=
  match t with
  | [] => None
  | (y, None) :: r => tdec r b
  | (y, Some c) :: r => match strip_prefix c b with Some rest => Some (y, rest) | None => tdec r b end
  end.

Definition om_of_entries (l : list (N * N)) : omap := fold_left (fun o kv => fst (om_set o (fst kv) (snd kv))) l om_empty.
