(* C11 - for every operation history (the op type of Corr.v: every method of Set and OrderedMap) the representation
   invariant holds, so every refinement statement applies in every reachable state. *)
From Coq Require Import NArith List Bool Lia.
From Verif.C11_Set Require Import Model Refine SetBasics ArithCodec SetProofs Corr.
Import ListNotations.
Open Scope N_scope.

Lemma dec_entries_inv n : forall s b read, Inv s -> Inv (fst (dec_entries s n b read)).
Proof.
  induction n; intros s b read Is; simpl; auto.
  destruct (dec_u32 b) as [[k r]|]; simpl; auto. apply IHn. apply set_spec; auto.
Qed.

Theorem step_inv s o : Inv s -> Inv (fst (step s o)).
Proof.
  intros Is.
  destruct o as [e|e|e|l|l|a d|f|l| |l|l|l|p| |e| | | | |n| |b|k v|k|k| | |n|n| ]; cbn [step]; try exact Is.
  - pose proof (add_spec s e Is) as H. destruct (s_add s e); cbn [fst] in *; tauto.
  - pose proof (del_spec s e Is) as H. destruct (s_delete s e); cbn [fst] in *; tauto.
  - pose proof (addall_diff s l Is) as H. destruct (s_addall s l); cbn [fst] in *; tauto.
  - pose proof (deleteall_diff s l Is) as H. destruct (s_deleteall s l); cbn [fst] in *; tauto.
  - pose proof (apply_spec s a d Is) as H. destruct (s_apply s a d) as [[? ?] ?]; cbn [fst] in *; tauto.
  - unfold s_compute. destruct (f (s_toslice s)) as [a d].
    pose proof (apply_spec s a d Is) as H. destruct (s_apply s a d) as [[? ?] ?]; cbn [fst] in *; tauto.
  - pose proof (replace_diff s l Is) as H. destruct (s_replace s l); cbn [fst] in *; tauto.
  - apply clear_spec.
  - destruct (visit_until n (s_toslice s)); exact Is.
  - unfold s_decode. destruct (dec_u32 b) as [[n r]|]; cbn [fst]; auto.
    pose proof (dec_entries_inv (N.to_nat n) s r 4%nat Is) as H. destruct (dec_entries s (N.to_nat n) r 4); auto.
  - pose proof (set_spec s k v Is) as H. destruct (om_set s k v); cbn [fst] in *; tauto.
  - pose proof (delete_spec s k Is) as H. destruct (om_delete s k); cbn [fst] in *; tauto.
  - destruct (visit_until n (om_list s)); exact Is.
  - destruct (visit_until n (om_rlist s)); exact Is.
Qed.

Fixpoint run_ops (s : omap) (h : list op) : omap :=
  match h with [] => s | o :: r => run_ops (fst (step s o)) r end.

Theorem reachable_inv init h : Inv (run_ops (s_new init) h).
Proof.
  assert (G : forall h s, Inv s -> Inv (run_ops s h)).
  { induction h0 as [|o r IH]; simpl; auto. intros s Is. apply IH. apply step_inv; auto. }
  apply G. apply new_inv.
Qed.

Theorem reachable_map_inv h : Inv (run_ops om_empty h).
Proof.
  assert (G : forall h s, Inv s -> Inv (run_ops s h)).
  { induction h0 as [|o r IH]; simpl; auto. intros s Is. apply IH. apply step_inv; auto. }
  apply G. apply empty_spec.
Qed.
