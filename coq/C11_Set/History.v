(* C11 - for every operation history (the op type of Corr.v: every method of Set and OrderedMap) the representation
   invariant holds, so every refinement statement applies in every reachable state. *)
From Coq Require Import NArith List Bool Lia.
From Verif.C11_Set Require Import Model Refine SetBasics ArithCodec SetProofs Corr Iter.
Import ListNotations.
Open Scope N_scope.

Lemma dec_entries_inv n : forall s b read, Inv s -> Inv (fst (dec_entries s n b read)).
Proof.
  induction n; intros s b read Is; simpl; auto.
  destruct (dec_u32 b) as [[k r]|]; simpl; auto. apply IHn. apply set_spec; auto.
Qed.

Lemma run_mop_inv o m : Inv o -> Inv (run_mop o m).
Proof.
  intros I. destruct m as [k v|k|]; cbn [run_mop].
  - apply set_spec; auto.
  - apply delete_spec; auto.
  - apply clear_spec.
Qed.

Lemma run_mops_inv l : forall o, Inv o -> Inv (run_mops o l).
Proof. unfold run_mops. induction l as [|m r IH]; simpl; auto. intros o I. apply IH, run_mop_inv, I. Qed.

Lemma foreach_re_inv next sc : forall o cur, Inv o -> Inv (fst (fst (foreach_re next o cur sc))).
Proof.
  induction sc as [|[ops cont] rest IH]; intros o cur I; cbn [foreach_re fst]; auto.
  destruct cur as [a|]; cbn [fst]; auto.
  destruct (nth_error (mem o) a) as [n|]; cbn [fst]; auto.
  destruct cont; cbn [fst]; [|apply run_mops_inv; auto].
  specialize (IH (run_mops o ops) (ptr_of next (mem (run_mops o ops)) a) (run_mops_inv ops o I)).
  destruct (foreach_re next (run_mops o ops) (ptr_of next (mem (run_mops o ops)) a) rest) as [[o2 vis] b]; exact IH.
Qed.

Theorem step_inv s o : Inv s -> Inv (fst (step s o)).
Proof.
  intros Is.
  destruct o as [e|e|e|l|l|a d|f|l| |l|l|l|p| |e| | | | |n| |b|k v|k|k| | |n|n| |rv sc|sc]; cbn [step]; try exact Is.
  - pose proof (add_spec s e Is) as H. destruct (s_add s e); cbn [fst] in *; tauto.
  - pose proof (del_spec s e Is) as H. destruct (s_delete s e); cbn [fst] in *; tauto.
  - pose proof (addall_diff s l Is) as H. destruct (s_addall s l); cbn [fst] in *; tauto.
  - pose proof (deleteall_diff s l Is) as H. destruct (s_deleteall s l); cbn [fst] in *; tauto.
  - pose proof (apply_spec s a d Is) as H. destruct (s_apply s a d) as [[? ?] ?]; cbn [fst] in *; tauto.
  - unfold s_compute. destruct (f (s_toslice s)) as [a d].
    pose proof (apply_spec s a d Is) as H. destruct (s_apply s a d) as [[? ?] ?]; cbn [fst] in *; tauto.
  - pose proof (replace_diff s l Is) as H. destruct (s_replace s l); cbn [fst] in *; tauto.
  - apply clear_spec.
  - destruct (visit_until n (s_toslice s)); exact Is.
  - unfold s_decode. destruct (dec_u32 b) as [[n r]|]; cbn [fst]; auto.
    pose proof (dec_entries_inv (N.to_nat n) s r 4%nat Is) as H. destruct (dec_entries s (N.to_nat n) r 4); auto.
  - pose proof (set_spec s k v Is) as H. destruct (om_set s k v); cbn [fst] in *; tauto.
  - pose proof (delete_spec s k Is) as H. destruct (om_delete s k); cbn [fst] in *; tauto.
  - destruct (visit_until n (om_list s)); exact Is.
  - destruct (visit_until n (om_rlist s)); exact Is.
  - destruct rv; [pose proof (foreach_re_inv nprev sc s (tail s) Is) as H; unfold om_foreachrev_re;
                  destruct (foreach_re nprev s (tail s) sc) as [[? ?] ?]
                 |pose proof (foreach_re_inv nnext sc s (head s) Is) as H; unfold om_foreach_re;
                  destruct (foreach_re nnext s (head s) sc) as [[? ?] ?]]; exact H.
  - pose proof (foreach_re_inv nnext sc s (head s) Is) as H. unfold om_foreach_re.
    destruct (foreach_re nnext s (head s) sc) as [[? ?] ?]; exact H.
Qed.

Fixpoint run_ops (s : omap) (h : list op) : omap :=
  match h with [] => s | o :: r => run_ops (fst (step s o)) r end.

Theorem reachable_inv init h : Inv (run_ops (s_new init) h).
Proof.
  assert (G : forall h s, Inv s -> Inv (run_ops s h)).
  { induction h0 as [|o r IH]; simpl; auto. intros s Is. apply IH. apply step_inv; auto. }
  apply G. apply new_inv.
Qed.

Theorem reachable_map_inv h : Inv (run_ops om_empty h).
Proof.
  assert (G : forall h s, Inv s -> Inv (run_ops s h)).
  { induction h0 as [|o r IH]; simpl; auto. intros s Is. apply IH. apply step_inv; auto. }
  apply G. apply empty_spec.
Qed.

(* the strong invariant of Iter.v (Inv + addresses grow along next in the whole store) also holds in every reachable state *)
Theorem step_sinv s o : SInv s -> SInv (fst (step s o)).
Proof.
  intros Is.
  destruct o as [e|e|e|l|l|a d|f|l| |l|l|l|p| |e| | | | |n| |b|k v|k|k| | |n|n| |rv sc|sc]; cbn [step]; try exact Is.
  - pose proof (sinv_set s e 0 Is) as H. unfold s_add. destruct (om_set s e 0) as [s' [q|]]; exact H.
  - pose proof (sinv_del s e Is) as H. unfold s_delete. destruct (om_delete s e); exact H.
  - pose proof (sinv_addall l s om_empty Is) as H. unfold s_addall. destruct (fold_left addall_step l (s, om_empty)); exact H.
  - pose proof (sinv_deleteall l s om_empty Is) as H. unfold s_deleteall. destruct (fold_left deleteall_step l (s, om_empty)); exact H.
  - pose proof (sinv_apply s a d Is) as H. destruct (s_apply s a d) as [[? ?] ?]; exact H.
  - unfold s_compute. destruct (f (s_toslice s)) as [a d].
    pose proof (sinv_apply s a d Is) as H. destruct (s_apply s a d) as [[? ?] ?]; exact H.
  - unfold s_replace. cbn [fst]. apply sinv_fold_set. apply sinv_clear; auto.
  - apply sinv_clear; auto.
  - destruct (visit_until n (s_toslice s)); exact Is.
  - unfold s_decode. destruct (dec_u32 b) as [[n r]|]; cbn [fst]; auto.
    pose proof (sinv_dec_entries (N.to_nat n) s r 4%nat Is) as H. destruct (dec_entries s (N.to_nat n) r 4); auto.
  - pose proof (sinv_set s k v Is) as H. destruct (om_set s k v); exact H.
  - pose proof (sinv_del s k Is) as H. destruct (om_delete s k); exact H.
  - destruct (visit_until n (om_list s)); exact Is.
  - destruct (visit_until n (om_rlist s)); exact Is.
  - destruct rv; [pose proof (sinv_foreach_re nprev sc s (tail s) Is) as H; unfold om_foreachrev_re;
                  destruct (foreach_re nprev s (tail s) sc) as [[? ?] ?]
                 |pose proof (sinv_foreach_re nnext sc s (head s) Is) as H; unfold om_foreach_re;
                  destruct (foreach_re nnext s (head s) sc) as [[? ?] ?]]; exact H.
  - pose proof (sinv_foreach_re nnext sc s (head s) Is) as H. unfold om_foreach_re.
    destruct (foreach_re nnext s (head s) sc) as [[? ?] ?]; exact H.
Qed.

Theorem reachable_sinv init h : SInv (run_ops (s_new init) h).
Proof.
  assert (G : forall h s, SInv s -> SInv (run_ops s h)).
  { induction h0 as [|o r IH]; simpl; auto. intros s Is. apply IH. apply step_sinv; auto. }
  apply G. unfold s_new. apply sinv_fold_set. apply sinv_empty.
Qed.

Theorem reachable_map_sinv h : SInv (run_ops om_empty h).
Proof.
  assert (G : forall h s, SInv s -> SInv (run_ops s h)).
  { induction h0 as [|o r IH]; simpl; auto. intros s Is. apply IH. apply step_sinv; auto. }
  apply G. apply sinv_empty.
Qed.
