(* C11 - lock skeletons of ds.Set / OrderedMap / ShrinkingMap and the lock-hierarchy theorem.
   Locks are numbered by rank. Go sync.RWMutex is modelled with writer preference: Lock() first announces the
   writer (from then on new RLock() calls block), then waits until the active readers are gone.
   The lock state is derived from what the threads hold, so there is no separate state to keep consistent. *)
From Coq Require Import List Bool Lia PeanoNat.
Import ListNotations.

Inductive act := RLock (l : nat) | RUnlock (l : nat) | Lock (l : nat) | Unlock (l : nat).
Inductive hmode := HR | HW.
Definition held := list (nat * hmode).

Definition hm_eqb (a b : hmode) : bool := match a, b with HR, HR | HW, HW => true | _, _ => false end.
Definition is (l : nat) (m : hmode) (x : nat * hmode) : bool := Nat.eqb (fst x) l && hm_eqb (snd x) m.
Definition holdsb (h : held) (l : nat) (m : hmode) : bool := existsb (is l m) h.

Fixpoint remove1 (l : nat) (m : hmode) (h : held) : held :=
  match h with
  | [] => []
  | x :: r => if is l m x then r else x :: remove1 l m r
  end.

(* pending = the thread has announced itself as writer on the lock at the head of its program *)
Record thread := mkT { pending : bool; hold : held; prog : list act }.

Definition pending_on (t : thread) (l : nat) : bool :=
  pending t && match prog t with Lock l' :: _ => Nat.eqb l' l | _ => false end.
Definition announced (l : nat) (t : thread) : bool := holdsb (hold t) l HW || pending_on t l.
Definition reads (l : nat) (t : thread) : bool := holdsb (hold t) l HR.

Definition step_thread (s : list thread) (t : thread) : option thread :=
  match prog t with
  | [] => None
  | RLock l :: p => if existsb (announced l) s then None else Some (mkT false ((l, HR) :: hold t) p)
  | Lock l :: p =>
      if pending t then (if existsb (reads l) s then None else Some (mkT false ((l, HW) :: hold t) p))
      else if existsb (announced l) s then None else Some (mkT true (hold t) (prog t))
  | RUnlock l :: p => Some (mkT false (remove1 l HR (hold t)) p)
  | Unlock l :: p => Some (mkT false (remove1 l HW (hold t)) p)
  end.

Fixpoint set_nth {A} (l : list A) (i : nat) (x : A) : list A :=
  match l, i with
  | [], _ => []
  | _ :: r, O => x :: r
  | y :: r, S i' => y :: set_nth r i' x
  end.

Definition step (s : list thread) (i : nat) : option (list thread) :=
  match nth_error s i with
  | Some t => match step_thread s t with Some t' => Some (set_nth s i t') | None => None end
  | None => None
  end.

(* a schedule is any list of thread indices; choosing a blocked or finished thread is a no-op *)
Fixpoint run (s : list thread) (sched : list nat) : list thread :=
  match sched with
  | [] => s
  | i :: r => match step s i with Some s' => run s' r | None => run s r end
  end.

Definition finished (s : list thread) : bool := forallb (fun t => match prog t with [] => true | _ => false end) s.
Definition blocked (s : list thread) (t : thread) : bool := match step_thread s t with None => true | Some _ => false end.
Definition stuck (s : list thread) : bool := negb (finished s) && forallb (blocked s) s.

Definition init (p : list act) : thread := mkT false [] p.

(* ---------- the discipline: strictly increasing ranks, balanced ---------- *)

Definition lt_all (h : held) (l : nat) : Prop := forall x, In x h -> fst x < l.
Definition ltb_all (h : held) (l : nat) : bool := forallb (fun x => Nat.ltb (fst x) l) h.

Fixpoint okto (h : held) (p : list act) (h' : held) : Prop :=
  match p with
  | [] => h = h'
  | RLock l :: p' => lt_all h l /\ okto ((l, HR) :: h) p' h'
  | Lock l :: p' => lt_all h l /\ okto ((l, HW) :: h) p' h'
  | RUnlock l :: p' => holdsb h l HR = true /\ okto (remove1 l HR h) p' h'
  | Unlock l :: p' => holdsb h l HW = true /\ okto (remove1 l HW h) p' h'
  end.

Definition wf (t : thread) : Prop :=
  okto (hold t) (prog t) [] /\ (pending t = true -> exists l p, prog t = Lock l :: p).

Lemma okto_app h p1 h1 p2 h2 : okto h p1 h1 -> okto h1 p2 h2 -> okto h (p1 ++ p2) h2.
Proof.
  revert h; induction p1 as [|a p1 IH]; simpl; intros h H1 H2.
  - subst; auto.
  - destruct a; destruct H1 as [X Y]; split; auto.
Qed.

Lemma ltb_all_ok h l : ltb_all h l = true -> lt_all h l.
Proof. unfold ltb_all, lt_all. rewrite forallb_forall. intros H x Hx. apply Nat.ltb_lt; auto. Qed.

(* ---------- skeletons as data: regular expressions over lock actions ---------- *)

Inductive skel := SSkip | SAct (a : act) | SSeq (a b : skel) | SAlt (a b : skel) | SStar (a : skel).

Inductive paths : skel -> list act -> Prop :=
| PSkip : paths SSkip []
| PAct a : paths (SAct a) [a]
| PSeq a b p q : paths a p -> paths b q -> paths (SSeq a b) (p ++ q)
| PAltL a b p : paths a p -> paths (SAlt a b) p
| PAltR a b p : paths b p -> paths (SAlt a b) p
| PStar0 a : paths (SStar a) []
| PStarS a p q : paths a p -> paths (SStar a) q -> paths (SStar a) (p ++ q).

Definition pair_eqb (x y : nat * hmode) : bool := Nat.eqb (fst x) (fst y) && hm_eqb (snd x) (snd y).
Fixpoint held_eqb (a b : held) : bool :=
  match a, b with
  | [], [] => true
  | x :: a', y :: b' => pair_eqb x y && held_eqb a' b'
  | _, _ => false
  end.

Lemma held_eqb_eq a b : held_eqb a b = true -> a = b.
Proof.
  revert b; induction a as [|[x m] a IH]; intros [|[y n] b]; simpl; try discriminate; auto.
  unfold pair_eqb; simpl. intros H. apply andb_true_iff in H. destruct H as [H1 H2].
  apply andb_true_iff in H1. destruct H1 as [H0 H1]. apply Nat.eqb_eq in H0. subst.
  rewrite (IH _ H2). destruct m, n; simpl in *; congruence.
Qed.

(* chk h s = Some h': every path of s started with the held set h respects the discipline and ends holding h' *)
Fixpoint chk (h : held) (s : skel) : option held :=
  match s with
  | SSkip => Some h
  | SAct (RLock l) => if ltb_all h l then Some ((l, HR) :: h) else None
  | SAct (Lock l) => if ltb_all h l then Some ((l, HW) :: h) else None
  | SAct (RUnlock l) => if holdsb h l HR then Some (remove1 l HR h) else None
  | SAct (Unlock l) => if holdsb h l HW then Some (remove1 l HW h) else None
  | SSeq a b => match chk h a with Some h1 => chk h1 b | None => None end
  | SAlt a b => match chk h a, chk h b with Some h1, Some h2 => if held_eqb h1 h2 then Some h1 else None | _, _ => None end
  | SStar a => match chk h a with Some h1 => if held_eqb h1 h then Some h else None | None => None end
  end.

Theorem chk_sound s : forall h h', chk h s = Some h' -> forall p, paths s p -> okto h p h'.
Proof.
  induction s; intros h h' C p P.
  - inversion P; subst. simpl in *. congruence.
  - inversion P; subst. destruct a; simpl in *.
    + destruct (ltb_all h l) eqn:E; inversion C; subst. split; auto. apply ltb_all_ok; auto.
    + destruct (holdsb h l HR) eqn:E; inversion C; subst. auto.
    + destruct (ltb_all h l) eqn:E; inversion C; subst. split; auto. apply ltb_all_ok; auto.
    + destruct (holdsb h l HW) eqn:E; inversion C; subst. auto.
  - inversion P; subst. simpl in C. destruct (chk h s1) as [h1|] eqn:E1; [|discriminate].
    eapply okto_app; eauto.
  - simpl in C. destruct (chk h s1) as [h1|] eqn:E1; [|discriminate].
    destruct (chk h s2) as [h2|] eqn:E2; [|discriminate].
    destruct (held_eqb h1 h2) eqn:E; inversion C; subst. apply held_eqb_eq in E. subst.
    inversion P; subst; eauto.
  - simpl in C. destruct (chk h s) as [h1|] eqn:E1; [|discriminate].
    destruct (held_eqb h1 h) eqn:E; inversion C; subst. apply held_eqb_eq in E. subst.
    remember (SStar s) as ss eqn:Es. induction P; inversion Es; subst.
    + simpl; auto.
    + eapply okto_app; eauto.
Qed.

(* ---------- preservation ---------- *)

Lemma Forall_set_nth {A} (P : A -> Prop) l i x : Forall P l -> P x -> Forall P (set_nth l i x).
Proof.
  intros F; revert i; induction F; intros [|i] Px; simpl; constructor; auto.
Qed.

Lemma wf_step_thread s t t' : wf t -> step_thread s t = Some t' -> wf t'.
Proof.
  intros [O Pd] S. unfold step_thread in S. destruct (prog t) as [|a p] eqn:Ep; [discriminate|].
  destruct a; simpl in O.
  - destruct (existsb (announced l) s); inversion S; subst. split; simpl; try tauto. discriminate.
  - inversion S; subst. split; simpl; try tauto. discriminate.
  - destruct (pending t).
    + destruct (existsb (reads l) s); inversion S; subst. split; simpl; try tauto. discriminate.
    + destruct (existsb (announced l) s); inversion S; subst. split; simpl; eauto.
  - inversion S; subst. split; simpl; try tauto. discriminate.
Qed.

Lemma wf_step s i s' : Forall wf s -> step s i = Some s' -> Forall wf s'.
Proof.
  unfold step. intros F S. destruct (nth_error s i) as [t|] eqn:E; [|discriminate].
  destruct (step_thread s t) as [t'|] eqn:E2; inversion S; subst.
  apply Forall_set_nth; auto. eapply wf_step_thread; eauto.
  rewrite Forall_forall in F. apply F. eapply nth_error_In; eauto.
Qed.

Lemma wf_run sched : forall s, Forall wf s -> Forall wf (run s sched).
Proof.
  induction sched as [|i r IH]; simpl; auto. intros s F.
  destruct (step s i) eqn:E; auto. apply IH. eapply wf_step; eauto.
Qed.

(* ---------- progress ---------- *)

Definition wants (t : thread) (l : nat) : Prop :=
  match prog t with RLock l' :: _ | Lock l' :: _ => l' = l | _ => False end.

Lemma holdsb_in h l m : holdsb h l m = true -> In (l, m) h.
Proof.
  unfold holdsb. rewrite existsb_exists. intros ([x n] & H & E). unfold is in E; simpl in E.
  apply andb_true_iff in E. destruct E as [E1 E2]. apply Nat.eqb_eq in E1. subst.
  destruct n, m; simpl in *; try discriminate; auto.
Qed.

(* a thread that holds l can step, or waits for a lock of a strictly higher rank *)
Lemma holder_progress s u l m : wf u -> holdsb (hold u) l m = true ->
  step_thread s u <> None \/ exists l', l < l' /\ wants u l'.
Proof.
  intros [O _] H. apply holdsb_in in H. unfold step_thread, wants.
  destruct (prog u) as [|a p] eqn:Ep; simpl in O.
  - rewrite O in H. destruct H.
  - destruct a; destruct O as [O1 O2].
    + right. exists l0. split; auto. apply (O1 _ H).
    + left; discriminate.
    + right. exists l0. split; auto. apply (O1 _ H).
    + left; discriminate.
Qed.

Lemma blocked_acquirer s t l : In t s -> wants t l -> step_thread s t = None ->
  (exists u m, In u s /\ holdsb (hold u) l m = true) \/ (exists x, In x s /\ step_thread s x <> None).
Proof.
  intros Ht W S.
  assert (RD : existsb (reads l) s = true -> exists u m, In u s /\ holdsb (hold u) l m = true).
  { intros E. apply existsb_exists in E. destruct E as (v & Hv & R). exists v, HR. auto. }
  assert (AN : existsb (announced l) s = true ->
     (exists u m, In u s /\ holdsb (hold u) l m = true) \/ (exists x, In x s /\ step_thread s x <> None)).
  { intros E. apply existsb_exists in E. destruct E as (u & Hu & A). unfold announced in A.
    apply orb_true_iff in A. destruct A as [A|A].
    - left. exists u, HW. auto.
    - unfold pending_on in A. apply andb_true_iff in A. destruct A as [A1 A2].
      destruct (step_thread s u) eqn:Su. right. exists u. split; auto. congruence.
      unfold step_thread in Su. destruct (prog u) as [|[] p]; try discriminate.
      apply Nat.eqb_eq in A2. subst. rewrite A1 in Su.
      destruct (existsb (reads l) s) eqn:R; [|discriminate]. left; auto. }
  unfold wants in W. unfold step_thread in S. destruct (prog t) as [|a p]; [tauto|].
  destruct a; try tauto; subst.
  - destruct (existsb (announced l) s) eqn:E; [|discriminate]. auto.
  - destruct (pending t).
    + destruct (existsb (reads l) s) eqn:E; [|discriminate]. auto.
    + destruct (existsb (announced l) s) eqn:E; [|discriminate]. auto.
Qed.

Lemma chain s : Forall wf s -> forall n u l m, In u s -> holdsb (hold u) l m = true ->
  (forall t' l', In t' s -> wants t' l' -> l' <= l + n) -> exists x, In x s /\ step_thread s x <> None.
Proof.
  intros F. rewrite Forall_forall in F. induction n; intros u l m Hu H B.
  - destruct (holder_progress s u l m (F _ Hu) H) as [E|(l' & L & W)]. eauto.
    specialize (B _ _ Hu W). lia.
  - destruct (holder_progress s u l m (F _ Hu) H) as [E|(l' & L & W)]. eauto.
    destruct (step_thread s u) eqn:Su. exists u; split; auto; congruence.
    destruct (blocked_acquirer s u l' Hu W Su) as [(x & mx & Hx & Hh)|E]; auto.
    apply (IHn x l' mx); auto. intros t' l'' Ht' W'. specialize (B _ _ Ht' W'). lia.
Qed.

Definition wanted_or_0 (t : thread) : nat := match prog t with RLock l :: _ | Lock l :: _ => l | _ => 0 end.

Theorem progress s : Forall wf s -> finished s = false -> exists x, In x s /\ step_thread s x <> None.
Proof.
  intros F NF.
  assert (exists t, In t s /\ prog t <> []) as (t & Ht & Np).
  { unfold finished in NF. clear F. induction s as [|a s IH]; simpl in *; [discriminate|].
    destruct (prog a) eqn:E; simpl in NF.
    - destruct (IH NF) as (t & H1 & H2). exists t; auto.
    - exists a. split; auto. congruence. }
  destruct (step_thread s t) eqn:St. exists t; split; auto; congruence.
  assert (W : exists l, wants t l).
  { unfold step_thread in St. unfold wants. destruct (prog t) as [|[] p]; try congruence; eauto; discriminate. }
  destruct W as [l W].
  destruct (blocked_acquirer s t l Ht W St) as [(u & m & Hu & Hh)|E]; auto.
  apply (chain s F (list_max (map wanted_or_0 s)) u l m Hu Hh).
  intros t' l' Ht' W'.
  assert (l' <= list_max (map wanted_or_0 s)).
  { assert (X : Forall (fun k => k <= list_max (map wanted_or_0 s)) (map wanted_or_0 s)) by (apply list_max_le; lia).
    rewrite Forall_forall in X. apply X. apply in_map_iff. exists t'. split; auto.
    unfold wants in W'. unfold wanted_or_0. destruct (prog t') as [|[] ?]; try tauto; auto. }
  lia.
Qed.

Theorem not_stuck s : Forall wf s -> stuck s = false.
Proof.
  intros F. unfold stuck. destruct (finished s) eqn:E; auto. simpl.
  destruct (progress s F E) as (x & Hx & Sx).
  apply not_true_is_false. intros A. rewrite forallb_forall in A. specialize (A _ Hx).
  unfold blocked in A. destruct (step_thread s x); congruence.
Qed.

(* the hierarchy theorem: threads whose programs respect the discipline never reach a stuck state *)
Theorem hierarchy_no_deadlock (progs : list (list act)) :
  Forall (fun p => okto [] p []) progs -> forall sched, stuck (run (map init progs) sched) = false.
Proof.
  intros F sched. apply not_stuck. apply wf_run.
  rewrite Forall_forall in *. intros t Ht. apply in_map_iff in Ht. destruct Ht as (p & <- & Hp).
  split; simpl; auto. discriminate.
Qed.

(* ---------- mutual exclusion (atomicity of write-locked sections) ---------- *)

Definition count (f : thread -> bool) (s : list thread) : nat := length (filter f s).
Definition b2n (b : bool) : nat := if b then 1 else 0.

Lemma count_set_nth f s i t t' : nth_error s i = Some t ->
  count f (set_nth s i t') + b2n (f t) = count f s + b2n (f t').
Proof.
  unfold count. revert i; induction s as [|a s IH]; intros [|i] E; simpl in *; try discriminate.
  - inversion E; subst. destruct (f t), (f t'); simpl; lia.
  - specialize (IH _ E). destruct (f a); simpl; lia.
Qed.

Lemma count_zero f s : existsb f s = false <-> count f s = 0.
Proof.
  unfold count. induction s; simpl. tauto. destruct (f a); simpl. split; [discriminate|lia]. auto.
Qed.

Definition writes (l : nat) (t : thread) : bool := holdsb (hold t) l HW.

(* per lock: at most one announced writer; while a writer is inside, nobody reads *)
Definition excl (s : list thread) : Prop :=
  forall l, count (announced l) s <= 1 /\ (1 <= count (writes l) s -> count (reads l) s = 0).

Lemma holdsb_cons x h l m : holdsb (x :: h) l m = is l m x || holdsb h l m.
Proof. reflexivity. Qed.

Lemma holdsb_remove1_other h l m l' m' : is l m (l', m') = false ->
  holdsb (remove1 l' m' h) l m = holdsb h l m.
Proof.
  intros N. induction h as [|x h IH]; cbn [remove1]; auto. destruct (is l' m' x) eqn:E.
  - assert (is l m x = false).
    { unfold is in *. destruct x as [a b]; simpl in *. apply andb_true_iff in E. destruct E as [E1 E2].
      apply Nat.eqb_eq in E1. subst. destruct b, m'; simpl in *; try discriminate; auto. }
    rewrite holdsb_cons, H; auto.
  - rewrite !holdsb_cons, IH; auto.
Qed.

Lemma holdsb_remove1_le h l m l' m' : holdsb (remove1 l' m' h) l m = true -> holdsb h l m = true.
Proof.
  induction h as [|x h IH]; cbn [remove1]; auto. destruct (is l' m' x).
  - intros H; rewrite holdsb_cons, H. apply orb_true_r.
  - rewrite !holdsb_cons. intros H. apply orb_true_iff in H. destruct H as [H|H]; [rewrite H; auto|].
    rewrite IH; auto. apply orb_true_r.
Qed.

Lemma count_mono f g s : (forall t, f t = true -> g t = true) -> count f s <= count g s.
Proof.
  unfold count. intros H. induction s as [|a s IH]; simpl; auto.
  destruct (f a) eqn:E. rewrite (H _ E). simpl; lia. destruct (g a); simpl; lia.
Qed.

Lemma writes_announced l t : writes l t = true -> announced l t = true.
Proof. unfold writes, announced. intros ->; auto. Qed.

Lemma is_refl l m : is l m (l, m) = true.
Proof. unfold is; simpl. rewrite Nat.eqb_refl. destruct m; auto. Qed.

Lemma is_diff_mode l m l' m' : m <> m' -> is l m (l', m') = false.
Proof. unfold is; simpl. intros. destruct m, m'; simpl; try congruence; apply andb_false_r. Qed.

Lemma is_diff_lock l m l' m' : l' <> l -> is l m (l', m') = false.
Proof. unfold is; simpl. intros. apply Nat.eqb_neq in H. rewrite H; auto. Qed.

Lemma excl_step s i s' : excl s -> step s i = Some s' -> excl s'.
Proof.
  unfold step. intros X S. destruct (nth_error s i) as [t|] eqn:E; [|discriminate].
  destruct (step_thread s t) as [t'|] eqn:St; inversion S; subst. clear S.
  intros l0. destruct (X l0) as [XA XW].
  pose proof (count_set_nth (announced l0) s i t t' E) as EA.
  pose proof (count_set_nth (writes l0) s i t t' E) as EW.
  pose proof (count_set_nth (reads l0) s i t t' E) as ER.
  pose proof (count_mono (writes l0) (announced l0) s (writes_announced l0)) as WA.
  unfold step_thread in St. destruct (prog t) as [|a p] eqn:Ep; [discriminate|].
  set (cA := count (announced l0)) in *. set (cW := count (writes l0)) in *. set (cR := count (reads l0)) in *.
  unfold announced, writes, reads, pending_on in EA, EW, ER. rewrite Ep in EA.
  destruct a.
  - (* RLock l *)
    destruct (existsb (announced l) s) eqn:G; inversion St; subst; clear St. apply count_zero in G.
    cbn [hold pending prog] in *. rewrite !holdsb_cons in *.
    rewrite (is_diff_mode l0 HW l HR) in * by discriminate. cbn [orb andb] in *.
    destruct (Nat.eq_dec l l0) as [->|N].
    + change (cA s = 0) in G. rewrite is_refl in ER. cbn [orb] in ER.
      destruct (holdsb (hold t) l0 HW), (holdsb (hold t) l0 HR), (pending t); simpl in *; lia.
    + rewrite (is_diff_lock l0 HR l HR N) in ER. cbn [orb] in ER.
      destruct (holdsb (hold t) l0 HW), (holdsb (hold t) l0 HR), (pending t); simpl in *; lia.
  - (* RUnlock l *)
    inversion St; subst; clear St. cbn [hold pending prog] in *.
    rewrite (holdsb_remove1_other (hold t) l0 HW l HR) in * by (apply is_diff_mode; discriminate).
    pose proof (holdsb_remove1_le (hold t) l0 HR l HR) as LE.
    destruct (holdsb (remove1 l HR (hold t)) l0 HR), (holdsb (hold t) l0 HR), (holdsb (hold t) l0 HW), (pending t);
      simpl in *; try (specialize (LE eq_refl); discriminate); lia.
  - (* Lock l *)
    destruct (pending t) eqn:Pt.
    + destruct (existsb (reads l) s) eqn:G; inversion St; subst; clear St. apply count_zero in G.
      cbn [hold pending prog] in *. rewrite !holdsb_cons in *.
      rewrite (is_diff_mode l0 HR l HW) in * by discriminate. cbn [orb andb] in *.
      destruct (Nat.eq_dec l l0) as [->|N].
      * change (cR s = 0) in G. rewrite is_refl in *. rewrite Nat.eqb_refl in EA. cbn [orb] in *.
        destruct (holdsb (hold t) l0 HW), (holdsb (hold t) l0 HR); simpl in *; lia.
      * rewrite (is_diff_lock l0 HW l HW N) in *. apply Nat.eqb_neq in N. rewrite N in EA. cbn [orb] in *.
        destruct (holdsb (hold t) l0 HW), (holdsb (hold t) l0 HR); simpl in *; lia.
    + destruct (existsb (announced l) s) eqn:G; inversion St; subst; clear St. apply count_zero in G.
      cbn [hold pending prog] in *. cbn [andb] in *.
      destruct (Nat.eq_dec l l0) as [->|N].
      * change (cA s = 0) in G. rewrite Nat.eqb_refl in EA.
        destruct (holdsb (hold t) l0 HW), (holdsb (hold t) l0 HR); simpl in *; lia.
      * apply Nat.eqb_neq in N. rewrite N in EA.
        destruct (holdsb (hold t) l0 HW), (holdsb (hold t) l0 HR); simpl in *; lia.
  - (* Unlock l *)
    inversion St; subst; clear St. cbn [hold pending prog] in *.
    rewrite (holdsb_remove1_other (hold t) l0 HR l HW) in * by (apply is_diff_mode; discriminate).
    pose proof (holdsb_remove1_le (hold t) l0 HW l HW) as LE.
    destruct (holdsb (remove1 l HW (hold t)) l0 HW), (holdsb (hold t) l0 HR), (holdsb (hold t) l0 HW), (pending t);
      simpl in *; try (specialize (LE eq_refl); discriminate); lia.
Qed.

Lemma excl_run sched : forall s, excl s -> excl (run s sched).
Proof.
  induction sched as [|i r IH]; simpl; auto. intros s X.
  destruct (step s i) eqn:E; auto. apply IH. eapply excl_step; eauto.
Qed.

Lemma excl_init progs : excl (map init progs).
Proof.
  intros l. assert (Z : forall f, (forall p, f (init p) = false) -> count f (map init progs) = 0).
  { intros f H. unfold count. induction progs; simpl; auto. rewrite H; auto. }
  rewrite (Z (announced l)), (Z (reads l)) by (intros; reflexivity). split; auto.
Qed.

(* in every reachable state: per lock at most one thread is inside a write-locked section (or announced),
   and while one is inside nobody holds the read lock *)
Theorem mutual_exclusion progs sched l :
  let s := run (map init progs) sched in
  count (writes l) s <= 1 /\ (1 <= count (writes l) s -> count (reads l) s = 0).
Proof.
  cbv zeta. destruct (excl_run sched _ (excl_init progs) l) as [A B]. split; auto.
  pose proof (count_mono (writes l) (announced l) (run (map init progs) sched) (writes_announced l)). lia.
Qed.
