(* Correspondence for C11. Three kinds of cases, each an operation history with everything the real code returned:
   - CSet  : a ds.Set[uint32] (every method of the Set interface), contents+order observed after every operation
   - CMap  : an orderedmap.OrderedMap[uint32,uint32] (values matter)
   - CArith: a ds.SetArithmetic[uint32] under Add/Subtract with thresholds *)
From Coq Require Import NArith ZArith List Bool.
From Verif.C11_Set Require Import Model CodecModel.
Import ListNotations.
Open Scope N_scope.

(* factories for Compute and predicates for Filter used by the harness *)
Definition f_const (a d : list N) : list N -> list N * list N := fun _ => (a, d).
Definition f_toggle (x : N) : list N -> list N * list N := fun l => if inb x l then ([], [x]) else ([x], []).
Definition f_compl (u : list N) : list N -> list N * list N := fun l => (filter (fun x => negb (inb x l)) u, l).
Definition p_lt (x : N) : N -> bool := fun e => e <? x.
Definition p_even : N -> bool := N.even.
Definition p_in (l : list N) : N -> bool := fun e => inb e l.

Inductive op :=
| OAdd (e : N) | ODelete (e : N) | OHas (e : N)
| OAddAll (l : list N) | ODeleteAll (l : list N)
| OApply (a d : list N) | OCompute (f : list N -> list N * list N) | OReplace (l : list N)
| OClear | OHasAll (l : list N) | OEquals (l : list N) | OIntersect (l : list N) | OFilter (p : N -> bool)
| OAny | OIs (e : N) | OClone | OSize | OIsEmpty | OToSlice | OForEach (n : nat)
| OEncode | ODecode (b : list N)
(* OrderedMap only *)
| OSet (k v : N) | OGet (k : N) | OMDelete (k : N) | OHead | OTail | OPairs (n : nat) | ORevPairs (n : nat) | OMClone
(* iteration whose consumer mutates the receiver (scripted per invocation): OrderedMap.ForEach/ForEachReverse, Set.ForEach/Range *)
| OForEachRe (rev : bool) (sc : list (list mop * bool)) | OSForEachRe (sc : list (list mop * bool)).

Inductive out :=
| RUnit | RBool (b : bool) | RNat (n : nat) | ROpt (o : option N) | ROptP (o : option (N * N))
| RList (l : list N) | RMut (a d : list N) | RPairs (l : list (N * N)) (b : bool) | RVisit (l : list N) (b : bool)
| RBytes (b : list N) | RDec (r : option nat).

Definition step (s : omap) (o : op) : omap * out :=
  match o with
  | OAdd e => let '(s', b) := s_add s e in (s', RBool b)
  | ODelete e => let '(s', b) := s_delete s e in (s', RBool b)
  | OHas e => (s, RBool (om_has s e))
  | OAddAll l => let '(s', a) := s_addall s l in (s', RList (s_toslice a))
  | ODeleteAll l => let '(s', r) := s_deleteall s l in (s', RList (s_toslice r))
  | OApply a d => let '(s', x, y) := s_apply s a d in (s', RMut (s_toslice x) (s_toslice y))
  | OCompute f => let '(s', x, y) := s_compute s f in (s', RMut (s_toslice x) (s_toslice y))
  | OReplace l => let '(s', r) := s_replace s l in (s', RList (s_toslice r))
  | OClear => (om_clear s, RUnit)
  | OHasAll l => (s, RBool (s_hasall s l))
  | OEquals l => (s, RBool (s_equals s l))
  | OIntersect l => (s, RList (s_toslice (s_intersect s l)))
  | OFilter p => (s, RList (s_toslice (s_filter s p)))
  | OAny => (s, ROpt (s_any s))
  | OIs e => (s, RBool (s_is s e))
  | OClone => (s, RList (s_toslice (s_clone s)))
  | OSize => (s, RNat (om_size s))
  | OIsEmpty => (s, RBool (Nat.eqb (om_size s) 0))
  | OToSlice => (s, RList (s_toslice s))
  | OForEach n => let '(v, b) := visit_until n (s_toslice s) in (s, RVisit v b)
  | OEncode => (s, RBytes (s_encode s))
  | ODecode b => let '(s', r) := s_decode s b in (s', RDec r)
  | OSet k v => let '(s', p) := om_set s k v in (s', ROpt p)
  | OGet k => (s, ROpt (om_get s k))
  | OMDelete k => let '(s', b) := om_delete s k in (s', RBool b)
  | OHead => (s, ROptP (om_head s))
  | OTail => (s, ROptP (om_tail s))
  | OPairs n => let '(v, b) := visit_until n (om_list s) in (s, RPairs v b)
  | ORevPairs n => let '(v, b) := visit_until n (om_rlist s) in (s, RPairs v b)
  | OMClone => (s, RPairs (om_list (om_clone s)) true)
  | OForEachRe rev sc =>
      let '(s', v, b) := (if rev then om_foreachrev_re s sc else om_foreach_re s sc) in (s', RPairs v b)
  | OSForEachRe sc => let '(s', v, b) := om_foreach_re s sc in (s', RVisit (map fst v) b)
  end.

Definition optN_eqb (a b : option N) : bool :=
  match a, b with None, None => true | Some x, Some y => x =? y | _, _ => false end.
Definition pair_eqb (a b : N * N) : bool := (fst a =? fst b) && (snd a =? snd b).
Definition optP_eqb (a b : option (N * N)) : bool :=
  match a, b with None, None => true | Some x, Some y => pair_eqb x y | _, _ => false end.
Fixpoint list_eqb {A} (eq : A -> A -> bool) (a b : list A) : bool :=
  match a, b with
  | [], [] => true
  | x :: a', y :: b' => eq x y && list_eqb eq a' b'
  | _, _ => false
  end.
Definition optnat_eqb (a b : option nat) : bool :=
  match a, b with None, None => true | Some x, Some y => Nat.eqb x y | _, _ => false end.

Definition out_eqb (a b : out) : bool :=
  match a, b with
  | RUnit, RUnit => true
  | RBool x, RBool y => Bool.eqb x y
  | RNat x, RNat y => Nat.eqb x y
  | ROpt x, ROpt y => optN_eqb x y
  | ROptP x, ROptP y => optP_eqb x y
  | RList x, RList y => list_eqb N.eqb x y
  | RMut a d, RMut a' d' => list_eqb N.eqb a a' && list_eqb N.eqb d d'
  | RPairs l b, RPairs l' b' => list_eqb pair_eqb l l' && Bool.eqb b b'
  | RVisit l b, RVisit l' b' => list_eqb N.eqb l l' && Bool.eqb b b'
  | RBytes x, RBytes y => list_eqb N.eqb x y
  | RDec x, RDec y => optnat_eqb x y
  | _, _ => false
  end.

(* observation after every operation: the result, the pairs in iteration order, the reverse iteration, the size *)
Record obs := mkObs { o_out : out; o_pairs : list (N * N); o_size : nat }.

Fixpoint agree (s : omap) (h : list op) (os : list obs) : bool :=
  match h, os with
  | [], [] => true
  | o :: h', ob :: os' =>
      let '(s', r) := step s o in
      out_eqb r (o_out ob) && list_eqb pair_eqb (om_list s') (o_pairs ob)
      && list_eqb pair_eqb (om_rlist s') (rev (o_pairs ob)) && Nat.eqb (om_size s') (o_size ob)
      && agree s' h' os'
  | _, _ => false
  end.

(* SetArithmetic *)
Inductive aop := AAdd (a d : list N) (thr : Z) | ASub (a d : list N) (thr : Z).
Record aobs := mkAObs { a_added : list N; a_deleted : list N }.

Fixpoint agree_arith (c : list (N * Z)) (h : list aop) (os : list aobs) : bool :=
  match h, os with
  | [], [] => true
  | o :: h', ob :: os' =>
      let '(c', a, d) := match o with AAdd x y t => ar_add c x y t | ASub x y t => ar_sub c x y t end in
      list_eqb N.eqb (s_toslice a) (a_added ob) && list_eqb N.eqb (s_toslice d) (a_deleted ob) && agree_arith c' h' os'
  | _, _ => false
  end.

Inductive case :=
| CSet (init : list N) (h : list op) (os : list obs)
| CMap (h : list op) (os : list obs)
| CArith (h : list aop) (os : list aobs).

Definition case_ok (c : case) : bool :=
  match c with
  | CSet init h os => agree (s_new init) h os
  | CMap h os => agree om_empty h os
  | CArith h os => agree_arith [] h os
  end.

Fixpoint mismatches_from (i : nat) (cs : list case) : list nat :=
  match cs with
  | [] => []
  | c :: r => if case_ok c then mismatches_from (S i) r else i :: mismatches_from (S i) r
  end.

Definition mismatches (cs : list case) : list nat := mismatches_from 0 cs.

(* ---------- codec with failing entry codecs (CodecModel.v): SerializableOrderedMap[K,V] / Set[K] for arbitrary K, V ----------
   Keys and values are numbered; ktbl / vtbl give the code of each (None = api.Encode fails). The observed Encode result and
   a list of Decode observations (initial entries of the receiver, input, bytesRead or error, entries afterwards). *)
Inductive encobs := XOk (b : list N) | XErr (e : option cerr).   (* XErr None: an error that does not name its origin *)
Record decobs := mkDObs { d_init : list (N * N); d_input : list N; d_res : option nat; d_pairs : list (N * N) }.

Definition cerr_eqb (a b : cerr) : bool :=
  match a, b with
  | CEKey i, CEKey j => Nat.eqb i j
  | CEVal i, CEVal j => Nat.eqb i j
  | _, _ => false
  end.

Definition encobs_ok (m : encres) (o : encobs) : bool :=
  match m, o with
  | EncOk b, XOk b' => list_eqb N.eqb b b'
  | EncErr _, XErr None => true
  | EncErr e, XErr (Some e') => cerr_eqb e e'
  | _, _ => false
  end.

Definition decobs_ok (ktbl vtbl : codec_tbl) (d : decobs) : bool :=
  let '(s', r) := som_decode (tdec ktbl) (tdec vtbl) (om_of_entries (d_init d)) (d_input d) in
  optnat_eqb r (d_res d) && list_eqb pair_eqb (om_list s') (d_pairs d).

Inductive ccase := CCodec (entries : list (N * N)) (ktbl vtbl : codec_tbl) (e : encobs) (ds : list decobs).

Definition ccase_ok (c : ccase) : bool :=
  match c with
  | CCodec entries ktbl vtbl e ds =>
      encobs_ok (som_encode (tenc ktbl) (tenc vtbl) (om_of_entries entries)) e && forallb (decobs_ok ktbl vtbl) ds
  end.

Fixpoint cmismatches_from (i : nat) (cs : list ccase) : list nat :=
  match cs with
  | [] => []
  | c :: r => if ccase_ok c then cmismatches_from (S i) r else i :: cmismatches_from (S i) r
  end.

Definition cmismatches (cs : list ccase) : list nat := cmismatches_from 0 cs.
