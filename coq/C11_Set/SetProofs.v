(* C11 - ds.Set: every bulk method returns exactly the elements whose membership changed; set algebra. All statements
   are about s_toslice (the duplicate-free element list in first-insertion order) of states satisfying Inv. *)
From Coq Require Import NArith List Bool Lia PeanoNat.
From Verif.C11_Set Require Import Model Refine SetBasics ArithCodec.
Import ListNotations.
Open Scope N_scope.

Notation els := s_toslice.

Lemma fold_e_add_in l : forall s x, In x (fold_left e_add l s) <-> In x s \/ In x l.
Proof.
  induction l as [|e r IH]; simpl; intros s x. tauto. rewrite IH, e_add_in. intuition.
Qed.

Lemma fold_e_del_in l : forall s x, In x (fold_left e_del l s) <-> In x s /\ ~ In x l.
Proof.
  induction l as [|e r IH]; simpl; intros s x. tauto. rewrite IH, e_del_in. intuition.
Qed.

(* ---------- the loops ---------- *)

Lemma addall_fold other : forall s a, Inv s -> Inv a ->
  let r := fold_left addall_step other (s, a) in
  Inv (fst r) /\ Inv (snd r) /\ els (fst r) = fold_left e_add other (els s) /\
  (forall x, In x (els (snd r)) <-> In x (els a) \/ (In x other /\ ~ In x (els s))).
Proof.
  induction other as [|e r IH]; intros s a Is Ia; simpl.
  - repeat split; auto; tauto.
  - destruct (add_spec s e Is) as (I1 & L1 & R1). unfold addall_step at 2.
    destruct (s_add s e) as [s1 isnew]; simpl in *. destruct isnew.
    + destruct (add_spec a e Ia) as (I2 & L2 & _).
      destruct (IH s1 (fst (s_add a e)) I1 I2) as (A & B & C & Dd). repeat split; auto.
      * rewrite C, L1; auto.
      * intros H. apply Dd in H. rewrite L2, L1 in H. rewrite e_add_in in H.
        symmetry in R1. apply negb_true_iff, inb_false in R1.
        destruct H as [[H|H]|[H1 H2]]; auto. subst; auto.
        rewrite e_add_in in H2. right; split; auto.
      * intros H. apply Dd. rewrite L2, L1, !e_add_in.
        symmetry in R1. apply negb_true_iff, inb_false in R1.
        destruct H as [H|[[H|H] H2]]; auto. destruct (N.eq_dec x e); auto. right; split; auto. tauto.
    + destruct (IH s1 a I1 Ia) as (A & B & C & Dd). repeat split; auto.
      * rewrite C, L1; auto.
      * intros H. apply Dd in H. rewrite L1, e_add_in in H. destruct H as [H|[H1 H2]]; auto. right; split; auto.
      * intros H. apply Dd. rewrite L1, e_add_in.
        symmetry in R1. apply negb_false_iff, inb_In in R1.
        destruct H as [H|[[H|H] H2]]; auto. subst; tauto. right; split; auto. intros [X|X]; subst; auto.
Qed.

Lemma deleteall_fold other : forall s a, Inv s -> Inv a ->
  let r := fold_left deleteall_step other (s, a) in
  Inv (fst r) /\ Inv (snd r) /\ els (fst r) = fold_left e_del other (els s) /\
  (forall x, In x (els (snd r)) <-> In x (els a) \/ (In x other /\ In x (els s))).
Proof.
  induction other as [|e r IH]; intros s a Is Ia; simpl.
  - repeat split; auto; tauto.
  - destruct (del_spec s e Is) as (I1 & L1 & R1). unfold deleteall_step at 2. unfold s_delete in *.
    destruct (om_delete s e) as [s1 deleted]; simpl in *. destruct deleted.
    + destruct (add_spec a e Ia) as (I2 & L2 & _).
      destruct (IH s1 (fst (s_add a e)) I1 I2) as (A & B & C & Dd). repeat split; auto.
      * rewrite C, L1; auto.
      * intros H. apply Dd in H. rewrite L2, L1 in H. rewrite e_add_in, e_del_in in H.
        symmetry in R1. apply inb_In in R1.
        destruct H as [[H|H]|[H1 [H2 H3]]]; auto. subst; auto.
      * intros H. apply Dd. rewrite L2, L1, e_add_in, e_del_in.
        destruct H as [H|[[H|H] H2]]; auto. destruct (N.eq_dec x e); auto.
    + destruct (IH s1 a I1 Ia) as (A & B & C & Dd). repeat split; auto.
      * rewrite C, L1; auto.
      * intros H. apply Dd in H. rewrite L1, e_del_in in H. destruct H as [H|[H1 [H2 H3]]]; auto.
      * intros H. apply Dd. rewrite L1, e_del_in.
        symmetry in R1. apply inb_false in R1.
        destruct H as [H|[[H|H] H2]]; auto. subst; tauto. right; repeat split; auto. intros ->; auto.
Qed.

(* ---------- diffs ---------- *)

Theorem addall_diff s other : Inv s ->
  let '(s', added) := s_addall s other in
  Inv s' /\ Inv added /\ els s' = fold_left e_add other (els s) /\
  (forall x, In x (els s') <-> In x (els s) \/ In x other) /\
  (forall x, In x (els added) <-> ~ In x (els s) /\ In x (els s')).
Proof.
  intros Is. unfold s_addall. destruct (addall_fold other s om_empty Is (proj1 empty_toslice)) as (A & B & C & Dd).
  destruct (fold_left addall_step other (s, om_empty)) as [s' added]; simpl in *.
  repeat split; auto.
  - rewrite C, fold_e_add_in; auto.
  - rewrite C, fold_e_add_in; auto.
  - apply Dd in H. destruct H as [[]|[H1 H2]]; auto.
  - apply Dd in H. rewrite C, fold_e_add_in. destruct H as [[]|[H1 H2]]; auto.
  - intros [H1 H2]. apply Dd. rewrite C, fold_e_add_in in H2. right. tauto.
Qed.

Theorem deleteall_diff s other : Inv s ->
  let '(s', removed) := s_deleteall s other in
  Inv s' /\ Inv removed /\ els s' = fold_left e_del other (els s) /\
  (forall x, In x (els s') <-> In x (els s) /\ ~ In x other) /\
  (forall x, In x (els removed) <-> In x (els s) /\ ~ In x (els s')).
Proof.
  intros Is. unfold s_deleteall. destruct (deleteall_fold other s om_empty Is (proj1 empty_toslice)) as (A & B & C & Dd).
  destruct (fold_left deleteall_step other (s, om_empty)) as [s' removed]; simpl in *.
  repeat split; auto.
  - rewrite C, fold_e_del_in in H; tauto.
  - rewrite C, fold_e_del_in in H; tauto.
  - rewrite C, fold_e_del_in; auto.
  - apply Dd in H. destruct H as [[]|[H1 H2]]; auto.
  - apply Dd in H. rewrite C, fold_e_del_in. destruct H as [[]|[H1 H2]]; tauto.
  - intros [H1 H2]. apply Dd. rewrite C, fold_e_del_in in H2. right. split; auto.
    destruct (in_dec N.eq_dec x other); auto. tauto.
Qed.

(* apply: exact description for arbitrary mutations ... *)
Theorem apply_spec s adds dels : Inv s ->
  let '(s', a, r) := s_apply s adds dels in
  Inv s' /\ Inv a /\ Inv r /\
  els s' = fold_left e_del dels (fold_left e_add adds (els s)) /\
  (forall x, In x (els a) <-> In x adds /\ ~ In x (els s)) /\
  (forall x, In x (els r) <-> In x dels /\ (In x (els s) \/ In x adds)) /\
  (* the returned mutations replay the state change *)
  (forall x, In x (els s') <-> (In x (els s) \/ In x (els a)) /\ ~ In x (els r)).
Proof.
  intros Is. unfold s_apply. pose proof (addall_diff s adds Is) as H1.
  destruct (s_addall s adds) as [s1 a]. destruct H1 as (I1 & Ia & L1 & M1 & D1).
  pose proof (deleteall_diff s1 dels I1) as H2.
  destruct (s_deleteall s1 dels) as [s2 r]. destruct H2 as (I2 & Ir & L2 & M2 & D2).
  split; auto. split; auto. split; auto. split. rewrite L2, L1; auto.
  assert (EA : forall x, In x (els a) <-> In x adds /\ ~ In x (els s)).
  { intros x. rewrite D1, M1. tauto. }
  assert (ER : forall x, In x (els r) <-> In x dels /\ (In x (els s) \/ In x adds)).
  { intros x. rewrite D2, M2, M1. destruct (in_dec N.eq_dec x dels); tauto. }
  split; auto. split; auto.
  intros x. rewrite M2, M1, EA, ER. destruct (in_dec N.eq_dec x (els s)); tauto.
Qed.

(* ... and, for mutations whose added and deleted sets are disjoint, exactly the membership changes *)
Theorem apply_diff s adds dels : Inv s -> (forall x, In x adds -> ~ In x dels) ->
  let '(s', a, r) := s_apply s adds dels in
  (forall x, In x (els a) <-> ~ In x (els s) /\ In x (els s')) /\
  (forall x, In x (els r) <-> In x (els s) /\ ~ In x (els s')).
Proof.
  intros Is Dj. pose proof (apply_spec s adds dels Is) as H.
  destruct (s_apply s adds dels) as [[s' a] r]. destruct H as (_ & _ & _ & L & EA & ER & _).
  assert (M : forall x, In x (els s') <-> (In x (els s) \/ In x adds) /\ ~ In x dels).
  { intros x. rewrite L, fold_e_del_in, fold_e_add_in. tauto. }
  split; intros x.
  - rewrite EA, M. specialize (Dj x). tauto.
  - rewrite ER, M. specialize (Dj x). destruct (in_dec N.eq_dec x dels); tauto.
Qed.

(* overlap: the element is reported as added and as deleted although its membership did not change *)
Theorem apply_overlap_witness :
  let '(s', a, r) := s_apply om_empty [1] [1] in els s' = [] /\ els a = [1] /\ els r = [1].
Proof. vm_compute. auto. Qed.

Theorem compute_diff s f : Inv s -> (forall x, In x (fst (f (els s))) -> ~ In x (snd (f (els s)))) ->
  let '(s', a, r) := s_compute s f in
  (forall x, In x (els a) <-> ~ In x (els s) /\ In x (els s')) /\
  (forall x, In x (els r) <-> In x (els s) /\ ~ In x (els s')).
Proof.
  intros Is Dj. unfold s_compute. destruct (f (els s)) as [adds dels]. apply apply_diff; auto.
Qed.

Lemma setall_fold l : forall s, Inv s ->
  Inv (fold_left (fun s e => fst (om_set s e 0)) l s) /\
  els (fold_left (fun s e => fst (om_set s e 0)) l s) = fold_left e_add l (els s).
Proof.
  induction l as [|e r IH]; intros s Is; simpl; auto.
  destruct (setkey_spec s e Is) as (I1 & L1). destruct (IH _ I1) as (A & B). split; auto. rewrite B, L1; auto.
Qed.

Theorem replace_diff s elems : Inv s ->
  let '(s', removed) := s_replace s elems in
  Inv s' /\ Inv removed /\ els s' = fold_left e_add elems [] /\
  (forall x, In x (els s') <-> In x elems) /\
  (forall x, In x (els removed) <-> In x (els s) /\ ~ In x (els s')).
Proof.
  intros Is. unfold s_replace.
  destruct (clear_toslice s) as (Ic & Lc).
  destruct (setall_fold elems (om_clear s) Ic) as (I2 & L2). rewrite Lc in L2.
  set (s2 := fold_left (fun s e => fst (om_set s e 0)) elems (om_clear s)) in *.
  assert (M2 : forall x, In x (els s2) <-> In x elems).
  { intros x. rewrite L2, fold_e_add_in. simpl; tauto. }
  assert (F : forall prev r, Inv r ->
     Inv (fold_left (replace_step s2) prev r) /\
     forall x, In x (els (fold_left (replace_step s2) prev r)) <-> In x (els r) \/ (In x prev /\ ~ In x (els s2))).
  { induction prev as [|p prev IH]; intros r Ir; simpl. split; auto; tauto.
    unfold replace_step at 2 4. rewrite (has_toslice s2 p I2).
    destruct (inb p (els s2)) eqn:E.
    - destruct (IH r Ir) as (A & B). split; auto. intros x. rewrite B. apply inb_In in E.
      split; [tauto|]. intros [H|[[H|H] H2]]; auto. subst; tauto.
    - destruct (add_spec r p Ir) as (I3 & L3 & _). destruct (IH _ I3) as (A & B). split; auto.
      intros x. rewrite B, L3, e_add_in. apply inb_false in E.
      split; [intros [[H|H]|H]; subst; tauto|]. intros [H|[[H|H] H2]]; subst; auto. }
  destruct (F (els s) om_empty (proj1 empty_toslice)) as (A & B).
  repeat split; auto.
  - apply M2. - apply M2.
  - apply B in H. destruct H as [[]|[H _]]; auto.
  - apply B in H. destruct H as [[]|[_ H]]; auto.
  - intros [H1 H2]. apply B. right; auto.
Qed.

(* ---------- algebra ---------- *)

Theorem hasall_incl s other : Inv s -> (s_hasall s other = true <-> forall x, In x other -> In x (els s)).
Proof.
  intros Is. unfold s_hasall. rewrite forallb_forall. split; intros H x Hx.
  - apply inb_In. rewrite <- has_toslice; auto.
  - rewrite has_toslice; auto. apply inb_In; auto.
Qed.

Theorem equals_same_elements s other : Inv s -> NoDup other ->
  (s_equals s other = true <-> forall x, In x (els s) <-> In x other).
Proof.
  intros Is ND. unfold s_equals. rewrite andb_true_iff, Nat.eqb_eq, hasall_incl, size_toslice by auto.
  pose proof (toslice_nodup s Is) as NS. split.
  - intros [L H] x. split; auto. apply (NoDup_length_incl ND). lia. exact H.
  - intros H. split. 2: intros x; apply H.
    apply Nat.le_antisymm; apply NoDup_incl_length; auto; intros x; apply H.
Qed.

Lemma filter_fold (p : N -> bool) (l : list N) : forall f, Inv f ->
  Inv (fold_left (fun f e => if p e then fst (s_add f e) else f) l f) /\
  els (fold_left (fun f e => if p e then fst (s_add f e) else f) l f) = fold_left e_add (filter p l) (els f).
Proof.
  induction l as [|e r IH]; intros f If; simpl; auto.
  destruct (p e); simpl; auto. destruct (add_spec f e If) as (I1 & L1 & _).
  destruct (IH _ I1) as (A & B). split; auto. rewrite B, L1; auto.
Qed.

Theorem filter_spec s p : Inv s -> Inv (s_filter s p) /\ els (s_filter s p) = filter p (els s).
Proof.
  intros Is. unfold s_filter. destruct (filter_fold p (els s) om_empty (proj1 empty_toslice)) as (A & B).
  split; auto. rewrite B. change (els om_empty) with (@nil N).
  apply (fold_e_add_nodup (filter p (els s)) []). simpl. apply NoDup_filter. apply toslice_nodup; auto.
Qed.

Theorem intersect_spec s other : Inv s ->
  els (s_intersect s other) = filter (fun e => inb e other) (els s) /\
  (forall x, In x (els (s_intersect s other)) <-> In x (els s) /\ In x other).
Proof.
  intros Is. unfold s_intersect. destruct (filter_spec s (fun e => inb e other) Is) as (_ & L). split; auto.
  intros x. rewrite L, filter_In, inb_In. tauto.
Qed.

Theorem any_first s : s_any s = hd_error (els s).
Proof. unfold s_any, s_toslice. destruct (om_list s) as [|[k v] r]; auto. Qed.

Theorem is_singleton s e : Inv s -> (s_is s e = true <-> els s = [e]).
Proof.
  intros Is. unfold s_is. rewrite andb_true_iff, Nat.eqb_eq, size_toslice, has_toslice, inb_In by auto.
  destruct (els s) as [|a [|b r]]; simpl; split; try (intros [H1 H2]; try discriminate; try tauto); try discriminate.
  - destruct H2 as [->|[]]; auto.
  - intros H; inversion H; auto.
Qed.

Lemma addall_fresh other : forall s a, Inv s -> Inv a -> NoDup other -> (forall x, In x other -> ~ In x (els s)) ->
  els (snd (fold_left addall_step other (s, a))) = fold_left e_add other (els a).
Proof.
  induction other as [|e r IH]; intros s a Is Ia ND Fr; simpl; auto.
  inversion ND; subst. destruct (add_spec s e Is) as (I1 & L1 & R1).
  destruct (s_add s e) as [s1 isnew]; simpl in *.
  assert (isnew = true). { rewrite R1. apply negb_true_iff, inb_false. apply Fr; auto. }
  rewrite H. destruct (add_spec a e Ia) as (I2 & L2 & _). rewrite IH; auto. rewrite L2; auto.
  intros x Hx. rewrite L1, e_add_in. intros [H0|H0]; subst; auto. apply (Fr x); auto.
Qed.

Theorem clone_spec s : Inv s -> els (s_clone s) = els s.
Proof.
  intros Is. unfold s_clone, s_addall. rewrite addall_fresh; auto using (proj1 empty_toslice).
  - change (els om_empty) with (@nil N). apply (fold_e_add_nodup (els s) []). simpl. apply toslice_nodup; auto.
  - apply toslice_nodup; auto.
Qed.

(* ---------- all histories: Inv is an invariant of every operation of the interface ---------- *)

Theorem new_inv l : Inv (s_new l) /\ els (s_new l) = fold_left e_add l [].
Proof. unfold s_new. apply (setall_fold l om_empty (proj1 empty_toslice)). Qed.
