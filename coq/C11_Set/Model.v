(* C11 - executable model of ds/orderedmap/orderedmap.go (pointer level: element store, head/tail/next/prev,
   dictionary, size) and of ds/set_impl.go on top of it (set, readableSet, setMutations, setArithmetic) and of
   ds/serializableorderedmap Encode/Decode for uint32 keys / types.Empty values.
   Keys and values are N. A ds.Set is an ordered map whose values are all 0 (types.Void).
   The model mirrors the code after the fix: commits d322c7c (Replace) and c86f6c5 (DeleteAll). No proofs here. *)
From Coq Require Import NArith ZArith List Bool.
Import ListNotations.
Open Scope N_scope.

(* ---------- element store ---------- *)

Record node := mkNode { nkey : N; nval : N; nprev : option nat; nnext : option nat }.

Definition set_val (v : N) (n : node) := mkNode (nkey n) v (nprev n) (nnext n).
Definition set_prev (p : option nat) (n : node) := mkNode (nkey n) (nval n) p (nnext n).
Definition set_next (x : option nat) (n : node) := mkNode (nkey n) (nval n) (nprev n) x.

(* addresses are indices into the store; elements are never freed (a Go iterator may still hold a removed one) *)
Fixpoint upd (m : list node) (a : nat) (f : node -> node) : list node :=
  match m, a with
  | [], _ => []
  | x :: r, O => f x :: r
  | x :: r, S a' => x :: upd r a' f
  end.

(* ---------- dictionary (shrinkingmap K -> *Element) ---------- *)

Fixpoint dget (d : list (N * nat)) (k : N) : option nat :=
  match d with
  | [] => None
  | (k', a) :: r => if k =? k' then Some a else dget r k
  end.

Fixpoint ddel (d : list (N * nat)) (k : N) : list (N * nat) :=
  match d with
  | [] => []
  | (k', a) :: r => if k =? k' then ddel r k else (k', a) :: ddel r k
  end.

Definition dset (d : list (N * nat)) (k : N) (a : nat) : list (N * nat) := (k, a) :: ddel d k.

(* ---------- OrderedMap ---------- *)

Record omap := mkOM { mem : list node; head : option nat; tail : option nat; dict : list (N * nat); size : nat }.

Definition om_empty : omap := mkOM [] None None [] 0.

Definition om_has (o : omap) (k : N) : bool := match dget (dict o) k with Some _ => true | None => false end.

Definition om_get (o : omap) (k : N) : option N :=
  match dget (dict o) k with
  | Some a => option_map nval (nth_error (mem o) a)
  | None => None
  end.

Definition om_size (o : omap) : nat := size o.

Definition om_head (o : omap) : option (N * N) :=
  match head o with
  | Some a => option_map (fun n => (nkey n, nval n)) (nth_error (mem o) a)
  | None => None
  end.

Definition om_tail (o : omap) : option (N * N) :=
  match tail o with
  | Some a => option_map (fun n => (nkey n, nval n)) (nth_error (mem o) a)
  | None => None
  end.

(* Set: returns the new map and the previous value (None = the key was created) *)
Definition om_set (o : omap) (k v : N) : omap * option N :=
  match dget (dict o) k with
  | Some a =>
      (mkOM (upd (mem o) a (set_val v)) (head o) (tail o) (dict o) (size o),
       match nth_error (mem o) a with Some n => Some (nval n) | None => Some 0 end)
  | None =>
      let a := length (mem o) in
      match head o, tail o with
      | Some h, Some t =>
          (mkOM (upd (mem o) t (set_next (Some a)) ++ [mkNode k v (Some t) None]) (Some h) (Some a)
                (dset (dict o) k a) (S (size o)), None)
      | _, _ =>
          (mkOM (mem o ++ [mkNode k v None None]) (Some a) (Some a) (dset (dict o) k a) (S (size o)), None)
      end
  end.

(* Delete: the unlocked Get pre-check and the locked section agree when run without interference *)
Definition om_delete (o : omap) (k : N) : omap * bool :=
  match dget (dict o) k with
  | None => (o, false)
  | Some a =>
      match nth_error (mem o) a with
      | None => (o, false)
      | Some n =>
          let m1 := match nprev n with Some p => upd (mem o) p (set_next (nnext n)) | None => mem o end in
          let h1 := match nprev n with Some _ => head o | None => nnext n end in
          let m2 := match nnext n with Some x => upd m1 x (set_prev (nprev n)) | None => m1 end in
          let t1 := match nnext n with Some _ => tail o | None => nprev n end in
          (mkOM m2 h1 t1 (ddel (dict o) k) (pred (size o)), true)
      end
  end.

Definition om_clear (o : omap) : omap := mkOM (mem o) None None [] 0.

(* ForEach / ForEachReverse follow next / prev pointers from head / tail *)
Fixpoint walk (next : node -> option nat) (m : list node) (fuel : nat) (cur : option nat) : list (N * N) :=
  match fuel, cur with
  | S f, Some a =>
      match nth_error m a with
      | Some n => (nkey n, nval n) :: walk next m f (next n)
      | None => []
      end
  | _, _ => []
  end.

Definition om_list (o : omap) : list (N * N) := walk nnext (mem o) (length (mem o)) (head o).
Definition om_rlist (o : omap) : list (N * N) := walk nprev (mem o) (length (mem o)) (tail o).

(* a consumer that returns false at its n-th call (n = 0: never): visited entries and the result of ForEach *)
Definition visit_until {A} (n : nat) (l : list A) : list A * bool :=
  match n with
  | O => (l, true)
  | S _ => if Nat.leb n (length l) then (firstn n l, false) else (l, true)
  end.

(* ---------- re-entrant iteration: the consumer mutates the map it is iterating ----------
   ForEach/ForEachReverse keep a pointer to the current element outside the lock, call the consumer, and only then
   read currentEntry.next / .prev (under a fresh RLock). A consumer (or another goroutine between two steps) may
   Set / Delete / Clear in the meantime; a removed element keeps its prev/next pointers, so the walk continues from it.
   A consumer is scripted: the i-th invocation runs the i-th list of mutations and returns the i-th flag; after the
   end of the script the consumer mutates nothing and returns true. *)
Inductive mop := MSet (k v : N) | MDel (k : N) | MClear.

Definition run_mop (o : omap) (m : mop) : omap :=
  match m with
  | MSet k v => fst (om_set o k v)
  | MDel k => fst (om_delete o k)
  | MClear => om_clear o
  end.

Definition run_mops (o : omap) (l : list mop) : omap := fold_left run_mop l o.

Definition ptr_of (next : node -> option nat) (m : list node) (a : nat) : option nat :=
  match nth_error m a with Some n => next n | None => None end.

Fixpoint foreach_re (next : node -> option nat) (o : omap) (cur : option nat) (script : list (list mop * bool))
  : omap * list (N * N) * bool :=
  match script with
  | [] => (o, walk next (mem o) (length (mem o)) cur, true)
  | (ops, cont) :: rest =>
      match cur with
      | None => (o, [], true)
      | Some a =>
          match nth_error (mem o) a with
          | None => (o, [], true)
          | Some n =>
              let o1 := run_mops o ops in                       (* consumer(currentEntry.key, currentEntry.value) *)
              if cont then
                let '(o2, vis, b) := foreach_re next o1 (ptr_of next (mem o1) a) rest in   (* currentEntry.next, read afterwards *)
                (o2, (nkey n, nval n) :: vis, b)
              else (o1, [(nkey n, nval n)], false)
          end
      end
  end.

Definition om_foreach_re (o : omap) (script : list (list mop * bool)) := foreach_re nnext o (head o) script.
Definition om_foreachrev_re (o : omap) (script : list (list mop * bool)) := foreach_re nprev o (tail o) script.

Definition om_clone (o : omap) : omap := fold_left (fun c kv => fst (om_set c (fst kv) (snd kv))) (om_list o) om_empty.

(* ---------- set / readableSet ---------- *)

Definition s_new (l : list N) : omap := fold_left (fun s e => fst (om_set s e 0)) l om_empty.

Definition s_toslice (s : omap) : list N := map fst (om_list s).

Definition s_add (s : omap) (e : N) : omap * bool :=
  let '(s', prev) := om_set s e 0 in (s', match prev with None => true | Some _ => false end).

(* the loop of AddAll and of the first half of apply: (set, addedElements) *)
Definition addall_step (st : omap * omap) (e : N) : omap * omap :=
  let '(s, added) := st in
  let '(s', isnew) := s_add s e in
  if isnew then (s', fst (s_add added e)) else (s', added).

Definition s_addall (s : omap) (other : list N) : omap * omap := fold_left addall_step other (s, om_empty).

Definition s_delete (s : omap) (e : N) : omap * bool := om_delete s e.

Definition deleteall_step (st : omap * omap) (e : N) : omap * omap :=
  let '(s, removed) := st in
  let '(s', deleted) := om_delete s e in
  if deleted then (s', fst (s_add removed e)) else (s', removed).

Definition s_deleteall (s : omap) (other : list N) : omap * omap := fold_left deleteall_step other (s, om_empty).

(* apply(mutations): (set, applied added, applied deleted) *)
Definition s_apply (s : omap) (adds dels : list N) : omap * omap * omap :=
  let '(s1, a) := s_addall s adds in
  let '(s2, r) := s_deleteall s1 dels in
  (s2, a, r).

(* Compute: the factory sees the read-only view; here it receives the slice of the current elements *)
Definition s_compute (s : omap) (f : list N -> list N * list N) : omap * omap * omap :=
  let '(adds, dels) := f (s_toslice s) in s_apply s adds dels.

Definition replace_step (s2 : omap) (r : omap) (p : N) : omap := if om_has s2 p then r else fst (s_add r p).

Definition s_replace (s : omap) (elems : list N) : omap * omap :=
  let prev := s_toslice s in
  let s1 := om_clear s in
  let s2 := fold_left (fun s e => fst (om_set s e 0)) elems s1 in
  (s2, fold_left (replace_step s2) prev om_empty).

Definition inb (e : N) (l : list N) : bool := existsb (N.eqb e) l.

Definition s_hasall (s : omap) (other : list N) : bool := forallb (om_has s) other.

Definition s_filter (s : omap) (p : N -> bool) : omap :=
  fold_left (fun f e => if p e then fst (s_add f e) else f) (s_toslice s) om_empty.

Definition s_intersect (s : omap) (other : list N) : omap := s_filter s (fun e => inb e other).

(* other is a different object: Size equal and HasAll *)
Definition s_equals (s : omap) (other : list N) : bool := Nat.eqb (om_size s) (length other) && s_hasall s other.

Definition s_any (s : omap) : option N := match om_list s with [] => None | (k, _) :: _ => Some k end.

Definition s_is (s : omap) (e : N) : bool := Nat.eqb (om_size s) 1 && om_has s e.

(* Clone returns NewSet().AddAll(r), i.e. the set of added elements *)
Definition s_clone (s : omap) : omap := snd (s_addall om_empty (s_toslice s)).

(* ---------- codec: uint32 size, then per entry the key (uint32 little endian) and the empty value ---------- *)

Definition enc_u32 (n : N) : list N :=
  [n mod 256; (n / 256) mod 256; (n / 65536) mod 256; (n / 16777216) mod 256].

Definition dec_u32 (b : list N) : option (N * list N) :=
  match b with
  | b0 :: b1 :: b2 :: b3 :: r => Some (b0 + 256 * b1 + 65536 * b2 + 16777216 * b3, r)
  | _ => None
  end.

Definition s_encode (s : omap) : list N := enc_u32 (N.of_nat (om_size s)) ++ flat_map enc_u32 (s_toslice s).

(* Decode inserts entry by entry; on a short input the entries decoded so far stay and 0, err is returned *)
Fixpoint dec_entries (s : omap) (n : nat) (b : list N) (read : nat) : omap * option nat :=
  match n with
  | O => (s, Some read)
  | S n' =>
      match dec_u32 b with
      | Some (k, r) => dec_entries (fst (om_set s k 0)) n' r (read + 4)
      | None => (s, None)
      end
  end.

Definition s_decode (s : omap) (b : list N) : omap * option nat :=
  match dec_u32 b with
  | Some (n, r) => dec_entries s (N.to_nat n) r 4
  | None => (s, None)
  end.

(* ---------- setArithmetic ---------- *)

Fixpoint cget (c : list (N * Z)) (e : N) : Z :=
  match c with
  | [] => 0%Z
  | (e', v) :: r => if e =? e' then v else cget r e
  end.

Definition cset (c : list (N * Z)) (e : N) (v : Z) : list (N * Z) := (e, v) :: c.

(* elementsCollector(targetSet, opposingSet, increase, threshold)(element) *)
Definition collect (increase : bool) (thr : Z) (st : list (N * Z) * omap * omap) (e : N) : list (N * Z) * omap * omap :=
  let '(c, target, opposing) := st in
  let v := (cget c e + (if increase then 1 else -1))%Z in
  let c' := cset c e v in
  if Z.eqb v (if increase then thr else thr - 1)%Z then
    let '(opp', deleted) := s_delete opposing e in
    if deleted then (c', target, opp') else (c', fst (s_add target e), opp')
  else (c', target, opposing).

Definition swap3 (st : list (N * Z) * omap * omap) := let '(c, a, b) := st in (c, b, a).

(* Add(mutations, threshold): (counts, net added, net deleted) *)
Definition ar_add (c : list (N * Z)) (adds dels : list N) (thr : Z) : list (N * Z) * omap * omap :=
  let st1 := fold_left (collect true thr) adds (c, om_empty, om_empty) in       (* target = added, opposing = deleted *)
  swap3 (fold_left (collect false thr) dels (swap3 st1)).                         (* target = deleted, opposing = added *)

Definition ar_sub (c : list (N * Z)) (adds dels : list N) (thr : Z) : list (N * Z) * omap * omap :=
  let st1 := fold_left (collect false thr) adds (c, om_empty, om_empty) in      (* (c, deleted, added) *)
  fold_left (collect true thr) dels (swap3 st1).                                  (* (c, added, deleted) *)

(* ---------- list-level specification: duplicate-free list in first-insertion order ---------- *)

Fixpoint l_get (l : list (N * N)) (k : N) : option N :=
  match l with
  | [] => None
  | (k', v) :: r => if k =? k' then Some v else l_get r k
  end.

Fixpoint l_set (l : list (N * N)) (k v : N) : list (N * N) :=
  match l with
  | [] => [(k, v)]
  | (k', v') :: r => if k =? k' then (k', v) :: r else (k', v') :: l_set r k v
  end.

Fixpoint l_del (l : list (N * N)) (k : N) : list (N * N) :=
  match l with
  | [] => []
  | (k', v') :: r => if k =? k' then r else (k', v') :: l_del r k
  end.

(* sets: lists of elements *)
Definition e_add (l : list N) (e : N) : list N := if inb e l then l else l ++ [e].
Definition e_del (l : list N) (e : N) : list N := filter (fun x => negb (x =? e)) l.
