(* C11 - the pointer-level OrderedMap refines the list-level specification (association list in first-insertion
   order). Inv o: the live elements form a well-formed doubly linked chain, the dictionary indexes exactly them. *)
From Coq Require Import NArith List Bool Lia PeanoNat.
From Verif.C11_Set Require Import Model.
Import ListNotations.
Open Scope N_scope.

Definition dnode := mkNode 0 0 None None.
Definition nd (m : list node) (a : nat) : node := nth a m dnode.
Definition kv (n : node) : N * N := (nkey n, nval n).
Definition absl (m : list node) (l : list nat) : list (N * N) := map (fun a => kv (nd m a)) l.

Definition hd_or (l : list nat) (n : option nat) : option nat := match l with [] => n | b :: _ => Some b end.
Definition last_or (p : option nat) (l : list nat) : option nat := fold_left (fun _ a => Some a) l p.

Fixpoint seg (m : list node) (p : option nat) (l : list nat) (n : option nat) : Prop :=
  match l with
  | [] => True
  | a :: r => (a < length m)%nat /\ nprev (nd m a) = p /\ nnext (nd m a) = hd_or r n /\ seg m (Some a) r n
  end.

Fixpoint find_addr (m : list node) (l : list nat) (k : N) : option nat :=
  match l with
  | [] => None
  | a :: r => if k =? nkey (nd m a) then Some a else find_addr m r k
  end.

Record InvL (o : omap) (l : list nat) : Prop := {
  i_nodup : NoDup l;
  i_seg : seg (mem o) None l None;
  i_head : head o = hd_or l None;
  i_tail : tail o = last_or None l;
  i_size : size o = length l;
  i_keys : NoDup (map fst (absl (mem o) l));
  i_dict : forall k, dget (dict o) k = find_addr (mem o) l k }.

Definition Inv (o : omap) : Prop := exists l, InvL o l.

Lemma NoDup_app_snoc {A} (l : list A) a : NoDup l -> ~ In a l -> NoDup (l ++ [a]).
Proof.
  intros ND NI. induction ND; simpl. constructor; auto; constructor.
  constructor. rewrite in_app_iff. simpl. intros [H1|[H1|[]]]; subst; auto. apply NI; left; auto.
  apply IHND. intros H1; apply NI; right; auto.
Qed.

Lemma NoDup_app_r {A} (l1 l2 : list A) : NoDup (l1 ++ l2) -> NoDup l2.
Proof. induction l1; simpl; auto. intros H; inversion H; auto. Qed.

(* ---------- store ---------- *)

Lemma length_upd m a f : length (upd m a f) = length m.
Proof. revert a; induction m; intros [|a']; simpl; auto. Qed.

Lemma nd_upd_same m a f : (a < length m)%nat -> nd (upd m a f) a = f (nd m a).
Proof. unfold nd. revert a; induction m; intros [|a'] H; simpl in *; try lia; auto. apply IHm; lia. Qed.

Lemma nd_upd_other m a b f : a <> b -> nd (upd m a f) b = nd m b.
Proof.
  unfold nd. revert a b; induction m; intros [|a'] [|b'] H; simpl; auto; try congruence.
Qed.

Lemma nth_error_nd m a : (a < length m)%nat -> nth_error m a = Some (nd m a).
Proof. intros; apply nth_error_nth'; auto. Qed.

Lemma nd_app1 m x a : (a < length m)%nat -> nd (m ++ x) a = nd m a.
Proof. intros; unfold nd; apply app_nth1; auto. Qed.

Lemma nd_app_new m x : nd (m ++ [x]) (length m) = x.
Proof. unfold nd. rewrite app_nth2, Nat.sub_diag; auto. Qed.

Definition keeps_kv (f : node -> node) := forall x, nkey (f x) = nkey x /\ nval (f x) = nval x.
Definition keeps_ptr (f : node -> node) := forall x, nprev (f x) = nprev x /\ nnext (f x) = nnext x.

Lemma kv_set_next x : keeps_kv (set_next x). Proof. intros []; simpl; auto. Qed.
Lemma kv_set_prev x : keeps_kv (set_prev x). Proof. intros []; simpl; auto. Qed.
Lemma ptr_set_val v : keeps_ptr (set_val v). Proof. intros []; simpl; auto. Qed.

Lemma nd_upd_kv m a f b : keeps_kv f -> kv (nd (upd m a f) b) = kv (nd m b).
Proof.
  intros K. destruct (Nat.eq_dec a b) as [->|E].
  - destruct (Nat.lt_ge_cases b (length m)).
    + rewrite nd_upd_same by auto. unfold kv. destruct (K (nd m b)) as [-> ->]; auto.
    + unfold nd. rewrite !nth_overflow; auto. rewrite length_upd; auto.
  - rewrite nd_upd_other; auto.
Qed.

Lemma absl_upd_kv m a f l : keeps_kv f -> absl (upd m a f) l = absl m l.
Proof. intros K. unfold absl. apply map_ext. intros; apply nd_upd_kv; auto. Qed.

Lemma nkey_kv n : nkey n = fst (kv n). Proof. reflexivity. Qed.

Lemma find_addr_ext m m' l k : (forall a, In a l -> nkey (nd m' a) = nkey (nd m a)) -> find_addr m' l k = find_addr m l k.
Proof.
  induction l; simpl; intros H; auto. rewrite H by auto. rewrite IHl; auto.
Qed.

Lemma find_addr_upd_kv m a f l k : keeps_kv f -> find_addr (upd m a f) l k = find_addr m l k.
Proof. intros K; apply find_addr_ext; intros. rewrite !nkey_kv, nd_upd_kv; auto. Qed.

(* ---------- segments ---------- *)

Lemma hd_or_app l1 l2 n : hd_or (l1 ++ l2) n = hd_or l1 (hd_or l2 n).
Proof. destruct l1; auto. Qed.

Lemma last_or_app p l1 l2 : last_or p (l1 ++ l2) = last_or (last_or p l1) l2.
Proof. unfold last_or; apply fold_left_app. Qed.

Lemma last_or_cons p a l : last_or p (a :: l) = last_or (Some a) l.
Proof. reflexivity. Qed.

Lemma last_or_nonempty p q l : l <> [] -> last_or p l = last_or q l.
Proof. destruct l; [congruence|]. reflexivity. Qed.

Lemma seg_app m p l1 l2 n :
  seg m p (l1 ++ l2) n <-> seg m p l1 (hd_or l2 n) /\ seg m (last_or p l1) l2 n.
Proof.
  revert p; induction l1 as [|a r IH]; intros p; cbn [seg app].
  - unfold last_or; simpl. tauto.
  - rewrite hd_or_app, IH. rewrite last_or_cons. tauto.
Qed.

Lemma seg_bound m p l n : seg m p l n -> forall a, In a l -> (a < length m)%nat.
Proof.
  revert p; induction l; simpl; intros p H b Hb; [tauto|].
  destruct H as (H1 & _ & _ & H4). destruct Hb as [<-|Hb]; auto. eapply IHl; eauto.
Qed.

Lemma seg_ext m m' p l n :
  length m' = length m ->
  (forall a, In a l -> nprev (nd m' a) = nprev (nd m a) /\ nnext (nd m' a) = nnext (nd m a)) ->
  seg m p l n -> seg m' p l n.
Proof.
  intros L. revert p; induction l; simpl; intros p H S; auto.
  destruct S as (S1 & S2 & S3 & S4). destruct (H a (or_introl eq_refl)) as [-> ->]. rewrite L.
  repeat split; auto.
Qed.

Lemma seg_upd_out m a f p l n : ~ In a l -> seg m p l n -> seg (upd m a f) p l n.
Proof.
  intros NI. apply seg_ext. apply length_upd.
  intros b Hb. rewrite nd_upd_other; auto. intros ->; auto.
Qed.

Lemma seg_upd_ptr m a f p l n : keeps_ptr f -> seg m p l n -> seg (upd m a f) p l n.
Proof.
  intros K. apply seg_ext. apply length_upd.
  intros b Hb. destruct (Nat.eq_dec a b) as [->|E].
  - destruct (Nat.lt_ge_cases b (length m)).
    + rewrite nd_upd_same by auto. apply K.
    + unfold nd. rewrite !nth_overflow; auto. rewrite length_upd; auto.
  - rewrite nd_upd_other; auto.
Qed.

Lemma seg_app_mem m x p l n : seg m p l n -> seg (m ++ x) p l n.
Proof.
  revert p; induction l; simpl; intros p S; auto.
  destruct S as (S1 & S2 & S3 & S4). rewrite nd_app1 by auto. rewrite app_length. repeat split; auto. lia.
Qed.

Lemma seg_set_next_last m p l t n x :
  ~ In t l -> seg m p (l ++ [t]) n -> seg (upd m t (set_next x)) p (l ++ [t]) x.
Proof.
  intros NI S. apply seg_app in S. destruct S as [S1 S2]. apply seg_app. split.
  - apply seg_upd_out; auto.
  - simpl in *. destruct S2 as (S21 & S22 & S23 & _). rewrite length_upd, nd_upd_same by auto.
    destruct (nd m t); simpl in *. auto.
Qed.

Lemma seg_set_prev_first m p b r n q :
  ~ In b r -> seg m p (b :: r) n -> seg (upd m b (set_prev q)) q (b :: r) n.
Proof.
  intros NI S. simpl in *. destruct S as (S1 & S2 & S3 & S4).
  rewrite length_upd, nd_upd_same by auto. destruct (nd m b) eqn:E; simpl in *. repeat split; auto.
  apply seg_upd_out; auto.
Qed.

(* ---------- walking ---------- *)

Lemma walk_fwd m p l fuel : seg m p l None -> (length l <= fuel)%nat -> walk nnext m fuel (hd_or l None) = absl m l.
Proof.
  revert p fuel; induction l as [|a r IH]; intros p fuel S L; simpl in *.
  - destruct fuel; auto.
  - destruct fuel; [lia|]. destruct S as (S1 & S2 & S3 & S4). simpl.
    rewrite nth_error_nd by auto. rewrite S3. f_equal. eapply IH; eauto. lia.
Qed.

Lemma walk_bwd m l : forall n fuel, seg m None l n -> (length l <= fuel)%nat ->
  walk nprev m fuel (last_or None l) = rev (absl m l).
Proof.
  induction l as [|a l IH] using rev_ind; intros n fuel S L.
  - destruct fuel; auto.
  - apply seg_app in S. destruct S as [S1 S2]. simpl in S2. destruct S2 as (S21 & S22 & _).
    rewrite last_or_app. simpl. rewrite app_length in L. simpl in L. destruct fuel; [lia|]. simpl.
    rewrite nth_error_nd by auto. unfold absl. rewrite map_app, rev_app_distr. simpl. f_equal.
    rewrite S22. eapply IH; eauto. lia.
Qed.

Lemma chain_length m p l n : NoDup l -> seg m p l n -> (length l <= length m)%nat.
Proof.
  intros ND S. rewrite <- (seq_length (length m) 0). apply NoDup_incl_length; auto.
  intros a Ha. apply in_seq. pose proof (seg_bound _ _ _ _ S a Ha). lia.
Qed.

Theorem om_list_abs o l : InvL o l -> om_list o = absl (mem o) l.
Proof.
  intros I. unfold om_list. rewrite (i_head _ _ I). eapply walk_fwd. apply (i_seg _ _ I).
  eapply chain_length. apply I. apply (i_seg _ _ I).
Qed.

Theorem om_rlist_rev o : Inv o -> om_rlist o = rev (om_list o).
Proof.
  intros [l I]. rewrite (om_list_abs _ _ I). unfold om_rlist. rewrite (i_tail _ _ I). eapply walk_bwd. apply (i_seg _ _ I).
  eapply chain_length. apply I. apply (i_seg _ _ I).
Qed.

(* ---------- list-level facts ---------- *)

Lemma l_get_absl m l k : l_get (absl m l) k = option_map (fun a => nval (nd m a)) (find_addr m l k).
Proof.
  induction l; simpl; auto. destruct (k =? nkey (nd m a)); auto.
Qed.

Lemma find_addr_split m l k a : find_addr m l k = Some a ->
  exists l1 l2, l = l1 ++ a :: l2 /\ nkey (nd m a) = k /\ find_addr m l1 k = None.
Proof.
  induction l as [|b r IH]; simpl; [discriminate|].
  destruct (k =? nkey (nd m b)) eqn:E; intros H.
  - inversion H; subst. exists [], r. apply N.eqb_eq in E. auto.
  - destruct (IH H) as (l1 & l2 & -> & K & F). exists (b :: l1), l2. simpl. rewrite E. auto.
Qed.

Lemma find_addr_app m l1 l2 k :
  find_addr m (l1 ++ l2) k = match find_addr m l1 k with Some a => Some a | None => find_addr m l2 k end.
Proof. induction l1; simpl; auto. destruct (k =? _); auto. Qed.

Lemma find_addr_none m l k : find_addr m l k = None <-> ~ In k (map fst (absl m l)).
Proof.
  induction l; simpl; [tauto|]. destruct (k =? nkey (nd m a)) eqn:E.
  - apply N.eqb_eq in E. split; [discriminate|]. intros H; exfalso; apply H; auto.
  - apply N.eqb_neq in E. rewrite IHl. split; intros H; [intros [X|X]; auto; congruence | auto].
Qed.

Lemma find_addr_in m l k a : find_addr m l k = Some a -> In a l.
Proof. intros H. destruct (find_addr_split _ _ _ _ H) as (l1 & l2 & -> & _). apply in_or_app; right; left; auto. Qed.

Lemma l_set_absent l k v : l_get l k = None -> l_set l k v = l ++ [(k, v)].
Proof.
  induction l as [|[k' v'] r IH]; simpl; auto. destruct (k =? k'); [discriminate|]. intros H; rewrite IH; auto.
Qed.

Lemma l_get_none_keys l k : l_get l k = None <-> ~ In k (map fst l).
Proof.
  induction l as [|[k' v'] r IH]; simpl; [tauto|]. destruct (k =? k') eqn:E.
  - apply N.eqb_eq in E. split; [discriminate|]. intros H; exfalso; apply H; auto.
  - apply N.eqb_neq in E. rewrite IH. split; intros H; [intros [X|X]; auto; congruence | auto].
Qed.

Lemma l_del_app_absent l1 k v l2 : ~ In k (map fst l1) -> l_del (l1 ++ (k, v) :: l2) k = l1 ++ l2.
Proof.
  induction l1 as [|[k' v'] r IH]; simpl; intros H.
  - rewrite N.eqb_refl; auto.
  - destruct (k =? k') eqn:E. apply N.eqb_eq in E. exfalso; apply H; auto. rewrite IH; auto.
Qed.

Lemma absl_upd_val m l k a v : NoDup l -> (forall b, In b l -> (b < length m)%nat) -> find_addr m l k = Some a ->
  absl (upd m a (set_val v)) l = l_set (absl m l) k v.
Proof.
  induction l as [|b r IH]; simpl; [discriminate|]. intros ND B F. inversion ND; subst.
  destruct (k =? nkey (nd m b)) eqn:E.
  - inversion F; subst. apply N.eqb_eq in E. rewrite nd_upd_same by auto.
    unfold kv at 1. destruct (nd m a) eqn:En; simpl in *. subst. f_equal.
    unfold absl. apply map_ext_in. intros c Hc. rewrite nd_upd_other; auto. intros ->; auto.
  - assert (a <> b). { intros ->. apply H1. eapply find_addr_in; eauto. }
    rewrite nd_upd_other by auto. f_equal. apply IH; auto.
Qed.

(* ---------- dictionary ---------- *)

Lemma dget_ddel d k k' : dget (ddel d k) k' = if k' =? k then None else dget d k'.
Proof.
  induction d as [|[k0 a] r IH]; simpl. destruct (k' =? k); auto.
  destruct (k =? k0) eqn:E.
  - apply N.eqb_eq in E; subst. rewrite IH. destruct (k' =? k0); auto.
  - simpl. rewrite IH. destruct (k' =? k0) eqn:E2; auto. apply N.eqb_eq in E2; subst.
    rewrite N.eqb_sym, E; auto.
Qed.

Lemma dget_dset d k a k' : dget (dset d k a) k' = if k' =? k then Some a else dget d k'.
Proof. unfold dset; simpl. rewrite dget_ddel. destruct (k' =? k); auto. Qed.

(* ---------- the operations ---------- *)

Lemma inv_empty : InvL om_empty [].
Proof. constructor; simpl; auto; constructor. Qed.

Lemma inv_clear o : InvL (om_clear o) [].
Proof. constructor; simpl; auto; constructor. Qed.

Lemma has_spec o l k : InvL o l -> om_has o k = match l_get (om_list o) k with Some _ => true | None => false end.
Proof.
  intros I. rewrite (om_list_abs _ _ I), l_get_absl. unfold om_has. rewrite (i_dict _ _ I).
  destruct (find_addr (mem o) l k); auto.
Qed.

Lemma get_spec o k : Inv o -> om_get o k = l_get (om_list o) k.
Proof.
  intros [l I]. rewrite (om_list_abs _ _ I), l_get_absl. unfold om_get. rewrite (i_dict _ _ I).
  destruct (find_addr (mem o) l k) eqn:F; auto. simpl.
  rewrite nth_error_nd; auto. eapply seg_bound. apply (i_seg _ _ I). eapply find_addr_in; eauto.
Qed.

Lemma size_spec o : Inv o -> om_size o = length (om_list o).
Proof. intros [l I]. rewrite (om_list_abs _ _ I). unfold absl. rewrite map_length. apply I. Qed.

Lemma head_spec o : Inv o -> om_head o = hd_error (om_list o).
Proof.
  intros [l I]. rewrite (om_list_abs _ _ I). unfold om_head. rewrite (i_head _ _ I).
  destruct l; simpl; auto. rewrite nth_error_nd; auto. eapply seg_bound. apply (i_seg _ _ I). left; auto.
Qed.

Lemma tail_spec o : Inv o -> om_tail o = hd_error (rev (om_list o)).
Proof.
  intros [l I]. rewrite (om_list_abs _ _ I). unfold om_tail. rewrite (i_tail _ _ I).
  destruct l as [|a l] using rev_ind; simpl; auto. clear IHl.
  rewrite last_or_app. simpl. unfold absl. rewrite map_app, rev_app_distr. simpl.
  rewrite nth_error_nd; auto. eapply seg_bound. apply (i_seg _ _ I). apply in_or_app; right; left; auto.
Qed.

Theorem set_spec o k v : Inv o ->
  Inv (fst (om_set o k v)) /\ om_list (fst (om_set o k v)) = l_set (om_list o) k v /\ snd (om_set o k v) = l_get (om_list o) k.
Proof.
  intros [l I]. pose proof (om_list_abs _ _ I) as A. rewrite A.
  pose proof (seg_bound _ _ _ _ (i_seg _ _ I)) as B.
  unfold om_set. rewrite (i_dict _ _ I). rewrite l_get_absl.
  destruct (find_addr (mem o) l k) as [a|] eqn:F.
  - (* existing key: overwrite the value *)
    simpl.
    assert (I' : InvL (mkOM (upd (mem o) a (set_val v)) (head o) (tail o) (dict o) (size o)) l).
    { constructor; simpl; try apply I.
      - apply seg_upd_ptr. apply ptr_set_val. apply I.
      - rewrite (absl_upd_val _ _ k a v); auto. 2: apply I.
        clear - I. pose proof (i_keys _ _ I) as K. revert K. generalize (absl (mem o) l). intros x.
        assert (E : map fst (l_set x k v) = map fst x \/ ~ In k (map fst x) /\ map fst (l_set x k v) = map fst x ++ [k]).
        { induction x as [|[k' v'] r IH]; simpl. right; auto.
          destruct (k =? k') eqn:E. left; auto. apply N.eqb_neq in E. simpl.
          destruct IH as [->| [NI ->]]; [left; auto|right]. split; auto. intros [X|X]; auto; congruence. }
        destruct E as [->|[NI ->]]; auto. intros; apply NoDup_app_snoc; auto.
      - intros k'. rewrite (i_dict _ _ I). symmetry. apply find_addr_ext. intros b Hb.
        destruct (Nat.eq_dec a b) as [->|E];
          [rewrite nd_upd_same by auto; destruct (nd (mem o) b); reflexivity | rewrite nd_upd_other by auto; reflexivity]. }
    split; [eexists; eauto|]. split.
    + rewrite (om_list_abs _ _ I'). simpl. apply absl_upd_val; auto. apply I.
    + rewrite nth_error_nd; auto. apply B. eapply find_addr_in; eauto.
  - (* new key: append *)
    simpl. pose proof F as Fk. apply find_addr_none in Fk.
    assert (G : l_get (absl (mem o) l) k = None). { apply l_get_none_keys; auto. }
    rewrite (l_set_absent _ _ _ G).
    set (a := length (mem o)).
    assert (NIa : ~ In a l). { intros H. apply B in H. unfold a in H. lia. }
    destruct l as [|t0 l0] using rev_ind.
    + (* empty map *)
      rewrite (i_head _ _ I), (i_tail _ _ I). simpl.
      assert (I' : InvL (mkOM (mem o ++ [mkNode k v None None]) (Some a) (Some a) (dset (dict o) k a) (S (size o))) [a]).
      { constructor; cbn [mem head tail dict size]; auto.
        - constructor; auto. constructor.
        - simpl. unfold a. rewrite nd_app_new, app_length. simpl. repeat split; auto. lia.
        - rewrite (i_size _ _ I); auto.
        - simpl. unfold a; rewrite nd_app_new; simpl. constructor; auto. constructor.
        - intros k'. rewrite dget_dset. simpl. unfold a; rewrite nd_app_new; simpl. destruct (k' =? k); auto.
          rewrite (i_dict _ _ I); auto. }
      split; [eexists; eauto|]. split; auto. rewrite (om_list_abs _ _ I'). simpl. unfold a. rewrite nd_app_new. auto.
    + (* non-empty map: link behind the tail t0 *)
      clear IHl0. rewrite (i_head _ _ I), (i_tail _ _ I). rewrite last_or_app. simpl.
      pose proof (i_nodup _ _ I) as ND. apply NoDup_remove_2 in ND. rewrite app_nil_r in ND.
      destruct (hd_or (l0 ++ [t0]) None) as [h|] eqn:Eh. 2: { destruct l0; discriminate. }
      set (m1 := upd (mem o) t0 (set_next (Some a))).
      set (m' := m1 ++ [mkNode k v (Some t0) None]).
      assert (Lm1 : length m1 = length (mem o)) by apply length_upd.
      assert (Ea : nd m' a = mkNode k v (Some t0) None). { unfold m', a. rewrite <- Lm1. apply nd_app_new. }
      assert (Eold : forall b, In b (l0 ++ [t0]) -> kv (nd m' b) = kv (nd (mem o) b)).
      { intros b Hb. unfold m'. rewrite nd_app1 by (rewrite Lm1; auto). unfold m1. apply nd_upd_kv. apply kv_set_next. }
      assert (Eabs : absl m' (l0 ++ [t0]) = absl (mem o) (l0 ++ [t0])). { apply map_ext_in; auto. }
      assert (I' : InvL (mkOM m' (Some h) (Some a) (dset (dict o) k a) (S (size o))) ((l0 ++ [t0]) ++ [a])).
      { constructor; cbn [mem head tail dict size].
        - apply NoDup_app_snoc; auto. apply I.
        - apply seg_app. split.
          + simpl. unfold m'. apply seg_app_mem. unfold m1. eapply seg_set_next_last; auto. apply (i_seg _ _ I).
          + rewrite last_or_app. simpl. rewrite Ea. simpl. unfold m'. rewrite app_length, Lm1. simpl. fold a.
            repeat split; auto. lia.
        - rewrite hd_or_app. rewrite <- Eh. destruct (l0 ++ [t0]) eqn:X; auto. destruct l0; discriminate.
        - rewrite last_or_app. reflexivity.
        - rewrite (i_size _ _ I). rewrite (app_length (l0 ++ [t0])). simpl. lia.
        - unfold absl at 1. rewrite map_app. fold (absl m' (l0 ++ [t0])). rewrite Eabs. simpl. rewrite Ea.
          rewrite map_app. simpl. apply NoDup_app_snoc; auto. apply I.
        - intros k'. rewrite dget_dset, find_addr_app. simpl. rewrite Ea. simpl.
          rewrite (find_addr_ext (mem o) m'). 2: { intros b Hb. rewrite !nkey_kv, Eold; auto. }
          rewrite <- (i_dict _ _ I). destruct (k' =? k) eqn:E.
          + apply N.eqb_eq in E; subst. rewrite (i_dict _ _ I), F; auto.
          + destruct (dget (dict o) k'); auto. }
      split; [eexists; eauto|]. split; auto. cbn [fst].
      rewrite (om_list_abs _ _ I'). cbn [mem]. unfold absl at 1. rewrite map_app. fold (absl m' (l0 ++ [t0])). rewrite Eabs.
      simpl. rewrite Ea. reflexivity.
Qed.

(* ---------- Delete ---------- *)

Definition upd_opt (m : list node) (t : option nat) (f : node -> node) : list node :=
  match t with Some p => upd m p f | None => m end.

Lemma absl_upd_opt_kv m t f l : keeps_kv f -> absl (upd_opt m t f) l = absl m l.
Proof. destruct t; simpl; auto. apply absl_upd_kv. Qed.

Lemma find_addr_upd_opt_kv m t f l k : keeps_kv f -> find_addr (upd_opt m t f) l k = find_addr m l k.
Proof. destruct t; simpl; auto. apply find_addr_upd_kv. Qed.

Lemma l_del_absent l k : ~ In k (map fst l) -> l_del l k = l.
Proof.
  induction l as [|[k' v'] r IH]; simpl; auto. intros H. destruct (k =? k') eqn:E.
  - apply N.eqb_eq in E. exfalso; apply H; auto.
  - rewrite IH; auto.
Qed.

Lemma last_or_some b r : exists t, last_or (Some b) r = Some t.
Proof. revert b; induction r; intros b. exists b; auto. rewrite last_or_cons. apply IHr. Qed.

Lemma stepA m l1 a l2 x :
  NoDup (l1 ++ a :: l2) -> seg m None l1 (Some a) -> seg m (Some a) l2 None ->
  let m1 := upd_opt m (last_or None l1) (set_next x) in
  seg m1 None l1 x /\ seg m1 (Some a) l2 None.
Proof.
  intros ND S1 S2. destruct l1 as [|p l1 _] using rev_ind; simpl.
  - unfold last_or; simpl. auto.
  - rewrite last_or_app. simpl. rewrite <- app_assoc in ND. simpl in ND. split.
    + eapply seg_set_next_last; eauto.
      apply NoDup_remove_2 in ND. intros H; apply ND. apply in_or_app; auto.
    + apply seg_upd_out; auto. apply NoDup_remove_2 in ND. intros H; apply ND. apply in_or_app; right; right; auto.
Qed.

Lemma stepB m l1 a l2 q x :
  NoDup (l1 ++ a :: l2) -> seg m None l1 x -> seg m (Some a) l2 None ->
  let m2 := upd_opt m (hd_or l2 None) (set_prev q) in
  seg m2 None l1 x /\ seg m2 q l2 None.
Proof.
  intros ND S1 S2. destruct l2 as [|y r]; simpl; auto.
  assert (NDy : NoDup (y :: r)). { apply NoDup_app_r in ND. inversion ND; auto. }
  split.
  - apply seg_upd_out; auto. intros H.
    assert (X : NoDup (l1 ++ (a :: y :: r))) by auto.
    clear - X H. induction l1; simpl in *. tauto. inversion X; subst. destruct H as [->|H]; auto.
    apply H2. apply in_or_app; right; right; left; auto.
  - eapply seg_set_prev_first; eauto. inversion NDy; auto.
Qed.

Theorem delete_spec o k : Inv o ->
  Inv (fst (om_delete o k)) /\ om_list (fst (om_delete o k)) = l_del (om_list o) k /\
  snd (om_delete o k) = match l_get (om_list o) k with Some _ => true | None => false end.
Proof.
  intros [l I]. pose proof (om_list_abs _ _ I) as A.
  pose proof (seg_bound _ _ _ _ (i_seg _ _ I)) as B.
  unfold om_delete. rewrite (i_dict _ _ I). rewrite A, l_get_absl.
  destruct (find_addr (mem o) l k) as [a|] eqn:F.
  2: { simpl. split; [exists l; auto|]. split; auto. rewrite A. symmetry. apply l_del_absent. apply find_addr_none; auto. }
  destruct (find_addr_split _ _ _ _ F) as (l1 & l2 & -> & K & F1).
  rewrite nth_error_nd by (apply B; apply in_or_app; right; left; auto).
  set (n := nd (mem o) a) in *. cbn [fst snd option_map].
  pose proof (i_seg _ _ I) as S. apply seg_app in S. destruct S as [S1 S2]. cbn [seg hd_or] in S1, S2.
  destruct S2 as (Sa & Sp & Sn & S2). fold n in Sp, Sn.
  pose proof (i_nodup _ _ I) as ND.
  change (match nprev n with Some p => upd (mem o) p (set_next (nnext n)) | None => mem o end)
    with (upd_opt (mem o) (nprev n) (set_next (nnext n))).
  set (m1 := upd_opt (mem o) (nprev n) (set_next (nnext n))).
  change (match nnext n with Some x => upd m1 x (set_prev (nprev n)) | None => m1 end)
    with (upd_opt m1 (nnext n) (set_prev (nprev n))).
  set (m2 := upd_opt m1 (nnext n) (set_prev (nprev n))).
  assert (SA : seg m1 None l1 (nnext n) /\ seg m1 (Some a) l2 None).
  { unfold m1. rewrite Sp. exact (stepA (mem o) l1 a l2 (nnext n) ND S1 S2). }
  assert (SB : seg m2 None l1 (nnext n) /\ seg m2 (nprev n) l2 None).
  { unfold m2. destruct SA as [H H0]. pose proof (stepB m1 l1 a l2 (nprev n) (nnext n) ND H H0) as X.
    cbv zeta in X. rewrite <- Sn in X. exact X. }
  assert (Eabs : forall x, absl m2 x = absl (mem o) x).
  { intros. unfold m2, m1. rewrite !absl_upd_opt_kv; auto using kv_set_next, kv_set_prev. }
  assert (Efa : forall x k', find_addr m2 x k' = find_addr (mem o) x k').
  { intros. unfold m2, m1. rewrite !find_addr_upd_opt_kv; auto using kv_set_next, kv_set_prev. }
  pose proof (i_keys _ _ I) as KD. unfold absl in KD. rewrite !map_app in KD. cbn [map] in KD.
  assert (K1 : ~ In k (map fst (absl (mem o) l1))) by (apply find_addr_none; auto).
  assert (K2 : ~ In k (map fst (absl (mem o) l2))).
  { apply NoDup_remove_2 in KD. fold n in KD. unfold kv in KD. cbn [fst] in KD. rewrite K in KD.
    intros H; apply KD. apply in_or_app; right. exact H. }
  assert (I' : InvL (mkOM m2 (match nprev n with Some _ => head o | None => nnext n end)
                          (match nnext n with Some _ => tail o | None => nprev n end)
                          (ddel (dict o) k) (pred (size o))) (l1 ++ l2)).
  { constructor; cbn [mem head tail dict size].
    - apply NoDup_remove_1 in ND; auto.
    - apply seg_app. rewrite <- Sn, <- Sp. auto.
    - rewrite (i_head _ _ I), Sp, Sn. rewrite !hd_or_app. destruct l1 as [|b r]; auto.
      cbn [hd_or]. rewrite last_or_cons. destruct (last_or_some b r) as [t ->]. auto.
    - rewrite (i_tail _ _ I), Sp, Sn. rewrite !last_or_app, last_or_cons. destruct l2 as [|y r]; auto.
    - rewrite (i_size _ _ I). rewrite !app_length. simpl. lia.
    - rewrite Eabs. unfold absl. rewrite map_app, map_app. apply NoDup_remove_1 in KD. exact KD.
    - intros k'. rewrite dget_ddel, Efa, (i_dict _ _ I). rewrite !find_addr_app. cbn [find_addr]. fold n. rewrite K.
      destruct (k' =? k) eqn:E.
      + apply N.eqb_eq in E; subst. rewrite F1. symmetry. apply find_addr_none; auto.
      + destruct (find_addr (mem o) l1 k'); auto. }
  split; [eexists; eauto|]. split; auto.
  rewrite (om_list_abs _ _ I'). cbn [mem]. rewrite Eabs. unfold absl. rewrite !map_app. cbn [map].
  change (kv (nd (mem o) a)) with (nkey n, nval n). rewrite K. apply eq_sym, l_del_app_absent. exact K1.
Qed.

Theorem clear_spec o : Inv (om_clear o) /\ om_list (om_clear o) = [].
Proof.
  split. exists []; apply inv_clear. unfold om_list, om_clear; simpl. destruct (length (mem o)); auto.
Qed.

Theorem empty_spec : Inv om_empty /\ om_list om_empty = [].
Proof. split. exists []; apply inv_empty. reflexivity. Qed.

Theorem has_spec' o k : Inv o -> om_has o k = match l_get (om_list o) k with Some _ => true | None => false end.
Proof. intros [l I]. eapply has_spec; eauto. Qed.

Theorem keys_nodup o : Inv o -> NoDup (map fst (om_list o)).
Proof. intros [l I]. rewrite (om_list_abs _ _ I). apply I. Qed.
