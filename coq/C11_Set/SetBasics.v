(* C11 - ds.Set single-element operations at the level of the element list (s_toslice), derived from Refine.v. *)
From Coq Require Import NArith List Bool Lia.
From Verif.C11_Set Require Import Model Refine.
Import ListNotations.
Open Scope N_scope.

Lemma inb_In e l : inb e l = true <-> In e l.
Proof.
  unfold inb. rewrite existsb_exists. split.
  - intros (x & H & E). apply N.eqb_eq in E; subst; auto.
  - intros H; exists e; split; auto. apply N.eqb_refl.
Qed.

Lemma inb_false e l : inb e l = false <-> ~ In e l.
Proof. rewrite <- inb_In. destruct (inb e l); split; congruence. Qed.

Lemma l_get_keys l k : (match l_get l k with Some _ => true | None => false end) = inb k (map fst l).
Proof.
  induction l as [|[k' v'] r IH]; simpl; auto. destruct (k =? k'); simpl; auto.
Qed.

Lemma keys_l_set l k v : map fst (l_set l k v) = e_add (map fst l) k.
Proof.
  unfold e_add. induction l as [|[k' v'] r IH]; simpl; auto.
  destruct (k =? k') eqn:E; simpl; auto. rewrite IH. destruct (inb k (map fst r)); auto.
Qed.

Lemma keys_l_del l k : NoDup (map fst l) -> map fst (l_del l k) = e_del (map fst l) k.
Proof.
  unfold e_del. induction l as [|[k' v'] r IH]; simpl; auto. intros ND; inversion ND; subst.
  destruct (k =? k') eqn:E; simpl.
  - apply N.eqb_eq in E; subst. rewrite N.eqb_refl. simpl.
    symmetry. clear - H1. induction (map fst r) as [|x xs IHx]; simpl; auto.
    destruct (x =? k') eqn:E. apply N.eqb_eq in E; subst. exfalso; apply H1; left; auto.
    simpl. f_equal. apply IHx. intros H; apply H1; right; auto.
  - rewrite N.eqb_sym, E. simpl. f_equal; auto.
Qed.

Theorem toslice_nodup s : Inv s -> NoDup (s_toslice s).
Proof. apply keys_nodup. Qed.

Theorem has_toslice s e : Inv s -> om_has s e = inb e (s_toslice s).
Proof. intros I. rewrite has_spec' by auto. apply l_get_keys. Qed.

Theorem size_toslice s : Inv s -> om_size s = length (s_toslice s).
Proof. intros I. rewrite size_spec by auto. unfold s_toslice. rewrite map_length; auto. Qed.

Theorem add_spec s e : Inv s ->
  Inv (fst (s_add s e)) /\ s_toslice (fst (s_add s e)) = e_add (s_toslice s) e /\
  snd (s_add s e) = negb (inb e (s_toslice s)).
Proof.
  intros I. destruct (set_spec s e 0 I) as (I' & L & R). unfold s_add.
  destruct (om_set s e 0) as [s' p]; simpl in *. split; auto. split.
  - unfold s_toslice. rewrite L. apply keys_l_set.
  - rewrite R. unfold s_toslice. rewrite <- l_get_keys. destruct (l_get (om_list s) e); auto.
Qed.

Theorem del_spec s e : Inv s ->
  Inv (fst (s_delete s e)) /\ s_toslice (fst (s_delete s e)) = e_del (s_toslice s) e /\
  snd (s_delete s e) = inb e (s_toslice s).
Proof.
  intros I. destruct (delete_spec s e I) as (I' & L & R). unfold s_delete.
  split; auto. split.
  - unfold s_toslice. rewrite L. apply keys_l_del. apply keys_nodup; auto.
  - rewrite R. apply l_get_keys.
Qed.

Theorem setkey_spec s e : Inv s ->
  Inv (fst (om_set s e 0)) /\ s_toslice (fst (om_set s e 0)) = e_add (s_toslice s) e.
Proof.
  intros I. destruct (set_spec s e 0 I) as (I' & L & R). split; auto.
  unfold s_toslice. rewrite L. apply keys_l_set.
Qed.

Theorem empty_toslice : Inv om_empty /\ s_toslice om_empty = [].
Proof. split. apply empty_spec. reflexivity. Qed.

Theorem clear_toslice s : Inv (om_clear s) /\ s_toslice (om_clear s) = [].
Proof. destruct (clear_spec s) as [I L]. split; auto. unfold s_toslice; rewrite L; auto. Qed.

(* element-list facts *)
Lemma e_add_in l e x : In x (e_add l e) <-> In x l \/ x = e.
Proof.
  unfold e_add. destruct (inb e l) eqn:E.
  - apply inb_In in E. split; auto. intros [H|H]; subst; auto.
  - rewrite in_app_iff. simpl. intuition.
Qed.

Lemma e_del_in l e x : In x (e_del l e) <-> In x l /\ x <> e.
Proof.
  unfold e_del. rewrite filter_In. rewrite negb_true_iff, N.eqb_neq. tauto.
Qed.

Lemma e_add_nodup l e : NoDup l -> NoDup (e_add l e).
Proof.
  unfold e_add. destruct (inb e l) eqn:E; auto. intros. apply NoDup_app_snoc; auto. apply inb_false; auto.
Qed.

Lemma e_del_nodup l e : NoDup l -> NoDup (e_del l e).
Proof. apply NoDup_filter. Qed.
