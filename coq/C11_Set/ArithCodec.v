(* C11 - setArithmetic threshold crossings (ar_add / ar_sub) and the codec round trip (s_encode / s_decode),
   on top of the element-list facts of SetBasics.v. *)
From Coq Require Import NArith ZArith List Bool Lia.
From Verif.C11_Set Require Import Model Refine SetBasics.
Import ListNotations. Open Scope N_scope.

(* ====================================================================== *)
(* A. setArithmetic                                                        *)
(* ====================================================================== *)

(* the count of e has reached the threshold *)
Definition above (thr : Z) (c : list (N * Z)) (e : N) : bool := Z.leb thr (cget c e).

Definition delta (inc : bool) : Z := if inc then 1%Z else (-1)%Z.
Definition tval (inc : bool) (thr : Z) : Z := if inc then thr else (thr - 1)%Z.
(* one step of +-1 on e moves its count across the threshold *)
Definition cross (inc : bool) (thr : Z) (c : list (N * Z)) (e : N) : Prop := (cget c e + delta inc)%Z = tval inc thr.

Lemma cget_cset c a v e : cget (cset c a v) e = if e =? a then v else cget c e.
Proof. reflexivity. Qed.

Lemma inb_cons e a l : inb e (a :: l) = (e =? a) || inb e l.
Proof. reflexivity. Qed.

Lemma collect_step inc thr c t o a : Inv t -> Inv o ->
  let '(c', t', o') := collect inc thr (c, t, o) a in
  Inv t' /\ Inv o' /\ c' = cset c a (cget c a + delta inc)%Z /\
  (forall e, In e (s_toslice t') <-> In e (s_toslice t) \/ (e = a /\ cross inc thr c a /\ ~ In a (s_toslice o))) /\
  (forall e, In e (s_toslice o') <-> In e (s_toslice o) /\ ~ (e = a /\ cross inc thr c a)).
Proof.
  intros It Io. unfold collect.
  change (if inc then 1 else -1)%Z with (delta inc).
  change (if inc then thr else thr - 1)%Z with (tval inc thr).
  destruct (Z.eqb (cget c a + delta inc) (tval inc thr)) eqn:E.
  - apply Z.eqb_eq in E.
    destruct (del_spec o a Io) as (Io' & So' & Do').
    destruct (s_delete o a) as [o' dl]. cbn [fst snd] in *.
    destruct (inb a (s_toslice o)) eqn:Ia; subst dl.
    + apply inb_In in Ia.
      split; [auto|]. split; [auto|]. split; [reflexivity|]. split; intros e.
      * tauto.
      * rewrite So'. rewrite e_del_in. unfold cross.
        destruct (N.eq_dec e a) as [->|Ne]; tauto.
    + apply inb_false in Ia.
      destruct (add_spec t a It) as (It' & St' & _).
      split; [auto|]. split; [auto|]. split; [reflexivity|]. split; intros e.
      * rewrite St'. rewrite e_add_in. unfold cross. tauto.
      * rewrite So'. rewrite e_del_in. unfold cross.
        destruct (N.eq_dec e a) as [->|Ne]; tauto.
  - apply Z.eqb_neq in E.
    split; [auto|]. split; [auto|]. split; [reflexivity|]. unfold cross. split; intros e; tauto.
Qed.

(* fold of the collector over a duplicate-free list *)
Lemma collect_fold inc thr l : NoDup l -> forall c t o, Inv t -> Inv o ->
  let '(c', t', o') := fold_left (collect inc thr) l (c, t, o) in
  Inv t' /\ Inv o' /\
  (forall e, cget c' e = (cget c e + (if inb e l then delta inc else 0))%Z) /\
  (forall e, In e (s_toslice t') <-> In e (s_toslice t) \/ (In e l /\ cross inc thr c e /\ ~ In e (s_toslice o))) /\
  (forall e, In e (s_toslice o') <-> In e (s_toslice o) /\ ~ (In e l /\ cross inc thr c e)).
Proof.
  induction 1 as [|a l Hna ND IH]; intros c t o It Io.
  - cbn [fold_left]. split; [auto|]. split; [auto|]. split.
    + intros e. cbn. lia.
    + split; intros e; cbn [In]; tauto.
  - cbn [fold_left].
    pose proof (collect_step inc thr c t o a It Io) as S1.
    destruct (collect inc thr (c, t, o) a) as [[c1 t1] o1].
    destruct S1 as (It1 & Io1 & Ec & Ht1 & Ho1).
    specialize (IH c1 t1 o1 It1 Io1).
    destruct (fold_left (collect inc thr) l (c1, t1, o1)) as [[c' t'] o'].
    destruct IH as (It' & Io' & Hc' & Ht' & Ho').
    assert (CX : forall e, e <> a -> (cross inc thr c1 e <-> cross inc thr c e)).
    { intros e Ne. unfold cross. rewrite Ec, cget_cset.
      apply N.eqb_neq in Ne. rewrite Ne. tauto. }
    split; [auto|]. split; [auto|]. split; [|split]; intros e.
    + rewrite Hc', Ec, cget_cset, inb_cons.
      destruct (e =? a) eqn:Ea.
      * apply N.eqb_eq in Ea; subst e. apply inb_false in Hna. rewrite Hna. cbn [orb]. lia.
      * cbn [orb]. reflexivity.
    + pose proof (Ht' e) as H1. pose proof (Ht1 e) as H2. pose proof (Ho1 e) as H3. cbn [In].
      destruct (N.eq_dec e a) as [->|Ne].
      * tauto.
      * pose proof (CX e Ne) as H4. assert (a <> e) by congruence. tauto.
    + pose proof (Ho' e) as H1. pose proof (Ho1 e) as H3. cbn [In].
      destruct (N.eq_dec e a) as [->|Ne].
      * tauto.
      * pose proof (CX e Ne) as H4. assert (a <> e) by congruence. tauto.
Qed.

Theorem ar_add_spec : forall c adds dels thr, NoDup adds -> NoDup dels ->
  let '(c', a, d) := ar_add c adds dels thr in
  Inv a /\ Inv d /\
  (forall e, cget c' e = (cget c e + (if inb e adds then 1 else 0) - (if inb e dels then 1 else 0))%Z) /\
  (forall e, In e (s_toslice a) <-> (above thr c e = false /\ above thr c' e = true)) /\
  (forall e, In e (s_toslice d) <-> (above thr c e = true /\ above thr c' e = false)).
Proof.
  intros c adds dels thr NDa NDd. unfold ar_add.
  destruct empty_toslice as [I0 E0].
  pose proof (collect_fold true thr adds NDa c om_empty om_empty I0 I0) as P1.
  destruct (fold_left (collect true thr) adds (c, om_empty, om_empty)) as [[c1 a1] d1].
  destruct P1 as (Ia1 & Id1 & C1 & A1 & D1).
  change (swap3 (c1, a1, d1)) with (c1, d1, a1).
  pose proof (collect_fold false thr dels NDd c1 d1 a1 Id1 Ia1) as P2.
  destruct (fold_left (collect false thr) dels (c1, d1, a1)) as [[c2 d2] a2].
  destruct P2 as (Id2 & Ia2 & C2 & D2 & A2).
  change (swap3 (c2, d2, a2)) with (c2, a2, d2). cbn iota beta.
  rewrite E0 in *.
  assert (CC : forall e, cget c2 e = (cget c e + (if inb e adds then 1 else 0) - (if inb e dels then 1 else 0))%Z).
  { intros e. rewrite C2, C1. unfold delta. destruct (inb e adds), (inb e dels); lia. }
  split; [auto|]. split; [auto|]. split; [exact CC|]. split; intros e.
  - pose proof (A2 e) as HA2. pose proof (A1 e) as HA1. pose proof (CC e) as HC. pose proof (C1 e) as HC1.
    unfold above. rewrite Z.leb_gt, Z.leb_le. unfold cross, delta, tval in *. cbn [In] in *.
    pose proof (inb_In e adds) as Ha. pose proof (inb_In e dels) as Hd.
    destruct (Z.eq_dec (cget c e + 1) thr); destruct (Z.eq_dec (cget c1 e + -1) (thr - 1));
    destruct (inb e adds); destruct (inb e dels); intuition (try lia; try congruence).
  - pose proof (D2 e) as HD2. pose proof (D1 e) as HD1. pose proof (A1 e) as HA1.
    pose proof (CC e) as HC. pose proof (C1 e) as HC1.
    unfold above. rewrite Z.leb_gt, Z.leb_le. unfold cross, delta, tval in *. cbn [In] in *.
    pose proof (inb_In e adds) as Ha. pose proof (inb_In e dels) as Hd.
    destruct (Z.eq_dec (cget c e + 1) thr); destruct (Z.eq_dec (cget c1 e + -1) (thr - 1));
    destruct (inb e adds); destruct (inb e dels); intuition (try lia; try congruence).
Qed.

Theorem ar_sub_spec : forall c adds dels thr, NoDup adds -> NoDup dels ->
  let '(c', a, d) := ar_sub c adds dels thr in
  Inv a /\ Inv d /\
  (forall e, cget c' e = (cget c e - (if inb e adds then 1 else 0) + (if inb e dels then 1 else 0))%Z) /\
  (forall e, In e (s_toslice a) <-> (above thr c e = false /\ above thr c' e = true)) /\
  (forall e, In e (s_toslice d) <-> (above thr c e = true /\ above thr c' e = false)).
Proof.
  intros c adds dels thr NDa NDd. unfold ar_sub.
  destruct empty_toslice as [I0 E0].
  pose proof (collect_fold false thr adds NDa c om_empty om_empty I0 I0) as P1.
  destruct (fold_left (collect false thr) adds (c, om_empty, om_empty)) as [[c1 d1] a1].
  destruct P1 as (Id1 & Ia1 & C1 & D1 & A1).
  change (swap3 (c1, d1, a1)) with (c1, a1, d1).
  pose proof (collect_fold true thr dels NDd c1 a1 d1 Ia1 Id1) as P2.
  destruct (fold_left (collect true thr) dels (c1, a1, d1)) as [[c2 a2] d2].
  destruct P2 as (Ia2 & Id2 & C2 & A2 & D2).
  rewrite E0 in *.
  assert (CC : forall e, cget c2 e = (cget c e - (if inb e adds then 1 else 0) + (if inb e dels then 1 else 0))%Z).
  { intros e. rewrite C2, C1. unfold delta. destruct (inb e adds), (inb e dels); lia. }
  split; [auto|]. split; [auto|]. split; [exact CC|]. split; intros e.
  - pose proof (A2 e) as HA2. pose proof (A1 e) as HA1. pose proof (D1 e) as HD1.
    pose proof (CC e) as HC. pose proof (C1 e) as HC1.
    unfold above. rewrite Z.leb_gt, Z.leb_le. unfold cross, delta, tval in *. cbn [In] in *.
    pose proof (inb_In e adds) as Ha. pose proof (inb_In e dels) as Hd.
    destruct (Z.eq_dec (cget c e + -1) (thr - 1)); destruct (Z.eq_dec (cget c1 e + 1) thr);
    destruct (inb e adds); destruct (inb e dels); intuition (try lia; try congruence).
  - pose proof (D2 e) as HD2. pose proof (D1 e) as HD1.
    pose proof (CC e) as HC. pose proof (C1 e) as HC1.
    unfold above. rewrite Z.leb_gt, Z.leb_le. unfold cross, delta, tval in *. cbn [In] in *.
    pose proof (inb_In e adds) as Ha. pose proof (inb_In e dels) as Hd.
    destruct (Z.eq_dec (cget c e + -1) (thr - 1)); destruct (Z.eq_dec (cget c1 e + 1) thr);
    destruct (inb e adds); destruct (inb e dels); intuition (try lia; try congruence).
Qed.

(* non-vacuity: 1 crosses upwards, 2 goes up and down again (net nothing), 3 crosses downwards *)
Example ar_add_example :
  let '(c', a, d) := ar_add [(3, 1%Z)] [1; 2] [2; 3] 1 in
  (s_toslice a, s_toslice d, map (cget c') [1; 2; 3]) = ([1], [3], [1; 0; 0]%Z).
Proof. vm_compute. reflexivity. Qed.

Example ar_sub_example :
  let '(c', a, d) := ar_sub [(1, 1%Z); (2, 1%Z)] [1; 2] [2; 3] 1 in
  (s_toslice a, s_toslice d, map (cget c') [1; 2; 3]) = ([3], [1], [0; 1; 1]%Z).
Proof. vm_compute. reflexivity. Qed.

(* ====================================================================== *)
(* B. codec                                                                *)
(* ====================================================================== *)

Lemma u32_bytes n : n < 4294967296 ->
  n mod 256 + 256 * ((n / 256) mod 256) + 65536 * ((n / 65536) mod 256) + 16777216 * ((n / 16777216) mod 256) = n.
Proof.
  intros Hn.
  assert (E2 : n / 65536 = n / 256 / 256) by (rewrite N.div_div by lia; reflexivity).
  assert (E3 : n / 16777216 = n / 256 / 256 / 256) by (rewrite !N.div_div by lia; reflexivity).
  assert (L3 : n / 16777216 < 256) by (apply N.div_lt_upper_bound; lia).
  rewrite (N.mod_small (n / 16777216) 256) by exact L3.
  rewrite E2. rewrite E3 in *.
  pose proof (N.div_mod n 256) as D1.
  pose proof (N.div_mod (n / 256) 256) as D2.
  pose proof (N.div_mod (n / 256 / 256) 256) as D3.
  generalize dependent (n mod 256). generalize dependent ((n / 256) mod 256).
  generalize dependent ((n / 256 / 256) mod 256). generalize dependent (n / 256 / 256 / 256).
  generalize dependent (n / 256 / 256). generalize dependent (n / 256).
  intros. lia.
Qed.

Theorem dec_enc_u32 n r : n < 4294967296 -> dec_u32 (enc_u32 n ++ r) = Some (n, r).
Proof.
  intros Hn. unfold enc_u32. cbn [app]. unfold dec_u32. rewrite (u32_bytes n Hn). reflexivity.
Qed.

Lemma enc_u32_length n : length (enc_u32 n) = 4%nat.
Proof. reflexivity. Qed.

Lemma flat_enc_length l : length (flat_map enc_u32 l) = (4 * length l)%nat.
Proof.
  induction l as [|a l IH]; auto. cbn [flat_map]. rewrite app_length, enc_u32_length, IH. cbn [length]. lia.
Qed.

Theorem encode_length s : length (s_encode s) = (4 + 4 * length (s_toslice s))%nat.
Proof. unfold s_encode. rewrite app_length, enc_u32_length, flat_enc_length. reflexivity. Qed.

Lemma dec_entries_enc l : forall s r read, Inv s -> (forall e, In e l -> e < 4294967296) ->
  let res := dec_entries s (length l) (flat_map enc_u32 l ++ r) read in
  snd res = Some (read + 4 * length l)%nat /\ Inv (fst res) /\
  s_toslice (fst res) = fold_left e_add l (s_toslice s).
Proof.
  induction l as [|a l IH]; intros s r read I B.
  - cbn [length dec_entries fst snd fold_left]. split; [f_equal; lia|]. auto.
  - cbn [length flat_map dec_entries]. rewrite <- app_assoc.
    rewrite dec_enc_u32 by (apply B; left; auto).
    destruct (setkey_spec s a I) as (I' & S').
    specialize (IH (fst (om_set s a 0)) r (read + 4)%nat I' (fun e H => B e (or_intror H))).
    cbn zeta in IH. destruct IH as (R1 & R2 & R3).
    cbn zeta. split; [rewrite R1; f_equal; lia|]. split; [auto|].
    rewrite R3, S'. reflexivity.
Qed.

Lemma fold_e_add_nodup l : forall p, NoDup (p ++ l) -> fold_left e_add l p = p ++ l.
Proof.
  induction l as [|a l IH]; intros p ND.
  - cbn. rewrite app_nil_r. auto.
  - cbn [fold_left].
    assert (Na : ~ In a p).
    { intros H. apply NoDup_remove_2 in ND. apply ND. apply in_or_app. auto. }
    unfold e_add at 2. apply inb_false in Na. rewrite Na.
    rewrite IH; rewrite <- app_assoc; auto.
Qed.

(* decoding an encoded set into an arbitrary set t: the elements of s are added to t in order *)
Theorem codec_decode_into : forall s t, Inv s -> Inv t ->
  (forall e, In e (s_toslice s) -> e < 4294967296) -> (N.of_nat (om_size s) < 4294967296) ->
  let '(s', r) := s_decode t (s_encode s) in
  r = Some (length (s_encode s)) /\ Inv s' /\ s_toslice s' = fold_left e_add (s_toslice s) (s_toslice t).
Proof.
  intros s t Is It B Sz.
  rewrite (encode_length s).
  unfold s_decode, s_encode. rewrite dec_enc_u32 by exact Sz.
  rewrite Nat2N.id, (size_toslice s Is).
  rewrite <- (app_nil_r (flat_map enc_u32 (s_toslice s))).
  pose proof (dec_entries_enc (s_toslice s) t [] 4%nat It B) as H. cbn zeta in H.
  destruct (dec_entries t (length (s_toslice s)) (flat_map enc_u32 (s_toslice s) ++ []) 4) as [s' r].
  cbn [fst snd] in H. exact H.
Qed.

Theorem codec_roundtrip : forall s, Inv s ->
  (forall e, In e (s_toslice s) -> e < 4294967296) -> (N.of_nat (om_size s) < 4294967296) ->
  let '(s', r) := s_decode om_empty (s_encode s) in
  r = Some (length (s_encode s)) /\ Inv s' /\ s_toslice s' = s_toslice s.
Proof.
  intros s Is B Sz. destruct empty_toslice as [I0 E0].
  pose proof (codec_decode_into s om_empty Is I0 B Sz) as H.
  destruct (s_decode om_empty (s_encode s)) as [s' r].
  destruct H as (H1 & H2 & H3). split; [auto|]. split; [auto|].
  rewrite H3, E0. apply (fold_e_add_nodup (s_toslice s) []). apply toslice_nodup; auto.
Qed.

(* non-vacuity *)
Example codec_example :
  let s := s_new [4294967295; 256; 0; 65536; 7] in
  let '(s', r) := s_decode om_empty (s_encode s) in
  (s_toslice s', r, length (s_encode s)) = ([4294967295; 256; 0; 65536; 7], Some 24%nat, 24%nat).
Proof. vm_compute. reflexivity. Qed.

Example codec_example_into :
  let s := s_new [4294967295; 256; 5] in
  let '(s', r) := s_decode (s_new [5; 9]) (s_encode s) in
  (s_toslice s', r) = ([5; 9; 4294967295; 256], Some 16%nat).
Proof. vm_compute. reflexivity. Qed.
